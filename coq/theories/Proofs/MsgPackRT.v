(* MsgPackRT.v — MessagePack serializer/deserializer model (Model/MsgPack.v).
   Part 1  big-endian helpers (be_bytes / be_value / signed_of)
   Part 2  integers: mp_int_roundtrip, mp_int_minimal
   Part 3  strings and headers: mp_str_roundtrip, header widths and first bytes
   floats  valid_binary -> the interchange encoding decodes back (valid_repr_ok); binary_normalize
           always yields a valid float (binary_normalize_valid; SpecFloat ships definitions only)
   Part 4  whole documents: mp_norm, mp_ok, mp_roundtrip, mp_run_roundtrip, mp_fixpoint
   Part 5  strict prefixes: mp_prefix_incomplete
   [rd_at l n] is the reader with [l] unread and [n] bytes consumed so far. *)
From Coq Require Import ZArith NArith List Bool Lia.
From Coq Require Import Floats.SpecFloat.
From AJ Require Import Model.Base Model.FloatModel Model.Value Model.JsonParse Model.MsgPack.
Local Open Scope Z_scope.

(* ------------------------------------------------------------------------------------- *)
(* Part 1 — big-endian helpers *)

Lemma be_bytes_length : forall w z, length (be_bytes w z) = w.
Proof. induction w as [|w IH]; intros z; cbn [be_bytes length]; auto. Qed.

Lemma be_bytes_range : forall w z, Forall (fun b => (b < 256)%N) (be_bytes w z).
Proof.
  induction w as [|w IH]; intros z; cbn [be_bytes]; constructor; auto.
  pose proof (Z.mod_pos_bound (z / 2 ^ (8 * Z.of_nat w)) 256). lia.
Qed.

Lemma be_value_be_bytes_gen : forall w z acc,
  be_value (be_bytes w z) acc = acc * 2 ^ (8 * Z.of_nat w) + z mod 2 ^ (8 * Z.of_nat w).
Proof.
  induction w as [|w IH]; intros z acc.
  - cbn [be_bytes be_value]. change (2 ^ (8 * Z.of_nat 0)) with 1. rewrite Z.mod_1_r. lia.
  - cbn [be_bytes be_value]. rewrite IH.
    rewrite Z2N.id by (apply Z.mod_pos_bound; lia).
    replace (8 * Z.of_nat (S w)) with (8 * Z.of_nat w + 8) by lia.
    rewrite Z.pow_add_r by lia. change (2 ^ 8) with 256.
    set (P := 2 ^ (8 * Z.of_nat w)).
    assert (HP : 0 < P) by (apply Z.pow_pos_nonneg; lia).
    rewrite (Z.rem_mul_r z P 256) by lia. ring.
Qed.

Lemma be_value_be_bytes_mod : forall w z,
  be_value (be_bytes w z) 0 = z mod 2 ^ (8 * Z.of_nat w).
Proof. intros. rewrite be_value_be_bytes_gen. lia. Qed.

Lemma be_value_be_bytes : forall w z, 0 <= z < 2 ^ (8 * Z.of_nat w) -> be_value (be_bytes w z) 0 = z.
Proof. intros w z H. rewrite be_value_be_bytes_mod. apply Z.mod_small. exact H. Qed.

Lemma signed_of_be_bytes : forall w z,
  - 2 ^ (8 * Z.of_nat w - 1) <= z < 2 ^ (8 * Z.of_nat w - 1) ->
  signed_of w (be_value (be_bytes w z) 0) = z.
Proof.
  intros w z H.
  assert (Hw : (1 <= w)%nat).
  { destruct w as [|w]; [|lia]. change (2 ^ (8 * Z.of_nat 0 - 1)) with 0 in H. lia. }
  rewrite be_value_be_bytes_mod. unfold signed_of.
  set (k := 8 * Z.of_nat w) in *.
  assert (Hk : 2 ^ k = 2 * 2 ^ (k - 1)).
  { replace k with (k - 1 + 1) at 1 by lia. rewrite Z.pow_add_r by lia. lia. }
  assert (Hp : 0 < 2 ^ (k - 1)) by (apply Z.pow_pos_nonneg; lia).
  destruct (Z.ltb_spec z 0) as [Hn|Hn].
  - assert (E : z mod 2 ^ k = z + 2 ^ k).
    { symmetry. apply (Z.mod_unique z (2 ^ k) (-1)); lia. }
    rewrite E. destruct (Z.ltb_spec (z + 2 ^ k) (2 ^ (k - 1))); lia.
  - rewrite Z.mod_small by lia. destruct (Z.ltb_spec z (2 ^ (k - 1))); lia.
Qed.

(* ------------------------------------------------------------------------------------- *)
(* reader steps *)

Definition rd_at (l : bytes) (n : N) : mrd := {| m_rest := l; m_reads := n |}.

Lemma firstn_length_app : forall (A : Type) (l r : list A), firstn (length l) (l ++ r) = l.
Proof. induction l as [|x l IH]; intros r; cbn [length firstn app]; [reflexivity|]. rewrite IH. reflexivity. Qed.

Lemma skipn_length_app : forall (A : Type) (l r : list A), skipn (length l) (l ++ r) = r.
Proof. induction l as [|x l IH]; intros r; cbn [length skipn app]; auto. Qed.

Lemma read_n_app : forall l rest n,
  read_n (length l) (rd_at (l ++ rest) n) = (Some l, rd_at rest (n + N.of_nat (length l))).
Proof.
  intros l rest n. unfold read_n, rd_at. cbn [m_rest m_reads].
  rewrite firstn_length_app, skipn_length_app, Nat.eqb_refl. reflexivity.
Qed.

Lemma read_n_app' : forall w l rest n, length l = w ->
  read_n w (rd_at (l ++ rest) n) = (Some l, rd_at rest (n + N.of_nat w)).
Proof. intros w l rest n <-. apply read_n_app. Qed.

Lemma read_z_app : forall z l rest n, Z.of_nat (length l) = z ->
  read_z z (rd_at (l ++ rest) n) = (Some l, rd_at rest (n + N.of_nat (length l))).
Proof.
  intros z l rest n <-. unfold read_z. cbn [rd_at m_rest].
  rewrite app_length.
  destruct (Z.leb_spec (Z.of_nat (length l)) (Z.of_nat (length l + length rest))) as [_|H]; [|lia].
  rewrite Nat2Z.id. apply read_n_app.
Qed.

Lemma read_1_cons : forall c rest n, read_n 1 (rd_at (c :: rest) n) = (Some [c], rd_at rest (n + 1)).
Proof. intros. reflexivity. Qed.

(* ------------------------------------------------------------------------------------- *)
(* mp_parse, one level, with the header decoding named *)

Definition size_bytes_of (c : Z) : nat :=
  if (c =? 0xC4) || (c =? 0xC7) || (c =? 0xD9) then 1%nat
  else if (c =? 0xC5) || (c =? 0xC8) || (c =? 0xDA) || (c =? 0xDC) || (c =? 0xDE) then 2%nat
  else if (c =? 0xC6) || (c =? 0xC9) || (c =? 0xDB) || (c =? 0xDD) || (c =? 0xDF) then 4%nat
  else 0%nat.

Definition is_fixext (c : Z) : bool := (0xD4 <=? c) && (c <=? 0xD8).
Definition is_ext_code (c : Z) : bool := ((0xC7 <=? c) && (c <=? 0xC9)) || is_fixext c.

Definition size0_of (c : Z) : Z :=
  if is_fixext c then 2 ^ (c - 0xD4)
  else if (Z.land c 0xF0 =? 0x90) || (Z.land c 0xF0 =? 0x80) then Z.land c 0x0F
  else if Z.land c 0xE0 =? 0xA0 then Z.land c 0x1F
  else 0.

Definition is_arr_code (c : Z) : bool := (c =? 0xDC) || (c =? 0xDD) || (Z.land c 0xF0 =? 0x90).
Definition is_map_code (c : Z) : bool := (c =? 0xDE) || (c =? 0xDF) || (Z.land c 0xF0 =? 0x80).
Definition is_str_code (c : Z) : bool :=
  (c =? 0xD9) || (c =? 0xDA) || (c =? 0xDB) || (Z.land c 0xE0 =? 0xA0).

Definition pvT := filter -> bool -> mrd -> code * jv * mrd.

(* everything after the scalar codes: strings, containers, bin/ext *)
Definition mp_tail (pv' : pvT) (Lz : bool) (f : filter) (cb : N) (r : mrd) : code * jv * mrd :=
  let c := Z.of_N cb in
  let allow := f_allow_value f in
  let size_bytes := size_bytes_of c in
  let hdr := if Nat.eqb size_bytes 0 then (Some [], r) else read_n size_bytes r in
  match hdr with
  | (None, r) => (IncompleteInput, JNull, r)
  | (Some hb, r) =>
      let size := if Nat.eqb size_bytes 0 then size0_of c else be_value hb 0 in
      if is_arr_code c then
        if Lz then (TooDeep, JNull, r)
        else
          let keep := f_allow_array f in
          let '(e, l, r) := mp_array_loop pv' (clip_count size r) (f_element f) keep [] r in
          (e, (if keep then JArr l else JNull), r)
      else if is_map_code c then
        if Lz then (TooDeep, JNull, r)
        else
          let keep := f_allow_object f in
          let '(e, l, r) := mp_object_loop pv' (clip_count size r) f [] r in
          (e, (if keep then JObj l else JNull), r)
      else if is_str_code c then
        if allow then
          if max_string_length <? size then (NoMemory, JNull, r)
          else
            match read_z size r with
            | (Some s, r) => (Ok, JStr s, r)
            | (None, r) => (IncompleteInput, JNull, r)
            end
        else let '(e, r) := mp_skip size r in (e, JNull, r)
      else
        let size := if is_ext_code c then size + 1 else size in
        if allow then
          let total := 1 + Z.of_nat size_bytes + size in
          if max_string_length <? total then (NoMemory, JNull, r)
          else
            match read_z size r with
            | (Some p, r) => (Ok, JRaw (cb :: hb ++ p), r)
            | (None, r) => (IncompleteInput, JNull, r)
            end
        else let '(e, r) := mp_skip size r in (e, JNull, r)
  end.

Definition mp_body (cf : cfg) (pv' : pvT) (Lz : bool) (f : filter) (r : mrd) : code * jv * mrd :=
  match read_n 1 r with
  | (Some [cb], r) =>
      let c := Z.of_N cb in
      let allow := f_allow_value f in
      if (0xCC <=? c) && (c <=? 0xD3) then
        let width := Z.to_nat (2 ^ ((c - 0xCC) mod 4)) in
        if allow then
          match read_n width r with
          | (Some l, r) =>
              let u := be_value l 0 in
              (Ok, JInt (if 0xD0 <=? c then signed_of width u else u), r)
          | (None, r) => (IncompleteInput, JNull, r)
          end
        else let '(e, r) := mp_skip (Z.of_nat width) r in (e, JNull, r)
      else if c =? 0xC0 then (Ok, JNull, r)
      else if c =? 0xC1 then (InvalidInput, JNull, r)
      else if (c =? 0xC2) || (c =? 0xC3) then (Ok, (if allow then JBool (c =? 0xC3) else JNull), r)
      else if c =? 0xCA then
        if allow then
          match read_n 4 r with
          | (Some l, r) => (Ok, JFloat (sf_of_bits F32 (be_value l 0)), r)
          | (None, r) => (IncompleteInput, JNull, r)
          end
        else let '(e, r) := mp_skip 4 r in (e, JNull, r)
      else if c =? 0xCB then
        if allow then
          match read_n 8 r with
          | (Some l, r) =>
              (Ok, jv_of_double (use_double cf) (sf_of_bits F64 (be_value l 0)), r)
          | (None, r) => (IncompleteInput, JNull, r)
          end
        else let '(e, r) := mp_skip 8 r in (e, JNull, r)
      else if (c <=? 0x7F) || (0xE0 <=? c) then
        (Ok, (if allow then JInt (signed_of 1 c) else JNull), r)
      else mp_tail pv' Lz f cb r
  | (_, r) => (IncompleteInput, JNull, r)
  end.

Definition pv_of (cf : cfg) (L : nat) : pvT :=
  match L with
  | O => (fun _ _ r => (TooDeep, JNull, r))
  | S L' => mp_parse cf L'
  end.
Definition is_O (L : nat) : bool := match L with O => true | S _ => false end.

Lemma mp_parse_eq : forall cf L f dst r,
  mp_parse cf L f dst r = mp_body cf (pv_of cf L) (is_O L) f r.
Proof. intros cf L f dst r. destruct L; reflexivity. Qed.

(* ------------------------------------------------------------------------------------- *)
(* bytes *)

Lemma bz_id : forall x, 0 <= x < 256 -> Z.of_N (bz x) = x.
Proof. intros x H. unfold bz. rewrite Z2N.id by (apply Z.mod_pos_bound; lia). apply Z.mod_small; exact H. Qed.

Lemma bz_mod : forall x, Z.of_N (bz x) = x mod 256.
Proof. intros x. unfold bz. rewrite Z2N.id by (apply Z.mod_pos_bound; lia). reflexivity. Qed.

Lemma be_bytes_1 : forall z, be_bytes 1 z = [bz z].
Proof. intros z. cbn [be_bytes]. change (2 ^ (8 * Z.of_nat 0)) with 1. rewrite Z.div_1_r. reflexivity. Qed.

(* ------------------------------------------------------------------------------------- *)
(* Part 2 — integers *)

Lemma body_intcode : forall cf pv' Lz cb rest k, 0xCC <= Z.of_N cb <= 0xD3 ->
  mp_body cf pv' Lz None (rd_at (cb :: rest) k) =
    let width := Z.to_nat (2 ^ ((Z.of_N cb - 0xCC) mod 4)) in
    match read_n width (rd_at rest (k + 1)) with
    | (Some l, r) =>
        (Ok, JInt (if 0xD0 <=? Z.of_N cb then signed_of width (be_value l 0) else be_value l 0), r)
    | (None, r) => (IncompleteInput, JNull, r)
    end.
Proof.
  intros cf pv' Lz cb rest k H. unfold mp_body. rewrite read_1_cons. cbv beta iota zeta.
  assert (E : (0xCC <=? Z.of_N cb) && (Z.of_N cb <=? 0xD3) = true).
  { apply andb_true_intro; split; apply Z.leb_le; lia. }
  rewrite E. cbn [f_allow_value]. reflexivity.
Qed.

Lemma body_fixint : forall cf pv' Lz cb rest k, Z.of_N cb <= 0x7F \/ 0xE0 <= Z.of_N cb ->
  mp_body cf pv' Lz None (rd_at (cb :: rest) k) = (Ok, JInt (signed_of 1 (Z.of_N cb)), rd_at rest (k + 1)).
Proof.
  intros cf pv' Lz cb rest k H. unfold mp_body. rewrite read_1_cons. cbv beta iota zeta.
  assert (E1 : (0xCC <=? Z.of_N cb) && (Z.of_N cb <=? 0xD3) = false).
  { apply andb_false_iff. destruct H; [left; apply Z.leb_gt|right; apply Z.leb_gt]; lia. }
  assert (E2 : (Z.of_N cb =? 0xC0) = false) by (apply Z.eqb_neq; lia).
  assert (E3 : (Z.of_N cb =? 0xC1) = false) by (apply Z.eqb_neq; lia).
  assert (E4 : (Z.of_N cb =? 0xC2) = false) by (apply Z.eqb_neq; lia).
  assert (E5 : (Z.of_N cb =? 0xC3) = false) by (apply Z.eqb_neq; lia).
  assert (E6 : (Z.of_N cb =? 0xCA) = false) by (apply Z.eqb_neq; lia).
  assert (E7 : (Z.of_N cb =? 0xCB) = false) by (apply Z.eqb_neq; lia).
  assert (E8 : (Z.of_N cb <=? 0x7F) || (0xE0 <=? Z.of_N cb) = true).
  { apply orb_true_iff. destruct H; [left|right]; apply Z.leb_le; lia. }
  rewrite E1, E2, E3, E4, E5, E6, E7, E8. reflexivity.
Qed.

Lemma reads_assoc : forall k w, (k + 1 + N.of_nat w = k + N.of_nat (S w))%N.
Proof. intros. lia. Qed.

Lemma body_uint_rt : forall cf pv' Lz cb w z rest k,
  0xCC <= Z.of_N cb <= 0xCF -> Z.to_nat (2 ^ ((Z.of_N cb - 0xCC) mod 4)) = w ->
  0 <= z < 2 ^ (8 * Z.of_nat w) ->
  mp_body cf pv' Lz None (rd_at ((cb :: be_bytes w z) ++ rest) k) =
    (Ok, JInt z, rd_at rest (k + N.of_nat (length (cb :: be_bytes w z)))).
Proof.
  intros cf pv' Lz cb w z rest k Hc Hw Hz. cbn [app length]. rewrite body_intcode by lia.
  cbv zeta. rewrite Hw. rewrite (read_n_app' w) by apply be_bytes_length.
  destruct (Z.leb_spec 0xD0 (Z.of_N cb)) as [H|_]; [lia|].
  rewrite be_value_be_bytes by exact Hz. rewrite be_bytes_length, reads_assoc. reflexivity.
Qed.

Lemma body_sint_rt : forall cf pv' Lz cb w z rest k,
  0xD0 <= Z.of_N cb <= 0xD3 -> Z.to_nat (2 ^ ((Z.of_N cb - 0xCC) mod 4)) = w ->
  - 2 ^ (8 * Z.of_nat w - 1) <= z < 2 ^ (8 * Z.of_nat w - 1) ->
  mp_body cf pv' Lz None (rd_at ((cb :: be_bytes w z) ++ rest) k) =
    (Ok, JInt z, rd_at rest (k + N.of_nat (length (cb :: be_bytes w z)))).
Proof.
  intros cf pv' Lz cb w z rest k Hc Hw Hz. cbn [app length]. rewrite body_intcode by lia.
  cbv zeta. rewrite Hw. rewrite (read_n_app' w) by apply be_bytes_length.
  destruct (Z.leb_spec 0xD0 (Z.of_N cb)) as [_|H]; [|lia].
  rewrite signed_of_be_bytes by assumption. rewrite be_bytes_length, reads_assoc. reflexivity.
Qed.

Lemma body_fixint_rt : forall cf pv' Lz z rest k, -32 <= z <= 127 ->
  mp_body cf pv' Lz None (rd_at (be_bytes 1 z ++ rest) k) =
    (Ok, JInt z, rd_at rest (k + N.of_nat (length (be_bytes 1 z)))).
Proof.
  intros cf pv' Lz z rest k Hz. rewrite be_bytes_1. cbn [app length].
  assert (Hb : Z.of_N (bz z) = z mod 256) by apply bz_mod.
  destruct (Z.ltb_spec z 0) as [Hn|Hn].
  - assert (E : z mod 256 = z + 256) by (symmetry; apply (Z.mod_unique z 256 (-1)); lia).
    rewrite body_fixint by lia. rewrite Hb, E. unfold signed_of.
    change (2 ^ (8 * Z.of_nat 1 - 1)) with 128. change (2 ^ (8 * Z.of_nat 1)) with 256.
    destruct (Z.ltb_spec (z + 256) 128); [lia|]. repeat f_equal. lia.
  - rewrite Z.mod_small in Hb by lia.
    rewrite body_fixint by lia. rewrite Hb. unfold signed_of.
    change (2 ^ (8 * Z.of_nat 1 - 1)) with 128.
    destruct (Z.ltb_spec z 128); [|lia]. reflexivity.
Qed.

Lemma mp_int_body : forall cf pv' Lz z rest k, - 2 ^ 63 <= z < 2 ^ 64 ->
  mp_body cf pv' Lz None (rd_at (mp_int z ++ rest) k) =
    (Ok, JInt z, rd_at rest (k + N.of_nat (length (mp_int z)))).
Proof.
  intros cf pv' Lz z rest k Hz. unfold mp_int, mp_uint.
  destruct (Z.ltb_spec 0 z) as [Hp|Hp].
  - destruct (Z.leb_spec z 0x7F) as [H1|H1]; [apply body_fixint_rt; lia|].
    destruct (Z.leb_spec z 0xFF) as [H2|H2].
    { apply body_uint_rt; [vm_compute; split; discriminate|reflexivity|].
      change (2 ^ (8 * Z.of_nat 1)) with 256. lia. }
    destruct (Z.leb_spec z 0xFFFF) as [H3|H3].
    { apply body_uint_rt; [vm_compute; split; discriminate|reflexivity|].
      change (2 ^ (8 * Z.of_nat 2)) with 65536. lia. }
    destruct (Z.leb_spec z 0xFFFFFFFF) as [H4|H4].
    { apply body_uint_rt; [vm_compute; split; discriminate|reflexivity|].
      change (2 ^ (8 * Z.of_nat 4)) with 4294967296. lia. }
    apply body_uint_rt; [vm_compute; split; discriminate|reflexivity|].
    change (2 ^ (8 * Z.of_nat 8)) with (2 ^ 64). lia.
  - destruct (Z.leb_spec (-0x20) z) as [H1|H1]; [apply body_fixint_rt; lia|].
    destruct (Z.leb_spec (-0x80) z) as [H2|H2].
    { apply body_sint_rt; [vm_compute; split; discriminate|reflexivity|].
      change (2 ^ (8 * Z.of_nat 1 - 1)) with 128. lia. }
    destruct (Z.leb_spec (-0x8000) z) as [H3|H3].
    { apply body_sint_rt; [vm_compute; split; discriminate|reflexivity|].
      change (2 ^ (8 * Z.of_nat 2 - 1)) with 32768. lia. }
    destruct (Z.leb_spec (-0x80000000) z) as [H4|H4].
    { apply body_sint_rt; [vm_compute; split; discriminate|reflexivity|].
      change (2 ^ (8 * Z.of_nat 4 - 1)) with 2147483648. lia. }
    apply body_sint_rt; [vm_compute; split; discriminate|reflexivity|].
    change (2 ^ (8 * Z.of_nat 8 - 1)) with (2 ^ 63). lia.
Qed.

Theorem mp_int_roundtrip : forall cf L z rest, - 2 ^ 63 <= z < 2 ^ 64 ->
  mp_parse cf L None true {| m_rest := mp_int z ++ rest; m_reads := 0 |}
    = (Ok, JInt z, {| m_rest := rest; m_reads := N.of_nat (length (mp_int z)) |}).
Proof.
  intros cf L z rest Hz. rewrite mp_parse_eq.
  exact (mp_int_body cf (pv_of cf L) (is_O L) z rest 0%N Hz).
Qed.

Theorem mp_int_minimal : forall z, - 2 ^ 63 <= z < 2 ^ 64 ->
  length (mp_int z) =
    (if (-32 <=? z) && (z <=? 127) then 1%nat
     else if (-128 <=? z) && (z <=? 255) then 2%nat
     else if (-32768 <=? z) && (z <=? 65535) then 3%nat
     else if (-2 ^ 31 <=? z) && (z <=? 2 ^ 32 - 1) then 5%nat else 9%nat).
Proof.
  intros z Hz. unfold mp_int, mp_uint.
  change (- 2 ^ 31) with (-2147483648). change (2 ^ 32 - 1) with 4294967295.
  destruct (Z.ltb_spec 0 z) as [Hp|Hp].
  - destruct (Z.leb_spec z 0x7F); destruct (Z.leb_spec z 0xFF); destruct (Z.leb_spec z 0xFFFF);
      destruct (Z.leb_spec z 0xFFFFFFFF); try lia;
      destruct (Z.leb_spec (-32) z); destruct (Z.leb_spec (-128) z);
      destruct (Z.leb_spec (-32768) z); destruct (Z.leb_spec (-2147483648) z); try lia;
      cbn [andb length]; rewrite be_bytes_length; reflexivity.
  - destruct (Z.leb_spec z 0x7F); destruct (Z.leb_spec z 0xFF); destruct (Z.leb_spec z 0xFFFF);
      destruct (Z.leb_spec z 0xFFFFFFFF); try lia;
      destruct (Z.leb_spec (-0x20) z); destruct (Z.leb_spec (-0x80) z);
      destruct (Z.leb_spec (-0x8000) z); destruct (Z.leb_spec (-0x80000000) z); try lia;
      cbn [andb length]; rewrite be_bytes_length; reflexivity.
Qed.

(* ------------------------------------------------------------------------------------- *)
(* finite sweeps over a range of Z *)

Fixpoint zall (n : nat) (lo : Z) (f : Z -> bool) : bool :=
  match n with
  | O => true
  | S n' => f lo && zall n' (lo + 1) f
  end.

Lemma zall_spec : forall n lo f, zall n lo f = true ->
  forall z, lo <= z < lo + Z.of_nat n -> f z = true.
Proof.
  induction n as [|n IH]; intros lo f H z Hz.
  - cbn in Hz. lia.
  - cbn [zall] in H. apply andb_prop in H as [H0 H1].
    destruct (Z.eq_dec z lo) as [->|Hne]; [exact H0|].
    apply (IH (lo + 1) f H1). lia.
Qed.

(* the codes that reach mp_tail *)
Definition early (c : Z) : bool :=
  ((0xCC <=? c) && (c <=? 0xD3)) || (c =? 0xC0) || (c =? 0xC1) || ((c =? 0xC2) || (c =? 0xC3))
  || (c =? 0xCA) || (c =? 0xCB) || ((c <=? 0x7F) || (0xE0 <=? c)).

Lemma body_tail : forall cf pv' Lz f cb rest k, early (Z.of_N cb) = false ->
  mp_body cf pv' Lz f (rd_at (cb :: rest) k) = mp_tail pv' Lz f cb (rd_at rest (k + 1)).
Proof.
  intros cf pv' Lz f cb rest k H. unfold early in H.
  apply orb_false_elim in H as [H H7]. apply orb_false_elim in H as [H H6].
  apply orb_false_elim in H as [H H5]. apply orb_false_elim in H as [H H4].
  apply orb_false_elim in H as [H H3]. apply orb_false_elim in H as [H1 H2].
  unfold mp_body. rewrite read_1_cons. cbv beta iota zeta.
  rewrite H1, H2, H3, H4, H5, H6, H7. reflexivity.
Qed.

(* what a header announces *)
Definition str_payload (size : Z) (r : mrd) : code * jv * mrd :=
  if max_string_length <? size then (NoMemory, JNull, r)
  else
    match read_z size r with
    | (Some s, r) => (Ok, JStr s, r)
    | (None, r) => (IncompleteInput, JNull, r)
    end.

Definition arr_payload (pv' : pvT) (Lz : bool) (size : Z) (r : mrd) : code * jv * mrd :=
  if Lz then (TooDeep, JNull, r)
  else
    let '(e, l, r) := mp_array_loop pv' (clip_count size r) None true [] r in
    (e, JArr l, r).

Definition map_payload (pv' : pvT) (Lz : bool) (size : Z) (r : mrd) : code * jv * mrd :=
  if Lz then (TooDeep, JNull, r)
  else
    let '(e, l, r) := mp_object_loop pv' (clip_count size r) None [] r in
    (e, JObj l, r).

Definition hdr_then (w : nat) (r : mrd) (k : Z -> mrd -> code * jv * mrd) : code * jv * mrd :=
  match read_n w r with
  | (None, r) => (IncompleteInput, JNull, r)
  | (Some hb, r) => k (be_value hb 0) r
  end.

(* fixstr / fixarray / fixmap: the size is in the code byte *)
Definition fix_facts (base n : Z) (a m s : bool) : bool :=
  let c := base + n in
  negb (early c) && Nat.eqb (size_bytes_of c) 0 && (size0_of c =? n)
  && Bool.eqb (is_arr_code c) a && Bool.eqb (is_map_code c) m && Bool.eqb (is_str_code c) s.

Lemma fix_facts_elim : forall base n a m s, fix_facts base n a m s = true ->
  let c := base + n in
  early c = false /\ size_bytes_of c = 0%nat /\ size0_of c = n /\
  is_arr_code c = a /\ is_map_code c = m /\ is_str_code c = s.
Proof.
  intros base n a m s H c. unfold fix_facts in H. fold c in H.
  apply andb_prop in H as [H H6]. apply andb_prop in H as [H H5]. apply andb_prop in H as [H H4].
  apply andb_prop in H as [H H3]. apply andb_prop in H as [H1 H2].
  apply negb_true_iff in H1. apply Nat.eqb_eq in H2. apply Z.eqb_eq in H3.
  apply Bool.eqb_prop in H4. apply Bool.eqb_prop in H5. apply Bool.eqb_prop in H6. auto 10.
Qed.

Lemma fixstr_facts : forall n, 0 <= n < 32 -> fix_facts 0xA0 n false false true = true.
Proof.
  intros n H. apply (zall_spec 32 0 (fun n => fix_facts 0xA0 n false false true)); [|lia].
  vm_compute. reflexivity.
Qed.

Lemma fixarr_facts : forall n, 0 <= n < 16 -> fix_facts 0x90 n true false false = true.
Proof.
  intros n H. apply (zall_spec 16 0 (fun n => fix_facts 0x90 n true false false)); [|lia].
  vm_compute. reflexivity.
Qed.

Lemma fixmap_facts : forall n, 0 <= n < 16 -> fix_facts 0x80 n false true false = true.
Proof.
  intros n H. apply (zall_spec 16 0 (fun n => fix_facts 0x80 n false true false)); [|lia].
  vm_compute. reflexivity.
Qed.

Lemma body_fixstr : forall cf pv' Lz n rest k, 0 <= n < 32 ->
  mp_body cf pv' Lz None (rd_at (bz (0xA0 + n) :: rest) k) = str_payload n (rd_at rest (k + 1)).
Proof.
  intros cf pv' Lz n rest k H.
  destruct (fix_facts_elim _ _ _ _ _ (fixstr_facts n H)) as (F1 & F2 & F3 & F4 & F5 & F6).
  cbv zeta in *.
  assert (Hb : Z.of_N (bz (0xA0 + n)) = 0xA0 + n) by (apply bz_id; lia).
  rewrite body_tail by (rewrite Hb; exact F1).
  unfold mp_tail. cbv zeta. rewrite Hb, F2, F3, F4, F5, F6. cbn [Nat.eqb f_allow_value].
  reflexivity.
Qed.

Lemma body_fixarr : forall cf pv' Lz n rest k, 0 <= n < 16 ->
  mp_body cf pv' Lz None (rd_at (bz (0x90 + n) :: rest) k) = arr_payload pv' Lz n (rd_at rest (k + 1)).
Proof.
  intros cf pv' Lz n rest k H.
  destruct (fix_facts_elim _ _ _ _ _ (fixarr_facts n H)) as (F1 & F2 & F3 & F4 & F5 & F6).
  cbv zeta in *.
  assert (Hb : Z.of_N (bz (0x90 + n)) = 0x90 + n) by (apply bz_id; lia).
  rewrite body_tail by (rewrite Hb; exact F1).
  unfold mp_tail. cbv zeta. rewrite Hb, F2, F3, F4. cbn [Nat.eqb f_allow_array f_element].
  reflexivity.
Qed.

Lemma body_fixmap : forall cf pv' Lz n rest k, 0 <= n < 16 ->
  mp_body cf pv' Lz None (rd_at (bz (0x80 + n) :: rest) k) = map_payload pv' Lz n (rd_at rest (k + 1)).
Proof.
  intros cf pv' Lz n rest k H.
  destruct (fix_facts_elim _ _ _ _ _ (fixmap_facts n H)) as (F1 & F2 & F3 & F4 & F5 & F6).
  cbv zeta in *.
  assert (Hb : Z.of_N (bz (0x80 + n)) = 0x80 + n) by (apply bz_id; lia).
  rewrite body_tail by (rewrite Hb; exact F1).
  unfold mp_tail. cbv zeta. rewrite Hb, F2, F3, F4, F5. cbn [Nat.eqb f_allow_object].
  reflexivity.
Qed.

(* str 8/16/32, array 16/32, map 16/32: the size follows the code byte *)
Lemma body_str8 : forall cf pv' Lz rest k,
  mp_body cf pv' Lz None (rd_at (bz 0xD9 :: rest) k) = hdr_then 1 (rd_at rest (k + 1)) str_payload.
Proof. reflexivity. Qed.
Lemma body_str16 : forall cf pv' Lz rest k,
  mp_body cf pv' Lz None (rd_at (bz 0xDA :: rest) k) = hdr_then 2 (rd_at rest (k + 1)) str_payload.
Proof. reflexivity. Qed.
Lemma body_str32 : forall cf pv' Lz rest k,
  mp_body cf pv' Lz None (rd_at (bz 0xDB :: rest) k) = hdr_then 4 (rd_at rest (k + 1)) str_payload.
Proof. reflexivity. Qed.
Lemma body_arr16 : forall cf pv' Lz rest k,
  mp_body cf pv' Lz None (rd_at (bz 0xDC :: rest) k) = hdr_then 2 (rd_at rest (k + 1)) (arr_payload pv' Lz).
Proof. reflexivity. Qed.
Lemma body_arr32 : forall cf pv' Lz rest k,
  mp_body cf pv' Lz None (rd_at (bz 0xDD :: rest) k) = hdr_then 4 (rd_at rest (k + 1)) (arr_payload pv' Lz).
Proof. reflexivity. Qed.
Lemma body_map16 : forall cf pv' Lz rest k,
  mp_body cf pv' Lz None (rd_at (bz 0xDE :: rest) k) = hdr_then 2 (rd_at rest (k + 1)) (map_payload pv' Lz).
Proof. reflexivity. Qed.
Lemma body_map32 : forall cf pv' Lz rest k,
  mp_body cf pv' Lz None (rd_at (bz 0xDF :: rest) k) = hdr_then 4 (rd_at rest (k + 1)) (map_payload pv' Lz).
Proof. reflexivity. Qed.

Lemma hdr_then_be : forall w n rest k K, 0 <= n < 2 ^ (8 * Z.of_nat w) ->
  hdr_then w (rd_at (be_bytes w n ++ rest) k) K = K n (rd_at rest (k + N.of_nat w)).
Proof.
  intros w n rest k K H. unfold hdr_then.
  rewrite (read_n_app' w) by apply be_bytes_length.
  rewrite be_value_be_bytes by exact H. reflexivity.
Qed.

(* ------------------------------------------------------------------------------------- *)
(* Part 3 — strings and headers *)

Lemma str_header_body : forall cf pv' Lz n rest k, 0 <= n < 2 ^ 32 ->
  mp_body cf pv' Lz None (rd_at (mp_str_header n ++ rest) k) =
    str_payload n (rd_at rest (k + N.of_nat (length (mp_str_header n)))).
Proof.
  intros cf pv' Lz n rest k H. unfold mp_str_header.
  destruct (Z.ltb_spec n 0x20) as [H1|H1].
  { cbn [app length]. apply body_fixstr. lia. }
  destruct (Z.ltb_spec n 0x100) as [H2|H2].
  { cbn [app length]. rewrite body_str8, hdr_then_be, be_bytes_length, reads_assoc; [reflexivity|].
    change (2 ^ (8 * Z.of_nat 1)) with 256. lia. }
  destruct (Z.ltb_spec n 0x10000) as [H3|H3].
  { cbn [app length]. rewrite body_str16, hdr_then_be, be_bytes_length, reads_assoc; [reflexivity|].
    change (2 ^ (8 * Z.of_nat 2)) with 65536. lia. }
  cbn [app length]. rewrite body_str32, hdr_then_be, be_bytes_length, reads_assoc; [reflexivity|].
  change (2 ^ (8 * Z.of_nat 4)) with (2 ^ 32). lia.
Qed.

Lemma arr_header_body : forall cf pv' Lz n rest k, 0 <= n < 2 ^ 32 ->
  mp_body cf pv' Lz None (rd_at (mp_arr_header n ++ rest) k) =
    arr_payload pv' Lz n (rd_at rest (k + N.of_nat (length (mp_arr_header n)))).
Proof.
  intros cf pv' Lz n rest k H. unfold mp_arr_header.
  destruct (Z.ltb_spec n 0x10) as [H1|H1].
  { cbn [app length]. apply body_fixarr. lia. }
  destruct (Z.ltb_spec n 0x10000) as [H3|H3].
  { cbn [app length]. rewrite body_arr16, hdr_then_be, be_bytes_length, reads_assoc; [reflexivity|].
    change (2 ^ (8 * Z.of_nat 2)) with 65536. lia. }
  cbn [app length]. rewrite body_arr32, hdr_then_be, be_bytes_length, reads_assoc; [reflexivity|].
  change (2 ^ (8 * Z.of_nat 4)) with (2 ^ 32). lia.
Qed.

Lemma map_header_body : forall cf pv' Lz n rest k, 0 <= n < 2 ^ 32 ->
  mp_body cf pv' Lz None (rd_at (mp_map_header n ++ rest) k) =
    map_payload pv' Lz n (rd_at rest (k + N.of_nat (length (mp_map_header n)))).
Proof.
  intros cf pv' Lz n rest k H. unfold mp_map_header.
  destruct (Z.ltb_spec n 0x10) as [H1|H1].
  { cbn [app length]. apply body_fixmap. lia. }
  destruct (Z.ltb_spec n 0x10000) as [H3|H3].
  { cbn [app length]. rewrite body_map16, hdr_then_be, be_bytes_length, reads_assoc; [reflexivity|].
    change (2 ^ (8 * Z.of_nat 2)) with 65536. lia. }
  cbn [app length]. rewrite body_map32, hdr_then_be, be_bytes_length, reads_assoc; [reflexivity|].
  change (2 ^ (8 * Z.of_nat 4)) with (2 ^ 32). lia.
Qed.

Lemma str_payload_rt : forall s rest k, Z.of_nat (length s) <= max_string_length ->
  str_payload (Z.of_nat (length s)) (rd_at (s ++ rest) k) =
    (Ok, JStr s, rd_at rest (k + N.of_nat (length s))).
Proof.
  intros s rest k H. unfold str_payload.
  destruct (Z.ltb_spec max_string_length (Z.of_nat (length s))) as [H1|_]; [lia|].
  rewrite read_z_app by reflexivity. reflexivity.
Qed.

Lemma reads_app : forall k a b, (k + N.of_nat a + N.of_nat b = k + N.of_nat (a + b))%N.
Proof. intros. lia. Qed.

Lemma mp_str_body : forall cf pv' Lz s rest k, Z.of_nat (length s) <= max_string_length ->
  mp_body cf pv' Lz None (rd_at (mp_str s ++ rest) k) =
    (Ok, JStr s, rd_at rest (k + N.of_nat (length (mp_str s)))).
Proof.
  intros cf pv' Lz s rest k H. unfold mp_str. rewrite <- app_assoc.
  rewrite str_header_body by (unfold max_string_length in H; lia).
  rewrite str_payload_rt by exact H. rewrite reads_app, app_length. reflexivity.
Qed.

Theorem mp_str_roundtrip : forall cf L s rest, Forall (fun b => (b < 256)%N) s ->
  Z.of_nat (length s) <= max_string_length ->
  mp_parse cf L None true {| m_rest := mp_str s ++ rest; m_reads := 0 |}
    = (Ok, JStr s, {| m_rest := rest; m_reads := N.of_nat (length (mp_str s)) |}).
Proof.
  intros cf L s rest _ H. rewrite mp_parse_eq.
  exact (mp_str_body cf (pv_of cf L) (is_O L) s rest 0%N H).
Qed.

(* header widths: the narrowest header that holds the count *)
Theorem mp_str_header_length : forall n,
  length (mp_str_header n) =
    (if n <? 32 then 1%nat else if n <? 256 then 2%nat else if n <? 65536 then 3%nat else 5%nat).
Proof.
  intros n. unfold mp_str_header.
  destruct (n <? 32); [reflexivity|]. destruct (n <? 256); [reflexivity|].
  destruct (n <? 65536); reflexivity.
Qed.

Theorem mp_str_header_first : forall n,
  hd 0%N (mp_str_header n) =
    (if n <? 32 then bz (0xA0 + n) else if n <? 256 then 0xD9%N else if n <? 65536 then 0xDA%N
     else 0xDB%N).
Proof.
  intros n. unfold mp_str_header.
  destruct (n <? 32); [reflexivity|]. destruct (n <? 256); [reflexivity|].
  destruct (n <? 65536); reflexivity.
Qed.

Theorem mp_arr_header_length : forall n,
  length (mp_arr_header n) = (if n <? 16 then 1%nat else if n <? 65536 then 3%nat else 5%nat).
Proof.
  intros n. unfold mp_arr_header. destruct (n <? 16); [reflexivity|]. destruct (n <? 65536); reflexivity.
Qed.

Theorem mp_arr_header_first : forall n,
  hd 0%N (mp_arr_header n) =
    (if n <? 16 then bz (0x90 + n) else if n <? 65536 then 0xDC%N else 0xDD%N).
Proof.
  intros n. unfold mp_arr_header. destruct (n <? 16); [reflexivity|]. destruct (n <? 65536); reflexivity.
Qed.

Theorem mp_map_header_length : forall n,
  length (mp_map_header n) = (if n <? 16 then 1%nat else if n <? 65536 then 3%nat else 5%nat).
Proof.
  intros n. unfold mp_map_header. destruct (n <? 16); [reflexivity|]. destruct (n <? 65536); reflexivity.
Qed.

Theorem mp_map_header_first : forall n,
  hd 0%N (mp_map_header n) =
    (if n <? 16 then bz (0x80 + n) else if n <? 65536 then 0xDE%N else 0xDF%N).
Proof.
  intros n. unfold mp_map_header. destruct (n <? 16); [reflexivity|]. destruct (n <? 65536); reflexivity.
Qed.

(* the announced size is recovered from the header bytes after the code *)
Theorem mp_str_header_size : forall n, 0 <= n < 2 ^ 32 ->
  (if n <? 32 then Z.of_N (hd 0%N (mp_str_header n)) - 0xA0
   else be_value (tl (mp_str_header n)) 0) = n.
Proof.
  intros n H. unfold mp_str_header.
  destruct (Z.ltb_spec n 32); [cbn [hd]; rewrite bz_id; lia|].
  destruct (Z.ltb_spec n 256).
  { cbn [tl]. apply be_value_be_bytes. change (2 ^ (8 * Z.of_nat 1)) with 256. lia. }
  destruct (Z.ltb_spec n 65536).
  { cbn [tl]. apply be_value_be_bytes. change (2 ^ (8 * Z.of_nat 2)) with 65536. lia. }
  cbn [tl]. apply be_value_be_bytes. change (2 ^ (8 * Z.of_nat 4)) with (2 ^ 32). lia.
Qed.

(* both sides of every boundary *)
Example str_header_boundaries :
  mp_str_header 31 = [0xBF]%N /\ mp_str_header 32 = [0xD9; 32]%N /\
  mp_str_header 255 = [0xD9; 255]%N /\ mp_str_header 256 = [0xDA; 1; 0]%N /\
  mp_str_header 65535 = [0xDA; 255; 255]%N /\ mp_str_header 65536 = [0xDB; 0; 1; 0; 0]%N.
Proof. repeat split; reflexivity. Qed.

Example arr_header_boundaries :
  mp_arr_header 15 = [0x9F]%N /\ mp_arr_header 16 = [0xDC; 0; 16]%N /\
  mp_arr_header 65535 = [0xDC; 255; 255]%N /\ mp_arr_header 65536 = [0xDD; 0; 1; 0; 0]%N.
Proof. repeat split; reflexivity. Qed.

Example map_header_boundaries :
  mp_map_header 15 = [0x8F]%N /\ mp_map_header 16 = [0xDE; 0; 16]%N /\
  mp_map_header 65535 = [0xDE; 255; 255]%N /\ mp_map_header 65536 = [0xDF; 0; 1; 0; 0]%N.
Proof. repeat split; reflexivity. Qed.

(* ------------------------------------------------------------------------------------- *)
(* object keys *)

Definition key_payload (size : Z) (r : mrd) : code * bytes * mrd :=
  match read_z size r with
  | (Some s, r) => (Ok, s, r)
  | (None, r) => (IncompleteInput, [], r)
  end.

Definition key_hdr_then (w : nat) (r : mrd) : code * bytes * mrd :=
  match read_n w r with
  | (Some l, r) =>
      let size := be_value l 0 in
      if max_string_length <? size then (NoMemory, [], r) else key_payload size r
  | (None, r) => (IncompleteInput, [], r)
  end.

Definition key_facts (n : Z) : bool :=
  (Z.land (0xA0 + n) 0xE0 =? 0xA0) && (Z.land (0xA0 + n) 0x1F =? n).

Lemma key_fixstr : forall n rest k, 0 <= n < 32 ->
  mp_read_key (rd_at (bz (0xA0 + n) :: rest) k) = key_payload n (rd_at rest (k + 1)).
Proof.
  intros n rest k H.
  assert (F : key_facts n = true).
  { apply (zall_spec 32 0 key_facts); [vm_compute; reflexivity|lia]. }
  apply andb_prop in F as [F1 F2]. apply Z.eqb_eq in F2.
  unfold mp_read_key. rewrite read_1_cons. cbv beta iota zeta.
  rewrite bz_id by lia. rewrite F1, F2. reflexivity.
Qed.

Lemma key_str8 : forall rest k, mp_read_key (rd_at (bz 0xD9 :: rest) k) = key_hdr_then 1 (rd_at rest (k + 1)).
Proof. reflexivity. Qed.
Lemma key_str16 : forall rest k, mp_read_key (rd_at (bz 0xDA :: rest) k) = key_hdr_then 2 (rd_at rest (k + 1)).
Proof. reflexivity. Qed.
Lemma key_str32 : forall rest k, mp_read_key (rd_at (bz 0xDB :: rest) k) = key_hdr_then 4 (rd_at rest (k + 1)).
Proof. reflexivity. Qed.

Lemma key_hdr_then_be : forall w n rest k, 0 <= n < 2 ^ (8 * Z.of_nat w) -> n <= max_string_length ->
  key_hdr_then w (rd_at (be_bytes w n ++ rest) k) = key_payload n (rd_at rest (k + N.of_nat w)).
Proof.
  intros w n rest k H Hm. unfold key_hdr_then.
  rewrite (read_n_app' w) by apply be_bytes_length. cbv zeta.
  rewrite be_value_be_bytes by exact H.
  destruct (Z.ltb_spec max_string_length n); [lia|]. reflexivity.
Qed.

Lemma key_header : forall n rest k, 0 <= n <= max_string_length ->
  mp_read_key (rd_at (mp_str_header n ++ rest) k) =
    key_payload n (rd_at rest (k + N.of_nat (length (mp_str_header n)))).
Proof.
  intros n rest k H. unfold max_string_length in H. unfold mp_str_header.
  destruct (Z.ltb_spec n 0x20) as [H1|H1].
  { cbn [app length]. apply key_fixstr. lia. }
  destruct (Z.ltb_spec n 0x100) as [H2|H2].
  { cbn [app length]. rewrite key_str8, key_hdr_then_be, be_bytes_length, reads_assoc;
      [reflexivity| |unfold max_string_length; lia].
    change (2 ^ (8 * Z.of_nat 1)) with 256. lia. }
  destruct (Z.ltb_spec n 0x10000) as [H3|H3].
  { cbn [app length]. rewrite key_str16, key_hdr_then_be, be_bytes_length, reads_assoc;
      [reflexivity| |unfold max_string_length; lia].
    change (2 ^ (8 * Z.of_nat 2)) with 65536. lia. }
  lia.
Qed.

Lemma read_key_rt : forall s rest k, Z.of_nat (length s) <= max_string_length ->
  mp_read_key (rd_at (mp_str s ++ rest) k) = (Ok, s, rd_at rest (k + N.of_nat (length (mp_str s)))).
Proof.
  intros s rest k H. unfold mp_str. rewrite <- app_assoc.
  rewrite key_header by lia. unfold key_payload.
  rewrite read_z_app by reflexivity. rewrite reads_app, app_length. reflexivity.
Qed.

(* ------------------------------------------------------------------------------------- *)
(* loops *)

Lemma concat_cons_app : forall (x : bytes) (t : list bytes) (rest : bytes),
  concat (x :: t) ++ rest = x ++ (concat t ++ rest).
Proof. intros. cbn [concat]. rewrite <- app_assoc. reflexivity. Qed.

Lemma array_loop_rt : forall (pv : pvT) (norm : jv -> jv) (l : list jv),
  (forall x, In x l -> forall rest k,
     pv None true (rd_at (mp_ser x ++ rest) k) =
       (Ok, norm x, rd_at rest (k + N.of_nat (length (mp_ser x))))) ->
  forall acc rest k,
    mp_array_loop pv (length l) None true acc (rd_at (concat (map mp_ser l) ++ rest) k) =
      (Ok, acc ++ map norm l, rd_at rest (k + N.of_nat (length (concat (map mp_ser l))))).
Proof.
  intros pv norm l. induction l as [|x l IH]; intros Hpv acc rest k.
  - cbn [length mp_array_loop map concat app]. rewrite app_nil_r, N.add_0_r. reflexivity.
  - cbn [length mp_array_loop map]. rewrite concat_cons_app. cbn [f_allow].
    rewrite (Hpv x (or_introl eq_refl)).
    rewrite IH by (intros y Hy; apply Hpv; right; exact Hy).
    rewrite <- app_assoc. cbn [app concat]. rewrite reads_app, <- app_length. reflexivity.
Qed.

Definition ser_member (kv : bytes * jv) : bytes := mp_str (fst kv) ++ mp_ser (snd kv).

Lemma object_loop_rt : forall (pv : pvT) (norm : jv -> jv) (l : list (bytes * jv)),
  (forall kv, In kv l ->
     Z.of_nat (length (fst kv)) <= max_string_length /\
     forall rest k,
       pv None true (rd_at (mp_ser (snd kv) ++ rest) k) =
         (Ok, norm (snd kv), rd_at rest (k + N.of_nat (length (mp_ser (snd kv)))))) ->
  forall acc rest k,
    mp_object_loop pv (length l) None acc (rd_at (concat (map ser_member l) ++ rest) k) =
      (Ok, acc ++ map (fun kv => (fst kv, norm (snd kv))) l,
       rd_at rest (k + N.of_nat (length (concat (map ser_member l))))).
Proof.
  intros pv norm l. induction l as [|x l IH]; intros Hpv acc rest k.
  - cbn [length mp_object_loop map concat app]. rewrite app_nil_r, N.add_0_r. reflexivity.
  - cbn [length mp_object_loop map]. rewrite concat_cons_app.
    destruct (Hpv x (or_introl eq_refl)) as [Hk Hv].
    unfold ser_member at 1. rewrite <- app_assoc. rewrite read_key_rt by exact Hk.
    cbn [f_member f_allow]. rewrite Hv.
    rewrite IH by (intros y Hy; apply Hpv; right; exact Hy).
    rewrite <- app_assoc. cbn [app concat]. f_equal. f_equal.
    unfold ser_member. rewrite !app_length. lia.
Qed.

Lemma concat_length_ge : forall (A : Type) (g : A -> bytes) (l : list A),
  (forall x, In x l -> (1 <= length (g x))%nat) -> (length l <= length (concat (map g l)))%nat.
Proof.
  intros A g l. induction l as [|x l IH]; intros H; cbn [length map concat]; [lia|].
  rewrite app_length. specialize (H x (or_introl eq_refl)) as Hx.
  assert (length l <= length (concat (map g l)))%nat by (apply IH; intros y Hy; apply H; right; exact Hy).
  lia.
Qed.

Lemma clip_count_exact : forall n l k, (n <= length l)%nat -> clip_count (Z.of_nat n) (rd_at l k) = n.
Proof. intros n l k H. unfold clip_count. cbn [rd_at m_rest]. rewrite Z.min_l by lia. apply Nat2Z.id. Qed.

(* ------------------------------------------------------------------------------------- *)
(* floats *)

(* the value is a datum of the interchange format: decoding its encoding gives it back *)
Definition repr_ok (ft : fmt) (f : spec_float) : Prop :=
  0 <= bits_of_sf ft f < 2 ^ (mw ft + ew ft + 1) /\ sf_of_bits ft (bits_of_sf ft f) = f.

Definition f32_ok (f : spec_float) : Prop :=
  repr_ok F32 f /\ (f32_fits_i64 f = true -> - 2 ^ 63 <= f_trunc f < 2 ^ 64).

Definition f64_ok (f : spec_float) : Prop := repr_ok F64 f /\ f32_ok (fconv F32 f).

Definition mp_norm_f32 (f : spec_float) : jv :=
  if f32_fits_i64 f then
    let t := f_trunc f in
    if f_eq f (f_of_Z F32 t) then JInt t else JFloat f
  else JFloat f.

Definition mp_norm_f64 (ud : bool) (f : spec_float) : jv :=
  let v32 := fconv F32 f in
  if f_eq (fconv F64 v32) f then mp_norm_f32 v32 else jv_of_double ud f.

Lemma body_f32 : forall cf pv' Lz rest k,
  mp_body cf pv' Lz None (rd_at (bz 0xCA :: rest) k) =
    match read_n 4 (rd_at rest (k + 1)) with
    | (Some l, r) => (Ok, JFloat (sf_of_bits F32 (be_value l 0)), r)
    | (None, r) => (IncompleteInput, JNull, r)
    end.
Proof. reflexivity. Qed.

Lemma body_f64 : forall cf pv' Lz rest k,
  mp_body cf pv' Lz None (rd_at (bz 0xCB :: rest) k) =
    match read_n 8 (rd_at rest (k + 1)) with
    | (Some l, r) => (Ok, jv_of_double (use_double cf) (sf_of_bits F64 (be_value l 0)), r)
    | (None, r) => (IncompleteInput, JNull, r)
    end.
Proof. reflexivity. Qed.

Lemma mp_f32_body : forall cf pv' Lz f rest k, f32_ok f ->
  mp_body cf pv' Lz None (rd_at (mp_f32 f ++ rest) k) =
    (Ok, mp_norm_f32 f, rd_at rest (k + N.of_nat (length (mp_f32 f)))).
Proof.
  intros cf pv' Lz f rest k [[Hb Hr] Ht]. unfold mp_f32, mp_norm_f32.
  destruct (f32_fits_i64 f) eqn:Fit.
  - cbv zeta. destruct (f_eq f (f_of_Z F32 (f_trunc f))) eqn:E.
    + apply mp_int_body. apply Ht. reflexivity.
    + cbn [app length]. rewrite body_f32. rewrite (read_n_app' 4) by apply be_bytes_length.
      rewrite be_value_be_bytes by exact Hb. rewrite Hr, be_bytes_length, reads_assoc. reflexivity.
  - cbn [app length]. rewrite body_f32. rewrite (read_n_app' 4) by apply be_bytes_length.
    rewrite be_value_be_bytes by exact Hb. rewrite Hr, be_bytes_length, reads_assoc. reflexivity.
Qed.

Lemma mp_f64_body : forall cf pv' Lz f rest k, f64_ok f ->
  mp_body cf pv' Lz None (rd_at (mp_f64 f ++ rest) k) =
    (Ok, mp_norm_f64 (use_double cf) f, rd_at rest (k + N.of_nat (length (mp_f64 f)))).
Proof.
  intros cf pv' Lz f rest k [[Hb Hr] H32]. unfold mp_f64, mp_norm_f64. cbv zeta.
  destruct (f_eq (fconv F64 (fconv F32 f)) f) eqn:E.
  - apply mp_f32_body. exact H32.
  - cbn [app length]. rewrite body_f64. rewrite (read_n_app' 8) by apply be_bytes_length.
    rewrite be_value_be_bytes by exact Hb. rewrite Hr, be_bytes_length, reads_assoc. reflexivity.
Qed.

(* ------------------------------------------------------------------------------------- *)
(* interchange encoding of valid floats *)

Lemma digits2_pos_bounds : forall m,
  2 ^ (Z.pos (digits2_pos m) - 1) <= Z.pos m < 2 ^ (Z.pos (digits2_pos m)).
Proof.
  induction m as [m IH|m IH|]; cbn [digits2_pos].
  - rewrite Pos2Z.inj_succ. replace (Z.succ (Z.pos (digits2_pos m)) - 1) with (Z.pos (digits2_pos m) - 1 + 1) by lia.
    rewrite Z.pow_succ_r by lia. rewrite Z.pow_add_r by lia. change (2 ^ 1) with 2. lia.
  - rewrite Pos2Z.inj_succ. replace (Z.succ (Z.pos (digits2_pos m)) - 1) with (Z.pos (digits2_pos m) - 1 + 1) by lia.
    rewrite Z.pow_succ_r by lia. rewrite Z.pow_add_r by lia. change (2 ^ 1) with 2. lia.
  - cbn. lia.
Qed.

Section Encoding.
  Variable ft : fmt.
  Hypothesis Hmw : 1 <= mw ft.
  Hypothesis Hew : 2 <= ew ft.

  Let P := 2 ^ mw ft.
  Let Q := 2 ^ ew ft.

  Lemma enc_P_pos : 0 < P. Proof. apply Z.pow_pos_nonneg; lia. Qed.
  Lemma enc_Q_pos : 0 < Q. Proof. apply Z.pow_pos_nonneg; lia. Qed.
  Lemma enc_PQ_eq : 2 ^ (mw ft + ew ft) = P * Q. Proof. apply Z.pow_add_r; lia. Qed.
  Lemma enc_Q_half : Q = 2 * 2 ^ (ew ft - 1).
  Proof. unfold Q. replace (ew ft) with (ew ft - 1 + 1) at 1 by lia. rewrite Z.pow_add_r by lia. lia. Qed.
  Lemma enc_P_half : P = 2 * 2 ^ (mw ft - 1).
  Proof. unfold P. replace (mw ft) with (mw ft - 1 + 1) at 1 by lia. rewrite Z.pow_add_r by lia. lia. Qed.

  Definition decode_fields (s : bool) (e m : Z) : spec_float :=
    if e =? 0 then
      (if m =? 0 then S754_zero s else S754_finite s (Z.to_pos m) (femin ft))
    else if e =? 2 ^ ew ft - 1 then
      (if m =? 0 then S754_infinity s else S754_nan)
    else S754_finite s (Z.to_pos (m + 2 ^ mw ft)) (e - bias ft - mw ft).

  Lemma sf_of_bits_fields : forall s e m, 0 <= e < Q -> 0 <= m < P ->
    0 <= sign_bit ft s + e * P + m < 2 ^ (mw ft + ew ft + 1) /\
    sf_of_bits ft (sign_bit ft s + e * P + m) = decode_fields s e m.
  Proof.
    intros s e m He Hm. pose proof enc_P_pos as HP. pose proof enc_Q_pos as HQ. pose proof enc_PQ_eq as HPQ.
    set (sb := if s then 1 else 0).
    assert (Hsb : sign_bit ft s = sb * (P * Q)).
    { unfold sign_bit, sb. rewrite HPQ. destruct s; lia. }
    assert (Hsb01 : 0 <= sb <= 1) by (unfold sb; destruct s; lia).
    assert (Hr : 0 <= e * P + m < P * Q) by nia.
    split.
    { replace (mw ft + ew ft + 1) with (1 + (mw ft + ew ft)) by lia.
      rewrite Z.pow_add_r by lia. rewrite HPQ, Hsb. change (2 ^ 1) with 2. nia. }
    unfold sf_of_bits, decode_fields. cbv zeta. fold P. fold Q. rewrite HPQ, Hsb.
    set (x := sb * (P * Q) + e * P + m).
    assert (E1 : x / (P * Q) = sb).
    { symmetry. apply (Z.div_unique x (P * Q) sb (e * P + m)); [left; exact Hr|unfold x; ring]. }
    assert (E2 : x / P = sb * Q + e).
    { symmetry. apply (Z.div_unique x P (sb * Q + e) m); [left; exact Hm|unfold x; ring]. }
    assert (E3 : x mod P = m).
    { symmetry. apply (Z.mod_unique x P (sb * Q + e) m); [left; exact Hm|unfold x; ring]. }
    assert (E4 : (sb * Q + e) mod Q = e).
    { symmetry. apply (Z.mod_unique (sb * Q + e) Q sb e); [left; exact He|ring]. }
    rewrite E1, E2, E3, E4.
    assert (Es : Z.odd sb = s) by (unfold sb; destruct s; reflexivity).
    rewrite Es. reflexivity.
  Qed.

  Lemma valid_repr_ok : forall f, valid_binary (prec ft) (emax ft) f = true -> repr_ok ft f.
  Proof.
    intros f Hv. pose proof enc_P_pos as HP. pose proof enc_Q_pos as HQ. pose proof enc_Q_half as HQh.
    pose proof enc_P_half as HPh.
    assert (Hh : 0 < 2 ^ (ew ft - 1)) by (apply Z.pow_pos_nonneg; lia).
    assert (Hh2 : 2 <= 2 ^ (ew ft - 1)).
    { change 2 with (2 ^ 1) at 1. apply Z.pow_le_mono_r; lia. }
    assert (Hm1 : 0 < 2 ^ (mw ft - 1)) by (apply Z.pow_pos_nonneg; lia).
    unfold repr_ok.
    destruct f as [s|s| |s m e].
    - (* zero *)
      destruct (sf_of_bits_fields s 0 0) as [R D]; [lia|lia|].
      cbn [bits_of_sf]. replace (sign_bit ft s) with (sign_bit ft s + 0 * P + 0) by lia.
      split; [exact R|]. rewrite D. reflexivity.
    - (* infinity *)
      destruct (sf_of_bits_fields s (Q - 1) 0) as [R D]; [lia|lia|].
      cbn [bits_of_sf]. fold P Q.
      replace (sign_bit ft s + (Q - 1) * P) with (sign_bit ft s + (Q - 1) * P + 0) by lia.
      split; [exact R|]. rewrite D. unfold decode_fields. fold Q.
      destruct (Z.eqb_spec (Q - 1) 0) as [H0|_]; [lia|]. rewrite Z.eqb_refl. reflexivity.
    - (* NaN *)
      destruct (sf_of_bits_fields false (Q - 1) (2 ^ (mw ft - 1))) as [R D]; [lia|lia|].
      cbn [bits_of_sf]. fold P Q.
      replace ((Q - 1) * P + 2 ^ (mw ft - 1))
        with (sign_bit ft false + (Q - 1) * P + 2 ^ (mw ft - 1)) by (unfold sign_bit; lia).
      split; [exact R|]. rewrite D. unfold decode_fields. fold Q.
      destruct (Z.eqb_spec (Q - 1) 0) as [H0|_]; [lia|]. rewrite Z.eqb_refl.
      destruct (Z.eqb_spec (2 ^ (mw ft - 1)) 0) as [H0|_]; [lia|]. reflexivity.
    - (* finite *)
      cbn [valid_binary] in Hv. unfold bounded in Hv. apply andb_prop in Hv as [Hc Hb].
      unfold canonical_mantissa in Hc. apply Zeq_bool_eq in Hc. apply Z.leb_le in Hb.
      unfold fexp, SpecFloat.emin in Hc.
      pose proof (digits2_pos_bounds m) as Hd. set (d := Z.pos (digits2_pos m)) in *.
      assert (Hd1 : 1 <= d) by (unfold d; lia).
      unfold prec, emax in Hc, Hb.
      cbn [bits_of_sf]. cbv zeta. fold P.
      destruct (Z.ltb_spec (Z.pos m) P) as [Hlt|Hge].
      + (* subnormal *)
        assert (Hdm : d <= mw ft).
        { destruct (Z_lt_le_dec (mw ft) d) as [Hgt|]; [|lia].
          assert (P <= 2 ^ (d - 1)) by (apply Z.pow_le_mono_r; lia). lia. }
        assert (He : e = 3 - 2 ^ (ew ft - 1) - (mw ft + 1)) by lia.
        destruct (sf_of_bits_fields s 0 (Z.pos m)) as [R D]; [lia|lia|].
        replace (sign_bit ft s + Z.pos m) with (sign_bit ft s + 0 * P + Z.pos m) by lia.
        split; [exact R|]. rewrite D. unfold decode_fields.
        cbn [Z.eqb Z.to_pos]. unfold femin, prec, emax, SpecFloat.emin. rewrite He. reflexivity.
      + (* normal *)
        assert (Hdp : d = mw ft + 1).
        { assert (mw ft < d).
          { destruct (Z_lt_le_dec (mw ft) d) as [|Hle]; [assumption|].
            assert (2 ^ d <= P) by (apply Z.pow_le_mono_r; lia). lia. }
          lia. }
        assert (Hm2 : Z.pos m < 2 * P).
        { rewrite Hdp in Hd. rewrite Z.pow_add_r in Hd by lia. change (2 ^ 1) with 2 in Hd. fold P in Hd. lia. }
        assert (Hemin : 3 - 2 ^ (ew ft - 1) - (mw ft + 1) <= e) by lia.
        set (eb := e + bias ft + mw ft).
        assert (Heb : 1 <= eb <= Q - 2) by (unfold eb, bias; lia).
        destruct (sf_of_bits_fields s eb (Z.pos m - P)) as [R D]; [lia|lia|].
        split; [exact R|]. rewrite D. unfold decode_fields. fold P Q.
        destruct (Z.eqb_spec eb 0) as [H0|_]; [lia|].
        destruct (Z.eqb_spec eb (Q - 1)) as [H0|_]; [lia|].
        replace (Z.pos m - P + P) with (Z.pos m) by lia.
        replace (eb - bias ft - mw ft) with e by (unfold eb; lia). reflexivity.
  Qed.
End Encoding.

Lemma valid32_repr_ok : forall f, valid_binary 24 128 f = true -> repr_ok F32 f.
Proof. intros f H. apply valid_repr_ok; [cbn; lia|cbn; lia|exact H]. Qed.

Lemma valid64_repr_ok : forall f, valid_binary 53 1024 f = true -> repr_ok F64 f.
Proof. intros f H. apply valid_repr_ok; [cbn; lia|cbn; lia|exact H]. Qed.

(* the integer shortcut only fires inside the int64 range *)
Lemma f32_min_i64 : f_of_Z F32 (- 2 ^ 63) = S754_finite true 8388608 40.
Proof. vm_compute. reflexivity. Qed.
Lemma f32_max_i64 : sf_of_bits F32 0x5EFFFFFF = S754_finite false 16777215 39.
Proof. vm_compute. reflexivity. Qed.

Lemma valid32_mantissa : forall s m e, valid_binary 24 128 (S754_finite s m e) = true ->
  Z.pos m < 2 ^ 24.
Proof.
  intros s m e Hv. cbn [valid_binary] in Hv. unfold bounded in Hv. apply andb_prop in Hv as [Hc _].
  unfold canonical_mantissa in Hc. apply Zeq_bool_eq in Hc. unfold fexp, SpecFloat.emin in Hc.
  pose proof (digits2_pos_bounds m) as Hd. set (d := Z.pos (digits2_pos m)) in *.
  assert (d <= 24) by lia.
  assert (2 ^ d <= 2 ^ 24) by (apply Z.pow_le_mono_r; lia). lia.
Qed.

Lemma trunc_mag_bound : forall m e B, 0 <= B -> Z.pos m * 2 ^ Z.max e 0 <= B ->
  0 <= (if 0 <=? e then Z.pos m * 2 ^ e else Z.pos m / 2 ^ (- e)) <= B.
Proof.
  intros m e B HB H. destruct (Z.leb_spec 0 e) as [He|He].
  - rewrite Z.max_l in H by lia. assert (0 < 2 ^ e) by (apply Z.pow_pos_nonneg; lia). nia.
  - rewrite Z.max_r in H by lia. change (2 ^ 0) with 1 in H.
    assert (Hp : 0 < 2 ^ (- e)) by (apply Z.pow_pos_nonneg; lia).
    split; [apply Z.div_pos; lia|].
    apply Z.le_trans with (Z.pos m); [|lia].
    apply Z.div_le_upper_bound; [exact Hp|]. nia.
Qed.

Lemma cc_opp_ge : forall m q,
  match CompOpp (Pos.compare_cont Eq m q) with Lt => false | _ => true end = true ->
  Z.pos m <= Z.pos q.
Proof.
  intros m q H. assert (E : Pos.compare_cont Eq m q = Pos.compare m q) by reflexivity.
  rewrite E in H. apply Pos2Z.pos_le_pos.
  destruct (Pos.compare_spec m q) as [Hq|Hq|Hq]; cbn [CompOpp] in H;
    [subst; apply Pos.le_refl|apply Pos.lt_le_incl; exact Hq|discriminate].
Qed.

Lemma fits_trunc_range : forall f, valid_binary 24 128 f = true -> f32_fits_i64 f = true ->
  - 2 ^ 63 <= f_trunc f < 2 ^ 64.
Proof.
  intros f Hv Hf. destruct f as [s|s| |s m e]; try (cbn [f_trunc]; lia).
  pose proof (valid32_mantissa s m e Hv) as Hm.
  unfold f32_fits_i64 in Hf. rewrite f32_min_i64, f32_max_i64 in Hf.
  apply andb_prop in Hf as [Hge Hle]. unfold f_ge in Hge. unfold f_le in Hle.
  cbn [SFcompare] in Hge, Hle. cbn [f_trunc]. cbv zeta.
  destruct s.
  - (* negative: magnitude at most 2^63 *)
    assert (Hmag : Z.pos m * 2 ^ Z.max e 0 <= 2 ^ 63).
    { destruct (Z.compare_spec e 40) as [He|He|He]; [| |discriminate].
      - apply cc_opp_ge in Hge. rewrite He, Z.max_l by lia.
        replace (2 ^ 63) with (8388608 * 2 ^ 40) by reflexivity.
        apply Z.mul_le_mono_nonneg_r; [apply Z.pow_nonneg|]; lia.
      - assert (2 ^ Z.max e 0 <= 2 ^ 39) by (apply Z.pow_le_mono_r; lia).
        assert (0 < 2 ^ Z.max e 0) by (apply Z.pow_pos_nonneg; lia).
        change (2 ^ 63) with (2 ^ 24 * 2 ^ 39). nia. }
    pose proof (trunc_mag_bound m e (2 ^ 63) ltac:(lia) Hmag). lia.
  - (* positive: magnitude below 2^63 *)
    assert (Hmag : Z.pos m * 2 ^ Z.max e 0 <= 2 ^ 63 - 1).
    { destruct (Z.compare_spec e 39) as [He|He|He]; [| |discriminate].
      - rewrite He, Z.max_l by lia.
        replace (2 ^ 63) with (2 ^ 24 * 2 ^ 39) by reflexivity.
        assert (0 < 2 ^ 39) by (apply Z.pow_pos_nonneg; lia). nia.
      - assert (2 ^ Z.max e 0 <= 2 ^ 38) by (apply Z.pow_le_mono_r; lia).
        assert (0 < 2 ^ Z.max e 0) by (apply Z.pow_pos_nonneg; lia).
        change (2 ^ 63) with (2 ^ 25 * 2 ^ 38). nia. }
    pose proof (trunc_mag_bound m e (2 ^ 63 - 1) ltac:(lia) Hmag). lia.
Qed.

Lemma valid32_ok : forall f, valid_binary 24 128 f = true -> f32_ok f.
Proof.
  intros f Hv. split; [apply valid32_repr_ok; exact Hv|]. apply fits_trunc_range. exact Hv.
Qed.

(* ------------------------------------------------------------------------------------- *)
(* binary_round always produces a valid float (SpecFloat has the definitions only) *)

Lemma D_bounds : forall m, 0 < m -> 2 ^ (Zdigits2 m - 1) <= m < 2 ^ Zdigits2 m.
Proof. intros [|q|q] H; try lia. apply digits2_pos_bounds. Qed.

Lemma D_pos : forall m, 0 < m -> 1 <= Zdigits2 m.
Proof. intros [|q|q] H; try lia. cbn. lia. Qed.

Lemma D_unique : forall m k, 0 < m -> 2 ^ (k - 1) <= m < 2 ^ k -> Zdigits2 m = k.
Proof.
  intros m k Hm Hk. pose proof (D_bounds m Hm) as Hd. pose proof (D_pos m Hm) as Hd1.
  set (d := Zdigits2 m) in *.
  assert (Hk1 : 1 <= k).
  { destruct (Z_lt_le_dec k 1) as [Hlt|]; [|assumption].
    assert (2 ^ k <= 2 ^ 0) by (apply Z.pow_le_mono_r; lia). change (2 ^ 0) with 1 in *. lia. }
  destruct (Z_lt_le_dec d k) as [Hlt|Hge].
  - assert (2 ^ d <= 2 ^ (k - 1)) by (apply Z.pow_le_mono_r; lia). lia.
  - destruct (Z_lt_le_dec k d) as [Hlt|Hle]; [|lia].
    assert (2 ^ k <= 2 ^ (d - 1)) by (apply Z.pow_le_mono_r; lia). lia.
Qed.

Lemma D_mono : forall a b, 0 < a <= b -> Zdigits2 a <= Zdigits2 b.
Proof.
  intros a b H. pose proof (D_bounds a ltac:(lia)) as Ha. pose proof (D_bounds b ltac:(lia)) as Hb.
  pose proof (D_pos b ltac:(lia)) as Hb1.
  destruct (Z_lt_le_dec (Zdigits2 b) (Zdigits2 a)) as [Hlt|]; [|assumption].
  assert (2 ^ Zdigits2 b <= 2 ^ (Zdigits2 a - 1)) by (apply Z.pow_le_mono_r; lia). lia.
Qed.

Lemma D_div : forall m n, 0 < m -> 0 <= n -> 0 < m / 2 ^ n -> Zdigits2 (m / 2 ^ n) = Zdigits2 m - n.
Proof.
  intros m n Hm Hn HM. pose proof (D_bounds m Hm) as Hd. pose proof (D_pos m Hm) as Hd1.
  set (d := Zdigits2 m) in *.
  assert (Hpn : 0 < 2 ^ n) by (apply Z.pow_pos_nonneg; lia).
  assert (Hmn : 2 ^ n <= m).
  { destruct (Z_lt_le_dec m (2 ^ n)) as [Hlt|]; [|assumption]. rewrite Z.div_small in HM by lia. lia. }
  assert (Hnd : n < d).
  { destruct (Z_lt_le_dec n d) as [|Hle]; [assumption|].
    assert (2 ^ d <= 2 ^ n) by (apply Z.pow_le_mono_r; lia). lia. }
  apply D_unique; [exact HM|]. split.
  - apply Z.div_le_lower_bound; [exact Hpn|]. rewrite <- Z.pow_add_r by lia.
    replace (n + (d - n - 1)) with (d - 1) by lia. lia.
  - apply Z.div_lt_upper_bound; [exact Hpn|]. rewrite <- Z.pow_add_r by lia.
    replace (n + (d - n)) with d by lia. lia.
Qed.

Lemma D_mul_pow : forall m n, 0 < m -> 0 <= n -> Zdigits2 (m * 2 ^ n) = Zdigits2 m + n.
Proof.
  intros m n Hm Hn. pose proof (D_bounds m Hm) as Hd. pose proof (D_pos m Hm) as Hd1.
  assert (Hpn : 0 < 2 ^ n) by (apply Z.pow_pos_nonneg; lia).
  apply D_unique; [nia|].
  replace (Zdigits2 m + n - 1) with (Zdigits2 m - 1 + n) by lia.
  rewrite !Z.pow_add_r by lia. nia.
Qed.

Lemma shr_1_m : forall mrs, 0 <= shr_m mrs -> shr_m (shr_1 mrs) = shr_m mrs / 2.
Proof.
  intros [m r s] H. cbn [shr_m] in H. destruct m as [|[q|q|]|q]; cbn [shr_1 shr_m]; try lia.
  - reflexivity.
  - apply (Z.div_unique (Z.pos q~1) 2 (Z.pos q) 1); lia.
  - apply (Z.div_unique (Z.pos q~0) 2 (Z.pos q) 0); lia.
  - reflexivity.
Qed.

Lemma iter_shr_m : forall n mrs, 0 <= shr_m mrs ->
  shr_m (SpecFloat.iter_pos shr_1 n mrs) = shr_m mrs / 2 ^ Z.pos n.
Proof.
  induction n as [n IH|n IH|]; intros mrs H; cbn [SpecFloat.iter_pos].
  - assert (Hp : 0 < 2 ^ Z.pos n) by (apply Z.pow_pos_nonneg; lia).
    assert (H1 : 0 <= shr_m (shr_1 mrs)) by (rewrite shr_1_m by exact H; apply Z.div_pos; lia).
    assert (H2 : 0 <= shr_m (SpecFloat.iter_pos shr_1 n (shr_1 mrs))) by (rewrite IH by exact H1; apply Z.div_pos; lia).
    rewrite IH by exact H2. rewrite IH by exact H1. rewrite shr_1_m by exact H.
    rewrite !Z.div_div by lia. f_equal.
    rewrite (Pos2Z.inj_xI n). replace (2 * Z.pos n + 1) with (1 + Z.pos n + Z.pos n) by lia.
    rewrite !Z.pow_add_r by lia. change (2 ^ 1) with 2. ring.
  - assert (Hp : 0 < 2 ^ Z.pos n) by (apply Z.pow_pos_nonneg; lia).
    assert (H2 : 0 <= shr_m (SpecFloat.iter_pos shr_1 n mrs)) by (rewrite IH by exact H; apply Z.div_pos; lia).
    rewrite IH by exact H2. rewrite IH by exact H.
    rewrite !Z.div_div by lia. f_equal.
    rewrite (Pos2Z.inj_xO n). replace (2 * Z.pos n) with (Z.pos n + Z.pos n) by lia.
    rewrite !Z.pow_add_r by lia. ring.
  - rewrite shr_1_m by exact H. reflexivity.
Qed.

Lemma shr_record_of_loc_m : forall m l, shr_m (shr_record_of_loc m l) = m.
Proof. intros m [|[| |]]; reflexivity. Qed.

Section RoundValid.
  Variables p em : Z.
  Hypothesis Hp : 1 <= p.

  Let emn := SpecFloat.emin p em.
  Let fx := fexp p em.

  Lemma fx_eq : forall k, fx k = Z.max (k - p) emn.
  Proof. reflexivity. Qed.

  Lemma fx_ge_emn : forall k, emn <= fx k.
  Proof. intros k. unfold fx, fexp. apply Z.le_max_r. Qed.

  Lemma fx_mono : forall a b, a <= b -> fx a <= fx b.
  Proof. intros a b H. unfold fx, fexp. lia. Qed.

  Lemma fx_le_self : forall e, emn <= e -> fx e <= e.
  Proof. intros e H. unfold fx, fexp. fold emn. lia. Qed.

  (* shifting right to the format's exponent *)
  Lemma shr_fexp_shift : forall m e l, 0 <= m -> e <= fx (Zdigits2 m + e) ->
    snd (shr_fexp p em m e l) = fx (Zdigits2 m + e) /\
    shr_m (fst (shr_fexp p em m e l)) = m / 2 ^ (fx (Zdigits2 m + e) - e).
  Proof.
    intros m e l Hm He. unfold shr_fexp, shr. fold fx.
    destruct (fx (Zdigits2 m + e) - e) as [|q|q] eqn:En; cbn [fst snd].
    - rewrite shr_record_of_loc_m. change (2 ^ 0) with 1. rewrite Z.div_1_r. split; lia.
    - rewrite iter_shr_m by (rewrite shr_record_of_loc_m; exact Hm).
      rewrite shr_record_of_loc_m. split; [lia|reflexivity].
    - lia.
  Qed.

  Lemma shr_fexp_zero : forall e l, emn <= e ->
    shr_m (fst (shr_fexp p em 0 e l)) = 0.
  Proof.
    intros e l He. unfold shr_fexp, shr. fold fx. cbn [Zdigits2].
    pose proof (fx_le_self e He) as H. rewrite Z.add_0_l.
    destruct (fx e - e) as [|q|q] eqn:En; cbn [fst]; [apply shr_record_of_loc_m|lia|apply shr_record_of_loc_m].
  Qed.

  Lemma shift_precanon : forall m e, 0 < m -> e <= fx (Zdigits2 m + e) ->
    let e1 := fx (Zdigits2 m + e) in
    let M := m / 2 ^ (e1 - e) in
    0 <= M /\ (0 < M -> fx (Zdigits2 M + e1) = e1) /\ (M = 0 -> e1 = emn).
  Proof.
    intros m e Hm He e1 M.
    assert (Hpn : 0 < 2 ^ (e1 - e)) by (apply Z.pow_pos_nonneg; lia).
    split; [apply Z.div_pos; lia|]. split.
    - intros HM. unfold M. rewrite D_div by (fold M; lia).
      replace (Zdigits2 m - (e1 - e) + e1) with (Zdigits2 m + e) by lia. reflexivity.
    - intros HM0. pose proof (D_bounds m Hm) as Hd.
      assert (Hlt : m < 2 ^ (e1 - e)).
      { destruct (Z_lt_le_dec m (2 ^ (e1 - e))) as [|Hle]; [assumption|].
        assert (1 <= M) by (apply Z.div_le_lower_bound; lia). lia. }
      assert (Hde : Zdigits2 m - 1 < e1 - e).
      { apply (Z.pow_lt_mono_r_iff 2); lia. }
      pose proof (fx_eq (Zdigits2 m + e)) as F. unfold e1 in *. lia.
  Qed.

  (* rounding, then renormalising *)
  Lemma round_canon : forall M1 e' m1,
    0 <= M1 -> emn <= e' -> (0 < M1 -> fx (Zdigits2 M1 + e') = e') -> (M1 = 0 -> e' = emn) ->
    m1 = M1 \/ m1 = M1 + 1 ->
    let r := shr_fexp p em m1 e' loc_Exact in
    0 <= shr_m (fst r) /\ (0 < shr_m (fst r) -> fx (Zdigits2 (shr_m (fst r)) + snd r) = snd r).
  Proof.
    intros M1 e' m1 HM1 He' Hc Hz Hm1 r.
    destruct (Z.eq_dec m1 0) as [->|Hnz].
    { unfold r. rewrite shr_fexp_zero by exact He'. split; lia. }
    assert (Hm1p : 0 < m1) by lia.
    assert (Hle : e' <= fx (Zdigits2 m1 + e')).
    { destruct (Z.eq_dec M1 0) as [HM0|HMnz].
      - assert (m1 = 1) by lia. subst m1. rewrite (Hz HM0). cbn [Zdigits2 digits2_pos].
        apply fx_ge_emn.
      - rewrite <- (Hc ltac:(lia)) at 1. apply fx_mono.
        pose proof (D_mono M1 m1 ltac:(lia)). lia. }
    destruct (shr_fexp_shift m1 e' loc_Exact ltac:(lia) Hle) as [E1 E2]. fold r in E1, E2.
    destruct (shift_precanon m1 e' Hm1p Hle) as (P1 & P2 & _). cbv zeta in P1, P2.
    rewrite E1, E2. split; assumption.
  Qed.

  Lemma round_nearest_even_cases : forall m l,
    round_nearest_even m l = m \/ round_nearest_even m l = m + 1.
  Proof. intros m [|[| |]]; cbn [round_nearest_even]; auto. destruct (Z.even m); auto. Qed.

  Lemma binary_round_aux_valid : forall sx mx ex lx, 0 < mx -> ex <= fx (Zdigits2 mx + ex) ->
    valid_binary p em (binary_round_aux p em sx mx ex lx) = true.
  Proof.
    intros sx mx ex lx Hmx Hex. unfold binary_round_aux.
    destruct (shr_fexp_shift mx ex lx ltac:(lia) Hex) as [E1 E2].
    destruct (shift_precanon mx ex Hmx Hex) as (P1 & P2 & P3). cbv zeta in P1, P2, P3.
    destruct (shr_fexp p em mx ex lx) as [mrs' e'] eqn:Es. cbn [fst snd] in E1, E2.
    rewrite <- E2 in P1, P2, P3. rewrite <- E1 in P2, P3.
    assert (He' : emn <= e') by (rewrite E1; apply fx_ge_emn).
    pose proof (round_canon (shr_m mrs') e'
                  (round_nearest_even (shr_m mrs') (loc_of_shr_record mrs'))
                  P1 He' P2 P3 (round_nearest_even_cases _ _)) as [R1 R2].
    cbv zeta in R1, R2.
    destruct (shr_fexp p em (round_nearest_even (shr_m mrs') (loc_of_shr_record mrs')) e' loc_Exact)
      as [mrs'' e''] eqn:Es2.
    cbn [fst snd] in R1, R2.
    destruct (shr_m mrs'') as [|q|q] eqn:Em; [reflexivity| |reflexivity].
    destruct (Zle_bool e'' (em - p)) eqn:Eb; [|reflexivity].
    cbn [valid_binary]. unfold bounded, canonical_mantissa. rewrite Eb, andb_true_r.
    specialize (R2 ltac:(lia)). cbn [Zdigits2] in R2. fold fx. rewrite R2.
    apply Zeq_is_eq_bool. reflexivity.
  Qed.

  Lemma binary_round_valid : forall sx mx ex, valid_binary p em (binary_round p em sx mx ex) = true.
  Proof.
    intros sx mx ex. unfold binary_round, shl_align. fold fx.
    set (ex' := fx (Z.pos (digits2_pos mx) + ex)).
    destruct (ex' - ex) as [|d|d] eqn:Ed.
    - apply binary_round_aux_valid; [lia|]. cbn [Zdigits2]. fold ex'. lia.
    - apply binary_round_aux_valid; [lia|]. cbn [Zdigits2]. fold ex'. lia.
    - apply binary_round_aux_valid; [lia|].
      rewrite shift_pos_correct. change (Z.pow_pos 2 d) with (2 ^ Z.pos d).
      rewrite Z.mul_comm. rewrite D_mul_pow by lia. cbn [Zdigits2].
      replace (Z.pos (digits2_pos mx) + Z.pos d + ex') with (Z.pos (digits2_pos mx) + ex) by lia.
      fold ex'. lia.
  Qed.

  Lemma binary_normalize_valid : forall m e sz, valid_binary p em (binary_normalize p em m e sz) = true.
  Proof. intros [|q|q] e sz; cbn [binary_normalize]; [reflexivity|apply binary_round_valid..]. Qed.
End RoundValid.

Lemma fconv_valid32 : forall f, valid_binary 24 128 (fconv F32 f) = true.
Proof.
  intros f. destruct f as [s|s| |s m e]; cbn [fconv]; try reflexivity.
  apply (binary_normalize_valid 24 128). lia.
Qed.

Lemma valid64_ok : forall f, valid_binary 53 1024 f = true -> f64_ok f.
Proof.
  intros f Hv. split; [apply valid64_repr_ok; exact Hv|]. apply valid32_ok.
  apply fconv_valid32.
Qed.

(* ------------------------------------------------------------------------------------- *)
(* Part 4 — whole documents *)

(* [ud] = ARDUINOJSON_USE_DOUBLE: without it a float64 that is not a float32 is narrowed *)
Fixpoint mp_norm_gen (ud : bool) (v : jv) : jv :=
  match v with
  | JFloat f => mp_norm_f32 f
  | JDouble f => mp_norm_f64 ud f
  | JArr l => JArr (map (mp_norm_gen ud) l)
  | JObj l => JObj (map (fun kv => (fst kv, mp_norm_gen ud (snd kv))) l)
  | _ => v
  end.

Definition mp_norm : jv -> jv := mp_norm_gen true.

Definition str_ok (s : bytes) : Prop :=
  Forall (fun b => (b < 256)%N) s /\ Z.of_nat (length s) <= max_string_length.

Fixpoint mp_ok (v : jv) : Prop :=
  match v with
  | JNull | JBool _ => True
  | JInt z => - 2 ^ 63 <= z < 2 ^ 64
  | JFloat f => valid_binary 24 128 f = true
  | JDouble f => valid_binary 53 1024 f = true
  | JStr s => str_ok s
  | JRaw _ => False
  | JArr l => Z.of_nat (length l) < 2 ^ 32 /\ fold_right (fun x P => mp_ok x /\ P) True l
  | JObj l => Z.of_nat (length l) < 2 ^ 32 /\
              fold_right (fun kv P => (str_ok (fst kv) /\ mp_ok (snd kv)) /\ P) True l
  end.

Lemma fold_and_In : forall (A : Type) (Q : A -> Prop) (l : list A),
  fold_right (fun x P => Q x /\ P) True l -> forall x, In x l -> Q x.
Proof.
  intros A Q l. induction l as [|y l IH]; intros H x Hx; cbn in *; [contradiction|].
  destruct H as [Hy Hl]. destruct Hx as [<-|Hx]; auto.
Qed.

Lemma nesting_In : forall (A : Type) (g : A -> nat) (l : list A) x, In x l ->
  (g x <= fold_right (fun x m => Nat.max (g x) m) 0 l)%nat.
Proof.
  intros A g l. induction l as [|y l IH]; intros x Hx; cbn in *; [contradiction|].
  destruct Hx as [<-|Hx]; [lia|]. specialize (IH x Hx). lia.
Qed.

Lemma mp_int_nonempty : forall z, (1 <= length (mp_int z))%nat.
Proof.
  intros z. unfold mp_int, mp_uint.
  destruct (0 <? z).
  - destruct (z <=? 0x7F); [cbn; lia|]. destruct (z <=? 0xFF); [cbn; lia|].
    destruct (z <=? 0xFFFF); [cbn [length]; lia|]. destruct (z <=? 0xFFFFFFFF); cbn [length]; lia.
  - destruct (-0x20 <=? z); [cbn; lia|]. destruct (-0x80 <=? z); [cbn; lia|].
    destruct (-0x8000 <=? z); [cbn [length]; lia|]. destruct (-0x80000000 <=? z); cbn [length]; lia.
Qed.

Lemma mp_f32_nonempty : forall f, (1 <= length (mp_f32 f))%nat.
Proof.
  intros f. unfold mp_f32. destruct (f32_fits_i64 f); [cbv zeta; destruct (f_eq _ _)|];
    try apply mp_int_nonempty; cbn [length]; lia.
Qed.

Lemma mp_str_nonempty : forall s, (1 <= length (mp_str s))%nat.
Proof.
  intros s. unfold mp_str. rewrite app_length, mp_str_header_length.
  destruct (_ <? 32); [lia|]. destruct (_ <? 256); [lia|]. destruct (_ <? 65536); lia.
Qed.

Lemma mp_ser_nonempty : forall v, mp_ok v -> (1 <= length (mp_ser v))%nat.
Proof.
  intros v H. destruct v; cbn [mp_ser].
  - cbn; lia.
  - cbn; lia.
  - apply mp_int_nonempty.
  - apply mp_f32_nonempty.
  - unfold mp_f64. destruct (f_eq _ _); [apply mp_f32_nonempty|cbn [length]; lia].
  - apply mp_str_nonempty.
  - destruct H.
  - rewrite app_length, mp_arr_header_length.
    destruct (_ <? 16); [lia|]. destruct (_ <? 65536); lia.
  - rewrite app_length, mp_map_header_length.
    destruct (_ <? 16); [lia|]. destruct (_ <? 65536); lia.
Qed.

Lemma body_nil : forall cf pv' Lz rest k,
  mp_body cf pv' Lz None (rd_at (bz 0xC0 :: rest) k) = (Ok, JNull, rd_at rest (k + 1)).
Proof. reflexivity. Qed.
Lemma body_false : forall cf pv' Lz rest k,
  mp_body cf pv' Lz None (rd_at (bz 0xC2 :: rest) k) = (Ok, JBool false, rd_at rest (k + 1)).
Proof. reflexivity. Qed.
Lemma body_true : forall cf pv' Lz rest k,
  mp_body cf pv' Lz None (rd_at (bz 0xC3 :: rest) k) = (Ok, JBool true, rd_at rest (k + 1)).
Proof. reflexivity. Qed.

Theorem mp_roundtrip_gen : forall cf L v, mp_ok v ->
  (nesting v <= L)%nat -> forall rest k,
  mp_parse cf L None true (rd_at (mp_ser v ++ rest) k) =
    (Ok, mp_norm_gen (use_double cf) v, rd_at rest (k + N.of_nat (length (mp_ser v)))).
Proof.
  intros cf. induction L as [|L IH]; intros v Hok Hn rest k; rewrite mp_parse_eq.
  - destruct v; cbn [mp_ser mp_norm_gen]; cbn [mp_ok] in Hok.
    + apply body_nil.
    + destruct b; [apply body_true|apply body_false].
    + apply mp_int_body; exact Hok.
    + apply mp_f32_body; apply valid32_ok; exact Hok.
    + apply mp_f64_body; apply valid64_ok; exact Hok.
    + apply mp_str_body; apply Hok.
    + destruct Hok.
    + cbn [nesting] in Hn. lia.
    + cbn [nesting] in Hn. lia.
  - destruct v; cbn [mp_ser mp_norm_gen]; cbn [mp_ok] in Hok.
    + apply body_nil.
    + destruct b; [apply body_true|apply body_false].
    + apply mp_int_body; exact Hok.
    + apply mp_f32_body; apply valid32_ok; exact Hok.
    + apply mp_f64_body; apply valid64_ok; exact Hok.
    + apply mp_str_body; apply Hok.
    + destruct Hok.
    + destruct Hok as [Hlen Hall]. cbn [nesting] in Hn. rewrite <- app_assoc.
      rewrite arr_header_body by lia. unfold arr_payload. cbn [is_O pv_of].
      rewrite clip_count_exact.
      2:{ rewrite app_length.
          pose proof (concat_length_ge jv mp_ser l
                        (fun x Hx => mp_ser_nonempty x (fold_and_In jv mp_ok l Hall x Hx))). lia. }
      rewrite (array_loop_rt (mp_parse cf L) (mp_norm_gen (use_double cf)) l).
      2:{ intros x Hx rest' k'. apply IH.
          - exact (fold_and_In jv mp_ok l Hall x Hx).
          - pose proof (nesting_In jv nesting l x Hx). lia. }
      cbn [app]. rewrite reads_app, app_length. reflexivity.
    + destruct Hok as [Hlen Hall]. cbn [nesting] in Hn. rewrite <- app_assoc.
      rewrite map_header_body by lia. unfold map_payload. cbn [is_O pv_of].
      change (map (fun kv : bytes * jv => mp_str (fst kv) ++ mp_ser (snd kv)) l)
        with (map ser_member l).
      pose proof (fold_and_In _ (fun kv => str_ok (fst kv) /\ mp_ok (snd kv)) l Hall) as Hin.
      rewrite clip_count_exact.
      2:{ rewrite app_length.
          assert (length l <= length (concat (map ser_member l)))%nat.
          { apply concat_length_ge. intros x Hx. unfold ser_member. rewrite app_length.
            pose proof (mp_str_nonempty (fst x)). lia. }
          lia. }
      rewrite (object_loop_rt (mp_parse cf L) (mp_norm_gen (use_double cf)) l).
      2:{ intros x Hx. destruct (Hin x Hx) as [[_ Hk] Hv]. split; [exact Hk|].
          intros rest' k'. apply IH; [exact Hv|].
          pose proof (nesting_In _ (fun kv => nesting (snd kv)) l x Hx). cbv beta in *. lia. }
      cbn [app]. rewrite reads_app, app_length. reflexivity.
Qed.

Theorem mp_roundtrip : forall cf v, use_double cf = true -> mp_ok v -> forall L rest,
  (nesting v <= L)%nat ->
  mp_parse cf L None true {| m_rest := mp_ser v ++ rest; m_reads := 0 |}
    = (Ok, mp_norm v, {| m_rest := rest; m_reads := N.of_nat (length (mp_ser v)) |}).
Proof.
  intros cf v UD Hok L rest Hn. unfold mp_norm.
  pose proof (mp_roundtrip_gen cf L v Hok Hn rest 0%N) as H. rewrite UD in H. exact H.
Qed.

Corollary mp_run_roundtrip : forall cf v L, use_double cf = true -> mp_ok v -> (nesting v <= L)%nat ->
  mp_run cf None L (mp_ser v) =
    {| mp_err := Ok; mp_doc := mp_norm v;
       mp_rd := {| m_rest := []; m_reads := N.of_nat (length (mp_ser v)) |} |}.
Proof.
  intros cf v L UD Hok Hn. unfold mp_run.
  pose proof (mp_roundtrip cf v UD Hok L [] Hn) as H. rewrite app_nil_r in H. rewrite H.
  pose proof (mp_ser_nonempty v Hok) as Hne.
  destruct (mp_ser v) as [|b t]; [cbn in Hne; lia|]. reflexivity.
Qed.

(* C16 for MessagePack: the reader stops exactly after one object, whatever follows *)
Corollary mp_run_roundtrip_trailing : forall cf v L rest, use_double cf = true -> mp_ok v ->
  (nesting v <= L)%nat ->
  mp_run cf None L (mp_ser v ++ rest) =
    {| mp_err := Ok; mp_doc := mp_norm v;
       mp_rd := {| m_rest := rest; m_reads := N.of_nat (length (mp_ser v)) |} |}.
Proof.
  intros cf v L rest UD Hok Hn. unfold mp_run.
  rewrite (mp_roundtrip cf v UD Hok L rest Hn).
  pose proof (mp_ser_nonempty v Hok) as Hne.
  destruct (mp_ser v) as [|b t]; [cbn in Hne; lia|]. reflexivity.
Qed.

(* re-serialization is byte-identical *)
Lemma SFcompare_swap : forall a b, SFcompare b a = option_map CompOpp (SFcompare a b).
Proof.
  intros a b.
  destruct a as [sa|sa| |sa ma ea]; destruct b as [sb|sb| |sb mb eb]; cbn [SFcompare option_map];
    try reflexivity; try (destruct sa; reflexivity); try (destruct sb; reflexivity);
    try (destruct sa, sb; reflexivity).
  destruct sa, sb; cbn [CompOpp]; try reflexivity.
  - rewrite (Z.compare_antisym ea eb). destruct (ea ?= eb); cbn [CompOpp]; try reflexivity.
    rewrite (Pos.compare_cont_antisym ma mb Eq). reflexivity.
  - rewrite (Z.compare_antisym ea eb). destruct (ea ?= eb); cbn [CompOpp]; try reflexivity.
    rewrite (Pos.compare_cont_antisym ma mb Eq). reflexivity.
Qed.

Lemma f_eq_sym : forall a b, f_eq a b = f_eq b a.
Proof.
  intros a b. unfold f_eq. rewrite (SFcompare_swap a b).
  destruct (SFcompare a b) as [[| |]|]; reflexivity.
Qed.

Lemma mp_ser_norm_f32 : forall f, mp_ser (mp_norm_f32 f) = mp_f32 f.
Proof.
  intros f. unfold mp_norm_f32, mp_f32. destruct (f32_fits_i64 f) eqn:Fit; cbv zeta.
  - destruct (f_eq f (f_of_Z F32 (f_trunc f))) eqn:E; cbn [mp_ser]; [reflexivity|].
    unfold mp_f32. rewrite Fit. cbv zeta. rewrite E. reflexivity.
  - cbn [mp_ser]. unfold mp_f32. rewrite Fit. reflexivity.
Qed.

Lemma mp_ser_norm_f64 : forall f, mp_ser (mp_norm_f64 true f) = mp_f64 f.
Proof.
  intros f. unfold mp_norm_f64, mp_f64. cbv zeta.
  destruct (f_eq (fconv F64 (fconv F32 f)) f) eqn:E.
  - apply mp_ser_norm_f32.
  - unfold jv_of_double. cbv zeta. rewrite (f_eq_sym f), E. cbn [mp_ser].
    unfold mp_f64. cbv zeta. rewrite E. reflexivity.
Qed.

Lemma mp_fixpoint_gen : forall L v, (nesting v <= L)%nat ->
  mp_ser (mp_norm_gen true v) = mp_ser v.
Proof.
  induction L as [|L IH]; intros v Hn.
  - destruct v; cbn [mp_norm_gen]; try reflexivity;
      [apply mp_ser_norm_f32|apply mp_ser_norm_f64|cbn [nesting] in Hn; lia|cbn [nesting] in Hn; lia].
  - destruct v; cbn [mp_norm_gen]; try reflexivity;
      [apply mp_ser_norm_f32|apply mp_ser_norm_f64| |].
    + cbn [nesting] in Hn. cbn [mp_ser]. rewrite map_length, map_map.
      f_equal. f_equal. apply map_ext_in. intros x Hx. apply IH.
      pose proof (nesting_In jv nesting l x Hx). lia.
    + cbn [nesting] in Hn. cbn [mp_ser]. rewrite map_length, map_map.
      f_equal. f_equal. apply map_ext_in. intros x Hx. cbn [fst snd]. f_equal. apply IH.
      pose proof (nesting_In _ (fun kv => nesting (snd kv)) l x Hx). cbv beta in *. lia.
Qed.

Corollary mp_fixpoint : forall v, mp_ok v -> mp_ser (mp_norm v) = mp_ser v.
Proof. intros v _. apply (mp_fixpoint_gen (nesting v)). lia. Qed.


(* ------------------------------------------------------------------------------------- *)
(* Part 5 — strict prefixes of a document are reported as incomplete *)

Definition err_of {A : Type} (x : code * A * mrd) : code := fst (fst x).

Lemma read_n_short : forall n l k, (length l < n)%nat -> exists r, read_n n (rd_at l k) = (None, r).
Proof.
  intros n l k H. unfold read_n. cbn [rd_at m_rest m_reads].
  rewrite firstn_all2 by lia.
  destruct (Nat.eqb_spec (length l) n) as [E|_]; [lia|]. eexists. reflexivity.
Qed.

Lemma read_z_short : forall n l k, Z.of_nat (length l) < n -> exists r, read_z n (rd_at l k) = (None, r).
Proof.
  intros n l k H. unfold read_z. cbn [rd_at m_rest m_reads].
  destruct (Z.leb_spec n (Z.of_nat (length l))) as [H1|_]; [lia|]. eexists. reflexivity.
Qed.

Lemma body_empty : forall cf pv' Lz f k, err_of (mp_body cf pv' Lz f (rd_at [] k)) = IncompleteInput.
Proof. reflexivity. Qed.

Lemma key_empty : forall k, err_of (mp_read_key (rd_at [] k)) = IncompleteInput.
Proof. reflexivity. Qed.

Lemma prefix_cons : forall (p q : bytes) c t, p ++ q = c :: t ->
  p = [] \/ exists p', p = c :: p' /\ p' ++ q = t.
Proof.
  intros [|x p] q c t H; [left; reflexivity|right]. cbn [app] in H. injection H as -> H.
  exists p. split; [reflexivity|exact H].
Qed.

Lemma split_app : forall (p q h s : bytes), p ++ q = h ++ s ->
  (exists t, h = p ++ t /\ t <> []) \/ exists p'', p = h ++ p'' /\ p'' ++ q = s.
Proof.
  intros p q h s H. apply app_eq_app in H as [l [[-> ->]|[-> ->]]].
  - right. exists l. split; reflexivity.
  - destruct l as [|x l].
    + right. exists []. rewrite !app_nil_r. split; reflexivity.
    + left. exists (x :: l). split; [reflexivity|congruence].
Qed.

Lemma short_of_app : forall (p q t : bytes), p ++ q = t -> q <> [] -> (length p < length t)%nat.
Proof.
  intros p q t <- Hq. rewrite app_length. destruct q as [|x q]; [congruence|]. cbn [length]. lia.
Qed.

Lemma body_intcode_short : forall cf pv' Lz cb p' k, 0xCC <= Z.of_N cb <= 0xD3 ->
  (length p' < Z.to_nat (2 ^ ((Z.of_N cb - 0xCC) mod 4)))%nat ->
  err_of (mp_body cf pv' Lz None (rd_at (cb :: p') k)) = IncompleteInput.
Proof.
  intros cf pv' Lz cb p' k Hc Hl. rewrite body_intcode by exact Hc. cbv zeta.
  destruct (read_n_short _ p' (k + 1)%N Hl) as [r E]. rewrite E. reflexivity.
Qed.

Lemma mp_int_prefix : forall cf pv' Lz z p q k, mp_int z = p ++ q -> q <> [] ->
  err_of (mp_body cf pv' Lz None (rd_at p k)) = IncompleteInput.
Proof.
  intros cf pv' Lz z p q k H Hq. unfold mp_int, mp_uint in H.
  assert (F1 : forall p, be_bytes 1 z = p ++ q ->
               err_of (mp_body cf pv' Lz None (rd_at p k)) = IncompleteInput).
  { intros p0 H0. rewrite be_bytes_1 in H0. symmetry in H0.
    apply prefix_cons in H0 as [->|(p' & -> & H')]; [apply body_empty|].
    apply app_eq_nil in H' as [_ ->]. congruence. }
  assert (FW : forall cb w p, 0xCC <= Z.of_N cb <= 0xD3 ->
               Z.to_nat (2 ^ ((Z.of_N cb - 0xCC) mod 4)) = w ->
               cb :: be_bytes w z = p ++ q ->
               err_of (mp_body cf pv' Lz None (rd_at p k)) = IncompleteInput).
  { intros cb w p0 Hc Hw H0. symmetry in H0.
    apply prefix_cons in H0 as [->|(p' & -> & H')]; [apply body_empty|].
    apply body_intcode_short; [exact Hc|]. rewrite Hw.
    pose proof (short_of_app _ _ _ H' Hq) as Hs. rewrite be_bytes_length in Hs. exact Hs. }
  assert (FW' : forall cb w, cb :: be_bytes w z = p ++ q -> 0xCC <= Z.of_N cb <= 0xD3 ->
               Z.to_nat (2 ^ ((Z.of_N cb - 0xCC) mod 4)) = w ->
               err_of (mp_body cf pv' Lz None (rd_at p k)) = IncompleteInput).
  { intros cb w H0 Hc Hw. exact (FW cb w p Hc Hw H0). }
  destruct (0 <? z).
  - destruct (z <=? 0x7F); [apply F1; exact H|].
    destruct (z <=? 0xFF); [apply (FW' _ _ H); [vm_compute; split; discriminate|reflexivity]|].
    destruct (z <=? 0xFFFF); [apply (FW' _ _ H); [vm_compute; split; discriminate|reflexivity]|].
    destruct (z <=? 0xFFFFFFFF); apply (FW' _ _ H); try reflexivity; vm_compute; split; discriminate.
  - destruct (-0x20 <=? z); [apply F1; exact H|].
    destruct (-0x80 <=? z); [apply (FW' _ _ H); [vm_compute; split; discriminate|reflexivity]|].
    destruct (-0x8000 <=? z); [apply (FW' _ _ H); [vm_compute; split; discriminate|reflexivity]|].
    destruct (-0x80000000 <=? z); apply (FW' _ _ H); try reflexivity; vm_compute; split; discriminate.
Qed.

Lemma mp_f32_prefix : forall cf pv' Lz f p q k, mp_f32 f = p ++ q -> q <> [] ->
  err_of (mp_body cf pv' Lz None (rd_at p k)) = IncompleteInput.
Proof.
  intros cf pv' Lz f p q k H Hq. unfold mp_f32 in H.
  assert (FC : bz 0xCA :: be_bytes 4 (bits_of_sf F32 f) = p ++ q ->
               err_of (mp_body cf pv' Lz None (rd_at p k)) = IncompleteInput).
  { intros H0. symmetry in H0.
    apply prefix_cons in H0 as [->|(p' & -> & H')]; [apply body_empty|].
    rewrite body_f32.
    pose proof (short_of_app _ _ _ H' Hq) as Hs. rewrite be_bytes_length in Hs.
    destruct (read_n_short 4 p' (k + 1)%N Hs) as [r E]. rewrite E. reflexivity. }
  destruct (f32_fits_i64 f); [|apply FC; exact H]. cbv zeta in H.
  destruct (f_eq f (f_of_Z F32 (f_trunc f))); [|apply FC; exact H].
  apply (mp_int_prefix cf pv' Lz _ p q k H Hq).
Qed.

Lemma mp_f64_prefix : forall cf pv' Lz f p q k, mp_f64 f = p ++ q -> q <> [] ->
  err_of (mp_body cf pv' Lz None (rd_at p k)) = IncompleteInput.
Proof.
  intros cf pv' Lz f p q k H Hq. unfold mp_f64 in H. cbv zeta in H.
  destruct (f_eq (fconv F64 (fconv F32 f)) f); [apply (mp_f32_prefix cf pv' Lz _ p q k H Hq)|].
  symmetry in H. apply prefix_cons in H as [->|(p' & -> & H')]; [apply body_empty|].
  rewrite body_f64.
  pose proof (short_of_app _ _ _ H' Hq) as Hs. rewrite be_bytes_length in Hs.
  destruct (read_n_short 8 p' (k + 1)%N Hs) as [r E]. rewrite E. reflexivity.
Qed.

(* a header cut short, or a complete header followed by a payload cut short *)
Lemma hdr_then_prefix : forall w n K (p q s : bytes) k, 0 <= n < 2 ^ (8 * Z.of_nat w) ->
  p ++ q = be_bytes w n ++ s ->
  (forall p'' k', p'' ++ q = s -> err_of (K n (rd_at p'' k')) = IncompleteInput) ->
  err_of (hdr_then w (rd_at p k) K) = IncompleteInput.
Proof.
  intros w n K p q s k Hn H HK. apply split_app in H as [(t & Et & Ht)|(p'' & -> & H')].
  - symmetry in Et. pose proof (short_of_app _ _ _ Et Ht) as Hs.
    rewrite be_bytes_length in Hs. unfold hdr_then.
    destruct (read_n_short w p k Hs) as [r E]. rewrite E. reflexivity.
  - rewrite hdr_then_be by exact Hn. apply HK. exact H'.
Qed.

Lemma str_payload_short : forall n p k, n <= max_string_length -> Z.of_nat (length p) < n ->
  err_of (str_payload n (rd_at p k)) = IncompleteInput.
Proof.
  intros n p k Hm Hs. unfold str_payload.
  destruct (Z.ltb_spec max_string_length n); [lia|].
  destruct (read_z_short n p k Hs) as [r E]. rewrite E. reflexivity.
Qed.

Lemma mp_str_prefix : forall cf pv' Lz s p q k, Z.of_nat (length s) <= max_string_length ->
  mp_str s = p ++ q -> q <> [] ->
  err_of (mp_body cf pv' Lz None (rd_at p k)) = IncompleteInput.
Proof.
  intros cf pv' Lz s p q k Hm H Hq. unfold mp_str, mp_str_header in H.
  set (n := Z.of_nat (length s)) in *.
  assert (HK : forall p'' k', p'' ++ q = s -> err_of (str_payload n (rd_at p'' k')) = IncompleteInput).
  { intros p'' k' H'. apply str_payload_short; [exact Hm|].
    pose proof (short_of_app _ _ _ H' Hq). unfold n. lia. }
  unfold max_string_length in Hm.
  destruct (Z.ltb_spec n 0x20) as [H1|H1].
  { cbn [app] in H. symmetry in H.
    apply prefix_cons in H as [->|(p' & -> & H')]; [apply body_empty|].
    rewrite body_fixstr by lia. apply HK. exact H'. }
  destruct (Z.ltb_spec n 0x100) as [H2|H2].
  { cbn [app] in H. symmetry in H.
    apply prefix_cons in H as [->|(p' & -> & H')]; [apply body_empty|].
    rewrite body_str8. apply (hdr_then_prefix 1 n str_payload p' q s); [|exact H'|exact HK].
    change (2 ^ (8 * Z.of_nat 1)) with 256. lia. }
  destruct (Z.ltb_spec n 0x10000) as [H3|H3]; [|lia].
  cbn [app] in H. symmetry in H.
  apply prefix_cons in H as [->|(p' & -> & H')]; [apply body_empty|].
  rewrite body_str16. apply (hdr_then_prefix 2 n str_payload p' q s); [|exact H'|exact HK].
  change (2 ^ (8 * Z.of_nat 2)) with 65536. lia.
Qed.

Lemma key_hdr_then_prefix : forall w n (p q s : bytes) k, 0 <= n < 2 ^ (8 * Z.of_nat w) ->
  n <= max_string_length -> p ++ q = be_bytes w n ++ s ->
  (forall p'' k', p'' ++ q = s -> err_of (key_payload n (rd_at p'' k')) = IncompleteInput) ->
  err_of (key_hdr_then w (rd_at p k)) = IncompleteInput.
Proof.
  intros w n p q s k Hn Hm H HK. apply split_app in H as [(t & Et & Ht)|(p'' & -> & H')].
  - symmetry in Et. pose proof (short_of_app _ _ _ Et Ht) as Hs.
    rewrite be_bytes_length in Hs. unfold key_hdr_then.
    destruct (read_n_short w p k Hs) as [r E]. rewrite E. reflexivity.
  - rewrite key_hdr_then_be by assumption. apply HK. exact H'.
Qed.

Lemma key_prefix : forall s p q k, Z.of_nat (length s) <= max_string_length ->
  mp_str s = p ++ q -> q <> [] -> err_of (mp_read_key (rd_at p k)) = IncompleteInput.
Proof.
  intros s p q k Hm H Hq. unfold mp_str, mp_str_header in H.
  set (n := Z.of_nat (length s)) in *.
  assert (HK : forall p'' k', p'' ++ q = s -> err_of (key_payload n (rd_at p'' k')) = IncompleteInput).
  { intros p'' k' H'. unfold key_payload.
    pose proof (short_of_app _ _ _ H' Hq) as Hs.
    destruct (read_z_short n p'' k' ltac:(unfold n; lia)) as [r E]. rewrite E. reflexivity. }
  pose proof Hm as Hm'. unfold max_string_length in Hm.
  destruct (Z.ltb_spec n 0x20) as [H1|H1].
  { cbn [app] in H. symmetry in H.
    apply prefix_cons in H as [->|(p' & -> & H')]; [apply key_empty|].
    rewrite key_fixstr by lia. apply HK. exact H'. }
  destruct (Z.ltb_spec n 0x100) as [H2|H2].
  { cbn [app] in H. symmetry in H.
    apply prefix_cons in H as [->|(p' & -> & H')]; [apply key_empty|].
    rewrite key_str8. apply (key_hdr_then_prefix 1 n p' q s); [|exact Hm'|exact H'|exact HK].
    change (2 ^ (8 * Z.of_nat 1)) with 256. lia. }
  destruct (Z.ltb_spec n 0x10000) as [H3|H3]; [|lia].
  cbn [app] in H. symmetry in H.
  apply prefix_cons in H as [->|(p' & -> & H')]; [apply key_empty|].
  rewrite key_str16. apply (key_hdr_then_prefix 2 n p' q s); [|exact Hm'|exact H'|exact HK].
  change (2 ^ (8 * Z.of_nat 2)) with 65536. lia.
Qed.

Lemma err_arr_payload : forall pv' n r,
  err_of (arr_payload pv' false n r) = err_of (mp_array_loop pv' (clip_count n r) None true [] r).
Proof.
  intros pv' n r. unfold arr_payload.
  destruct (mp_array_loop pv' (clip_count n r) None true [] r) as [[e l] r']. reflexivity.
Qed.

Lemma err_map_payload : forall pv' n r,
  err_of (map_payload pv' false n r) = err_of (mp_object_loop pv' (clip_count n r) None [] r).
Proof.
  intros pv' n r. unfold map_payload.
  destruct (mp_object_loop pv' (clip_count n r) None [] r) as [[e l] r']. reflexivity.
Qed.

Lemma arr_header_prefix : forall cf pv' Lz n (p q s : bytes) k, 0 <= n < 2 ^ 32 ->
  p ++ q = mp_arr_header n ++ s -> q <> [] ->
  (forall p'' k', p'' ++ q = s -> err_of (arr_payload pv' Lz n (rd_at p'' k')) = IncompleteInput) ->
  err_of (mp_body cf pv' Lz None (rd_at p k)) = IncompleteInput.
Proof.
  intros cf pv' Lz n p q s k Hn H Hq HK. unfold mp_arr_header in H.
  destruct (Z.ltb_spec n 0x10) as [H1|H1].
  { cbn [app] in H.
    apply prefix_cons in H as [->|(p' & -> & H')]; [apply body_empty|].
    rewrite body_fixarr by lia. apply HK. exact H'. }
  destruct (Z.ltb_spec n 0x10000) as [H2|H2].
  { cbn [app] in H.
    apply prefix_cons in H as [->|(p' & -> & H')]; [apply body_empty|].
    rewrite body_arr16. apply (hdr_then_prefix 2 n _ p' q s); [|exact H'|exact HK].
    change (2 ^ (8 * Z.of_nat 2)) with 65536. lia. }
  cbn [app] in H.
  apply prefix_cons in H as [->|(p' & -> & H')]; [apply body_empty|].
  rewrite body_arr32. apply (hdr_then_prefix 4 n _ p' q s); [|exact H'|exact HK].
  change (2 ^ (8 * Z.of_nat 4)) with (2 ^ 32). lia.
Qed.

Lemma map_header_prefix : forall cf pv' Lz n (p q s : bytes) k, 0 <= n < 2 ^ 32 ->
  p ++ q = mp_map_header n ++ s -> q <> [] ->
  (forall p'' k', p'' ++ q = s -> err_of (map_payload pv' Lz n (rd_at p'' k')) = IncompleteInput) ->
  err_of (mp_body cf pv' Lz None (rd_at p k)) = IncompleteInput.
Proof.
  intros cf pv' Lz n p q s k Hn H Hq HK. unfold mp_map_header in H.
  destruct (Z.ltb_spec n 0x10) as [H1|H1].
  { cbn [app] in H.
    apply prefix_cons in H as [->|(p' & -> & H')]; [apply body_empty|].
    rewrite body_fixmap by lia. apply HK. exact H'. }
  destruct (Z.ltb_spec n 0x10000) as [H2|H2].
  { cbn [app] in H.
    apply prefix_cons in H as [->|(p' & -> & H')]; [apply body_empty|].
    rewrite body_map16. apply (hdr_then_prefix 2 n _ p' q s); [|exact H'|exact HK].
    change (2 ^ (8 * Z.of_nat 2)) with 65536. lia. }
  cbn [app] in H.
  apply prefix_cons in H as [->|(p' & -> & H')]; [apply body_empty|].
  rewrite body_map32. apply (hdr_then_prefix 4 n _ p' q s); [|exact H'|exact HK].
  change (2 ^ (8 * Z.of_nat 4)) with (2 ^ 32). lia.
Qed.

(* where a cut falls inside a concatenation *)
Lemma prefix_concat_map : forall (A : Type) (g : A -> bytes) (l : list A) (p q : bytes),
  p ++ q = concat (map g l) -> q <> [] ->
  exists l1 x l2 p'' q'',
    l = l1 ++ x :: l2 /\ p = concat (map g l1) ++ p'' /\ g x = p'' ++ q'' /\ q'' <> [].
Proof.
  intros A g l. induction l as [|x l IH]; intros p q H Hq.
  - cbn [map concat] in H. apply app_eq_nil in H as [_ ->]. congruence.
  - cbn [map concat] in H. apply app_eq_app in H as [t [[-> H2]|[H1 ->]]].
    + (* the cut is after g x *)
      symmetry in H2. destruct (IH t q H2 Hq) as (l1 & y & l2 & p'' & q'' & -> & -> & Hy & Hq'').
      exists (x :: l1), y, l2, p'', q''. cbn [map concat app]. rewrite app_assoc. auto.
    + (* the cut is inside g x *)
      destruct t as [|b t].
      * (* exactly at the end of g x: it falls at the start of the rest *)
        rewrite app_nil_r in H1. cbn [app] in Hq.
        destruct (IH [] (concat (map g l)) eq_refl Hq) as (l1 & y & l2 & p'' & q'' & -> & E & Hy & Hq'').
        exists (x :: l1), y, l2, p'', q''. cbn [map concat app].
        rewrite <- app_assoc, <- E, app_nil_r. rewrite H1. auto.
      * exists [], x, l, p, (b :: t). cbn [map concat app]. repeat split; auto. congruence.
Qed.

Lemma array_loop_prefix : forall (pv : pvT) (norm : jv -> jv) (l1 : list jv) (p'' : bytes),
  (forall x, In x l1 -> forall rest k,
     pv None true (rd_at (mp_ser x ++ rest) k) =
       (Ok, norm x, rd_at rest (k + N.of_nat (length (mp_ser x))))) ->
  (forall k, err_of (pv None true (rd_at p'' k)) = IncompleteInput) ->
  forall cnt acc k, (length l1 < cnt)%nat ->
    err_of (mp_array_loop pv cnt None true acc (rd_at (concat (map mp_ser l1) ++ p'') k)) =
      IncompleteInput.
Proof.
  intros pv norm l1 p''. induction l1 as [|x l1 IH]; intros Hrt Hcut cnt acc k Hc.
  - destruct cnt as [|cnt]; [cbn in Hc; lia|]. cbn [map concat app mp_array_loop f_allow].
    specialize (Hcut k). destruct (pv None true (rd_at p'' k)) as [[e v] r]. cbn in Hcut. subst e.
    reflexivity.
  - destruct cnt as [|cnt]; [cbn in Hc; lia|]. cbn [map mp_array_loop f_allow].
    rewrite concat_cons_app. rewrite (Hrt x (or_introl eq_refl)).
    apply IH; [intros y Hy; apply Hrt; right; exact Hy|exact Hcut|cbn [length] in Hc; lia].
Qed.

Lemma object_loop_prefix : forall (pv : pvT) (norm : jv -> jv) (l1 : list (bytes * jv)) (p'' : bytes),
  (forall kv, In kv l1 ->
     Z.of_nat (length (fst kv)) <= max_string_length /\
     forall rest k,
       pv None true (rd_at (mp_ser (snd kv) ++ rest) k) =
         (Ok, norm (snd kv), rd_at rest (k + N.of_nat (length (mp_ser (snd kv)))))) ->
  ((forall k, err_of (mp_read_key (rd_at p'' k)) = IncompleteInput) \/
   (exists key p3, p'' = mp_str key ++ p3 /\ Z.of_nat (length key) <= max_string_length /\
                   forall k, err_of (pv None true (rd_at p3 k)) = IncompleteInput)) ->
  forall cnt acc k, (length l1 < cnt)%nat ->
    err_of (mp_object_loop pv cnt None acc (rd_at (concat (map ser_member l1) ++ p'') k)) =
      IncompleteInput.
Proof.
  intros pv norm l1 p''. induction l1 as [|x l1 IH]; intros Hrt Hcut cnt acc k Hc.
  - destruct cnt as [|cnt]; [cbn in Hc; lia|]. cbn [map concat app mp_object_loop].
    destruct Hcut as [Hkey|(key & p3 & -> & Hk & Hv)].
    + specialize (Hkey k). destruct (mp_read_key (rd_at p'' k)) as [[e v] r]. cbn in Hkey. subst e.
      reflexivity.
    + rewrite read_key_rt by exact Hk. cbn [f_member f_allow].
      specialize (Hv (k + N.of_nat (length (mp_str key)))%N).
      destruct (pv None true (rd_at p3 (k + N.of_nat (length (mp_str key)))%N)) as [[e v] r].
      cbn in Hv. subst e. reflexivity.
  - destruct cnt as [|cnt]; [cbn in Hc; lia|]. cbn [map mp_object_loop].
    rewrite concat_cons_app. destruct (Hrt x (or_introl eq_refl)) as [Hk Hv].
    unfold ser_member at 1. rewrite <- app_assoc. rewrite read_key_rt by exact Hk.
    cbn [f_member f_allow]. rewrite Hv.
    apply IH; [intros y Hy; apply Hrt; right; exact Hy|exact Hcut|cbn [length] in Hc; lia].
Qed.

Lemma clip_count_gt : forall n m l k, (m < n)%nat -> (m <= length l)%nat ->
  (m < clip_count (Z.of_nat n) (rd_at l k))%nat.
Proof. intros n m l k H1 H2. unfold clip_count. cbn [rd_at m_rest]. lia. Qed.

Theorem mp_prefix_gen : forall cf L v, mp_ok v ->
  (nesting v <= L)%nat -> forall p q k, mp_ser v = p ++ q -> q <> [] ->
  err_of (mp_parse cf L None true (rd_at p k)) = IncompleteInput.
Proof.
  intros cf. induction L as [|L IH]; intros v Hok Hn p q k H Hq; rewrite mp_parse_eq.
  - destruct v; cbn [mp_ser] in H; cbn [mp_ok] in Hok.
    + symmetry in H. apply prefix_cons in H as [->|(p' & -> & H')]; [apply body_empty|].
      apply app_eq_nil in H' as [_ ->]. congruence.
    + symmetry in H. apply prefix_cons in H as [->|(p' & -> & H')]; [apply body_empty|].
      apply app_eq_nil in H' as [_ ->]. congruence.
    + apply (mp_int_prefix _ _ _ _ _ _ _ H Hq).
    + apply (mp_f32_prefix _ _ _ _ _ _ _ H Hq).
    + apply (mp_f64_prefix _ _ _ _ _ _ _ H Hq).
    + apply (mp_str_prefix _ _ _ _ _ _ _ (proj2 Hok) H Hq).
    + destruct Hok.
    + cbn [nesting] in Hn. lia.
    + cbn [nesting] in Hn. lia.
  - destruct v; cbn [mp_ser] in H; cbn [mp_ok] in Hok.
    + symmetry in H. apply prefix_cons in H as [->|(p' & -> & H')]; [apply body_empty|].
      apply app_eq_nil in H' as [_ ->]. congruence.
    + symmetry in H. apply prefix_cons in H as [->|(p' & -> & H')]; [apply body_empty|].
      apply app_eq_nil in H' as [_ ->]. congruence.
    + apply (mp_int_prefix _ _ _ _ _ _ _ H Hq).
    + apply (mp_f32_prefix _ _ _ _ _ _ _ H Hq).
    + apply (mp_f64_prefix _ _ _ _ _ _ _ H Hq).
    + apply (mp_str_prefix _ _ _ _ _ _ _ (proj2 Hok) H Hq).
    + destruct Hok.
    + destruct Hok as [Hlen Hall]. cbn [nesting] in Hn. cbn [pv_of is_O]. symmetry in H.
      apply (arr_header_prefix cf _ _ (Z.of_nat (length l)) p q (concat (map mp_ser l)) k); [lia|exact H|exact Hq|].
      intros p'' k' H'.
      destruct (prefix_concat_map jv mp_ser l p'' q H' Hq)
        as (l1 & x & l2 & p3 & q3 & El & Ep & Ex & Hq3).
      rewrite err_arr_payload, Ep.
      assert (Hin : forall y, In y l -> mp_ok y /\ (nesting y <= L)%nat).
      { intros y Hy. split; [exact (fold_and_In jv mp_ok l Hall y Hy)|].
        pose proof (nesting_In jv nesting l y Hy). lia. }
      apply (array_loop_prefix (mp_parse cf L) (mp_norm_gen (use_double cf)) l1 p3).
      * intros y Hy rest' k2. destruct (Hin y) as [Hy1 Hy2]; [rewrite El; apply in_or_app; left; exact Hy|].
        apply mp_roundtrip_gen; assumption.
      * intros k2. destruct (Hin x) as [Hx1 Hx2]; [rewrite El; apply in_or_app; right; left; reflexivity|].
        apply (IH x Hx1 Hx2 p3 q3 k2 Ex Hq3).
      * apply clip_count_gt.
        -- rewrite El, app_length. cbn [length]. lia.
        -- rewrite app_length.
           assert (length l1 <= length (concat (map mp_ser l1)))%nat; [|lia].
           apply concat_length_ge. intros y Hy. apply mp_ser_nonempty.
           apply Hin. rewrite El. apply in_or_app. left. exact Hy.
    + destruct Hok as [Hlen Hall]. cbn [nesting] in Hn. cbn [pv_of is_O]. symmetry in H.
      change (map (fun kv : bytes * jv => mp_str (fst kv) ++ mp_ser (snd kv)) l)
        with (map ser_member l) in H.
      apply (map_header_prefix cf _ _ (Z.of_nat (length l)) p q (concat (map ser_member l)) k); [lia|exact H|exact Hq|].
      intros p'' k' H'.
      destruct (prefix_concat_map _ ser_member l p'' q H' Hq)
        as (l1 & x & l2 & p3 & q3 & El & Ep & Ex & Hq3).
      rewrite err_map_payload, Ep.
      pose proof (fold_and_In _ (fun kv => str_ok (fst kv) /\ mp_ok (snd kv)) l Hall) as Hin0.
      assert (Hin : forall y, In y l ->
                Z.of_nat (length (fst y)) <= max_string_length /\ mp_ok (snd y) /\
                (nesting (snd y) <= L)%nat).
      { intros y Hy. destruct (Hin0 y Hy) as [[_ Hk] Hv]. split; [exact Hk|]. split; [exact Hv|].
        pose proof (nesting_In _ (fun kv => nesting (snd kv)) l y Hy). cbv beta in *. lia. }
      apply (object_loop_prefix (mp_parse cf L) (mp_norm_gen (use_double cf)) l1 p3).
      * intros y Hy. destruct (Hin y) as (Hy0 & Hy1 & Hy2); [rewrite El; apply in_or_app; left; exact Hy|].
        split; [exact Hy0|]. intros rest' k2. apply mp_roundtrip_gen; assumption.
      * destruct (Hin x) as (Hx0 & Hx1 & Hx2); [rewrite El; apply in_or_app; right; left; reflexivity|].
        unfold ser_member in Ex. symmetry in Ex.
        apply split_app in Ex as [(t & Et & Ht)|(p4 & -> & E4)].
        -- left. intros k2. apply (key_prefix (fst x) p3 t k2 Hx0 Et Ht).
        -- right. exists (fst x), p4. split; [reflexivity|]. split; [exact Hx0|].
           intros k2. symmetry in E4. apply (IH (snd x) Hx1 Hx2 p4 q3 k2 E4 Hq3).
      * apply clip_count_gt.
        -- rewrite El, app_length. cbn [length]. lia.
        -- rewrite app_length.
           assert (length l1 <= length (concat (map ser_member l1)))%nat; [|lia].
           apply concat_length_ge. intros y Hy. unfold ser_member. rewrite app_length.
           pose proof (mp_str_nonempty (fst y)). lia.
Qed.

Theorem mp_prefix_incomplete : forall cf v L, mp_ok v ->
  (nesting v <= L)%nat -> forall p q, mp_ser v = p ++ q -> q <> [] ->
  mp_err (mp_run cf None L p) = match p with [] => EmptyInput | _ => IncompleteInput end.
Proof.
  intros cf v L Hok Hn p q H Hq. unfold mp_run.
  pose proof (mp_prefix_gen cf L v Hok Hn p q 0%N H Hq) as He. unfold rd_at in He.
  destruct (mp_parse cf L None true {| m_rest := p; m_reads := 0 |}) as [[e v'] r].
  cbn in He. subst e. destruct p; reflexivity.
Qed.

(* whatever the float configuration: one object is consumed, exactly, and what follows is left *)
Corollary mp_run_consumes_one : forall cf v L rest, mp_ok v -> (nesting v <= L)%nat ->
  mp_run cf None L (mp_ser v ++ rest) =
    {| mp_err := Ok; mp_doc := mp_norm_gen (use_double cf) v;
       mp_rd := {| m_rest := rest; m_reads := N.of_nat (length (mp_ser v)) |} |}.
Proof.
  intros cf v L rest Hok Hn. unfold mp_run.
  pose proof (mp_roundtrip_gen cf L v Hok Hn rest 0%N) as H. unfold rd_at in H.
  rewrite N.add_0_l in H. rewrite H.
  pose proof (mp_ser_nonempty v Hok) as Hne.
  destruct (mp_ser v) as [|b t]; [cbn in Hne; lia|]. reflexivity.
Qed.

(* the nesting hypothesis of mp_prefix_incomplete is needed: [[1]] cut after two bytes, budget 1 *)
Example prefix_needs_depth :
  mp_ser (JArr [JArr [JInt 1]]) = [0x91; 0x91; 1]%N /\
  mp_err (mp_run default_cfg None 1 [0x91; 0x91]%N) = TooDeep.
Proof. split; reflexivity. Qed.
