(* MsgPackRT.v — MessagePack serializer/deserializer model: big-endian helpers, integer and string
   round trips with the narrowest header, whole-document round trip. *)
From Coq Require Import ZArith NArith List Bool Lia.
From Coq Require Import Floats.SpecFloat.
From AJ Require Import Model.Base Model.FloatModel Model.Value Model.JsonParse Model.MsgPack.
Local Open Scope Z_scope.

(* ------------------------------------------------------------------------------------- *)
(* Part 1 — big-endian helpers *)

Lemma be_bytes_length : forall w z, length (be_bytes w z) = w.
Proof. induction w as [|w IH]; intros z; cbn [be_bytes length]; auto. Qed.

Lemma be_bytes_range : forall w z, Forall (fun b => (b < 256)%N) (be_bytes w z).
Proof.
  induction w as [|w IH]; intros z; cbn [be_bytes]; constructor; auto.
  pose proof (Z.mod_pos_bound (z / 2 ^ (8 * Z.of_nat w)) 256). lia.
Qed.

Lemma be_value_be_bytes_gen : forall w z acc,
  be_value (be_bytes w z) acc = acc * 2 ^ (8 * Z.of_nat w) + z mod 2 ^ (8 * Z.of_nat w).
Proof.
  induction w as [|w IH]; intros z acc.
  - cbn [be_bytes be_value]. change (2 ^ (8 * Z.of_nat 0)) with 1. rewrite Z.mod_1_r. lia.
  - cbn [be_bytes be_value]. rewrite IH.
    rewrite Z2N.id by (apply Z.mod_pos_bound; lia).
    replace (8 * Z.of_nat (S w)) with (8 * Z.of_nat w + 8) by lia.
    rewrite Z.pow_add_r by lia. change (2 ^ 8) with 256.
    set (P := 2 ^ (8 * Z.of_nat w)).
    assert (HP : 0 < P) by (apply Z.pow_pos_nonneg; lia).
    rewrite (Z.rem_mul_r z P 256) by lia. ring.
Qed.

Lemma be_value_be_bytes_mod : forall w z,
  be_value (be_bytes w z) 0 = z mod 2 ^ (8 * Z.of_nat w).
Proof. intros. rewrite be_value_be_bytes_gen. lia. Qed.

Lemma be_value_be_bytes : forall w z, 0 <= z < 2 ^ (8 * Z.of_nat w) -> be_value (be_bytes w z) 0 = z.
Proof. intros w z H. rewrite be_value_be_bytes_mod. apply Z.mod_small. exact H. Qed.

Lemma signed_of_be_bytes : forall w z, (1 <= w)%nat ->
  - 2 ^ (8 * Z.of_nat w - 1) <= z < 2 ^ (8 * Z.of_nat w - 1) ->
  signed_of w (be_value (be_bytes w z) 0) = z.
Proof.
  intros w z Hw H. rewrite be_value_be_bytes_mod. unfold signed_of.
  set (k := 8 * Z.of_nat w) in *.
  assert (Hk : 2 ^ k = 2 * 2 ^ (k - 1)).
  { replace k with (k - 1 + 1) at 1 by lia. rewrite Z.pow_add_r by lia. lia. }
  assert (Hp : 0 < 2 ^ (k - 1)) by (apply Z.pow_pos_nonneg; lia).
  destruct (Z.ltb_spec z 0) as [Hn|Hn].
  - assert (E : z mod 2 ^ k = z + 2 ^ k).
    { symmetry. apply (Z.mod_unique z (2 ^ k) (-1)); lia. }
    rewrite E. destruct (Z.ltb_spec (z + 2 ^ k) (2 ^ (k - 1))); lia.
  - rewrite Z.mod_small by lia. destruct (Z.ltb_spec z (2 ^ (k - 1))); lia.
Qed.

(* ------------------------------------------------------------------------------------- *)
(* reader steps *)

Definition mk (l : bytes) (n : N) : mrd := {| m_rest := l; m_reads := n |}.

Lemma firstn_length_app : forall (A : Type) (l r : list A), firstn (length l) (l ++ r) = l.
Proof. induction l as [|x l IH]; intros r; cbn [length firstn app]; [reflexivity|]. rewrite IH. reflexivity. Qed.

Lemma skipn_length_app : forall (A : Type) (l r : list A), skipn (length l) (l ++ r) = r.
Proof. induction l as [|x l IH]; intros r; cbn [length skipn app]; auto. Qed.

Lemma read_n_app : forall l rest n,
  read_n (length l) (mk (l ++ rest) n) = (Some l, mk rest (n + N.of_nat (length l))).
Proof.
  intros l rest n. unfold read_n, mk. cbn [m_rest m_reads].
  rewrite firstn_length_app, skipn_length_app, Nat.eqb_refl. reflexivity.
Qed.

Lemma read_n_app' : forall w l rest n, length l = w ->
  read_n w (mk (l ++ rest) n) = (Some l, mk rest (n + N.of_nat w)).
Proof. intros w l rest n <-. apply read_n_app. Qed.

Lemma read_z_app : forall z l rest n, Z.of_nat (length l) = z ->
  read_z z (mk (l ++ rest) n) = (Some l, mk rest (n + N.of_nat (length l))).
Proof.
  intros z l rest n <-. unfold read_z. cbn [mk m_rest].
  rewrite app_length.
  destruct (Z.leb_spec (Z.of_nat (length l)) (Z.of_nat (length l + length rest))) as [_|H]; [|lia].
  rewrite Nat2Z.id. apply read_n_app.
Qed.

Lemma read_1_cons : forall c rest n, read_n 1 (mk (c :: rest) n) = (Some [c], mk rest (n + 1)).
Proof. intros. reflexivity. Qed.

(* ------------------------------------------------------------------------------------- *)
(* mp_parse, one level, with the header decoding named *)

Definition size_bytes_of (c : Z) : nat :=
  if (c =? 0xC4) || (c =? 0xC7) || (c =? 0xD9) then 1%nat
  else if (c =? 0xC5) || (c =? 0xC8) || (c =? 0xDA) || (c =? 0xDC) || (c =? 0xDE) then 2%nat
  else if (c =? 0xC6) || (c =? 0xC9) || (c =? 0xDB) || (c =? 0xDD) || (c =? 0xDF) then 4%nat
  else 0%nat.

Definition is_fixext (c : Z) : bool := (0xD4 <=? c) && (c <=? 0xD8).
Definition is_ext_code (c : Z) : bool := ((0xC7 <=? c) && (c <=? 0xC9)) || is_fixext c.

Definition size0_of (c : Z) : Z :=
  if is_fixext c then 2 ^ (c - 0xD4)
  else if (Z.land c 0xF0 =? 0x90) || (Z.land c 0xF0 =? 0x80) then Z.land c 0x0F
  else if Z.land c 0xE0 =? 0xA0 then Z.land c 0x1F
  else 0.

Definition is_arr_code (c : Z) : bool := (c =? 0xDC) || (c =? 0xDD) || (Z.land c 0xF0 =? 0x90).
Definition is_map_code (c : Z) : bool := (c =? 0xDE) || (c =? 0xDF) || (Z.land c 0xF0 =? 0x80).
Definition is_str_code (c : Z) : bool :=
  (c =? 0xD9) || (c =? 0xDA) || (c =? 0xDB) || (Z.land c 0xE0 =? 0xA0).

Definition pvT := filter -> bool -> mrd -> code * jv * mrd.

(* everything after the scalar codes: strings, containers, bin/ext *)
Definition mp_tail (pv' : pvT) (Lz : bool) (f : filter) (cb : N) (r : mrd) : code * jv * mrd :=
  let c := Z.of_N cb in
  let allow := f_allow_value f in
  let size_bytes := size_bytes_of c in
  let hdr := if Nat.eqb size_bytes 0 then (Some [], r) else read_n size_bytes r in
  match hdr with
  | (None, r) => (IncompleteInput, JNull, r)
  | (Some hb, r) =>
      let size := if Nat.eqb size_bytes 0 then size0_of c else be_value hb 0 in
      if is_arr_code c then
        if Lz then (TooDeep, JNull, r)
        else
          let keep := f_allow_array f in
          let '(e, l, r) := mp_array_loop pv' (clip_count size r) (f_element f) keep [] r in
          (e, (if keep then JArr l else JNull), r)
      else if is_map_code c then
        if Lz then (TooDeep, JNull, r)
        else
          let keep := f_allow_object f in
          let '(e, l, r) := mp_object_loop pv' (clip_count size r) f [] r in
          (e, (if keep then JObj l else JNull), r)
      else if is_str_code c then
        if allow then
          if max_string_length <? size then (NoMemory, JNull, r)
          else
            match read_z size r with
            | (Some s, r) => (Ok, JStr s, r)
            | (None, r) => (IncompleteInput, JNull, r)
            end
        else let '(e, r) := mp_skip size r in (e, JNull, r)
      else
        let size := if is_ext_code c then size + 1 else size in
        if allow then
          let total := 1 + Z.of_nat size_bytes + size in
          if max_string_length <? total then (NoMemory, JNull, r)
          else
            match read_z size r with
            | (Some p, r) => (Ok, JRaw (cb :: hb ++ p), r)
            | (None, r) => (IncompleteInput, JNull, r)
            end
        else let '(e, r) := mp_skip size r in (e, JNull, r)
  end.

Definition mp_body (cf : cfg) (pv' : pvT) (Lz : bool) (f : filter) (r : mrd) : code * jv * mrd :=
  match read_n 1 r with
  | (Some [cb], r) =>
      let c := Z.of_N cb in
      let allow := f_allow_value f in
      if (0xCC <=? c) && (c <=? 0xD3) then
        let width := Z.to_nat (2 ^ ((c - 0xCC) mod 4)) in
        if allow then
          match read_n width r with
          | (Some l, r) =>
              let u := be_value l 0 in
              (Ok, JInt (if 0xD0 <=? c then signed_of width u else u), r)
          | (None, r) => (IncompleteInput, JNull, r)
          end
        else let '(e, r) := mp_skip (Z.of_nat width) r in (e, JNull, r)
      else if c =? 0xC0 then (Ok, JNull, r)
      else if c =? 0xC1 then (InvalidInput, JNull, r)
      else if (c =? 0xC2) || (c =? 0xC3) then (Ok, (if allow then JBool (c =? 0xC3) else JNull), r)
      else if c =? 0xCA then
        if allow then
          match read_n 4 r with
          | (Some l, r) => (Ok, JFloat (sf_of_bits F32 (be_value l 0)), r)
          | (None, r) => (IncompleteInput, JNull, r)
          end
        else let '(e, r) := mp_skip 4 r in (e, JNull, r)
      else if c =? 0xCB then
        if allow then
          match read_n 8 r with
          | (Some l, r) =>
              (Ok, jv_of_double (use_double cf) (sf_of_bits F64 (be_value l 0)), r)
          | (None, r) => (IncompleteInput, JNull, r)
          end
        else let '(e, r) := mp_skip 8 r in (e, JNull, r)
      else if (c <=? 0x7F) || (0xE0 <=? c) then
        (Ok, (if allow then JInt (signed_of 1 c) else JNull), r)
      else mp_tail pv' Lz f cb r
  | (_, r) => (IncompleteInput, JNull, r)
  end.

Definition pv_of (cf : cfg) (L : nat) : pvT :=
  match L with
  | O => (fun _ _ r => (TooDeep, JNull, r))
  | S L' => mp_parse cf L'
  end.
Definition is_O (L : nat) : bool := match L with O => true | S _ => false end.

Lemma mp_parse_eq : forall cf L f dst r,
  mp_parse cf L f dst r = mp_body cf (pv_of cf L) (is_O L) f r.
Proof. intros cf L f dst r. destruct L; reflexivity. Qed.

(* ------------------------------------------------------------------------------------- *)
(* bytes *)

Lemma bz_id : forall x, 0 <= x < 256 -> Z.of_N (bz x) = x.
Proof. intros x H. unfold bz. rewrite Z2N.id by (apply Z.mod_pos_bound; lia). apply Z.mod_small; exact H. Qed.

Lemma bz_mod : forall x, Z.of_N (bz x) = x mod 256.
Proof. intros x. unfold bz. rewrite Z2N.id by (apply Z.mod_pos_bound; lia). reflexivity. Qed.

Lemma be_bytes_1 : forall z, be_bytes 1 z = [bz z].
Proof. intros z. cbn [be_bytes]. change (2 ^ (8 * Z.of_nat 0)) with 1. rewrite Z.div_1_r. reflexivity. Qed.

(* ------------------------------------------------------------------------------------- *)
(* Part 2 — integers *)

Lemma body_intcode : forall cf pv' Lz cb rest k, 0xCC <= Z.of_N cb <= 0xD3 ->
  mp_body cf pv' Lz None (mk (cb :: rest) k) =
    let width := Z.to_nat (2 ^ ((Z.of_N cb - 0xCC) mod 4)) in
    match read_n width (mk rest (k + 1)) with
    | (Some l, r) =>
        (Ok, JInt (if 0xD0 <=? Z.of_N cb then signed_of width (be_value l 0) else be_value l 0), r)
    | (None, r) => (IncompleteInput, JNull, r)
    end.
Proof.
  intros cf pv' Lz cb rest k H. unfold mp_body. rewrite read_1_cons. cbv beta iota zeta.
  assert (E : (0xCC <=? Z.of_N cb) && (Z.of_N cb <=? 0xD3) = true).
  { apply andb_true_intro; split; apply Z.leb_le; lia. }
  rewrite E. cbn [f_allow_value]. reflexivity.
Qed.

Lemma body_fixint : forall cf pv' Lz cb rest k, Z.of_N cb <= 0x7F \/ 0xE0 <= Z.of_N cb ->
  mp_body cf pv' Lz None (mk (cb :: rest) k) = (Ok, JInt (signed_of 1 (Z.of_N cb)), mk rest (k + 1)).
Proof.
  intros cf pv' Lz cb rest k H. unfold mp_body. rewrite read_1_cons. cbv beta iota zeta.
  assert (E1 : (0xCC <=? Z.of_N cb) && (Z.of_N cb <=? 0xD3) = false).
  { apply andb_false_iff. destruct H; [left; apply Z.leb_gt|right; apply Z.leb_gt]; lia. }
  assert (E2 : (Z.of_N cb =? 0xC0) = false) by (apply Z.eqb_neq; lia).
  assert (E3 : (Z.of_N cb =? 0xC1) = false) by (apply Z.eqb_neq; lia).
  assert (E4 : (Z.of_N cb =? 0xC2) = false) by (apply Z.eqb_neq; lia).
  assert (E5 : (Z.of_N cb =? 0xC3) = false) by (apply Z.eqb_neq; lia).
  assert (E6 : (Z.of_N cb =? 0xCA) = false) by (apply Z.eqb_neq; lia).
  assert (E7 : (Z.of_N cb =? 0xCB) = false) by (apply Z.eqb_neq; lia).
  assert (E8 : (Z.of_N cb <=? 0x7F) || (0xE0 <=? Z.of_N cb) = true).
  { apply orb_true_iff. destruct H; [left|right]; apply Z.leb_le; lia. }
  rewrite E1, E2, E3, E4, E5, E6, E7, E8. reflexivity.
Qed.

Lemma reads_assoc : forall k w, (k + 1 + N.of_nat w = k + N.of_nat (S w))%N.
Proof. intros. lia. Qed.

Lemma body_uint_rt : forall cf pv' Lz cb w z rest k,
  0xCC <= Z.of_N cb <= 0xCF -> Z.to_nat (2 ^ ((Z.of_N cb - 0xCC) mod 4)) = w ->
  0 <= z < 2 ^ (8 * Z.of_nat w) ->
  mp_body cf pv' Lz None (mk ((cb :: be_bytes w z) ++ rest) k) =
    (Ok, JInt z, mk rest (k + N.of_nat (length (cb :: be_bytes w z)))).
Proof.
  intros cf pv' Lz cb w z rest k Hc Hw Hz. cbn [app length]. rewrite body_intcode by lia.
  cbv zeta. rewrite Hw. rewrite (read_n_app' w) by apply be_bytes_length.
  destruct (Z.leb_spec 0xD0 (Z.of_N cb)) as [H|_]; [lia|].
  rewrite be_value_be_bytes by exact Hz. rewrite be_bytes_length, reads_assoc. reflexivity.
Qed.

Lemma body_sint_rt : forall cf pv' Lz cb w z rest k,
  0xD0 <= Z.of_N cb <= 0xD3 -> Z.to_nat (2 ^ ((Z.of_N cb - 0xCC) mod 4)) = w -> (1 <= w)%nat ->
  - 2 ^ (8 * Z.of_nat w - 1) <= z < 2 ^ (8 * Z.of_nat w - 1) ->
  mp_body cf pv' Lz None (mk ((cb :: be_bytes w z) ++ rest) k) =
    (Ok, JInt z, mk rest (k + N.of_nat (length (cb :: be_bytes w z)))).
Proof.
  intros cf pv' Lz cb w z rest k Hc Hw Hw1 Hz. cbn [app length]. rewrite body_intcode by lia.
  cbv zeta. rewrite Hw. rewrite (read_n_app' w) by apply be_bytes_length.
  destruct (Z.leb_spec 0xD0 (Z.of_N cb)) as [_|H]; [|lia].
  rewrite signed_of_be_bytes by assumption. rewrite be_bytes_length, reads_assoc. reflexivity.
Qed.

Lemma body_fixint_rt : forall cf pv' Lz z rest k, -32 <= z <= 127 ->
  mp_body cf pv' Lz None (mk (be_bytes 1 z ++ rest) k) =
    (Ok, JInt z, mk rest (k + N.of_nat (length (be_bytes 1 z)))).
Proof.
  intros cf pv' Lz z rest k Hz. rewrite be_bytes_1. cbn [app length].
  assert (Hb : Z.of_N (bz z) = z mod 256) by apply bz_mod.
  destruct (Z.ltb_spec z 0) as [Hn|Hn].
  - assert (E : z mod 256 = z + 256) by (symmetry; apply (Z.mod_unique z 256 (-1)); lia).
    rewrite body_fixint by lia. rewrite Hb, E. unfold signed_of.
    change (2 ^ (8 * Z.of_nat 1 - 1)) with 128. change (2 ^ (8 * Z.of_nat 1)) with 256.
    destruct (Z.ltb_spec (z + 256) 128); [lia|]. repeat f_equal. lia.
  - rewrite Z.mod_small in Hb by lia.
    rewrite body_fixint by lia. rewrite Hb. unfold signed_of.
    change (2 ^ (8 * Z.of_nat 1 - 1)) with 128.
    destruct (Z.ltb_spec z 128); [|lia]. reflexivity.
Qed.

Lemma mp_int_body : forall cf pv' Lz z rest k, - 2 ^ 63 <= z < 2 ^ 64 ->
  mp_body cf pv' Lz None (mk (mp_int z ++ rest) k) =
    (Ok, JInt z, mk rest (k + N.of_nat (length (mp_int z)))).
Proof.
  intros cf pv' Lz z rest k Hz. unfold mp_int, mp_uint.
  destruct (Z.ltb_spec 0 z) as [Hp|Hp].
  - destruct (Z.leb_spec z 0x7F) as [H1|H1]; [apply body_fixint_rt; lia|].
    destruct (Z.leb_spec z 0xFF) as [H2|H2].
    { apply body_uint_rt; [vm_compute; split; discriminate|reflexivity|].
      change (2 ^ (8 * Z.of_nat 1)) with 256. lia. }
    destruct (Z.leb_spec z 0xFFFF) as [H3|H3].
    { apply body_uint_rt; [vm_compute; split; discriminate|reflexivity|].
      change (2 ^ (8 * Z.of_nat 2)) with 65536. lia. }
    destruct (Z.leb_spec z 0xFFFFFFFF) as [H4|H4].
    { apply body_uint_rt; [vm_compute; split; discriminate|reflexivity|].
      change (2 ^ (8 * Z.of_nat 4)) with 4294967296. lia. }
    apply body_uint_rt; [vm_compute; split; discriminate|reflexivity|].
    change (2 ^ (8 * Z.of_nat 8)) with (2 ^ 64). lia.
  - destruct (Z.leb_spec (-0x20) z) as [H1|H1]; [apply body_fixint_rt; lia|].
    destruct (Z.leb_spec (-0x80) z) as [H2|H2].
    { apply body_sint_rt; [vm_compute; split; discriminate|reflexivity|lia|].
      change (2 ^ (8 * Z.of_nat 1 - 1)) with 128. lia. }
    destruct (Z.leb_spec (-0x8000) z) as [H3|H3].
    { apply body_sint_rt; [vm_compute; split; discriminate|reflexivity|lia|].
      change (2 ^ (8 * Z.of_nat 2 - 1)) with 32768. lia. }
    destruct (Z.leb_spec (-0x80000000) z) as [H4|H4].
    { apply body_sint_rt; [vm_compute; split; discriminate|reflexivity|lia|].
      change (2 ^ (8 * Z.of_nat 4 - 1)) with 2147483648. lia. }
    apply body_sint_rt; [vm_compute; split; discriminate|reflexivity|lia|].
    change (2 ^ (8 * Z.of_nat 8 - 1)) with (2 ^ 63). lia.
Qed.

Theorem mp_int_roundtrip : forall cf L z rest, - 2 ^ 63 <= z < 2 ^ 64 ->
  mp_parse cf L None true {| m_rest := mp_int z ++ rest; m_reads := 0 |}
    = (Ok, JInt z, {| m_rest := rest; m_reads := N.of_nat (length (mp_int z)) |}).
Proof.
  intros cf L z rest Hz. rewrite mp_parse_eq.
  exact (mp_int_body cf (pv_of cf L) (is_O L) z rest 0%N Hz).
Qed.

Theorem mp_int_minimal : forall z, - 2 ^ 63 <= z < 2 ^ 64 ->
  length (mp_int z) =
    (if (-32 <=? z) && (z <=? 127) then 1%nat
     else if (-128 <=? z) && (z <=? 255) then 2%nat
     else if (-32768 <=? z) && (z <=? 65535) then 3%nat
     else if (-2 ^ 31 <=? z) && (z <=? 2 ^ 32 - 1) then 5%nat else 9%nat).
Proof.
  intros z Hz. unfold mp_int, mp_uint.
  change (- 2 ^ 31) with (-2147483648). change (2 ^ 32 - 1) with 4294967295.
  destruct (Z.ltb_spec 0 z) as [Hp|Hp].
  - destruct (Z.leb_spec z 0x7F); destruct (Z.leb_spec z 0xFF); destruct (Z.leb_spec z 0xFFFF);
      destruct (Z.leb_spec z 0xFFFFFFFF); try lia;
      destruct (Z.leb_spec (-32) z); destruct (Z.leb_spec (-128) z);
      destruct (Z.leb_spec (-32768) z); destruct (Z.leb_spec (-2147483648) z); try lia;
      cbn [andb length]; rewrite be_bytes_length; reflexivity.
  - destruct (Z.leb_spec z 0x7F); destruct (Z.leb_spec z 0xFF); destruct (Z.leb_spec z 0xFFFF);
      destruct (Z.leb_spec z 0xFFFFFFFF); try lia;
      destruct (Z.leb_spec (-0x20) z); destruct (Z.leb_spec (-0x80) z);
      destruct (Z.leb_spec (-0x8000) z); destruct (Z.leb_spec (-0x80000000) z); try lia;
      cbn [andb length]; rewrite be_bytes_length; reflexivity.
Qed.

(* ------------------------------------------------------------------------------------- *)
(* finite sweeps over a range of Z *)

Fixpoint zall (n : nat) (lo : Z) (f : Z -> bool) : bool :=
  match n with
  | O => true
  | S n' => f lo && zall n' (lo + 1) f
  end.

Lemma zall_spec : forall n lo f, zall n lo f = true ->
  forall z, lo <= z < lo + Z.of_nat n -> f z = true.
Proof.
  induction n as [|n IH]; intros lo f H z Hz.
  - cbn in Hz. lia.
  - cbn [zall] in H. apply andb_prop in H as [H0 H1].
    destruct (Z.eq_dec z lo) as [->|Hne]; [exact H0|].
    apply (IH (lo + 1) f H1). lia.
Qed.

(* the codes that reach mp_tail *)
Definition early (c : Z) : bool :=
  ((0xCC <=? c) && (c <=? 0xD3)) || (c =? 0xC0) || (c =? 0xC1) || ((c =? 0xC2) || (c =? 0xC3))
  || (c =? 0xCA) || (c =? 0xCB) || ((c <=? 0x7F) || (0xE0 <=? c)).

Lemma body_tail : forall cf pv' Lz f cb rest k, early (Z.of_N cb) = false ->
  mp_body cf pv' Lz f (mk (cb :: rest) k) = mp_tail pv' Lz f cb (mk rest (k + 1)).
Proof.
  intros cf pv' Lz f cb rest k H. unfold early in H.
  apply orb_false_elim in H as [H H7]. apply orb_false_elim in H as [H H6].
  apply orb_false_elim in H as [H H5]. apply orb_false_elim in H as [H H4].
  apply orb_false_elim in H as [H H3]. apply orb_false_elim in H as [H1 H2].
  unfold mp_body. rewrite read_1_cons. cbv beta iota zeta.
  rewrite H1, H2, H3, H4, H5, H6, H7. reflexivity.
Qed.

(* what a header announces *)
Definition str_payload (size : Z) (r : mrd) : code * jv * mrd :=
  if max_string_length <? size then (NoMemory, JNull, r)
  else
    match read_z size r with
    | (Some s, r) => (Ok, JStr s, r)
    | (None, r) => (IncompleteInput, JNull, r)
    end.

Definition arr_payload (pv' : pvT) (Lz : bool) (size : Z) (r : mrd) : code * jv * mrd :=
  if Lz then (TooDeep, JNull, r)
  else
    let '(e, l, r) := mp_array_loop pv' (clip_count size r) None true [] r in
    (e, JArr l, r).

Definition map_payload (pv' : pvT) (Lz : bool) (size : Z) (r : mrd) : code * jv * mrd :=
  if Lz then (TooDeep, JNull, r)
  else
    let '(e, l, r) := mp_object_loop pv' (clip_count size r) None [] r in
    (e, JObj l, r).

Definition hdr_then (w : nat) (r : mrd) (k : Z -> mrd -> code * jv * mrd) : code * jv * mrd :=
  match read_n w r with
  | (None, r) => (IncompleteInput, JNull, r)
  | (Some hb, r) => k (be_value hb 0) r
  end.

(* fixstr / fixarray / fixmap: the size is in the code byte *)
Definition fix_facts (base n : Z) (a m s : bool) : bool :=
  let c := base + n in
  negb (early c) && Nat.eqb (size_bytes_of c) 0 && (size0_of c =? n)
  && Bool.eqb (is_arr_code c) a && Bool.eqb (is_map_code c) m && Bool.eqb (is_str_code c) s.

Lemma fix_facts_elim : forall base n a m s, fix_facts base n a m s = true ->
  let c := base + n in
  early c = false /\ size_bytes_of c = 0%nat /\ size0_of c = n /\
  is_arr_code c = a /\ is_map_code c = m /\ is_str_code c = s.
Proof.
  intros base n a m s H c. unfold fix_facts in H. fold c in H.
  apply andb_prop in H as [H H6]. apply andb_prop in H as [H H5]. apply andb_prop in H as [H H4].
  apply andb_prop in H as [H H3]. apply andb_prop in H as [H1 H2].
  apply negb_true_iff in H1. apply Nat.eqb_eq in H2. apply Z.eqb_eq in H3.
  apply Bool.eqb_prop in H4. apply Bool.eqb_prop in H5. apply Bool.eqb_prop in H6. auto 10.
Qed.

Lemma fixstr_facts : forall n, 0 <= n < 32 -> fix_facts 0xA0 n false false true = true.
Proof.
  intros n H. apply (zall_spec 32 0 (fun n => fix_facts 0xA0 n false false true)); [|lia].
  vm_compute. reflexivity.
Qed.

Lemma fixarr_facts : forall n, 0 <= n < 16 -> fix_facts 0x90 n true false false = true.
Proof.
  intros n H. apply (zall_spec 16 0 (fun n => fix_facts 0x90 n true false false)); [|lia].
  vm_compute. reflexivity.
Qed.

Lemma fixmap_facts : forall n, 0 <= n < 16 -> fix_facts 0x80 n false true false = true.
Proof.
  intros n H. apply (zall_spec 16 0 (fun n => fix_facts 0x80 n false true false)); [|lia].
  vm_compute. reflexivity.
Qed.

Lemma body_fixstr : forall cf pv' Lz n rest k, 0 <= n < 32 ->
  mp_body cf pv' Lz None (mk (bz (0xA0 + n) :: rest) k) = str_payload n (mk rest (k + 1)).
Proof.
  intros cf pv' Lz n rest k H.
  destruct (fix_facts_elim _ _ _ _ _ (fixstr_facts n H)) as (F1 & F2 & F3 & F4 & F5 & F6).
  cbv zeta in *.
  assert (Hb : Z.of_N (bz (0xA0 + n)) = 0xA0 + n) by (apply bz_id; lia).
  rewrite body_tail by (rewrite Hb; exact F1).
  unfold mp_tail. cbv zeta. rewrite Hb, F2, F3, F4, F5, F6. cbn [Nat.eqb f_allow_value].
  reflexivity.
Qed.

Lemma body_fixarr : forall cf pv' Lz n rest k, 0 <= n < 16 ->
  mp_body cf pv' Lz None (mk (bz (0x90 + n) :: rest) k) = arr_payload pv' Lz n (mk rest (k + 1)).
Proof.
  intros cf pv' Lz n rest k H.
  destruct (fix_facts_elim _ _ _ _ _ (fixarr_facts n H)) as (F1 & F2 & F3 & F4 & F5 & F6).
  cbv zeta in *.
  assert (Hb : Z.of_N (bz (0x90 + n)) = 0x90 + n) by (apply bz_id; lia).
  rewrite body_tail by (rewrite Hb; exact F1).
  unfold mp_tail. cbv zeta. rewrite Hb, F2, F3, F4. cbn [Nat.eqb f_allow_array f_element].
  reflexivity.
Qed.

Lemma body_fixmap : forall cf pv' Lz n rest k, 0 <= n < 16 ->
  mp_body cf pv' Lz None (mk (bz (0x80 + n) :: rest) k) = map_payload pv' Lz n (mk rest (k + 1)).
Proof.
  intros cf pv' Lz n rest k H.
  destruct (fix_facts_elim _ _ _ _ _ (fixmap_facts n H)) as (F1 & F2 & F3 & F4 & F5 & F6).
  cbv zeta in *.
  assert (Hb : Z.of_N (bz (0x80 + n)) = 0x80 + n) by (apply bz_id; lia).
  rewrite body_tail by (rewrite Hb; exact F1).
  unfold mp_tail. cbv zeta. rewrite Hb, F2, F3, F4, F5. cbn [Nat.eqb f_allow_object].
  reflexivity.
Qed.

(* str 8/16/32, array 16/32, map 16/32: the size follows the code byte *)
Lemma body_str8 : forall cf pv' Lz rest k,
  mp_body cf pv' Lz None (mk (bz 0xD9 :: rest) k) = hdr_then 1 (mk rest (k + 1)) str_payload.
Proof. reflexivity. Qed.
Lemma body_str16 : forall cf pv' Lz rest k,
  mp_body cf pv' Lz None (mk (bz 0xDA :: rest) k) = hdr_then 2 (mk rest (k + 1)) str_payload.
Proof. reflexivity. Qed.
Lemma body_str32 : forall cf pv' Lz rest k,
  mp_body cf pv' Lz None (mk (bz 0xDB :: rest) k) = hdr_then 4 (mk rest (k + 1)) str_payload.
Proof. reflexivity. Qed.
Lemma body_arr16 : forall cf pv' Lz rest k,
  mp_body cf pv' Lz None (mk (bz 0xDC :: rest) k) = hdr_then 2 (mk rest (k + 1)) (arr_payload pv' Lz).
Proof. reflexivity. Qed.
Lemma body_arr32 : forall cf pv' Lz rest k,
  mp_body cf pv' Lz None (mk (bz 0xDD :: rest) k) = hdr_then 4 (mk rest (k + 1)) (arr_payload pv' Lz).
Proof. reflexivity. Qed.
Lemma body_map16 : forall cf pv' Lz rest k,
  mp_body cf pv' Lz None (mk (bz 0xDE :: rest) k) = hdr_then 2 (mk rest (k + 1)) (map_payload pv' Lz).
Proof. reflexivity. Qed.
Lemma body_map32 : forall cf pv' Lz rest k,
  mp_body cf pv' Lz None (mk (bz 0xDF :: rest) k) = hdr_then 4 (mk rest (k + 1)) (map_payload pv' Lz).
Proof. reflexivity. Qed.
