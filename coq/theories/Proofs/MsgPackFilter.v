(* MsgPackFilter.v — the filter of the MessagePack reader (Model/MsgPack.v), C11 on the MessagePack path:
   (1) a filter that equals true is the identity on EVERY input (malformed included),
   (2) a filter that keeps nothing (null/false entry, or any scalar other than true) skips a whole
       legal encoding, consumes exactly its bytes and builds nothing; only the nesting budget and the
       size of the keys matter on that path (strings, bin, ext are skipped, not stored),
   (3) reading a legal encoding with a filter = projecting what the unfiltered reader builds
       (Spec/FilterSpec.v), exact bytes consumed. *)
From Coq Require Import ZArith NArith List Bool Lia.
From Coq Require Import Floats.SpecFloat.
From AJ Require Import Model.Base Model.FloatModel Model.Value Model.JsonParse Model.MsgPack.
From AJ Require Import Proofs.MsgPackRT Spec.MsgPackSpec Spec.FilterSpec Proofs.MsgPackComplete.
Import ListNotations.
Local Open Scope Z_scope.

(* ------------------------------------------------------------------------------------- *)
(* Part 1 — a filter that equals true behaves like no filter at all                         *)

Lemma mpf_equals_true_truthy : forall v, equals_true v = true -> truthy v = true.
Proof.
  intros v H. destruct v as [|b|z|f|f|s|s|l|l]; cbn [equals_true truthy] in *; try discriminate.
  - exact H.
  - apply Z.eqb_eq in H. subst z. reflexivity.
  - destruct f as [sg| sg | |sg m e]; try discriminate H; destruct sg; try discriminate H; reflexivity.
  - destruct f as [sg| sg | |sg m e]; try discriminate H; destruct sg; try discriminate H; reflexivity.
Qed.

Section TrueLoops.
  Variable pv : pvT.
  Variable f : jv.
  Hypothesis Hf : equals_true f = true.
  Hypothesis Hpv : forall d r, pv (Some f) d r = pv None d r.

  Lemma mp_array_loop_true : forall n keep acc r,
    mp_array_loop pv n (Some f) keep acc r = mp_array_loop pv n None keep acc r.
  Proof.
    induction n as [|n IH]; intros keep acc r; [reflexivity|].
    cbn [mp_array_loop f_allow]. rewrite (mpf_equals_true_truthy f Hf), Hpv.
    destruct (pv None true r) as [[e v] r1]. destruct e; try reflexivity. apply IH.
  Qed.

  Lemma mp_object_loop_true : forall n acc r,
    mp_object_loop pv n (Some f) acc r = mp_object_loop pv n None acc r.
  Proof.
    induction n as [|n IH]; intros acc r; [reflexivity|].
    cbn [mp_object_loop]. destruct (mp_read_key r) as [[ek key] rk]. destruct ek; try reflexivity.
    cbn [f_member]. rewrite Hf. cbn [f_allow]. rewrite (mpf_equals_true_truthy f Hf), Hpv.
    destruct (pv None true rk) as [[e v] r1]. destruct e; try reflexivity. apply IH.
  Qed.

  Lemma mp_tail_true : forall Lz cb r, mp_tail pv Lz (Some f) cb r = mp_tail pv Lz None cb r.
  Proof.
    intros Lz cb r. unfold mp_tail.
    cbn [f_allow_value f_allow_array f_allow_object f_element]. rewrite Hf. cbn [orb].
    cbv zeta.
    destruct (if Nat.eqb (size_bytes_of (Z.of_N cb)) 0 then (Some [], r)
              else read_n (size_bytes_of (Z.of_N cb)) r) as [[hb|] r1]; [|reflexivity].
    rewrite mp_array_loop_true, mp_object_loop_true. reflexivity.
  Qed.

  Lemma mp_body_true : forall cf Lz r, mp_body cf pv Lz (Some f) r = mp_body cf pv Lz None r.
  Proof.
    intros cf Lz r. unfold mp_body.
    destruct (read_n 1 r) as [[[|cb [|c' t]]|] r1]; try reflexivity.
    cbn [f_allow_value]. rewrite Hf. cbv zeta. rewrite mp_tail_true. reflexivity.
  Qed.
End TrueLoops.

Theorem mp_filter_equals_true_identity : forall cf f, equals_true f = true -> forall L dst r,
  mp_parse cf L (Some f) dst r = mp_parse cf L None dst r.
Proof.
  intros cf f Hf. induction L as [|L IH]; intros dst r; rewrite !mp_parse_eq;
    apply mp_body_true; try exact Hf.
  - intros d r0. reflexivity.
  - intros d r0. cbn [pv_of]. apply IH.
Qed.

Corollary mp_filter_true_identity : forall cf L dst r,
  mp_parse cf L (Some (JBool true)) dst r = mp_parse cf L None dst r.
Proof. intros cf L dst r. apply mp_filter_equals_true_identity. reflexivity. Qed.

Corollary mp_run_filter_equals_true : forall cf f, equals_true f = true -> forall L i,
  mp_run cf (Some f) L i = mp_run cf None L i.
Proof.
  intros cf f Hf L i. unfold mp_run. rewrite (mp_filter_equals_true_identity cf f Hf). reflexivity.
Qed.

(* ------------------------------------------------------------------------------------- *)
(* Part 2 — one level of the reader under an arbitrary filter                               *)

Definition skipped (x : code * mrd) : code * jv * mrd := let '(e, r) := x in (e, JNull, r).

Definition fixed_then (f : filter) (w : nat) (K : bytes -> jv) (r : mrd) : code * jv * mrd :=
  if f_allow_value f then
    match read_n w r with
    | (Some l, r) => (Ok, K l, r)
    | (None, r) => (IncompleteInput, JNull, r)
    end
  else skipped (mp_skip (Z.of_nat w) r).

Definition str_payload_f (f : filter) (size : Z) (r : mrd) : code * jv * mrd :=
  if f_allow_value f then str_payload size r else skipped (mp_skip size r).

Definition arr_payload_f (pv' : pvT) (Lz : bool) (f : filter) (size : Z) (r : mrd) : code * jv * mrd :=
  if Lz then (TooDeep, JNull, r)
  else
    let '(e, l, r) := mp_array_loop pv' (clip_count size r) (f_element f) (f_allow_array f) [] r in
    (e, (if f_allow_array f then JArr l else JNull), r).

Definition map_payload_f (pv' : pvT) (Lz : bool) (f : filter) (size : Z) (r : mrd) : code * jv * mrd :=
  if Lz then (TooDeep, JNull, r)
  else
    let '(e, l, r) := mp_object_loop pv' (clip_count size r) f [] r in
    (e, (if f_allow_object f then JObj l else JNull), r).

Definition raw_after_f (f : filter) (cb : N) (hb : bytes) (w : nat) (size : Z) (r : mrd) : code * jv * mrd :=
  if f_allow_value f then raw_after cb hb w size r else skipped (mp_skip size r).

Definition raw_then_f (f : filter) (cb : N) (w : nat) (ext : bool) (r : mrd) : code * jv * mrd :=
  match read_n w r with
  | (None, r) => (IncompleteInput, JNull, r)
  | (Some hb, r) => raw_after_f f cb hb w (if ext then be_value hb 0 + 1 else be_value hb 0) r
  end.

Lemma bodyf_nil : forall cf pv' Lz f rest k,
  mp_body cf pv' Lz f (rd_at (0xC0%N :: rest) k) = (Ok, JNull, rd_at rest (k + 1)).
Proof. reflexivity. Qed.
Lemma bodyf_false : forall cf pv' Lz f rest k,
  mp_body cf pv' Lz f (rd_at (0xC2%N :: rest) k) =
    (Ok, (if f_allow_value f then JBool false else JNull), rd_at rest (k + 1)).
Proof. reflexivity. Qed.
Lemma bodyf_true : forall cf pv' Lz f rest k,
  mp_body cf pv' Lz f (rd_at (0xC3%N :: rest) k) =
    (Ok, (if f_allow_value f then JBool true else JNull), rd_at rest (k + 1)).
Proof. reflexivity. Qed.
Lemma bodyf_f32 : forall cf pv' Lz f rest k,
  mp_body cf pv' Lz f (rd_at (0xCA%N :: rest) k) =
    fixed_then f 4 (fun l => JFloat (sf_of_bits F32 (be_value l 0))) (rd_at rest (k + 1)).
Proof. reflexivity. Qed.
Lemma bodyf_f64 : forall cf pv' Lz f rest k,
  mp_body cf pv' Lz f (rd_at (0xCB%N :: rest) k) =
    fixed_then f 8 (fun l => jv_of_double (use_double cf) (sf_of_bits F64 (be_value l 0))) (rd_at rest (k + 1)).
Proof. reflexivity. Qed.
Lemma bodyf_str8 : forall cf pv' Lz f rest k,
  mp_body cf pv' Lz f (rd_at (0xD9%N :: rest) k) = hdr_then 1 (rd_at rest (k + 1)) (str_payload_f f).
Proof. reflexivity. Qed.
Lemma bodyf_str16 : forall cf pv' Lz f rest k,
  mp_body cf pv' Lz f (rd_at (0xDA%N :: rest) k) = hdr_then 2 (rd_at rest (k + 1)) (str_payload_f f).
Proof. reflexivity. Qed.
Lemma bodyf_str32 : forall cf pv' Lz f rest k,
  mp_body cf pv' Lz f (rd_at (0xDB%N :: rest) k) = hdr_then 4 (rd_at rest (k + 1)) (str_payload_f f).
Proof. reflexivity. Qed.
Lemma bodyf_arr16 : forall cf pv' Lz f rest k,
  mp_body cf pv' Lz f (rd_at (0xDC%N :: rest) k) = hdr_then 2 (rd_at rest (k + 1)) (arr_payload_f pv' Lz f).
Proof. reflexivity. Qed.
Lemma bodyf_arr32 : forall cf pv' Lz f rest k,
  mp_body cf pv' Lz f (rd_at (0xDD%N :: rest) k) = hdr_then 4 (rd_at rest (k + 1)) (arr_payload_f pv' Lz f).
Proof. reflexivity. Qed.
Lemma bodyf_map16 : forall cf pv' Lz f rest k,
  mp_body cf pv' Lz f (rd_at (0xDE%N :: rest) k) = hdr_then 2 (rd_at rest (k + 1)) (map_payload_f pv' Lz f).
Proof. reflexivity. Qed.
Lemma bodyf_map32 : forall cf pv' Lz f rest k,
  mp_body cf pv' Lz f (rd_at (0xDF%N :: rest) k) = hdr_then 4 (rd_at rest (k + 1)) (map_payload_f pv' Lz f).
Proof. reflexivity. Qed.
Lemma bodyf_bin8 : forall cf pv' Lz f rest k,
  mp_body cf pv' Lz f (rd_at (0xC4%N :: rest) k) = raw_then_f f 0xC4%N 1 false (rd_at rest (k + 1)).
Proof. reflexivity. Qed.
Lemma bodyf_bin16 : forall cf pv' Lz f rest k,
  mp_body cf pv' Lz f (rd_at (0xC5%N :: rest) k) = raw_then_f f 0xC5%N 2 false (rd_at rest (k + 1)).
Proof. reflexivity. Qed.
Lemma bodyf_bin32 : forall cf pv' Lz f rest k,
  mp_body cf pv' Lz f (rd_at (0xC6%N :: rest) k) = raw_then_f f 0xC6%N 4 false (rd_at rest (k + 1)).
Proof. reflexivity. Qed.
Lemma bodyf_ext8 : forall cf pv' Lz f rest k,
  mp_body cf pv' Lz f (rd_at (0xC7%N :: rest) k) = raw_then_f f 0xC7%N 1 true (rd_at rest (k + 1)).
Proof. reflexivity. Qed.
Lemma bodyf_ext16 : forall cf pv' Lz f rest k,
  mp_body cf pv' Lz f (rd_at (0xC8%N :: rest) k) = raw_then_f f 0xC8%N 2 true (rd_at rest (k + 1)).
Proof. reflexivity. Qed.
Lemma bodyf_ext32 : forall cf pv' Lz f rest k,
  mp_body cf pv' Lz f (rd_at (0xC9%N :: rest) k) = raw_then_f f 0xC9%N 4 true (rd_at rest (k + 1)).
Proof. reflexivity. Qed.
Lemma bodyf_fixext1 : forall cf pv' Lz f rest k,
  mp_body cf pv' Lz f (rd_at (0xD4%N :: rest) k) = raw_after_f f 0xD4%N [] 0 (1 + 1) (rd_at rest (k + 1)).
Proof. reflexivity. Qed.
Lemma bodyf_fixext2 : forall cf pv' Lz f rest k,
  mp_body cf pv' Lz f (rd_at (0xD5%N :: rest) k) = raw_after_f f 0xD5%N [] 0 (2 + 1) (rd_at rest (k + 1)).
Proof. reflexivity. Qed.
Lemma bodyf_fixext4 : forall cf pv' Lz f rest k,
  mp_body cf pv' Lz f (rd_at (0xD6%N :: rest) k) = raw_after_f f 0xD6%N [] 0 (4 + 1) (rd_at rest (k + 1)).
Proof. reflexivity. Qed.
Lemma bodyf_fixext8 : forall cf pv' Lz f rest k,
  mp_body cf pv' Lz f (rd_at (0xD7%N :: rest) k) = raw_after_f f 0xD7%N [] 0 (8 + 1) (rd_at rest (k + 1)).
Proof. reflexivity. Qed.
Lemma bodyf_fixext16 : forall cf pv' Lz f rest k,
  mp_body cf pv' Lz f (rd_at (0xD8%N :: rest) k) = raw_after_f f 0xD8%N [] 0 (16 + 1) (rd_at rest (k + 1)).
Proof. reflexivity. Qed.

Lemma bodyf_intcode : forall cf pv' Lz f cb rest k, 0xCC <= Z.of_N cb <= 0xD3 ->
  mp_body cf pv' Lz f (rd_at (cb :: rest) k) =
    fixed_then f (Z.to_nat (2 ^ ((Z.of_N cb - 0xCC) mod 4)))
      (fun l => JInt (if 0xD0 <=? Z.of_N cb
                      then signed_of (Z.to_nat (2 ^ ((Z.of_N cb - 0xCC) mod 4))) (be_value l 0)
                      else be_value l 0))
      (rd_at rest (k + 1)).
Proof.
  intros cf pv' Lz f cb rest k H. unfold mp_body. rewrite read_1_cons. cbv beta iota zeta.
  assert (E : (0xCC <=? Z.of_N cb) && (Z.of_N cb <=? 0xD3) = true).
  { apply andb_true_intro; split; apply Z.leb_le; lia. }
  rewrite E. unfold fixed_then, skipped. reflexivity.
Qed.

Lemma bodyf_fixint : forall cf pv' Lz f cb rest k, Z.of_N cb <= 0x7F \/ 0xE0 <= Z.of_N cb ->
  mp_body cf pv' Lz f (rd_at (cb :: rest) k) =
    (Ok, (if f_allow_value f then JInt (signed_of 1 (Z.of_N cb)) else JNull), rd_at rest (k + 1)).
Proof.
  intros cf pv' Lz f cb rest k H. unfold mp_body. rewrite read_1_cons. cbv beta iota zeta.
  assert (E1 : (0xCC <=? Z.of_N cb) && (Z.of_N cb <=? 0xD3) = false).
  { apply andb_false_iff. destruct H; [left; apply Z.leb_gt|right; apply Z.leb_gt]; lia. }
  assert (E2 : (Z.of_N cb =? 0xC0) = false) by (apply Z.eqb_neq; lia).
  assert (E3 : (Z.of_N cb =? 0xC1) = false) by (apply Z.eqb_neq; lia).
  assert (E4 : (Z.of_N cb =? 0xC2) = false) by (apply Z.eqb_neq; lia).
  assert (E5 : (Z.of_N cb =? 0xC3) = false) by (apply Z.eqb_neq; lia).
  assert (E6 : (Z.of_N cb =? 0xCA) = false) by (apply Z.eqb_neq; lia).
  assert (E7 : (Z.of_N cb =? 0xCB) = false) by (apply Z.eqb_neq; lia).
  assert (E8 : (Z.of_N cb <=? 0x7F) || (0xE0 <=? Z.of_N cb) = true).
  { apply orb_true_iff. destruct H; [left|right]; apply Z.leb_le; lia. }
  rewrite E1, E2, E3, E4, E5, E6, E7, E8. reflexivity.
Qed.

Lemma bodyf_fixstr : forall cf pv' Lz f n rest k, 0 <= n < 32 ->
  mp_body cf pv' Lz f (rd_at (bz (0xA0 + n) :: rest) k) = str_payload_f f n (rd_at rest (k + 1)).
Proof.
  intros cf pv' Lz f n rest k H.
  destruct (fix_facts_elim _ _ _ _ _ (fixstr_facts n H)) as (F1 & F2 & F3 & F4 & F5 & F6).
  cbv zeta in *.
  assert (Hb : Z.of_N (bz (0xA0 + n)) = 0xA0 + n) by (apply bz_id; lia).
  rewrite body_tail by (rewrite Hb; exact F1).
  unfold mp_tail. cbv zeta. rewrite Hb, F2, F3, F4, F5, F6. cbn [Nat.eqb].
  reflexivity.
Qed.

Lemma bodyf_fixarr : forall cf pv' Lz f n rest k, 0 <= n < 16 ->
  mp_body cf pv' Lz f (rd_at (bz (0x90 + n) :: rest) k) = arr_payload_f pv' Lz f n (rd_at rest (k + 1)).
Proof.
  intros cf pv' Lz f n rest k H.
  destruct (fix_facts_elim _ _ _ _ _ (fixarr_facts n H)) as (F1 & F2 & F3 & F4 & F5 & F6).
  cbv zeta in *.
  assert (Hb : Z.of_N (bz (0x90 + n)) = 0x90 + n) by (apply bz_id; lia).
  rewrite body_tail by (rewrite Hb; exact F1).
  unfold mp_tail. cbv zeta. rewrite Hb, F2, F3, F4. cbn [Nat.eqb].
  reflexivity.
Qed.

Lemma bodyf_fixmap : forall cf pv' Lz f n rest k, 0 <= n < 16 ->
  mp_body cf pv' Lz f (rd_at (bz (0x80 + n) :: rest) k) = map_payload_f pv' Lz f n (rd_at rest (k + 1)).
Proof.
  intros cf pv' Lz f n rest k H.
  destruct (fix_facts_elim _ _ _ _ _ (fixmap_facts n H)) as (F1 & F2 & F3 & F4 & F5 & F6).
  cbv zeta in *.
  assert (Hb : Z.of_N (bz (0x80 + n)) = 0x80 + n) by (apply bz_id; lia).
  rewrite body_tail by (rewrite Hb; exact F1).
  unfold mp_tail. cbv zeta. rewrite Hb, F2, F3, F4, F5. cbn [Nat.eqb].
  reflexivity.
Qed.

(* --- headers, any width, any filter --- *)
Lemma str_hdr_bodyf : forall cf pv' Lz f n h rest k, StrHdr n h ->
  mp_body cf pv' Lz f (rd_at (h ++ rest) k) = str_payload_f f n (rd_at rest (k + N.of_nat (length h))).
Proof.
  intros cf pv' Lz f n h rest k H. destruct H as [n Hn|n l Hl|n l Hl|n l Hl]; cbn [app length].
  - rewrite to_N_bz by lia. apply bodyf_fixstr. lia.
  - rewrite bodyf_str8, (hdr_then_is_be _ _ _ _ _ _ Hl).
    rewrite (is_be_length _ _ _ Hl), reads_assoc. reflexivity.
  - rewrite bodyf_str16, (hdr_then_is_be _ _ _ _ _ _ Hl).
    rewrite (is_be_length _ _ _ Hl), reads_assoc. reflexivity.
  - rewrite bodyf_str32, (hdr_then_is_be _ _ _ _ _ _ Hl).
    rewrite (is_be_length _ _ _ Hl), reads_assoc. reflexivity.
Qed.

Lemma arr_hdr_bodyf : forall cf pv' Lz f n h rest k, ArrHdr n h ->
  mp_body cf pv' Lz f (rd_at (h ++ rest) k) =
    arr_payload_f pv' Lz f n (rd_at rest (k + N.of_nat (length h))).
Proof.
  intros cf pv' Lz f n h rest k H. destruct H as [n Hn|n l Hl|n l Hl]; cbn [app length].
  - rewrite to_N_bz by lia. apply bodyf_fixarr. lia.
  - rewrite bodyf_arr16, (hdr_then_is_be _ _ _ _ _ _ Hl).
    rewrite (is_be_length _ _ _ Hl), reads_assoc. reflexivity.
  - rewrite bodyf_arr32, (hdr_then_is_be _ _ _ _ _ _ Hl).
    rewrite (is_be_length _ _ _ Hl), reads_assoc. reflexivity.
Qed.

Lemma map_hdr_bodyf : forall cf pv' Lz f n h rest k, MapHdr n h ->
  mp_body cf pv' Lz f (rd_at (h ++ rest) k) =
    map_payload_f pv' Lz f n (rd_at rest (k + N.of_nat (length h))).
Proof.
  intros cf pv' Lz f n h rest k H. destruct H as [n Hn|n l Hl|n l Hl]; cbn [app length].
  - rewrite to_N_bz by lia. apply bodyf_fixmap. lia.
  - rewrite bodyf_map16, (hdr_then_is_be _ _ _ _ _ _ Hl).
    rewrite (is_be_length _ _ _ Hl), reads_assoc. reflexivity.
  - rewrite bodyf_map32, (hdr_then_is_be _ _ _ _ _ _ Hl).
    rewrite (is_be_length _ _ _ Hl), reads_assoc. reflexivity.
Qed.

(* --- the skip path of the scalar families --- *)
Lemma mp_skip_app : forall z l rest k, Z.of_nat (length l) = z ->
  mp_skip z (rd_at (l ++ rest) k) = (Ok, rd_at rest (k + N.of_nat (length l))).
Proof. intros z l rest k H. unfold mp_skip. rewrite (read_z_app z l rest k H). reflexivity. Qed.

Lemma fixed_then_skip : forall f w K l rest k, f_allow_value f = false -> length l = w ->
  fixed_then f w K (rd_at (l ++ rest) k) = (Ok, JNull, rd_at rest (k + N.of_nat w)).
Proof.
  intros f w K l rest k Hf Hl. unfold fixed_then. rewrite Hf.
  rewrite (mp_skip_app (Z.of_nat w) l) by (rewrite Hl; reflexivity). rewrite Hl. reflexivity.
Qed.

Lemma str_payload_f_skip : forall f s rest k, f_allow_value f = false ->
  str_payload_f f (Z.of_nat (length s)) (rd_at (s ++ rest) k) =
    (Ok, JNull, rd_at rest (k + N.of_nat (length s))).
Proof.
  intros f s rest k Hf. unfold str_payload_f. rewrite Hf, mp_skip_app by reflexivity. reflexivity.
Qed.

Lemma raw_after_f_skip : forall f cb hb w p rest k, f_allow_value f = false ->
  raw_after_f f cb hb w (Z.of_nat (length p)) (rd_at (p ++ rest) k) =
    (Ok, JNull, rd_at rest (k + N.of_nat (length p))).
Proof.
  intros f cb hb w p rest k Hf. unfold raw_after_f. rewrite Hf, mp_skip_app by reflexivity. reflexivity.
Qed.

Lemma raw_then_f_skip : forall f cb w (ext : bool) n l p rest k, f_allow_value f = false ->
  is_be w n l -> Z.of_nat (length p) = (if ext then n + 1 else n) ->
  raw_then_f f cb w ext (rd_at (l ++ p ++ rest) k) =
    (Ok, JNull, rd_at rest (k + N.of_nat w + N.of_nat (length p))).
Proof.
  intros f cb w ext n l p rest k Hf Hl Hp. unfold raw_then_f.
  rewrite (read_n_app' w) by (exact (is_be_length _ _ _ Hl)).
  rewrite (is_be_value _ _ _ Hl), <- Hp. apply raw_after_f_skip. exact Hf.
Qed.

Lemma bin_skip : forall cf pv' Lz f p h rest k, f_allow_value f = false ->
  BinHdr (Z.of_nat (length p)) h ->
  mp_body cf pv' Lz f (rd_at ((h ++ p) ++ rest) k) =
    (Ok, JNull, rd_at rest (k + N.of_nat (length (h ++ p)))).
Proof.
  intros cf pv' Lz f p h rest k Hf H. rewrite <- app_assoc, app_length.
  inversion H as [n l Hl E1 E2|n l Hl E1 E2|n l Hl E1 E2]; subst; cbn [app length].
  - rewrite bodyf_bin8, (raw_then_f_skip f _ _ false _ _ _ _ _ Hf Hl eq_refl).
    rewrite (is_be_length _ _ _ Hl). f_equal. f_equal. lia.
  - rewrite bodyf_bin16, (raw_then_f_skip f _ _ false _ _ _ _ _ Hf Hl eq_refl).
    rewrite (is_be_length _ _ _ Hl). f_equal. f_equal. lia.
  - rewrite bodyf_bin32, (raw_then_f_skip f _ _ false _ _ _ _ _ Hf Hl eq_refl).
    rewrite (is_be_length _ _ _ Hl). f_equal. f_equal. lia.
Qed.

Lemma ext_skip : forall cf pv' Lz f ty p h rest k, f_allow_value f = false ->
  ExtHdr (Z.of_nat (length p)) h ->
  mp_body cf pv' Lz f (rd_at ((h ++ ty :: p) ++ rest) k) =
    (Ok, JNull, rd_at rest (k + N.of_nat (length (h ++ ty :: p)))).
Proof.
  intros cf pv' Lz f ty p h rest k Hf H. rewrite <- app_assoc, app_length.
  assert (Hp : forall n, Z.of_nat (length p) = n -> Z.of_nat (length (ty :: p)) = n + 1)
    by (intros n <-; cbn [length]; lia).
  assert (Fix : forall cb n, Z.of_nat (length p) = n ->
            raw_after_f f cb [] 0 (n + 1) (rd_at ((ty :: p) ++ rest) (k + 1)) =
              (Ok, JNull, rd_at rest (k + N.of_nat (length [cb] + length (ty :: p))))).
  { intros cb n Hn. rewrite <- (Hp n Hn), raw_after_f_skip by exact Hf.
    f_equal. f_equal. cbn [length]. lia. }
  inversion H as [E1 E2|E1 E2|E1 E2|E1 E2|E1 E2|n l Hl E1 E2|n l Hl E1 E2|n l Hl E1 E2]; subst.
  - cbn [app]. rewrite bodyf_fixext1. apply (Fix 0xD4%N 1). auto.
  - cbn [app]. rewrite bodyf_fixext2. apply (Fix 0xD5%N 2). auto.
  - cbn [app]. rewrite bodyf_fixext4. apply (Fix 0xD6%N 4). auto.
  - cbn [app]. rewrite bodyf_fixext8. apply (Fix 0xD7%N 8). auto.
  - cbn [app]. rewrite bodyf_fixext16. apply (Fix 0xD8%N 16). auto.
  - cbn [app length]. change (ty :: p ++ rest) with ((ty :: p) ++ rest). rewrite bodyf_ext8.
    rewrite (raw_then_f_skip f _ _ true _ _ (ty :: p) _ _ Hf Hl (Hp _ eq_refl)).
    rewrite (is_be_length _ _ _ Hl). f_equal. f_equal. cbn [length]. lia.
  - cbn [app length]. change (ty :: p ++ rest) with ((ty :: p) ++ rest). rewrite bodyf_ext16.
    rewrite (raw_then_f_skip f _ _ true _ _ (ty :: p) _ _ Hf Hl (Hp _ eq_refl)).
    rewrite (is_be_length _ _ _ Hl). f_equal. f_equal. cbn [length]. lia.
  - cbn [app length]. change (ty :: p ++ rest) with ((ty :: p) ++ rest). rewrite bodyf_ext32.
    rewrite (raw_then_f_skip f _ _ true _ _ (ty :: p) _ _ Hf Hl (Hp _ eq_refl)).
    rewrite (is_be_length _ _ _ Hl). f_equal. f_equal. cbn [length]. lia.
Qed.

Lemma intcode_skip : forall cf pv' Lz f cb w n l rest k, f_allow_value f = false ->
  0xCC <= Z.of_N cb <= 0xD3 -> Z.to_nat (2 ^ ((Z.of_N cb - 0xCC) mod 4)) = w -> is_be w n l ->
  mp_body cf pv' Lz f (rd_at ((cb :: l) ++ rest) k) =
    (Ok, JNull, rd_at rest (k + N.of_nat (length (cb :: l)))).
Proof.
  intros cf pv' Lz f cb w n l rest k Hf Hc Hw Hl. cbn [app length].
  rewrite bodyf_intcode by exact Hc. rewrite Hw.
  rewrite (fixed_then_skip f w _ l rest _ Hf (is_be_length _ _ _ Hl)).
  rewrite (is_be_length _ _ _ Hl), reads_assoc. reflexivity.
Qed.

Definition is_container (v : mpv) : bool := match v with MArr _ | MMap _ => true | _ => false end.

(* a value that is not a container, read at a position whose filter is not `true`: skipped whole *)
Lemma scalar_skip : forall cf pv' Lz f v b, MpEnc v b -> is_container v = false ->
  f_allow_value f = false -> forall rest k,
  mp_body cf pv' Lz f (rd_at (b ++ rest) k) = (Ok, JNull, rd_at rest (k + N.of_nat (length b))).
Proof.
  intros cf pv' Lz f v b H Hc Hf rest k. destruct H; try discriminate Hc.
  - apply bodyf_nil.
  - cbn [app length]. rewrite bodyf_false, Hf. reflexivity.
  - cbn [app length]. rewrite bodyf_true, Hf. reflexivity.
  - cbn [app length]. rewrite bodyf_fixint by (rewrite Z2N.id; lia). rewrite Hf. reflexivity.
  - cbn [app length]. rewrite bodyf_fixint by (rewrite Z2N.id; lia). rewrite Hf. reflexivity.
  - apply (intcode_skip cf pv' Lz f 0xCC%N 1 z); [exact Hf|vm_compute; split; discriminate|reflexivity|assumption].
  - apply (intcode_skip cf pv' Lz f 0xCD%N 2 z); [exact Hf|vm_compute; split; discriminate|reflexivity|assumption].
  - apply (intcode_skip cf pv' Lz f 0xCE%N 4 z); [exact Hf|vm_compute; split; discriminate|reflexivity|assumption].
  - apply (intcode_skip cf pv' Lz f 0xCF%N 8 z); [exact Hf|vm_compute; split; discriminate|reflexivity|assumption].
  - apply (intcode_skip cf pv' Lz f 0xD0%N 1 (twos 1 z)); [exact Hf|vm_compute; split; discriminate|reflexivity|assumption].
  - apply (intcode_skip cf pv' Lz f 0xD1%N 2 (twos 2 z)); [exact Hf|vm_compute; split; discriminate|reflexivity|assumption].
  - apply (intcode_skip cf pv' Lz f 0xD2%N 4 (twos 4 z)); [exact Hf|vm_compute; split; discriminate|reflexivity|assumption].
  - apply (intcode_skip cf pv' Lz f 0xD3%N 8 (twos 8 z)); [exact Hf|vm_compute; split; discriminate|reflexivity|assumption].
  - cbn [app length]. rewrite bodyf_f32.
    rewrite (fixed_then_skip f 4 _ l rest _ Hf (is_be_length _ _ _ H)).
    rewrite (is_be_length _ _ _ H), reads_assoc. reflexivity.
  - cbn [app length]. rewrite bodyf_f64.
    rewrite (fixed_then_skip f 8 _ l rest _ Hf (is_be_length _ _ _ H)).
    rewrite (is_be_length _ _ _ H), reads_assoc. reflexivity.
  - rewrite <- app_assoc. rewrite (str_hdr_bodyf _ _ _ _ _ _ _ _ H).
    rewrite str_payload_f_skip by exact Hf. rewrite reads_app, app_length. reflexivity.
  - apply bin_skip; assumption.
  - apply ext_skip; assumption.
Qed.

(* --- loops over complete elements, any filter --- *)
Lemma array_loop_filtered : forall (pv : pvT) (ud : bool) (P : mpv -> Prop) (ef : filter) (g : jv -> jv),
  (forall v b, MpEnc v b -> P v -> forall rest k,
     pv ef (f_allow ef) (rd_at (b ++ rest) k) =
       (Ok, g (mp_den ud v), rd_at rest (k + N.of_nat (length b)))) ->
  forall l bs, MpEncs l bs -> (forall x, In x l -> P x) ->
  forall keep acc rest k,
    mp_array_loop pv (length l) ef keep acc (rd_at (bs ++ rest) k) =
      (Ok, (if f_allow ef then acc ++ map g (map (mp_den ud) l) else acc),
       rd_at rest (k + N.of_nat (length bs))).
Proof.
  intros pv ud P ef g Hpv l bs H. induction H as [|v b l bs Hv Hl IH]; intros HP keep acc rest k.
  - cbn [length mp_array_loop map app]. rewrite app_nil_r, N.add_0_r.
    destruct (f_allow ef); reflexivity.
  - cbn [length mp_array_loop map]. rewrite <- app_assoc.
    rewrite (Hpv v b Hv (HP v (or_introl eq_refl))).
    rewrite IH by (intros y Hy; apply HP; right; exact Hy).
    rewrite reads_app, <- app_length.
    destruct (f_allow ef); [|reflexivity]. rewrite <- app_assoc. reflexivity.
Qed.

(* the members an object filter keeps, each transformed by [g key] *)
Fixpoint sel_members (f : filter) (g : bytes -> jv -> jv) (ms : list (bytes * jv)) : list (bytes * jv) :=
  match ms with
  | [] => []
  | (key, x) :: ms' =>
      if f_allow (f_member f key) then (key, g key x) :: sel_members f g ms' else sel_members f g ms'
  end.

Lemma object_loop_filtered : forall (pv : pvT) (ud : bool) (P : bytes -> mpv -> Prop) (f : filter)
    (g : bytes -> jv -> jv),
  (forall key v b, MpEnc v b -> P key v -> forall rest k,
     pv (f_member f key) (f_allow (f_member f key)) (rd_at (b ++ rest) k) =
       (Ok, g key (mp_den ud v), rd_at rest (k + N.of_nat (length b)))) ->
  forall l bs, MpMembers l bs ->
  (forall kv, In kv l -> Z.of_nat (length (fst kv)) <= max_string_length /\ P (fst kv) (snd kv)) ->
  forall acc rest k,
    mp_object_loop pv (length l) f acc (rd_at (bs ++ rest) k) =
      (Ok, acc ++ sel_members f g (map (fun kv => (fst kv, mp_den ud (snd kv))) l),
       rd_at rest (k + N.of_nat (length bs))).
Proof.
  intros pv ud P f g Hpv l bs H. induction H as [|key hk v b l bs Hk Hv Hl IH]; intros HP acc rest k.
  - cbn [length mp_object_loop map sel_members app]. rewrite !app_nil_r, N.add_0_r. reflexivity.
  - cbn [length mp_object_loop map sel_members fst snd].
    destruct (HP _ (or_introl eq_refl)) as [Hm Hp]. cbn [fst snd] in Hm, Hp.
    rewrite <- (app_assoc (hk ++ key)). rewrite (read_key_complete _ _ _ _ Hk Hm).
    rewrite <- (app_assoc b). rewrite (Hpv key v b Hv Hp).
    rewrite IH by (intros y Hy; apply HP; right; exact Hy).
    assert (E : (k + N.of_nat (length (hk ++ key)) + N.of_nat (length b) + N.of_nat (length bs))%N =
                (k + N.of_nat (length ((hk ++ key) ++ b ++ bs)))%N) by (rewrite !app_length; lia).
    rewrite E. destruct (f_allow (f_member f key)); [|reflexivity].
    rewrite <- app_assoc. reflexivity.
Qed.

(* ------------------------------------------------------------------------------------- *)
(* Part 3 — values the filter discards are skipped                                          *)

(* a filter document that keeps nothing of the value it is applied to: it does not equal true and
   it is neither an array nor an object (null, false, 0, a string, 2, ...) *)
Definition keeps_nothing (f : jv) : Prop :=
  equals_true f = false /\ is_arr f = false /\ is_obj f = false.

Lemma keeps_nothing_null : keeps_nothing JNull.
Proof. repeat split. Qed.

(* in particular every entry that is not true-ish (the member / element is dropped) *)
Lemma not_truthy_keeps_nothing : forall f, truthy f = false -> keeps_nothing f.
Proof.
  intros f H. split; [|split].
  - destruct (equals_true f) eqn:E; [|reflexivity]. rewrite (mpf_equals_true_truthy f E) in H. discriminate.
  - destruct f; try reflexivity; discriminate H.
  - destruct f; try reflexivity; discriminate H.
Qed.

Lemma kn_value : forall f, keeps_nothing f -> f_allow_value (Some f) = false.
Proof. intros f (H & _ & _). exact H. Qed.
Lemma kn_array : forall f, keeps_nothing f -> f_allow_array (Some f) = false.
Proof. intros f (H1 & H2 & _). cbn [f_allow_array]. rewrite H1, H2. reflexivity. Qed.
Lemma kn_object : forall f, keeps_nothing f -> f_allow_object (Some f) = false.
Proof. intros f (H1 & _ & H3). cbn [f_allow_object]. rewrite H1, H3. reflexivity. Qed.
Lemma kn_element : forall f, keeps_nothing f -> f_element (Some f) = Some JNull.
Proof. intros f (H1 & H2 & _). cbn [f_element]. rewrite H1. destruct f; try reflexivity; discriminate H2. Qed.
Lemma kn_member : forall f key, keeps_nothing f -> f_member (Some f) key = Some JNull.
Proof.
  intros f key (H1 & _ & H3). cbn [f_member]. rewrite H1.
  destruct f; try reflexivity; discriminate H3.
Qed.

(* what the skip path needs besides the nesting budget: the keys of maps are still read as strings
   (and allocated), whatever happens to the member; the values themselves are not stored *)
Fixpoint mp_limits_skip (v : mpv) : Prop :=
  match v with
  | MArr l => fold_right (fun x P => mp_limits_skip x /\ P) True l
  | MMap l => fold_right (fun kv P => (Z.of_nat (length (fst kv)) <= mp_max_alloc /\
                                       mp_limits_skip (snd kv)) /\ P) True l
  | _ => True
  end.

Lemma mp_limits_skip_of_limits : forall v, mp_limits v -> mp_limits_skip v.
Proof.
  fix IH 1. intros v. destruct v as [| | | | | | | |l|l]; cbn [mp_limits mp_limits_skip]; try (intros; exact I).
  - intros [_ H]. induction l as [|x l IHl]; cbn [fold_right] in *; [exact I|].
    destruct H as [Hx Hl]. split; [apply IH; exact Hx|apply IHl; exact Hl].
  - intros [_ H]. induction l as [|[key x] l IHl]; cbn [fold_right fst snd] in *; [exact I|].
    destruct H as [[Hk Hx] Hl]. split; [split; [exact Hk|apply IH; exact Hx]|apply IHl; exact Hl].
Qed.

Definition skip_ok (L : nat) (v : mpv) : Prop := mp_limits_skip v /\ (mpv_depth v <= L)%nat.

Lemma body_skip : forall cf pv' Lz L',
  (Lz = false -> forall v b, MpEnc v b -> skip_ok L' v -> forall d rest k,
     pv' (Some JNull) d (rd_at (b ++ rest) k) = (Ok, JNull, rd_at rest (k + N.of_nat (length b)))) ->
  forall v b, MpEnc v b -> mp_limits_skip v -> (mpv_depth v <= if Lz then 0 else S L')%nat ->
  forall f, keeps_nothing f -> forall rest k,
    mp_body cf pv' Lz (Some f) (rd_at (b ++ rest) k) =
      (Ok, JNull, rd_at rest (k + N.of_nat (length b))).
Proof.
  intros cf pv' Lz L' Hpv v b H Hlim Hd f Hf rest k.
  destruct (is_container v) eqn:Hc.
  2:{ apply (scalar_skip cf pv' Lz (Some f) v b H Hc (kn_value f Hf)). }
  destruct H; try discriminate Hc.
  - (* array *)
    cbn [mp_limits_skip] in Hlim. cbn [mpv_depth] in Hd.
    destruct Lz; [lia|]. specialize (Hpv eq_refl).
    rewrite <- app_assoc. rewrite (arr_hdr_bodyf _ _ _ _ _ _ _ _ H). unfold arr_payload_f.
    rewrite clip_count_app by (apply MpEncs_length; assumption).
    rewrite (kn_element f Hf), (kn_array f Hf).
    rewrite (array_loop_filtered pv' (use_double cf) (skip_ok L') (Some JNull) (fun _ => JNull)) with (bs := bs);
      [| | assumption |].
    + cbn [f_allow truthy]. rewrite reads_app, app_length. reflexivity.
    + intros v0 b0 E0 P0 rest0 k0. apply (Hpv v0 b0 E0 P0).
    + intros x Hx. split; [exact (fold_and_In _ mp_limits_skip l Hlim x Hx)|].
      pose proof (nesting_In _ mpv_depth l x Hx). lia.
  - (* map *)
    cbn [mp_limits_skip] in Hlim. cbn [mpv_depth] in Hd.
    destruct Lz; [lia|]. specialize (Hpv eq_refl).
    rewrite <- app_assoc. rewrite (map_hdr_bodyf _ _ _ _ _ _ _ _ H). unfold map_payload_f.
    rewrite clip_count_app by (apply MpMembers_length; assumption).
    rewrite (kn_object f Hf).
    rewrite (object_loop_filtered pv' (use_double cf) (fun _ => skip_ok L') (Some f) (fun _ _ => JNull)) with (bs := bs);
      [| | assumption |].
    + rewrite reads_app, app_length. reflexivity.
    + intros key v0 b0 E0 P0 rest0 k0. rewrite (kn_member f key Hf). apply (Hpv v0 b0 E0 P0).
    + intros x Hx.
      destruct (fold_and_In _ (fun kv => Z.of_nat (length (fst kv)) <= mp_max_alloc /\ mp_limits_skip (snd kv))
                  l Hlim x Hx) as [Hk Hv].
      split; [exact Hk|]. split; [exact Hv|].
      pose proof (nesting_In _ (fun kv => mpv_depth (snd kv)) l x Hx). cbv beta in *. lia.
Qed.

Theorem mp_skip_gen : forall cf L v b, MpEnc v b -> mp_limits_skip v -> (mpv_depth v <= L)%nat ->
  forall f, keeps_nothing f -> forall dst rest k,
    mp_parse cf L (Some f) dst (rd_at (b ++ rest) k) =
      (Ok, JNull, rd_at rest (k + N.of_nat (length b))).
Proof.
  intros cf. induction L as [|L IH]; intros v b H Hlim Hd f Hf dst rest k; rewrite mp_parse_eq.
  - apply (body_skip cf _ (is_O 0) 0 ltac:(discriminate) v b H Hlim Hd f Hf).
  - refine (body_skip cf _ (is_O (S L)) L _ v b H Hlim Hd f Hf rest k).
    intros _ v' b' H' [Hl' Hd'] d' rest' k'. cbn [pv_of].
    apply (IH v' b' H' Hl' Hd' JNull keeps_nothing_null).
Qed.

(* a value at a position the filter rejects (the entry is null, false, 0, ...; the reader is
   then called without a destination, [dst = false]) is skipped: exactly its bytes are consumed and
   nothing is built.  Strings, bin and ext objects of ANY size are skipped (no allocation); only the
   nesting budget and the size of the keys of maps matter. *)
Theorem mp_discarded_values_are_skipped : forall cf v b, MpEnc v b -> mp_limits_skip v ->
  forall f L dst rest k, f_allow (Some f) = false -> (mpv_depth v <= L)%nat ->
  mp_parse cf L (Some f) dst {| m_rest := b ++ rest; m_reads := k |}
    = (Ok, JNull, {| m_rest := rest; m_reads := (k + N.of_nat (length b))%N |}).
Proof.
  intros cf v b H Hlim f L dst rest k Hf Hd.
  exact (mp_skip_gen cf L v b H Hlim Hd f (not_truthy_keeps_nothing f Hf) dst rest k).
Qed.

(* ------------------------------------------------------------------------------------- *)
(* Part 4 — reading with a filter = projecting the unfiltered value                         *)

(* the filter the reader applies to the elements / to the member [key] of a container read under a
   filter [f] that does not equal true (Filter::operator[]) *)
Definition elem_f (f : jv) : jv := match f with JArr (x :: _) => x | _ => JNull end.
Definition memb_f (f : jv) (key : bytes) : jv := or_star f (obj_member f key).

Lemma f_element_nt : forall f, equals_true f = false -> f_element (Some f) = Some (elem_f f).
Proof. intros f H. cbn [f_element]. rewrite H. reflexivity. Qed.
Lemma f_member_nt : forall f key, equals_true f = false -> f_member (Some f) key = Some (memb_f f key).
Proof. intros f key H. cbn [f_member]. rewrite H. reflexivity. Qed.

(* ---- the projection, equation by equation ---- *)
Fixpoint mpf_pgo (fl ms : list (bytes * jv)) : list (bytes * jv) :=
  match ms with
  | [] => []
  | (k, x) :: ms' =>
      match entry_for fl k with
      | Some e => if truthy e then (k, project e x) :: mpf_pgo fl ms' else mpf_pgo fl ms'
      | None => mpf_pgo fl ms'
      end
  end.

Lemma mpf_project_obj : forall fl ms, project (JObj fl) (JObj ms) = JObj (mpf_pgo fl ms).
Proof.
  intros fl ms. cbn [project equals_true]. f_equal.
  induction ms as [|[k x] ms IH]; [reflexivity|].
  cbn [mpf_pgo]. rewrite <- IH. reflexivity.
Qed.

Lemma mpf_project_true : forall f v, equals_true f = true -> project f v = v.
Proof. intros f v H. destruct v; cbn [project]; rewrite H; reflexivity. Qed.

Lemma mpf_project_arr : forall f vs, equals_true f = false ->
  project f (JArr vs) =
  match f with
  | JArr (e :: _) => if truthy e then JArr (map (project e) vs) else JArr []
  | JArr [] => JArr []
  | _ => JNull
  end.
Proof. intros f vs H. cbn [project]. rewrite H. reflexivity. Qed.

Lemma mpf_project_obj_other : forall f ms, equals_true f = false -> is_obj f = false ->
  project f (JObj ms) = JNull.
Proof. intros f ms H K. cbn [project]. rewrite H. destruct f; try reflexivity. discriminate K. Qed.

Lemma memb_f_entry : forall fl k,
  memb_f (JObj fl) k = match entry_for fl k with Some e => e | None => JNull end.
Proof.
  intros fl k. unfold memb_f, or_star, obj_member, entry_for, star, star_key.
  destruct (assoc_get k fl); reflexivity.
Qed.

Lemma sel_members_pgo : forall fl ms,
  sel_members (Some (JObj fl)) (fun key => project (memb_f (JObj fl) key)) ms = mpf_pgo fl ms.
Proof.
  intros fl ms. induction ms as [|[k x] ms IH]; [reflexivity|].
  cbn [sel_members mpf_pgo]. rewrite IH.
  rewrite (f_member_nt (JObj fl) k eq_refl). cbn [f_allow]. rewrite memb_f_entry.
  destruct (entry_for fl k) as [e|]; reflexivity.
Qed.

Lemma sel_members_none : forall f g ms, (forall key, f_allow (f_member f key) = false) ->
  sel_members f g ms = [].
Proof.
  intros f g ms H. induction ms as [|[k x] ms IH]; [reflexivity|].
  cbn [sel_members]. rewrite H. exact IH.
Qed.

Lemma project_scalar_den : forall ud f v, equals_true f = false -> is_container v = false ->
  project f (mp_den ud v) = JNull.
Proof.
  intros ud f v Hf Hc. destruct v; try discriminate Hc; cbn [mp_den project]; try (rewrite Hf; reflexivity).
  unfold jv_of_double. cbv zeta. destruct ud.
  - destruct (f_eq (sf_of_bits F64 bits) (fconv F64 (fconv F32 (sf_of_bits F64 bits))));
      cbn [project]; rewrite Hf; reflexivity.
  - cbn [project]. rewrite Hf. reflexivity.
Qed.

(* ---- the sizes that matter under a filter: whatever the filter keeps must fit a string node; the
   keys of every map must, kept or not ---- *)
Fixpoint mp_limits_under (f : jv) (v : mpv) {struct v} : Prop :=
  if equals_true f then mp_limits v
  else
    match v with
    | MArr l => fold_right (fun x P => mp_limits_under (elem_f f) x /\ P) True l
    | MMap l => fold_right (fun kv P => (Z.of_nat (length (fst kv)) <= mp_max_alloc /\
                                         mp_limits_under (memb_f f (fst kv)) (snd kv)) /\ P) True l
    | _ => True
    end.

Lemma mp_limits_under_true : forall f v, equals_true f = true -> mp_limits_under f v = mp_limits v.
Proof. intros f v H. destruct v; cbn [mp_limits_under]; rewrite H; reflexivity. Qed.

Lemma mp_limits_under_of_limits : forall v, mp_limits v -> forall f, mp_limits_under f v.
Proof.
  fix IH 1. intros v Hv f. destruct (equals_true f) eqn:Ef.
  { rewrite mp_limits_under_true by exact Ef. exact Hv. }
  destruct v as [| | | | | | | |l|l]; cbn [mp_limits_under]; rewrite Ef; try exact I.
  - cbn [mp_limits] in Hv. destruct Hv as [_ H].
    induction l as [|x l IHl]; cbn [fold_right] in *; [exact I|].
    destruct H as [Hx Hl]. split; [apply IH; exact Hx|apply IHl; exact Hl].
  - cbn [mp_limits] in Hv. destruct Hv as [_ H].
    induction l as [|[key x] l IHl]; cbn [fold_right fst snd] in *; [exact I|].
    destruct H as [[Hk Hx] Hl]. split; [split; [exact Hk|apply IH; exact Hx]|apply IHl; exact Hl].
Qed.

(* under a filter that keeps nothing these are the limits of the skip path *)
Lemma mp_limits_under_nothing : forall v f, keeps_nothing f -> mp_limits_under f v -> mp_limits_skip v.
Proof.
  fix IH 1. intros v f Hf. pose proof Hf as (Ef & Ea & Eo).
  destruct v as [| | | | | | | |l|l]; cbn [mp_limits_under mp_limits_skip]; rewrite Ef; try (intros; exact I).
  - assert (Ee : elem_f f = JNull) by (destruct f; try reflexivity; discriminate Ea). rewrite Ee.
    intros H. induction l as [|x l IHl]; cbn [fold_right] in *; [exact I|].
    destruct H as [Hx Hl]. split; [exact (IH x JNull keeps_nothing_null Hx)|apply IHl; exact Hl].
  - assert (Em : forall key, memb_f f key = JNull) by (intros key; destruct f; try reflexivity; discriminate Eo).
    intros H. induction l as [|[key x] l IHl]; cbn [fold_right fst snd] in *; [exact I|].
    destruct H as [[Hk Hx] Hl]. rewrite Em in Hx.
    split; [split; [exact Hk|exact (IH x JNull keeps_nothing_null Hx)]|apply IHl; exact Hl].
Qed.

Lemma mp_limits_skip_under : forall v f, keeps_nothing f -> mp_limits_skip v -> mp_limits_under f v.
Proof.
  fix IH 1. intros v f Hf. pose proof Hf as (Ef & Ea & Eo).
  destruct v as [| | | | | | | |l|l]; cbn [mp_limits_under mp_limits_skip]; rewrite Ef; try (intros; exact I).
  - assert (Ee : elem_f f = JNull) by (destruct f; try reflexivity; discriminate Ea). rewrite Ee.
    intros H. induction l as [|x l IHl]; cbn [fold_right] in *; [exact I|].
    destruct H as [Hx Hl]. split; [exact (IH x JNull keeps_nothing_null Hx)|apply IHl; exact Hl].
  - assert (Em : forall key, memb_f f key = JNull) by (intros key; destruct f; try reflexivity; discriminate Eo).
    intros H. induction l as [|[key x] l IHl]; cbn [fold_right fst snd] in *; [exact I|].
    destruct H as [[Hk Hx] Hl]. rewrite Em.
    split; [split; [exact Hk|exact (IH x JNull keeps_nothing_null Hx)]|apply IHl; exact Hl].
Qed.

Definition under_ok (L : nat) (f : jv) (v : mpv) : Prop := mp_limits_under f v /\ (mpv_depth v <= L)%nat.

Lemma body_filtered : forall cf pv' Lz L',
  (Lz = false -> forall v b, MpEnc v b -> forall f, under_ok L' f v -> forall d rest k,
     pv' (Some f) d (rd_at (b ++ rest) k) =
       (Ok, project f (mp_den (use_double cf) v), rd_at rest (k + N.of_nat (length b)))) ->
  forall v b, MpEnc v b -> forall f, equals_true f = false -> mp_limits_under f v ->
  (mpv_depth v <= if Lz then 0 else S L')%nat ->
  forall rest k,
    mp_body cf pv' Lz (Some f) (rd_at (b ++ rest) k) =
      (Ok, project f (mp_den (use_double cf) v), rd_at rest (k + N.of_nat (length b))).
Proof.
  intros cf pv' Lz L' Hpv v b H f Ef Hlim Hd rest k.
  destruct (is_container v) eqn:Hc.
  2:{ rewrite (project_scalar_den _ f v Ef Hc). apply (scalar_skip cf pv' Lz (Some f) v b H Hc Ef). }
  destruct H; try discriminate Hc.
  - (* array *)
    cbn [mp_limits_under] in Hlim. rewrite Ef in Hlim. cbn [mpv_depth] in Hd.
    destruct Lz; [lia|]. specialize (Hpv eq_refl).
    rewrite <- app_assoc. rewrite (arr_hdr_bodyf _ _ _ _ _ _ _ _ H). unfold arr_payload_f.
    rewrite clip_count_app by (apply MpEncs_length; assumption).
    rewrite (f_element_nt f Ef).
    rewrite (array_loop_filtered pv' (use_double cf) (under_ok L' (elem_f f)) (Some (elem_f f))
               (project (elem_f f))) with (bs := bs); [| | assumption |].
    + cbn [mp_den]. rewrite (mpf_project_arr f _ Ef). cbn [f_allow f_allow_array]. rewrite Ef. cbn [orb app].
      rewrite reads_app, app_length.
      destruct f as [| | | | | | |[|e fl]|]; cbn [is_arr elem_f truthy]; try reflexivity.
      destruct (truthy e); reflexivity.
    + intros v0 b0 E0 P0 rest0 k0. apply (Hpv v0 b0 E0 (elem_f f) P0).
    + intros x Hx. split; [exact (fold_and_In _ (mp_limits_under (elem_f f)) l Hlim x Hx)|].
      pose proof (nesting_In _ mpv_depth l x Hx). lia.
  - (* map *)
    cbn [mp_limits_under] in Hlim. rewrite Ef in Hlim. cbn [mpv_depth] in Hd.
    destruct Lz; [lia|]. specialize (Hpv eq_refl).
    rewrite <- app_assoc. rewrite (map_hdr_bodyf _ _ _ _ _ _ _ _ H). unfold map_payload_f.
    rewrite clip_count_app by (apply MpMembers_length; assumption).
    rewrite (object_loop_filtered pv' (use_double cf)
               (fun key => under_ok L' (memb_f f key)) (Some f) (fun key => project (memb_f f key)))
      with (bs := bs); [| | assumption |].
    + cbn [mp_den app]. rewrite reads_app, app_length. cbn [f_allow_object]. rewrite Ef. cbn [orb].
      destruct (is_obj f) eqn:Eo.
      * destruct f; try discriminate Eo. rewrite mpf_project_obj, sel_members_pgo. reflexivity.
      * rewrite (mpf_project_obj_other f _ Ef Eo). reflexivity.
    + intros key v0 b0 E0 P0 rest0 k0. rewrite (f_member_nt f key Ef).
      apply (Hpv v0 b0 E0 (memb_f f key) P0).
    + intros x Hx.
      destruct (fold_and_In _ (fun kv => Z.of_nat (length (fst kv)) <= mp_max_alloc /\
                                         mp_limits_under (memb_f f (fst kv)) (snd kv))
                  l Hlim x Hx) as [Hk Hv].
      split; [exact Hk|]. split; [exact Hv|].
      pose proof (nesting_In _ (fun kv => mpv_depth (snd kv)) l x Hx). cbv beta in *. lia.
Qed.

(* in the model the admission decisions are all taken from the filter; the destination flag only
   mirrors `f_allow` of the position and does not change the result *)
Lemma mp_parse_dst : forall cf L f d1 d2 r, mp_parse cf L f d1 r = mp_parse cf L f d2 r.
Proof. intros cf L f d1 d2 r. rewrite !mp_parse_eq. reflexivity. Qed.

(* the general statement: the sizes only have to fit where the filter keeps something *)
Theorem mp_filtered_gen : forall cf L v b, MpEnc v b -> forall f, mp_limits_under f v ->
  (mpv_depth v <= L)%nat -> forall dst rest k,
    mp_parse cf L (Some f) dst (rd_at (b ++ rest) k) =
      (Ok, project f (mp_den (use_double cf) v), rd_at rest (k + N.of_nat (length b))).
Proof.
  intros cf. induction L as [|L IH]; intros v b H f Hlim Hd dst rest k;
    (destruct (equals_true f) eqn:Ef;
     [ rewrite (mp_filter_equals_true_identity cf f Ef), (mpf_project_true f _ Ef);
       rewrite (mp_limits_under_true f v Ef) in Hlim; rewrite (mp_parse_dst cf _ None dst true);
       apply mp_complete_gen; assumption
     | rewrite mp_parse_eq ]).
  - exact (body_filtered cf _ (is_O 0) 0 ltac:(discriminate) v b H f Ef Hlim Hd rest k).
  - refine (body_filtered cf _ (is_O (S L)) L _ v b H f Ef Hlim Hd rest k).
    intros _ v' b' H' f' [Hl' Hd'] d' rest' k'. cbn [pv_of].
    exact (IH v' b' H' f' Hl' Hd' d' rest' k').
Qed.

(* for EVERY legal encoding and EVERY filter document, the filtered reader consumes exactly the
   encoding and yields the projection of what the unfiltered reader yields *)
Theorem mp_filtered_is_projection : forall cf v b, MpEnc v b -> mp_limits v -> forall f L rest k,
  (mpv_depth v <= L)%nat ->
  mp_parse cf L (Some f) true {| m_rest := b ++ rest; m_reads := k |}
    = (Ok, project f (mp_den (use_double cf) v), {| m_rest := rest; m_reads := (k + N.of_nat (length b))%N |}).
Proof.
  intros cf v b H Hlim f L rest k Hd.
  exact (mp_filtered_gen cf L v b H f (mp_limits_under_of_limits v Hlim f) Hd true rest k).
Qed.

(* the same with the weakest size hypothesis: only what the filter keeps (and every key) has to fit *)
Theorem mp_filtered_is_projection_under : forall cf v b f, MpEnc v b -> mp_limits_under f v ->
  forall L dst rest k, (mpv_depth v <= L)%nat ->
  mp_parse cf L (Some f) dst {| m_rest := b ++ rest; m_reads := k |}
    = (Ok, project f (mp_den (use_double cf) v), {| m_rest := rest; m_reads := (k + N.of_nat (length b))%N |}).
Proof.
  intros cf v b f H Hlim L dst rest k Hd. exact (mp_filtered_gen cf L v b H f Hlim Hd dst rest k).
Qed.

Corollary mp_run_filtered_is_projection : forall cf v b, MpEnc v b -> mp_limits v -> forall f L rest,
  (mpv_depth v <= L)%nat ->
  mp_run cf (Some f) L (b ++ rest) =
    {| mp_err := Ok; mp_doc := project f (mp_den (use_double cf) v);
       mp_rd := {| m_rest := rest; m_reads := N.of_nat (length b) |} |}.
Proof.
  intros cf v b H Hlim f L rest Hd. unfold mp_run.
  rewrite (mp_filtered_is_projection cf v b H Hlim f L rest 0%N Hd). rewrite N.add_0_l.
  pose proof (MpEnc_nonempty v b H) as Hne.
  destruct b as [|c t]; [cbn in Hne; lia|]. reflexivity.
Qed.

(* ------------------------------------------------------------------------------------- *)
(* Examples (default configuration, nesting limit 10, one trailing byte 0xC0 left unread)    *)

Section Examples.
  Local Open Scope N_scope.

  (* {"a":1,"b":2,"c":[3,4],"d":5} under {"a":true,"b":false,"*":[true]}:
     "a" kept whole, "b" dropped, "c" and "d" fall under "*": the array is kept, the integer is not
     an array and becomes null *)
  Definition ex_map_in : bytes :=
    [0x84; 0xA1; 0x61; 0x01; 0xA1; 0x62; 0x02; 0xA1; 0x63; 0x92; 0x03; 0x04; 0xA1; 0x64; 0x05].
  Definition ex_map_f : jv := JObj [([97], JBool true); ([98], JBool false); ([42], JArr [JBool true])].

  Example ex_map_star :
    mp_run default_cfg (Some ex_map_f) 10 (ex_map_in ++ [0xC0]) =
      {| mp_err := Ok;
         mp_doc := JObj [([97], JInt 1); ([99], JArr [JInt 3; JInt 4]); ([100], JNull)];
         mp_rd := {| m_rest := [0xC0]; m_reads := 15 |} |}.
  Proof. vm_compute. reflexivity. Qed.

  Example ex_map_star_project :
    project ex_map_f (mp_doc (mp_run default_cfg None 10 ex_map_in)) =
      JObj [([97], JInt 1); ([99], JArr [JInt 3; JInt 4]); ([100], JNull)].
  Proof. vm_compute. reflexivity. Qed.

  (* [{"k":1,"z":2}, 7, {"z":3}] under [{"k":true}] *)
  Definition ex_arr_in : bytes :=
    [0x93; 0x82; 0xA1; 0x6B; 0x01; 0xA1; 0x7A; 0x02; 0x07; 0x81; 0xA1; 0x7A; 0x03].
  Definition ex_arr_f : jv := JArr [JObj [([107], JBool true)]].

  Example ex_array_filter :
    mp_run default_cfg (Some ex_arr_f) 10 (ex_arr_in ++ [0xC0]) =
      {| mp_err := Ok;
         mp_doc := JArr [JObj [([107], JInt 1)]; JNull; JObj []];
         mp_rd := {| m_rest := [0xC0]; m_reads := 13 |} |}.
  Proof. vm_compute. reflexivity. Qed.

  Example ex_array_filter_project :
    project ex_arr_f (mp_doc (mp_run default_cfg None 10 ex_arr_in)) =
      JArr [JObj [([107], JInt 1)]; JNull; JObj []].
  Proof. vm_compute. reflexivity. Qed.

  (* shape mismatch: the array [1,2] under the object filter {"a":true}: skipped whole, null *)
  Example ex_shape_mismatch :
    mp_run default_cfg (Some (JObj [([97], JBool true)])) 10 ([0x92; 0x01; 0x02] ++ [0xC0]) =
      {| mp_err := Ok; mp_doc := JNull; mp_rd := {| m_rest := [0xC0]; m_reads := 3 |} |}.
  Proof. vm_compute. reflexivity. Qed.

  (* ext / bin under a filter: {"e": fixext1(5, 09), "f": bin8 0102, "g": bin8 07} under {"e":true,"g":2}:
     "e" is kept verbatim, "f" is skipped, "g" is kept (2 is true-ish) but 2 is not `true`: null *)
  Definition ex_raw_in : bytes :=
    [0x83; 0xA1; 0x65; 0xD4; 0x05; 0x09; 0xA1; 0x66; 0xC4; 0x02; 0x01; 0x02; 0xA1; 0x67; 0xC4; 0x01; 0x07].

  Example ex_ext_bin :
    mp_run default_cfg (Some (JObj [([101], JBool true); ([103], JInt 2)])) 10 (ex_raw_in ++ [0xC0]) =
      {| mp_err := Ok;
         mp_doc := JObj [([101], JRaw [0xD4; 0x05; 0x09]); ([103], JNull)];
         mp_rd := {| m_rest := [0xC0]; m_reads := 17 |} |}.
  Proof. vm_compute. reflexivity. Qed.

  (* the integer 1 is a filter that equals true (identity); the integer 2 keeps nothing *)
  Example ex_filter_one :
    mp_run default_cfg (Some (JInt 1)) 10 (ex_raw_in ++ [0xC0]) = mp_run default_cfg None 10 (ex_raw_in ++ [0xC0]).
  Proof. vm_compute. reflexivity. Qed.

  Example ex_filter_two :
    mp_run default_cfg (Some (JInt 2)) 10 (ex_raw_in ++ [0xC0]) =
      {| mp_err := Ok; mp_doc := JNull; mp_rd := {| m_rest := [0xC0]; m_reads := 17 |} |}.
  Proof. vm_compute. reflexivity. Qed.

  (* {"a":1,"b":<str 32 of 65536 bytes>}: too large to be stored, so the unfiltered reader fails with
     NoMemory; under {"a":true} the string is skipped and the document is read *)
  Definition ex_big_in : bytes :=
    [0x82; 0xA1; 0x61; 0x01; 0xA1; 0x62; 0xDB; 0; 1; 0; 0] ++ repeat 0x78 (N.to_nat 65536).

  Example ex_big_string_skipped :
    mp_run default_cfg (Some (JObj [([97], JBool true)])) 10 (ex_big_in ++ [0xC0]) =
      {| mp_err := Ok; mp_doc := JObj [([97], JInt 1)];
         mp_rd := {| m_rest := [0xC0]; m_reads := 65547 |} |}.
  Proof. vm_compute. reflexivity. Qed.

  Example ex_big_string_unfiltered :
    mp_err (mp_run default_cfg None 10 (ex_big_in ++ [0xC0])) = NoMemory.
  Proof. vm_compute. reflexivity. Qed.

  (* {<key of 65536 bytes>: 1}: the key of a member is read (and allocated) before the filter is
     consulted, so its size matters even when the member is dropped *)
  Definition ex_bigkey_in : bytes := [0x81; 0xDB; 0; 1; 0; 0] ++ repeat 0x78 (N.to_nat 65536) ++ [0x01].

  Example ex_big_key_dropped_member :
    mp_err (mp_run default_cfg (Some JNull) 10 (ex_bigkey_in ++ [0xC0])) = NoMemory.
  Proof. vm_compute. reflexivity. Qed.

  (* the destination flag of the model is never consulted: every decision comes from the filter (the
     loops pass [f_allow] of the position as the flag, so flag = false exactly when the filter of the
     position is not true-ish, which is the hypothesis of mp_discarded_values_are_skipped) *)
  Example ex_dst_flag_ignored :
    mp_parse default_cfg 0 None false {| m_rest := [0x01]; m_reads := 0 |} =
      (Ok, JInt 1, {| m_rest := []; m_reads := 1 |}).
  Proof. vm_compute. reflexivity. Qed.
End Examples.
