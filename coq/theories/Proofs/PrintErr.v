(* PrintErr.v — accuracy of TextFormatter::writeFloat (property C12, printing side).
   Real-number reading (Flocq [SF2R radix2]) of [normalize] and [decompose_float] of Model/JsonSer.v.

   Notation (from FloatErr.v): [p10 e] = 10^e, [uro f] = 2^-prec f,
   [within u n v X] : (1-u)^n X <= v <= (1+u)^n X;  here [sfr] = [SF2R radix2], [u64] = [uro F64].

   Main results
     P0  bridges: SFsub_Bminus, fsub_exact, fmul_any, fcmp_correct (f_ge_R, f_lt_R, f_le_R),
         f_trunc_floor, fconv64_id, fconv64_of32
     P1  normalize64_spec: for a positive finite double x in [1e-300, 1e300], normalize F64 x = (y, e) with
         either  y = x (1+d)^k 10^-e, k <= 18 roundings, (1-u)^18 <= y <= 10 (1+u)^18   [norm_ok]
         or      (y, e) = (x, 0) and x < 1e7
         (normalize_up_ok / normalize_down_ok: the loop invariants IU / ID)
     P2  decimal_core (integral part by truncation, remainder * 10^p rounded half up: |dec - rem*10^p| <= 1/2 + 1e-6),
         reduce_places_spec, strip_zeros_spec, decompose_core
     P3  decompose_full_gen / decompose_accuracy_gen (P decimal places, 6 <= P <= 9, error 10^-P * max(1,x)),
         decompose_accuracy_double (P = 9, 1e-9), decompose_accuracy_float (P = 6, 1e-6, x a widened binary32)
         where  parts_value p = (integral + decimal / 10^places) * 10^exponent,  and parts_wf
     P4  the text: lit_text / lit_value (sign, integer digits, fraction digits, exponent digits and what they
         spell), body_text_lit, write_float_body, write_float_accuracy_gen, write_f64_accuracy,
         write_f32_accuracy, ser_double_accuracy, ser_float_accuracy.
   The constants 1e-9 / 1e-6 of the property hold as stated (no counterexample); in the normalized
   branches the bound is even relative: 10^-P * x. *)
From Coq Require Import ZArith Reals Lia Lra List Bool.
From Flocq Require Import Core BinarySingleNaN Relative.
From Coq Require Import Floats.SpecFloat.
From AJ Require Import Model.Base Model.FloatModel Model.Value Model.NumParse Model.JsonSer
  Proofs.NumProofs Proofs.FloatErr.
Import ListNotations.
Local Open Scope Z_scope.

(* ------------------------------------------------------------------------------------------ *)
(* Part 0 — more bridges SpecFloat <-> Flocq: subtraction, comparison, normalisation           *)
(* ------------------------------------------------------------------------------------------ *)

Section Bridge2.
Variable prec emax : Z.
Context (prec_gt_0_ : Prec_gt_0 prec).
Context (prec_lt_emax_ : Prec_lt_emax prec emax).
Notation fexp := (FLT_exp (SpecFloat.emin prec emax) prec).
Notation rnd := (round radix2 fexp ZnearestE).

Lemma SFsub_Bminus : forall x y,
  SFsub prec emax (B2SF x) (B2SF y)
  = B2SF (Bminus (prec:=prec) (emax:=emax) mode_NE x y).
Proof.
  intros [sx|sx| |sx mx ex Hx] [sy|sy| |sy my ey Hy]; try reflexivity.
  - cbn. destruct (Bool.eqb sx (negb sy)); reflexivity.
  - cbn. destruct (Bool.eqb sx (negb sy)); reflexivity.
  - cbn [Bminus B2SF SFsub].
    rewrite (bnorm_equiv prec emax prec_gt_0_ prec_lt_emax_).
    unfold Fplus_naive. f_equal. f_equal.
    destruct sy; cbn [negb cond_Zopp]; lia.
Qed.

Lemma SFsub_correct : forall x y,
  valid_binary prec emax x = true -> valid_binary prec emax y = true ->
  FloatModel.is_finite x = true -> FloatModel.is_finite y = true ->
  (Rabs (rnd (SF2R radix2 x - SF2R radix2 y)) < bpow radix2 emax)%R ->
  SF2R radix2 (SFsub prec emax x y) = rnd (SF2R radix2 x - SF2R radix2 y) /\
  valid_binary prec emax (SFsub prec emax x y) = true /\
  FloatModel.is_finite (SFsub prec emax x y) = true.
Proof.
  intros x y Hx Hy Fx Fy Hlt.
  replace (SFsub prec emax x y)
    with (B2SF (Bminus (prec:=prec) (emax:=emax) mode_NE (SF2B x Hx) (SF2B y Hy)))
    by (rewrite <- SFsub_Bminus, !B2SF_SF2B; reflexivity).
  assert (Fx' : BinarySingleNaN.is_finite (SF2B x Hx) = true)
    by (rewrite is_finite_SF2B, is_finite_SF_eq; exact Fx).
  assert (Fy' : BinarySingleNaN.is_finite (SF2B y Hy) = true)
    by (rewrite is_finite_SF2B, is_finite_SF_eq; exact Fy).
  generalize (Bminus_correct prec emax prec_gt_0_ prec_lt_emax_ mode_NE (SF2B x Hx) (SF2B y Hy) Fx' Fy').
  rewrite !B2R_SF2B. cbn [round_mode].
  rewrite Rlt_bool_true by exact Hlt.
  intros [H1 [H2 _]].
  rewrite SF2R_B2SF. split; [exact H1|]. split; [apply valid_binary_B2SF|].
  rewrite <- is_finite_SF_eq, is_finite_SF_B2SF. exact H2.
Qed.

Lemma SFcompare_correct : forall x y,
  valid_binary prec emax x = true -> valid_binary prec emax y = true ->
  FloatModel.is_finite x = true -> FloatModel.is_finite y = true ->
  SFcompare x y = Some (Rcompare (SF2R radix2 x) (SF2R radix2 y)).
Proof.
  intros x y Hx Hy Fx Fy.
  assert (Fx' : BinarySingleNaN.is_finite (SF2B x Hx) = true)
    by (rewrite is_finite_SF2B, is_finite_SF_eq; exact Fx).
  assert (Fy' : BinarySingleNaN.is_finite (SF2B y Hy) = true)
    by (rewrite is_finite_SF2B, is_finite_SF_eq; exact Fy).
  generalize (Bcompare_correct prec emax (SF2B x Hx) (SF2B y Hy) Fx' Fy').
  unfold Bcompare. rewrite !B2SF_SF2B, !B2R_SF2B. auto.
Qed.

(* a valid finite number is in the format *)
Lemma valid_generic : forall x, valid_binary prec emax x = true ->
  generic_format radix2 fexp (SF2R radix2 x).
Proof.
  intros x Hx. rewrite <- (B2R_SF2B prec emax x Hx). apply generic_format_B2R.
Qed.

Lemma valid_lt_emax : forall x, valid_binary prec emax x = true ->
  (Rabs (SF2R radix2 x) < bpow radix2 emax)%R.
Proof.
  intros x Hx. rewrite <- (B2R_SF2B prec emax x Hx). apply abs_B2R_lt_emax.
Qed.

(* binary_normalize of any (m, e): correctly rounded *)
Lemma SFnorm_correct_gen : forall m e sz,
  (Rabs (rnd (F2R (Float radix2 m e))) < bpow radix2 emax)%R ->
  SF2R radix2 (SpecFloat.binary_normalize prec emax m e sz) = rnd (F2R (Float radix2 m e)) /\
  valid_binary prec emax (SpecFloat.binary_normalize prec emax m e sz) = true /\
  FloatModel.is_finite (SpecFloat.binary_normalize prec emax m e sz) = true.
Proof.
  intros m e sz Hlt.
  rewrite (bnorm_equiv prec emax prec_gt_0_ prec_lt_emax_).
  generalize (binary_normalize_correct prec emax prec_gt_0_ prec_lt_emax_ mode_NE m e sz).
  cbn [round_mode].
  rewrite Rlt_bool_true by exact Hlt.
  intros [H1 [H2 _]].
  rewrite SF2R_B2SF. split; [exact H1|]. split; [apply valid_binary_B2SF|].
  rewrite <- is_finite_SF_eq, is_finite_SF_B2SF. exact H2.
Qed.

End Bridge2.

(* ------------------------------------------------------------------------------------------ *)
(* Part 0b — the same for the two formats                                                       *)
(* ------------------------------------------------------------------------------------------ *)

Notation sfr := (SF2R radix2).

Lemma rnd_of_generic : forall f x, good_fmt f ->
  generic_format radix2 (FLT_exp (femin f) (prec f)) x -> rnd_of f x = x.
Proof.
  intros f x [H0 _] G. unfold rnd_of. apply round_generic; auto with typeclass_instances.
Qed.

Lemma valid_format : forall f x, good_fmt f -> valid f x ->
  generic_format radix2 (FLT_exp (femin f) (prec f)) (sfr x).
Proof. intros f x [H0 H1] V. exact (valid_generic (prec f) (emax f) x V). Qed.

Lemma valid_lt_max : forall f x, good_fmt f -> valid f x -> (Rabs (sfr x) < bpow radix2 (emax f))%R.
Proof. intros f x [H0 H1] V. exact (valid_lt_emax (prec f) (emax f) x V). Qed.

(* subtraction whose exact result is representable *)
Lemma fsub_exact : forall f x y, good_fmt f -> valid f x -> valid f y ->
  FloatModel.is_finite x = true -> FloatModel.is_finite y = true ->
  generic_format radix2 (FLT_exp (femin f) (prec f)) (sfr x - sfr y) ->
  (Rabs (sfr x - sfr y) < bpow radix2 (emax f))%R ->
  sfr (fsub f x y) = (sfr x - sfr y)%R /\ valid f (fsub f x y) /\
  FloatModel.is_finite (fsub f x y) = true.
Proof.
  intros f x y Hf Vx Vy Fx Fy G Hlt. pose proof Hf as [H0 H1].
  assert (R : rnd_of f (sfr x - sfr y) = (sfr x - sfr y)%R) by (apply rnd_of_generic; assumption).
  destruct (SFsub_correct (prec f) (emax f) H0 H1 x y Vx Vy Fx Fy) as [E [V F]].
  - fold (femin f). fold (rnd_of f (sfr x - sfr y)). rewrite R. exact Hlt.
  - fold (femin f) in E. fold (rnd_of f (sfr x - sfr y)) in E. rewrite R in E.
    split; [exact E|]. split; assumption.
Qed.

(* multiplication: correctly rounded as soon as the rounded product does not overflow *)
Lemma fmul_any : forall f x y, good_fmt f -> valid f x -> valid f y ->
  FloatModel.is_finite x = true -> FloatModel.is_finite y = true ->
  (Rabs (rnd_of f (sfr x * sfr y)) < bpow radix2 (emax f))%R ->
  sfr (fmul f x y) = rnd_of f (sfr x * sfr y) /\ valid f (fmul f x y) /\
  FloatModel.is_finite (fmul f x y) = true.
Proof.
  intros f x y [H0 H1] Vx Vy Fx Fy Hlt.
  exact (SFmul_correct (prec f) (emax f) H0 H1 x y Vx Vy Fx Fy Hlt).
Qed.

(* comparisons *)
Lemma fcmp_correct : forall f x y, good_fmt f -> valid f x -> valid f y ->
  FloatModel.is_finite x = true -> FloatModel.is_finite y = true ->
  SFcompare x y = Some (Rcompare (sfr x) (sfr y)).
Proof.
  intros f x y [H0 H1] Vx Vy Fx Fy.
  exact (SFcompare_correct (prec f) (emax f) x y Vx Vy Fx Fy).
Qed.

Lemma f_ge_R : forall f x y, good_fmt f -> valid f x -> valid f y ->
  FloatModel.is_finite x = true -> FloatModel.is_finite y = true ->
  (f_ge x y = true -> (sfr y <= sfr x)%R) /\ (f_ge x y = false -> (sfr x < sfr y)%R).
Proof.
  intros f x y Hf Vx Vy Fx Fy. unfold f_ge. rewrite (fcmp_correct f x y Hf Vx Vy Fx Fy).
  destruct (Rcompare_spec (sfr x) (sfr y)) as [H|H|H]; split; intros E; try discriminate; lra.
Qed.

Lemma f_lt_R : forall f x y, good_fmt f -> valid f x -> valid f y ->
  FloatModel.is_finite x = true -> FloatModel.is_finite y = true ->
  (f_lt x y = true -> (sfr x < sfr y)%R) /\ (f_lt x y = false -> (sfr y <= sfr x)%R).
Proof.
  intros f x y Hf Vx Vy Fx Fy. unfold f_lt. rewrite (fcmp_correct f x y Hf Vx Vy Fx Fy).
  destruct (Rcompare_spec (sfr x) (sfr y)) as [H|H|H]; split; intros E; try discriminate; lra.
Qed.

Lemma f_le_R : forall f x y, good_fmt f -> valid f x -> valid f y ->
  FloatModel.is_finite x = true -> FloatModel.is_finite y = true ->
  (f_le x y = true -> (sfr x <= sfr y)%R) /\ (f_le x y = false -> (sfr y < sfr x)%R).
Proof.
  intros f x y Hf Vx Vy Fx Fy. unfold f_le. rewrite (fcmp_correct f x y Hf Vx Vy Fx Fy).
  destruct (Rcompare_spec (sfr x) (sfr y)) as [H|H|H]; split; intros E; try discriminate; lra.
Qed.

(* truncation of a non-negative finite number *)
Lemma f_trunc_floor : forall x, FloatModel.is_finite x = true -> (0 <= sfr x)%R ->
  f_trunc x = Zfloor (sfr x).
Proof.
  intros [s|s| |s m e] Fx Hx; try discriminate.
  - cbn. rewrite Zfloor_IZR. reflexivity.
  - destruct s.
    + exfalso. cbn [SF2R cond_Zopp] in Hx.
      assert (N : (F2R (Float radix2 (Z.neg m) e) < 0)%R) by (apply F2R_lt_0; reflexivity).
      change (- Z.pos m) with (Z.neg m) in Hx. lra.
    + cbn [f_trunc SF2R cond_Zopp]. destruct (0 <=? e) eqn:E.
      * apply Z.leb_le in E. unfold F2R; cbn [Fnum Fexp].
        rewrite <- (IZR_Zpower radix2) by exact E. rewrite <- mult_IZR, Zfloor_IZR. reflexivity.
      * apply Z.leb_gt in E. unfold F2R; cbn [Fnum Fexp].
        replace e with (- (- e)) at 2 by ring. rewrite bpow_opp.
        rewrite <- (IZR_Zpower radix2) by lia.
        change (IZR (Z.pos m) * / IZR (radix2 ^ - e))%R with (IZR (Z.pos m) / IZR (radix2 ^ - e))%R.
        rewrite Zfloor_div; [reflexivity|].
        change (radix2 : Z) with 2. apply Z.pow_nonzero; lia.
Qed.

(* conversion to a format in which the value is representable is exact *)
Lemma fconv_exact : forall f x, good_fmt f -> FloatModel.is_finite x = true ->
  generic_format radix2 (FLT_exp (femin f) (prec f)) (sfr x) ->
  (Rabs (sfr x) < bpow radix2 (emax f))%R ->
  sfr (fconv f x) = sfr x /\ valid f (fconv f x) /\ FloatModel.is_finite (fconv f x) = true.
Proof.
  intros f x Hf Fx G Hlt. pose proof Hf as [H0 H1].
  destruct x as [s|s| |s m e]; try discriminate.
  - cbn [fconv]. split; [reflexivity|]. split; reflexivity.
  - cbn [fconv].
    assert (E : F2R (Float radix2 (if s then Z.neg m else Z.pos m) e) = sfr (S754_finite s m e)).
    { cbn [SF2R]. destruct s; reflexivity. }
    destruct (SFnorm_correct_gen (prec f) (emax f) H0 H1 (if s then Z.neg m else Z.pos m) e s)
      as [A [B C]].
    + rewrite E. fold (femin f). fold (rnd_of f (sfr (S754_finite s m e))).
      rewrite rnd_of_generic by assumption. exact Hlt.
    + rewrite E in A. fold (femin f) in A. fold (rnd_of f (sfr (S754_finite s m e))) in A.
      rewrite rnd_of_generic in A by assumption.
      split; [exact A|]. split; assumption.
Qed.

Lemma fconv64_id : forall x, valid F64 x -> FloatModel.is_finite x = true ->
  sfr (fconv F64 x) = sfr x /\ valid F64 (fconv F64 x) /\ FloatModel.is_finite (fconv F64 x) = true.
Proof.
  intros x V Fx. apply fconv_exact; [exact good_F64 | exact Fx | |].
  - apply valid_format; [exact good_F64 | exact V].
  - apply valid_lt_max; [exact good_F64 | exact V].
Qed.

Lemma fconv64_of32 : forall v, valid F32 v -> FloatModel.is_finite v = true ->
  sfr (fconv F64 v) = sfr v /\ valid F64 (fconv F64 v) /\ FloatModel.is_finite (fconv F64 v) = true.
Proof.
  intros v V Fv. apply fconv_exact; [exact good_F64 | exact Fv | |].
  - destruct v as [s|s| |s m e]; try discriminate.
    + cbn. apply generic_format_0.
    + apply generic_format_FLT.
      apply FLT_spec with (Float radix2 (cond_Zopp s (Z.pos m)) e).
      * reflexivity.
      * cbn [Fnum]. rewrite abs_cond_Zopp.
        pose proof (valid_mant_bounded F32 _ (proj1 good_F32) V) as MB. cbn [mant_bounded] in MB.
        change (prec F32) with 24 in MB. change (prec F64) with 53. cbn [Z.abs].
        change (radix2 : Z) with 2. assert (2 ^ 24 < 2 ^ 53) by (vm_compute; reflexivity). lia.
      * cbn [Fexp]. pose proof (valid_emin F32 s m e V) as E.
        change (femin F32) with (-149) in E. change (femin F64) with (-1074). lia.
  - apply Rlt_trans with (bpow radix2 (emax F32)).
    + apply valid_lt_max; [exact good_F32 | exact V].
    + apply bpow_lt. vm_compute. reflexivity.
Qed.

(* ------------------------------------------------------------------------------------------ *)
(* Part 1 — normalize                                                                           *)
(* ------------------------------------------------------------------------------------------ *)

(* --- real-number steps --- *)

Lemma Rabs_rel_inv : forall u v B, (0 <= B)%R -> (Rabs (v - B) <= u * B)%R ->
  ((1 - u) * B <= v <= (1 + u) * B)%R.
Proof. intros u v B HB H. apply Rabs_le_inv in H. lra. Qed.

Lemma Rabs_d_inv : forall u d, (Rabs d <= u)%R -> (1 - u <= 1 + d <= 1 + u)%R.
Proof. intros u d H. apply Rabs_le_inv in H. lra. Qed.

Lemma mul3_le : forall a b c a' b' c' : R, (0 <= a <= a')%R -> (0 <= b <= b')%R -> (0 <= c <= c')%R ->
  (a * b * c <= a' * b' * c')%R.
Proof.
  intros a b c a' b' c' Ha Hb Hc.
  apply Rmult_le_compat; [apply Rmult_le_pos; lra | lra | | lra].
  apply Rmult_le_compat; lra.
Qed.

(* normalize_up, the branch that multiplies *)
Lemma up_mul_bounds : forall u Pi Qi A B C d W,
  (0 <= u <= / 2)%R -> (0 < Pi)%R -> (Pi * Qi = 1)%R ->
  (Rabs (B - Pi) <= u * Pi)%R -> (Rabs (C - Qi) <= u * Qi)%R -> (Rabs d <= u)%R ->
  (B <= A)%R -> (A <= Pi * Pi * W)%R -> (0 <= W)%R ->
  ((1 - u) ^ 3 <= A * C * (1 + d) <= Pi * (W * (1 + u) ^ 2))%R.
Proof.
  intros u Pi Qi A B C d W Hu HPi HPQ HB HC Hd HBA HA HW.
  assert (HQi : (0 < Qi)%R).
  { destruct (Rle_lt_dec Qi 0) as [N|N]; [|exact N]. exfalso. nra. }
  apply Rabs_rel_inv in HB; [|lra]. apply Rabs_rel_inv in HC; [|lra]. apply Rabs_d_inv in Hd.
  split.
  - replace ((1 - u) ^ 3)%R with (((1 - u) * Pi) * ((1 - u) * Qi) * (1 - u))%R
      by (cbn [pow]; transitivity ((1 - u) * (1 - u) * (1 - u) * (Pi * Qi))%R; [ring | rewrite HPQ; ring]).
    apply mul3_le; split; try lra; apply Rmult_le_pos; lra.
  - replace (Pi * (W * (1 + u) ^ 2))%R with ((Pi * Pi * W) * ((1 + u) * Qi) * (1 + u))%R
      by (cbn [pow]; transitivity ((Pi * Qi) * (Pi * W * (1 + u) * (1 + u)))%R; [ring | rewrite HPQ; ring]).
    assert (0 <= A)%R by (apply Rle_trans with (2 := HBA); apply Rle_trans with (2 := proj1 HB);
                          apply Rmult_le_pos; lra).
    apply mul3_le; split; try lra. apply Rle_trans with (2 := proj1 HC). apply Rmult_le_pos; lra.
Qed.

(* normalize_down, the branch that multiplies; T is the computed threshold 10 * neg[i] *)
Lemma down_mul_bounds : forall u Pi Qi A B T d L,
  (0 <= u <= / 2)%R -> (0 < Pi)%R -> (Pi * Qi = 1)%R ->
  (Rabs (B - Pi) <= u * Pi)%R -> (T <= 10 * Qi * (1 + u) ^ 2)%R -> (Rabs d <= u)%R ->
  (A < T)%R -> (L <= A)%R -> (0 <= L)%R ->
  (L * Pi * (1 - u) ^ 2 <= A * B * (1 + d) <= 10 * (1 + u) ^ 4)%R.
Proof.
  intros u Pi Qi A B T d L Hu HPi HPQ HB HT Hd HAT HL HL0.
  assert (HQi : (0 < Qi)%R).
  { destruct (Rle_lt_dec Qi 0) as [N|N]; [|exact N]. exfalso. nra. }
  apply Rabs_rel_inv in HB; [|lra]. apply Rabs_d_inv in Hd.
  split.
  - replace (L * Pi * (1 - u) ^ 2)%R with (L * ((1 - u) * Pi) * (1 - u))%R by (cbn [pow]; ring).
    apply mul3_le; split; try lra. apply Rmult_le_pos; lra.
  - replace (10 * (1 + u) ^ 4)%R with ((10 * Qi * (1 + u) ^ 2) * ((1 + u) * Pi) * (1 + u))%R
      by (cbn [pow]; transitivity ((Pi * Qi) * (10 * (1 + u) * ((1 + u) * ((1 + u) * ((1 + u) * 1)))))%R;
          [ring | rewrite HPQ; ring]).
    apply mul3_le; split; try lra. apply Rle_trans with (2 := proj1 HB). apply Rmult_le_pos; lra.
Qed.

(* --- table entries --- *)
Notation u64 := (uro F64).

Lemma u64_half : (0 <= u64 <= / 2)%R.
Proof. pose proof (uro_pos F64). pose proof (uro_lt_1 F64 good_F64). lra. Qed.

Lemma u64_01 : (0 <= u64 <= 1)%R.
Proof. pose proof u64_half. lra. Qed.

Lemma tbl64_facts : forall i b, (i <= 8)%nat ->
  valid F64 (tbl F64 b i) /\ FloatModel.is_finite (tbl F64 b i) = true.
Proof.
  intros i b Hi.
  do 9 (destruct i as [|i]; [destruct b; split; vm_compute; reflexivity|]). lia.
Qed.

Lemma tbl64_pos_acc : forall i, (i <= 8)%nat ->
  (Rabs (sfr (tbl F64 true i) - p10 (2 ^ Z.of_nat i)) <= u64 * p10 (2 ^ Z.of_nat i))%R.
Proof. intros i Hi. apply (table64_pos_accuracy i). lia. Qed.

Lemma tbl64_neg_acc : forall i, (i <= 8)%nat ->
  (Rabs (sfr (tbl F64 false i) - p10 (- 2 ^ Z.of_nat i)) <= u64 * p10 (- 2 ^ Z.of_nat i))%R.
Proof. intros i Hi. apply (table64_neg_accuracy i). lia. Qed.

Lemma p10_plus : forall a b, p10 (a + b) = (p10 a * p10 b)%R.
Proof. intros a b. apply bpow_plus. Qed.

Lemma p10_inv_l : forall a, (p10 a * p10 (- a) = 1)%R.
Proof. intros a. rewrite <- p10_plus. replace (a + - a) with 0 by ring. reflexivity. Qed.

Lemma pow2_i_range : forall i, (i <= 8)%nat -> 1 <= 2 ^ Z.of_nat i <= 256.
Proof.
  intros i Hi. split.
  - apply (Z.pow_le_mono_r 2 0); lia.
  - change 256 with (2 ^ 8). apply Z.pow_le_mono_r; lia.
Qed.

Lemma wrapZs16_small : forall x, -32768 <= x < 32768 -> wrapZs 16 x = x.
Proof.
  intros x Hx. unfold wrapZs. change (2 ^ 16) with 65536. change (2 ^ (16 - 1)) with 32768.
  destruct (Z_lt_le_dec x 0) as [N|N].
  - replace (x mod 65536) with (x + 65536) by (apply (Z.mod_unique x 65536 (-1) (x + 65536)); lia).
    destruct (Z.ltb_spec (x + 65536) 32768); lia.
  - rewrite Z.mod_small by lia. destruct (Z.ltb_spec x 32768); lia.
Qed.

Lemma pow_1pu_18 : forall n, (n <= 18)%nat -> ((1 + u64) ^ n <= 2)%R.
Proof.
  intros n Hn. apply Rle_trans with ((1 + u64) ^ 18)%R; [|apply u64_hyp].
  apply pow_1pu_le; [apply u64_half | exact Hn].
Qed.

Lemma pow_1mu_18 : forall n, (n <= 18)%nat -> (/ 2 <= (1 - u64) ^ n)%R.
Proof.
  intros n Hn. apply Rle_trans with ((1 - u64) ^ 18)%R; [apply u64_hyp|].
  apply pow_1mu_le; [apply u64_01 | exact Hn].
Qed.

Lemma pow_1mu_pos : forall n, (0 < (1 - u64) ^ n)%R.
Proof. intros n. apply pow_lt. pose proof u64_half. lra. Qed.

Lemma pow_1pu_ge1 : forall n, (1 <= (1 + u64) ^ n)%R.
Proof. intros n. apply pow_R1_Rle. pose proof u64_half. lra. Qed.

Lemma pow_1mu_le1 : forall n, ((1 - u64) ^ n <= 1)%R.
Proof. intros n. apply pow_le_1. pose proof u64_half. lra. Qed.

(* --- normalize_up --- *)

(* invariant: K is the decimal exponent bound still to be removed, n the roundings so far *)
Definition IU (K : Z) (n : nat) (X : R) (v : spec_float) (p : Z) : Prop :=
  valid F64 v /\ FloatModel.is_finite v = true /\ 0 <= p <= 512 - K /\
  within u64 n (sfr v) (X * p10 (- p)) /\
  ((1 - u64) ^ 3 <= sfr v <= p10 K * (1 + u64) ^ n)%R.

Definition up_step (i : nat) (v : spec_float) (p : Z) : spec_float * Z :=
  if f_ge v (tbl F64 true i) then (fmul F64 v (tbl F64 false i), wrapZs 16 (p + 2 ^ Z.of_nat i))
  else (v, p).

Lemma normalize_up_eq : forall i v p,
  normalize_up F64 i v p =
  match i with
  | O => up_step i v p
  | S i' => normalize_up F64 i' (fst (up_step i v p)) (snd (up_step i v p))
  end.
Proof.
  intros i v p. unfold up_step. destruct i; cbn [normalize_up];
  destruct (f_ge v _); reflexivity.
Qed.

Lemma up_step_ok : forall i n X v p, (i <= 8)%nat -> (n + 2 <= 18)%nat ->
  (0 < X <= p10 300)%R -> IU (2 * 2 ^ Z.of_nat i) n X v p ->
  IU (2 ^ Z.of_nat i) (n + 2) X (fst (up_step i v p)) (snd (up_step i v p)).
Proof.
  intros i n X v p Hi Hn HX [Vv [Fv [Hp [Hw [Hlo Hhi]]]]].
  pose proof (pow2_i_range i Hi) as HK. set (K := 2 ^ Z.of_nat i) in *.
  pose proof u64_half as Hu. pose proof u64_01 as Hu1.
  destruct (tbl64_facts i true Hi) as [VB FB]. destruct (tbl64_facts i false Hi) as [VC FC].
  pose proof (tbl64_pos_acc i Hi) as AB. pose proof (tbl64_neg_acc i Hi) as AC. fold K in AB, AC.
  set (A := sfr v) in *. set (B := sfr (tbl F64 true i)) in *. set (C := sfr (tbl F64 false i)) in *.
  assert (HPi : (0 < p10 K)%R) by apply p10_pos.
  assert (HQi : (0 < p10 (- K))%R) by apply p10_pos.
  assert (HPQ : (p10 K * p10 (- K) = 1)%R) by apply p10_inv_l.
  assert (HXp : (0 <= X * p10 (- p))%R) by (apply Rmult_le_pos; [lra | left; apply p10_pos]).
  assert (HW1 : (1 <= (1 + u64) ^ n)%R) by apply pow_1pu_ge1.
  replace (n + 2)%nat with (S (S n)) by lia.
  unfold up_step. destruct (f_ge_R F64 v (tbl F64 true i) good_F64 Vv VB Fv FB) as [G1 G2].
  destruct (f_ge v (tbl F64 true i)); cbn [fst snd].
  - specialize (G1 eq_refl). fold A B in G1. clear G2.
    pose proof (Rabs_rel_inv _ _ _ (Rlt_le _ _ HPi) AB) as [B1 B2].
    pose proof (Rabs_rel_inv _ _ _ (Rlt_le _ _ HQi) AC) as [C1 C2].
    assert (Q10 : (p10 (- K) <= / 10)%R).
    { change (/ 10)%R with (p10 (-1)). apply p10_mono. lia. }
    assert (A0 : (0 <= A)%R) by (apply Rle_trans with (2 := G1); apply Rle_trans with (2 := B1);
                                 apply Rmult_le_pos; lra).
    assert (Aup : (A <= 2 * p10 300)%R).
    { destruct Hw as [_ W2]. apply Rle_trans with (1 := W2).
      assert ((1 + u64) ^ n <= 2)%R by (apply pow_1pu_18; lia).
      assert (p10 (- p) <= 1)%R by (change 1%R with (p10 0); apply p10_mono; lia).
      assert (0 < p10 (- p))%R by apply p10_pos.
      apply Rle_trans with (2 * (X * p10 (- p)))%R; [apply Rmult_le_compat_r; lra | nra]. }
    destruct (fmul_correct F64 v (tbl F64 false i) good_F64 Vv VC Fv FC) as [_ [[d [Hd Hr]] [Vr Fr]]].
    { fold A C. rewrite Rabs_pos_eq by (apply Rmult_le_pos; nra). split.
      - apply Rle_trans with (/ 4)%R.
        + change (/ 4)%R with (bpow radix2 (-2)). apply bpow_le. vm_compute. discriminate.
        + assert (/ 2 * p10 K <= A)%R by nra. assert (/ 2 * p10 (- K) <= C)%R by nra.
          replace (/ 4)%R with ((/ 2 * p10 K) * (/ 2 * p10 (- K)))%R
            by (transitivity (/ 4 * (p10 K * p10 (- K)))%R; [field | rewrite HPQ; field]).
          apply Rmult_le_compat; nra.
      - apply Rle_trans with (2 * p10 300 * 1)%R.
        + apply Rmult_le_compat; nra.
        + apply Rle_trans with (2 * bpow radix2 1022)%R.
          * assert (p10 300 <= bpow radix2 1022)%R.
            { apply p10_le_bpow2; [lia | lia |]. apply Z.leb_le. vm_compute. reflexivity. }
            lra.
          * change (emax F64 - 1) with (1 + 1022). rewrite bpow_plus. change (bpow radix2 1) with 2%R. lra. }
    fold A C in Hr.
    split; [exact Vr|]. split; [exact Fr|]. split.
    { fold K. rewrite wrapZs16_small by lia. lia. }
    fold K. rewrite wrapZs16_small by lia. rewrite Hr. split.
    + replace (- (p + K)) with (- p + - K) by ring. rewrite p10_plus, <- Rmult_assoc.
      apply within_round; try assumption.
      * apply Rmult_le_pos; [exact HXp | lra].
      * apply within_mult; try assumption. lra.
    + replace (p10 K * (1 + u64) ^ S (S n))%R with (p10 K * ((1 + u64) ^ n * (1 + u64) ^ 2))%R
        by (cbn [pow]; ring).
      apply (up_mul_bounds u64 (p10 K) (p10 (- K)) A B C d ((1 + u64) ^ n)%R); try assumption.
      * replace (p10 K * p10 K)%R with (p10 (2 * K)) by (rewrite <- p10_plus; f_equal; ring).
        exact Hhi.
      * lra.
  - specialize (G2 eq_refl). fold A B in G2. clear G1.
    pose proof (Rabs_rel_inv _ _ _ (Rlt_le _ _ HPi) AB) as [B1 B2].
    split; [exact Vv|]. split; [exact Fv|]. split; [lia|]. split.
    + apply within_weaken with (n := n); try assumption. lia.
    + split; [exact Hlo|]. fold A. apply Rle_trans with ((1 + u64) * p10 K)%R; [lra|].
      rewrite (Rmult_comm (p10 K)). apply Rmult_le_compat_r; [lra|].
      apply Rle_trans with ((1 + u64) ^ 1)%R; [rewrite pow_1; lra|].
      apply pow_1pu_le; [lra | lia].
Qed.

Lemma pow2_succ : forall i, 2 ^ Z.of_nat (S i) = 2 * 2 ^ Z.of_nat i.
Proof. intros i. rewrite Nat2Z.inj_succ, Z.pow_succ_r by lia. reflexivity. Qed.

Lemma normalize_up_ok : forall i n X v p, (i <= 8)%nat -> (n + 2 * S i = 18)%nat ->
  (0 < X <= p10 300)%R -> IU (2 * 2 ^ Z.of_nat i) n X v p ->
  IU 1 18 X (fst (normalize_up F64 i v p)) (snd (normalize_up F64 i v p)).
Proof.
  induction i as [|i IH]; intros n X v p Hi Hn HX HI; rewrite normalize_up_eq.
  - replace 18%nat with (n + 2)%nat by lia.
    apply (up_step_ok 0 n X v p); [lia | lia | exact HX | exact HI].
  - apply (IH (n + 2)%nat); [lia | lia | exact HX |].
    rewrite <- pow2_succ. apply up_step_ok; [lia | lia | exact HX | exact HI].
Qed.

(* --- normalize_down --- *)

Definition ID (K : Z) (n : nat) (X : R) (v : spec_float) (p : Z) : Prop :=
  valid F64 v /\ FloatModel.is_finite v = true /\ - (512 - K) <= p <= 0 /\
  within u64 n (sfr v) (X * p10 (- p)) /\
  (p10 (1 - K) * (1 - u64) ^ n <= sfr v <= 10 * (1 + u64) ^ 4)%R.

Definition down_thr (i : nat) : spec_float := fmul F64 (tbl F64 false i) (f_of_Z F64 10).

Definition down_step (i : nat) (v : spec_float) (p : Z) : spec_float * Z :=
  if f_lt v (down_thr i) then (fmul F64 v (tbl F64 true i), wrapZs 16 (p - 2 ^ Z.of_nat i))
  else (v, p).

Lemma normalize_down_eq : forall i v p,
  normalize_down F64 i v p =
  match i with
  | O => down_step i v p
  | S i' => normalize_down F64 i' (fst (down_step i v p)) (snd (down_step i v p))
  end.
Proof.
  intros i v p. unfold down_step, down_thr. destruct i; cbn [normalize_down];
  destruct (f_lt v _); reflexivity.
Qed.

Lemma p10_1 : p10 1 = 10%R.
Proof. unfold p10. cbn. lra. Qed.

Lemma down_thr_ok : forall i, (i <= 8)%nat ->
  valid F64 (down_thr i) /\ FloatModel.is_finite (down_thr i) = true /\
  (p10 (1 - 2 ^ Z.of_nat i) * (1 - u64) ^ 2 <= sfr (down_thr i)
     <= 10 * p10 (- 2 ^ Z.of_nat i) * (1 + u64) ^ 2)%R.
Proof.
  intros i Hi. pose proof (pow2_i_range i Hi) as HK. set (K := 2 ^ Z.of_nat i) in *.
  pose proof u64_half as Hu.
  destruct (tbl64_facts i false Hi) as [VC FC].
  pose proof (tbl64_neg_acc i Hi) as AC. fold K in AC.
  destruct (f_of_Z_exact F64 10 good_F64) as [T1 [T2 T3]]; [vm_compute; reflexivity|].
  assert (HQi : (0 < p10 (- K))%R) by apply p10_pos.
  pose proof (Rabs_rel_inv _ _ _ (Rlt_le _ _ HQi) AC) as [C1 C2].
  set (C := sfr (tbl F64 false i)) in *.
  assert (Q10 : (p10 (- K) <= / 10)%R).
  { change (/ 10)%R with (p10 (-1)). apply p10_mono. lia. }
  assert (Qlo : (bpow radix2 (-1021) <= p10 (- K))%R).
  { apply Rle_trans with (IZR 1 * p10 (-256))%R; [apply dec64_lower; lia|].
    rewrite Rmult_1_l. apply p10_mono. lia. }
  unfold down_thr.
  destruct (fmul_correct F64 (tbl F64 false i) (f_of_Z F64 10) good_F64 VC T2 FC T3)
    as [_ [[d [Hd Hr]] [Vr Fr]]].
  { fold C. rewrite T1. rewrite Rabs_pos_eq by nra. split.
    - apply Rle_trans with (bpow radix2 (-1021)).
      + apply bpow_le. vm_compute. discriminate.
      + nra.
    - apply Rle_trans with 2%R; [nra|]. change 2%R with (bpow radix2 1). apply bpow_le.
      vm_compute. discriminate. }
  split; [exact Vr|]. split; [exact Fr|].
  rewrite Hr, T1. fold C. apply Rabs_d_inv in Hd.
  replace (p10 (1 - K)) with (10 * p10 (- K))%R
    by (rewrite <- p10_1, <- p10_plus; f_equal; ring).
  split.
  - replace (10 * p10 (- K) * (1 - u64) ^ 2)%R with (((1 - u64) * p10 (- K)) * 10 * (1 - u64))%R
      by (cbn [pow]; ring).
    apply mul3_le; split; try lra. apply Rmult_le_pos; lra.
  - replace (10 * p10 (- K) * (1 + u64) ^ 2)%R with (((1 + u64) * p10 (- K)) * 10 * (1 + u64))%R
      by (cbn [pow]; ring).
    apply mul3_le; split; try lra. apply Rle_trans with (2 := C1). apply Rmult_le_pos; lra.
Qed.

Lemma down_step_ok : forall i n X v p, (i <= 8)%nat -> (n + 2 <= 18)%nat ->
  (p10 (-300) <= X)%R -> ID (2 * 2 ^ Z.of_nat i) n X v p ->
  ID (2 ^ Z.of_nat i) (n + 2) X (fst (down_step i v p)) (snd (down_step i v p)).
Proof.
  intros i n X v p Hi Hn HX [Vv [Fv [Hp [Hw [Hlo Hhi]]]]].
  pose proof (pow2_i_range i Hi) as HK.
  destruct (down_thr_ok i Hi) as [VT [FT [T1 T2]]].
  set (K := 2 ^ Z.of_nat i) in *.
  pose proof u64_half as Hu. pose proof u64_01 as Hu1.
  destruct (tbl64_facts i true Hi) as [VB FB].
  pose proof (tbl64_pos_acc i Hi) as AB. fold K in AB.
  set (A := sfr v) in *. set (B := sfr (tbl F64 true i)) in *. set (T := sfr (down_thr i)) in *.
  assert (HPi : (0 < p10 K)%R) by apply p10_pos.
  assert (HQi : (0 < p10 (- K))%R) by apply p10_pos.
  assert (HPQ : (p10 K * p10 (- K) = 1)%R) by apply p10_inv_l.
  assert (X0 : (0 < X)%R) by (apply Rlt_le_trans with (2 := HX); apply p10_pos).
  assert (HXp : (0 <= X * p10 (- p))%R) by (apply Rmult_le_pos; [lra | left; apply p10_pos]).
  assert (Hmu : (0 < (1 - u64) ^ n)%R) by apply pow_1mu_pos.
  assert (L0 : (0 <= p10 (1 - 2 * K) * (1 - u64) ^ n)%R).
  { apply Rmult_le_pos; [left; apply p10_pos | lra]. }
  replace (n + 2)%nat with (S (S n)) by lia.
  unfold down_step. destruct (f_lt_R F64 v (down_thr i) good_F64 Vv VT Fv FT) as [G1 G2].
  destruct (f_lt v (down_thr i)); cbn [fst snd].
  - specialize (G1 eq_refl). fold A T in G1. clear G2.
    pose proof (Rabs_rel_inv _ _ _ (Rlt_le _ _ HPi) AB) as [B1 B2].
    assert (P10 : (10 <= p10 K)%R).
    { rewrite <- p10_1. apply p10_mono. lia. }
    assert (A0 : (0 <= A)%R) by lra.
    assert (Alo : (bpow radix2 (-1022) <= A)%R).
    { destruct Hw as [W1 _]. apply Rle_trans with (2 := W1).
      assert (/ 2 <= (1 - u64) ^ n)%R by (apply pow_1mu_18; lia).
      assert (1 <= p10 (- p))%R by (change 1%R with (p10 0); apply p10_mono; lia).
      assert (bpow radix2 (-1021) <= p10 (-300))%R.
      { rewrite <- (Rmult_1_l (p10 (-300))). apply (dec64_lower 1); lia. }
      replace (bpow radix2 (-1022)) with (/ 2 * bpow radix2 (-1021))%R
        by (change (/ 2)%R with (bpow radix2 (-1)); rewrite <- bpow_plus; reflexivity).
      apply Rmult_le_compat; try lra; [apply bpow_ge_0|].
      apply Rle_trans with (p10 (-300) * 1)%R; [lra|]. apply Rmult_le_compat; try lra.
      left; apply p10_pos. }
    assert (Aup : (A <= 10 * p10 (- K) * 2)%R).
    { apply Rle_trans with (1 := Rlt_le _ _ G1). apply Rle_trans with (1 := T2).
      apply Rmult_le_compat_l; [nra|]. apply (pow_1pu_18 2). lia. }
    destruct (fmul_correct F64 v (tbl F64 true i) good_F64 Vv VB Fv FB) as [_ [[d [Hd Hr]] [Vr Fr]]].
    { fold A B. rewrite Rabs_pos_eq by (apply Rmult_le_pos; nra). split.
      - change (femin F64 + prec F64 - 1) with (-1022).
        apply Rle_trans with (A * 1)%R; [lra|]. apply Rmult_le_compat_l; nra.
      - apply Rle_trans with ((10 * p10 (- K) * 2) * (2 * p10 K))%R.
        + apply Rmult_le_compat; nra.
        + replace ((10 * p10 (- K) * 2) * (2 * p10 K))%R with 40%R
            by (transitivity (40 * (p10 K * p10 (- K)))%R; [rewrite HPQ; ring | ring]).
          apply Rle_trans with (bpow radix2 6); [cbn; lra|]. apply bpow_le. vm_compute. discriminate. }
    fold A B in Hr.
    split; [exact Vr|]. split; [exact Fr|]. split.
    { fold K. rewrite wrapZs16_small by lia. lia. }
    fold K. rewrite wrapZs16_small by lia. rewrite Hr. split.
    + replace (- (p - K)) with (- p + K) by ring. rewrite p10_plus, <- Rmult_assoc.
      apply within_round; try assumption.
      * apply Rmult_le_pos; [exact HXp | lra].
      * apply within_mult; try assumption. lra.
    + replace (p10 (1 - K) * (1 - u64) ^ S (S n))%R
        with ((p10 (1 - 2 * K) * (1 - u64) ^ n) * p10 K * (1 - u64) ^ 2)%R.
      * apply (down_mul_bounds u64 (p10 K) (p10 (- K)) A B T d); try assumption.
      * replace (1 - K) with ((1 - 2 * K) + K) by ring. rewrite p10_plus. cbn [pow]. ring.
  - specialize (G2 eq_refl). fold A T in G2. clear G1.
    split; [exact Vv|]. split; [exact Fv|]. split; [lia|]. split.
    + apply within_weaken with (n := n); try assumption. lia.
    + split; [|exact Hhi]. fold A. apply Rle_trans with (2 := G2). apply Rle_trans with (2 := T1).
      apply Rmult_le_compat_l; [left; apply p10_pos|].
      apply pow_1mu_le; [lra | lia].
Qed.

Lemma normalize_down_ok : forall i n X v p, (i <= 8)%nat -> (n + 2 * S i = 18)%nat ->
  (p10 (-300) <= X)%R -> ID (2 * 2 ^ Z.of_nat i) n X v p ->
  ID 1 18 X (fst (normalize_down F64 i v p)) (snd (normalize_down F64 i v p)).
Proof.
  induction i as [|i IH]; intros n X v p Hi Hn HX HI; rewrite normalize_down_eq.
  - replace 18%nat with (n + 2)%nat by lia.
    apply (down_step_ok 0 n X v p); [lia | lia | exact HX | exact HI].
  - apply (IH (n + 2)%nat); [lia | lia | exact HX |].
    rewrite <- pow2_succ. apply down_step_ok; [lia | lia | exact HX | exact HI].
Qed.

(* --- normalize --- *)

Lemma pos_threshold_val : valid F64 pos_threshold /\ FloatModel.is_finite pos_threshold = true /\
  sfr pos_threshold = 10000000%R.
Proof.
  split; [vm_compute; reflexivity|]. split; [reflexivity|].
  assert (E : pos_threshold = S754_finite false 5368709120000000 (-29)) by (vm_compute; reflexivity).
  rewrite E. pose proof (num_den_spec 5368709120000000 (-29)) as S.
  destruct (num_den 5368709120000000 (-29)) as [N D] eqn:ND.
  destruct S as [_ S]. rewrite S.
  assert (N = 5368709120000000 /\ D = 536870912) as [-> ->].
  { vm_compute in ND. inversion ND. split; reflexivity. }
  lra.
Qed.

Lemma neg_threshold_val : valid F64 neg_threshold /\ FloatModel.is_finite neg_threshold = true /\
  (sfr neg_threshold <= 1)%R.
Proof.
  split; [vm_compute; reflexivity|]. split; [reflexivity|].
  assert (E : exists m e, neg_threshold = S754_finite false m e /\
                          fst (num_den m e) <= snd (num_den m e)).
  { vm_compute. eexists. eexists. split; [reflexivity|]. discriminate. }
  destruct E as [m [e [-> H]]]. pose proof (num_den_spec m e) as S.
  destruct (num_den m e) as [N D]. destruct S as [HD S]. rewrite S. cbn [fst snd] in H.
  apply IZR_le in H. apply IZR_lt in HD.
  apply Rmult_le_reg_r with (IZR D); [exact HD|]. unfold Rdiv. rewrite Rmult_assoc, Rinv_l by lra. lra.
Qed.

Definition norm_ok (X : R) (y : spec_float) (e : Z) : Prop :=
  valid F64 y /\ FloatModel.is_finite y = true /\ -511 <= e <= 511 /\
  within u64 18 (sfr y) (X * p10 (- e)) /\
  ((1 - u64) ^ 18 <= sfr y <= 10 * (1 + u64) ^ 18)%R.

Lemma pos_finite_form : forall x, FloatModel.is_finite x = true -> (0 < sfr x)%R ->
  exists m e, x = S754_finite false m e.
Proof.
  intros [s|s| |s m e] Fx Hx; try discriminate.
  - cbn in Hx. lra.
  - destruct s; [|eauto]. exfalso. cbn [SF2R cond_Zopp] in Hx.
    assert (N : (F2R (Float radix2 (Z.neg m) e) < 0)%R) by (apply F2R_lt_0; reflexivity).
    change (- Z.pos m) with (Z.neg m) in Hx. lra.
Qed.

(* P1: the three branches of normalize *)
Theorem normalize64_spec : forall x, valid F64 x -> FloatModel.is_finite x = true ->
  (0 < sfr x)%R -> (p10 (-300) <= sfr x <= p10 300)%R ->
  norm_ok (sfr x) (fst (normalize F64 x)) (snd (normalize F64 x)) \/
  (normalize F64 x = (x, 0) /\ (sfr x < 10000000)%R).
Proof.
  intros x Vx Fx Hpos [Hlo Hhi]. set (X := sfr x) in *.
  pose proof u64_half as Hu. pose proof u64_01 as Hu1.
  destruct (fconv64_id x Vx Fx) as [C1 [C2 C3]].
  destruct pos_threshold_val as [PV [PF PR]]. destruct neg_threshold_val as [NV [NF NR]].
  unfold normalize. change (if mw F64 =? 52 then 8%nat else 5%nat) with 8%nat.
  destruct (f_ge_R F64 (fconv F64 x) pos_threshold good_F64 C2 PV C3 PF) as [G1 G2].
  destruct (f_ge (fconv F64 x) pos_threshold).
  - left. specialize (G1 eq_refl). rewrite C1, PR in G1. fold X in G1. clear G2.
    destruct (normalize_up_ok 8 0 X x 0) as [V [F [He [W [B1 B2]]]]]; [lia | lia | lra | |].
    + split; [exact Vx|]. split; [exact Fx|]. split; [cbn; lia|]. split.
      * change (- 0) with 0. rewrite p10_0, Rmult_1_r. apply within_refl.
      * fold X. change ((1 + u64) ^ 0)%R with 1%R. rewrite Rmult_1_r. split.
        -- assert ((1 - u64) ^ 3 <= 1)%R by apply pow_1mu_le1. lra.
        -- apply Rle_trans with (1 := Hhi). apply p10_mono. cbn. lia.
    + split; [exact V|]. split; [exact F|]. split; [lia|]. split; [exact W|]. split.
      * apply Rle_trans with (2 := B1). apply pow_1mu_le; [lra | lia].
      * rewrite <- p10_1. exact B2.
  - specialize (G2 eq_refl). rewrite C1, PR in G2. fold X in G2. clear G1.
    destruct (pos_finite_form x Fx Hpos) as [m [e Ex]].
    assert (GT : f_gt x f_zero = true) by (rewrite Ex; reflexivity).
    rewrite GT. cbn [andb].
    destruct (f_le_R F64 (fconv F64 x) neg_threshold good_F64 C2 NV C3 NF) as [L1 L2].
    destruct (f_le (fconv F64 x) neg_threshold).
    + left. specialize (L1 eq_refl). rewrite C1 in L1. fold X in L1. clear L2.
      destruct (normalize_down_ok 8 0 X x 0) as [V [F [He [W [B1 B2]]]]]; [lia | lia | lra | |].
      * split; [exact Vx|]. split; [exact Fx|]. split; [cbn; lia|]. split.
        -- change (- 0) with 0. rewrite p10_0, Rmult_1_r. apply within_refl.
        -- fold X. change ((1 - u64) ^ 0)%R with 1%R. rewrite Rmult_1_r. split.
           ++ apply Rle_trans with (2 := Hlo). apply p10_mono. cbn. lia.
           ++ assert (1 <= (1 + u64) ^ 4)%R by apply pow_1pu_ge1. lra.
      * split; [exact V|]. split; [exact F|]. split; [lia|]. split; [exact W|]. split.
        -- change (1 - 1) with 0 in B1. rewrite p10_0, Rmult_1_l in B1. exact B1.
        -- apply Rle_trans with (1 := B2). apply Rmult_le_compat_l; [lra|].
           apply pow_1pu_le; [lra | lia].
    + right. split; [reflexivity | exact G2].
Qed.

(* ------------------------------------------------------------------------------------------ *)
(* Part 2 — splitting a value into integral part and rounded decimals                           *)
(* ------------------------------------------------------------------------------------------ *)

Notation fmt64 := (generic_format radix2 (FLT_exp (femin F64) (prec F64))).

Lemma to_u32_floor : forall y, FloatModel.is_finite y = true -> (0 <= sfr y < 4294967296)%R ->
  to_u32 y = Zfloor (sfr y) /\ 0 <= Zfloor (sfr y) < 4294967296.
Proof.
  intros y Fy [H0 H1]. unfold to_u32. rewrite (f_trunc_floor y Fy H0).
  assert (A : 0 <= Zfloor (sfr y)).
  { apply Zfloor_lub. exact H0. }
  assert (B : Zfloor (sfr y) < 4294967296).
  { apply lt_IZR. apply Rle_lt_trans with (2 := H1). apply Zfloor_lb. }
  split; [|lia]. unfold wrapZu. change (2 ^ 32) with 4294967296. apply Z.mod_small. lia.
Qed.

(* the fractional part of a non-negative binary64 number is a binary64 number *)
Lemma frac_format : forall y, valid F64 y -> FloatModel.is_finite y = true -> (0 <= sfr y)%R ->
  fmt64 (sfr y - IZR (Zfloor (sfr y))).
Proof.
  intros y Vy Fy Hy. destruct (Req_dec (sfr y) 0) as [Z0|NZ].
  - rewrite Z0, Zfloor_IZR. replace (0 - 0)%R with 0%R by ring. apply generic_format_0.
  - destruct (pos_finite_form y Fy) as [m [e ->]]; [lra|].
    pose proof (valid_mant_bounded F64 _ (proj1 good_F64) Vy) as MB. cbn [mant_bounded] in MB.
    pose proof (valid_emin F64 false m e Vy) as EM.
    cbn [SF2R cond_Zopp]. destruct (Z_le_gt_dec 0 e) as [E|E].
    + unfold F2R; cbn [Fnum Fexp]. rewrite <- (IZR_Zpower radix2) by exact E.
      rewrite <- mult_IZR, Zfloor_IZR. rewrite Rminus_diag_eq by reflexivity. apply generic_format_0.
    + set (d := 2 ^ (- e)).
      assert (Hd : 0 < d) by (apply Z.pow_pos_nonneg; lia).
      assert (EQ : F2R (Float radix2 (Z.pos m) e) = (IZR (Z.pos m) / IZR d)%R).
      { unfold F2R; cbn [Fnum Fexp]. replace e with (- (- e)) at 1 by ring. rewrite bpow_opp.
        rewrite <- (IZR_Zpower radix2) by lia. reflexivity. }
      rewrite EQ, Zfloor_div by lia.
      apply generic_format_FLT. apply FLT_spec with (Float radix2 (Z.pos m mod d) e).
      * unfold F2R; cbn [Fnum Fexp]. replace e with (- (- e)) at 1 by ring. rewrite bpow_opp.
        rewrite <- (IZR_Zpower radix2) by lia. change (radix2 ^ - e) with d.
        rewrite (Z.div_mod (Z.pos m) d) at 1 by lia. rewrite plus_IZR, mult_IZR.
        assert (0 < IZR d)%R by (apply IZR_lt; exact Hd). field. lra.
      * cbn [Fnum]. pose proof (Z.mod_pos_bound (Z.pos m) d Hd) as MP.
        assert (Z.pos m mod d <= Z.pos m) by (apply Z.mod_le; lia).
        change (radix2 : Z) with 2. lia.
      * cbn [Fexp]. exact EM.
Qed.

(* integral part and exact remainder *)
Lemma frac_step : forall y, valid F64 y -> FloatModel.is_finite y = true ->
  (0 <= sfr y < 4294967296)%R ->
  to_u32 y = Zfloor (sfr y) /\
  sfr (fsub F64 y (f_of_Z F64 (to_u32 y))) = (sfr y - IZR (Zfloor (sfr y)))%R /\
  valid F64 (fsub F64 y (f_of_Z F64 (to_u32 y))) /\
  FloatModel.is_finite (fsub F64 y (f_of_Z F64 (to_u32 y))) = true.
Proof.
  intros y Vy Fy Hy. destruct (to_u32_floor y Fy Hy) as [E HI]. rewrite E.
  set (I := Zfloor (sfr y)) in *.
  destruct (f_of_Z_exact F64 I good_F64) as [T1 [T2 T3]].
  { change (prec F64) with 53. change (2 ^ 53) with 9007199254740992. lia. }
  split; [reflexivity|].
  assert (Fr : (0 <= sfr y - IZR I < 1)%R).
  { pose proof (Zfloor_lb (sfr y)). pose proof (Zfloor_ub (sfr y)). fold I in H, H0. lra. }
  destruct (fsub_exact F64 y (f_of_Z F64 I) good_F64 Vy T2 Fy T3) as [S1 [S2 S3]].
  - rewrite T1. apply frac_format; [exact Vy | exact Fy | lra].
  - rewrite T1. rewrite Rabs_pos_eq by lra. apply Rlt_trans with 1%R; [lra|].
    change 1%R with (bpow radix2 0). apply bpow_lt. vm_compute. reflexivity.
  - rewrite T1 in S1. split; [exact S1|]. split; assumption.
Qed.

Lemma fmt64_double : forall x, fmt64 x -> fmt64 (x * 2).
Proof.
  intros x G. apply FLT_format_generic in G; [|exact (proj1 good_F64)].
  destruct G as [fl E Hm He]. apply generic_format_FLT.
  apply FLT_spec with (Float radix2 (Fnum fl) (Fexp fl + 1)).
  - rewrite E. unfold F2R; cbn [Fnum Fexp]. rewrite bpow_plus. change (bpow radix2 1) with 2%R. ring.
  - exact Hm.
  - cbn [Fexp]. lia.
Qed.

Lemma fmt64_IZR : forall m, Z.abs m < 2 ^ 53 -> fmt64 (IZR m).
Proof.
  intros m Hm. destruct (f_of_Z_exact F64 m good_F64 Hm) as [T1 [T2 _]].
  rewrite <- T1. apply valid_format; [exact good_F64 | exact T2].
Qed.

(* round half up of a real, as computed by floor, remainder, doubling, floor *)
Lemma half_up_real : forall R M, (0 <= R <= IZR M)%R ->
  let k := Zfloor R in let j := Zfloor ((R - IZR k) * 2) in
  0 <= k + j <= M /\ (Rabs (IZR (k + j) - R) <= / 2)%R /\ 0 <= j <= 1.
Proof.
  intros R M [H0 HM] k j.
  pose proof (Zfloor_lb R) as L. pose proof (Zfloor_ub R) as U. fold k in L, U.
  assert (K0 : 0 <= k) by (apply Zfloor_lub; exact H0).
  assert (KM : k <= M) by (apply le_IZR; lra).
  destruct (Rlt_le_dec (R - IZR k) (/ 2)) as [Lo|Hi].
  - assert (J : j = 0) by (apply Zfloor_imp; cbn; lra).
    rewrite J, Z.add_0_r. split; [lia|]. split; [|lia].
    apply Rabs_le. lra.
  - assert (J : j = 1) by (apply Zfloor_imp; cbn; lra).
    rewrite J. split; [|split; [|lia]].
    + destruct (Z.eq_dec k M) as [E|N]; [|lia]. exfalso. rewrite E in *. lra.
    + rewrite plus_IZR. apply Rabs_le. lra.
Qed.

(* the decimals: remainder * M, rounded half up *)
Lemma decimal_core : forall y M, valid F64 y -> FloatModel.is_finite y = true ->
  (0 <= sfr y < 4294967296)%R -> 1 <= M <= 1000000000 ->
  let I := to_u32 y in
  let r1 := fmul F64 (fsub F64 y (f_of_Z F64 I)) (f_of_Z F64 M) in
  let d0 := to_u32 r1 in
  let r2 := fsub F64 r1 (f_of_Z F64 d0) in
  let D := wrapZu 32 (d0 + to_u32 (fmul F64 r2 (f_of_Z F64 2))) in
  I = Zfloor (sfr y) /\ 0 <= D <= M /\
  (Rabs (IZR D - (sfr y - IZR I) * IZR M) <= / 2 + / 1000000)%R.
Proof.
  intros y M Vy Fy Hy HM I r1 d0 r2 D.
  destruct (frac_step y Vy Fy Hy) as [EI [S1 [S2 S3]]]. fold I in EI, S1, S2, S3.
  rewrite <- EI in S1. set (F := (sfr y - IZR I)%R) in *.
  assert (HF : (0 <= F < 1)%R).
  { unfold F. rewrite EI. pose proof (Zfloor_lb (sfr y)). pose proof (Zfloor_ub (sfr y)). lra. }
  destruct (f_of_Z_exact F64 M good_F64) as [M1 [M2 M3]].
  { change (prec F64) with 53. change (2 ^ 53) with 9007199254740992. lia. }
  assert (HMR : (1 <= IZR M <= 1000000000)%R) by (split; apply IZR_le; lia).
  assert (GM : fmt64 (IZR M)).
  { apply fmt64_IZR. change (2 ^ 53) with 9007199254740992. lia. }
  (* r1 *)
  set (z := (F * IZR M)%R).
  assert (Hz : (0 <= z <= IZR M)%R) by (unfold z; split; nra).
  assert (Rz : (0 <= rnd_of F64 z <= IZR M)%R).
  { assert (P0 : Prec_gt_0 (prec F64)) by exact (proj1 good_F64).
    unfold rnd_of. split.
    - apply round_ge_generic; auto with typeclass_instances; [apply generic_format_0 | lra].
    - apply round_le_generic; auto with typeclass_instances. lra. }
  destruct (fmul_any F64 (fsub F64 y (f_of_Z F64 I)) (f_of_Z F64 M) good_F64 S2 M2 S3 M3)
    as [A1 [A2 A3]].
  { rewrite S1, M1. fold z. rewrite Rabs_pos_eq by lra.
    apply Rle_lt_trans with (bpow radix2 30).
    - apply Rle_trans with 1000000000%R; [lra|]. cbn. lra.
    - apply bpow_lt. vm_compute. reflexivity. }
  fold r1 in A1, A2, A3. rewrite S1, M1 in A1. fold z in A1.
  assert (Ez : (Rabs (sfr r1 - z) <= / 1000000)%R).
  { rewrite A1. unfold rnd_of.
    destruct (error_N_FLT radix2 (femin F64) (prec F64) (proj1 good_F64)
                (fun t => negb (Z.even t)) z) as [eps [eta [He1 [He2 [_ Hr]]]]].
    rewrite Hr. replace (z * (1 + eps) + eta - z)%R with (z * eps + eta)%R by ring.
    apply Rle_trans with (1 := Rabs_triang _ _). rewrite Rabs_mult, (Rabs_pos_eq z) by lra.
    assert (U : (/ 2 * bpow radix2 (- prec F64 + 1) = / 9007199254740992)%R).
    { rewrite <- uro64_val. unfold uro.
      change (/ 2)%R with (bpow radix2 (-1)). rewrite <- bpow_plus. f_equal. }
    rewrite U in He1.
    assert (T : (/ 2 * bpow radix2 (femin F64) <= / 9007199254740992)%R).
    { rewrite <- uro64_val. unfold uro. change (/ 2)%R with (bpow radix2 (-1)).
      rewrite <- bpow_plus. apply bpow_le. vm_compute. discriminate. }
    assert (Rabs eps >= 0)%R by (apply Rle_ge, Rabs_pos).
    apply Rle_trans with (1000000000 * / 9007199254740992 + / 9007199254740992)%R; [|lra].
    apply Rplus_le_compat; [|lra]. apply Rmult_le_compat; lra. }
  rewrite <- A1 in Rz.
  (* d0, r2 *)
  destruct (frac_step r1 A2 A3) as [ED [Q1 [Q2 Q3]]]; [lra|]. fold d0 in ED, Q1, Q2, Q3.
  fold r2 in Q1, Q2, Q3.
  (* r2 * 2 *)
  destruct (f_of_Z_exact F64 2 good_F64) as [W1 [W2 W3]]; [vm_compute; reflexivity|].
  assert (Hr2 : (0 <= sfr r2 < 1)%R).
  { rewrite Q1. pose proof (Zfloor_lb (sfr r1)). pose proof (Zfloor_ub (sfr r1)). lra. }
  assert (G2 : rnd_of F64 (sfr r2 * 2) = (sfr r2 * 2)%R).
  { apply rnd_of_generic; [exact good_F64|]. apply fmt64_double.
    apply valid_format; [exact good_F64 | exact Q2]. }
  destruct (fmul_any F64 r2 (f_of_Z F64 2) good_F64 Q2 W2 Q3 W3) as [B1 [B2 B3]].
  { rewrite W1, G2. rewrite Rabs_pos_eq by lra. apply Rlt_trans with (bpow radix2 1).
    - cbn. lra.
    - apply bpow_lt. vm_compute. reflexivity. }
  rewrite W1, G2 in B1.
  destruct (to_u32_floor (fmul F64 r2 (f_of_Z F64 2)) B3) as [EJ _]; [rewrite B1; lra|].
  rewrite B1, Q1 in EJ.
  pose proof (half_up_real (sfr r1) M Rz) as HU. cbv zeta in HU.
  rewrite <- ED in HU. destruct HU as [HU1 [HU2 HU3]].
  assert (ED' : D = d0 + Zfloor ((sfr r1 - IZR d0) * 2)).
  { unfold D. rewrite EJ, <- ED. unfold wrapZu. change (2 ^ 32) with 4294967296.
    apply Z.mod_small. lia. }
  split; [exact EI|]. rewrite ED'. split; [exact HU1|].
  replace (IZR (d0 + Zfloor ((sfr r1 - IZR d0) * 2)) - z)%R
    with ((IZR (d0 + Zfloor ((sfr r1 - IZR d0) * 2)) - sfr r1) + (sfr r1 - z))%R by ring.
  apply Rle_trans with (1 := Rabs_triang _ _). lra.
Qed.

(* --- reduce_places, strip_zeros --- *)

Lemma wrapZs8_small : forall x, -128 <= x < 128 -> wrapZs 8 x = x.
Proof.
  intros x Hx. unfold wrapZs. change (2 ^ 8) with 256. change (2 ^ (8 - 1)) with 128.
  destruct (Z_lt_le_dec x 0) as [N|N].
  - replace (x mod 256) with (x + 256) by (apply (Z.mod_unique x 256 (-1) (x + 256)); lia).
    destruct (Z.ltb_spec (x + 256) 128); lia.
  - rewrite Z.mod_small by lia. destruct (Z.ltb_spec x 128); lia.
Qed.

Lemma pow10_S : forall a, 0 <= a -> 10 ^ (a + 1) = 10 * 10 ^ a.
Proof. intros a Ha. rewrite Z.pow_add_r by lia. change (10 ^ 1) with 10. ring. Qed.

Lemma reduce_places_spec : forall fuel tmp q,
  0 <= tmp < 10 ^ Z.of_nat fuel -> tmp < 10 ^ (q + 1) -> 0 <= q <= 100 ->
  exists j, 0 <= j <= q /\ reduce_places fuel tmp (10 ^ q) q = (10 ^ (q - j), q - j) /\
            tmp < 10 ^ (j + 1) /\ (j = 0 \/ 10 ^ j <= tmp).
Proof.
  induction fuel as [|fuel IH]; intros tmp q Ht Hq Hq0.
  - change (10 ^ Z.of_nat 0) with 1 in Ht. exists 0. split; [lia|].
    cbn [reduce_places]. rewrite Z.sub_0_r. split; [reflexivity|]. split; [cbn; lia | left; reflexivity].
  - cbn [reduce_places]. destruct (Z.leb_spec 10 tmp) as [G|L].
    + assert (Q1 : 1 <= q).
      { destruct (Z.eq_dec q 0) as [E|N]; [|lia]. subst q. change (10 ^ (0 + 1)) with 10 in Hq. lia. }
      pose proof (Z.div_mod tmp 10 ltac:(lia)) as DM.
      pose proof (Z.mod_pos_bound tmp 10 ltac:(lia)) as MB.
      rewrite Nat2Z.inj_succ in Ht. unfold Z.succ in Ht. rewrite pow10_S in Ht by lia.
      rewrite pow10_S in Hq by lia.
      destruct (IH (tmp / 10) (q - 1)) as [j [Hj [RP [T1 T2]]]].
      * lia.
      * replace (q - 1 + 1) with q by ring. lia.
      * lia.
      * exists (j + 1). split; [lia|].
        rewrite wrapZs8_small by lia.
        replace (10 ^ q / 10) with (10 ^ (q - 1)).
        2:{ replace q with ((q - 1) + 1) at 2 by ring. rewrite pow10_S by lia.
            rewrite Z.mul_comm, Z.div_mul by lia. reflexivity. }
        rewrite RP. replace (q - 1 - j) with (q - (j + 1)) by ring.
        split; [reflexivity|]. rewrite (pow10_S (j + 1)) by lia. split; [lia|].
        right. rewrite pow10_S by lia. destruct T2 as [->|T2]; [cbn; lia | lia].
    + exists 0. split; [lia|]. rewrite Z.sub_0_r. split; [reflexivity|].
      split; [cbn; lia | left; reflexivity].
Qed.

Lemma IZR_pow10 : forall a, 0 <= a -> IZR (10 ^ a) = p10 a.
Proof. intros a Ha. unfold p10. rewrite <- IZR_Zpower by exact Ha. reflexivity. Qed.

Lemma strip_zeros_spec : forall fuel d p, 0 <= d < 10 ^ p -> 0 <= p ->
  0 <= fst (strip_zeros fuel d p) < 10 ^ snd (strip_zeros fuel d p) /\
  0 <= snd (strip_zeros fuel d p) <= p /\
  (IZR (fst (strip_zeros fuel d p)) * p10 (- snd (strip_zeros fuel d p)) = IZR d * p10 (- p))%R.
Proof.
  induction fuel as [|fuel IH]; intros d p Hd Hp.
  - cbn. split; [lia|]. split; [lia|]. reflexivity.
  - cbn [strip_zeros].
    destruct (Z.eqb_spec (d mod 10) 0) as [E|N]; cbn [andb];
      [destruct (Z.ltb_spec 0 p) as [L|G]|]; cbn [fst snd]; try (split; [lia|]; split; [lia|]; reflexivity).
    pose proof (Z.div_mod d 10 ltac:(lia)) as DM. rewrite E, Z.add_0_r in DM.
    destruct (IH (d / 10) (p - 1)) as [A [B C]]; [|lia|].
    { replace p with ((p - 1) + 1) in Hd by ring. rewrite pow10_S in Hd by lia. lia. }
    split; [exact A|]. split; [lia|]. rewrite C. rewrite DM at 2. rewrite mult_IZR.
    replace (- (p - 1)) with (1 + - p) by ring. rewrite p10_plus, p10_1. ring.
Qed.

(* --- the exact decimal value of the printed parts --- *)

Definition parts_value (p : float_parts) : R :=
  ((IZR (fp_integral p) + IZR (fp_decimal p) / p10 (fp_places p)) * p10 (fp_exponent p))%R.

(* the parts fit their printers: the decimals have exactly [fp_places] digits *)
Definition parts_wf (p : float_parts) : Prop :=
  0 <= fp_integral p <= 10000000 /\ 0 <= fp_places p <= 9 /\
  0 <= fp_decimal p < 10 ^ fp_places p /\ -512 <= fp_exponent p <= 512.

(* P2: what decompose_float computes from the normalized value (y, e) *)
Lemma decompose_core : forall x y e P, normalize F64 x = (y, e) ->
  valid F64 y -> FloatModel.is_finite y = true -> (0 <= sfr y < 10000000)%R ->
  6 <= P <= 9 -> -511 <= e <= 511 -> (e = 0 \/ (sfr y <= 10 + / 1000)%R) ->
  parts_wf (decompose_float F64 x P) /\
  exists j, 0 <= j <= 6 /\ (j = 0 \/ (p10 j <= sfr y)%R) /\
    (Rabs (parts_value (decompose_float F64 x P) - sfr y * p10 e)
       <= (/ 2 + / 1000000) * p10 (j - P) * p10 e)%R.
Proof.
  intros x y e P Hn Vy Fy HY HP He Hsm. set (Y := sfr y) in *.
  assert (HY32 : (0 <= Y < 4294967296)%R) by lra.
  destruct (to_u32_floor y Fy HY32) as [EI HI]. fold Y in EI, HI.
  assert (I7 : to_u32 y < 10 ^ 7).
  { rewrite EI. apply lt_IZR. apply Rle_lt_trans with Y; [apply Zfloor_lb|].
    change (10 ^ 7) with 10000000. lra. }
  destruct (reduce_places_spec 12 (to_u32 y) P) as [j [Hj [RP [J1 J2]]]].
  { split; [lia|]. apply Z.lt_trans with (1 := I7). vm_compute. reflexivity. }
  { apply Z.lt_le_trans with (1 := I7). apply Z.pow_le_mono_r; lia. }
  { lia. }
  assert (J6 : j <= 6).
  { destruct J2 as [->|J2]; [lia|]. destruct (Z_le_gt_dec j 6) as [L|G]; [exact L|]. exfalso.
    assert (10 ^ 7 <= 10 ^ j) by (apply Z.pow_le_mono_r; lia). lia. }
  set (M := 10 ^ (P - j)) in *.
  assert (HM : 1 <= M <= 1000000000).
  { unfold M. split.
    - change 1 with (10 ^ 0). apply Z.pow_le_mono_r; lia.
    - change 1000000000 with (10 ^ 9). apply Z.pow_le_mono_r; lia. }
  assert (MR : IZR M = p10 (P - j)) by (apply IZR_pow10; lia).
  pose proof (decimal_core y M Vy Fy HY32 HM) as DC. cbv zeta in DC.
  destruct DC as [_ [HD HE]]. fold Y in HE.
  unfold decompose_float. rewrite Hn. cbv beta iota zeta. rewrite RP. cbv beta iota zeta. fold M.
  set (D := wrapZu 32 _) in *. set (I := to_u32 y) in *.
  change (10 ^ 7) with 10000000 in I7.
  (* the value before carry handling *)
  assert (Main : forall I' d' e',
     ((IZR I' + IZR d' * p10 (- (P - j))) * p10 e' = (IZR I + IZR D * p10 (- (P - j))) * p10 e)%R ->
     0 <= d' < M -> 0 <= I' <= 10000000 -> -512 <= e' <= 512 ->
     let p := (let '(decimal, places) := strip_zeros 12 d' (P - j) in
         {| fp_integral := I'; fp_decimal := decimal; fp_exponent := e'; fp_places := places |}) in
     parts_wf p /\
     exists j, 0 <= j <= 6 /\ (j = 0 \/ (p10 j <= Y)%R) /\
     (Rabs (parts_value p - Y * p10 e) <= (/ 2 + / 1000000) * p10 (j - P) * p10 e)%R).
  { intros I' d' e' EQ Hd' HI' He'.
    destruct (strip_zeros_spec 12 d' (P - j) Hd') as [S1 [S2 S3]]; [lia|].
    destruct (strip_zeros 12 d' (P - j)) as [dd pp]. cbn [fst snd] in S1, S2, S3.
    cbv zeta. split.
    { unfold parts_wf. cbn [fp_integral fp_decimal fp_exponent fp_places]. lia. }
    exists j. split; [lia|]. split.
    { destruct J2 as [->|J2]; [left; reflexivity|]. right. rewrite <- IZR_pow10 by lia.
      apply Rle_trans with (IZR I); [apply IZR_le; exact J2|]. rewrite EI. apply Zfloor_lb. }
    unfold parts_value. cbn [fp_integral fp_decimal fp_exponent fp_places].
    unfold Rdiv. rewrite <- p10_opp, S3, EQ.
    assert (P0 : (0 < p10 e)%R) by apply p10_pos.
    assert (P1 : (0 < p10 (- (P - j)))%R) by apply p10_pos.
    replace ((IZR I + IZR D * p10 (- (P - j))) * p10 e - Y * p10 e)%R
      with ((IZR D - (Y - IZR I) * IZR M) * p10 (- (P - j)) * p10 e)%R.
    2:{ rewrite MR. transitivity ((IZR D * p10 (- (P - j)) - (Y - IZR I) * (p10 (P - j) * p10 (- (P - j)))) * p10 e)%R;
          [ring | rewrite p10_inv_l; ring]. }
    rewrite !Rabs_mult, (Rabs_pos_eq (p10 e)), (Rabs_pos_eq (p10 (- (P - j)))) by lra.
    replace (j - P) with (- (P - j)) by ring.
    apply Rmult_le_compat_r; [lra|]. apply Rmult_le_compat_r; [lra|]. exact HE. }
  cbv zeta in Main.
  destruct (Z.leb_spec M D) as [Carry|NoCarry].
  - assert (DM : D = M) by lia.
    assert (I1 : wrapZu 32 (I + 1) = I + 1).
    { unfold wrapZu. change (2 ^ 32) with 4294967296. apply Z.mod_small. lia. }
    rewrite I1.
    assert (V1 : ((IZR (I + 1) + IZR 0 * p10 (- (P - j))) * p10 e
                  = (IZR I + IZR D * p10 (- (P - j))) * p10 e)%R).
    { rewrite DM, MR, p10_inv_l, plus_IZR. ring. }
    destruct (negb (e =? 0) && (10 <=? I + 1)) eqn:Big.
    + apply andb_prop in Big. destruct Big as [B1 B2].
      apply negb_true_iff, Z.eqb_neq in B1. apply Z.leb_le in B2.
      destruct Hsm as [E0|Sm]; [contradiction|].
      assert (I10 : I < 11).
      { apply lt_IZR. rewrite EI. apply Rle_lt_trans with Y; [apply Zfloor_lb | lra]. }
      assert (I9 : I = 9).
      { destruct (Z.eq_dec I 10) as [E10|N10]; [|lia]. exfalso.
        rewrite DM, E10 in HE. apply Rabs_le_inv in HE.
        assert (1 <= IZR M)%R by (apply IZR_le; lia).
        assert (0 <= Y - 10)%R by (rewrite <- E10, EI; pose proof (Zfloor_lb Y); lra).
        assert ((Y - 10) * IZR M <= / 1000 * IZR M)%R by (apply Rmult_le_compat_r; lra).
        lra. }
      rewrite wrapZs16_small by lia.
      apply Main; [|lia|lia|lia]. rewrite DM, MR, p10_inv_l, I9, p10_plus, p10_1. ring.
    + apply Main; [exact V1 | lia | lia | lia].
  - apply Main; [reflexivity | lia | lia | lia].
Qed.

(* ------------------------------------------------------------------------------------------ *)
(* Part 3 — accuracy of the printed parts                                                       *)
(* ------------------------------------------------------------------------------------------ *)

Lemma p10_m9 : p10 (-9) = 1e-9%R.
Proof. unfold p10. cbn. lra. Qed.

Lemma p10_m6 : p10 (-6) = 1e-6%R.
Proof. unfold p10. cbn. lra. Qed.

(* P3: P decimal places, 6 <= P <= 9 *)
Theorem decompose_full_gen : forall x P, valid F64 x -> FloatModel.is_finite x = true ->
  (0 < sfr x)%R -> (p10 (-300) <= sfr x <= p10 300)%R -> 6 <= P <= 9 ->
  parts_wf (decompose_float F64 x P) /\
  (Rabs (parts_value (decompose_float F64 x P) - sfr x) <= p10 (- P) * Rmax 1 (sfr x))%R.
Proof.
  intros x P Vx Fx Hpos Hr HP. set (X := sfr x) in *.
  assert (Q0 : (0 < p10 (- P))%R) by apply p10_pos.
  assert (Q9 : (1e-9 <= p10 (- P))%R) by (rewrite <- p10_m9; apply p10_mono; lia).
  pose proof (Rmax_l 1 X) as M1. pose proof (Rmax_r 1 X) as MX.
  destruct (normalize64_spec x Vx Fx Hpos Hr) as [NO|[Hn Hlt]].
  - destruct (normalize F64 x) as [y e] eqn:Hn. cbn [fst snd] in NO.
    destruct NO as [Vy [Fy [He [W [B1 B2]]]]]. fold X in W. set (Y := sfr y) in *.
    pose proof u64_up as Uu. pose proof u64_dn as Ud.
    destruct (decompose_core x y e P Hn Vy Fy) as [WF [j [Hj [J E1]]]]; try assumption.
    { fold Y. lra. } { right. fold Y. lra. }
    split; [exact WF|]. fold Y in J, E1.
    assert (Pe : (0 < p10 e)%R) by apply p10_pos.
    set (Zv := (Y * p10 e)%R) in *.
    (* Zv is X up to the accumulated rounding *)
    assert (WZ : ((1 - 2e-15) * X <= Zv <= (1 + 2e-15) * X)%R).
    { destruct W as [W1 W2]. unfold Zv.
      assert (EX : (X * p10 (- e) * p10 e = X)%R).
      { rewrite Rmult_assoc, (Rmult_comm (p10 (- e))), p10_inv_l. ring. }
      split.
      - apply Rle_trans with ((1 - u64) ^ 18 * (X * p10 (- e)) * p10 e)%R.
        + rewrite Rmult_assoc, EX. apply Rmult_le_compat_r; lra.
        + apply Rmult_le_compat_r; lra.
      - apply Rle_trans with ((1 + u64) ^ 18 * (X * p10 (- e)) * p10 e)%R.
        + apply Rmult_le_compat_r; lra.
        + rewrite Rmult_assoc, EX. apply Rmult_le_compat_r; lra. }
    (* 10^j is at most Y up to the same *)
    assert (JY : (p10 j * (1 - 2e-15) <= Y)%R).
    { destruct J as [->|J]; [rewrite p10_0; lra|].
      assert (0 < p10 j)%R by apply p10_pos. nra. }
    assert (E2 : ((/ 2 + / 1000000) * p10 (j - P) * p10 e <= 51 / 100 * p10 (- P) * X)%R).
    { replace (j - P) with (- P + j) by ring. rewrite p10_plus.
      assert (JZ : (p10 j * p10 e * (1 - 2e-15) <= Zv)%R).
      { unfold Zv. replace (p10 j * p10 e * (1 - 2e-15))%R with ((p10 j * (1 - 2e-15)) * p10 e)%R by ring.
        apply Rmult_le_compat_r; lra. }
      assert (JX : (p10 j * p10 e <= 101 / 100 * X)%R) by lra.
      replace ((/ 2 + / 1000000) * (p10 (- P) * p10 j) * p10 e)%R
        with ((/ 2 + / 1000000) * p10 (- P) * (p10 j * p10 e))%R by ring.
      apply Rle_trans with ((/ 2 + / 1000000) * p10 (- P) * (101 / 100 * X))%R.
      - apply Rmult_le_compat_l; [|exact JX]. apply Rmult_le_pos; lra.
      - assert (0 <= p10 (- P) * X)%R by (apply Rmult_le_pos; lra). nra. }
    replace (parts_value (decompose_float F64 x P) - X)%R
      with ((parts_value (decompose_float F64 x P) - Zv) + (Zv - X))%R by ring.
    apply Rle_trans with (1 := Rabs_triang _ _).
    assert (E3 : (Rabs (Zv - X) <= 2e-15 * X)%R) by (apply Rabs_le; lra).
    apply Rle_trans with (p10 (- P) * X)%R; [|apply Rmult_le_compat_l; lra].
    assert (E4 : (2e-15 * X <= 49 / 100 * p10 (- P) * X)%R).
    { apply Rmult_le_compat_r; lra. }
    lra.
  - destruct (decompose_core x x 0 P Hn Vx Fx) as [WF [j [Hj [J E1]]]]; try assumption.
    { fold X. fold X in Hlt. lra. } { lia. } { left; reflexivity. }
    split; [exact WF|]. fold X in J, E1. rewrite p10_0, !Rmult_1_r in E1.
    apply Rle_trans with (1 := E1).
    replace (j - P) with (- P + j) by ring. rewrite p10_plus.
    assert (JM : (p10 j <= Rmax 1 X)%R).
    { destruct J as [->|J]; [rewrite p10_0; exact M1 | lra]. }
    apply Rle_trans with (1 * (p10 (- P) * p10 j))%R; [|rewrite Rmult_1_l; apply Rmult_le_compat_l; lra].
    apply Rmult_le_compat_r; [|lra].
    apply Rmult_le_pos; left; apply p10_pos.
Qed.

Theorem decompose_accuracy_gen : forall x P, valid F64 x -> FloatModel.is_finite x = true ->
  (0 < sfr x)%R -> (p10 (-300) <= sfr x <= p10 300)%R -> 6 <= P <= 9 ->
  (Rabs (parts_value (decompose_float F64 x P) - sfr x) <= p10 (- P) * Rmax 1 (sfr x))%R.
Proof. intros x P Vx Fx Hpos Hr HP. apply (decompose_full_gen x P Vx Fx Hpos Hr HP). Qed.

(* a double: 9 decimal places *)
Theorem decompose_accuracy_double : forall x, valid F64 x -> FloatModel.is_finite x = true ->
  (0 < sfr x)%R -> (p10 (-300) <= sfr x <= p10 300)%R ->
  (Rabs (parts_value (decompose_float F64 x 9) - sfr x) <= 1e-9 * Rmax 1 (sfr x))%R.
Proof.
  intros x Vx Fx Hpos Hr. rewrite <- p10_m9.
  apply (decompose_accuracy_gen x 9 Vx Fx Hpos Hr). lia.
Qed.

(* a float (binary32), converted to double by JsonFloat(value): 6 decimal places *)
Theorem decompose_accuracy_float : forall v, valid F32 v -> FloatModel.is_finite v = true ->
  (0 < sfr v)%R -> (p10 (-300) <= sfr v <= p10 300)%R ->
  (Rabs (parts_value (decompose_float F64 (fconv F64 v) 6) - sfr v) <= 1e-6 * Rmax 1 (sfr v))%R.
Proof.
  intros v Vv Fv Hpos Hr. destruct (fconv64_of32 v Vv Fv) as [C1 [C2 C3]].
  rewrite <- C1 in Hpos, Hr |- *. rewrite <- p10_m6.
  apply (decompose_accuracy_gen (fconv F64 v) 6 C2 C3 Hpos Hr). lia.
Qed.

(* ------------------------------------------------------------------------------------------ *)
(* Part 4 — the printed text                                                                    *)
(* ------------------------------------------------------------------------------------------ *)
From AJ Require Import Proofs.JsonSerRT.

(* a literal  [-] i [. f] [e [-] e]  and the number it spells; [f = []] / [e = []] : part absent *)
Definition lit_text (neg : bool) (i f : bytes) (eneg : bool) (e : bytes) : bytes :=
  (if neg then [45%N] else []) ++ i ++
  (match f with [] => [] | _ => 46%N :: f end) ++
  (match e with [] => [] | _ => 101%N :: (if eneg then [45%N] else []) ++ e end).

Definition lit_value (neg : bool) (i f : bytes) (eneg : bool) (e : bytes) : R :=
  (sgnR neg * ((IZR (digits_value i) + IZR (digits_value f) / p10 (Z.of_nat (length f)))
               * p10 ((if eneg then -1 else 1) * digits_value e)))%R.

Lemma decimals_rev_spec : forall w z, 0 <= z < 10 ^ Z.of_nat w ->
  digits_value (rev (decimals_rev w z)) = z /\
  Forall is_digit_byte (rev (decimals_rev w z)) /\
  length (rev (decimals_rev w z)) = w.
Proof.
  induction w as [|w IH]; intros z Hz.
  - change (10 ^ Z.of_nat 0) with 1 in Hz. cbn. split; [lia|]. split; [constructor | reflexivity].
  - cbn [decimals_rev rev].
    assert (Hm : 0 <= z mod 10 < 10) by (apply Z.mod_pos_bound; lia).
    assert (Hdiv : z = 10 * (z / 10) + z mod 10) by (apply Z_div_mod_eq_full).
    rewrite pow10_succ in Hz.
    destruct (IH (z / 10)) as [V [F L]].
    { split; [apply Z.div_pos; lia | apply Z.div_lt_upper_bound; lia]. }
    rewrite digits_value_snoc, V. split; [lia|]. split.
    + apply Forall_app. split; [exact F|]. constructor; [|constructor]. unfold is_digit_byte. lia.
    + rewrite app_length, L. cbn. lia.
Qed.

(* the unsigned body printed by write_float, from the parts *)
Definition body_text (p : float_parts) : bytes :=
  write_uint (fp_integral p) ++
  (if negb (fp_places p =? 0) then write_decimals (fp_decimal p) (Z.to_nat (fp_places p)) else []) ++
  (if negb (fp_exponent p =? 0) then 101%N :: write_int (fp_exponent p) else []).

Lemma body_text_lit : forall p, parts_wf p ->
  exists i f eneg e, body_text p = lit_text false i f eneg e /\
    Forall is_digit_byte i /\ i <> [] /\ Forall is_digit_byte f /\ Forall is_digit_byte e /\
    lit_value false i f eneg e = parts_value p.
Proof.
  intros [I D E PL] [HI [HP [HD HE]]]. cbn [fp_integral fp_decimal fp_exponent fp_places] in *.
  assert (P64 : 10000000 < 2 ^ 64) by (vm_compute; reflexivity).
  destruct (write_uint_value I) as [IV [IF [INE _]]]; [lia|].
  set (f := if PL =? 0 then [] else rev (decimals_rev (Z.to_nat PL) D)).
  set (e := if E =? 0 then [] else write_uint (Z.abs E)).
  exists (write_uint I), f, (E <? 0), e.
  assert (Ff : Forall is_digit_byte f /\ (PL <> 0 -> f <> []) /\
               (IZR (digits_value f) / p10 (Z.of_nat (length f)) = IZR D / p10 PL)%R).
  { unfold f. destruct (Z.eqb_spec PL 0) as [E0|N0].
    - subst PL. change (10 ^ 0) with 1 in HD. assert (D = 0) by lia. subst D.
      split; [constructor|]. split; [congruence|]. reflexivity.
    - destruct (decimals_rev_spec (Z.to_nat PL) D) as [V [F L]]; [rewrite Z2Nat.id by lia; exact HD|].
      split; [exact F|]. split.
      + intros _ Hnil. rewrite Hnil in L. cbn in L. lia.
      + rewrite V, L, Z2Nat.id by lia. reflexivity. }
  destruct Ff as [Ff [Fne Fv]].
  assert (Fe : Forall is_digit_byte e /\ (E <> 0 -> e <> []) /\
               (if E <? 0 then -1 else 1) * digits_value e = E).
  { unfold e. destruct (Z.eqb_spec E 0) as [E0|N0].
    - subst E. split; [constructor|]. split; [congruence|]. reflexivity.
    - destruct (write_uint_value (Z.abs E)) as [V [F [NE _]]]; [lia|].
      split; [exact F|]. split; [intros _; exact NE|]. rewrite V.
      destruct (Z.ltb_spec E 0); lia. }
  destruct Fe as [Fe [Ene Ev]].
  split; [|split; [exact IF|]; split; [exact INE|]; split; [exact Ff|]; split; [exact Fe|]].
  - unfold body_text, lit_text. cbn [fp_integral fp_decimal fp_exponent fp_places app].
    f_equal. f_equal.
    + destruct (Z.eqb_spec PL 0) as [E0|N0]; cbn [negb].
      * reflexivity.
      * specialize (Fne N0). unfold write_decimals. unfold f in Fne |- *.
        destruct (rev (decimals_rev (Z.to_nat PL) D)) as [|b t]; [congruence | reflexivity].
    + destruct (Z.eqb_spec E 0) as [E0|N0]; cbn [negb].
      * reflexivity.
      * specialize (Ene N0). rewrite write_int_spec by lia. unfold e in Ene |- *.
        destruct (write_uint (Z.abs E)) as [|b t]; [congruence | reflexivity].
  - unfold lit_value, parts_value. cbn [fp_integral fp_decimal fp_exponent fp_places sgnR].
    rewrite IV, Fv, Ev. ring.
Qed.

Lemma finite_not_special : forall x, FloatModel.is_finite x = true ->
  is_nan x = false /\ is_inf x = false /\ is_inf (fneg x) = false.
Proof. intros [s|s| |s m e] F; try discriminate; repeat split. Qed.

Lemma write_float_body : forall c x P, FloatModel.is_finite x = true ->
  write_float c x P =
  (if f_lt x f_zero then [45%N] else []) ++
  body_text (decompose_float (jfmt c) (if f_lt x f_zero then fneg x else x) P).
Proof.
  intros c x P Fx. destruct (finite_not_special x Fx) as [N1 [N2 N3]].
  unfold write_float, body_text. rewrite N1.
  assert (N4 : is_inf (if f_lt x f_zero then fneg x else x) = false)
    by (destruct (f_lt x f_zero); assumption).
  destruct (enable_inf c); [rewrite N4 | rewrite N2]; reflexivity.
Qed.

(* P4: the text written for a finite non-zero double, P decimal places *)
Theorem write_float_accuracy_gen : forall c x P, use_double c = true ->
  valid F64 x -> FloatModel.is_finite x = true ->
  (p10 (-300) <= Rabs (sfr x) <= p10 300)%R -> 6 <= P <= 9 ->
  exists neg i f eneg e, write_float c x P = lit_text neg i f eneg e /\
    Forall is_digit_byte i /\ i <> [] /\ Forall is_digit_byte f /\ Forall is_digit_byte e /\
    (Rabs (lit_value neg i f eneg e - sfr x) <= p10 (- P) * Rmax 1 (Rabs (sfr x)))%R.
Proof.
  intros c x P Hc Vx Fx Hr HP.
  rewrite (write_float_body c x P Fx). unfold jfmt. rewrite Hc.
  assert (VZ : valid F64 f_zero) by (vm_compute; reflexivity).
  destruct (f_lt_R F64 x f_zero good_F64 Vx VZ Fx eq_refl) as [G1 G2].
  change (sfr f_zero) with 0%R in G1, G2.
  assert (Hp : (0 < Rabs (sfr x))%R) by (apply Rlt_le_trans with (2 := proj1 Hr); apply p10_pos).
  set (neg := f_lt x f_zero) in *.
  destruct (sgn_sf_props F64 neg x Vx Fx) as [S1 [S2 S3]]. unfold sgn_sf in S1, S2, S3.
  set (x' := if neg then fneg x else x) in *.
  assert (AX : sfr x' = Rabs (sfr x)).
  { rewrite S3. destruct neg; cbn [sgnR].
    - specialize (G1 eq_refl). rewrite Rabs_left by exact G1. ring.
    - specialize (G2 eq_refl). rewrite Rabs_pos_eq by exact G2. ring. }
  assert (XS : sfr x = (sgnR neg * sfr x')%R).
  { rewrite S3. destruct neg; cbn [sgnR]; ring. }
  destruct (decompose_full_gen x' P S1 S2) as [WF ACC]; [rewrite AX; exact Hp | rewrite AX; exact Hr | exact HP |].
  destruct (body_text_lit _ WF) as [i [f [eneg [e [T [Di [Ni [Df [De V]]]]]]]]].
  exists neg, i, f, eneg, e. rewrite T.
  split; [unfold lit_text; destruct neg; reflexivity|].
  split; [exact Di|]. split; [exact Ni|]. split; [exact Df|]. split; [exact De|].
  rewrite <- AX. rewrite XS at 1.
  replace (lit_value neg i f eneg e) with (sgnR neg * lit_value false i f eneg e)%R
    by (unfold lit_value; cbn [sgnR]; ring).
  rewrite V. apply sgn_err. exact ACC.
Qed.

(* writeFloat(double): 9 decimal places, within 1e-9 * max(1,|x|) *)
Theorem write_f64_accuracy : forall c x, use_double c = true ->
  valid F64 x -> FloatModel.is_finite x = true ->
  (p10 (-300) <= Rabs (sfr x) <= p10 300)%R ->
  exists neg i f eneg e, write_f64 c x = lit_text neg i f eneg e /\
    Forall is_digit_byte i /\ i <> [] /\ Forall is_digit_byte f /\ Forall is_digit_byte e /\
    (Rabs (lit_value neg i f eneg e - sfr x) <= 1e-9 * Rmax 1 (Rabs (sfr x)))%R.
Proof.
  intros c x Hc Vx Fx Hr. unfold write_f64, jfmt. rewrite Hc.
  destruct (fconv64_id x Vx Fx) as [C1 [C2 C3]]. rewrite <- C1 in Hr |- *. rewrite <- p10_m9.
  apply (write_float_accuracy_gen c (fconv F64 x) 9 Hc C2 C3 Hr). lia.
Qed.

(* writeFloat(float): the binary32 value is widened to double, 6 decimal places,
   within 1e-6 * max(1,|x|) *)
Theorem write_f32_accuracy : forall c v, use_double c = true ->
  valid F32 v -> FloatModel.is_finite v = true ->
  (p10 (-300) <= Rabs (sfr v) <= p10 300)%R ->
  exists neg i f eneg e, write_f32 c v = lit_text neg i f eneg e /\
    Forall is_digit_byte i /\ i <> [] /\ Forall is_digit_byte f /\ Forall is_digit_byte e /\
    (Rabs (lit_value neg i f eneg e - sfr v) <= 1e-6 * Rmax 1 (Rabs (sfr v)))%R.
Proof.
  intros c v Hc Vv Fv Hr. unfold write_f32, jfmt. rewrite Hc.
  destruct (fconv64_of32 v Vv Fv) as [C1 [C2 C3]]. rewrite <- C1 in Hr |- *. rewrite <- p10_m6.
  apply (write_float_accuracy_gen c (fconv F64 v) 6 Hc C2 C3 Hr). lia.
Qed.

(* the same through the serializer entry points *)
Corollary ser_double_accuracy : forall c x, use_double c = true ->
  valid F64 x -> FloatModel.is_finite x = true ->
  (p10 (-300) <= Rabs (sfr x) <= p10 300)%R ->
  exists neg i f eneg e, ser c (JDouble x) = lit_text neg i f eneg e /\
    (Rabs (lit_value neg i f eneg e - sfr x) <= 1e-9 * Rmax 1 (Rabs (sfr x)))%R.
Proof.
  intros c x Hc Vx Fx Hr.
  destruct (write_f64_accuracy c x Hc Vx Fx Hr) as [neg [i [f [eneg [e [T [_ [_ [_ [_ A]]]]]]]]]].
  exists neg, i, f, eneg, e. split; [exact T | exact A].
Qed.

Corollary ser_float_accuracy : forall c v, use_double c = true ->
  valid F32 v -> FloatModel.is_finite v = true ->
  (p10 (-300) <= Rabs (sfr v) <= p10 300)%R ->
  exists neg i f eneg e, ser c (JFloat v) = lit_text neg i f eneg e /\
    (Rabs (lit_value neg i f eneg e - sfr v) <= 1e-6 * Rmax 1 (Rabs (sfr v)))%R.
Proof.
  intros c v Hc Vv Fv Hr.
  destruct (write_f32_accuracy c v Hc Vv Fv Hr) as [neg [i [f [eneg [e [T [_ [_ [_ [_ A]]]]]]]]]].
  exists neg, i, f, eneg, e. split; [exact T | exact A].
Qed.
