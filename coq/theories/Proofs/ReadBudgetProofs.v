(* ReadBudgetProofs.v — reading a document when only b slots can be had (read_budget, Model/CopyBudget.v):
   the reader answers Ok iff the slots suffice; otherwise (NoMemory) the document holds a reader-truncation of the
   value the input denotes (a prefix of complete elements/members and possibly one more, itself cut short), at most one
   slot is neither in the document nor free, more slots only make the document grow, a failed read is never the
   whole value, and the copy under the same budget never keeps more than the reader. *)
From Coq Require Import List NArith ZArith Bool Arith Lia.
From AJ Require Import Model.Base Model.Value Model.CopyBudget Proofs.CopyBudgetProofs.
Import ListNotations.

(* ------------------------------------------------------------------------------------------------ *)
(* the inner loops as functions of their own                                                         *)
(* ------------------------------------------------------------------------------------------------ *)
Fixpoint read_arr (l : list jv) (acc : list jv) (b : nat) : jv * nat * bool :=
  match l with
  | [] => (JArr (rev_append acc []), b, true)
  | e :: t =>
      match b with
      | O => (JArr (rev_append acc []), O, false)
      | S b1 =>
          let '(pe, b', ok) := read_budget e b1 in
          if ok then read_arr t (pe :: acc) b'
          else (JArr (rev_append (pe :: acc) []), b', false)
      end
  end.

Fixpoint read_obj (l : list (bytes * jv)) (acc : list (bytes * jv)) (b : nat) : jv * nat * bool :=
  match l with
  | [] => (JObj (rev_append acc []), b, true)
  | (k, e) :: t =>
      match b with
      | O => (JObj (rev_append acc []), O, false)
      | S O => (JObj (rev_append acc []), O, false)
      | S (S b2) =>
          let '(pe, b', ok) := read_budget e b2 in
          if ok then read_obj t ((k, pe) :: acc) b'
          else (JObj (rev_append ((k, pe) :: acc) []), b', false)
      end
  end.

Lemma read_budget_JArr : forall l b, read_budget (JArr l) b = read_arr l [] b.
Proof. reflexivity. Qed.

Lemma read_budget_JObj : forall l b, read_budget (JObj l) b = read_obj l [] b.
Proof. reflexivity. Qed.

(* the same loops without the accumulator: (elements/members in the document, slots still free, Ok?) *)
Fixpoint rda (l : list jv) (b : nat) : list jv * nat * bool :=
  match l with
  | [] => ([], b, true)
  | e :: t =>
      match b with
      | O => ([], O, false)
      | S b1 =>
          let '(pe, b', ok) := read_budget e b1 in
          if ok then let '(p, r, ok') := rda t b' in (pe :: p, r, ok')
          else ([pe], b', false)
      end
  end.

Fixpoint rdo (l : list (bytes * jv)) (b : nat) : list (bytes * jv) * nat * bool :=
  match l with
  | [] => ([], b, true)
  | (k, e) :: t =>
      match b with
      | O => ([], O, false)
      | S O => ([], O, false)
      | S (S b2) =>
          let '(pe, b', ok) := read_budget e b2 in
          if ok then let '(p, r, ok') := rdo t b' in ((k, pe) :: p, r, ok')
          else ([(k, pe)], b', false)
      end
  end.

Lemma read_arr_rda : forall l acc b,
  read_arr l acc b = let '(p, r, ok) := rda l b in (JArr (rev acc ++ p), r, ok).
Proof.
  induction l as [|e t IH]; intros acc b.
  - cbn [read_arr rda]. rewrite rev_append_rev. reflexivity.
  - destruct b as [|b1]; cbn [read_arr rda].
    + rewrite rev_append_rev. reflexivity.
    + destruct (read_budget e b1) as [[pe b'] ok]. destruct ok.
      * rewrite IH. destruct (rda t b') as [[p r] ok']. cbn [rev]. rewrite <- app_assoc. reflexivity.
      * rewrite rev_append_rev. cbn [rev]. rewrite app_nil_r. reflexivity.
Qed.

Lemma read_obj_rdo : forall l acc b,
  read_obj l acc b = let '(p, r, ok) := rdo l b in (JObj (rev acc ++ p), r, ok).
Proof.
  induction l as [|[k e] t IH]; intros acc b.
  - cbn [read_obj rdo]. rewrite rev_append_rev. reflexivity.
  - destruct b as [|[|b2]]; cbn [read_obj rdo].
    + rewrite rev_append_rev. reflexivity.
    + rewrite rev_append_rev. reflexivity.
    + destruct (read_budget e b2) as [[pe b'] ok]. destruct ok.
      * rewrite IH. destruct (rdo t b') as [[p r] ok']. cbn [rev]. rewrite <- app_assoc. reflexivity.
      * rewrite rev_append_rev. cbn [rev]. rewrite app_nil_r. reflexivity.
Qed.

Lemma read_JArr : forall l b,
  read_budget (JArr l) b = let '(p, r, ok) := rda l b in (JArr p, r, ok).
Proof. intros. rewrite read_budget_JArr, read_arr_rda. reflexivity. Qed.

Lemma read_JObj : forall l b,
  read_budget (JObj l) b = let '(p, r, ok) := rdo l b in (JObj p, r, ok).
Proof. intros. rewrite read_budget_JObj, read_obj_rdo. reflexivity. Qed.

(* a scalar is read whole when its extension slot (if it needs one) can be had; otherwise the document holds null *)
Lemma read_scalar_cases : forall v b, scalar v ->
  (slots v <= b /\ read_budget v b = (v, b - slots v, true)) \/
  (slots v = 1 /\ ext v = 1 /\ b = 0 /\ read_budget v b = (JNull, 0, false)).
Proof.
  intros v b Hs. rewrite (slots_scalar v Hs).
  assert (HE : read_budget v b = scalar_budget v b) by (destruct v; try contradiction; reflexivity).
  rewrite HE. destruct (scalar_budget_cases v b) as [[H1 H2]|[H1 [H2 H3]]]; [left|right]; auto.
Qed.

(* the reader and the copy treat scalars alike *)
Lemma copy_read_scalar : forall v b, scalar v -> copy_budget v b = read_budget v b.
Proof. intros v b Hs. destruct v; try contradiction; reflexivity. Qed.

(* ------------------------------------------------------------------------------------------------ *)
(* 1. enough slots: the read is Ok, the document is the value and exactly slots v are taken;          *)
(*    Ok iff enough                                                                                  *)
(* ------------------------------------------------------------------------------------------------ *)
Definition rcomplete_at (v : jv) : Prop :=
  forall b, slots v <= b -> read_budget v b = (v, b - slots v, true).

Lemma rda_enough : forall l, Forall rcomplete_at l ->
  forall b, slots_arr l <= b -> rda l b = (l, b - slots_arr l, true).
Proof.
  induction l as [|e t IH]; intros HF b Hb; cbn [rda slots_arr] in *.
  - rewrite Nat.sub_0_r. reflexivity.
  - inversion HF as [|? ? He Ht]; subst.
    destruct b as [|b1]; [lia|].
    rewrite (He b1) by lia. rewrite (IH Ht) by lia.
    f_equal. f_equal. lia.
Qed.

Lemma rdo_enough : forall l, Forall (fun kv => rcomplete_at (snd kv)) l ->
  forall b, slots_obj l <= b -> rdo l b = (l, b - slots_obj l, true).
Proof.
  induction l as [|[k e] t IH]; intros HF b Hb; cbn [rdo slots_obj] in *.
  - rewrite Nat.sub_0_r. reflexivity.
  - inversion HF as [|? ? He Ht]; subst. cbn [snd] in He.
    destruct b as [|[|b2]]; [lia|lia|].
    rewrite (He b2) by lia. rewrite (IH Ht) by lia.
    f_equal. f_equal. lia.
Qed.

Lemma read_enough_scalar : forall v, scalar v -> rcomplete_at v.
Proof.
  intros v Hs n Hn. destruct (read_scalar_cases v n Hs) as [[_ HSeq]|[HS1 [_ [HSb _]]]]; [exact HSeq|lia].
Qed.

Theorem read_enough : forall v b,
  slots v <= b -> read_budget v b = (v, b - slots v, true).
Proof.
  intros v. change (rcomplete_at v).
  induction v using jv_ind_cb; try (apply read_enough_scalar; exact I).
  - intros n Hn. rewrite slots_JArr in *. rewrite read_JArr, (rda_enough l H n Hn). reflexivity.
  - intros n Hn. rewrite slots_JObj in *. rewrite read_JObj, (rdo_enough l H n Hn). reflexivity.
Qed.

Lemma rda_enough' : forall l b, slots_arr l <= b -> rda l b = (l, b - slots_arr l, true).
Proof. intros l. apply rda_enough, Forall_forall. intros e _ b. apply read_enough. Qed.

Lemma rdo_enough' : forall l b, slots_obj l <= b -> rdo l b = (l, b - slots_obj l, true).
Proof. intros l. apply rdo_enough, Forall_forall. intros e _ b. apply read_enough. Qed.

Definition rfails_at (v : jv) : Prop := forall b, b < slots v -> snd (read_budget v b) = false.

Lemma rda_short : forall l, Forall rfails_at l ->
  forall b, b < slots_arr l -> snd (rda l b) = false.
Proof.
  induction l as [|e t IH]; intros HF b Hb; cbn [rda slots_arr] in *; [lia|].
  inversion HF as [|? ? He Ht]; subst.
  destruct b as [|b1]; [reflexivity|].
  destruct (le_lt_dec (slots e) b1) as [Hle|Hlt].
  - rewrite (read_enough e b1 Hle).
    specialize (IH Ht (b1 - slots e)). destruct (rda t (b1 - slots e)) as [[p r] ok'].
    cbn [snd] in *. apply IH. lia.
  - specialize (He b1 Hlt). destruct (read_budget e b1) as [[pe b'] ok]. cbn [snd] in He. subst ok.
    reflexivity.
Qed.

Lemma rdo_short : forall l, Forall (fun kv => rfails_at (snd kv)) l ->
  forall b, b < slots_obj l -> snd (rdo l b) = false.
Proof.
  induction l as [|[k e] t IH]; intros HF b Hb; cbn [rdo slots_obj] in *; [lia|].
  inversion HF as [|? ? He Ht]; subst. cbn [snd] in He.
  destruct b as [|[|b2]]; [reflexivity|reflexivity|].
  destruct (le_lt_dec (slots e) b2) as [Hle|Hlt].
  - rewrite (read_enough e b2 Hle).
    specialize (IH Ht (b2 - slots e)). destruct (rdo t (b2 - slots e)) as [[p r] ok'].
    cbn [snd] in *. apply IH. lia.
  - specialize (He b2 Hlt). destruct (read_budget e b2) as [[pe b'] ok]. cbn [snd] in He. subst ok.
    reflexivity.
Qed.

Lemma read_short_scalar : forall v, scalar v -> rfails_at v.
Proof.
  intros v Hs n Hn. destruct (read_scalar_cases v n Hs) as [[HSle _]|[_ [_ [_ HSeq]]]]; [lia|].
  rewrite HSeq. reflexivity.
Qed.

Theorem read_short : forall v b, b < slots v -> snd (read_budget v b) = false.
Proof.
  intros v. change (rfails_at v).
  induction v using jv_ind_cb; try (apply read_short_scalar; exact I).
  - intros n Hn. rewrite slots_JArr in Hn. rewrite read_JArr.
    pose proof (rda_short l H n Hn) as HS. destruct (rda l n) as [[p r] ok]. exact HS.
  - intros n Hn. rewrite slots_JObj in Hn. rewrite read_JObj.
    pose proof (rdo_short l H n Hn) as HS. destruct (rdo l n) as [[p r] ok]. exact HS.
Qed.

(* Ok iff the slots suffice; otherwise NoMemory *)
Theorem read_ok_iff : forall v b, snd (read_budget v b) = true <-> slots v <= b.
Proof.
  intros v b. split.
  - intros H. destruct (le_lt_dec (slots v) b) as [Hle|Hlt]; [exact Hle|].
    rewrite (read_short v b Hlt) in H. discriminate.
  - intros H. rewrite (read_enough v b H). reflexivity.
Qed.

Lemma read_cases : forall v b,
  (slots v <= b /\ read_budget v b = (v, b - slots v, true)) \/
  (b < slots v /\ exists p r, read_budget v b = (p, r, false)).
Proof.
  intros v b. destruct (le_lt_dec (slots v) b) as [Hle|Hlt].
  - left. split; [exact Hle|]. apply read_enough, Hle.
  - right. split; [exact Hlt|]. pose proof (read_short v b Hlt) as HS.
    destruct (read_budget v b) as [[p r] ok]. cbn [snd] in HS. subst ok. eauto.
Qed.

(* ------------------------------------------------------------------------------------------------ *)
(* 2. what the reader leaves is a reader-truncation of the value                                     *)
(* ------------------------------------------------------------------------------------------------ *)
(* rtrunc p v: p is v as a reader that ran out of slots leaves it.  An array (object) keeps its first n elements
   (members) unchanged and possibly one more, the one that was being read, itself cut short (with the same key).
   A double or a wide integer (ext v = 1) whose extension slot could not be had is null. *)
Inductive rtrunc : jv -> jv -> Prop :=
| rt_refl : forall v, rtrunc v v
| rt_arr_cut : forall p l n, p = firstn n l -> rtrunc (JArr p) (JArr l)
| rt_arr_part : forall p l n e pe,
    p = firstn n l ++ [pe] -> nth_error l n = Some e -> rtrunc pe e -> rtrunc (JArr p) (JArr l)
| rt_obj_cut : forall p l n, p = firstn n l -> rtrunc (JObj p) (JObj l)
| rt_obj_part : forall p l n k e pe,
    p = firstn n l ++ [(k, pe)] -> nth_error l n = Some (k, e) -> rtrunc pe e -> rtrunc (JObj p) (JObj l)
| rt_ext : forall v, ext v = 1 -> rtrunc JNull v.   (* a scalar whose extension slot could not be had: null *)

(* the same for the element and member lists, by recursion on the list *)
Inductive atr : list jv -> list jv -> Prop :=
| at_nil : forall l, atr [] l
| at_part : forall pe e t, rtrunc pe e -> atr [pe] (e :: t)
| at_cons : forall x p l, atr p l -> atr (x :: p) (x :: l).

Inductive otr : list (bytes * jv) -> list (bytes * jv) -> Prop :=
| otr_nil : forall l, otr [] l
| otr_part : forall k pe e t, rtrunc pe e -> otr [(k, pe)] ((k, e) :: t)
| otr_cons : forall x p l, otr p l -> otr (x :: p) (x :: l).

Lemma atr_shape : forall p l, atr p l ->
  (exists n, p = firstn n l) \/
  (exists n e pe, p = firstn n l ++ [pe] /\ nth_error l n = Some e /\ rtrunc pe e).
Proof.
  induction 1 as [l|pe e t HT|x p l HO IH].
  - left. exists 0. reflexivity.
  - right. exists 0, e, pe. auto.
  - destruct IH as [[n Hn]|[n [e [pe [Hp [Hn HT]]]]]].
    + left. exists (S n). cbn [firstn]. rewrite Hn. reflexivity.
    + right. exists (S n), e, pe. cbn [firstn nth_error]. rewrite Hp. auto.
Qed.

Lemma otr_shape : forall p l, otr p l ->
  (exists n, p = firstn n l) \/
  (exists n k e pe, p = firstn n l ++ [(k, pe)] /\ nth_error l n = Some (k, e) /\ rtrunc pe e).
Proof.
  induction 1 as [l|k pe e t HT|x p l HO IH].
  - left. exists 0. reflexivity.
  - right. exists 0, k, e, pe. auto.
  - destruct IH as [[n Hn]|[n [k [e [pe [Hp [Hn HT]]]]]]].
    + left. exists (S n). cbn [firstn]. rewrite Hn. reflexivity.
    + right. exists (S n), k, e, pe. cbn [firstn nth_error]. rewrite Hp. auto.
Qed.

Lemma atr_rtrunc : forall p l, atr p l -> rtrunc (JArr p) (JArr l).
Proof.
  intros p l H. destruct (atr_shape p l H) as [[n Hn]|[n [e [pe [Hp [Hn HT]]]]]].
  - eapply rt_arr_cut; eauto.
  - eapply rt_arr_part; eauto.
Qed.

Lemma otr_rtrunc : forall p l, otr p l -> rtrunc (JObj p) (JObj l).
Proof.
  intros p l H. destruct (otr_shape p l H) as [[n Hn]|[n [k [e [pe [Hp [Hn HT]]]]]]].
  - eapply rt_obj_cut; eauto.
  - eapply rt_obj_part; eauto.
Qed.

Lemma atr_refl : forall l, atr l l.
Proof. induction l as [|x l IH]; [apply at_nil|apply at_cons, IH]. Qed.

Lemma otr_refl : forall l, otr l l.
Proof. induction l as [|x l IH]; [apply otr_nil|apply otr_cons, IH]. Qed.

Definition rtrunc_at (v : jv) : Prop := forall b, rtrunc (fst (fst (read_budget v b))) v.

Lemma rda_atr : forall l, Forall rtrunc_at l -> forall b, atr (fst (fst (rda l b))) l.
Proof.
  induction l as [|e t IH]; intros HF b; cbn [rda].
  - apply at_nil.
  - inversion HF as [|? ? He Ht]; subst.
    destruct b as [|b1]; [apply at_nil|].
    destruct (read_cases e b1) as [[Hle Heq]|[Hlt [pe [r Heq]]]].
    + rewrite Heq. specialize (IH Ht (b1 - slots e)). destruct (rda t (b1 - slots e)) as [[p r] ok].
      cbn [fst] in *. apply at_cons, IH.
    + specialize (He b1). rewrite Heq in *. cbn [fst] in *. apply at_part, He.
Qed.

Lemma rdo_otr : forall l, Forall (fun kv => rtrunc_at (snd kv)) l -> forall b, otr (fst (fst (rdo l b))) l.
Proof.
  induction l as [|[k e] t IH]; intros HF b; cbn [rdo].
  - apply otr_nil.
  - inversion HF as [|? ? He Ht]; subst. cbn [snd] in He.
    destruct b as [|[|b2]]; [apply otr_nil|apply otr_nil|].
    destruct (read_cases e b2) as [[Hle Heq]|[Hlt [pe [r Heq]]]].
    + rewrite Heq. specialize (IH Ht (b2 - slots e)). destruct (rdo t (b2 - slots e)) as [[p r] ok].
      cbn [fst] in *. apply otr_cons, IH.
    + specialize (He b2). rewrite Heq in *. cbn [fst] in *. apply otr_part, He.
Qed.

Lemma read_rtrunc_scalar : forall v, scalar v -> rtrunc_at v.
Proof.
  intros v Hs n. destruct (read_scalar_cases v n Hs) as [[_ HSeq]|[_ [HSe [_ HSeq]]]]; rewrite HSeq; cbn [fst].
  - apply rt_refl.
  - apply rt_ext, HSe.
Qed.

Theorem read_rtrunc : forall v b, rtrunc (fst (fst (read_budget v b))) v.
Proof.
  intros v. change (rtrunc_at v).
  induction v using jv_ind_cb; try (apply read_rtrunc_scalar; exact I).
  - intros n. rewrite read_JArr. pose proof (rda_atr l H n) as HO.
    destruct (rda l n) as [[p r] ok]. cbn [fst] in *. apply atr_rtrunc, HO.
  - intros n. rewrite read_JObj. pose proof (rdo_otr l H n) as HO.
    destruct (rdo l n) as [[p r] ok]. cbn [fst] in *. apply otr_rtrunc, HO.
Qed.

Lemma rda_atr' : forall l b, atr (fst (fst (rda l b))) l.
Proof. intros l. apply rda_atr, Forall_forall. intros e _ b. apply read_rtrunc. Qed.

Lemma rdo_otr' : forall l b, otr (fst (fst (rdo l b))) l.
Proof. intros l. apply rdo_otr, Forall_forall. intros e _ b. apply read_rtrunc. Qed.

(* a reader-truncation never has more slots *)
Lemma slots_arr_firstn : forall n l, slots_arr (firstn n l) <= slots_arr l.
Proof.
  induction n as [|n IH]; intros l; [cbn; lia|].
  destruct l as [|e t]; cbn [firstn slots_arr]; [lia|]. specialize (IH t). lia.
Qed.

Lemma slots_arr_firstn_part : forall n l e pe,
  nth_error l n = Some e -> slots pe <= slots e ->
  slots_arr (firstn n l ++ [pe]) <= slots_arr l.
Proof.
  induction n as [|n IH]; intros l e pe Hn Hs; destruct l as [|e' t]; cbn [nth_error] in Hn; try discriminate.
  - injection Hn as ->. cbn [firstn app slots_arr]. lia.
  - cbn [firstn app slots_arr]. specialize (IH t e pe Hn Hs). lia.
Qed.

Theorem rtrunc_slots : forall p v, rtrunc p v -> slots p <= slots v.
Proof.
  induction 1 as [v|p l n Hp|p l n e pe Hp Hn HT IH|p l n Hp|p l n k e pe Hp Hn HT IH|v Hv].
  - lia.
  - rewrite !slots_JArr. subst p. apply slots_arr_firstn.
  - rewrite !slots_JArr. subst p. eapply slots_arr_firstn_part; eauto.
  - rewrite !slots_JObj. subst p. apply slots_obj_firstn.
  - rewrite !slots_JObj. subst p. eapply slots_obj_firstn_part; eauto.
  - rewrite slots_JNull. lia.
Qed.

(* ------------------------------------------------------------------------------------------------ *)
(* 3. slots are conserved up to one (the lost key slot), exactly when Ok                              *)
(* ------------------------------------------------------------------------------------------------ *)
Definition rconserve_at (v : jv) : Prop :=
  forall b p r ok, read_budget v b = (p, r, ok) -> r + slots p <= b /\ b <= r + slots p + 1.

Lemma rda_conserve : forall l, Forall rconserve_at l ->
  forall b p r ok, rda l b = (p, r, ok) -> r + slots_arr p <= b /\ b <= r + slots_arr p + 1.
Proof.
  induction l as [|e t IH]; intros HF b p r ok Heq; cbn [rda] in Heq.
  - injection Heq as <- <- <-. cbn [slots_arr]. lia.
  - inversion HF as [|? ? He Ht]; subst.
    destruct b as [|b1]; [injection Heq as <- <- <-; cbn [slots_arr]; lia|].
    destruct (read_budget e b1) as [[pe b'] oke] eqn:Ee. destruct oke.
    + pose proof (proj1 (read_ok_iff e b1)) as Hc. rewrite Ee in Hc. specialize (Hc eq_refl).
      rewrite (read_enough e b1 Hc) in Ee. injection Ee as <- <-.
      destruct (rda t (b1 - slots e)) as [[p' r'] ok'] eqn:Et. injection Heq as <- <- <-.
      destruct (IH Ht _ _ _ _ Et) as [H1 H2]. cbn [slots_arr]. lia.
    + injection Heq as <- <- <-. destruct (He _ _ _ _ Ee) as [H1 H2]. cbn [slots_arr]. lia.
Qed.

Lemma rdo_conserve : forall l, Forall (fun kv => rconserve_at (snd kv)) l ->
  forall b p r ok, rdo l b = (p, r, ok) -> r + slots_obj p <= b /\ b <= r + slots_obj p + 1.
Proof.
  induction l as [|[k e] t IH]; intros HF b p r ok Heq; cbn [rdo] in Heq.
  - injection Heq as <- <- <-. cbn [slots_obj]. lia.
  - inversion HF as [|? ? He Ht]; subst. cbn [snd] in He.
    destruct b as [|[|b2]]; [injection Heq as <- <- <-; cbn [slots_obj]; lia|injection Heq as <- <- <-; cbn [slots_obj]; lia|].
    destruct (read_budget e b2) as [[pe b'] oke] eqn:Ee. destruct oke.
    + pose proof (proj1 (read_ok_iff e b2)) as Hc. rewrite Ee in Hc. specialize (Hc eq_refl).
      rewrite (read_enough e b2 Hc) in Ee. injection Ee as <- <-.
      destruct (rdo t (b2 - slots e)) as [[p' r'] ok'] eqn:Et. injection Heq as <- <- <-.
      destruct (IH Ht _ _ _ _ Et) as [H1 H2]. cbn [slots_obj]. lia.
    + injection Heq as <- <- <-. destruct (He _ _ _ _ Ee) as [H1 H2]. cbn [slots_obj]. lia.
Qed.

Lemma read_conserve_scalar : forall v, scalar v -> rconserve_at v.
Proof.
  intros v Hs n p r ok Heq.
  destruct (read_scalar_cases v n Hs) as [[HSle HSeq]|[_ [_ [HSb HSeq]]]]; rewrite HSeq in Heq; injection Heq as <- <- <-.
  - lia.
  - rewrite slots_JNull. lia.
Qed.

Lemma read_conserve_aux : forall v, rconserve_at v.
Proof.
  induction v using jv_ind_cb; try (apply read_conserve_scalar; exact I).
  - intros n p r ok Heq. rewrite read_JArr in Heq. destruct (rda l n) as [[p' r'] ok'] eqn:El.
    injection Heq as <- <- <-. rewrite slots_JArr. eapply rda_conserve; eauto.
  - intros n p r ok Heq. rewrite read_JObj in Heq. destruct (rdo l n) as [[p' r'] ok'] eqn:El.
    injection Heq as <- <- <-. rewrite slots_JObj. eapply rdo_conserve; eauto.
Qed.

Theorem read_conserve : forall v b,
  let '(p, r, ok) := read_budget v b in
  r + slots p <= b /\ b <= r + slots p + 1 /\ (ok = true -> r + slots p = b).
Proof.
  intros v b. destruct (read_budget v b) as [[p r] ok] eqn:E.
  destruct (read_conserve_aux v b p r ok E) as [H1 H2]. split; [exact H1|]. split; [exact H2|].
  intros ->. pose proof (proj1 (read_ok_iff v b)) as Hc. rewrite E in Hc. specialize (Hc eq_refl).
  rewrite (read_enough v b Hc) in E. injection E as <- <-. lia.
Qed.

(* ------------------------------------------------------------------------------------------------ *)
(* 4. monotone in the budget: with more slots the document only grows                                 *)
(* ------------------------------------------------------------------------------------------------ *)
Definition rmono_at (v : jv) : Prop :=
  forall b b', b <= b' -> rtrunc (fst (fst (read_budget v b))) (fst (fst (read_budget v b'))).

Lemma rda_mono : forall l, Forall rmono_at l ->
  forall b b', b <= b' -> atr (fst (fst (rda l b))) (fst (fst (rda l b'))).
Proof.
  induction l as [|e t IH]; intros HF b b' Hbb.
  - apply at_nil.
  - inversion HF as [|? ? He Ht]; subst.
    destruct b as [|b1]; [apply at_nil|].
    destruct b' as [|b1']; [lia|]. cbn [rda].
    destruct (read_cases e b1) as [[Hle Heq]|[Hlt [pe [r Heq]]]].
    + rewrite Heq. rewrite (read_enough e b1') by lia.
      specialize (IH Ht (b1 - slots e) (b1' - slots e)).
      destruct (rda t (b1 - slots e)) as [[p r] ok]. destruct (rda t (b1' - slots e)) as [[p' r'] ok'].
      cbn [fst] in *. apply at_cons, IH. lia.
    + specialize (He b1 b1'). pose proof (read_rtrunc e b1) as HT. rewrite Heq in *. cbn [fst] in *.
      destruct (read_cases e b1') as [[Hle' Heq']|[Hlt' [pe' [r' Heq']]]]; rewrite Heq' in *.
      * destruct (rda t (b1' - slots e)) as [[p' r'] ok']. cbn [fst]. apply at_part, HT.
      * cbn [fst] in *. apply at_part, He. lia.
Qed.

Lemma rdo_mono : forall l, Forall (fun kv => rmono_at (snd kv)) l ->
  forall b b', b <= b' -> otr (fst (fst (rdo l b))) (fst (fst (rdo l b'))).
Proof.
  induction l as [|[k e] t IH]; intros HF b b' Hbb.
  - apply otr_nil.
  - inversion HF as [|? ? He Ht]; subst. cbn [snd] in He.
    destruct b as [|[|b2]]; [apply otr_nil|apply otr_nil|].
    destruct b' as [|[|b2']]; [lia|lia|]. cbn [rdo].
    destruct (read_cases e b2) as [[Hle Heq]|[Hlt [pe [r Heq]]]].
    + rewrite Heq. rewrite (read_enough e b2') by lia.
      specialize (IH Ht (b2 - slots e) (b2' - slots e)).
      destruct (rdo t (b2 - slots e)) as [[p r] ok]. destruct (rdo t (b2' - slots e)) as [[p' r'] ok'].
      cbn [fst] in *. apply otr_cons, IH. lia.
    + specialize (He b2 b2'). pose proof (read_rtrunc e b2) as HT. rewrite Heq in *. cbn [fst] in *.
      destruct (read_cases e b2') as [[Hle' Heq']|[Hlt' [pe' [r' Heq']]]]; rewrite Heq' in *.
      * destruct (rdo t (b2' - slots e)) as [[p' r'] ok']. cbn [fst]. apply otr_part, HT.
      * cbn [fst] in *. apply otr_part, He. lia.
Qed.

Lemma read_mono_scalar : forall v, scalar v -> rmono_at v.
Proof.
  intros v Hs n n' Hn.
  destruct (read_scalar_cases v n Hs) as [[HSle HSeq]|[_ [HSe [HSb HSeq]]]];
    destruct (read_scalar_cases v n' Hs) as [[HSle' HSeq']|[HS1' [_ [HSb' HSeq']]]];
    rewrite HSeq, HSeq'; cbn [fst].
  - apply rt_refl.
  - lia.
  - apply rt_ext, HSe.
  - apply rt_refl.
Qed.

Theorem read_mono : forall v b b', b <= b' ->
  rtrunc (fst (fst (read_budget v b))) (fst (fst (read_budget v b'))).
Proof.
  intros v. change (rmono_at v).
  induction v using jv_ind_cb; try (apply read_mono_scalar; exact I).
  - intros n n' Hn. rewrite !read_JArr. pose proof (rda_mono l H n n' Hn) as HO.
    destruct (rda l n) as [[p r] ok]. destruct (rda l n') as [[p' r'] ok']. cbn [fst] in *.
    apply atr_rtrunc, HO.
  - intros n n' Hn. rewrite !read_JObj. pose proof (rdo_mono l H n n' Hn) as HO.
    destruct (rdo l n) as [[p r] ok]. destruct (rdo l n') as [[p' r'] ok']. cbn [fst] in *.
    apply otr_rtrunc, HO.
Qed.

Corollary read_mono_slots : forall v b b', b <= b' ->
  slots (fst (fst (read_budget v b))) <= slots (fst (fst (read_budget v b'))).
Proof. intros v b b' H. apply rtrunc_slots, read_mono, H. Qed.

(* ------------------------------------------------------------------------------------------------ *)
(* 5. failure is strict: after NoMemory the document is never the whole value                        *)
(* ------------------------------------------------------------------------------------------------ *)
Theorem read_fail_strict : forall v b,
  snd (read_budget v b) = false ->
  slots (fst (fst (read_budget v b))) < slots v /\ fst (fst (read_budget v b)) <> v.
Proof.
  intros v b HF.
  assert (Hlt : b < slots v).
  { destruct (le_lt_dec (slots v) b) as [Hle|Hlt]; [|exact Hlt].
    rewrite (proj2 (read_ok_iff v b) Hle) in HF. discriminate. }
  pose proof (read_conserve v b) as HC. destruct (read_budget v b) as [[p r] ok]. cbn [fst snd] in *.
  assert (HS : slots p < slots v) by lia.
  split; [exact HS|]. intros ->. lia.
Qed.

Corollary read_whole_iff : forall v b,
  fst (fst (read_budget v b)) = v <-> snd (read_budget v b) = true.
Proof.
  intros v b. split.
  - intros HE. destruct (snd (read_budget v b)) eqn:ES; [reflexivity|].
    destruct (read_fail_strict v b ES) as [_ HN]. contradiction.
  - intros HT. apply read_ok_iff in HT. rewrite (read_enough v b HT). reflexivity.
Qed.

(* ------------------------------------------------------------------------------------------------ *)
(* 6. the copy never keeps more than the reader: what the copy leaves is a reader-truncation of what  *)
(*    the reader leaves under the same budget                                                         *)
(* ------------------------------------------------------------------------------------------------ *)
Definition cr_at (v : jv) : Prop :=
  forall b, rtrunc (fst (fst (copy_budget v b))) (fst (fst (read_budget v b))).

Lemma cpa_rda : forall l b, atr (fst (fst (cpa l b))) (fst (fst (rda l b))).
Proof.
  induction l as [|e t IH]; intros b.
  - apply at_nil.
  - destruct b as [|b1]; [apply at_nil|]. cbn [cpa rda].
    destruct (copy_cases e b1) as [[Hle Heq]|[Hlt [pe [r Heq]]]]; rewrite Heq.
    + rewrite (read_enough e b1 Hle). specialize (IH (b1 - slots e)).
      destruct (cpa t (b1 - slots e)) as [[p r] ok]. destruct (rda t (b1 - slots e)) as [[p' r'] ok'].
      cbn [fst] in *. apply at_cons, IH.
    + cbn [fst]. apply at_nil.
Qed.

Lemma cpo_rdo : forall l, Forall (fun kv => cr_at (snd kv)) l ->
  forall b, otr (fst (fst (cpo l b))) (fst (fst (rdo l b))).
Proof.
  induction l as [|[k e] t IH]; intros HF b.
  - apply otr_nil.
  - inversion HF as [|? ? He Ht]; subst. cbn [snd] in He.
    destruct b as [|[|b2]]; [apply otr_nil|apply otr_nil|]. cbn [cpo rdo].
    destruct (copy_cases e b2) as [[Hle Heq]|[Hlt [pe [r Heq]]]].
    + rewrite Heq. rewrite (read_enough e b2 Hle). specialize (IH Ht (b2 - slots e)).
      destruct (cpo t (b2 - slots e)) as [[p r] ok]. destruct (rdo t (b2 - slots e)) as [[p' r'] ok'].
      cbn [fst] in *. apply otr_cons, IH.
    + specialize (He b2). rewrite Heq in *. cbn [fst] in *.
      destruct (read_cases e b2) as [[Hle' Heq']|[Hlt' [pe' [r' Heq']]]]; [lia|].
      rewrite Heq' in *. cbn [fst] in *. apply otr_part, He.
Qed.

Lemma copy_rtrunc_read_scalar : forall v, scalar v -> cr_at v.
Proof. intros v Hs n. rewrite (copy_read_scalar v n Hs). apply rt_refl. Qed.

Theorem copy_rtrunc_read : forall v b,
  rtrunc (fst (fst (copy_budget v b))) (fst (fst (read_budget v b))).
Proof.
  intros v. change (cr_at v).
  induction v using jv_ind_cb; try (apply copy_rtrunc_read_scalar; exact I).
  - intros n. rewrite copy_JArr, read_JArr. pose proof (cpa_rda l n) as HO.
    destruct (cpa l n) as [[p r] ok]. destruct (rda l n) as [[p' r'] ok']. cbn [fst] in *.
    apply atr_rtrunc, HO.
  - intros n. rewrite copy_JObj, read_JObj. pose proof (cpo_rdo l H n) as HO.
    destruct (cpo l n) as [[p r] ok]. destruct (rdo l n) as [[p' r'] ok']. cbn [fst] in *.
    apply otr_rtrunc, HO.
Qed.

Theorem copy_le_read : forall v b,
  slots (fst (fst (copy_budget v b))) <= slots (fst (fst (read_budget v b))).
Proof. intros v b. apply rtrunc_slots, copy_rtrunc_read. Qed.

(* both answer alike *)
Corollary copy_read_ok : forall v b, snd (copy_budget v b) = snd (read_budget v b).
Proof.
  intros v b. destruct (le_lt_dec (slots v) b) as [Hle|Hlt].
  - rewrite (copy_enough v b Hle), (read_enough v b Hle). reflexivity.
  - rewrite (copy_short v b Hlt), (read_short v b Hlt). reflexivity.
Qed.

(* ------------------------------------------------------------------------------------------------ *)
(* 7. examples: ex_v = [1,[2,3],{"a":[4,5],"b":{"c":6}},7]  (14 slots)                               *)
(* ------------------------------------------------------------------------------------------------ *)
(* [] *)
Example rex_b0 : read_budget ex_v 0 = (JArr [], 0, false).
Proof. vm_compute. reflexivity. Qed.
(* [1] *)
Example rex_b1 : read_budget ex_v 1 = (JArr [JInt 1], 0, false).
Proof. vm_compute. reflexivity. Qed.
(* [1,[2]] — the element being read stays with what was read (the copy leaves [1] and gives 2 slots back) *)
Example rex_b3 : read_budget ex_v 3 = (JArr [JInt 1; JArr [JInt 2]], 0, false).
Proof. vm_compute. reflexivity. Qed.
(* [1,[2,3],{}] exactly *)
Example rex_b5 : read_budget ex_v 5 = (JArr [JInt 1; ex_inner; JObj []], 0, false).
Proof. vm_compute. reflexivity. Qed.
(* [1,[2,3],{}] and one slot lost: the member "a" found one slot only, 0 + 5 + 1 = 6 *)
Example rex_b6 : read_budget ex_v 6 = (JArr [JInt 1; ex_inner; JObj []], 0, false).
Proof. vm_compute. reflexivity. Qed.
(* [1,[2,3],{"a":[4,5]}] *)
Example rex_b9 : read_budget ex_v 9 =
  (JArr [JInt 1; ex_inner; JObj [([97%N], JArr [JInt 4; JInt 5])]], 0, false).
Proof. vm_compute. reflexivity. Qed.
(* [1,[2,3],{"a":[4,5],"b":{}}] and one slot lost (the key slot of "c") *)
Example rex_b12 : read_budget ex_v 12 =
  (JArr [JInt 1; ex_inner; JObj [([97%N], JArr [JInt 4; JInt 5]); ([98%N], JObj [])]], 0, false).
Proof. vm_compute. reflexivity. Qed.
(* everything but the last element *)
Example rex_b13 : read_budget ex_v 13 = (JArr [JInt 1; ex_inner; ex_obj], 0, false).
Proof. vm_compute. reflexivity. Qed.
Example rex_b14 : read_budget ex_v 14 = (ex_v, 0, true).
Proof. vm_compute. reflexivity. Qed.
Example rex_b15 : read_budget ex_v 15 = (ex_v, 1, true).
Proof. vm_compute. reflexivity. Qed.
(* the copy under the same budgets keeps less: whole elements only *)
Example rex_copy_b9 : copy_budget ex_v 9 = (JArr [JInt 1; ex_inner], 5, false).
Proof. vm_compute. reflexivity. Qed.
Example rex_copy_b12 : copy_budget ex_v 12 = (JArr [JInt 1; ex_inner], 7, false).
Proof. vm_compute. reflexivity. Qed.

(* scalars with an extension slot: ex_xv = [0.1, 5000000000]  (4 slots) *)
Example rexx_b0 : read_budget ex_xv 0 = (JArr [], 0, false).
Proof. vm_compute. reflexivity. Qed.
(* the element's slot is had, its extension slot is not: the element stays, null (the copy discards it: exx_b1) *)
Example rexx_b1 : read_budget ex_xv 1 = (JArr [JNull], 0, false).
Proof. vm_compute. reflexivity. Qed.
Example rexx_b2 : read_budget ex_xv 2 = (JArr [ex_dbl], 0, false).
Proof. vm_compute. reflexivity. Qed.
Example rexx_b3 : read_budget ex_xv 3 = (JArr [ex_dbl; JNull], 0, false).
Proof. vm_compute. reflexivity. Qed.
Example rexx_b4 : read_budget ex_xv 4 = (ex_xv, 0, true).
Proof. vm_compute. reflexivity. Qed.
Example rexx_obj_b1 : read_budget (JObj [([97%N], ex_dbl)]) 1 = (JObj [], 0, false).
Proof. vm_compute. reflexivity. Qed.
Example rexx_obj_b2 : read_budget (JObj [([97%N], ex_dbl)]) 2 = (JObj [([97%N], JNull)], 0, false).
Proof. vm_compute. reflexivity. Qed.
Example rexx_obj_b3 : read_budget (JObj [([97%N], ex_dbl)]) 3 = (JObj [([97%N], ex_dbl)], 0, true).
Proof. vm_compute. reflexivity. Qed.
