(* ResourceBound.v — what a deserializer builds is linear in what it read (C06, last clause), and
   successive MessagePack calls on one stream (C16).

   Part 0  the cost of a document: [slots] (16-byte slots below the value: one per array element,
           two per object member) and [str_bytes] (bytes of all string values, raw values and keys)
   Part A1 JSON reader: json_doc_linear      slots <= reads, str_bytes <= reads, every outcome
   Part A2 MessagePack reader: mp_doc_linear slots <= reads, str_bytes <= reads, every outcome
   Part B  mp_stream on back-to-back legal encodings: mp_stream_objects                          *)
From Coq Require Import NArith ZArith List Bool Lia.
From Coq Require Import Floats.SpecFloat.
From AJ Require Import Model.Base Model.FloatModel Model.Value Model.Utf Model.NumParse
  Model.JsonParse Model.MsgPack Model.Stream.
From AJ Require Import Proofs.Lex Spec.ParseSpec Proofs.ParseSafe.
From AJ Require Import Proofs.MsgPackRT Spec.MsgPackSpec Proofs.MsgPackComplete.

(* ===================================================================================== *)
(* Part 0 — the cost of a document                                                        *)

(* slots needed below the value *)
Fixpoint slots (v : jv) : nat :=
  match v with
  | JArr l => fold_right (fun e n => (S (slots e) + n)%nat) 0%nat l
  | JObj l => fold_right (fun kv n => (S (S (slots (snd kv))) + n)%nat) 0%nat l
  | _ => 0%nat
  end.

(* total length of all string values, raw values and keys *)
Fixpoint str_bytes (v : jv) : nat :=
  match v with
  | JStr s | JRaw s => length s
  | JArr l => fold_right (fun e n => (str_bytes e + n)%nat) 0%nat l
  | JObj l => fold_right (fun kv n => (length (fst kv) + str_bytes (snd kv) + n)%nat) 0%nat l
  | _ => 0%nat
  end.

Lemma slots_arr_snoc : forall acc v, slots (JArr (acc ++ [v])) = (slots (JArr acc) + S (slots v))%nat.
Proof.
  intros acc v. cbn [slots]. induction acc as [|x acc IH]; cbn [app fold_right]; [lia|].
  rewrite IH. lia.
Qed.

Lemma str_arr_snoc : forall acc v,
  str_bytes (JArr (acc ++ [v])) = (str_bytes (JArr acc) + str_bytes v)%nat.
Proof.
  intros acc v. cbn [str_bytes]. induction acc as [|x acc IH]; cbn [app fold_right]; [lia|].
  rewrite IH. lia.
Qed.

Lemma slots_obj_snoc : forall acc k v,
  slots (JObj (acc ++ [(k, v)])) = (slots (JObj acc) + S (S (slots v)))%nat.
Proof.
  intros acc k v. cbn [slots]. induction acc as [|x acc IH]; cbn [app fold_right snd]; [lia|].
  rewrite IH. lia.
Qed.

Lemma str_obj_snoc : forall acc k v,
  str_bytes (JObj (acc ++ [(k, v)])) = (str_bytes (JObj acc) + length k + str_bytes v)%nat.
Proof.
  intros acc k v. cbn [str_bytes]. induction acc as [|x acc IH]; cbn [app fold_right fst snd]; [lia|].
  rewrite IH. lia.
Qed.

(* getMember + re-parse in place: a repeated key replaces the value, it never adds a member *)
Lemma slots_obj_set : forall k v acc,
  (slots (JObj (assoc_set k v acc)) <= slots (JObj acc) + S (S (slots v)))%nat.
Proof.
  intros k v acc. cbn [slots]. induction acc as [|[k' v'] acc IH]; cbn [assoc_set fold_right snd]; [lia|].
  destruct (bytes_eqb k k'); cbn [fold_right snd]; lia.
Qed.

Lemma str_obj_set : forall k v acc,
  (str_bytes (JObj (assoc_set k v acc)) <= str_bytes (JObj acc) + length k + str_bytes v)%nat.
Proof.
  intros k v acc. cbn [str_bytes].
  induction acc as [|[k' v'] acc IH]; cbn [assoc_set fold_right fst snd]; [lia|].
  destruct (bytes_eqb k k'); cbn [fold_right fst snd]; lia.
Qed.

Lemma jv_of_double_scalar : forall ud f,
  slots (jv_of_double ud f) = 0%nat /\ str_bytes (jv_of_double ud f) = 0%nat.
Proof.
  intros ud f. unfold jv_of_double. cbv zeta. destruct ud; [|split; reflexivity].
  destruct (f_eq f (fconv F64 (fconv F32 f))); split; reflexivity.
Qed.

Lemma jv_of_number_scalar : forall cf n v, jv_of_number cf n = Some v ->
  slots v = 0%nat /\ str_bytes v = 0%nat.
Proof.
  intros cf n v H. destruct n; cbn [jv_of_number] in H; try discriminate H;
    injection H as <-; try (split; reflexivity).
  apply jv_of_double_scalar.
Qed.

(* ===================================================================================== *)
(* Part A1 — the JSON reader                                                              *)
(* The potential is ParseSafe's [meas]: unread bytes plus the latched byte when it is not NUL.
   Since reads + |rest| is constant ([budget]), meas s - meas s' is the number of bytes the parser
   consumed (read and moved past) between s and s'; every slot and every string byte the reader
   builds is paid by a consumed byte. *)
Local Open Scope N_scope.

Lemma emit_until_zero_len : forall l, (length (emit_until_zero l) <= length l)%nat.
Proof.
  induction l as [|b t IH]; cbn [emit_until_zero length]; [lia|].
  destruct (b =? 0); cbn [length]; lia.
Qed.

Lemma encode_codepoint_len : forall cp, (length (encode_codepoint cp) <= 4)%nat.
Proof.
  intros cp. unfold encode_codepoint. cbv zeta.
  repeat match goal with |- context [if ?b then _ else _] => destruct b end;
    try (cbn [length]; lia);
    match goal with |- (length (emit_until_zero ?l) <= _)%nat =>
      pose proof (emit_until_zero_len l) as H; cbn [length] in H; lia end.
Qed.

(* four hex digits are four consumed bytes *)
Lemma parse_hex4_lt : forall n acc s,
  fst (fst (parse_hex4 n acc s)) = Ok -> (n + meas (snd (parse_hex4 n acc s)) <= meas s)%nat.
Proof.
  induction n as [|n IH]; intros acc s; cbn [parse_hex4].
  - cbn [fst snd]. lia.
  - pose proof (current_lt s) as T. destruct (current s) as [d s1]. cbn [fst snd] in T.
    destruct (d =? 0) eqn:E; [cbn [fst]; discriminate|]. apply N.eqb_neq in E. specialize (T E).
    destruct (15 <? decode_hex d); [cbn [fst]; discriminate|].
    intros H. specialize (IH _ _ H). lia.
Qed.

(* result shapes *)
(* a string being accumulated: every byte appended is paid by a consumed byte *)
Definition rbS (n0 : nat) (s : ps) (r : code * bytes * ps) : Prop :=
  (length (snd (fst r)) + meas (snd r) <= n0 + meas s)%nat.
(* a value *)
Definition rbV (s : ps) (r : code * jv * ps) : Prop :=
  (slots (snd (fst r)) + meas (snd r) <= meas s)%nat /\
  (str_bytes (snd (fst r)) + meas (snd r) <= meas s)%nat.
(* an array being filled; the slot of the next element is already paid (by '[' or ',') *)
Definition rbA (acc : list jv) (s : ps) (r : code * jv * ps) : Prop :=
  (slots (snd (fst r)) + meas (snd r) <= slots (JArr acc) + 1 + meas s)%nat /\
  (str_bytes (snd (fst r)) + meas (snd r) <= str_bytes (JArr acc) + meas s)%nat.
(* an object being filled *)
Definition rbO (acc : list (bytes * jv)) (s : ps) (r : code * jv * ps) : Prop :=
  (slots (snd (fst r)) + meas (snd r) <= slots (JObj acc) + meas s)%nat /\
  (str_bytes (snd (fst r)) + meas (snd r) <= str_bytes (JObj acc) + meas s)%nat.

Ltac rb_fwd :=
  repeat match goal with
  | H : _ /\ _ |- _ => destruct H
  | H : Ok = Ok -> _ |- _ => specialize (H eq_refl)
  | H : ?A -> _, H' : ?A |- _ =>
      lazymatch type of A with Prop => specialize (H H') end
  | H : ?c <> 0 -> _ |- _ =>
      let X := fresh in assert (X : c <> 0) by (first [assumption | lia]); specialize (H X)
  end.

Ltac rb_sets :=
  repeat match goal with
  | |- context [assoc_set ?k ?v ?a] =>
      pose proof (slots_obj_set k v a); pose proof (str_obj_set k v a);
      generalize dependent (assoc_set k v a); intros
  | _ : context [assoc_set ?k ?v ?a] |- _ =>
      pose proof (slots_obj_set k v a); pose proof (str_obj_set k v a);
      generalize dependent (assoc_set k v a); intros
  end.

Ltac rb_leaf :=
  repeat match goal with |- context [if ?b then _ else _] => destruct b end;
  pose_moves; unfold rbS, rbV, rbA, rbO, mf2, mf3, mfp, le_st in *; cbn [fst snd] in *;
  rb_fwd;
  rewrite ?slots_arr_snoc, ?str_arr_snoc, ?app_length in *;
  rb_sets;
  cbn [length slots str_bytes fold_right] in *;
  first [ lia | split; lia ].

Ltac rb_go D :=
  cbn [fst snd] in *;
  lazymatch goal with
  | |- ?P ?r =>
      let h := head_scrut r in
      lazymatch h with
      | (_, _) => rb_leaf
      | _ =>
          first [ D h
                | is_var h; destruct h
                | let E := fresh "E" in destruct h eqn:E; conv E ];
          rb_go D
      end
  end.

Ltac r_lex1 h :=
  lazymatch h with
  | parse_hex4 ?n ?a ?X =>
      pose proof (parse_hex4_mf n a X); pose proof (parse_hex4_lt n a X);
      destruct (parse_hex4 n a X) as [[? ?] ?]
  | _ => d_lex1 h
  end.

Lemma quoted_loop_rb : forall cf fuel stop cp acc s,
  rbS (length acc) s (quoted_loop cf fuel stop cp acc s).
Proof.
  intros cf. induction fuel as [|fuel IH]; intros stop cp acc s; cbn [quoted_loop].
  - rb_leaf.
  - rb_go ltac:(fun h => lazymatch h with
      | quoted_loop cf fuel ?st ?c (?a ++ encode_codepoint ?x) ?X =>
          pose proof (encode_codepoint_len x);
          pose proof (IH st c (a ++ encode_codepoint x) X);
          destruct (quoted_loop cf fuel st c (a ++ encode_codepoint x) X) as [[? ?] ?]
      | quoted_loop cf fuel ?st ?c ?a ?X =>
          pose proof (IH st c a X); destruct (quoted_loop cf fuel st c a X) as [[? ?] ?]
      | _ => r_lex1 h end).
Qed.

(* the capacity test only ever replaces the string by the empty one *)
Lemma cap_string_rb : forall n s r, rbS n s r -> rbS n s (cap_string r).
Proof.
  intros n s [[e a] s'] H. unfold rbS, cap_string in *. cbn [fst snd] in *.
  destruct e; try exact H. destruct (too_long a); cbn [fst snd length]; lia.
Qed.

Lemma parse_quoted_string_rb : forall cf fuel s, rbS 0 s (parse_quoted_string cf fuel s).
Proof.
  intros cf fuel s. unfold parse_quoted_string.
  rb_go ltac:(fun h => lazymatch h with
      | cap_string _ => apply cap_string_rb
      | quoted_loop cf fuel ?st ?c ?a ?X =>
          pose proof (quoted_loop_rb cf fuel st c a X);
          destruct (quoted_loop cf fuel st c a X) as [[? ?] ?]
      | _ => r_lex1 h end).
Qed.

Lemma non_quoted_loop_rb : forall fuel acc c s, latched s ->
  rbS (length acc) s (non_quoted_loop fuel acc c s).
Proof.
  induction fuel as [|fuel IH]; intros acc c s L; cbn [non_quoted_loop].
  - rb_leaf.
  - rb_go ltac:(fun h => lazymatch h with
      | non_quoted_loop fuel ?a ?c ?X =>
          let L := fresh "L" in
          assert (L : latched X) by (eapply latched_intro; [eassumption | first [assumption | lia]]);
          pose proof (IH a c X L); destruct (non_quoted_loop fuel a c X) as [[? ?] ?]
      | _ => r_lex1 h end).
Qed.

Lemma parse_non_quoted_string_rb : forall fuel s, rbS 0 s (parse_non_quoted_string fuel s).
Proof.
  intros fuel s. unfold parse_non_quoted_string.
  rb_go ltac:(fun h => lazymatch h with
      | cap_string _ => apply cap_string_rb
      | non_quoted_loop fuel ?a ?c ?X =>
          let L := fresh "L" in
          assert (L : latched X) by (eapply latched_intro; [eassumption | first [assumption | lia]]);
          pose proof (non_quoted_loop_rb fuel a c X L);
          destruct (non_quoted_loop fuel a c X) as [[? ?] ?]
      | _ => r_lex1 h end).
Qed.

Lemma parse_key_rb : forall cf fuel s, rbS 0 s (parse_key cf fuel s).
Proof.
  intros cf fuel s. unfold parse_key.
  rb_go ltac:(fun h => lazymatch h with
      | parse_quoted_string cf fuel ?X =>
          pose proof (parse_quoted_string_rb cf fuel X);
          destruct (parse_quoted_string cf fuel X) as [[? ?] ?]
      | parse_non_quoted_string fuel ?X =>
          pose proof (parse_non_quoted_string_rb fuel X);
          destruct (parse_non_quoted_string fuel X) as [[? ?] ?]
      | _ => r_lex1 h end).
Qed.

Lemma parse_numeric_value_rb : forall cf s, rbV s (parse_numeric_value cf s).
Proof.
  intros cf s. pose proof (parse_numeric_value_mf cf s) as [[_ M] _]. revert M.
  unfold parse_numeric_value.
  destruct (scan_number cf 63 [] s) as [buf s1]. cbv beta iota zeta.
  generalize (if Nat.eqb (length buf) 63 then snd (current s1) else s1). intros s2.
  destruct (jv_of_number cf (parse_number cf buf)) as [v|] eqn:E; unfold rbV; cbn [fst snd]; intros M.
  - destruct (jv_of_number_scalar _ _ _ E) as [-> ->]. lia.
  - cbn [slots str_bytes]. lia.
Qed.

(* a key that was read consumed at least one byte (its opening quote, or its first character) *)
Lemma current_some : forall s c, cur s = Some c -> current s = (c, s).
Proof. intros s c H. unfold current. rewrite H. reflexivity. Qed.

Lemma non_quoted_loop_lt : forall fuel acc c s, latched s ->
  fst (fst (non_quoted_loop fuel acc c s)) = Ok ->
  (S (meas (snd (non_quoted_loop fuel acc c s))) <= meas s)%nat.
Proof.
  intros [|fuel] acc c s L; cbn [non_quoted_loop]; [cbn [fst]; discriminate|].
  pose proof (move_lt s L) as M. pose proof (current_le (move s)) as [_ C].
  destruct (current (move s)) as [c' s1]. cbn [snd] in C.
  destruct (can_be_in_non_quoted_string c').
  - pose proof (non_quoted_loop_mf fuel (acc ++ [c]) c' s1) as [[_ X] _]. intros _. lia.
  - cbn [fst snd]. intros _. lia.
Qed.

Lemma parse_key_lt : forall cf fuel s,
  fst (fst (parse_key cf fuel s)) = Ok -> (S (meas (snd (parse_key cf fuel s))) <= meas s)%nat.
Proof.
  intros cf fuel s. unfold parse_key.
  pose proof (current_le s) as [_ C0]. pose proof (current_cur s) as Cc.
  destruct (current s) as [c s1]. cbn [fst snd] in *.
  destruct (is_quote c) eqn:Q.
  - apply is_quote_nz in Q. unfold parse_quoted_string. rewrite (current_some _ _ Cc).
    assert (L : latched s1) by (eapply latched_intro; eassumption).
    pose proof (move_lt s1 L) as M.
    pose proof (quoted_loop_mf cf fuel c cp_init [] (move s1)) as [[_ X] _]. intros _.
    rewrite cap_string_state. lia.
  - unfold parse_non_quoted_string. rewrite (current_some _ _ Cc).
    destruct (can_be_in_non_quoted_string c) eqn:K; [|cbn [fst]; discriminate].
    apply cbinqs_nz in K.
    assert (L : latched s1) by (eapply latched_intro; eassumption).
    intros H. apply cap_string_ok_fst in H. rewrite cap_string_state.
    pose proof (non_quoted_loop_lt fuel [] c s1 L H). lia.
Qed.

Ltac r_lex2 h :=
  lazymatch h with
  | parse_key ?cf ?f ?X =>
      pose proof (parse_key_mf cf f X); pose proof (parse_key_rb cf f X);
      pose proof (parse_key_lt cf f X);
      destruct (parse_key cf f X) as [[? ?] ?]
  | parse_quoted_string ?cf ?f ?X =>
      pose proof (parse_quoted_string_mf cf f X); pose proof (parse_quoted_string_rb cf f X);
      destruct (parse_quoted_string cf f X) as [[? ?] ?]
  | parse_numeric_value ?cf ?X =>
      pose proof (parse_numeric_value_mf cf X); pose proof (parse_numeric_value_rb cf X);
      destruct (parse_numeric_value cf X) as [[? ?] ?]
  | parse_hex4 _ _ _ => r_lex1 h
  | _ => d_lex2 h
  end.

Section ContainersRB.
  Variable cf : cfg.
  Variable pv : filter -> ps -> code * jv * ps.
  Variable sv : ps -> code * ps.
  Hypothesis pv_rb : forall f s, rbV s (pv f s).
  Hypothesis sv_le : forall s, le_st (snd (sv s)) s.

  Lemma array_loop_rb : forall fuel ef acc s, rbA acc s (array_loop cf pv sv fuel ef acc s).
  Proof.
    induction fuel as [|fuel IH]; intros ef acc s; cbn [array_loop].
    - rb_leaf.
    - rb_go ltac:(fun h => lazymatch h with
        | array_loop cf pv sv fuel ?e ?a ?X =>
            pose proof (IH e a X); destruct (array_loop cf pv sv fuel e a X) as [[? ?] ?]
        | pv ?f ?X => pose proof (pv_rb f X); destruct (pv f X) as [[? ?] ?]
        | sv ?X => pose proof (sv_le X); destruct (sv X) as [? ?]
        | _ => r_lex2 h end).
  Qed.

  Lemma object_loop_rb : forall fuel f acc s, rbO acc s (object_loop cf pv sv fuel f acc s).
  Proof.
    induction fuel as [|fuel IH]; intros f acc s; cbn [object_loop].
    - rb_leaf.
    - rb_go ltac:(fun h => lazymatch h with
        | object_loop cf pv sv fuel ?e ?a ?X =>
            pose proof (IH e a X); destruct (object_loop cf pv sv fuel e a X) as [[? ?] ?]
        | pv ?f ?X => pose proof (pv_rb f X); destruct (pv f X) as [[? ?] ?]
        | sv ?X => pose proof (sv_le X); destruct (sv X) as [? ?]
        | _ => r_lex2 h end).
  Qed.
End ContainersRB.

Lemma skip_variant_le : forall cf fuel L s, le_st (snd (skip_variant cf fuel L s)) s.
Proof. intros cf fuel L s. exact (proj1 (skip_variant_mf cf fuel L s)). Qed.

Lemma parse_variant_rb : forall cf fuel L f s, rbV s (parse_variant cf fuel L f s).
Proof.
  intros cf fuel. induction L as [|L IH]; intros f s; cbn [parse_variant].
  - rb_go ltac:(fun h => lazymatch h with
      | skip_variant cf fuel ?l ?X =>
          pose proof (skip_variant_mf cf fuel l X); destruct (skip_variant cf fuel l X) as [? ?]
      | _ => r_lex2 h end).
  - rb_go ltac:(fun h => lazymatch h with
      | skip_variant cf fuel ?l ?X =>
          pose proof (skip_variant_mf cf fuel l X); destruct (skip_variant cf fuel l X) as [? ?]
      | array_loop cf ?pv ?sv fuel ?e ?a ?X =>
          pose proof (array_loop_rb cf pv sv IH (skip_variant_le cf fuel L) fuel e a X);
          destruct (array_loop cf pv sv fuel e a X) as [[? ?] ?]
      | object_loop cf ?pv ?sv fuel ?e ?a ?X =>
          pose proof (object_loop_rb cf pv sv IH (skip_variant_le cf fuel L) fuel e a X);
          destruct (object_loop cf pv sv fuel e a X) as [[? ?] ?]
      | _ => r_lex2 h end).
Qed.

(* C06, last clause, JSON: whatever the outcome (also on error: j_doc is then the partial document
   left behind), the slots and the string bytes of what was built are bounded by the bytes obtained
   from the reader. *)
Theorem json_doc_linear : forall cf f L i, let o := json_run cf f L i in
  (slots (j_doc o) <= N.to_nat (reads (j_st o)))%nat /\
  (str_bytes (j_doc o) <= N.to_nat (reads (j_st o)))%nat.
Proof.
  intros cf f L i. cbv zeta. unfold json_run.
  pose proof (parse_variant_rb cf (json_fuel i) L f (ps_init i)) as R.
  pose proof (parse_variant_mf cf (json_fuel i) L f (ps_init i)) as [[B _] _].
  destruct (parse_variant cf (json_fuel i) L f (ps_init i)) as [[e v] s'].
  unfold rbV in R. cbn [fst snd] in R, B. cbn [j_doc j_st].
  unfold budget, ps_init in B. cbn [reads rest] in B.
  assert (M0 : meas (ps_init i) = length i) by (unfold meas, ps_init; cbn [rest cur]; lia).
  assert (M1 : (length (rest s') <= meas s')%nat) by (unfold meas; lia).
  lia.
Qed.

(* ===================================================================================== *)
(* Part A2 — the MessagePack reader                                                       *)
(* Here the byte counter itself is the potential.  A value that was read completely consumed at
   least its type byte, which pays for its own slot in the enclosing container; the slot of an
   element that failed is paid by the container's header byte. *)
Local Close Scope N_scope.
Local Open Scope Z_scope.

Definition rdz (r : mrd) : Z := Z.of_N (m_reads r).

Definition okc (e : code) : Z := match e with Ok => 1 | _ => 0 end.
Definition errc (e : code) : Z := match e with Ok => 0 | _ => 1 end.

Lemma okc_errc : forall e, okc e + errc e = 1.
Proof. destruct e; reflexivity. Qed.

Lemma read_n_rd : forall n r o r', read_n n r = (o, r') ->
  rdz r <= rdz r' /\ (forall l, o = Some l -> rdz r' = rdz r + Z.of_nat (length l)).
Proof.
  intros n r o r' H. unfold read_n in H.
  destruct (Nat.eqb (length (firstn n (m_rest r))) n); inversion H; subst; unfold rdz; cbn [m_reads];
    (split; [lia|]); intros l E; inversion E; subst. lia.
Qed.

Lemma read_z_rd : forall n r o r', read_z n r = (o, r') ->
  rdz r <= rdz r' /\ (forall l, o = Some l -> rdz r' = rdz r + Z.of_nat (length l)).
Proof.
  intros n r o r' H. unfold read_z in H.
  destruct (n <=? Z.of_nat (length (m_rest r))); [exact (read_n_rd _ _ _ _ H)|].
  inversion H; subst. unfold rdz; cbn [m_reads]. split; [lia|]. intros l E; discriminate E.
Qed.

Lemma mp_skip_rd : forall n r e r', mp_skip n r = (e, r') -> rdz r <= rdz r'.
Proof.
  intros n r e r' H. unfold mp_skip in H.
  destruct (read_z n r) as [[p|] r1] eqn:E; inversion H; subst; exact (proj1 (read_z_rd _ _ _ _ E)).
Qed.

(* a key that was read consumed its header byte and its characters *)
Lemma read_key_rd : forall r e key r', mp_read_key r = (e, key, r') ->
  rdz r <= rdz r' /\ (e = Ok -> Z.of_nat (length key) + 1 + rdz r <= rdz r').
Proof.
  intros r e key r' H. unfold mp_read_key in H.
  destruct (read_n 1 r) as [o r1] eqn:E1. destruct (read_n_rd _ _ _ _ E1) as [A1 B1].
  destruct o as [[|c [|c' t]]|]; try (inversion H; subst; split; [exact A1|discriminate]).
  specialize (B1 _ eq_refl). cbn [length] in B1.
  cbv zeta in H.
  destruct (Z.land (Z.of_N c) 0xE0 =? 0xA0).
  { destruct (read_z (Z.land (Z.of_N c) 0x1F) r1) as [[s|] r2] eqn:E2;
      destruct (read_z_rd _ _ _ _ E2) as [A2 B2]; inversion H; subst.
    - specialize (B2 _ eq_refl). split; [lia|intros _; lia].
    - split; [lia|discriminate]. }
  destruct ((0xD9 <=? Z.of_N c) && (Z.of_N c <=? 0xDB)); [|inversion H; subst; split; [lia|discriminate]].
  destruct (read_n (Z.to_nat (2 ^ (Z.of_N c - 0xD9))) r1) as [[l|] r2] eqn:E2;
    destruct (read_n_rd _ _ _ _ E2) as [A2 _]; [|inversion H; subst; split; [lia|discriminate]].
  destruct (max_string_length <? be_value l 0); [inversion H; subst; split; [lia|discriminate]|].
  destruct (read_z (be_value l 0) r2) as [[s|] r3] eqn:E3;
    destruct (read_z_rd _ _ _ _ E3) as [A3 B3]; inversion H; subst.
  - specialize (B3 _ eq_refl). split; [lia|intros _; lia].
  - split; [lia|discriminate].
Qed.

(* what is known about the parser one level down *)
Definition mpV (e : code) (v : jv) (r r' : mrd) : Prop :=
  Z.of_nat (slots v) + okc e + rdz r <= rdz r' /\ Z.of_nat (str_bytes v) + rdz r <= rdz r'.

Definition pv_lin (pv : pvT) : Prop :=
  forall f d r e v r', pv f d r = (e, v, r') -> mpV e v r r'.

Lemma mp_array_loop_lin : forall pv, pv_lin pv ->
  forall cnt ef keep acc r e l r',
  mp_array_loop pv cnt ef keep acc r = (e, l, r') ->
  Z.of_nat (slots (JArr l)) + rdz r <= Z.of_nat (slots (JArr acc)) + rdz r' + errc e /\
  Z.of_nat (str_bytes (JArr l)) + rdz r <= Z.of_nat (str_bytes (JArr acc)) + rdz r'.
Proof.
  intros pv G. induction cnt as [|cnt IH]; intros ef keep acc r e l r' H; cbn [mp_array_loop] in H.
  - inversion H; subst. cbn [errc]. lia.
  - cbv zeta in H.
    destruct (pv ef (f_allow ef) r) as [[e1 v1] r1] eqn:E1.
    destruct (G _ _ _ _ _ _ E1) as [S1 T1].
    assert (Err : e1 <> Ok -> (e, l, r') = (e1, (if f_allow ef then acc ++ [v1] else acc), r1) ->
            Z.of_nat (slots (JArr l)) + rdz r <= Z.of_nat (slots (JArr acc)) + rdz r' + errc e /\
            Z.of_nat (str_bytes (JArr l)) + rdz r <= Z.of_nat (str_bytes (JArr acc)) + rdz r').
    { intros Hne X. inversion X; subst.
      assert (errc e1 = 1) by (destruct e1; try reflexivity; contradiction Hne; reflexivity).
      assert (0 <= okc e1) by (destruct e1; cbn; lia).
      destruct (f_allow ef); [rewrite slots_arr_snoc, str_arr_snoc|]; lia. }
    destruct e1; try (apply Err; [discriminate|symmetry; exact H]).
    destruct (IH _ _ _ _ _ _ _ H) as [S2 T2]. cbn [okc] in S1.
    destruct (f_allow ef); [rewrite slots_arr_snoc in S2; rewrite str_arr_snoc in T2|]; lia.
Qed.

Lemma mp_object_loop_lin : forall pv, pv_lin pv ->
  forall cnt f acc r e l r',
  mp_object_loop pv cnt f acc r = (e, l, r') ->
  Z.of_nat (slots (JObj l)) + rdz r <= Z.of_nat (slots (JObj acc)) + rdz r' + errc e /\
  Z.of_nat (str_bytes (JObj l)) + rdz r <= Z.of_nat (str_bytes (JObj acc)) + rdz r'.
Proof.
  intros pv G. induction cnt as [|cnt IH]; intros f acc r e l r' H; cbn [mp_object_loop] in H.
  - inversion H; subst. cbn [errc]. lia.
  - destruct (mp_read_key r) as [[ek key] rk] eqn:Ek.
    destruct (read_key_rd _ _ _ _ Ek) as [Ak Bk].
    destruct ek; try (inversion H; subst; cbn [errc]; lia).
    specialize (Bk eq_refl). cbv zeta in H.
    destruct (pv (f_member f key) (f_allow (f_member f key)) rk) as [[e1 v1] r1] eqn:E1.
    destruct (G _ _ _ _ _ _ E1) as [S1 T1].
    assert (Err : e1 <> Ok ->
            (e, l, r') = (e1, (if f_allow (f_member f key) then acc ++ [(key, v1)] else acc), r1) ->
            Z.of_nat (slots (JObj l)) + rdz r <= Z.of_nat (slots (JObj acc)) + rdz r' + errc e /\
            Z.of_nat (str_bytes (JObj l)) + rdz r <= Z.of_nat (str_bytes (JObj acc)) + rdz r').
    { intros Hne X. inversion X; subst.
      assert (errc e1 = 1) by (destruct e1; try reflexivity; contradiction Hne; reflexivity).
      assert (0 <= okc e1) by (destruct e1; cbn; lia).
      destruct (f_allow (f_member f key)); [rewrite slots_obj_snoc, str_obj_snoc|]; lia. }
    destruct e1; try (apply Err; [discriminate|symmetry; exact H]).
    destruct (IH _ _ _ _ _ _ H) as [S2 T2]. cbn [okc] in S1.
    destruct (f_allow (f_member f key));
      [rewrite slots_obj_snoc in S2; rewrite str_obj_snoc in T2|]; lia.
Qed.

(* strings, containers, bin/ext: [r] is the reader after the type byte, which accounts for the +1 *)
Lemma mp_tail_lin : forall pv Lz f cb r e v r', pv_lin pv ->
  mp_tail pv Lz f cb r = (e, v, r') ->
  Z.of_nat (slots v) + okc e + rdz r <= rdz r' + 1 /\ Z.of_nat (str_bytes v) + rdz r <= rdz r' + 1.
Proof.
  intros pv Lz f cb r e v r' G. unfold mp_tail. cbv zeta.
  set (c := Z.of_N cb). set (sb := size_bytes_of c).
  destruct (if Nat.eqb sb 0 then (Some [], r) else read_n sb r) as [[hb|] r1] eqn:Eh.
  2:{ intros H. inversion H; subst.
      assert (A1 : rdz r <= rdz r').
      { destruct (Nat.eqb sb 0); [inversion Eh|exact (proj1 (read_n_rd _ _ _ _ Eh))]. }
      cbn [slots str_bytes okc]. lia. }
  assert (A1 : rdz r1 = rdz r + Z.of_nat (length hb)).
  { destruct (Nat.eqb sb 0); [inversion Eh; subst; cbn [length]; lia|].
    exact (proj2 (read_n_rd _ _ _ _ Eh) _ eq_refl). }
  set (size := if Nat.eqb sb 0 then size0_of c else be_value hb 0). clearbody size.
  destruct (is_arr_code c).
  { destruct Lz.
    { intros H. inversion H; subst. cbn [slots str_bytes okc]. lia. }
    destruct (mp_array_loop pv (clip_count size r1) (f_element f) (f_allow_array f) [] r1)
      as [[e1 l1] r2] eqn:EL.
    destruct (mp_array_loop_lin pv G _ _ _ _ _ _ _ _ EL) as [S2 T2].
    pose proof (okc_errc e1) as OE.
    assert (P0 : 0 <= okc e1) by (destruct e1; cbn; lia).
    intros H. inversion H; subst. change (slots (JArr [])) with 0%nat in S2.
    change (str_bytes (JArr [])) with 0%nat in T2.
    destruct (f_allow_array f); [|cbn [slots str_bytes]]; lia. }
  destruct (is_map_code c).
  { destruct Lz.
    { intros H. inversion H; subst. cbn [slots str_bytes okc]. lia. }
    destruct (mp_object_loop pv (clip_count size r1) f [] r1) as [[e1 l1] r2] eqn:EL.
    destruct (mp_object_loop_lin pv G _ _ _ _ _ _ _ EL) as [S2 T2].
    pose proof (okc_errc e1) as OE.
    assert (P0 : 0 <= okc e1) by (destruct e1; cbn; lia).
    intros H. inversion H; subst. change (slots (JObj [])) with 0%nat in S2.
    change (str_bytes (JObj [])) with 0%nat in T2.
    destruct (f_allow_object f); [|cbn [slots str_bytes]]; lia. }
  destruct (is_str_code c).
  { destruct (f_allow_value f).
    - destruct (max_string_length <? size).
      { intros H; inversion H; subst. cbn [slots str_bytes okc]. lia. }
      destruct (read_z size r1) as [[s|] r2] eqn:E2; destruct (read_z_rd _ _ _ _ E2) as [A2 B2];
        intros H; inversion H; subst; cbn [slots str_bytes okc]; [specialize (B2 _ eq_refl)|]; lia.
    - destruct (mp_skip size r1) as [e2 r2] eqn:E2. pose proof (mp_skip_rd _ _ _ _ E2) as SK.
      intros H; inversion H; subst. assert (P1 : okc e <= 1) by (destruct e; cbn; lia).
      cbn [slots str_bytes]. lia. }
  set (size' := if is_ext_code c then size + 1 else size). clearbody size'.
  destruct (f_allow_value f).
  - destruct (max_string_length <? 1 + Z.of_nat sb + size').
    { intros H; inversion H; subst. cbn [slots str_bytes okc]. lia. }
    destruct (read_z size' r1) as [[s|] r2] eqn:E2; destruct (read_z_rd _ _ _ _ E2) as [A2 B2];
      intros H; inversion H; subst; cbn [slots str_bytes okc length];
      [specialize (B2 _ eq_refl); rewrite app_length|]; lia.
  - destruct (mp_skip size' r1) as [e2 r2] eqn:E2. pose proof (mp_skip_rd _ _ _ _ E2) as SK.
    intros H; inversion H; subst. assert (P1 : okc e <= 1) by (destruct e; cbn; lia).
    cbn [slots str_bytes]. lia.
Qed.

Lemma mp_body_lin : forall cf pv Lz f r e v r', pv_lin pv ->
  mp_body cf pv Lz f r = (e, v, r') -> mpV e v r r'.
Proof.
  intros cf pv Lz f r e v r' G. unfold mp_body, mpV.
  destruct (read_n 1 r) as [o r1] eqn:E1. destruct (read_n_rd _ _ _ _ E1) as [A1 B1].
  destruct o as [[|cb [|c' t]]|];
    try (intros H; inversion H; subst; cbn [slots str_bytes okc]; lia).
  specialize (B1 _ eq_refl). cbn [length] in B1.
  cbv zeta. set (c := Z.of_N cb).
  assert (Fixed : forall w (K : bytes -> jv),
            (forall l, slots (K l) = 0%nat /\ str_bytes (K l) = 0%nat) ->
            (if f_allow_value f
             then match read_n w r1 with
                  | (Some l, r) => (Ok, K l, r)
                  | (None, r) => (IncompleteInput, JNull, r)
                  end
             else let '(e, r) := mp_skip (Z.of_nat w) r1 in (e, JNull, r)) = (e, v, r') ->
            Z.of_nat (slots v) + okc e + rdz r <= rdz r' /\ Z.of_nat (str_bytes v) + rdz r <= rdz r').
  { intros w K HK. destruct (f_allow_value f).
    - destruct (read_n w r1) as [[l|] r2] eqn:E2; destruct (read_n_rd _ _ _ _ E2) as [A2 _];
        intros H; inversion H; subst; [destruct (HK l) as [-> ->]|]; cbn [slots str_bytes okc]; lia.
    - destruct (mp_skip (Z.of_nat w) r1) as [e2 r2] eqn:E2. pose proof (mp_skip_rd _ _ _ _ E2) as SK.
      intros H; inversion H; subst. assert (P1 : okc e <= 1) by (destruct e; cbn; lia).
      cbn [slots str_bytes]. lia. }
  destruct ((0xCC <=? c) && (c <=? 0xD3)).
  { apply (Fixed _ (fun l => JInt (if 0xD0 <=? c
                                   then signed_of (Z.to_nat (2 ^ ((c - 0xCC) mod 4))) (be_value l 0)
                                   else be_value l 0))). intros l; split; reflexivity. }
  destruct (c =? 0xC0).
  { intros H; inversion H; subst. cbn [slots str_bytes okc]. lia. }
  destruct (c =? 0xC1).
  { intros H; inversion H; subst. cbn [slots str_bytes okc]. lia. }
  destruct ((c =? 0xC2) || (c =? 0xC3)).
  { intros H; inversion H; subst. destruct (f_allow_value f); cbn [slots str_bytes okc]; lia. }
  destruct (c =? 0xCA).
  { apply (Fixed 4%nat (fun l => JFloat (sf_of_bits F32 (be_value l 0)))). intros l; split; reflexivity. }
  destruct (c =? 0xCB).
  { apply (Fixed 8%nat (fun l => jv_of_double (use_double cf) (sf_of_bits F64 (be_value l 0)))).
    intros l. apply jv_of_double_scalar. }
  destruct ((c <=? 0x7F) || (0xE0 <=? c)).
  { intros H; inversion H; subst. destruct (f_allow_value f); cbn [slots str_bytes okc]; lia. }
  intros H. destruct (mp_tail_lin pv Lz f cb r1 e v r' G H) as [S2 T2]. lia.
Qed.

Lemma mp_parse_lin : forall cf L, pv_lin (mp_parse cf L).
Proof.
  intros cf. induction L as [|L IH]; intros f d r e v r' H; rewrite mp_parse_eq in H.
  - apply (mp_body_lin cf _ _ _ _ _ _ _) with (2 := H).
    intros f0 d0 r0 e0 v0 r0' H0. cbn [pv_of] in H0. inversion H0; subst.
    unfold mpV. cbn [slots str_bytes okc]. lia.
  - apply (mp_body_lin cf _ _ _ _ _ _ _) with (2 := H). exact IH.
Qed.

(* C06, last clause, MessagePack: whatever a header announces, and whatever the outcome (on error
   mp_doc is the partial document), only what was present in the input is built. *)
Theorem mp_doc_linear : forall cf f L i, let o := mp_run cf f L i in
  (slots (mp_doc o) <= N.to_nat (m_reads (mp_rd o)))%nat /\
  (str_bytes (mp_doc o) <= N.to_nat (m_reads (mp_rd o)))%nat.
Proof.
  intros cf f L i. cbv zeta. unfold mp_run.
  destruct (mp_parse cf L f true {| m_rest := i; m_reads := 0 |}) as [[e v] r'] eqn:E.
  destruct (mp_parse_lin cf L _ _ _ _ _ _ E) as [S1 T1]. cbn [mp_doc mp_rd].
  unfold rdz in *. cbn [m_reads] in *.
  assert (0 <= okc e) by (destruct e; cbn; lia). lia.
Qed.

(* ===================================================================================== *)
(* Part B — successive MessagePack calls on one stream (C16)                              *)
Local Open Scope N_scope.

(* on an exhausted stream the call reports EmptyInput, reads nothing and leaves a null document *)
Lemma mp_run_nil : forall cf f L,
  mp_run cf f L [] =
    {| mp_err := EmptyInput; mp_doc := JNull; mp_rd := {| m_rest := []; m_reads := 0 |} |}.
Proof. intros cf f L. unfold mp_run. rewrite mp_parse_eq. reflexivity. Qed.

(* expected results for objects vs encoded as bs, starting at stream position pos: one Ok result per
   object, positioned just after it, then one EmptyInput at the end of the stream *)
Fixpoint mp_results (cf : cfg) (pos : N) (vs : list mpv) (bs : list bytes) : list call_result :=
  match vs, bs with
  | v :: vs', b :: bs' =>
      let p := pos + N.of_nat (length b) in
      {| c_err := Ok; c_pos := p; c_doc := mp_den (use_double cf) v |} :: mp_results cf p vs' bs'
  | _, _ => [{| c_err := EmptyInput; c_pos := pos; c_doc := JNull |}]
  end.

Lemma rb_skipn_app_exact : forall (b rest : bytes), skipn (length b) (b ++ rest) = rest.
Proof. induction b as [|x b IH]; intros rest; cbn [length app skipn]; auto. Qed.

Lemma mp_stream_objects_gen : forall cf L vs bs, Forall2 MpEnc vs bs -> Forall mp_limits vs ->
  Forall (fun v => (mpv_depth v <= L)%nat) vs ->
  forall calls pos, mp_stream cf L calls pos (concat bs) = firstn calls (mp_results cf pos vs bs).
Proof.
  intros cf L vs bs H. induction H as [|v b vs bs Hvb Hrest IH]; intros Hlim Hdep calls pos.
  - cbn [concat mp_results]. destruct calls as [|calls]; [reflexivity|].
    cbn [mp_stream firstn]. rewrite mp_run_nil. cbn [mp_err mp_rd mp_doc m_reads].
    rewrite N.add_0_r. destruct calls; reflexivity.
  - inversion Hlim as [|? ? Hl1 Hl2]; subst. inversion Hdep as [|? ? Hd1 Hd2]; subst.
    cbn [concat mp_results]. destruct calls as [|calls]; [reflexivity|].
    cbn [mp_stream firstn].
    rewrite (mp_run_complete cf v b Hvb Hl1 L (concat bs) Hd1).
    cbn [mp_err mp_rd mp_doc m_reads]. rewrite Nat2N.id, rb_skipn_app_exact.
    f_equal. apply IH; assumption.
Qed.

(* C16: back-to-back legal encodings are delivered one per call, each call stopping exactly at the
   end of its object; the call after the last one reports EmptyInput *)
Theorem mp_stream_objects : forall cf L vs bs, Forall2 MpEnc vs bs -> Forall mp_limits vs ->
  Forall (fun v => (mpv_depth v <= L)%nat) vs ->
  forall calls, mp_stream cf L calls 0 (concat bs) = firstn calls (mp_results cf 0 vs bs).
Proof. intros cf L vs bs H Hl Hd calls. apply mp_stream_objects_gen; assumption. Qed.

Lemma mp_results_length : forall cf pos vs bs, length vs = length bs ->
  length (mp_results cf pos vs bs) = S (length vs).
Proof.
  intros cf pos vs. revert pos. induction vs as [|v vs IH]; intros pos [|b bs] E;
    cbn [mp_results length] in *; try discriminate E; [reflexivity|].
  f_equal. apply IH. lia.
Qed.

Lemma rb_Forall2_length : forall (A B : Type) (R : A -> B -> Prop) l1 l2,
  Forall2 R l1 l2 -> length l1 = length l2.
Proof. intros A B R l1 l2 H. induction H; cbn [length]; congruence. Qed.

Corollary mp_stream_all : forall cf L vs bs, Forall2 MpEnc vs bs -> Forall mp_limits vs ->
  Forall (fun v => (mpv_depth v <= L)%nat) vs ->
  mp_stream cf L (S (length vs)) 0 (concat bs) = mp_results cf 0 vs bs.
Proof.
  intros cf L vs bs H Hl Hd. rewrite (mp_stream_objects cf L vs bs H Hl Hd).
  rewrite <- (mp_results_length cf 0 vs bs (rb_Forall2_length _ _ _ _ _ H)). apply firstn_all.
Qed.

(* ------------------------------------------------------------------------------------- *)
(* Examples (vm_compute) *)

(* three back-to-back objects [1,2,3] "hi" nil: one per call, then EmptyInput *)
Example mp_stream_three :
  mp_stream default_cfg 10 4 0 [0x93; 1; 2; 3;  0xA2; 0x68; 0x69;  0xC0] =
    [ {| c_err := Ok; c_pos := 4; c_doc := JArr [JInt 1; JInt 2; JInt 3] |};
      {| c_err := Ok; c_pos := 7; c_doc := JStr [0x68; 0x69] |};
      {| c_err := Ok; c_pos := 8; c_doc := JNull |};
      {| c_err := EmptyInput; c_pos := 8; c_doc := JNull |} ].
Proof. vm_compute. reflexivity. Qed.

(* one object followed by garbage (0xC1 is the never-used code): the second call reports
   InvalidInput after one more byte, and the stream stops there *)
Example mp_stream_garbage :
  mp_stream default_cfg 10 4 0 [0xC0; 0xC1; 0xC0] =
    [ {| c_err := Ok; c_pos := 1; c_doc := JNull |};
      {| c_err := InvalidInput; c_pos := 2; c_doc := JNull |} ].
Proof. vm_compute. reflexivity. Qed.

(* the constants of Part A cannot be improved: (error, slots, string bytes, bytes read) *)
Definition json_cost (i : bytes) : code * nat * nat * N :=
  let o := json_run default_cfg None 10 i in
  (j_err o, slots (j_doc o), str_bytes (j_doc o), reads (j_st o)).
Definition mp_cost (i : bytes) : code * nat * nat * N :=
  let o := mp_run default_cfg None 10 i in
  (mp_err o, slots (mp_doc o), str_bytes (mp_doc o), m_reads (mp_rd o)).

(* MessagePack: slots = bytes read ([nil, <missing>] from 92 C0; two members from 82 A0 C0 A0) *)
Example mp_slots_tight_arr : mp_cost [0x92; 0xC0] = (IncompleteInput, 2%nat, 0%nat, 2).
Proof. vm_compute. reflexivity. Qed.
Example mp_slots_tight_map : mp_cost [0x82; 0xA0; 0xC0; 0xA0] = (IncompleteInput, 4%nat, 0%nat, 4).
Proof. vm_compute. reflexivity. Qed.
(* MessagePack: string bytes = bytes read (a bin 8 object is kept whole, header included) *)
Example mp_str_tight : mp_cost [0xC4; 0x02; 0x61; 0x62] = (Ok, 0%nat, 4%nat, 4).
Proof. vm_compute. reflexivity. Qed.
(* headers announcing 2^32-1 elements / a 4 GB string / a 64 KB string build nothing beyond the input *)
Example mp_huge_array : mp_cost [0xDD; 0xFF; 0xFF; 0xFF; 0xFF; 0xC0] = (IncompleteInput, 2%nat, 0%nat, 6).
Proof. vm_compute. reflexivity. Qed.
Example mp_huge_str32 : mp_cost [0xDB; 0xFF; 0xFF; 0xFF; 0xFF; 0x61] = (NoMemory, 0%nat, 0%nat, 5).
Proof. vm_compute. reflexivity. Qed.
Example mp_huge_str16 : mp_cost [0xDA; 0xFF; 0xFF; 0x61] = (IncompleteInput, 0%nat, 0%nat, 4).
Proof. vm_compute. reflexivity. Qed.
(* JSON: n opening brackets leave n-1 slots behind, so no factor below 1 works; "[1," leaves 2 *)
Example json_slots_nested : json_cost [91; 91; 91; 91] = (IncompleteInput, 3%nat, 0%nat, 4).
Proof. vm_compute. reflexivity. Qed.
Example json_slots_partial : json_cost [91; 49; 44] = (IncompleteInput, 2%nat, 0%nat, 3).
Proof. vm_compute. reflexivity. Qed.
Example json_member : json_cost [123; 34; 34; 58; 48; 125] = (Ok, 2%nat, 0%nat, 6).
Proof. vm_compute. reflexivity. Qed.
Example json_str : json_cost [91; 34; 97; 97; 97; 34] = (IncompleteInput, 1%nat, 3%nat, 6).
Proof. vm_compute. reflexivity. Qed.
