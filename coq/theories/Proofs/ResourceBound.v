(* ResourceBound.v — what a deserializer builds is linear in what it read (C06, last clause), and
   successive MessagePack calls on one stream (C16).

   Part 0  the cost of a document: [slots] (16-byte slots below the value: one per array element,
           two per object member) and [str_bytes] (bytes of all string values, raw values and keys)
   Part A1 JSON reader: json_doc_linear      slots <= reads, str_bytes <= reads, every outcome
   Part A2 MessagePack reader: mp_doc_linear slots <= reads, str_bytes <= reads, every outcome
   Part B  mp_stream on back-to-back legal encodings: mp_stream_objects                          *)
From Coq Require Import NArith ZArith List Bool Lia.
From Coq Require Import Floats.SpecFloat.
From AJ Require Import Model.Base Model.FloatModel Model.Value Model.Utf Model.NumParse
  Model.JsonParse Model.MsgPack Model.Stream.
From AJ Require Import Proofs.Lex Spec.ParseSpec Proofs.ParseSafe.
From AJ Require Import Proofs.MsgPackRT Spec.MsgPackSpec Proofs.MsgPackComplete.

(* ===================================================================================== *)
(* Part 0 — the cost of a document                                                        *)

(* slots needed below the value *)
Fixpoint slots (v : jv) : nat :=
  match v with
  | JArr l => fold_right (fun e n => (S (slots e) + n)%nat) 0%nat l
  | JObj l => fold_right (fun kv n => (S (S (slots (snd kv))) + n)%nat) 0%nat l
  | _ => 0%nat
  end.

(* total length of all string values, raw values and keys *)
Fixpoint str_bytes (v : jv) : nat :=
  match v with
  | JStr s | JRaw s => length s
  | JArr l => fold_right (fun e n => (str_bytes e + n)%nat) 0%nat l
  | JObj l => fold_right (fun kv n => (length (fst kv) + str_bytes (snd kv) + n)%nat) 0%nat l
  | _ => 0%nat
  end.

Lemma slots_arr_snoc : forall acc v, slots (JArr (acc ++ [v])) = (slots (JArr acc) + S (slots v))%nat.
Proof.
  intros acc v. cbn [slots]. induction acc as [|x acc IH]; cbn [app fold_right]; [lia|].
  rewrite IH. lia.
Qed.

Lemma str_arr_snoc : forall acc v,
  str_bytes (JArr (acc ++ [v])) = (str_bytes (JArr acc) + str_bytes v)%nat.
Proof.
  intros acc v. cbn [str_bytes]. induction acc as [|x acc IH]; cbn [app fold_right]; [lia|].
  rewrite IH. lia.
Qed.

Lemma slots_obj_snoc : forall acc k v,
  slots (JObj (acc ++ [(k, v)])) = (slots (JObj acc) + S (S (slots v)))%nat.
Proof.
  intros acc k v. cbn [slots]. induction acc as [|x acc IH]; cbn [app fold_right snd]; [lia|].
  rewrite IH. lia.
Qed.

Lemma str_obj_snoc : forall acc k v,
  str_bytes (JObj (acc ++ [(k, v)])) = (str_bytes (JObj acc) + length k + str_bytes v)%nat.
Proof.
  intros acc k v. cbn [str_bytes]. induction acc as [|x acc IH]; cbn [app fold_right fst snd]; [lia|].
  rewrite IH. lia.
Qed.

(* getMember + re-parse in place: a repeated key replaces the value, it never adds a member *)
Lemma slots_obj_set : forall k v acc,
  (slots (JObj (assoc_set k v acc)) <= slots (JObj acc) + S (S (slots v)))%nat.
Proof.
  intros k v acc. cbn [slots]. induction acc as [|[k' v'] acc IH]; cbn [assoc_set fold_right snd]; [lia|].
  destruct (bytes_eqb k k'); cbn [fold_right snd]; lia.
Qed.

Lemma str_obj_set : forall k v acc,
  (str_bytes (JObj (assoc_set k v acc)) <= str_bytes (JObj acc) + length k + str_bytes v)%nat.
Proof.
  intros k v acc. cbn [str_bytes].
  induction acc as [|[k' v'] acc IH]; cbn [assoc_set fold_right fst snd]; [lia|].
  destruct (bytes_eqb k k'); cbn [fold_right fst snd]; lia.
Qed.

Lemma jv_of_double_scalar : forall ud f,
  slots (jv_of_double ud f) = 0%nat /\ str_bytes (jv_of_double ud f) = 0%nat.
Proof.
  intros ud f. unfold jv_of_double. cbv zeta. destruct ud; [|split; reflexivity].
  destruct (f_eq f (fconv F64 (fconv F32 f))); split; reflexivity.
Qed.

Lemma jv_of_number_scalar : forall cf n v, jv_of_number cf n = Some v ->
  slots v = 0%nat /\ str_bytes v = 0%nat.
Proof.
  intros cf n v H. destruct n; cbn [jv_of_number] in H; try discriminate H;
    injection H as <-; try (split; reflexivity).
  apply jv_of_double_scalar.
Qed.
