(* Lex.v — the reader/latch seen as a stream of bytes, and step lemmas for the primitives
   current / move / eat.  Everything later proved about the JSON reader goes through these. *)
From Coq Require Import NArith ZArith List Bool Lia.
From AJ Require Import Model.Base Model.Value Model.Utf Model.JsonParse.
Local Open Scope N_scope.

(* the bytes the parser has not consumed yet: the latched byte (if any) then the reader's rest *)
Definition stream (s : ps) : bytes :=
  match cur s with Some c => c :: rest s | None => rest s end.

(* a state in which the end of input has not been met *)
Definition good (s : ps) : Prop :=
  ended s = false /\ fault s = false /\ (forall c, cur s = Some c -> c <> 0 /\ lastc s = c).

Lemma good_init : forall i, good (ps_init i).
Proof. intro i. unfold good, ps_init; cbn. repeat split; intros; discriminate. Qed.

Lemma stream_init : forall i, stream (ps_init i) = i.
Proof. reflexivity. Qed.

Lemma current_cons : forall s b t,
  good s -> stream s = b :: t -> b <> 0 ->
  exists s', current s = (b, s') /\ good s' /\ stream s' = b :: t /\ cur s' = Some b /\
             found s' = found s /\ rest s' = t /\ lastc s' = b.
Proof.
  intros s b t (He & Hf & Hc) Hs Hb. unfold current, stream in *.
  destruct (cur s) as [c|] eqn:Ec.
  - injection Hs as Hcb Hr. subst c. exists s. destruct (Hc b eq_refl) as [_ Hl].
    repeat split; auto; try (rewrite Ec; try rewrite Hr; reflexivity);
      intros; assert (c = b) by congruence; subst; auto.
  - unfold load. rewrite Hs. eexists. split; [reflexivity|]. cbn.
    assert (Eb : (b =? 0) = false) by (apply N.eqb_neq; exact Hb).
    rewrite He, Hf, Eb. cbn.
    split.
    { unfold good; cbn. split; [reflexivity|]. split; [reflexivity|].
      intros c0 E0. injection E0 as <-. split; [exact Hb|reflexivity]. }
    repeat split; reflexivity.
Qed.

Lemma move_cons : forall s b t,
  good s -> cur s = Some b -> stream s = b :: t ->
  good (move s) /\ stream (move s) = t /\ cur (move s) = None /\ found (move s) = found s.
Proof.
  intros s b t (He & Hf & Hc) Ec Hs. unfold stream in Hs. rewrite Ec in Hs. injection Hs as Hr.
  unfold move, good, stream; cbn. repeat split; auto; intros; discriminate.
Qed.

(* read one non-NUL byte: current then move *)
Lemma next_cons : forall s b t,
  good s -> stream s = b :: t -> b <> 0 ->
  exists s', current s = (b, s') /\ good (move s') /\ stream (move s') = t /\
             cur (move s') = None /\ found (move s') = found s.
Proof.
  intros s b t G S B. destruct (current_cons s b t G S B) as (s' & E & G' & S' & C' & F' & _).
  exists s'. split; [exact E|]. destruct (move_cons s' b t G' C' S') as (A & B' & C & D).
  split; [exact A|]. split; [exact B'|]. split; [exact C|]. rewrite D. exact F'.
Qed.

(* eat on a matching / non matching head *)
Lemma eat_yes : forall s b t,
  good s -> stream s = b :: t -> b <> 0 ->
  exists s', eat b s = (true, s') /\ good s' /\ stream s' = t /\ cur s' = None /\ found s' = found s.
Proof.
  intros s b t G S B. unfold eat.
  destruct (next_cons s b t G S B) as (s' & E & G' & S' & C' & F'). rewrite E, N.eqb_refl.
  exists (move s'). auto.
Qed.

Lemma eat_no : forall s c b t,
  good s -> stream s = b :: t -> b <> 0 -> b <> c ->
  exists s', eat c s = (false, s') /\ good s' /\ stream s' = b :: t /\ cur s' = Some b /\ found s' = found s.
Proof.
  intros s c b t G S B N. unfold eat.
  destruct (current_cons s b t G S B) as (s' & E & G' & S' & C' & F' & _). rewrite E.
  assert (X : (b =? c) = false) by (apply N.eqb_neq; exact N). rewrite X.
  exists s'. auto.
Qed.
