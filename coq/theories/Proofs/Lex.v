(* Lex.v — the reader/latch seen as a stream of bytes, and step lemmas for the primitives
   current / move / eat.  Everything later proved about the JSON reader goes through these. *)
From Coq Require Import NArith ZArith List Bool Lia.
From AJ Require Import Model.Base Model.Value Model.Utf Model.JsonParse.
Local Open Scope N_scope.

(* the bytes the parser has not consumed yet: the latched byte (if any) then the reader's rest *)
Definition stream (s : ps) : bytes :=
  match cur s with Some c => c :: rest s | None => rest s end.

(* a state in which the end of input has not been met *)
Definition good (s : ps) : Prop :=
  ended s = false /\ fault s = false /\ (forall c, cur s = Some c -> c <> 0 /\ lastc s = c).

Lemma good_init : forall i, good (ps_init i).
Proof. intro i. unfold good, ps_init; cbn. repeat split; intros; discriminate. Qed.

Lemma stream_init : forall i, stream (ps_init i) = i.
Proof. reflexivity. Qed.

Lemma current_cons : forall s b t,
  good s -> stream s = b :: t -> b <> 0 ->
  exists s', current s = (b, s') /\ good s' /\ stream s' = b :: t /\ cur s' = Some b /\
             found s' = found s /\ rest s' = t /\ lastc s' = b.
Proof.
  intros s b t (He & Hf & Hc) Hs Hb. unfold current, stream in *.
  destruct (cur s) as [c|] eqn:Ec.
  - injection Hs as Hcb Hr. subst c. exists s. destruct (Hc b eq_refl) as [_ Hl].
    repeat split; auto; try (rewrite Ec; try rewrite Hr; reflexivity);
      intros; assert (c = b) by congruence; subst; auto.
  - unfold load. rewrite Hs. eexists. split; [reflexivity|]. cbn.
    assert (Eb : (b =? 0) = false) by (apply N.eqb_neq; exact Hb).
    rewrite He, Hf, Eb. cbn.
    split.
    { unfold good; cbn. split; [reflexivity|]. split; [reflexivity|].
      intros c0 E0. injection E0 as <-. split; [exact Hb|reflexivity]. }
    repeat split; reflexivity.
Qed.

Lemma move_cons : forall s b t,
  good s -> cur s = Some b -> stream s = b :: t ->
  good (move s) /\ stream (move s) = t /\ cur (move s) = None /\ found (move s) = found s.
Proof.
  intros s b t (He & Hf & Hc) Ec Hs. unfold stream in Hs. rewrite Ec in Hs. injection Hs as Hr.
  unfold move, good, stream; cbn. repeat split; auto; intros; discriminate.
Qed.

(* read one non-NUL byte: current then move *)
Lemma next_cons : forall s b t,
  good s -> stream s = b :: t -> b <> 0 ->
  exists s', current s = (b, s') /\ good (move s') /\ stream (move s') = t /\
             cur (move s') = None /\ found (move s') = found s.
Proof.
  intros s b t G S B. destruct (current_cons s b t G S B) as (s' & E & G' & S' & C' & F' & _).
  exists s'. split; [exact E|]. destruct (move_cons s' b t G' C' S') as (A & B' & C & D).
  split; [exact A|]. split; [exact B'|]. split; [exact C|]. rewrite D. exact F'.
Qed.

(* eat on a matching / non matching head *)
Lemma eat_yes : forall s b t,
  good s -> stream s = b :: t -> b <> 0 ->
  exists s', eat b s = (true, s') /\ good s' /\ stream s' = t /\ cur s' = None /\ found s' = found s.
Proof.
  intros s b t G S B. unfold eat.
  destruct (next_cons s b t G S B) as (s' & E & G' & S' & C' & F'). rewrite E, N.eqb_refl.
  exists (move s'). auto.
Qed.

Lemma eat_no : forall s c b t,
  good s -> stream s = b :: t -> b <> 0 -> b <> c ->
  exists s', eat c s = (false, s') /\ good s' /\ stream s' = b :: t /\ cur s' = Some b /\ found s' = found s.
Proof.
  intros s c b t G S B N. unfold eat.
  destruct (current_cons s b t G S B) as (s' & E & G' & S' & C' & F' & _). rewrite E.
  assert (X : (b =? c) = false) by (apply N.eqb_neq; exact N). rewrite X.
  exists s'. auto.
Qed.

(* ------------------------------------------------------------------------------------- *)
(* the capacity test at the end of parseQuotedString / parseNonQuotedString *)
Definition str_fits (s : bytes) : Prop := N.of_nat (length s) <= max_json_string.

Lemma too_long_false : forall a, too_long a = false <-> str_fits a.
Proof. intro a. unfold too_long, str_fits. rewrite N.ltb_ge. tauto. Qed.

Lemma too_long_true : forall a, too_long a = true <-> max_json_string < N.of_nat (length a).
Proof. intro a. unfold too_long. apply N.ltb_lt. Qed.

Lemma str_fits_nil : str_fits [].
Proof. unfold str_fits, max_json_string. cbn. lia. Qed.

Lemma cap_string_fits : forall acc s, str_fits acc -> cap_string (Ok, acc, s) = (Ok, acc, s).
Proof. intros acc s H. apply too_long_false in H. unfold cap_string. rewrite H. reflexivity. Qed.

Lemma cap_string_long : forall acc s, max_json_string < N.of_nat (length acc) ->
  cap_string (Ok, acc, s) = (NoMemory, [], s).
Proof. intros acc s H. apply too_long_true in H. unfold cap_string. rewrite H. reflexivity. Qed.

Lemma cap_string_err : forall e acc s, e <> Ok -> cap_string (e, acc, s) = (e, acc, s).
Proof. intros e acc s H. destruct e; try reflexivity. congruence. Qed.

(* the reader state is never touched *)
Lemma cap_string_state : forall r, snd (cap_string r) = snd r.
Proof.
  intros [[e a] s]. unfold cap_string. destruct e; try reflexivity.
  destruct (too_long a); reflexivity.
Qed.

Lemma cap_string_inv : forall r e a s, cap_string r = (e, a, s) ->
  (r = (e, a, s) /\ (e = Ok -> str_fits a)) \/
  (e = NoMemory /\ a = [] /\ exists acc, r = (Ok, acc, s) /\ max_json_string < N.of_nat (length acc)).
Proof.
  intros [[e0 a0] s0] e a s H. unfold cap_string in H.
  destruct e0; try (left; split; [exact H|]; intro X; subst e; inversion H; fail).
  - destruct (too_long a0) eqn:T.
    + right. inversion H; subst. split; [reflexivity|]. split; [reflexivity|].
      exists a0. split; [reflexivity|]. apply too_long_true. exact T.
    + left. split; [exact H|]. intros _. inversion H; subst. apply too_long_false. exact T.
Qed.

Lemma cap_string_ok : forall r a s, cap_string r = (Ok, a, s) -> r = (Ok, a, s) /\ str_fits a.
Proof.
  intros r a s H. destruct (cap_string_inv _ _ _ _ H) as [[E F]|[E _]]; [|discriminate E].
  split; [exact E|exact (F eq_refl)].
Qed.

(* the error code, seen from the caller: Ok stays Ok or becomes NoMemory, errors are kept *)
Lemma cap_string_code : forall r e a s, cap_string r = (e, a, s) ->
  snd r = s /\ (fst (fst r) = e \/ (fst (fst r) = Ok /\ e = NoMemory)).
Proof.
  intros r e a s H. destruct (cap_string_inv _ _ _ _ H) as [[E _]|[E [_ [acc [R _]]]]]; subst r; cbn; auto.
Qed.

Lemma cap_string_ok_fst : forall r, fst (fst (cap_string r)) = Ok -> fst (fst r) = Ok.
Proof.
  intros [[e a] s]. unfold cap_string. destruct e; cbn [fst]; try (intro H; exact H).
  destruct (too_long a); cbn [fst]; [discriminate|reflexivity].
Qed.
