(* JsonSerRT.v — the JSON serializer model: integers are printed digit-exact and read back exactly,
   the writers, and serialize-then-parse is the identity on float-free documents (compact and
   pretty output). *)
From Coq Require Import NArith ZArith List Bool Lia.
From AJ Require Import Model.Base Model.FloatModel Model.Value Model.Utf Model.NumParse Model.JsonParse
                       Model.JsonSer.
From AJ Require Import Spec.Utf8Spec Spec.Rfc8259 Spec.ParseSpec.
From AJ Require Import Proofs.Sweep Proofs.UtfProofs Proofs.Lex Proofs.StringRT Proofs.ParseComplete.
Local Open Scope Z_scope.

(* ===================================================================================== *)
(* Part 1 — integers                                                                     *)

Definition is_digit_byte (b : N) : Prop := (48 <= b <= 57)%N.

(* value of a decimal spelling, most significant digit first *)
Definition dval (acc : Z) (d : N) : Z := acc * 10 + (Z.of_N d - 48).
Definition digits_value (l : list N) : Z := fold_left dval l 0.

Lemma digits_value_snoc : forall l d, digits_value (l ++ [d]) = digits_value l * 10 + (Z.of_N d - 48).
Proof. intros l d. unfold digits_value. rewrite fold_left_app. reflexivity. Qed.

Lemma hd_app_ne : forall (l m : list N) x, l <> [] -> hd x (l ++ m) = hd x l.
Proof. intros l m x H. destruct l; [congruence|reflexivity]. Qed.

Lemma pow10_succ : forall n, 10 ^ Z.of_nat (S n) = 10 * 10 ^ Z.of_nat n.
Proof. intro n. rewrite Nat2Z.inj_succ, Z.pow_succ_r by lia. reflexivity. Qed.

(* the reverse-buffer loop: with enough fuel for the number of digits it spells the value *)
Lemma digits_rev_spec : forall fuel n z, (1 <= n <= fuel)%nat -> 0 <= z < 10 ^ Z.of_nat n ->
  digits_value (rev (digits_rev fuel z)) = z /\
  Forall is_digit_byte (rev (digits_rev fuel z)) /\
  rev (digits_rev fuel z) <> [] /\
  (z <> 0 -> hd 0%N (rev (digits_rev fuel z)) <> 48%N) /\
  (length (rev (digits_rev fuel z)) <= n)%nat.
Proof.
  induction fuel as [|fuel IH]; intros n z Hn Hz; [lia|].
  cbn [digits_rev].
  assert (Hm : 0 <= z mod 10 < 10) by (apply Z.mod_pos_bound; lia).
  assert (Hd : Z.of_N (Z.to_N (z mod 10 + 48)) = z mod 10 + 48) by lia.
  assert (Hdiv : z = 10 * (z / 10) + z mod 10) by (apply Z_div_mod_eq_full).
  assert (Hdb : is_digit_byte (Z.to_N (z mod 10 + 48))) by (unfold is_digit_byte; lia).
  destruct (z / 10 =? 0) eqn:Q.
  - apply Z.eqb_eq in Q. cbn [rev app]. unfold digits_value. cbn [fold_left hd length]. unfold dval.
    split; [lia|]. split; [constructor; [exact Hdb|constructor]|]. split; [discriminate|].
    split; [lia|lia].
  - apply Z.eqb_neq in Q.
    destruct n as [|[|n']]; [lia| |].
    { change (10 ^ Z.of_nat 1) with 10 in Hz. rewrite Z.div_small in Q by lia. congruence. }
    rewrite pow10_succ in Hz.
    assert (Hq : 0 <= z / 10 < 10 ^ Z.of_nat (S n')).
    { split; [apply Z.div_pos; lia|apply Z.div_lt_upper_bound; lia]. }
    destruct (IH (S n') (z / 10) ltac:(lia) Hq) as (V & F & NE & H0 & LN).
    cbn [rev]. rewrite digits_value_snoc, V, Hd.
    split; [lia|]. split; [apply Forall_app; split; [exact F|constructor; [exact Hdb|constructor]]|].
    split; [intro E; apply app_eq_nil in E as [_ E]; discriminate|].
    split; [intros _; rewrite hd_app_ne by exact NE; apply H0; exact Q|].
    rewrite app_length. cbn [length]. lia.
Qed.

Lemma two64_lt_pow10 : 2 ^ 64 < 10 ^ Z.of_nat 20.
Proof. vm_compute. reflexivity. Qed.

Theorem write_uint_value : forall z, 0 <= z < 2 ^ 64 ->
  digits_value (write_uint z) = z
  /\ Forall is_digit_byte (write_uint z) /\ write_uint z <> []
  /\ (z <> 0 -> hd 0%N (write_uint z) <> 48%N)
  /\ (length (write_uint z) <= 20)%nat.
Proof.
  intros z Hz. unfold write_uint.
  apply (digits_rev_spec 22 20 z); [lia|]. pose proof two64_lt_pow10. lia.
Qed.

Theorem write_int_spec : forall z, - 2 ^ 63 <= z < 2 ^ 64 ->
  write_int z = (if z <? 0 then [45%N] else []) ++ write_uint (Z.abs z).
Proof.
  intros z Hz. unfold write_int. destruct (Z.ltb_spec z 0) as [N|P].
  - rewrite Z.abs_neq by lia. reflexivity.
  - rewrite Z.abs_eq by lia. reflexivity.
Qed.

(* ---- reading a decimal spelling back ---- *)

Lemma dval_fold_ge : forall l m, Forall is_digit_byte l -> 0 <= m -> m <= fold_left dval l m.
Proof.
  induction l as [|b t IH]; intros m F Hm; cbn [fold_left]; [lia|].
  inversion F as [|? ? Hb F']; subst. unfold is_digit_byte in Hb.
  assert (A : m <= dval m b) by (unfold dval; lia).
  pose proof (IH (dval m b) F' ltac:(lia)). lia.
Qed.

Lemma digit_byte_is_digit : forall b, is_digit_byte b -> NumParse.is_digit b = true.
Proof.
  intros b [A B]. unfold NumParse.is_digit. apply andb_true_intro. split; apply N.leb_le; assumption.
Qed.

Lemma maxUint_val : maxUint = 18446744073709551615.
Proof. reflexivity. Qed.

(* the two overflow guards never fire while the value read so far stays a uint64 *)
Lemma scan_int_digits : forall l m, Forall is_digit_byte l -> 0 <= m -> fold_left dval l m <= maxUint ->
  scan_int l m = (fold_left dval l m, []).
Proof.
  induction l as [|b t IH]; intros m F Hm Hv; cbn [scan_int fold_left]; [reflexivity|].
  inversion F as [|? ? Hb F']; subst.
  rewrite (digit_byte_is_digit b Hb). cbn [fold_left] in Hv.
  assert (P : 0 <= dval m b) by (unfold is_digit_byte in Hb; unfold dval; lia).
  pose proof (dval_fold_ge t (dval m b) F' P) as G.
  unfold is_digit_byte in Hb. unfold digit_val.
  rewrite maxUint_val in *.
  assert (B : dval m b <= 18446744073709551615) by lia. unfold dval in B.
  destruct (Z.gtb_spec m (18446744073709551615 / 10)) as [X|X].
  { exfalso. change (18446744073709551615 / 10) with 1844674407370955161 in X. lia. }
  destruct (Z.gtb_spec (m * 10) (18446744073709551615 - (Z.of_N b - 48))) as [Y|Y]; [lia|].
  apply IH; auto.
Qed.

Lemma scan_int_zeros : forall n l, scan_int (repeat 48%N n ++ l) 0 = scan_int l 0.
Proof.
  induction n as [|n IH]; intro l; [reflexivity|].
  cbn [repeat app scan_int]. change (NumParse.is_digit 48) with true. cbv iota.
  change (0 >? maxUint / 10) with false. change (0 * 10 >? maxUint - digit_val 48) with false.
  cbv iota. change (0 * 10 + digit_val 48) with 0. apply IH.
Qed.

(* a literal that starts with a digit carries no sign *)
Lemma parse_number_digit_head : forall c b t, is_digit_byte b ->
  parse_number c (b :: t) = parse_number c (43%N :: b :: t).
Proof.
  intros c b t [A B].
  assert (K : (b = 48 \/ b = 49 \/ b = 50 \/ b = 51 \/ b = 52 \/ b = 53 \/ b = 54 \/ b = 55 \/
              b = 56 \/ b = 57)%N) by lia.
  destruct K as [->|[->|[->|[->|[->|[->|[->|[->|[->| ->]]]]]]]]]; reflexivity.
Qed.

Lemma digit_not_letter : forall b x, is_digit_byte b -> (57 < x)%N -> (b =? x)%N = false.
Proof. intros b x [A B] H. apply N.eqb_neq. lia. Qed.

Lemma parse_number_signed_int : forall c (neg : bool) b t mant,
  is_digit_byte b -> scan_int (b :: t) 0 = (mant, []) ->
  (neg = true -> mant <= 2 ^ 63) ->
  parse_number c ((if neg then 45%N else 43%N) :: b :: t) = (if neg then NumSInt (- mant) else NumUInt mant).
Proof.
  intros c neg b t mant Hb Hs Hm.
  pose proof (digit_byte_is_digit b Hb) as D.
  destruct neg; unfold parse_number; cbv iota beta; cbn [hd0];
    rewrite !(digit_not_letter b _ Hb) by lia; rewrite D; cbn [negb orb andb];
    rewrite !andb_false_r; rewrite Hs; cbv iota beta.
  - assert (X : (mant <=? 2 ^ 63) = true) by (apply Z.leb_le; auto). rewrite X. reflexivity.
  - reflexivity.
Qed.

Theorem parse_int_literal : forall cf (neg : bool) (zeros : nat) z, 0 <= z ->
  (if neg then z <= 2 ^ 63 else z < 2 ^ 64) ->
  parse_number cf ((if neg then [45%N] else []) ++ repeat 48%N zeros ++ write_uint z)
    = (if neg then NumSInt (- z) else NumUInt z).
Proof.
  intros cf neg zeros z Hz Hb.
  assert (R : 0 <= z < 2 ^ 64).
  { change (2 ^ 64) with 18446744073709551616. change (2 ^ 63) with 9223372036854775808 in Hb.
    destruct neg; lia. }
  destruct (write_uint_value z R) as (V & F & NE & _ & _).
  assert (FA : Forall is_digit_byte (repeat 48%N zeros ++ write_uint z)).
  { apply Forall_app. split; [|exact F]. apply Forall_forall. intros x Hx.
    apply repeat_spec in Hx. subst x. unfold is_digit_byte. lia. }
  assert (SC : scan_int (repeat 48%N zeros ++ write_uint z) 0 = (z, [])).
  { rewrite scan_int_zeros. unfold digits_value in V.
    rewrite (scan_int_digits (write_uint z) 0 F ltac:(lia)); rewrite V; [reflexivity|].
    rewrite maxUint_val. change (2 ^ 64) with 18446744073709551616 in R. lia. }
  destruct (repeat 48%N zeros ++ write_uint z) as [|b t] eqn:E.
  { apply app_eq_nil in E as [_ E]. contradiction. }
  inversion FA as [|? ? Hd _]; subst.
  assert (G : parse_number cf ((if neg then 45%N else 43%N) :: b :: t)
              = (if neg then NumSInt (- z) else NumUInt z)).
  { apply parse_number_signed_int; auto. intros ->. exact Hb. }
  destruct neg; cbn [app].
  - exact G.
  - rewrite parse_number_digit_head by exact Hd. exact G.
Qed.

Theorem parse_write_int : forall cf z, - 2 ^ 63 <= z < 2 ^ 64 ->
  parse_number cf (write_int z) = (if z <? 0 then NumSInt z else NumUInt z).
Proof.
  intros cf z Hz. rewrite write_int_spec by exact Hz.
  change (2 ^ 63) with 9223372036854775808 in Hz. change (2 ^ 64) with 18446744073709551616 in Hz.
  destruct (Z.ltb_spec z 0) as [N|P].
  - pose proof (parse_int_literal cf true 0 (Z.abs z) ltac:(lia)) as H. cbn [repeat app] in H.
    cbn [app]. rewrite H.
    + f_equal. lia.
    + change (2 ^ 63) with 9223372036854775808. lia.
  - pose proof (parse_int_literal cf false 0 (Z.abs z) ltac:(lia)) as H. cbn [repeat app] in H.
    cbn [app]. rewrite H.
    + f_equal. lia.
    + change (2 ^ 64) with 18446744073709551616. lia.
Qed.

(* ===================================================================================== *)
(* Part 4 — writers                                                                      *)

Theorem write_to_buffer_spec : forall pt n t,
  write_to_buffer pt n t = (firstn n t, Nat.min n (length t), pt && Nat.ltb (length t) n).
Proof.
  intros pt n t. unfold write_to_buffer. rewrite firstn_length.
  f_equal. f_equal.
  destruct (Nat.ltb_spec (length t) n) as [A|A].
  - rewrite Nat.min_r by lia. apply Nat.ltb_lt in A. rewrite A. reflexivity.
  - rewrite Nat.min_l by lia. rewrite Nat.ltb_irrefl. reflexivity.
Qed.

(* ===================================================================================== *)
(* Part 2 — serialize then parse                                                         *)
Local Open Scope N_scope.

(* a storable string: bytes, and at most 65535 of them (StringNode::maxLength — the reader
   refuses a longer string or key with NoMemory) *)
Definition bytes_ok (s : bytes) : Prop := Forall (fun b => b < 256) s /\ N.of_nat (length s) <= 65535.

(* documents without floats and raw values, integers in range, object keys pairwise distinct *)
Fixpoint nofloat (v : jv) : Prop :=
  match v with
  | JNull | JBool _ => True
  | JInt z => (- 2 ^ 63 <= z < 2 ^ 64)%Z
  | JStr s => bytes_ok s
  | JArr l => fold_right (fun x P => nofloat x /\ P) True l
  | JObj l => NoDup (map fst l) /\
              fold_right (fun kv P => (bytes_ok (fst kv) /\ nofloat (snd kv)) /\ P) True l
  | JFloat _ | JDouble _ | JRaw _ => False
  end.

Lemma fold_and_Forall : forall (A : Type) (Q : A -> Prop) l,
  fold_right (fun x P => Q x /\ P) True l <-> Forall Q l.
Proof.
  intros A Q l. induction l as [|x l IH]; cbn [fold_right].
  - split; intros; [constructor|exact I].
  - split.
    + intros [H1 H2]. constructor; [exact H1|apply IH; exact H2].
    + intro H. inversion H; subst. split; [assumption|apply IH; assumption].
Qed.

Lemma nofloat_arr : forall l, nofloat (JArr l) <-> Forall nofloat l.
Proof. intro l. cbn [nofloat]. apply fold_and_Forall. Qed.

Lemma nofloat_obj : forall l, nofloat (JObj l) <->
  NoDup (map fst l) /\ Forall (fun kv => bytes_ok (fst kv) /\ nofloat (snd kv)) l.
Proof.
  intro l. cbn [nofloat].
  rewrite (fold_and_Forall _ (fun kv => bytes_ok (fst kv) /\ nofloat (snd kv))). tauto.
Qed.

Lemma nesting_arr_inv : forall l d, (nesting (JArr l) <= S d)%nat -> Forall (fun v => (nesting v <= d)%nat) l.
Proof.
  intros l d H. cbn [nesting] in H. apply le_S_n in H.
  induction l as [|x l IH]; [constructor|]. cbn [fold_right] in H.
  constructor; [lia|apply IH; lia].
Qed.

Lemma nesting_obj_inv : forall l d, (nesting (JObj l) <= S d)%nat ->
  Forall (fun kv => (nesting (snd kv) <= d)%nat) l.
Proof.
  intros l d H. cbn [nesting] in H. apply le_S_n in H.
  induction l as [|x l IH]; [constructor|]. cbn [fold_right] in H.
  constructor; [lia|apply IH; lia].
Qed.

(* ---- whitespace ---- *)
Lemma ws_app : forall a b, ws a -> ws b -> ws (a ++ b).
Proof. intros a b A B. induction A; cbn [app]; [exact B|constructor; assumption]. Qed.

Lemma ws_crlf : ws crlf.
Proof. repeat constructor. Qed.

Lemma ws_indent : forall n, ws (indent n).
Proof.
  intro n. unfold indent. induction (Z.to_nat (wrapZu 8 n)) as [|k IH]; cbn [repeat concat].
  - constructor.
  - apply ws_app; [repeat constructor|exact IH].
Qed.

(* ---- a value's text paired with its first byte ---- *)
Definition PvH (cf : cfg) (d : nat) (t : bytes) (v : jv) : Prop :=
  Pv cf d t v /\ exists c r, t = c :: r /\ vstart c.

(* ---- numbers ---- *)
Lemma digit_byte_rfc : forall b, is_digit_byte b -> Rfc8259.is_digit b = true.
Proof.
  intros b [A B]. unfold Rfc8259.is_digit. apply andb_true_intro. split; apply N.leb_le; assumption.
Qed.

Lemma parse_numeric_chars : forall cf t v rest s,
  Forall (fun c => can_be_in_number cf c = true) t -> num_den cf t v ->
  good s -> stream s = t ++ rest -> delimiter cf rest ->
  exists s', parse_numeric_value cf s = (Ok, v, s') /\ post s' rest /\ found s' = found s /\
             lastc s' = hd 0 rest.
Proof.
  intros cf t v rest s FA (Len & Den) G S D.
  destruct (scan_number_all cf t FA 63 [] s rest G S Len) as (s1 & E1 & G1 & S1 & F1).
  destruct (peek s1 rest G1 S1) as (s2 & E2 & F2 & P2 & L2 & C2).
  unfold parse_numeric_value. rewrite E1. cbn [app].
  destruct (Nat.eqb (length t) 63) eqn:E63.
  - apply Nat.eqb_eq in E63. rewrite E63. cbn [Nat.sub scan_number].
    rewrite E63. cbn [Nat.eqb]. rewrite E2. cbn [snd]. rewrite Den.
    exists s2. splits; auto. congruence.
  - apply Nat.eqb_neq in E63.
    destruct (63 - length t)%nat as [|k] eqn:EK; [lia|].
    cbn [scan_number]. rewrite E2.
    assert (X : can_be_in_number cf (hd 0 rest) = false).
    { destruct rest as [|b r]; [apply not_numchar; auto|exact D]. }
    rewrite X. apply Nat.eqb_neq in E63. rewrite E63. rewrite Den.
    exists s2. splits; auto. congruence.
Qed.

Lemma write_int_chars : forall cf z, (- 2 ^ 63 <= z < 2 ^ 64)%Z ->
  Forall (fun c => can_be_in_number cf c = true) (write_int z) /\
  (exists c r, write_int z = c :: r /\ num_start c) /\
  (length (write_int z) <= 21)%nat.
Proof.
  intros cf z Hz. rewrite (write_int_spec z Hz).
  assert (R : (0 <= Z.abs z < 2 ^ 64)%Z).
  { change (2 ^ 63)%Z with 9223372036854775808%Z in Hz.
    change (2 ^ 64)%Z with 18446744073709551616%Z in *. lia. }
  destruct (write_uint_value (Z.abs z) R) as (_ & F & NE & _ & LN).
  assert (FD : Forall (fun c => can_be_in_number cf c = true) (write_uint (Z.abs z))).
  { revert F. apply Forall_impl. intros c Hc. apply digit_numchar. apply digit_byte_rfc. exact Hc. }
  destruct (z <? 0)%Z; cbn [app].
  - split; [constructor; [apply const_numchar; auto|exact FD]|].
    split; [eexists _, _; split; [reflexivity|left; reflexivity]|]. cbn [length]. lia.
  - split; [exact FD|]. split; [|lia].
    destruct (write_uint (Z.abs z)) as [|b t]; [contradiction|].
    inversion F as [|? ? Hb _]; subst.
    exists b, t. split; [reflexivity|]. right. apply digit_byte_rfc. exact Hb.
Qed.

Lemma case_int : forall cf d z, (- 2 ^ 63 <= z < 2 ^ 64)%Z -> PvH cf d (write_int z) (JInt z).
Proof.
  intros cf d z Hz.
  destruct (write_int_chars cf z Hz) as (FA & (c & r & Et & NS) & LN).
  assert (V : vstart c) by (unfold vstart; tauto).
  split; [|exists c, r; auto].
  assert (N : num_den cf (write_int z) (JInt z)).
  { split; [lia|]. rewrite (parse_write_int cf z Hz). destruct (z <? 0)%Z; reflexivity. }
  intros L fuel s w rest W DL G S D LF.
  assert (S0 : stream s = w ++ c :: (r ++ rest)) by (rewrite S, Et; reflexivity).
  destruct (pv_enter cf w fuel s c _ W G S0 V ltac:(lens)) as (s1 & E1 & G1 & S1 & C1 & F1).
  rewrite (pv_num cf fuel L s s1 c E1 C1 NS).
  assert (S2 : stream s1 = write_int z ++ rest) by (rewrite S1, Et; reflexivity).
  destruct (parse_numeric_chars cf _ _ rest s1 FA N G1 S2 D) as (s' & E' & P' & F' & L').
  exists s'. splits; auto. congruence.
Qed.

(* ---- strings ---- *)
Lemma write_char_length : forall c, (1 <= length (write_char c))%nat.
Proof.
  intro c. unfold write_char. destruct (negb (escape_char c =? 0)); [cbn; lia|].
  destruct (negb (c =? 0)); cbn; lia.
Qed.

Lemma write_string_length : forall k, (length k + 2 <= length (write_string k))%nat.
Proof.
  intro k. unfold write_string. rewrite !app_length. cbn [length].
  assert (H : (length k <= length (flat_map write_char k))%nat).
  { induction k as [|c k IH]; cbn [flat_map length]; [lia|].
    rewrite app_length. pose proof (write_char_length c). lia. }
  lia.
Qed.

Lemma write_string_head : forall k, write_string k = 34 :: (flat_map write_char k ++ [34]).
Proof. reflexivity. Qed.

Lemma case_string : forall cf, decode_unicode cf = true ->
  forall d str, bytes_ok str -> PvH cf d (write_string str) (JStr str).
Proof.
  intros cf DU d str B.
  split; [|eexists _, _; split; [apply write_string_head|unfold vstart; tauto]].
  intros L fuel s w rest W DL G S D LF.
  pose proof (write_string_length str) as LK.
  assert (S0 : stream s = w ++ 34 :: ((flat_map write_char str ++ [34]) ++ rest))
    by (rewrite S; reflexivity).
  assert (V : vstart 34) by (unfold vstart; tauto).
  destruct (pv_enter cf w fuel s 34 _ W G S0 V ltac:(lens)) as (s1 & E1 & G1 & S1 & C1 & F1).
  rewrite (pv_str cf fuel L s s1 E1 C1).
  assert (S2 : stream s1 = write_string str ++ rest) by (rewrite S1; reflexivity).
  destruct (write_then_parse_string cf str rest fuel s1 DU (proj1 B) (proj2 B) G1 S2 ltac:(lens))
    as (s' & E' & G' & S' & C' & F').
  rewrite E'. exists s'. splits; auto.
  - left. auto.
  - congruence.
  - discriminate.
Qed.

Lemma parse_key_written : forall cf, decode_unicode cf = true ->
  forall k, bytes_ok k -> forall fuel s tail,
    good s -> stream s = write_string k ++ tail -> (length k < fuel)%nat ->
    exists s', parse_key cf fuel s = (Ok, k, s') /\
               good s' /\ stream s' = tail /\ cur s' = None /\ found s' = found s.
Proof.
  intros cf DU k B fuel s tail G S L.
  assert (S2 : stream s = 34 :: (flat_map write_char k ++ [34]) ++ tail) by (rewrite S; reflexivity).
  assert (Q : 34 <> 0) by lia.
  destruct (current_cons s 34 _ G S2 Q) as (s1 & E1 & G1 & S1 & C1 & F1 & _).
  unfold parse_key. rewrite E1. change (is_quote 34) with true. cbv iota.
  assert (S3 : stream s1 = write_string k ++ tail) by (rewrite S1; reflexivity).
  destruct (write_then_parse_string cf k tail fuel s1 DU (proj1 B) (proj2 B) G1 S3 L) as (s' & E' & G' & S' & C' & F').
  exists s'. splits; auto. congruence.
Qed.

(* ---- arrays ---- *)
Lemma case_arr_head : forall cf d te vs w1 c r,
  ws w1 -> te = w1 ++ c :: r -> vstart c ->
  Pe cf d te vs -> Pv cf (S d) ([91] ++ te ++ [93]) (JArr vs).
Proof.
  intros cf d te vs w1 c r W1 Ete Vc IH L fuel s w rest W DL G HS D LF.
  destruct L as [|L]; [lia|].
  destruct fuel as [|fuel0]; [lia|].
  rewrite <- !app_assoc in HS. cbn [app] in HS.
  assert (V : vstart 91) by (unfold vstart; tauto).
  destruct (pv_enter cf w (S fuel0) s 91 _ W G HS V ltac:(lens)) as (s1 & E1 & G1 & S1 & C1 & F1).
  rewrite (pv_arr cf (S fuel0) L s s1 E1 C1).
  destruct (move_cons s1 91 _ G1 C1 S1) as (G2 & S2 & C2 & F2).
  assert (S2' : stream (move s1) = w1 ++ c :: (r ++ 93 :: rest))
    by (rewrite S2, Ete, <- app_assoc; reflexivity).
  assert (LW : (length w1 < S fuel0)%nat) by (rewrite Ete in LF; lens).
  destruct (pv_enter cf w1 (S fuel0) (move s1) c _ W1 G2 S2' Vc LW) as (s3 & E3 & G3 & S3 & C3 & F3).
  rewrite E3. cbv beta iota.
  destruct (vstart_props c Vc) as (_ & _ & _ & N93 & _).
  rewrite (eat_no_some s3 c 93 C3 N93). cbv beta iota.
  rewrite (array_loop_skip cf (S fuel0) L _ fuel0 [] (move s1) s3 c E3 C3 F3 Vc).
  destruct (IH L (S fuel0) (S fuel0) (move s1) rest [] ltac:(lia) G2 S2 ltac:(lens) ltac:(lens))
    as (s' & E' & G' & S' & C' & F').
  rewrite E'. exists s'. cbn [app]. splits; auto.
  - left; auto.
  - discriminate.
Qed.

Lemma join_cons2 : forall sep (x y : bytes) t, join sep (x :: y :: t) = x ++ sep ++ join sep (y :: t).
Proof. reflexivity. Qed.

(* elements laid out as  w0 (wi x1) , w0 (wi x2) , ... (wi xn) wz *)
Lemma Pe_join : forall cf d (txt : jv -> bytes) w0 wi wz, ws w0 -> ws wi -> ws wz ->
  forall l, l <> [] -> Forall (fun v => Pv cf d (txt v) v) l ->
  Pe cf d (w0 ++ join ([44] ++ w0) (map (fun v => wi ++ txt v) l) ++ wz) l.
Proof.
  intros cf d txt w0 wi wz W0 Wi Wz l. induction l as [|v l IH]; intros NE FA; [congruence|].
  inversion FA as [|? ? Hv FA']; subst.
  destruct l as [|v' l].
  - cbn [map join].
    replace (w0 ++ (wi ++ txt v) ++ wz) with ((w0 ++ wi) ++ txt v ++ wz)
      by (rewrite <- !app_assoc; reflexivity).
    apply case_e_one; auto. apply ws_app; assumption.
  - cbn [map]. rewrite join_cons2.
    change ((wi ++ txt v') :: map (fun v => wi ++ txt v) l) with (map (fun v => wi ++ txt v) (v' :: l)).
    set (J := join ([44] ++ w0) (map (fun v => wi ++ txt v) (v' :: l))) in *.
    replace (w0 ++ ((wi ++ txt v) ++ ([44] ++ w0) ++ J) ++ wz)
      with ((w0 ++ wi) ++ txt v ++ [] ++ [44] ++ (w0 ++ J ++ wz))
      by (rewrite <- !app_assoc; reflexivity).
    apply case_e_cons; auto.
    + apply ws_app; assumption.
    + constructor.
    + apply IH; [discriminate|exact FA'].
Qed.

(* ---- objects ---- *)

(* one member (key written by write_string) followed by [,] or [}] *)
Lemma member_step_written : forall cf, decode_unicode cf = true ->
  forall d t v, Pv cf d t v ->
  forall w1 k w2 w3 w4 c tl L fuel fl acc s,
    ws w1 -> bytes_ok k -> ws w2 -> ws w3 -> ws w4 -> c = 44 \/ c = 125 -> (d <= L)%nat ->
    good s -> stream s = w1 ++ write_string k ++ w2 ++ 58 :: w3 ++ t ++ w4 ++ c :: tl ->
    (length (w1 ++ write_string k ++ w2 ++ 58%N :: w3 ++ t ++ w4 ++ c :: tl) < fuel)%nat ->
    (length (w1 ++ write_string k ++ w2 ++ 58%N :: w3 ++ t ++ w4 ++ c :: tl) < S fl)%nat ->
    exists s6, good s6 /\ stream s6 = c :: tl /\ cur s6 = Some c /\ found s6 = true /\
      obj_entry cf (parse_variant cf fuel L) (skip_variant cf fuel L) (S fl) None acc s =
      (let '(b, s) := eat 125 s6 in
       if b then (Ok, JObj (assoc_set k v acc), s)
       else
         let '(b, s) := eat 44 s in
         if negb b then (InvalidInput, JObj (assoc_set k v acc), s)
         else obj_entry cf (parse_variant cf fuel L) (skip_variant cf fuel L) fl None
                        (assoc_set k v acc) s).
Proof.
  intros cf DU d t v IH w1 k w2 w3 w4 c tl L fuel fl acc s W1 BK W2 W3 W4 HC DL G HS LF LL.
  assert (HC' : c = 44 \/ c = 93 \/ c = 125) by tauto.
  assert (CZ : c <> 0) by (destruct HC; lia).
  assert (CS : is_space c = false) by (destruct HC as [->| ->]; reflexivity).
  assert (C47 : c <> 47) by (destruct HC; lia).
  pose proof (write_string_length k) as LK.
  assert (S0 : stream s = w1 ++ 34 :: ((flat_map write_char k ++ [34]) ++ w2 ++ 58 :: w3 ++ t ++ w4 ++ c :: tl))
    by (rewrite HS; reflexivity).
  destruct (skip_ws cf w1 W1 (S fl) s 34 _ G S0 ltac:(lia) eq_refl ltac:(lia) ltac:(lens))
    as (s1 & E1 & G1 & S1 & C1 & F1 & _).
  assert (S1' : stream s1 = write_string k ++ w2 ++ 58 :: w3 ++ t ++ w4 ++ c :: tl)
    by (rewrite S1; reflexivity).
  destruct (parse_key_written cf DU k BK fl s1 _ G1 S1' ltac:(lens)) as (s2 & E2 & G2 & S2 & C2 & F2).
  destruct (skip_ws cf w2 W2 fl s2 58 _ G2 S2 ltac:(lia) eq_refl ltac:(lia) ltac:(lens))
    as (s3 & E3 & G3 & S3 & C3 & F3 & _).
  destruct (eat_yes s3 58 _ G3 S3 ltac:(lia)) as (s4 & E4 & G4 & S4 & C4 & F4).
  destruct (IH L fuel s4 w3 (w4 ++ c :: tl) W3 DL G4 S4 (delimiter_ws_then cf w4 c tl W4 HC') ltac:(lens))
    as (s5 & E5 & P5 & F5 & _).
  destruct (post_good s5 w4 c tl P5 W4 CZ) as (G5 & S5).
  destruct (skip_ws cf w4 W4 fl s5 c tl G5 S5 CZ CS C47 ltac:(lens)) as (s6 & E6 & G6 & S6 & C6 & F6 & _).
  exists s6. splits; auto.
  unfold obj_entry at 1. rewrite E1. cbn [object_loop]. rewrite E2. cbv beta iota.
  rewrite E3. cbv beta iota. rewrite E4. cbv beta iota zeta. cbn [negb f_member f_allow].
  rewrite E5. cbv beta iota. rewrite E6. reflexivity.
Qed.

Lemma case_m_one_written : forall cf, decode_unicode cf = true ->
  forall d w1 k w2 w3 t v w4,
    ws w1 -> bytes_ok k -> ws w2 -> ws w3 -> Pv cf d t v -> ws w4 ->
    Pm cf d (w1 ++ write_string k ++ w2 ++ [58] ++ w3 ++ t ++ w4) [(k, v)].
Proof.
  intros cf DU d w1 k w2 w3 t v w4 W1 BK W2 W3 IH W4 L fuel fl s rest acc DL G HS LF LL.
  rewrite <- !app_assoc in HS, LF, LL. cbn [app] in HS, LF, LL.
  destruct fl as [|fl]; [lia|].
  destruct (member_step_written cf DU d t v IH w1 k w2 w3 w4 125 rest L fuel fl acc s
              W1 BK W2 W3 W4 ltac:(tauto) DL G HS LF LL) as (s6 & G6 & S6 & C6 & F6 & E).
  rewrite E.
  destruct (eat_yes s6 125 rest G6 S6 ltac:(lia)) as (s7 & E7 & G7 & S7 & C7 & F7).
  rewrite E7. exists s7. unfold obj_den. cbn [fold_left fst snd]. splits; auto. congruence.
Qed.

Lemma case_m_cons_written : forall cf, decode_unicode cf = true ->
  forall d w1 k w2 w3 t v w4 r ms,
    ws w1 -> bytes_ok k -> ws w2 -> ws w3 -> Pv cf d t v -> ws w4 -> Pm cf d r ms ->
    Pm cf d (w1 ++ write_string k ++ w2 ++ [58] ++ w3 ++ t ++ w4 ++ [44] ++ r) ((k, v) :: ms).
Proof.
  intros cf DU d w1 k w2 w3 t v w4 r ms W1 BK W2 W3 IHv W4 IHr L fuel fl s rest acc DL G HS LF LL.
  rewrite <- !app_assoc in HS, LF, LL. cbn [app] in HS, LF, LL.
  destruct fl as [|fl]; [lia|].
  destruct (member_step_written cf DU d t v IHv w1 k w2 w3 w4 44 (r ++ 125 :: rest) L fuel fl acc s
              W1 BK W2 W3 W4 ltac:(tauto) DL G HS LF LL) as (s6 & G6 & S6 & C6 & F6 & E).
  rewrite E.
  rewrite (eat_no_some s6 44 125 C6 ltac:(lia)).
  destruct (eat_yes s6 44 _ G6 S6 ltac:(lia)) as (s7 & E7 & G7 & S7 & C7 & F7).
  rewrite E7. cbn [negb].
  destruct (IHr L fuel fl s7 rest (assoc_set k v acc) DL G7 S7 ltac:(lens) ltac:(lens))
    as (s' & E' & G' & S' & C' & F').
  exists s'. splits; auto.
Qed.

Lemma case_obj_head : forall cf d te ms w1 r,
  ws w1 -> te = w1 ++ 34 :: r -> Pm cf d te ms ->
  Pv cf (S d) ([123] ++ te ++ [125]) (JObj (obj_den ms [])).
Proof.
  intros cf d te ms w1 r W1 Ete IH L fuel s w rest W DL G HS D LF.
  destruct L as [|L]; [lia|].
  rewrite <- !app_assoc in HS. cbn [app] in HS.
  assert (V : vstart 123) by (unfold vstart; tauto).
  destruct (pv_enter cf w fuel s 123 _ W G HS V ltac:(lens)) as (s1 & E1 & G1 & S1 & C1 & F1).
  rewrite (pv_obj cf fuel L s s1 E1 C1).
  destruct (move_cons s1 123 _ G1 C1 S1) as (G2 & S2 & C2 & F2).
  assert (S2' : stream (move s1) = w1 ++ 34 :: (r ++ 125 :: rest))
    by (rewrite S2, Ete, <- app_assoc; reflexivity).
  assert (LW : (length w1 < fuel)%nat) by (rewrite Ete in LF; lens).
  destruct (skip_ws cf w1 W1 fuel (move s1) 34 _ G2 S2' ltac:(lia) eq_refl ltac:(lia) LW)
    as (s3 & E3 & G3 & S3 & C3 & F3 & _).
  rewrite E3. cbv beta iota.
  rewrite (eat_no_some s3 34 125 C3 ltac:(lia)). cbv beta iota.
  destruct (IH L fuel fuel (move s1) rest [] ltac:(lia) G2 S2 ltac:(lens) ltac:(lens))
    as (s' & E' & G' & S' & C' & F').
  unfold obj_entry in E'. rewrite E3 in E'.
  rewrite E'. exists s'. splits; auto.
  - left; auto.
  - discriminate.
Qed.

(* members laid out as  w0 (wi "k1" : w3 x1) , w0 (wi "k2" : w3 x2) , ... wz *)
Lemma Pm_join : forall cf, decode_unicode cf = true ->
  forall d (txt : jv -> bytes) w0 wi w3 wz, ws w0 -> ws wi -> ws w3 -> ws wz ->
  forall l, l <> [] ->
    Forall (fun kv => bytes_ok (fst kv) /\ Pv cf d (txt (snd kv)) (snd kv)) l ->
    Pm cf d (w0 ++ join ([44] ++ w0)
                     (map (fun kv => wi ++ write_string (fst kv) ++ [58] ++ w3 ++ txt (snd kv)) l) ++ wz) l.
Proof.
  intros cf DU d txt w0 wi w3 wz W0 Wi W3 Wz l. induction l as [|kv l IH]; intros NE FA; [congruence|].
  inversion FA as [|? ? [Bk Hv] FA']; subst.
  destruct kv as [k v]. cbn [fst snd] in Bk, Hv.
  destruct l as [|kv' l].
  - cbn [map join fst snd].
    replace (w0 ++ (wi ++ write_string k ++ [58] ++ w3 ++ txt v) ++ wz)
      with ((w0 ++ wi) ++ write_string k ++ [] ++ [58] ++ w3 ++ txt v ++ wz)
      by (rewrite <- !app_assoc; reflexivity).
    apply case_m_one_written; auto; try constructor. apply ws_app; assumption.
  - cbn [map]. rewrite join_cons2. cbn [fst snd].
    change ((wi ++ write_string (fst kv') ++ [58] ++ w3 ++ txt (snd kv')) ::
            map (fun kv => wi ++ write_string (fst kv) ++ [58] ++ w3 ++ txt (snd kv)) l)
      with (map (fun kv => wi ++ write_string (fst kv) ++ [58] ++ w3 ++ txt (snd kv)) (kv' :: l)).
    set (J := join ([44] ++ w0)
                (map (fun kv => wi ++ write_string (fst kv) ++ [58] ++ w3 ++ txt (snd kv)) (kv' :: l))) in *.
    replace (w0 ++ ((wi ++ write_string k ++ [58] ++ w3 ++ txt v) ++ ([44] ++ w0) ++ J) ++ wz)
      with ((w0 ++ wi) ++ write_string k ++ [] ++ [58] ++ w3 ++ txt v ++ [] ++ [44] ++ (w0 ++ J ++ wz))
      by (rewrite <- !app_assoc; reflexivity).
    apply case_m_cons_written; auto; try constructor.
    + apply ws_app; assumption.
    + apply IH; [discriminate|exact FA'].
Qed.

(* with pairwise distinct keys every member is appended *)
Lemma assoc_set_fresh : forall k v acc, ~ In k (map fst acc) -> assoc_set k v acc = acc ++ [(k, v)].
Proof.
  intros k v acc. induction acc as [|[k' v'] acc IH]; intro H; cbn [assoc_set app]; [reflexivity|].
  cbn [map fst In] in H.
  destruct (bytes_eqb k k') eqn:E.
  - apply bytes_eqb_eq in E. subst. tauto.
  - rewrite IH by tauto. reflexivity.
Qed.

Lemma obj_den_nodup : forall l acc, NoDup (map fst acc ++ map fst l) -> obj_den l acc = acc ++ l.
Proof.
  induction l as [|[k v] l IH]; intros acc H; cbn [obj_den fold_left fst snd].
  - rewrite app_nil_r. reflexivity.
  - cbn [map fst] in H. pose proof (NoDup_remove_2 _ _ _ H) as NI.
    rewrite assoc_set_fresh by (intro X; apply NI; apply in_or_app; left; exact X).
    fold (obj_den l (acc ++ [(k, v)])). rewrite IH.
    + rewrite <- app_assoc. reflexivity.
    + rewrite map_app. cbn [map fst]. rewrite <- app_assoc. exact H.
Qed.

(* ---- heads ---- *)
Lemma vstart_consts : vstart 110 /\ vstart 116 /\ vstart 102 /\ vstart 34 /\ vstart 91 /\ vstart 123.
Proof. unfold vstart. tauto. Qed.

(* ---- the compact serializer ---- *)
Lemma ser_scalar_cases : forall cf, decode_unicode cf = true -> forall d v,
  match v with JArr _ | JObj _ => False | _ => True end -> nofloat v -> PvH cf d (ser cf v) v.
Proof.
  intros cf DU d v SC NF. destruct v as [|b|z|f|f|s|r|l|l]; cbn [nofloat] in NF; try contradiction.
  - split; [apply case_null|]. eexists _, _. split; [reflexivity|unfold vstart; tauto].
  - destruct b; (split; [first [apply case_true|apply case_false]|]);
      eexists _, _; (split; [reflexivity|unfold vstart; tauto]).
  - apply case_int. exact NF.
  - apply case_string; assumption.
Qed.

Lemma arr_text_head : forall (txt : jv -> bytes) w0 wi wz sep l,
  l <> [] -> Forall (fun v => exists c r, txt v = c :: r /\ vstart c) l ->
  exists c r, w0 ++ join sep (map (fun v => wi ++ txt v) l) ++ wz = (w0 ++ wi) ++ c :: r /\ vstart c.
Proof.
  intros txt w0 wi wz sep l NE FA. destruct l as [|v l]; [congruence|].
  inversion FA as [|? ? (c & r & E & V) _]; subst.
  exists c. destruct l as [|v' l].
  - cbn [map join]. rewrite E. exists (r ++ wz). split; [|exact V].
    rewrite <- !app_assoc. reflexivity.
  - cbn [map]. rewrite join_cons2, E. eexists. split; [|exact V].
    rewrite <- !app_assoc. cbn [app]. reflexivity.
Qed.

Lemma obj_text_head : forall (f : bytes * jv -> bytes) w0 wi wz sep l,
  l <> [] ->
  exists r, w0 ++ join sep (map (fun kv => wi ++ write_string (fst kv) ++ f kv) l) ++ wz
            = (w0 ++ wi) ++ 34 :: r.
Proof.
  intros f w0 wi wz sep l NE. destruct l as [|kv l]; [congruence|].
  destruct l as [|kv' l].
  - cbn [map join]. rewrite write_string_head. eexists.
    rewrite <- !app_assoc. cbn [app]. reflexivity.
  - cbn [map]. rewrite join_cons2, write_string_head. eexists.
    rewrite <- !app_assoc. cbn [app]. reflexivity.
Qed.

Lemma PvH_arr : forall cf d (txt : jv -> bytes) w0 wi wz, ws w0 -> ws wi -> ws wz ->
  forall l, l <> [] -> Forall (fun v => PvH cf d (txt v) v) l ->
  PvH cf (S d) ([91] ++ (w0 ++ join ([44] ++ w0) (map (fun v => wi ++ txt v) l) ++ wz) ++ [93]) (JArr l).
Proof.
  intros cf d txt w0 wi wz W0 Wi Wz l NE FA.
  split; [|eexists _, _; split; [reflexivity|unfold vstart; tauto]].
  assert (FA1 : Forall (fun v => Pv cf d (txt v) v) l).
  { revert FA. apply Forall_impl. intros v [H _]. exact H. }
  assert (FA2 : Forall (fun v => exists c r, txt v = c :: r /\ vstart c) l).
  { revert FA. apply Forall_impl. intros v [_ H]. exact H. }
  destruct (arr_text_head txt w0 wi wz ([44] ++ w0) l NE FA2) as (c & r & E & V).
  apply (case_arr_head cf d _ l (w0 ++ wi) c r); auto.
  - apply ws_app; assumption.
  - apply Pe_join; assumption.
Qed.

Lemma PvH_obj : forall cf, decode_unicode cf = true ->
  forall d (txt : jv -> bytes) w0 wi w3 wz, ws w0 -> ws wi -> ws w3 -> ws wz ->
  forall l, l <> [] -> NoDup (map fst l) ->
    Forall (fun kv => bytes_ok (fst kv) /\ PvH cf d (txt (snd kv)) (snd kv)) l ->
    PvH cf (S d)
      ([123] ++ (w0 ++ join ([44] ++ w0)
                        (map (fun kv => wi ++ write_string (fst kv) ++ [58] ++ w3 ++ txt (snd kv)) l) ++ wz)
             ++ [125]) (JObj l).
Proof.
  intros cf DU d txt w0 wi w3 wz W0 Wi W3 Wz l NE ND FA.
  split; [|eexists _, _; split; [reflexivity|unfold vstart; tauto]].
  assert (FA1 : Forall (fun kv => bytes_ok (fst kv) /\ Pv cf d (txt (snd kv)) (snd kv)) l).
  { revert FA. apply Forall_impl. intros kv [B [H _]]. auto. }
  destruct (obj_text_head (fun kv => [58] ++ w3 ++ txt (snd kv)) w0 wi wz ([44] ++ w0) l NE) as (r & E).
  replace (JObj l) with (JObj (obj_den l [])) by (rewrite obj_den_nodup; [reflexivity|exact ND]).
  apply (case_obj_head cf d _ l (w0 ++ wi) r); auto.
  - apply ws_app; assumption.
  - apply Pm_join; assumption.
Qed.

Lemma Forall_and2 : forall (A : Type) (P Q R : A -> Prop) l,
  (forall x, P x -> Q x -> R x) -> Forall P l -> Forall Q l -> Forall R l.
Proof.
  intros A P Q R l H FP FQ. rewrite Forall_forall in *. intros x Hx. apply H; auto.
Qed.

Lemma ser_PvH : forall cf, decode_unicode cf = true ->
  forall d v, (nesting v <= d)%nat -> nofloat v -> PvH cf d (ser cf v) v.
Proof.
  intros cf DU. induction d as [|d IH]; intros v HN NF.
  - destruct v; try (apply ser_scalar_cases; auto; exact I); cbn [nesting] in HN; lia.
  - destruct v as [|b|z|f|f|s|r|l|l]; try (apply ser_scalar_cases; auto; exact I).
    + (* array *)
      destruct l as [|x l'].
      * split; [exact (case_arr_empty cf d [] ws_nil)|].
        eexists _, _. split; [reflexivity|unfold vstart; tauto].
      * apply nofloat_arr in NF. pose proof (nesting_arr_inv _ _ HN) as HL.
        assert (FA : Forall (fun v => PvH cf d (ser cf v) v) (x :: l')).
        { apply (Forall_and2 _ _ _ _ _ (fun v A B => IH v A B) HL NF). }
        pose proof (PvH_arr cf d (ser cf) [] [] [] ws_nil ws_nil ws_nil (x :: l') ltac:(discriminate) FA) as H.
        assert (E : [91] ++ ([] ++ join ([44] ++ []) (map (fun v => [] ++ ser cf v) (x :: l')) ++ []) ++ [93]
                    = ser cf (JArr (x :: l'))) by (rewrite app_nil_r; reflexivity).
        rewrite E in H. exact H.
    + (* object *)
      destruct l as [|x l'].
      * split; [exact (case_obj_empty cf d [] ws_nil)|].
        eexists _, _. split; [reflexivity|unfold vstart; tauto].
      * apply nofloat_obj in NF. destruct NF as [ND NF].
        pose proof (nesting_obj_inv _ _ HN) as HL.
        assert (FA : Forall (fun kv => bytes_ok (fst kv) /\ PvH cf d (ser cf (snd kv)) (snd kv)) (x :: l')).
        { apply (Forall_and2 _ _ _ _ _ (fun kv A B => conj (proj1 B) (IH (snd kv) A (proj2 B))) HL NF). }
        pose proof (PvH_obj cf DU d (ser cf) [] [] [] [] ws_nil ws_nil ws_nil ws_nil (x :: l')
                      ltac:(discriminate) ND FA) as H.
        assert (E : [123] ++ ([] ++ join ([44] ++ [])
                     (map (fun kv => [] ++ write_string (fst kv) ++ [58] ++ [] ++ ser cf (snd kv)) (x :: l')) ++ [])
                     ++ [125]
                    = ser cf (JObj (x :: l'))) by (rewrite app_nil_r; reflexivity).
        rewrite E in H. exact H.
Qed.

Theorem ser_parse_roundtrip : forall cf, decode_unicode cf = true ->
  forall v, nofloat v -> forall L fuel s rest,
    (nesting v <= L)%nat -> good s -> stream s = ser cf v ++ rest -> delimiter cf rest ->
    (length (ser cf v ++ rest) < fuel)%nat ->
    exists s', parse_variant cf fuel L None s = (Ok, v, s') /\ post s' rest.
Proof.
  intros cf DU v NF L fuel s rest HN G S D LF.
  destruct (ser_PvH cf DU (nesting v) v (le_n _) NF) as [H _].
  destruct (H L fuel s [] rest ws_nil HN G S D LF) as (s' & E & P & _).
  exists s'. auto.
Qed.

Lemma json_run_of_Pv : forall cf d t v, Pv cf d t v -> forall L, (d <= L)%nat ->
  j_err (json_run cf None L t) = Ok /\ j_doc (json_run cf None L t) = v.
Proof.
  intros cf d t v H L DL.
  assert (HS : stream (ps_init t) = [] ++ t ++ []) by (rewrite stream_init, app_nil_r; reflexivity).
  assert (LF : (length ([] ++ t ++ []) < json_fuel t)%nat)
    by (rewrite app_nil_r; unfold json_fuel; cbn [app]; lia).
  destruct (H L (json_fuel t) (ps_init t) [] [] ws_nil DL (good_init t) HS I LF) as (s' & E & P & F & LC).
  unfold json_run. rewrite E. cbn [j_err j_doc]. split; [|reflexivity].
  destruct (is_number v) eqn:NV; [|rewrite andb_false_r; reflexivity].
  rewrite (LC eq_refl). reflexivity.
Qed.

Corollary json_run_ser : forall cf, decode_unicode cf = true ->
  forall v, nofloat v -> forall L, (nesting v <= L)%nat ->
  j_err (json_run cf None L (ser cf v)) = Ok /\ j_doc (json_run cf None L (ser cf v)) = v.
Proof.
  intros cf DU v NF L HN.
  destruct (ser_PvH cf DU (nesting v) v (le_n _) NF) as [H _].
  exact (json_run_of_Pv cf _ _ _ H L HN).
Qed.

(* ===================================================================================== *)
(* Part 3 — the pretty printer differs only by insignificant whitespace                  *)

Lemma ser_pretty_scalar : forall cf nest v,
  match v with JArr _ | JObj _ => False | _ => True end -> ser_pretty cf nest v = ser cf v.
Proof. intros cf nest v H. destruct v; try reflexivity; contradiction. Qed.

Lemma ser_pretty_PvH : forall cf, decode_unicode cf = true ->
  forall d v nest, (nesting v <= d)%nat -> nofloat v -> PvH cf d (ser_pretty cf nest v) v.
Proof.
  intros cf DU. induction d as [|d IH]; intros v nest HN NF.
  - destruct v; try (rewrite ser_pretty_scalar by exact I; apply ser_scalar_cases; auto; exact I);
      cbn [nesting] in HN; lia.
  - destruct v as [|b|z|f|f|s|r|l|l];
      try (rewrite ser_pretty_scalar by exact I; apply ser_scalar_cases; auto; exact I).
    + (* array *)
      destruct l as [|x l'].
      * split; [exact (case_arr_empty cf d [] ws_nil)|].
        eexists _, _. split; [reflexivity|unfold vstart; tauto].
      * apply nofloat_arr in NF. pose proof (nesting_arr_inv _ _ HN) as HL.
        assert (FA : Forall (fun v => PvH cf d (ser_pretty cf (nest + 1) v) v) (x :: l')).
        { apply (Forall_and2 _ _ _ _ _ (fun v A B => IH v (nest + 1)%Z A B) HL NF). }
        pose proof (PvH_arr cf d (ser_pretty cf (nest + 1)) crlf (indent (nest + 1)) (crlf ++ indent nest)
                      ws_crlf (ws_indent _) (ws_app _ _ ws_crlf (ws_indent _))
                      (x :: l') ltac:(discriminate) FA) as H.
        assert (E : [91] ++ (crlf ++ join ([44] ++ crlf)
                       (map (fun v => indent (nest + 1) ++ ser_pretty cf (nest + 1) v) (x :: l'))
                       ++ crlf ++ indent nest) ++ [93]
                    = ser_pretty cf nest (JArr (x :: l'))).
        { change (ser_pretty cf nest (JArr (x :: l'))) with
            ([91] ++ crlf ++ join ([44] ++ crlf)
               (map (fun v => indent (nest + 1) ++ ser_pretty cf (nest + 1) v) (x :: l'))
               ++ crlf ++ indent nest ++ [93]).
          rewrite <- !app_assoc. reflexivity. }
        rewrite E in H. exact H.
    + (* object *)
      destruct l as [|x l'].
      * split; [exact (case_obj_empty cf d [] ws_nil)|].
        eexists _, _. split; [reflexivity|unfold vstart; tauto].
      * apply nofloat_obj in NF. destruct NF as [ND NF].
        pose proof (nesting_obj_inv _ _ HN) as HL.
        assert (FA : Forall (fun kv => bytes_ok (fst kv) /\
                               PvH cf d (ser_pretty cf (nest + 1) (snd kv)) (snd kv)) (x :: l')).
        { apply (Forall_and2 _ _ _ _ _
                   (fun kv A B => conj (proj1 B) (IH (snd kv) (nest + 1)%Z A (proj2 B))) HL NF). }
        pose proof (PvH_obj cf DU d (ser_pretty cf (nest + 1)) crlf (indent (nest + 1)) [32] (crlf ++ indent nest)
                      ws_crlf (ws_indent _) ltac:(repeat constructor) (ws_app _ _ ws_crlf (ws_indent _))
                      (x :: l') ltac:(discriminate) ND FA) as H.
        assert (E : [123] ++ (crlf ++ join ([44] ++ crlf)
                       (map (fun kv => indent (nest + 1) ++ write_string (fst kv) ++ [58] ++ [32] ++
                                       ser_pretty cf (nest + 1) (snd kv)) (x :: l'))
                       ++ crlf ++ indent nest) ++ [125]
                    = ser_pretty cf nest (JObj (x :: l'))).
        { change (ser_pretty cf nest (JObj (x :: l'))) with
            ([123] ++ crlf ++ join ([44] ++ crlf)
               (map (fun kv => indent (nest + 1) ++ write_string (fst kv) ++ [58; 32] ++
                               ser_pretty cf (nest + 1) (snd kv)) (x :: l'))
               ++ crlf ++ indent nest ++ [125]).
          rewrite <- !app_assoc. reflexivity. }
        rewrite E in H. exact H.
Qed.

(* general form: any starting indentation level, no bound on the depth (the indentation bytes
   are whitespace whatever the uint8_t counter wraps to) *)
Theorem pretty_parse_roundtrip_gen : forall cf, decode_unicode cf = true ->
  forall v nest, nofloat v -> forall L fuel s rest,
    (nesting v <= L)%nat -> good s -> stream s = ser_pretty cf nest v ++ rest -> delimiter cf rest ->
    (length (ser_pretty cf nest v ++ rest) < fuel)%nat ->
    exists s', parse_variant cf fuel L None s = (Ok, v, s') /\ post s' rest.
Proof.
  intros cf DU v nest NF L fuel s rest HN G S D LF.
  destruct (ser_pretty_PvH cf DU (nesting v) v nest (le_n _) NF) as [H _].
  destruct (H L fuel s [] rest ws_nil HN G S D LF) as (s' & E & P & _).
  exists s'. auto.
Qed.

Theorem pretty_parse_roundtrip : forall cf, decode_unicode cf = true ->
  forall v, nofloat v -> (nesting v < 256)%nat -> forall L fuel s rest,
    (nesting v <= L)%nat -> good s -> stream s = ser_pretty cf 0 v ++ rest -> delimiter cf rest ->
    (length (ser_pretty cf 0 v ++ rest) < fuel)%nat ->
    exists s', parse_variant cf fuel L None s = (Ok, v, s') /\ post s' rest.
Proof.
  intros cf DU v NF _. apply pretty_parse_roundtrip_gen; assumption.
Qed.

Corollary json_run_ser_pretty : forall cf, decode_unicode cf = true ->
  forall v nest, nofloat v -> forall L, (nesting v <= L)%nat ->
  j_err (json_run cf None L (ser_pretty cf nest v)) = Ok /\
  j_doc (json_run cf None L (ser_pretty cf nest v)) = v.
Proof.
  intros cf DU v nest NF L HN.
  destruct (ser_pretty_PvH cf DU (nesting v) v nest (le_n _) NF) as [H _].
  exact (json_run_of_Pv cf _ _ _ H L HN).
Qed.

(* the hypotheses are satisfiable: a sample document goes through both theorems *)
Definition sample_doc : jv :=
  JObj [([97], JArr [JInt (-5); JStr [0; 10; 200; 34]; JNull; JArr []; JObj []]);
        ([98], JBool true); ([], JInt 18446744073709551615)].

Lemma sample_nofloat : nofloat sample_doc.
Proof.
  apply nofloat_obj. split.
  - repeat constructor; cbn [In]; intuition discriminate.
  - repeat constructor; cbn; lia.
Qed.

Example sample_roundtrip :
  j_doc (json_run default_cfg None 3 (ser default_cfg sample_doc)) = sample_doc /\
  j_doc (json_run default_cfg None 3 (ser_pretty default_cfg 0 sample_doc)) = sample_doc.
Proof.
  split.
  - exact (proj2 (json_run_ser default_cfg eq_refl sample_doc sample_nofloat 3%nat (le_n _))).
  - exact (proj2 (json_run_ser_pretty default_cfg eq_refl sample_doc 0%Z sample_nofloat 3%nat (le_n _))).
Qed.
