(* DialectSound.v — SOUNDNESS of the JSON reader model with respect to the dialect of
   Spec/Dialect.v: whatever json_run accepts starts with a text of the dialect and the document
   is the value the dialect assigns to that text (the converse of Proofs/ParseComplete.v).
   Inversion lemmas for every routine, on the [stream] view of Proofs/Lex.v. *)
From Coq Require Import NArith ZArith List Bool Lia.
From Coq Require Import Floats.SpecFloat.
From AJ Require Import Model.Base Model.FloatModel Model.Value Model.Utf Model.NumParse Model.JsonParse.
From AJ Require Import Proofs.NumProofs.
From AJ Require Import Spec.Utf8Spec Spec.Rfc8259 Spec.ParseSpec Spec.Dialect.
From AJ Require Import Proofs.Sweep Proofs.UtfProofs Proofs.Lex Proofs.StringRT Proofs.ParseDepth
                       Proofs.ParseComplete.
Local Open Scope N_scope.

Definition bytes256 (i : bytes) : Prop := Forall (fun b => b < 256) i.

Lemma bytes256_app_r : forall a b, bytes256 (a ++ b) -> bytes256 b.
Proof. intros a b H. apply Forall_app in H. tauto. Qed.
Lemma bytes256_app_l : forall a b, bytes256 (a ++ b) -> bytes256 a.
Proof. intros a b H. apply Forall_app in H. tauto. Qed.
Lemma bytes256_tl : forall a b, bytes256 (a :: b) -> bytes256 b.
Proof. intros a b H. inversion H; assumption. Qed.
Lemma bytes256_hd : forall a b, bytes256 (a :: b) -> a < 256.
Proof. intros a b H. inversion H; assumption. Qed.

(* ------------------------------------------------------------------------------------- *)
(* looking at the next byte: either the end marker gets latched, or a non-NUL byte *)

Lemma cur_cases : forall s i, good s -> stream s = i ->
  (exists s1, current s = (0, s1) /\ at_end s1 /\ (i = [] \/ exists r, i = 0 :: r) /\
              lastc s1 = 0 /\ found s1 = found s /\ cur s1 = Some 0) \/
  (exists b t s1, i = b :: t /\ b <> 0 /\ current s = (b, s1) /\ good s1 /\ stream s1 = b :: t /\
              cur s1 = Some b /\ found s1 = found s /\ lastc s1 = b).
Proof.
  intros s i G S.
  destruct (peek s i G S) as (s1 & E & F & P & L & C).
  destruct i as [|b t].
  - left. exists s1. cbn [hd] in *. destruct P as [[G1 S1]|[A _]].
    + unfold stream in S1. rewrite C in S1. discriminate.
    + splits; auto.
  - cbn [hd] in *. destruct (N.eq_dec b 0) as [->|NZ].
    + left. exists s1. destruct P as [[G1 S1]|[A _]].
      * destruct G1 as (_ & _ & G1). destruct (G1 0 C) as [X _]. congruence.
      * splits; auto. right. exists t. reflexivity.
    + right. exists b, t, s1. destruct P as [[G1 S1]|[A [X|[r X]]]].
      * splits; auto.
      * discriminate.
      * congruence.
Qed.

Lemma current_at_end : forall s, at_end s -> current s = (0, s).
Proof. intros s (_ & C & _). apply current_some. exact C. Qed.

Lemma post_good_intro : forall s r, good s -> stream s = r -> post s r.
Proof. intros. left. split; assumption. Qed.

(* ------------------------------------------------------------------------------------- *)
(* insignificant bytes *)

Lemma dws_app : forall cf a b, dws cf a -> dws cf b -> dws cf (a ++ b).
Proof.
  intros cf a b A B. induction A as [|c w Hc A IH|bb w EC NZ NC A IH|bb w EC NZ A IH].
  - exact B.
  - cbn [app]. apply dws_space; assumption.
  - replace (([47; 42] ++ bb ++ [42; 47] ++ w) ++ b) with ([47; 42] ++ bb ++ [42; 47] ++ (w ++ b))
      by (rewrite <- !app_assoc; reflexivity).
    apply dws_block; assumption.
  - replace (([47; 47] ++ bb ++ [10] ++ w) ++ b) with ([47; 47] ++ bb ++ [10] ++ (w ++ b))
      by (rewrite <- !app_assoc; reflexivity).
    apply dws_line; assumption.
Qed.

(* the body of a block comment, from a state that has (ws = true) or has not just seen a star *)
Lemma block_comment_inv : forall fuel ws s i s',
  good s -> stream s = i -> block_comment fuel ws s = (Ok, s') ->
  exists b r, i = b ++ 47 :: r /\ Forall (fun c => c <> 0) b /\ no_close b /\
    (ws = true -> forall x, b <> 47 :: x) /\
    (exists b0, (if ws then [42] else []) ++ b = b0 ++ [42]) /\
    good s' /\ stream s' = r /\ cur s' = None /\ found s' = found s.
Proof.
  induction fuel as [|fuel IH]; intros ws s i s' G S H; [discriminate H|].
  cbn [block_comment] in H.
  destruct (cur_cases s i G S) as [(s1 & E & _)|(c & t & s1 & -> & NZ & E & G1 & S1 & C1 & F1 & _)];
    rewrite E in H.
  { change (0 =? 0) with true in H. discriminate H. }
  rewrite (eqb_false _ _ NZ) in H.
  destruct (move_cons s1 c t G1 C1 S1) as (G2 & S2 & C2 & F2).
  destruct ((c =? 47) && ws) eqn:T.
  - apply andb_prop in T as [T1 T2]. apply N.eqb_eq in T1. subst c ws.
    injection H as <-. exists [], t.
    split; [reflexivity|]. split; [constructor|].
    split; [intros p q X; destruct p; discriminate X|].
    split; [intros _ x X; discriminate X|]. split; [exists []; reflexivity|].
    splits; auto; congruence.
  - destruct (IH (c =? 42) (move s1) t s' G2 S2 H) as (b & r & -> & NZb & NC & HD & (b0 & EB) & G' & S' & C' & F').
    exists (c :: b), r.
    split; [reflexivity|]. split; [constructor; assumption|].
    split.
    { intros p q X. destruct p as [|x p]; cbn [app] in X.
      - injection X as X1 X2. subst c. apply (HD eq_refl q). exact X2.
      - injection X as _ X2. exact (NC p q X2). }
    split.
    { intros W x X. injection X as X1 _. subst c ws. discriminate T. }
    split.
    { destruct (c =? 42) eqn:C42.
      - apply N.eqb_eq in C42. subst c. cbn [app] in EB.
        exists ((if ws then [42] else []) ++ b0). rewrite <- app_assoc, <- EB. reflexivity.
      - cbn [app] in EB. subst b.
        exists ((if ws then [42] else []) ++ c :: b0). rewrite <- app_assoc. reflexivity. }
    splits; auto; congruence.
Qed.

(* a line comment, entered with its second slash latched; the LF stays latched *)
Lemma line_comment_inv : forall fuel s c0 i s',
  good s -> cur s = Some c0 -> stream s = c0 :: i -> line_comment fuel s = (Ok, s') ->
  exists b r, i = b ++ 10 :: r /\ Forall (fun c => c <> 0 /\ c <> 10) b /\
    good s' /\ stream s' = 10 :: r /\ cur s' = Some 10 /\ found s' = found s /\ lastc s' = 10.
Proof.
  induction fuel as [|fuel IH]; intros s c0 i s' G C S H; [discriminate H|].
  cbn [line_comment] in H.
  destruct (move_cons s c0 i G C S) as (G2 & S2 & C2 & F2).
  destruct (cur_cases (move s) i G2 S2) as [(s1 & E & _)|(c & t & s1 & -> & NZ & E & G1 & S1 & C1 & F1 & L1)];
    rewrite E in H.
  { change (0 =? 0) with true in H. discriminate H. }
  rewrite (eqb_false _ _ NZ) in H.
  destruct (c =? 10) eqn:T.
  - apply N.eqb_eq in T. subst c. injection H as <-. exists [], t. splits; auto; congruence.
  - apply N.eqb_neq in T.
    destruct (IH s1 c t s' G1 C1 S1 H) as (b & r & -> & FA & G' & S' & C' & F' & L').
    exists (c :: b), r. splits; auto; congruence.
Qed.

Lemma skip_spaces_inv : forall cf fuel s i s',
  good s -> stream s = i -> skip_spaces cf fuel s = (Ok, s') ->
  exists w c r, i = w ++ c :: r /\ dws cf w /\ good s' /\ stream s' = c :: r /\ cur s' = Some c /\
    c <> 0 /\ is_space c = false /\ (enable_comments cf = true -> c <> 47) /\
    found s' = true /\ lastc s' = c.
Proof.
  intros cf. induction fuel as [|fuel IH]; intros s i s' G S H; [discriminate H|].
  cbn [skip_spaces] in H.
  destruct (cur_cases s i G S) as [(s1 & E & _)|(c & t & s1 & -> & NZ & E & G1 & S1 & C1 & F1 & L1)];
    rewrite E in H.
  { change (0 =? 0) with true in H. destruct (found s1); discriminate H. }
  rewrite (eqb_false _ _ NZ) in H.
  change ((c =? 32) || (c =? 9) || (c =? 13) || (c =? 10)) with (is_space c) in H.
  destruct (move_cons s1 c t G1 C1 S1) as (G2 & S2 & C2 & F2).
  destruct (is_space c) eqn:SP.
  - destruct (IH (move s1) t s' G2 S2 H) as (w & c' & r & -> & W & R).
    exists (c :: w), c', r. split; [reflexivity|]. split; [apply dws_space; assumption|exact R].
  - destruct (enable_comments cf && (c =? 47)) eqn:CM.
    + apply andb_prop in CM as [EC C47]. apply N.eqb_eq in C47. subst c.
      destruct (cur_cases (move s1) t G2 S2)
        as [(s3 & E3 & _)|(c2 & t2 & s3 & -> & NZ2 & E3 & G3 & S3 & C3 & F3 & L3)]; rewrite E3 in H.
      { change (0 =? 42) with false in H. change (0 =? 47) with false in H. discriminate H. }
      destruct (move_cons s3 c2 t2 G3 C3 S3) as (G4 & S4 & C4 & F4).
      destruct (c2 =? 42) eqn:K42.
      * apply N.eqb_eq in K42. subst c2.
        destruct (block_comment fuel false (move s3)) as [e s5] eqn:EB.
        destruct e; try (injection H as H1 _; discriminate H1).
        destruct (block_comment_inv fuel false (move s3) t2 s5 G4 S4 EB)
          as (b & r & -> & NZb & NC & _ & (b0 & EB0) & G5 & S5 & C5 & F5).
        cbn [app] in EB0. subst b.
        destruct (IH s5 r s' G5 S5 H) as (w & c' & r' & -> & W & R).
        exists ([47; 42] ++ b0 ++ [42; 47] ++ w), c', r'.
        split; [cbn [app]; rewrite <- !app_assoc; reflexivity|].
        split; [|exact R]. apply dws_block; auto.
        -- apply Forall_app in NZb. tauto.
        -- intros p q X. apply (NC p (q ++ [42])). rewrite X, <- app_assoc. reflexivity.
      * destruct (c2 =? 47) eqn:K47; [|discriminate H].
        apply N.eqb_eq in K47. subst c2.
        destruct (line_comment fuel s3) as [e s5] eqn:EL.
        destruct e; try (injection H as H1 _; discriminate H1).
        destruct (line_comment_inv fuel s3 47 t2 s5 G3 C3 S3 EL)
          as (b & r & -> & FA & G5 & S5 & C5 & F5 & L5).
        destruct (IH s5 (10 :: r) s' G5 S5 H) as (w & c' & r' & EW & W & R).
        inversion W as [|x w0 Hx W0 EQ| |]; subst.
        -- (* the LF cannot be the byte skip_spaces stops on *)
           cbn [app] in EW. injection EW as <- <-.
           destruct R as (_ & _ & _ & _ & X & _). discriminate X.
        -- cbn [app] in EW. injection EW as <- ->.
           exists ([47; 47] ++ b ++ [10] ++ w0), c', r'.
           split; [cbn [app]; rewrite <- !app_assoc; reflexivity|].
           split; [|exact R]. apply dws_line; auto.
        -- cbn [app] in EW. discriminate EW.
        -- cbn [app] in EW. discriminate EW.
    + injection H as <-. exists [], c, t.
      split; [reflexivity|]. split; [constructor|].
      destruct G1 as (A1 & A2 & A3).
      splits; auto.
      * unfold good, set_found; cbn. auto.
      * intros EC ->. rewrite EC in CM. discriminate CM.
Qed.

(* at the end of input skip_spaces fails *)
Lemma skip_spaces_at_end : forall cf fuel s s', at_end s -> skip_spaces cf fuel s <> (Ok, s').
Proof.
  intros cf fuel s s' A H. destruct fuel as [|fuel]; [discriminate H|].
  cbn [skip_spaces] in H. rewrite (current_at_end s A) in H.
  change (0 =? 0) with true in H. destruct (found s); discriminate H.
Qed.

Lemma post_skip : forall cf fuel s r s', post s r -> skip_spaces cf fuel s = (Ok, s') ->
  good s /\ stream s = r.
Proof.
  intros cf fuel s r s' [P|[A _]] H; [exact P|].
  exfalso. exact (skip_spaces_at_end cf fuel s s' A H).
Qed.

(* ------------------------------------------------------------------------------------- *)
(* strings *)

Lemma parse_hex4_step_inv : forall n acc s i u s',
  good s -> stream s = i -> bytes256 i -> acc < 4096 ->
  parse_hex4 (S n) acc s = (Ok, u, s') ->
  exists d v t s1, i = d :: t /\ hex_value d = Some v /\ v < 16 /\ good s1 /\ stream s1 = t /\
     cur s1 = None /\ found s1 = found s /\ parse_hex4 n (acc * 16 + v) s1 = (Ok, u, s').
Proof.
  intros n acc s i u s' G S B A H.
  destruct (cur_cases s i G S) as [(s1 & E & _)|(c & t & s1 & -> & NZ & E & G1 & S1 & C1 & F1 & _)].
  { cbn [parse_hex4] in H. rewrite E in H. change (0 =? 0) with true in H. discriminate H. }
  pose proof (bytes256_hd _ _ B) as D.
  destruct (hex_value c) as [v|] eqn:HV.
  - destruct (hex_step n acc s c v t G S D HV A) as (s2 & E2 & G2 & S2 & C2 & F2).
    destruct (decode_hex_digit c v D HV) as [_ V].
    exists c, v, t, s2. rewrite E2 in H. splits; auto.
  - cbn [parse_hex4] in H. rewrite E in H. rewrite (eqb_false _ _ NZ) in H.
    pose proof (decode_hex_nondigit c D HV) as X. apply N.ltb_lt in X. rewrite X in H. discriminate H.
Qed.

Lemma parse_hex4_inv : forall s i u s',
  good s -> stream s = i -> bytes256 i -> parse_hex4 4 0 s = (Ok, u, s') ->
  exists tu t, i = tu ++ t /\ uescape (92 :: 117 :: tu) u /\ u < 65536 /\
    good s' /\ stream s' = t /\ cur s' = None /\ found s' = found s.
Proof.
  intros s i u s' G S B H.
  destruct (parse_hex4_step_inv 3 0 s i u s' G S B ltac:(lia) H)
    as (d1 & v1 & t1 & s1 & -> & H1 & V1 & G1 & S1 & C1 & F1 & K1).
  apply bytes256_tl in B.
  destruct (parse_hex4_step_inv 2 (0 * 16 + v1) s1 t1 u s' G1 S1 B ltac:(lia) K1)
    as (d2 & v2 & t2 & s2 & -> & H2 & V2 & G2 & S2 & C2 & F2 & K2).
  apply bytes256_tl in B.
  destruct (parse_hex4_step_inv 1 ((0 * 16 + v1) * 16 + v2) s2 t2 u s' G2 S2 B ltac:(lia) K2)
    as (d3 & v3 & t3 & s3 & -> & H3 & V3 & G3 & S3 & C3 & F3 & K3).
  apply bytes256_tl in B.
  destruct (parse_hex4_step_inv 0 (((0 * 16 + v1) * 16 + v2) * 16 + v3) s3 t3 u s' G3 S3 B ltac:(lia) K3)
    as (d4 & v4 & t4 & s4 & -> & H4 & V4 & G4 & S4 & C4 & F4 & K4).
  cbn [parse_hex4] in K4. injection K4 as <- <-.
  exists [d1; d2; d3; d4], t4. split; [reflexivity|].
  replace ((((0 * 16 + v1) * 16 + v2) * 16 + v3) * 16 + v4) with (((v1 * 16 + v2) * 16 + v3) * 16 + v4) by lia.
  split; [apply uesc; assumption|]. split; [lia|]. splits; auto; congruence.
Qed.

Lemma unescape_in : forall e, unescape_char e <> 0 -> In (e, unescape_char e) dialect_escapes.
Proof.
  intro e. unfold unescape_char, escape_table_full, dialect_escapes. cbn [unescape_char_in].
  repeat match goal with
  | |- context [if ?a =? e then _ else _] =>
      destruct (N.eqb_spec a e) as [<-|];
      [intros _; cbn [In]; repeat (first [left; reflexivity | right])|]
  end.
  intro X. congruence.
Qed.

Lemma quoted_plain_step : forall cf f q cp acc s c,
  cur s = Some c -> c <> q -> c <> 0 -> c <> 92 ->
  quoted_loop cf (S f) q cp acc s = quoted_loop cf f q cp (acc ++ [c]) (move s).
Proof.
  intros cf f q cp acc s c C A B D. cbn [quoted_loop].
  rewrite (current_some _ _ C), (eqb_false _ _ A), (eqb_false _ _ B), (eqb_false _ _ D). reflexivity.
Qed.

Lemma high_range : forall u, is_high_surrogate u = true -> 0xD800 <= u < 0xDC00.
Proof.
  intros u H. unfold is_high_surrogate in H. apply andb_prop in H as [A B].
  apply N.leb_le in A. apply N.ltb_lt in B. lia.
Qed.
Lemma low_range : forall u, is_low_surrogate u = true -> 0xDC00 <= u < 0xE000.
Proof.
  intros u H. unfold is_low_surrogate in H. apply andb_prop in H as [A B].
  apply N.leb_le in A. apply N.ltb_lt in B. lia.
Qed.
Lemma not_surrogate : forall u, is_high_surrogate u = false -> is_low_surrogate u = false ->
  is_surrogate u = false.
Proof.
  intros u H L. unfold is_high_surrogate, is_low_surrogate, is_surrogate in *.
  destruct (0xD800 <=? u) eqn:A; destruct (u <? 0xDC00) eqn:B; destruct (0xDC00 <=? u) eqn:C;
    destruct (u <? 0xE000) eqn:D; cbn in *; try reflexivity; try discriminate.
  apply N.ltb_ge in B. apply N.leb_gt in C. lia.
Qed.

Lemma high_bits : forall h, 0xD800 <= h < 0xDC00 -> N.land h 0x3FF = h - 0xD800 /\ h - 0xD800 < 1024.
Proof.
  intros h Hh. assert (H16 : h < 2 ^ N.of_nat 16) by (simpl; lia).
  pose proof (all_below_pow2_spec 16 _ high_sweep h H16) as E. unfold high_check in E.
  rewrite (range_high h Hh) in E. apply andb_prop in E as [E1 E2].
  apply N.eqb_eq in E1. apply N.ltb_lt in E2. auto.
Qed.
Lemma low_bits : forall l, 0xDC00 <= l < 0xE000 -> N.land l 0x3FF = l - 0xDC00 /\ l - 0xDC00 < 1024.
Proof.
  intros l Hl. assert (H16 : l < 2 ^ N.of_nat 16) by (simpl; lia).
  pose proof (all_below_pow2_spec 16 _ low_sweep l H16) as E. unfold low_check in E.
  rewrite (range_low l Hl) in E. apply andb_prop in E as [E12 _]. apply andb_prop in E12 as [E1 E2].
  apply N.eqb_eq in E1. apply N.ltb_lt in E2. auto.
Qed.

(* the code point the model computes for a low surrogate *)
Lemma low_value : forall hi l, hi < 1024 -> 0xDC00 <= l < 0xE000 ->
  encode_codepoint (wrapN 32 (0x10000 + N.lor (N.shiftl hi 10) (N.land l 0x3FF)))
  = utf8_encode (pair_codepoint (0xD800 + hi) l).
Proof.
  intros hi l Hh Hl. destruct (low_bits l Hl) as [E B]. rewrite E, lor_shift_add by assumption.
  unfold wrapN. rewrite N.land_ones.
  rewrite N.mod_small by (change (2 ^ 32) with 4294967296; lia).
  rewrite encode_codepoint_correct by lia.
  f_equal. unfold pair_codepoint. lia.
Qed.

Lemma quoted_loop_inv : forall cf q, (q = 34 \/ q = 39) ->
  forall n fuel cp acc s i str s', (fuel <= n)%nat ->
  good s -> stream s = i -> bytes256 i -> hi_sur cp < 1024 ->
  quoted_loop cf fuel q cp acc s = (Ok, str, s') ->
  exists body out r, i = body ++ q :: r /\ dchars cf q (hi_sur cp) body out /\ str = acc ++ out /\
     good s' /\ stream s' = r /\ cur s' = None /\ found s' = found s.
Proof.
  intros cf q HQ.
  assert (Q0 : 0 <> q) by (destruct HQ; lia).
  assert (Q117 : 117 <> q) by (destruct HQ; lia).
  induction n as [|n IH]; intros fuel cp acc s i str s' LE G S B HI H;
    (destruct fuel as [|fuel]; [discriminate H|]); [lia|].
  cbn [quoted_loop] in H.
  destruct (cur_cases s i G S) as [(s1 & E & _)|(c & t & s1 & -> & NZ & E & G1 & S1 & C1 & F1 & _)];
    rewrite E in H.
  { rewrite (eqb_false _ _ Q0) in H. change (0 =? 0) with true in H. discriminate H. }
  destruct (move_cons s1 c t G1 C1 S1) as (G2 & S2 & C2 & F2).
  pose proof (bytes256_tl _ _ B) as B2.
  destruct (N.eqb_spec c q) as [->|NQ].
  { injection H as <- <-. exists [], [], t. rewrite app_nil_r.
    split; [reflexivity|]. split; [constructor|]. splits; auto; congruence. }
  rewrite (eqb_false _ _ NZ) in H.
  destruct (N.eqb_spec c 92) as [->|N92].
  - (* backslash *)
    destruct (cur_cases (move s1) t G2 S2)
      as [(s3 & E3 & _)|(c2 & t2 & s3 & -> & NZ2 & E3 & G3 & S3 & C3 & F3 & _)]; rewrite E3 in H.
    { change (0 =? 0) with true in H. discriminate H. }
    rewrite (eqb_false _ _ NZ2) in H.
    destruct (move_cons s3 c2 t2 G3 C3 S3) as (G4 & S4 & C4 & F4).
    pose proof (bytes256_tl _ _ B2) as B4.
    destruct (N.eqb_spec c2 117) as [->|N117].
    + destruct (decode_unicode cf) eqn:DU.
      * (* decoded \uXXXX *)
        destruct (parse_hex4 4 0 (move s3)) as [[e u] s5] eqn:EH.
        destruct e; try discriminate H.
        destruct (parse_hex4_inv (move s3) t2 u s5 G4 S4 B4 EH)
          as (tu & t5 & -> & UE & U16 & G5 & S5 & C5 & F5).
        pose proof (bytes256_app_r _ _ B4) as B5.
        assert (FF : found s5 = found s) by congruence.
        unfold cp_append in H.
        destruct (is_high_surrogate u) eqn:HS.
        -- pose proof (high_range u HS) as HR. destruct (high_bits u HR) as [HB1 HB2].
           destruct (IH fuel {| hi_sur := N.land u 0x3FF; cp_val := cp_val cp |} acc s5 t5 str s'
                        ltac:(lia) G5 S5 B5 ltac:(cbn [hi_sur]; lia) H)
             as (body & out & r & -> & DC & -> & G' & S' & C' & F').
           cbn [hi_sur] in DC. rewrite HB1 in DC.
           exists ((92 :: 117 :: tu) ++ body), out, r.
           split; [cbn [app]; rewrite <- app_assoc; reflexivity|].
           split; [apply dc_u_high with (h := u); assumption|]. splits; auto; congruence.
        -- destruct (is_low_surrogate u) eqn:LS.
           ++ pose proof (low_range u LS) as LR.
              cbv iota in H. cbn [cp_val hi_sur] in H. rewrite (low_value _ _ HI LR) in H.
              match type of H with quoted_loop _ _ _ ?cp' _ _ = _ =>
                destruct (IH fuel cp' _ s5 t5 str s' ltac:(lia) G5 S5 B5 HI H)
                  as (body & out & r & -> & DC & -> & G' & S' & C' & F') end.
              cbn [hi_sur] in DC.
              exists ((92 :: 117 :: tu) ++ body), (utf8_encode (pair_codepoint (0xD800 + hi_sur cp) u) ++ out), r.
              split; [cbn [app]; rewrite <- app_assoc; reflexivity|].
              split; [apply dc_u_low; assumption|]. rewrite <- app_assoc. splits; auto; congruence.
           ++ pose proof (not_surrogate u HS LS) as NS.
              cbv iota in H. cbn [cp_val hi_sur] in H.
              rewrite encode_codepoint_correct in H by lia.
              match type of H with quoted_loop _ _ _ ?cp' _ _ = _ =>
                destruct (IH fuel cp' _ s5 t5 str s' ltac:(lia) G5 S5 B5 HI H)
                  as (body & out & r & -> & DC & -> & G' & S' & C' & F') end.
              cbn [hi_sur] in DC.
              exists ((92 :: 117 :: tu) ++ body), (utf8_encode u ++ out), r.
              split; [cbn [app]; rewrite <- app_assoc; reflexivity|].
              split; [apply dc_u_scalar; assumption|]. rewrite <- app_assoc. splits; auto; congruence.
      * (* \u copied verbatim: the backslash now, the u as an ordinary character *)
        destruct fuel as [|f]; [discriminate H|].
        rewrite (quoted_plain_step cf f q cp (acc ++ [92]) s3 117 C3 Q117 ltac:(lia) ltac:(lia)) in H.
        destruct (IH f cp _ (move s3) t2 str s' ltac:(lia) G4 S4 B4 HI H)
          as (body & out & r & -> & DC & -> & G' & S' & C' & F').
        exists (92 :: 117 :: body), (92 :: 117 :: out), r.
        split; [reflexivity|]. split; [apply dc_u_raw; assumption|].
        rewrite <- !app_assoc. splits; auto; congruence.
    + (* two-character escape *)
      destruct (N.eqb_spec (unescape_char c2) 0) as [UZ|UZ]; [discriminate H|].
      destruct (IH fuel cp _ (move s3) t2 str s' ltac:(lia) G4 S4 B4 HI H)
        as (body & out & r & -> & DC & -> & G' & S' & C' & F').
      exists (92 :: c2 :: body), (unescape_char c2 :: out), r.
      split; [reflexivity|]. split; [apply dc_esc; [apply unescape_in; exact UZ|assumption]|].
      rewrite <- app_assoc. splits; auto; congruence.
  - (* verbatim byte *)
    destruct (IH fuel cp _ (move s1) t str s' ltac:(lia) G2 S2 B2 HI H)
      as (body & out & r & -> & DC & -> & G' & S' & C' & F').
    exists (c :: body), (c :: out), r.
    split; [reflexivity|]. split; [apply dc_plain; assumption|].
    rewrite <- app_assoc. splits; auto; congruence.
Qed.

(* the whole string, entered with the opening quote latched *)
Lemma parse_quoted_string_inv : forall cf fuel s q i str s',
  (q = 34 \/ q = 39) -> good s -> cur s = Some q -> stream s = q :: i -> bytes256 i ->
  parse_quoted_string cf fuel s = (Ok, str, s') ->
  exists t r, q :: i = t ++ r /\ dstring cf t str /\
    good s' /\ stream s' = r /\ cur s' = None /\ found s' = found s.
Proof.
  intros cf fuel s q i str s' HQ G C S B H.
  unfold parse_quoted_string in H. rewrite (current_some _ _ C) in H.
  apply cap_string_ok in H. destruct H as [H FIT].
  destruct (move_cons s q i G C S) as (G2 & S2 & C2 & F2).
  destruct (quoted_loop_inv cf q HQ fuel fuel cp_init [] (move s) i str s' (le_n _) G2 S2 B
              ltac:(cbn; lia) H) as (body & out & r & -> & DC & -> & G' & S' & C' & F').
  exists ([q] ++ body ++ [q]), r.
  split; [cbn [app]; rewrite <- app_assoc; reflexivity|].
  split; [exists q, body; cbn [app] in FIT; auto|]. splits; auto; congruence.
Qed.

(* ------------------------------------------------------------------------------------- *)
(* keys *)

Lemma non_quoted_loop_inv : forall fuel acc c s i str s',
  good s -> cur s = Some c -> stream s = c :: i -> non_quoted_loop fuel acc c s = (Ok, str, s') ->
  exists k r, i = k ++ r /\ Forall (fun x => can_be_in_non_quoted_string x = true) k /\
    str = acc ++ c :: k /\ post s' r /\ found s' = found s.
Proof.
  induction fuel as [|fuel IH]; intros acc c s i str s' G C S H; [discriminate H|].
  cbn [non_quoted_loop] in H.
  destruct (move_cons s c i G C S) as (G2 & S2 & C2 & F2).
  destruct (cur_cases (move s) i G2 S2)
    as [(s1 & E & A1 & I1 & _ & F1 & _)|(c' & t & s1 & -> & NZ & E & G1 & S1 & C1 & F1 & _)];
    rewrite E in H.
  { change (can_be_in_non_quoted_string 0) with false in H. injection H as <- <-.
    exists [], i. split; [reflexivity|]. split; [constructor|]. split; [reflexivity|].
    split; [right; split; assumption|congruence]. }
  destruct (can_be_in_non_quoted_string c') eqn:K.
  - destruct (IH _ c' s1 t str s' G1 C1 S1 H) as (k & r & -> & FA & -> & P & F').
    exists (c' :: k), r. split; [reflexivity|]. split; [constructor; assumption|].
    rewrite <- app_assoc. split; [reflexivity|]. split; [exact P|congruence].
  - injection H as <- <-. exists [], (c' :: t).
    split; [reflexivity|]. split; [constructor|]. split; [reflexivity|].
    split; [left; split; assumption|congruence].
Qed.

Lemma is_quote_cases : forall c, is_quote c = true -> c = 34 \/ c = 39.
Proof.
  intros c H. unfold is_quote in H. apply orb_prop in H as [H|H]; apply N.eqb_eq in H; auto.
Qed.

Lemma parse_key_inv : forall cf fuel s i key s',
  good s -> stream s = i -> bytes256 i -> parse_key cf fuel s = (Ok, key, s') ->
  exists t r, i = t ++ r /\ dkey cf t key /\ post s' r /\ found s' = found s.
Proof.
  intros cf fuel s i key s' G S B H. unfold parse_key in H.
  destruct (cur_cases s i G S)
    as [(s1 & E & _ & _ & _ & _ & C1)|(c & t & s1 & -> & NZ & E & G1 & S1 & C1 & F1 & _)];
    rewrite E in H.
  { change (is_quote 0) with false in H. cbv iota in H. unfold parse_non_quoted_string in H.
    rewrite (current_some _ _ C1) in H. change (can_be_in_non_quoted_string 0) with false in H.
    discriminate H. }
  destruct (is_quote c) eqn:Q.
  - destruct (parse_quoted_string_inv cf fuel s1 c t key s' (is_quote_cases c Q) G1 C1 S1
                (bytes256_tl _ _ B) H) as (tk & r & EQ & DS & G' & S' & C' & F').
    exists tk, r. split; [exact EQ|]. split; [left; exact DS|].
    split; [left; split; assumption|congruence].
  - unfold parse_non_quoted_string in H. rewrite (current_some _ _ C1) in H.
    destruct (can_be_in_non_quoted_string c) eqn:K; [|discriminate H].
    apply cap_string_ok in H. destruct H as [H FIT].
    destruct (non_quoted_loop_inv fuel [] c s1 t key s' G1 C1 S1 H) as (k & r & -> & FA & -> & P & F').
    exists (c :: k), r. split; [reflexivity|].
    split; [right; split; [discriminate|split; [constructor; assumption|split; [reflexivity|exact FIT]]]|].
    split; [exact P|congruence].
Qed.

(* ------------------------------------------------------------------------------------- *)
(* numbers *)

Lemma scan_number_inv : forall cf n acc s i buf s',
  good s -> stream s = i -> scan_number cf n acc s = (buf, s') ->
  exists t r, i = t ++ r /\ Forall (fun c => can_be_in_number cf c = true) t /\ buf = acc ++ t /\
    (length t <= n)%nat /\ found s' = found s /\
    ((length t = n /\ good s' /\ stream s' = r) \/
     ((length t < n)%nat /\ post s' r /\ lastc s' = hd 0 r /\ can_be_in_number cf (hd 0 r) = false)).
Proof.
  intros cf. induction n as [|n IH]; intros acc s i buf s' G S H.
  - cbn [scan_number] in H. injection H as <- <-. exists [], i. rewrite app_nil_r.
    split; [reflexivity|]. split; [constructor|]. split; [reflexivity|]. split; [cbn; lia|].
    split; [reflexivity|]. left. auto.
  - cbn [scan_number] in H.
    destruct (cur_cases s i G S)
      as [(s1 & E & A1 & I1 & L1 & F1 & _)|(c & t & s1 & -> & NZ & E & G1 & S1 & C1 & F1 & L1)];
      rewrite E in H.
    { rewrite (not_numchar cf 0) in H by auto. injection H as <- <-.
      exists [], i. rewrite app_nil_r.
      split; [reflexivity|]. split; [constructor|]. split; [reflexivity|]. split; [cbn; lia|].
      split; [exact F1|]. right. cbn [length].
      split; [lia|]. split; [right; split; assumption|].
      destruct I1 as [->|[r ->]]; cbn [hd]; split; auto; apply not_numchar; auto. }
    destruct (can_be_in_number cf c) eqn:K.
    + destruct (move_cons s1 c t G1 C1 S1) as (G2 & S2 & C2 & F2).
      destruct (IH _ (move s1) t buf s' G2 S2 H) as (t' & r & -> & FA & -> & LN & F' & D).
      exists (c :: t'), r. split; [reflexivity|]. split; [constructor; assumption|].
      rewrite <- app_assoc. split; [reflexivity|]. cbn [length]. split; [lia|].
      split; [congruence|]. destruct D as [(D1 & D2)|(D1 & D2)]; [left|right]; split; auto; lia.
    + injection H as <- <-. exists [], (c :: t). rewrite app_nil_r.
      split; [reflexivity|]. split; [constructor|]. split; [reflexivity|]. split; [cbn; lia|].
      split; [exact F1|]. right. cbn [length hd].
      split; [lia|]. split; [left; split; assumption|]. auto.
Qed.

Lemma parse_number_nil : forall cf, jv_of_number cf (parse_number cf []) = None.
Proof.
  intro cf. unfold parse_number. cbn [hd0].
  change ((0 =? 110) || (0 =? 78)) with false. change ((0 =? 105) || (0 =? 73)) with false.
  rewrite !andb_false_r. reflexivity.
Qed.

Lemma jv_of_number_is_number : forall cf n v, jv_of_number cf n = Some v -> is_number v = true.
Proof.
  intros cf n v H. destruct n; cbn [jv_of_number] in H; try discriminate H; injection H as <-;
    try reflexivity.
  unfold jv_of_double. destruct (use_double cf); [|reflexivity].
  match goal with |- context [if ?b then _ else _] => destruct b end; reflexivity.
Qed.

Lemma parse_numeric_value_inv : forall cf s i v s',
  good s -> stream s = i -> parse_numeric_value cf s = (Ok, v, s') ->
  exists t r, i = t ++ r /\ t <> [] /\ (length t <= 63)%nat /\
    Forall (fun c => can_be_in_number cf c = true) t /\
    jv_of_number cf (parse_number cf t) = Some v /\
    post s' r /\ lastc s' = hd 0 r /\ number_boundary cf t r /\ found s' = found s.
Proof.
  intros cf s i v s' G S H. unfold parse_numeric_value in H.
  destruct (scan_number cf 63 [] s) as [buf s2] eqn:ES.
  destruct (scan_number_inv cf 63 [] s i buf s2 G S ES) as (t & r & -> & FA & -> & LN & F2 & D).
  cbn [app] in H.
  destruct (jv_of_number cf (parse_number cf t)) as [v0|] eqn:JV; [|discriminate H].
  assert (TN : t <> []).
  { intros ->. rewrite parse_number_nil in JV. discriminate JV. }
  exists t, r. split; [reflexivity|]. split; [exact TN|]. split; [exact LN|]. split; [exact FA|].
  destruct D as [(D1 & G2 & S2)|(D1 & P2 & L2 & K2)].
  - rewrite D1 in H. cbn [Nat.eqb] in H.
    destruct (peek s2 r G2 S2) as (s3 & E3 & F3 & P3 & L3 & C3). rewrite E3 in H. cbn [snd] in H.
    injection H as <- <-. splits; auto; [left; exact D1|congruence].
  - assert (X : Nat.eqb (length t) 63 = false) by (apply Nat.eqb_neq; lia). rewrite X in H.
    injection H as <- <-. splits; auto.
    right. destruct r; [exact I|exact K2].
Qed.

(* ------------------------------------------------------------------------------------- *)
(* keywords *)

Lemma skip_keyword_inv : forall kw s i s',
  good s -> stream s = i -> skip_keyword kw s = (Ok, s') ->
  exists r, i = kw ++ r /\ good s' /\ stream s' = r /\ found s' = found s.
Proof.
  induction kw as [|k kw IH]; intros s i s' G S H.
  - cbn [skip_keyword] in H. injection H as <-. exists i. auto.
  - cbn [skip_keyword] in H.
    destruct (cur_cases s i G S) as [(s1 & E & _)|(c & t & s1 & -> & NZ & E & G1 & S1 & C1 & F1 & _)];
      rewrite E in H.
    { change (0 =? 0) with true in H. discriminate H. }
    rewrite (eqb_false _ _ NZ) in H.
    destruct (N.eqb_spec k c) as [->|NK]; cbn [negb] in H; [|discriminate H].
    destruct (move_cons s1 c t G1 C1 S1) as (G2 & S2 & C2 & F2).
    destruct (IH (move s1) t s' G2 S2 H) as (r & -> & G' & S' & F').
    exists r. splits; auto; congruence.
Qed.

(* ------------------------------------------------------------------------------------- *)
(* containers *)

Ltac b256 :=
  match goal with
  | H : bytes256 ?l |- bytes256 ?l => exact H
  | H : bytes256 (_ ++ _) |- _ => apply bytes256_app_r in H; b256
  | H : bytes256 (_ :: _) |- _ => apply bytes256_tl in H; b256
  end.

Ltac lst := repeat (progress (cbn [app]; rewrite <- ?app_assoc)); try reflexivity.

Lemma delements_prepend : forall cf d w t vs,
  dws cf w -> delements cf d t vs -> delements cf d (w ++ t) vs.
Proof.
  intros cf d w t vs W D. destruct D as [d w1 t v w2 W1 V W2|d w1 t v w2 r vs W1 V W2 R].
  - rewrite app_assoc. apply de_one; auto using dws_app.
  - rewrite app_assoc. apply de_cons; auto using dws_app.
Qed.

Lemma dmembers_prepend : forall cf d w t ms,
  dws cf w -> dmembers cf d t ms -> dmembers cf d (w ++ t) ms.
Proof.
  intros cf d w t ms W D.
  destruct D as [d w1 kt k w2 w3 t v w4 W1 K W2 W3 V W4|d w1 kt k w2 w3 t v w4 r ms W1 K W2 W3 V W4 R].
  - rewrite app_assoc. apply dm_one; auto using dws_app.
  - rewrite app_assoc. apply dm_cons; auto using dws_app.
Qed.

(* what the induction on the nesting budget provides for the values inside a container *)
Definition pv_sound (cf : cfg) (d : nat) (pv : filter -> ps -> code * jv * ps) : Prop :=
  forall s i v s', good s -> stream s = i -> bytes256 i -> pv None s = (Ok, v, s') ->
  exists w t r, i = w ++ t ++ r /\ dws cf w /\ dvalue cf d t v /\ post s' r /\ found s' = true /\
    (is_number v = true -> lastc s' = hd 0 r /\ number_boundary cf t r).

Lemma array_loop_inv : forall cf d pv sv, pv_sound cf d pv ->
  forall fuel acc s i v s', good s -> stream s = i -> bytes256 i ->
  array_loop cf pv sv fuel None acc s = (Ok, v, s') ->
  exists te vs r, i = te ++ 93 :: r /\ delements cf d te vs /\ v = JArr (acc ++ vs) /\
    good s' /\ stream s' = r /\ cur s' = None /\ found s' = true.
Proof.
  intros cf d pv sv HP. induction fuel as [|fuel IH]; intros acc s i v s' G S B H; [discriminate H|].
  rewrite array_loop_S in H. cbn [f_allow] in H.
  destruct (pv None s) as [[e v1] s1] eqn:E1. destruct e; try discriminate H.
  destruct (HP s i v1 s1 G S B E1) as (w1 & t1 & r1 & -> & W1 & V1 & P1 & _).
  unfold arr_step in H.
  destruct (skip_spaces cf fuel s1) as [e s2] eqn:E2. destruct e; try discriminate H.
  destruct (post_skip cf fuel s1 r1 s2 P1 E2) as [G1 S1].
  destruct (skip_spaces_inv cf fuel s1 r1 s2 G1 S1 E2)
    as (w2 & c & r2 & -> & W2 & G2 & S2 & C2 & NZ & _ & _ & F2 & _).
  destruct (N.eq_dec c 93) as [->|N93].
  - destruct (eat_yes s2 93 r2 G2 S2 ltac:(lia)) as (s3 & E3 & G3 & S3 & C3 & F3). rewrite E3 in H.
    injection H as <- <-. exists (w1 ++ t1 ++ w2), [v1], r2.
    split; [lst|]. split; [apply de_one; assumption|]. splits; auto; congruence.
  - rewrite (eat_no_some s2 c 93 C2 N93) in H. cbv beta iota in H.
    destruct (N.eq_dec c 44) as [->|N44].
    + destruct (eat_yes s2 44 r2 G2 S2 ltac:(lia)) as (s3 & E3 & G3 & S3 & C3 & F3). rewrite E3 in H.
      assert (B3 : bytes256 r2) by (clear - B; b256).
      destruct (IH _ s3 r2 v s' G3 S3 B3 H) as (te & vs & r & -> & DE & -> & R).
      exists (w1 ++ t1 ++ w2 ++ [44] ++ te), (v1 :: vs), r.
      split; [lst|]. split; [apply de_cons; assumption|].
      rewrite <- app_assoc. split; [reflexivity|exact R].
    + rewrite (eat_no_some s2 c 44 C2 N44) in H. discriminate H.
Qed.

Lemma object_loop_inv : forall cf d pv sv, pv_sound cf d pv ->
  forall fuel acc s i v s', good s -> stream s = i -> bytes256 i ->
  object_loop cf pv sv fuel None acc s = (Ok, v, s') ->
  exists tm ms r, i = tm ++ 125 :: r /\ dmembers cf d tm ms /\ v = JObj (obj_den ms acc) /\
    good s' /\ stream s' = r /\ cur s' = None /\ found s' = true.
Proof.
  intros cf d pv sv HP. induction fuel as [|fuel IH]; intros acc s i v s' G S B H; [discriminate H|].
  rewrite object_loop_S in H.
  destruct (parse_key cf fuel s) as [[e key] s1] eqn:E1. destruct e; try discriminate H.
  destruct (parse_key_inv cf fuel s i key s1 G S B E1) as (kt & r1 & -> & DK & P1 & _).
  destruct (skip_spaces cf fuel s1) as [e s2] eqn:E2. destruct e; try discriminate H.
  destruct (post_skip cf fuel s1 r1 s2 P1 E2) as [G1 S1].
  destruct (skip_spaces_inv cf fuel s1 r1 s2 G1 S1 E2)
    as (w2 & c & r2 & -> & W2 & G2 & S2 & C2 & NZ & _).
  destruct (N.eq_dec c 58) as [->|N58].
  2:{ rewrite (eat_no_some s2 c 58 C2 N58) in H. discriminate H. }
  destruct (eat_yes s2 58 r2 G2 S2 ltac:(lia)) as (s3 & E3 & G3 & S3 & C3 & _). rewrite E3 in H.
  cbn [negb f_member f_allow] in H.
  assert (B3 : bytes256 r2) by (clear - B; b256).
  destruct (pv None s3) as [[e v1] s4] eqn:E4. destruct e; try discriminate H.
  destruct (HP s3 r2 v1 s4 G3 S3 B3 E4) as (w3 & t & r4 & -> & W3 & V & P4 & _).
  unfold obj_after in H.
  destruct (skip_spaces cf fuel s4) as [e s5] eqn:E5. destruct e; try discriminate H.
  destruct (post_skip cf fuel s4 r4 s5 P4 E5) as [G4 S4].
  destruct (skip_spaces_inv cf fuel s4 r4 s5 G4 S4 E5)
    as (w4 & c5 & r5 & -> & W4 & G5 & S5 & C5 & NZ5 & _ & _ & F5 & _).
  destruct (N.eq_dec c5 125) as [->|N125].
  - destruct (eat_yes s5 125 r5 G5 S5 ltac:(lia)) as (s6 & E6 & G6 & S6 & C6 & F6). rewrite E6 in H.
    injection H as <- <-.
    exists ([] ++ kt ++ w2 ++ [58] ++ w3 ++ t ++ w4), [(key, v1)], r5.
    split; [lst|]. split; [apply dm_one; auto; constructor|]. splits; auto; congruence.
  - rewrite (eat_no_some s5 c5 125 C5 N125) in H. cbv beta iota in H.
    destruct (N.eq_dec c5 44) as [->|N44].
    2:{ rewrite (eat_no_some s5 c5 44 C5 N44) in H. discriminate H. }
    destruct (eat_yes s5 44 r5 G5 S5 ltac:(lia)) as (s6 & E6 & G6 & S6 & C6 & _). rewrite E6 in H.
    cbn [negb] in H.
    destruct (skip_spaces cf fuel s6) as [e s7] eqn:E7. destruct e; try discriminate H.
    destruct (skip_spaces_inv cf fuel s6 r5 s7 G6 S6 E7)
      as (w5 & c7 & r7 & -> & W5 & G7 & S7 & _).
    assert (B7 : bytes256 (c7 :: r7)) by (clear - B3; b256).
    destruct (IH _ s7 (c7 :: r7) v s' G7 S7 B7 H) as (tm & ms & r & EQ & DM & -> & R).
    exists ([] ++ kt ++ w2 ++ [58] ++ w3 ++ t ++ w4 ++ [44] ++ (w5 ++ tm)), ((key, v1) :: ms), r.
    split; [rewrite EQ; lst|].
    split; [apply dm_cons; auto; [constructor|apply dmembers_prepend; assumption]|].
    split; [reflexivity|exact R].
Qed.

(* ------------------------------------------------------------------------------------- *)
(* parse_variant *)

Lemma pv_body_sound : forall cf fuel pv' sv' sk d, pv_sound cf d pv' ->
  forall deep s i v s', good s -> stream s = i -> bytes256 i ->
  pv_body cf fuel deep pv' sv' sk None s = (Ok, v, s') ->
  exists w t r, i = w ++ t ++ r /\ dws cf w /\
    dvalue cf (if deep then 0 else S d)%nat t v /\ post s' r /\ found s' = true /\
    (is_number v = true -> lastc s' = hd 0 r /\ number_boundary cf t r).
Proof.
  intros cf fuel pv' sv' sk d HP deep s i v s' G S B H. unfold pv_body in H.
  destruct (skip_spaces cf fuel s) as [e s1] eqn:E1. destruct e; try discriminate H.
  destruct (skip_spaces_inv cf fuel s i s1 G S E1)
    as (w & c & r0 & -> & W & G1 & S1 & C1 & NZ & NSP & _ & F1 & _).
  rewrite (current_some _ _ C1) in H.
  assert (B1 : bytes256 r0) by (clear - B; b256).
  destruct (N.eqb_spec c 91) as [->|N91].
  { (* array *)
    cbn [f_allow_array] in H. destruct deep; [discriminate H|].
    destruct (move_cons s1 91 r0 G1 C1 S1) as (G2 & S2 & C2 & _).
    destruct (skip_spaces cf fuel (move s1)) as [e s3] eqn:E3. destruct e; try discriminate H.
    destruct (skip_spaces_inv cf fuel (move s1) r0 s3 G2 S2 E3)
      as (w2 & c2 & r2 & -> & W2 & G3 & S3 & C3 & NZ3 & _ & _ & F3 & _).
    destruct (N.eq_dec c2 93) as [->|N93].
    - destruct (eat_yes s3 93 r2 G3 S3 ltac:(lia)) as (s4 & E4 & G4 & S4 & C4 & F4). rewrite E4 in H.
      injection H as <- <-. exists w, ([91] ++ w2 ++ [93]), r2.
      split; [lst|]. split; [exact W|]. split; [apply dv_arr_empty; exact W2|].
      split; [left; auto|]. split; [congruence|discriminate].
    - rewrite (eat_no_some s3 c2 93 C3 N93) in H. cbv beta iota in H.
      assert (B3 : bytes256 (c2 :: r2)) by (clear - B1; b256).
      destruct (array_loop_inv cf d pv' sv' HP fuel [] s3 (c2 :: r2) v s' G3 S3 B3 H)
        as (te & vs & r & EQ & DE & -> & G' & S' & C' & F').
      exists w, ([91] ++ (w2 ++ te) ++ [93]), r.
      split; [rewrite EQ; lst|]. split; [exact W|].
      split; [apply dv_arr; apply delements_prepend; assumption|].
      split; [left; auto|]. split; [exact F'|discriminate]. }
  destruct (N.eqb_spec c 123) as [->|N123].
  { (* object *)
    cbn [f_allow_object] in H. destruct deep; [discriminate H|].
    destruct (move_cons s1 123 r0 G1 C1 S1) as (G2 & S2 & C2 & _).
    destruct (skip_spaces cf fuel (move s1)) as [e s3] eqn:E3. destruct e; try discriminate H.
    destruct (skip_spaces_inv cf fuel (move s1) r0 s3 G2 S2 E3)
      as (w2 & c2 & r2 & -> & W2 & G3 & S3 & C3 & NZ3 & _ & _ & F3 & _).
    destruct (N.eq_dec c2 125) as [->|N125].
    - destruct (eat_yes s3 125 r2 G3 S3 ltac:(lia)) as (s4 & E4 & G4 & S4 & C4 & F4). rewrite E4 in H.
      injection H as <- <-. exists w, ([123] ++ w2 ++ [125]), r2.
      split; [lst|]. split; [exact W|]. split; [apply dv_obj_empty; exact W2|].
      split; [left; auto|]. split; [congruence|discriminate].
    - rewrite (eat_no_some s3 c2 125 C3 N125) in H. cbv beta iota in H.
      assert (B3 : bytes256 (c2 :: r2)) by (clear - B1; b256).
      destruct (object_loop_inv cf d pv' sv' HP fuel [] s3 (c2 :: r2) v s' G3 S3 B3 H)
        as (tm & ms & r & EQ & DM & -> & G' & S' & C' & F').
      exists w, ([123] ++ (w2 ++ tm) ++ [125]), r.
      split; [rewrite EQ; lst|]. split; [exact W|].
      split; [apply dv_obj; apply dmembers_prepend; assumption|].
      split; [left; auto|]. split; [exact F'|discriminate]. }
  unfold pv_scalar in H.
  destruct (is_quote c) eqn:Q.
  { (* string *)
    cbn [f_allow_value] in H.
    destruct (parse_quoted_string cf fuel s1) as [[e str] s2] eqn:E2. destruct e; try discriminate H.
    injection H as <- <-.
    destruct (parse_quoted_string_inv cf fuel s1 c r0 str s2 (is_quote_cases c Q) G1 C1 S1 B1 E2)
      as (t & r & EQ & DS & G' & S' & C' & F').
    exists w, t, r. split; [rewrite EQ; reflexivity|]. split; [exact W|].
    split; [apply dv_str; exact DS|]. split; [left; auto|]. split; [congruence|discriminate]. }
  destruct (N.eqb_spec c 116) as [->|N116].
  { destruct (skip_keyword kw_true s1) as [e s2] eqn:E2. cbn [f_allow_value] in H.
    injection H as -> <- <-.
    destruct (skip_keyword_inv kw_true s1 _ s2 G1 S1 E2) as (r & EQ & G' & S' & F').
    exists w, kw_true, r. split; [rewrite EQ; reflexivity|]. split; [exact W|].
    split; [apply dv_true|]. split; [left; auto|]. split; [congruence|discriminate]. }
  destruct (N.eqb_spec c 102) as [->|N102].
  { destruct (skip_keyword kw_false s1) as [e s2] eqn:E2. cbn [f_allow_value] in H.
    injection H as -> <- <-.
    destruct (skip_keyword_inv kw_false s1 _ s2 G1 S1 E2) as (r & EQ & G' & S' & F').
    exists w, kw_false, r. split; [rewrite EQ; reflexivity|]. split; [exact W|].
    split; [apply dv_false|]. split; [left; auto|]. split; [congruence|discriminate]. }
  destruct (N.eqb_spec c 110) as [->|N110].
  { unfold lift in H. destruct (skip_keyword kw_null s1) as [e s2] eqn:E2.
    injection H as -> <- <-.
    destruct (skip_keyword_inv kw_null s1 _ s2 G1 S1 E2) as (r & EQ & G' & S' & F').
    exists w, kw_null, r. split; [rewrite EQ; reflexivity|]. split; [exact W|].
    split; [apply dv_null|]. split; [left; auto|]. split; [congruence|discriminate]. }
  (* number *)
  cbn [f_allow_value] in H.
  destruct (parse_numeric_value_inv cf s1 (c :: r0) v s' G1 S1 H)
    as (t & r & EQ & TN & LN & FA & JV & P & LC & NB & F').
  exists w, t, r. split; [rewrite EQ; reflexivity|]. split; [exact W|].
  split.
  { apply dv_num. destruct t as [|c' t']; [congruence|]. cbn [app] in EQ. injection EQ as <- _.
    unfold dnumber. cbn [hd]. splits; auto. }
  split; [exact P|]. split; [congruence|]. intros _. auto.
Qed.

Theorem parse_variant_sound : forall cf fuel L, pv_sound cf L (parse_variant cf fuel L).
Proof.
  intros cf fuel. induction L as [|L IH]; intros s i v s' G S B H;
    rewrite parse_variant_body in H.
  - cbn [deepL pvL svL] in H.
    refine (pv_body_sound cf fuel _ _ _ 0%nat _ true s i v s' G S B H).
    intros s0 i0 v0 s0' _ _ _ X. discriminate X.
  - cbn [deepL pvL svL] in H.
    exact (pv_body_sound cf fuel _ _ _ L IH false s i v s' G S B H).
Qed.

(* ------------------------------------------------------------------------------------- *)
(* Main theorem: whatever json_run accepts starts with a text of the dialect, and the document
   is the value the dialect assigns to it.

   The hypothesis [bytes256 i] (every element of the input is a byte) is the type invariant of
   [bytes = list N]; without it the statement is false for a reason that has nothing to do with
   the library: decode_hex works on the low 8 bits, so the "byte" 304 = 256 + '0' would pass for
   a hex digit (see [sound_needs_bytes] below). *)

Theorem dialect_sound : forall cf L i o,
  bytes256 i ->
  o = json_run cf None L i -> j_err o = Ok ->
  exists w t rest, i = w ++ t ++ rest /\ dws cf w /\
    (exists d, (d <= L)%nat /\ dvalue cf d t (j_doc o)) /\
    dtrailing (j_doc o) rest.
Proof.
  intros cf L i o B -> H. unfold json_run in *.
  destruct (parse_variant cf (json_fuel i) L None (ps_init i)) as [[e v] s] eqn:E.
  cbn [j_err j_doc] in *.
  destruct e; try discriminate H.
  destruct (parse_variant_sound cf _ L _ i v s (good_init i) (stream_init i) B E)
    as (w & t & r & -> & W & V & P & F & NB).
  exists w, t, r. split; [reflexivity|]. split; [exact W|].
  split; [exists L; split; [lia|exact V]|].
  intro IN. destruct (NB IN) as [LC _]. rewrite IN, LC in H.
  destruct r as [|c r]; [exact I|]. cbn [hd] in H.
  destruct (N.eqb_spec c 0) as [->|NZ]; [left; reflexivity|].
  destruct (is_space c); [right; reflexivity|]. cbn in H. discriminate H.
Qed.

(* the same with the text packaged as [dtext] *)
Corollary dialect_sound_text : forall cf L i,
  bytes256 i -> j_err (json_run cf None L i) = Ok ->
  exists t rest, i = t ++ rest /\ dtext cf L t (j_doc (json_run cf None L i)) /\
    dtrailing (j_doc (json_run cf None L i)) rest.
Proof.
  intros cf L i B H.
  destruct (dialect_sound cf L i _ B eq_refl H) as (w & t & rest & -> & W & (d & DL & V) & T).
  exists (w ++ t), rest. split; [rewrite app_assoc; reflexivity|].
  split; [exists w, t, d; auto|exact T].
Qed.

(* the trailing rule makes the number token the longest run of number characters *)
Lemma dtrailing_boundary : forall cf v t rest, is_number v = true -> dtrailing v rest ->
  number_boundary cf t rest.
Proof.
  intros cf v t rest IN T. right. specialize (T IN). destruct rest as [|c r]; [exact I|].
  apply not_numchar. destruct T as [->|T]; auto.
Qed.

(* an input that is not a list of bytes: 304 = 256 + '0' is taken for the hex digit 0, although
   "\u<304>000" is not an escape of the dialect (hex_value 304 = None) *)
Example sound_needs_bytes :
  j_err (json_run default_cfg None 10 [34; 92; 117; 304; 48; 48; 48; 34]) = Ok /\
  hex_value 304 = None.
Proof. split; vm_compute; reflexivity. Qed.

(* ------------------------------------------------------------------------------------- *)
(* Corollaries *)

(* comments only when enabled: without ARDUINOJSON_ENABLE_COMMENTS the insignificant bytes are
   the four whitespace characters of the RFC *)
Theorem comments_only_when_enabled : forall cf w,
  enable_comments cf = false -> dws cf w -> Forall (fun c => is_space c = true) w.
Proof.
  intros cf w EC W. induction W as [|c w Hc W IH|b w E _ _ _ _|b w E _ _ _].
  - constructor.
  - constructor; assumption.
  - congruence.
  - congruence.
Qed.

Corollary comments_only_when_enabled_run : forall cf L i,
  enable_comments cf = false -> bytes256 i -> j_err (json_run cf None L i) = Ok ->
  exists w t rest, i = w ++ t ++ rest /\ Forall (fun c => is_space c = true) w /\
    exists d, (d <= L)%nat /\ dvalue cf d t (j_doc (json_run cf None L i)).
Proof.
  intros cf L i EC B H.
  destruct (dialect_sound cf L i _ B eq_refl H) as (w & t & rest & E & W & V & _).
  exists w, t, rest. split; [exact E|]. split; [|exact V].
  apply comments_only_when_enabled with (cf := cf); assumption.
Qed.

(* a container is closed by its bracket, a string by the quote that opened it: no text of the
   dialect denotes a container or a string without being closed *)
Theorem dvalue_closed : forall cf d t v, dvalue cf d t v ->
  match v with
  | JArr _ => exists body, t = [91] ++ body ++ [93]
  | JObj _ => exists body, t = [123] ++ body ++ [125]
  | JStr _ => exists q body, (q = 34 \/ q = 39) /\ t = [q] ++ body ++ [q]
  | _ => True
  end.
Proof.
  intros cf d t v H.
  destruct H as [d|d|d|d t v N|d t s (q & body & HQ & -> & _)|d w _|d t vs _|d w _|d t ms _];
    try exact I; try (eexists; reflexivity).
  - destruct N as (_ & _ & _ & _ & _ & _ & JV). apply jv_of_number_is_number in JV.
    destruct v; try exact I; discriminate JV.
  - exists q, body. auto.
Qed.

(* ---- the RFC grammar is inside the dialect ---- *)

Lemma ws_dws : forall cf w, ws w -> dws cf w.
Proof.
  intros cf w W. induction W as [|c w Hc W IH]; [constructor|].
  apply dws_space; [rewrite <- is_ws_space; exact Hc|exact IH].
Qed.

Lemma uescape_shape : forall t u, uescape t u -> exists tu, t = 92 :: 117 :: tu.
Proof. intros t u H. destruct H. eexists; reflexivity. Qed.

Lemma jchars_dchars : forall cf, decode_unicode cf = true ->
  forall body s, jchars body s -> forall hi, dchars cf 34 hi body s.
Proof.
  intros cf DU body s J. induction J as [|t1 b1 t2 b2 J1 J2 IH]; intro hi; [constructor|].
  destruct J1 as [c C256 C32 C34 C92 | e c HIn | t u UE NS | ta tb h l U1 U2 Hh Hl].
  - cbn [app]. apply dc_plain; auto. lia.
  - cbn [app]. apply dc_esc; [|apply IH].
    unfold dialect_escapes. cbn [In] in *. tauto.
  - apply dc_u_scalar; auto.
  - rewrite <- app_assoc.
    apply dc_u_high with (h := h); auto.
    replace (utf8_encode (pair_codepoint h l)) with (utf8_encode (pair_codepoint (0xD800 + (h - 0xD800)) l))
      by (f_equal; f_equal; lia).
    apply dc_u_low; auto.
Qed.

Lemma jstring_dstring : forall cf, decode_unicode cf = true ->
  forall t s, jstring t s -> dstring cf t s.
Proof.
  intros cf DU t s (body & -> & J & FIT). exists 34, body. split; [auto|]. split; [reflexivity|].
  split; [apply jchars_dchars; assumption|exact FIT].
Qed.

Lemma jnumber_dnumber : forall cf t v, jnumber t -> num_den cf t v -> dnumber cf t v.
Proof.
  intros cf t v J (LN & JV). destruct (jnumber_chars cf t J) as [FA (c & r & -> & NS)].
  unfold dnumber. cbn [hd].
  assert (X : c <> 116 /\ c <> 102 /\ c <> 110).
  { destruct NS as [->|D]; [lia|]. apply digit_range in D. lia. }
  splits; auto; try tauto. discriminate.
Qed.

Lemma rfc_inside_dialect_all : forall cf, decode_unicode cf = true ->
  (forall d t v, jvalueD (num_den cf) d t v -> dvalue cf d t v) /\
  (forall d t vs, jelementsD (num_den cf) d t vs -> delements cf d t vs) /\
  (forall d t ms, jmembersD (num_den cf) d t ms -> dmembers cf d t ms).
Proof.
  intros cf DU. apply jvalueD_mutind; intros.
  - constructor.
  - constructor.
  - constructor.
  - apply dv_num. apply jnumber_dnumber; assumption.
  - apply dv_str. apply jstring_dstring; assumption.
  - apply dv_arr_empty. apply ws_dws; assumption.
  - apply dv_arr; assumption.
  - apply dv_obj_empty. apply ws_dws; assumption.
  - apply dv_obj; assumption.
  - apply de_one; auto using ws_dws.
  - apply de_cons; auto using ws_dws.
  - apply dm_one; auto using ws_dws. left. apply jstring_dstring; assumption.
  - apply dm_cons; auto using ws_dws. left. apply jstring_dstring; assumption.
Qed.

(* With ARDUINOJSON_DECODE_UNICODE (the default).  Without it the statement is false: the reader
   copies \u escapes instead of decoding them, see [rfc_needs_decode_unicode]. *)
Theorem rfc_inside_dialect : forall cf, decode_unicode cf = true ->
  forall d t v, jvalueD (num_den cf) d t v -> dvalue cf d t v.
Proof. intros cf DU. exact (proj1 (rfc_inside_dialect_all cf DU)). Qed.

Definition no_decode_cfg : cfg :=
  {| decode_unicode := false; enable_comments := false; enable_nan := false;
     enable_inf := false; use_double := true |}.

(* the six characters backslash u 0 0 4 1 between quotes: the RFC says they denote the letter A,
   the reader built without DECODE_UNICODE returns the six characters themselves *)
Example rfc_needs_decode_unicode :
  j_doc (json_run no_decode_cfg None 10 [34; 92; 117; 48; 48; 52; 49; 34])
  = JStr [92; 117; 48; 48; 52; 49].
Proof. vm_compute. reflexivity. Qed.

(* no trailing comma, no unclosed container or string: examples of the classification *)
Example trailing_comma_rejected :
  j_err (json_run default_cfg None 10 [91; 49; 44; 93]) = InvalidInput /\
  j_err (json_run default_cfg None 10 [123; 34; 97; 34; 58; 49; 44; 125]) = InvalidInput /\
  j_err (json_run default_cfg None 10 [91; 49; 44]) = IncompleteInput /\
  j_err (json_run default_cfg None 10 [34; 97]) = IncompleteInput.
Proof. vm_compute. auto. Qed.

(* ------------------------------------------------------------------------------------- *)
(* NaN / Infinity only when enabled.
   A NaN VALUE can only come from the NaN spelling, hence only with ARDUINOJSON_ENABLE_NAN:
   the arithmetic of parseNumber never produces one.  For Infinity the corresponding statement
   about VALUES is false and is not what the library promises: a literal whose exponent exceeds
   the range overflows to infinity ("1e999", see [overflow_gives_infinity]); what needs
   ARDUINOJSON_ENABLE_INFINITY is the SPELLING ([number_spelling]). *)

Local Open Scope Z_scope.

Lemma shr_1_nonneg : forall mrs, 0 <= shr_m mrs -> 0 <= shr_m (shr_1 mrs).
Proof.
  intros [m r s] H. cbn [shr_m] in H. unfold shr_1.
  destruct m as [|p|p]; [cbn; lia| |lia].
  destruct p; cbn [shr_m]; lia.
Qed.

Lemma iter_pos_nonneg : forall p mrs, 0 <= shr_m mrs -> 0 <= shr_m (SpecFloat.iter_pos shr_1 p mrs).
Proof.
  induction p as [p IH|p IH|]; intros mrs H; cbn [SpecFloat.iter_pos].
  - apply IH, IH, shr_1_nonneg, H.
  - apply IH, IH, H.
  - apply shr_1_nonneg, H.
Qed.

Lemma shr_nonneg : forall mrs e n, 0 <= shr_m mrs -> 0 <= shr_m (fst (shr mrs e n)).
Proof.
  intros mrs e n H. unfold shr. destruct n; cbn [fst]; auto. apply iter_pos_nonneg, H.
Qed.

Lemma shr_record_of_loc_m : forall m l, shr_m (shr_record_of_loc m l) = m.
Proof. intros m l. destruct l as [|[| |]]; reflexivity. Qed.

Lemma shr_fexp_nonneg : forall prec emax m e l, 0 <= m -> 0 <= shr_m (fst (shr_fexp prec emax m e l)).
Proof.
  intros. unfold shr_fexp. apply shr_nonneg. rewrite shr_record_of_loc_m. assumption.
Qed.

Lemma rne_nonneg : forall m l, 0 <= m -> 0 <= round_nearest_even m l.
Proof.
  intros m l H. unfold round_nearest_even. destruct l as [|[| |]]; try lia.
  destruct (Z.even m); lia.
Qed.

Lemma binary_round_aux_not_nan : forall prec emax sx mx ex lx, 0 <= mx ->
  binary_round_aux prec emax sx mx ex lx <> S754_nan.
Proof.
  intros prec emax sx mx ex lx H. unfold binary_round_aux.
  pose proof (shr_fexp_nonneg prec emax mx ex lx H) as H1.
  destruct (shr_fexp prec emax mx ex lx) as [mrs' e']. cbn [fst] in H1.
  pose proof (shr_fexp_nonneg prec emax _ e' loc_Exact (rne_nonneg _ (loc_of_shr_record mrs') H1)) as H2.
  destruct (shr_fexp prec emax (round_nearest_even (shr_m mrs') (loc_of_shr_record mrs')) e' loc_Exact)
    as [mrs'' e'']. cbn [fst] in H2.
  destruct (shr_m mrs'') as [|p|p]; [discriminate| |lia].
  destruct (e'' <=? emax - prec); discriminate.
Qed.

Lemma binary_round_not_nan : forall prec emax sx mx ex, binary_round prec emax sx mx ex <> S754_nan.
Proof.
  intros. unfold binary_round. destruct (shl_align mx ex _) as [mz ez].
  apply binary_round_aux_not_nan. lia.
Qed.

Lemma binary_normalize_not_nan : forall prec emax m e sz, binary_normalize prec emax m e sz <> S754_nan.
Proof.
  intros. unfold binary_normalize. destruct m; [discriminate| |]; apply binary_round_not_nan.
Qed.

Definition finite_nz (x : spec_float) : bool := match x with S754_finite _ _ _ => true | _ => false end.

Lemma fmul_not_nan : forall f x y, x <> S754_nan -> finite_nz y = true -> fmul f x y <> S754_nan.
Proof.
  intros f x y Hx Hy. destruct y as [| | |sy my ey]; try discriminate Hy.
  unfold fmul, SFmul. destruct x as [sx|sx| |sx mx ex]; try discriminate; [congruence|].
  apply binary_round_aux_not_nan. lia.
Qed.

Lemma fconv_not_nan : forall f x, x <> S754_nan -> fconv f x <> S754_nan.
Proof.
  intros f x H. unfold fconv. destruct x; auto. apply binary_normalize_not_nan.
Qed.

Lemma fneg_not_nan : forall x, x <> S754_nan -> fneg x <> S754_nan.
Proof. intros x H. destruct x; cbn; congruence. Qed.

Lemma f_of_Z_not_nan : forall f z, f_of_Z f z <> S754_nan.
Proof. intros. apply binary_normalize_not_nan. Qed.

Lemma make_float_loop_not_nan : forall f tbl, forallb finite_nz tbl = true ->
  forall fuel m e r, m <> S754_nan -> make_float_loop f tbl fuel m e = Some r -> r <> S754_nan.
Proof.
  intros f tbl. induction tbl as [|p tbl IH]; intros FT fuel m e r Hm H.
  - destruct fuel; cbn [make_float_loop] in H; destruct (e =? 0); try discriminate H;
      injection H as <-; exact Hm.
  - cbn [forallb] in FT. apply andb_prop in FT as [Fp FT].
    destruct fuel; cbn [make_float_loop] in H; destruct (e =? 0); try discriminate H;
      try (injection H as <-; exact Hm).
    eapply IH; [exact FT| |exact H].
    destruct (Z.odd e); [apply fmul_not_nan; assumption|exact Hm].
Qed.

Lemma tables_finite : forall b,
  forallb finite_nz (pow10_table F64 b) = true /\ forallb finite_nz (pow10_table F32 b) = true.
Proof. intros []; split; vm_compute; reflexivity. Qed.

Lemma make_float_not_nan : forall f m e r, f = F64 \/ f = F32 -> m <> S754_nan ->
  make_float f m e = Some r -> r <> S754_nan.
Proof.
  intros f m e r Hf Hm H. unfold make_float in H.
  eapply make_float_loop_not_nan; [|exact Hm|exact H].
  destruct Hf as [-> | ->]; apply tables_finite.
Qed.

Definition num_not_nan (n : number) : Prop :=
  match n with NumFloat f | NumDouble f => f <> S754_nan | _ => True end.

Lemma mk_jfloat_not_nan : forall c f, f <> S754_nan -> num_not_nan (mk_jfloat c f).
Proof. intros c f H. unfold mk_jfloat. destruct (use_double c); exact H. Qed.

Lemma finish_not_nan : forall c neg mant expo, num_not_nan (finish c neg mant expo).
Proof.
  intros c neg mant expo. unfold finish.
  destruct (mant =? 0); [cbn; discriminate|].
  destruct (expo >? exp_max_of c); [apply mk_jfloat_not_nan; discriminate|].
  destruct (expo <? - exp_max_of c - 20); [cbn; discriminate|].
  assert (D : num_not_nan match make_float F64 (f_of_Z F64 mant) expo with
                          | Some r => NumDouble (if neg then fneg r else r)
                          | None => NumFault end).
  { destruct (make_float F64 (f_of_Z F64 mant) expo) as [r|] eqn:E; [|exact I].
    pose proof (make_float_not_nan F64 _ _ r (or_introl eq_refl) (f_of_Z_not_nan F64 mant) E) as R.
    cbn [num_not_nan]. destruct neg; [apply fneg_not_nan|]; exact R. }
  assert (S : forall k : spec_float -> number, (forall r, r <> S754_nan -> num_not_nan (k r)) ->
            num_not_nan match make_float F32 (f_of_Z F32 mant) expo with
                        | Some r => k r
                        | None => NumFault end).
  { intros k Hk. destruct (make_float F32 (f_of_Z F32 mant) expo) as [r|] eqn:E; [|exact I].
    apply Hk. exact (make_float_not_nan F32 _ _ r (or_intror eq_refl) (f_of_Z_not_nan F32 mant) E). }
  destruct (use_double c).
  - destruct ((expo <? -38) || (expo >? 38) || (mant >? 2 ^ 23 - 1)); [exact D|].
    apply S. intros r R. destruct (is_inf r); [exact D|].
    cbn [num_not_nan]. destruct neg; [apply fneg_not_nan|]; exact R.
  - apply S. intros r R. cbn [num_not_nan]. destruct neg; [apply fneg_not_nan|]; exact R.
Qed.

Lemma go_tail_not_nan : forall c neg mant expoff expo s, num_not_nan (go_tail c neg mant expoff expo s).
Proof. intros. unfold go_tail. destruct s; [apply finish_not_nan|exact I]. Qed.

Definition strip_sign (t : bytes) : bytes :=
  match t with
  | c :: r => if ((c =? 45) || (c =? 43))%N then r else t
  | [] => []
  end.

Lemma sign_match : forall s0 : bytes,
  match s0 with
  | 45%N :: t => (true, t)
  | 43%N :: t => (false, t)
  | _ => (false, s0)
  end = (lit_neg s0, strip_sign s0).
Proof.
  intros s0. destruct s0 as [|b t]; [reflexivity|].
  destruct b as [|p]; [reflexivity|].
  do 6 (destruct p as [p|p|]; try reflexivity).
Qed.

(* the first decision of parseNumber: NaN spelling, Infinity spelling, or a digit / '.' *)
Lemma parse_number_head : forall c s0,
  let s := strip_sign s0 in
  (enable_nan c = true /\ (hd0 s = 110 \/ hd0 s = 78)%N /\ parse_number c s0 = mk_jfloat c S754_nan) \/
  (enable_inf c = true /\ (hd0 s = 105 \/ hd0 s = 73)%N /\
     parse_number c s0 = mk_jfloat c (S754_infinity (lit_neg s0))) \/
  (parse_number c s0 = NumInvalid) \/
  ((NumParse.is_digit (hd0 s) = true \/ hd0 s = 46%N) /\ num_not_nan (parse_number c s0)).
Proof.
  intros c s0 s. rewrite parse_number_alt_eq. unfold parse_number_alt.
  rewrite sign_match. fold s.
  destruct (enable_nan c && ((hd0 s =? 110)%N || (hd0 s =? 78)%N)) eqn:EN.
  { left. apply andb_prop in EN as [A B]. apply orb_prop in B.
    split; [exact A|]. split; [|reflexivity]. destruct B as [B|B]; apply N.eqb_eq in B; auto. }
  destruct (enable_inf c && ((hd0 s =? 105)%N || (hd0 s =? 73)%N)) eqn:EI.
  { right; left. apply andb_prop in EI as [A B]. apply orb_prop in B.
    split; [exact A|]. split; [|reflexivity]. destruct B as [B|B]; apply N.eqb_eq in B; auto. }
  destruct (negb (NumParse.is_digit (hd0 s)) && negb (hd0 s =? 46)%N) eqn:ED; [right; right; left; reflexivity|].
  right; right; right. split.
  { destruct (NumParse.is_digit (hd0 s)); [left; reflexivity|]. cbn [negb andb] in ED.
    apply negb_false_iff, N.eqb_eq in ED. right. exact ED. }
  destruct (scan_int s 0) as [mant s1].
  destruct s1 as [|b1 t1].
  { destruct (lit_neg s0); [destruct (mant <=? 2 ^ 63)|]; try exact I.
    destruct (shrink_mantissa 30 _ mant 0) as [m2 eo]. cbn [skip_digits]. apply go_tail_not_nan. }
  destruct (shrink_mantissa 30 _ mant 0) as [m2 eo].
  destruct (skip_digits (b1 :: t1) eo) as [eo2 s2].
  lazymatch goal with |- num_not_nan (match ?fr with _ => _ end) => destruct fr as [[m3 eo3] s3] end.
  destruct s3 as [|b t]; [apply go_tail_not_nan|].
  destruct ((b =? 101)%N || (b =? 69)%N); [|apply go_tail_not_nan].
  lazymatch goal with |- num_not_nan (match ?sg with _ => _ end) => destruct sg as [negexp t1'] end.
  destruct (scan_exp t1' 0) as [e t2]. apply go_tail_not_nan.
Qed.

Local Close Scope Z_scope.

Definition jv_is_nan (v : jv) : bool :=
  match v with JFloat f | JDouble f => is_nan f | _ => false end.

Lemma is_nan_false : forall f, f <> S754_nan -> is_nan f = false.
Proof. intros f H. destruct f; try reflexivity. congruence. Qed.

Theorem nan_only_when_enabled : forall cf t v,
  enable_nan cf = false -> dnumber cf t v -> jv_is_nan v = false.
Proof.
  intros cf t v EN (_ & _ & _ & _ & _ & _ & JV).
  assert (NN : num_not_nan (parse_number cf t)).
  { destruct (parse_number_head cf t) as [(A & _)|[(_ & _ & E)|[E|(_ & E)]]].
    - congruence.
    - rewrite E. apply mk_jfloat_not_nan. discriminate.
    - rewrite E. exact I.
    - exact E. }
  destruct (parse_number cf t) as [| |z|z|f|f]; cbn [jv_of_number] in JV; try discriminate JV;
    injection JV as <-; try reflexivity; cbn [num_not_nan] in NN.
  - apply is_nan_false. exact NN.
  - unfold jv_of_double. destruct (use_double cf).
    + destruct (f_eq f (fconv F64 (fconv F32 f))); cbn [jv_is_nan]; apply is_nan_false;
        [apply fconv_not_nan|]; exact NN.
    + cbn [jv_is_nan]. apply is_nan_false, fconv_not_nan, NN.
Qed.

(* how an accepted token starts, after its optional sign: the NaN spelling (n / N, only when
   enabled), the Infinity spelling (i / I, only when enabled), or a digit or a dot *)
Theorem number_spelling : forall cf t v, dnumber cf t v ->
  let s := strip_sign t in
  (enable_nan cf = true /\ (hd0 s = 110 \/ hd0 s = 78)) \/
  (enable_inf cf = true /\ (hd0 s = 105 \/ hd0 s = 73)) \/
  (NumParse.is_digit (hd0 s) = true \/ hd0 s = 46).
Proof.
  intros cf t v (_ & _ & _ & _ & _ & _ & JV). cbv zeta.
  destruct (parse_number_head cf t) as [(A & B & _)|[(A & B & _)|[E|(A & _)]]].
  - left. auto.
  - right; left. auto.
  - rewrite E in JV. discriminate JV.
  - right; right. exact A.
Qed.

Corollary nan_inf_spelling_only_when_enabled : forall cf t v,
  enable_nan cf = false -> enable_inf cf = false -> dnumber cf t v ->
  (NumParse.is_digit (hd0 (strip_sign t)) = true \/ hd0 (strip_sign t) = 46) /\
  Forall (fun c => is_between c 48 57 = true \/ c = 43 \/ c = 45 \/ c = 46 \/ c = 101 \/ c = 69) t.
Proof.
  intros cf t v EN EI D. split.
  - destruct (number_spelling cf t v D) as [(A & _)|[(A & _)|A]]; [congruence|congruence|exact A].
  - destruct D as (_ & _ & FA & _). revert FA. apply Forall_impl. intros c H.
    unfold can_be_in_number in H. rewrite EN, EI in H. cbn [orb] in H.
    repeat (apply orb_prop in H as [H|H]); try (apply N.eqb_eq in H); auto 10.
Qed.

(* with the default configuration (no NaN, no Infinity) an exponent overflow still yields +inf *)
Example overflow_gives_infinity :
  json_run default_cfg None 10 [49; 101; 57; 57; 57] =
  {| j_err := Ok; j_doc := JFloat (S754_infinity false);
     j_st := j_st (json_run default_cfg None 10 [49; 101; 57; 57; 57]) |}.
Proof. vm_compute. reflexivity. Qed.

(* ===================================================================================== *)
(* COMPLETENESS for the whole dialect (generalises Proofs/ParseComplete.v from the RFC grammar
   to comments, single quotes, unquoted keys and lenient numbers): every text of the dialect
   is accepted with the value the dialect assigns to it. *)

(* ---- insignificant bytes ---- *)

Lemma block_comment_fwd : forall b, Forall (fun c => c <> 0) b -> no_close b ->
  forall ws fuel s r, (ws = true -> forall x, b <> 47 :: x) ->
  good s -> stream s = b ++ 42 :: 47 :: r -> (length b + 2 <= fuel)%nat ->
  exists s', block_comment fuel ws s = (Ok, s') /\ good s' /\ stream s' = r /\ cur s' = None /\
             found s' = found s.
Proof.
  induction b as [|c b IH]; intros NZ NC ws fuel s r HW G S L.
  - cbn [app length] in *. destruct fuel as [|[|fuel]]; [lia|lia|].
    destruct (next_cons s 42 _ G S ltac:(lia)) as (s1 & E1 & G1 & S1 & C1 & F1).
    destruct (next_cons _ 47 _ G1 S1 ltac:(lia)) as (s2 & E2 & G2 & S2 & C2 & F2).
    exists (move s2). cbn [block_comment]. rewrite E1.
    change (42 =? 0) with false. change (42 =? 47) with false. cbn [andb].
    change (42 =? 42) with true. rewrite E2.
    change (47 =? 0) with false. change (47 =? 47) with true. cbn [andb].
    splits; auto; congruence.
  - inversion NZ as [|? ? CZ NZ']; subst. cbn [app length] in *.
    destruct fuel as [|fuel]; [lia|].
    destruct (next_cons s c _ G S CZ) as (s1 & E1 & G1 & S1 & C1 & F1).
    cbn [block_comment]. rewrite E1, (eqb_false _ _ CZ).
    assert (X : (c =? 47) && ws = false).
    { destruct ws; [|apply andb_false_r]. rewrite andb_true_r. apply N.eqb_neq.
      intros ->. exact (HW eq_refl b eq_refl). }
    rewrite X.
    destruct (IH NZ' (fun p q E => NC (c :: p) q (f_equal (cons c) E)) (c =? 42) fuel (move s1) r)
      as (s' & E' & G' & S' & C' & F'); auto; try lia.
    + intros W x ->. apply N.eqb_eq in W. subst c. exact (NC [] x eq_refl).
    + exists s'. splits; auto; congruence.
Qed.

Lemma line_comment_fwd : forall b, Forall (fun c => c <> 0 /\ c <> 10) b ->
  forall fuel s c0 r, good s -> cur s = Some c0 -> stream s = c0 :: b ++ 10 :: r ->
  (length b + 1 <= fuel)%nat ->
  exists s', line_comment fuel s = (Ok, s') /\ good s' /\ stream s' = 10 :: r /\ cur s' = Some 10 /\
             found s' = found s.
Proof.
  induction b as [|c b IH]; intros FA fuel s c0 r G C S L.
  - cbn [app length] in *. destruct fuel as [|fuel]; [lia|].
    destruct (move_cons s c0 _ G C S) as (G1 & S1 & C1 & F1).
    destruct (current_cons _ 10 _ G1 S1 ltac:(lia)) as (s2 & E2 & G2 & S2 & C2 & F2 & _).
    exists s2. cbn [line_comment]. rewrite E2.
    change (10 =? 0) with false. change (10 =? 10) with true. cbv iota.
    splits; auto; congruence.
  - inversion FA as [|? ? [CZ C10] FA']; subst. cbn [app length] in *.
    destruct fuel as [|fuel]; [lia|].
    destruct (move_cons s c0 _ G C S) as (G1 & S1 & C1 & F1).
    destruct (current_cons _ c _ G1 S1 CZ) as (s2 & E2 & G2 & S2 & C2 & F2 & _).
    cbn [line_comment]. rewrite E2, (eqb_false _ _ CZ), (eqb_false _ _ C10).
    destruct (IH FA' fuel s2 c r G2 C2 S2 ltac:(lia)) as (s' & E' & G' & S' & C' & F').
    exists s'. splits; auto; congruence.
Qed.

Lemma skip_dws : forall cf w, dws cf w -> forall fuel s c r,
  good s -> stream s = w ++ c :: r ->
  c <> 0 -> is_space c = false -> (enable_comments cf = true -> c <> 47) ->
  (length w < fuel)%nat ->
  exists s1, skip_spaces cf fuel s = (Ok, s1) /\ good s1 /\ stream s1 = c :: r /\
             cur s1 = Some c /\ found s1 = true /\ lastc s1 = c.
Proof.
  intros cf w W. induction W as [|b w Hb W IH|b w EC NZ NC W IH|b w EC FA W IH];
    intros fuel s c r G S CZ CS C47 L.
  - cbn [app] in S. destruct fuel as [|fuel]; [cbn in L; lia|].
    destruct (current_cons s c r G S CZ) as (s' & E & G' & S' & C' & F' & R' & L').
    cbn [skip_spaces]. rewrite E. rewrite (eqb_false _ _ CZ).
    change ((c =? 32) || (c =? 9) || (c =? 13) || (c =? 10)) with (is_space c). rewrite CS.
    assert (X : enable_comments cf && (c =? 47) = false).
    { destruct (enable_comments cf); [|reflexivity]. cbn [andb]. apply N.eqb_neq. auto. }
    rewrite X. exists (set_found s'). split; [reflexivity|].
    destruct G' as (A1 & A2 & A3).
    split; [unfold good, set_found; cbn; auto|].
    unfold set_found, stream in *; cbn in *. auto.
  - cbn [app] in S. destruct fuel as [|fuel]; [cbn in L; lia|].
    assert (BZ : b <> 0) by (intros ->; discriminate Hb).
    destruct (next_cons s b _ G S BZ) as (s' & E & G' & S' & C' & F').
    cbn [skip_spaces]. rewrite E. rewrite (eqb_false _ _ BZ).
    change ((b =? 32) || (b =? 9) || (b =? 13) || (b =? 10)) with (is_space b). rewrite Hb.
    apply IH; auto. cbn in L. lia.
  - (* block comment *)
    rewrite <- !app_assoc in S. cbn [app] in S.
    rewrite !app_length in L. cbn [length] in L.
    destruct fuel as [|fuel]; [lia|].
    destruct (next_cons s 47 _ G S ltac:(lia)) as (s1 & E1 & G1 & S1 & C1 & F1).
    destruct (next_cons _ 42 _ G1 S1 ltac:(lia)) as (s2 & E2 & G2 & S2 & C2 & F2).
    destruct (block_comment_fwd b NZ NC false fuel (move s2) (w ++ c :: r)
                ltac:(discriminate) G2 S2 ltac:(lia)) as (s3 & E3 & G3 & S3 & C3 & F3).
    cbn [skip_spaces]. rewrite E1. change (47 =? 0) with false.
    change ((47 =? 32) || (47 =? 9) || (47 =? 13) || (47 =? 10)) with false. rewrite EC.
    change (true && (47 =? 47)) with true. cbv iota. rewrite E2.
    change (42 =? 42) with true. cbv iota. rewrite E3.
    apply IH; auto. lia.
  - (* line comment *)
    rewrite <- !app_assoc in S. cbn [app] in S.
    rewrite !app_length in L. cbn [length] in L.
    destruct fuel as [|[|fuel]]; [lia|lia|].
    destruct (next_cons s 47 _ G S ltac:(lia)) as (s1 & E1 & G1 & S1 & C1 & F1).
    destruct (current_cons _ 47 _ G1 S1 ltac:(lia)) as (s2 & E2 & G2 & S2 & C2 & F2 & _).
    destruct (line_comment_fwd b FA (Datatypes.S fuel) s2 47 (w ++ c :: r) G2 C2 S2 ltac:(lia))
      as (s3 & E3 & G3 & S3 & C3 & F3).
    destruct (move_cons s3 10 _ G3 C3 S3) as (G4 & S4 & C4 & F4).
    cbn [skip_spaces]. rewrite E1. change (47 =? 0) with false.
    change ((47 =? 32) || (47 =? 9) || (47 =? 13) || (47 =? 10)) with false. rewrite EC.
    change (true && (47 =? 47)) with true. cbv iota. rewrite E2.
    change (47 =? 42) with false. change (47 =? 47) with true. cbv iota. rewrite E3.
    rewrite (current_some _ _ C3). change (10 =? 0) with false.
    change ((10 =? 32) || (10 =? 9) || (10 =? 13) || (10 =? 10)) with true. cbv iota.
    apply IH; auto. lia.
Qed.

(* ---- strings ---- *)

Lemma quoted_step_u_q : forall cf q fuel cp acc s tu u t,
  decode_unicode cf = true -> 92 <> q ->
  good s -> stream s = tu ++ t -> uescape tu u ->
  exists s', good s' /\ stream s' = t /\ cur s' = None /\ found s' = found s /\ u < 65536 /\
    quoted_loop cf (S fuel) q cp acc s =
      (let '(complete, cp') := cp_append cp u in
       if complete then quoted_loop cf fuel q cp' (acc ++ encode_codepoint (cp_val cp')) s'
       else quoted_loop cf fuel q cp' acc s').
Proof.
  intros cf q fuel cp acc s tu u t DU Q92 G HS UE.
  destruct UE as [d1 d2 d3 d4 v1 v2 v3 v4 H1 H2 H3 H4]. cbn [app] in HS.
  destruct (next_cons s 92 _ G HS ltac:(lia)) as (s1 & E1 & G1 & S1 & C1 & F1).
  destruct (next_cons _ 117 _ G1 S1 ltac:(lia)) as (s2 & E2 & G2 & S2 & C2 & F2).
  destruct (hex4_correct _ _ _ _ _ _ _ _ _ _ G2 S2
              (hex_value_lt _ _ H1) (hex_value_lt _ _ H2) (hex_value_lt _ _ H3) (hex_value_lt _ _ H4)
              H1 H2 H3 H4) as (s3 & E3 & G3 & S3 & C3 & F3 & U).
  exists s3. split; [exact G3|]. split; [exact S3|]. split; [exact C3|]. split; [congruence|].
  split; [exact U|].
  cbn [quoted_loop]. rewrite E1, (eqb_false _ _ Q92).
  change (92 =? 0) with false. change (92 =? 92) with true.
  cbv iota. rewrite E2.
  change (117 =? 0) with false. change (117 =? 117) with true. cbv iota.
  rewrite DU, E3. unfold hex4_value. destruct (cp_append cp _) as [complete cp']. reflexivity.
Qed.

Lemma dialect_escape : forall e c, In (e, c) dialect_escapes ->
  e <> 0 /\ e <> 117 /\ unescape_char e = c /\ c <> 0.
Proof.
  intros e c H. unfold dialect_escapes in H. cbn [In] in H.
  repeat (destruct H as [H|H]; [injection H as <- <-; repeat split; try reflexivity; lia|]).
  contradiction.
Qed.

Lemma dchars_fwd : forall cf q, (q = 34 \/ q = 39) ->
  forall hi body out, dchars cf q hi body out ->
  forall fuel cp acc s tail, hi_sur cp = hi -> hi < 1024 ->
    good s -> stream s = body ++ q :: tail -> (length body < fuel)%nat ->
    exists s', quoted_loop cf fuel q cp acc s = (Ok, acc ++ out, s') /\
               good s' /\ stream s' = tail /\ cur s' = None /\ found s' = found s.
Proof.
  intros cf q HQ.
  assert (Q0 : q <> 0) by (destruct HQ; lia).
  assert (Q92 : 92 <> q) by (destruct HQ; lia).
  assert (Q117 : 117 <> q) by (destruct HQ; lia).
  intros hi body out D.
  induction D as [hi|hi c t o CQ CZ C92 D IH|hi e c t o HIn D IH|hi t o DU D IH
                  |hi tu u t o DU UE NS D IH|hi tu h t o DU UE HR D IH|hi tu l t o DU UE LR D IH];
    intros fuel cp acc s tail HC HI G HS L.
  - cbn [app] in HS. destruct fuel as [|fuel]; [cbn in L; lia|].
    destruct (next_cons s q tail G HS Q0) as (s1 & E1 & G1 & S1 & C1 & F1).
    cbn [quoted_loop]. rewrite E1, N.eqb_refl. exists (move s1). rewrite app_nil_r. auto.
  - cbn [app length] in *. destruct fuel as [|fuel]; [lia|].
    destruct (next_cons s c _ G HS CZ) as (s1 & E1 & G1 & S1 & C1 & F1).
    cbn [quoted_loop]. rewrite E1, (eqb_false _ _ CQ), (eqb_false _ _ CZ), (eqb_false _ _ C92).
    destruct (IH fuel cp (acc ++ [c]) _ tail HC HI G1 S1 ltac:(lia)) as (s' & E' & G' & S' & C' & F').
    exists s'. rewrite E', <- app_assoc. splits; auto; congruence.
  - destruct (dialect_escape e c HIn) as (EZ & EU & UN & CZ).
    cbn [app length] in *. destruct fuel as [|fuel]; [lia|].
    destruct (next_cons s 92 _ G HS ltac:(lia)) as (s1 & E1 & G1 & S1 & C1 & F1).
    destruct (current_cons _ e _ G1 S1 EZ) as (s2 & E2 & G2 & S2 & C2 & F2 & _).
    destruct (move_cons _ _ _ G2 C2 S2) as (G3 & S3 & C3 & F3).
    cbn [quoted_loop]. rewrite E1, (eqb_false _ _ Q92).
    change (92 =? 0) with false. change (92 =? 92) with true. cbv iota. rewrite E2.
    rewrite (eqb_false _ _ EZ), (eqb_false _ _ EU), UN, (eqb_false _ _ CZ).
    destruct (IH fuel cp (acc ++ [c]) _ tail HC HI G3 S3 ltac:(lia)) as (s' & E' & G' & S' & C' & F').
    exists s'. rewrite E', <- app_assoc. splits; auto; congruence.
  - cbn [app length] in *. destruct fuel as [|[|fuel]]; [lia|lia|].
    destruct (next_cons s 92 _ G HS ltac:(lia)) as (s1 & E1 & G1 & S1 & C1 & F1).
    destruct (current_cons _ 117 _ G1 S1 ltac:(lia)) as (s2 & E2 & G2 & S2 & C2 & F2 & _).
    destruct (move_cons _ _ _ G2 C2 S2) as (G3 & S3 & C3 & F3).
    cbn [quoted_loop]. rewrite E1, (eqb_false _ _ Q92).
    change (92 =? 0) with false. change (92 =? 92) with true. cbv iota. rewrite E2.
    change (117 =? 0) with false. change (117 =? 117) with true. cbv iota. rewrite DU.
    rewrite (current_some _ _ C2), (eqb_false _ _ Q117).
    change (117 =? 0) with false. change (117 =? 92) with false. cbv iota.
    destruct (IH fuel cp ((acc ++ [92]) ++ [117]) _ tail HC HI G3 S3 ltac:(lia))
      as (s' & E' & G' & S' & C' & F').
    exists s'. rewrite E', <- !app_assoc. splits; auto; congruence.
  - rewrite <- app_assoc in HS. rewrite app_length in L.
    destruct fuel as [|fuel]; [lia|].
    destruct (quoted_step_u_q cf q fuel cp acc s tu u _ DU Q92 G HS UE)
      as (s1 & G1 & S1 & C1 & F1 & U & E).
    rewrite E, (cp_append_bmp cp u U NS). cbn [cp_val].
    rewrite encode_codepoint_correct by lia.
    destruct (uescape_shape _ _ UE) as (x & ->). cbn [length] in L.
    destruct (IH fuel {| hi_sur := hi_sur cp; cp_val := u |} (acc ++ utf8_encode u) s1 tail HC HI G1 S1
                ltac:(lia)) as (s' & E' & G' & S' & C' & F').
    exists s'. rewrite E', <- app_assoc. splits; auto; congruence.
  - rewrite <- app_assoc in HS. rewrite app_length in L.
    destruct fuel as [|fuel]; [lia|].
    destruct (quoted_step_u_q cf q fuel cp acc s tu h _ DU Q92 G HS UE)
      as (s1 & G1 & S1 & C1 & F1 & U & E).
    destruct (high_bits h HR) as [HB1 HB2].
    rewrite E. unfold cp_append. rewrite (range_high h HR).
    destruct (uescape_shape _ _ UE) as (x & ->). cbn [length] in L.
    destruct (IH fuel {| hi_sur := N.land h 0x3FF; cp_val := cp_val cp |} acc s1 tail
                ltac:(cbn [hi_sur]; exact HB1) HB2 G1 S1 ltac:(lia)) as (s' & E' & G' & S' & C' & F').
    exists s'. rewrite E'. splits; auto; congruence.
  - rewrite <- app_assoc in HS. rewrite app_length in L.
    destruct fuel as [|fuel]; [lia|].
    destruct (quoted_step_u_q cf q fuel cp acc s tu l _ DU Q92 G HS UE)
      as (s1 & G1 & S1 & C1 & F1 & U & E).
    assert (NH : is_high_surrogate l = false).
    { unfold is_high_surrogate. apply andb_false_intro2. apply N.ltb_ge. lia. }
    rewrite E. unfold cp_append. rewrite NH, (range_low l LR). cbn [cp_val hi_sur].
    rewrite HC, (low_value hi l HI LR).
    destruct (uescape_shape _ _ UE) as (x & ->). cbn [length] in L.
    match goal with |- context [quoted_loop cf fuel q ?cp' ?acc' s1] =>
      destruct (IH fuel cp' acc' s1 tail ltac:(reflexivity) HI G1 S1 ltac:(lia))
        as (s' & E' & G' & S' & C' & F') end.
    exists s'. rewrite E', <- app_assoc. splits; auto; congruence.
Qed.

Lemma parse_dstring_ok : forall cf t str, dstring cf t str ->
  forall fuel s tail,
    good s -> stream s = t ++ tail -> (length t <= fuel)%nat ->
    exists s', parse_quoted_string cf fuel s = (Ok, str, s') /\
               good s' /\ stream s' = tail /\ cur s' = None /\ found s' = found s.
Proof.
  intros cf t str (q & body & HQ & -> & D & FIT) fuel s tail G HS L.
  rewrite <- !app_assoc in HS. cbn [app] in HS.
  rewrite !app_length in L. cbn [length] in L.
  assert (Q0 : q <> 0) by (destruct HQ; lia).
  destruct (next_cons s q _ G HS Q0) as (s1 & E1 & G1 & S1 & C1 & F1).
  unfold parse_quoted_string. rewrite E1.
  destruct (dchars_fwd cf q HQ 0 body str D fuel cp_init [] _ tail eq_refl ltac:(lia) G1 S1 ltac:(lia))
    as (s' & E' & G' & S' & C' & F').
  exists s'. rewrite E'. cbn [app]. rewrite (cap_string_fits _ _ FIT). splits; auto; congruence.
Qed.

(* ---- keys ---- *)

Lemma nq_nonzero : forall c, can_be_in_non_quoted_string c = true -> c <> 0.
Proof. intros c H ->. discriminate H. Qed.

Lemma nq_not_quote : forall c, can_be_in_non_quoted_string c = true -> is_quote c = false.
Proof.
  intros c H. unfold is_quote.
  destruct (N.eqb_spec c 39) as [->|_]; [discriminate H|].
  destruct (N.eqb_spec c 34) as [->|_]; [discriminate H|]. reflexivity.
Qed.

Lemma non_quoted_loop_fwd : forall k, Forall (fun c => can_be_in_non_quoted_string c = true) k ->
  forall fuel acc c s x r,
    good s -> cur s = Some c -> stream s = c :: k ++ x :: r ->
    x <> 0 -> can_be_in_non_quoted_string x = false -> (length k < fuel)%nat ->
    exists s', non_quoted_loop fuel acc c s = (Ok, acc ++ c :: k, s') /\
               good s' /\ stream s' = x :: r /\ cur s' = Some x /\ found s' = found s.
Proof.
  induction k as [|c' k IH]; intros FA fuel acc c s x r G C HS XZ XN L.
  - cbn [app length] in *. destruct fuel as [|fuel]; [lia|].
    destruct (move_cons s c _ G C HS) as (G1 & S1 & C1 & F1).
    destruct (current_cons _ x _ G1 S1 XZ) as (s2 & E2 & G2 & S2 & C2 & F2 & _).
    exists s2. cbn [non_quoted_loop]. rewrite E2, XN. splits; auto; congruence.
  - inversion FA as [|? ? K FA']; subst. cbn [app length] in *.
    destruct fuel as [|fuel]; [lia|].
    destruct (move_cons s c _ G C HS) as (G1 & S1 & C1 & F1).
    destruct (current_cons _ c' _ G1 S1 (nq_nonzero _ K)) as (s2 & E2 & G2 & S2 & C2 & F2 & _).
    cbn [non_quoted_loop]. rewrite E2, K.
    destruct (IH FA' fuel (acc ++ [c]) c' s2 x r G2 C2 S2 XZ XN ltac:(lia))
      as (s' & E' & G' & S' & C' & F').
    exists s'. rewrite E', <- app_assoc. splits; auto; congruence.
Qed.

Lemma parse_dkey_ok : forall cf kt k, dkey cf kt k ->
  forall fuel s x r,
    good s -> stream s = kt ++ x :: r ->
    x <> 0 -> can_be_in_non_quoted_string x = false -> (length kt <= fuel)%nat ->
    exists s', parse_key cf fuel s = (Ok, k, s') /\ good s' /\ stream s' = x :: r /\
               found s' = found s.
Proof.
  intros cf kt k [DS|(NE & FA & -> & FIT)] fuel s x r G HS XZ XN L.
  - pose proof DS as (q & body & HQ & Et & _).
    assert (Q0 : q <> 0) by (destruct HQ; lia).
    assert (S2 : stream s = q :: (body ++ [q]) ++ x :: r) by (rewrite HS, Et; reflexivity).
    destruct (current_cons s q _ G S2 Q0) as (s1 & E1 & G1 & S1 & C1 & F1 & _).
    unfold parse_key. rewrite E1.
    assert (IQ : is_quote q = true) by (destruct HQ; subst; reflexivity). rewrite IQ.
    assert (S3 : stream s1 = kt ++ x :: r) by (rewrite S1, Et; reflexivity).
    destruct (parse_dstring_ok cf kt k DS fuel s1 _ G1 S3 L) as (s' & E' & G' & S' & C' & F').
    exists s'. splits; auto; congruence.
  - destruct kt as [|c k]; [congruence|]. inversion FA as [|? ? K FA']; subst.
    cbn [app length] in *.
    destruct (current_cons s c _ G HS (nq_nonzero _ K)) as (s1 & E1 & G1 & S1 & C1 & F1 & _).
    unfold parse_key. rewrite E1, (nq_not_quote _ K).
    unfold parse_non_quoted_string. rewrite (current_some _ _ C1), K.
    destruct (non_quoted_loop_fwd k FA' fuel [] c s1 x r G1 C1 S1 XZ XN ltac:(lia))
      as (s' & E' & G' & S' & C' & F').
    exists s'. cbn [app] in E'. rewrite E', (cap_string_fits _ _ FIT). splits; auto; congruence.
Qed.

(* ---- numbers ---- *)

Lemma parse_dnumber_ok : forall cf t v rest s,
  dnumber cf t v ->
  good s -> stream s = t ++ rest -> delimiter cf rest ->
  exists s', parse_numeric_value cf s = (Ok, v, s') /\ post s' rest /\ found s' = found s /\
             lastc s' = hd 0 rest.
Proof.
  intros cf t v rest s (_ & Len & FA & _ & _ & _ & Den) G S D.
  destruct (scan_number_all cf t FA 63 [] s rest G S Len) as (s1 & E1 & G1 & S1 & F1).
  destruct (peek s1 rest G1 S1) as (s2 & E2 & F2 & P2 & L2 & C2).
  unfold parse_numeric_value. rewrite E1. cbn [app].
  destruct (Nat.eqb (length t) 63) eqn:E63.
  - apply Nat.eqb_eq in E63. rewrite E63. cbn [Nat.sub scan_number].
    rewrite E63. cbn [Nat.eqb]. rewrite E2. cbn [snd]. rewrite Den.
    exists s2. splits; auto. congruence.
  - apply Nat.eqb_neq in E63.
    destruct (63 - length t)%nat as [|k] eqn:EK; [lia|].
    cbn [scan_number]. rewrite E2.
    assert (X : can_be_in_number cf (hd 0 rest) = false).
    { destruct rest as [|b r]; [apply not_numchar; auto|exact D]. }
    rewrite X. apply Nat.eqb_neq in E63. rewrite E63. rewrite Den.
    exists s2. splits; auto. congruence.
Qed.

Lemma numchar_not_struct : forall cf c, can_be_in_number cf c = true ->
  c <> 91 /\ c <> 123 /\ c <> 34 /\ c <> 39 /\ c <> 47 /\ c <> 58.
Proof.
  intros cf c H. unfold can_be_in_number in H.
  repeat split; intros ->; destruct (enable_nan cf || enable_inf cf); discriminate H.
Qed.

(* ---- first byte of a value, of a key ---- *)

Definition dvs (c : N) : Prop := c <> 0 /\ is_space c = false /\ c <> 47 /\ c <> 93 /\ c <> 125.

Lemma numchar_dvs : forall cf c, can_be_in_number cf c = true -> dvs c.
Proof.
  intros cf c H. destruct (numchar_not_struct cf c H) as (_ & _ & _ & _ & A & _).
  unfold dvs. split; [eapply numchar_nonzero; eassumption|].
  split.
  { destruct (is_space c) eqn:SP; [|reflexivity].
    rewrite (not_numchar cf c) in H by auto. discriminate H. }
  split; [exact A|].
  split; intros ->; rewrite (not_numchar cf) in H by auto; discriminate H.
Qed.

Lemma dvalue_head : forall cf d t v, dvalue cf d t v -> exists c r, t = c :: r /\ dvs c.
Proof.
  intros cf d t v H.
  destruct H as [d|d|d|d t v N|d t s (q & body & HQ & -> & _)|d w _|d t vs _|d w _|d t ms _];
    try (eexists _, _; split; [reflexivity|unfold dvs; splits; try reflexivity; lia]).
  - destruct N as (NE & _ & FA & _). destruct t as [|c r]; [congruence|].
    inversion FA; subst. exists c, r. split; [reflexivity|]. eapply numchar_dvs; eassumption.
  - exists q. eexists. split; [reflexivity|].
    destruct HQ as [-> | ->]; unfold dvs; splits; try reflexivity; lia.
Qed.

Lemma delements_head : forall cf d t vs, delements cf d t vs ->
  exists w c r, dws cf w /\ t = w ++ c :: r /\ dvs c.
Proof.
  intros cf d t vs H.
  destruct H as [d w1 t v w2 W1 J W2|d w1 t v w2 r vs W1 J W2 _];
    destruct (dvalue_head _ _ _ _ J) as (c & r' & -> & Hc);
    exists w1, c; eexists; (split; [exact W1|split; [|exact Hc]]); cbn [app]; reflexivity.
Qed.

Lemma nq_dvs : forall c, can_be_in_non_quoted_string c = true -> dvs c.
Proof.
  intros c H. unfold dvs. split; [apply nq_nonzero; exact H|].
  split.
  { unfold is_space.
    destruct (N.eqb_spec c 32) as [->|_]; [discriminate H|].
    destruct (N.eqb_spec c 9) as [->|_]; [discriminate H|].
    destruct (N.eqb_spec c 13) as [->|_]; [discriminate H|].
    destruct (N.eqb_spec c 10) as [->|_]; [discriminate H|]. reflexivity. }
  repeat split; intros ->; discriminate H.
Qed.

Lemma dkey_head : forall cf kt k, dkey cf kt k -> exists c r, kt = c :: r /\ dvs c.
Proof.
  intros cf kt k [(q & body & HQ & -> & _)|(NE & FA & _)].
  - exists q. eexists. split; [reflexivity|].
    destruct HQ as [-> | ->]; unfold dvs; splits; try reflexivity; lia.
  - destruct kt as [|c r]; [congruence|]. inversion FA; subst.
    exists c, r. split; [reflexivity|]. apply nq_dvs. assumption.
Qed.

Lemma dmembers_head : forall cf d t ms, dmembers cf d t ms ->
  exists w c r, dws cf w /\ t = w ++ c :: r /\ dvs c.
Proof.
  intros cf d t ms H.
  destruct H as [d w1 kt k w2 w3 t v w4 W1 K _ _ _ _|d w1 kt k w2 w3 t v w4 r ms W1 K _ _ _ _ _];
    destruct (dkey_head _ _ _ K) as (c & r' & -> & Hc);
    exists w1, c; eexists; (split; [exact W1|split; [|exact Hc]]); cbn [app]; reflexivity.
Qed.

(* ---- what follows a value or a key ---- *)

Lemma numchar_47 : forall cf, can_be_in_number cf 47 = false.
Proof. intro cf. unfold can_be_in_number. destruct (enable_nan cf || enable_inf cf); reflexivity. Qed.

Lemma dws_next : forall cf w c r, dws cf w -> c = 44 \/ c = 93 \/ c = 125 \/ c = 58 ->
  exists b r', w ++ c :: r = b :: r' /\ b <> 0 /\ can_be_in_number cf b = false /\
               can_be_in_non_quoted_string b = false.
Proof.
  intros cf w c r W HC. destruct W as [|b w Hb W|b w _ _ _ _|b w _ _ _].
  - exists c, r. split; [reflexivity|].
    destruct HC as [->|[->|[->| ->]]]; (split; [lia|]); split; try reflexivity;
      unfold can_be_in_number; destruct (enable_nan cf || enable_inf cf); reflexivity.
  - exists b, (w ++ c :: r). split; [reflexivity|].
    split; [intros ->; discriminate Hb|]. split; [apply not_numchar; auto|].
    destruct (can_be_in_non_quoted_string b) eqn:K; [|reflexivity].
    destruct (nq_dvs b K) as (_ & X & _). congruence.
  - eexists 47, _. split; [reflexivity|]. split; [lia|]. split; [apply numchar_47|reflexivity].
  - eexists 47, _. split; [reflexivity|]. split; [lia|]. split; [apply numchar_47|reflexivity].
Qed.

Lemma delimiter_dws_then : forall cf w c r, dws cf w -> c = 44 \/ c = 93 \/ c = 125 ->
  delimiter cf (w ++ c :: r).
Proof.
  intros cf w c r W HC.
  destruct (dws_next cf w c r W ltac:(tauto)) as (b & r' & -> & _ & X & _). exact X.
Qed.

Lemma post_dws_good : forall cf s' w c r, post s' (w ++ c :: r) -> dws cf w ->
  c = 44 \/ c = 93 \/ c = 125 -> good s' /\ stream s' = w ++ c :: r.
Proof.
  intros cf s' w c r P W HC.
  destruct (dws_next cf w c r W ltac:(tauto)) as (b & r' & E & BZ & _). rewrite E in *.
  destruct P as [P|[_ [P|[r0 P]]]]; [exact P|discriminate P|].
  injection P as P _. contradiction.
Qed.

(* ---- parse_variant, by kind of first byte ---- *)

Lemma dpv_enter : forall cf w fuel s c r,
  dws cf w -> good s -> stream s = w ++ c :: r -> dvs c -> (length w < fuel)%nat ->
  exists s1, skip_spaces cf fuel s = (Ok, s1) /\ good s1 /\ stream s1 = c :: r /\
             cur s1 = Some c /\ found s1 = true.
Proof.
  intros cf w fuel s c r W G S (A & B & C & _) L.
  destruct (skip_dws cf w W fuel s c r G S A B (fun _ => C) L) as (s1 & E & G1 & S1 & C1 & F1 & _).
  exists s1. auto.
Qed.

Lemma pv_num_d : forall cf fuel L s s1 c,
  skip_spaces cf fuel s = (Ok, s1) -> cur s1 = Some c ->
  can_be_in_number cf c = true -> c <> 116 -> c <> 102 -> c <> 110 ->
  parse_variant cf fuel L None s = parse_numeric_value cf s1.
Proof.
  intros cf fuel L s s1 c E C K N1 N2 N3.
  destruct (numchar_not_struct cf c K) as (A1 & A2 & A3 & A4 & _).
  destruct L; cbn [parse_variant]; rewrite E, (current_some _ _ C); unfold is_quote;
    rewrite !(eqb_false c) by assumption; reflexivity.
Qed.

Lemma pv_str_q : forall cf fuel L s s1 q, (q = 34 \/ q = 39) ->
  skip_spaces cf fuel s = (Ok, s1) -> cur s1 = Some q ->
  parse_variant cf fuel L None s =
    match parse_quoted_string cf fuel s1 with
    | (Ok, str, s) => (Ok, JStr str, s)
    | (e, _, s) => (e, JNull, s)
    end.
Proof.
  intros cf fuel L s s1 q HQ E C.
  destruct HQ; subst q; destruct L; cbn [parse_variant]; rewrite E, (current_some _ _ C); reflexivity.
Qed.

Lemma d_pv_skip_eq : forall cf fuel L f s s1 c,
  skip_spaces cf fuel s = (Ok, s1) -> cur s1 = Some c -> found s1 = true -> dvs c ->
  parse_variant cf fuel L f s1 = parse_variant cf fuel L f s.
Proof.
  intros cf fuel L f s s1 c E C F (A & B & D & _).
  destruct fuel as [|fuel]; [discriminate E|].
  destruct L; cbn [parse_variant]; rewrite E, (skip_fix cf fuel s1 c C F A B D); reflexivity.
Qed.

Lemma d_array_loop_skip : forall cf fuel L sv fl acc s s1 c,
  skip_spaces cf fuel s = (Ok, s1) -> cur s1 = Some c -> found s1 = true -> dvs c ->
  array_loop cf (parse_variant cf fuel L) sv (S fl) None acc s1 =
  array_loop cf (parse_variant cf fuel L) sv (S fl) None acc s.
Proof.
  intros cf fuel L sv fl acc s s1 c E C F V. cbn [array_loop f_allow].
  rewrite (d_pv_skip_eq cf fuel L None s s1 c E C F V). reflexivity.
Qed.

(* ---- the statements proved by mutual induction on the derivation ---- *)

Definition dPv (cf : cfg) (d : nat) (t : bytes) (v : jv) : Prop :=
  forall L fuel s w rest,
    dws cf w -> (d <= L)%nat -> good s -> stream s = w ++ t ++ rest ->
    (is_number v = true -> delimiter cf rest) ->
    (length (w ++ t ++ rest) < fuel)%nat ->
    exists s', parse_variant cf fuel L None s = (Ok, v, s') /\ post s' rest /\ found s' = true /\
               (is_number v = true -> lastc s' = hd 0 rest).

Definition dPe (cf : cfg) (d : nat) (t : bytes) (vs : list jv) : Prop :=
  forall L fuel fl s rest acc,
    (d <= L)%nat -> good s -> stream s = t ++ 93 :: rest ->
    (length (t ++ 93%N :: rest) < fuel)%nat -> (length (t ++ 93%N :: rest) < fl)%nat ->
    exists s', array_loop cf (parse_variant cf fuel L) (skip_variant cf fuel L) fl None acc s
                 = (Ok, JArr (acc ++ vs), s') /\
               good s' /\ stream s' = rest /\ cur s' = None /\ found s' = true.

Definition dPm (cf : cfg) (d : nat) (t : bytes) (ms : list (bytes * jv)) : Prop :=
  forall L fuel fl s rest acc,
    (d <= L)%nat -> good s -> stream s = t ++ 125 :: rest ->
    (length (t ++ 125%N :: rest) < fuel)%nat -> (length (t ++ 125%N :: rest) < fl)%nat ->
    exists s', obj_entry cf (parse_variant cf fuel L) (skip_variant cf fuel L) fl None acc s
                 = (Ok, JObj (obj_den ms acc), s') /\
               good s' /\ stream s' = rest /\ cur s' = None /\ found s' = true.

(* scalars *)

Lemma d_case_keyword : forall cf d kw v k0 kr,
  kw = k0 :: kr -> dvs k0 -> Forall (fun c => c <> 0) kw -> is_number v = false ->
  (forall fuel L s s1, skip_spaces cf fuel s = (Ok, s1) -> cur s1 = Some k0 ->
     parse_variant cf fuel L None s = (let '(e, s) := skip_keyword kw s1 in (e, v, s))) ->
  dPv cf d kw v.
Proof.
  intros cf d kw v k0 kr -> V FA NN U L fuel s w rest W DL G S D LF.
  cbn [app] in S.
  destruct (dpv_enter cf w fuel s k0 _ W G S V ltac:(lens)) as (s1 & E1 & G1 & S1 & C1 & F1).
  rewrite (U fuel L s s1 E1 C1).
  destruct (skip_keyword_ok (k0 :: kr) s1 rest FA G1 S1) as (s' & E' & G' & S' & F').
  rewrite E'. exists s'. splits; auto.
  - left. auto.
  - congruence.
  - rewrite NN. discriminate.
Qed.

Lemma d_case_null : forall cf d, dPv cf d [110; 117; 108; 108] JNull.
Proof.
  intros cf d. apply (d_case_keyword cf d kw_null JNull 110 [117; 108; 108]); try reflexivity.
  - unfold dvs; splits; try reflexivity; lia.
  - apply nz_list. reflexivity.
  - intros. apply pv_null; assumption.
Qed.

Lemma d_case_true : forall cf d, dPv cf d [116; 114; 117; 101] (JBool true).
Proof.
  intros cf d. apply (d_case_keyword cf d kw_true (JBool true) 116 [114; 117; 101]); try reflexivity.
  - unfold dvs; splits; try reflexivity; lia.
  - apply nz_list. reflexivity.
  - intros. apply pv_true; assumption.
Qed.

Lemma d_case_false : forall cf d, dPv cf d [102; 97; 108; 115; 101] (JBool false).
Proof.
  intros cf d. apply (d_case_keyword cf d kw_false (JBool false) 102 [97; 108; 115; 101]); try reflexivity.
  - unfold dvs; splits; try reflexivity; lia.
  - apply nz_list. reflexivity.
  - intros. apply pv_false; assumption.
Qed.

Lemma d_case_num : forall cf d t v, dnumber cf t v -> dPv cf d t v.
Proof.
  intros cf d t v N L fuel s w rest W DL G S D LF.
  pose proof N as (NE & _ & FA & H1 & H2 & H3 & JV).
  destruct t as [|c r]; [congruence|]. cbn [hd] in H1, H2, H3.
  inversion FA as [|? ? K _]; subst.
  assert (S0 : stream s = w ++ c :: (r ++ rest)) by (rewrite S; reflexivity).
  destruct (dpv_enter cf w fuel s c _ W G S0 (numchar_dvs cf c K) ltac:(lens))
    as (s1 & E1 & G1 & S1 & C1 & F1).
  rewrite (pv_num_d cf fuel L s s1 c E1 C1 K H1 H2 H3).
  assert (S2 : stream s1 = (c :: r) ++ rest) by (rewrite S1; reflexivity).
  destruct (parse_dnumber_ok cf (c :: r) v rest s1 N G1 S2
              (D (jv_of_number_is_number _ _ _ JV))) as (s' & E' & P' & F' & L').
  exists s'. splits; auto. congruence.
Qed.

Lemma d_case_str : forall cf d t str, dstring cf t str -> dPv cf d t (JStr str).
Proof.
  intros cf d t str J L fuel s w rest W DL G S D LF.
  pose proof J as (q & body & HQ & Et & _).
  assert (S0 : stream s = w ++ q :: ((body ++ [q]) ++ rest)) by (rewrite S, Et; reflexivity).
  assert (V : dvs q) by (destruct HQ as [-> | ->]; unfold dvs; splits; try reflexivity; lia).
  destruct (dpv_enter cf w fuel s q _ W G S0 V ltac:(lens)) as (s1 & E1 & G1 & S1 & C1 & F1).
  rewrite (pv_str_q cf fuel L s s1 q HQ E1 C1).
  assert (S2 : stream s1 = t ++ rest) by (rewrite S1, Et; reflexivity).
  destruct (parse_dstring_ok cf t str J fuel s1 rest G1 S2 ltac:(lens)) as (s' & E' & G' & S' & C' & F').
  rewrite E'. exists s'. splits; auto.
  - left. auto.
  - congruence.
  - discriminate.
Qed.

(* arrays *)

Lemma d_case_arr_empty : forall cf d w0, dws cf w0 -> dPv cf (S d) ([91] ++ w0 ++ [93]) (JArr []).
Proof.
  intros cf d w0 W0 L fuel s w rest W DL G S D LF.
  destruct L as [|L]; [lia|].
  rewrite <- !app_assoc in S. cbn [app] in S.
  assert (V : dvs 91) by (unfold dvs; splits; try reflexivity; lia).
  destruct (dpv_enter cf w fuel s 91 _ W G S V ltac:(lens)) as (s1 & E1 & G1 & S1 & C1 & F1).
  rewrite (pv_arr cf fuel L s s1 E1 C1).
  destruct (move_cons s1 91 _ G1 C1 S1) as (G2 & S2 & C2 & F2).
  destruct (skip_dws cf w0 W0 fuel (move s1) 93 rest G2 S2 ltac:(lia) eq_refl ltac:(lia) ltac:(lens))
    as (s3 & E3 & G3 & S3 & C3 & F3 & _).
  rewrite E3. cbv beta iota.
  destruct (eat_yes s3 93 rest G3 S3 ltac:(lia)) as (s4 & E4 & G4 & S4 & C4 & F4).
  rewrite E4. exists s4. splits; auto.
  - left; auto.
  - congruence.
  - discriminate.
Qed.

Lemma d_element_step : forall cf d t v, dPv cf d t v ->
  forall w1 w2 c tl L fuel fl acc s,
    dws cf w1 -> dws cf w2 -> c = 44 \/ c = 93 -> (d <= L)%nat ->
    good s -> stream s = w1 ++ t ++ w2 ++ c :: tl ->
    (length (w1 ++ t ++ w2 ++ c :: tl) < fuel)%nat ->
    (length (w1 ++ t ++ w2 ++ c :: tl) < S fl)%nat ->
    exists s2, good s2 /\ stream s2 = c :: tl /\ cur s2 = Some c /\ found s2 = true /\
      array_loop cf (parse_variant cf fuel L) (skip_variant cf fuel L) (S fl) None acc s =
      (let '(b, s) := eat 93 s2 in
       if b then (Ok, JArr (acc ++ [v]), s)
       else
         let '(b, s) := eat 44 s in
         if b then array_loop cf (parse_variant cf fuel L) (skip_variant cf fuel L) fl None (acc ++ [v]) s
         else (InvalidInput, JArr (acc ++ [v]), s)).
Proof.
  intros cf d t v IH w1 w2 c tl L fuel fl acc s W1 W2 HC DL G S LF LL.
  assert (HC' : c = 44 \/ c = 93 \/ c = 125) by tauto.
  assert (CZ : c <> 0) by (destruct HC; lia).
  assert (CS : is_space c = false) by (destruct HC as [->| ->]; reflexivity).
  assert (C47 : c <> 47) by (destruct HC; lia).
  destruct (IH L fuel s w1 (w2 ++ c :: tl) W1 DL G S (fun _ => delimiter_dws_then cf w2 c tl W2 HC') LF)
    as (s1 & E1 & P1 & F1 & _).
  destruct (post_dws_good cf s1 w2 c tl P1 W2 HC') as (G1 & S1).
  destruct (skip_dws cf w2 W2 fl s1 c tl G1 S1 CZ CS (fun _ => C47) ltac:(lens))
    as (s2 & E2 & G2 & S2 & C2 & F2 & _).
  exists s2. splits; auto.
  cbn [array_loop f_allow]. rewrite E1. cbv beta iota. rewrite E2. reflexivity.
Qed.

Lemma d_case_e_one : forall cf d w1 t v w2,
  dws cf w1 -> dPv cf d t v -> dws cf w2 -> dPe cf d (w1 ++ t ++ w2) [v].
Proof.
  intros cf d w1 t v w2 W1 IH W2 L fuel fl s rest acc DL G S LF LL.
  rewrite <- !app_assoc in S, LF, LL.
  destruct fl as [|fl]; [lia|].
  destruct (d_element_step cf d t v IH w1 w2 93 rest L fuel fl acc s W1 W2 ltac:(tauto) DL G S LF LL)
    as (s2 & G2 & S2 & C2 & F2 & E).
  rewrite E.
  destruct (eat_yes s2 93 rest G2 S2 ltac:(lia)) as (s3 & E3 & G3 & S3 & C3 & F3).
  rewrite E3. exists s3. splits; auto. congruence.
Qed.

Lemma d_case_e_cons : forall cf d w1 t v w2 r vs,
  dws cf w1 -> dPv cf d t v -> dws cf w2 -> dPe cf d r vs ->
  dPe cf d (w1 ++ t ++ w2 ++ [44] ++ r) (v :: vs).
Proof.
  intros cf d w1 t v w2 r vs W1 IHv W2 IHr L fuel fl s rest acc DL G S LF LL.
  rewrite <- !app_assoc in S, LF, LL. cbn [app] in S, LF, LL.
  destruct fl as [|fl]; [lia|].
  destruct (d_element_step cf d t v IHv w1 w2 44 (r ++ 93 :: rest) L fuel fl acc s W1 W2 ltac:(tauto) DL G S LF LL)
    as (s2 & G2 & S2 & C2 & F2 & E).
  rewrite E.
  rewrite (eat_no_some s2 44 93 C2 ltac:(lia)).
  destruct (eat_yes s2 44 _ G2 S2 ltac:(lia)) as (s3 & E3 & G3 & S3 & C3 & F3).
  rewrite E3.
  destruct (IHr L fuel fl s3 rest (acc ++ [v]) DL G3 S3 ltac:(lens) ltac:(lens))
    as (s' & E' & G' & S' & C' & F').
  exists s'. rewrite E', <- app_assoc. cbn [app]. splits; auto.
Qed.

Lemma d_case_arr : forall cf d te vs,
  delements cf d te vs -> dPe cf d te vs -> dPv cf (S d) ([91] ++ te ++ [93]) (JArr vs).
Proof.
  intros cf d te vs J IH L fuel s w rest W DL G HS D LF.
  destruct L as [|L]; [lia|].
  destruct fuel as [|fuel0]; [lia|].
  rewrite <- !app_assoc in HS. cbn [app] in HS.
  assert (V : dvs 91) by (unfold dvs; splits; try reflexivity; lia).
  destruct (dpv_enter cf w (S fuel0) s 91 _ W G HS V ltac:(lens)) as (s1 & E1 & G1 & S1 & C1 & F1).
  rewrite (pv_arr cf (S fuel0) L s s1 E1 C1).
  destruct (move_cons s1 91 _ G1 C1 S1) as (G2 & S2 & C2 & F2).
  destruct (delements_head _ _ _ _ J) as (w1 & c & r & W1 & Ete & Vc).
  assert (S2' : stream (move s1) = w1 ++ c :: (r ++ 93 :: rest))
    by (rewrite S2, Ete, <- app_assoc; reflexivity).
  assert (LW : (length w1 < S fuel0)%nat) by (rewrite Ete in LF; lens).
  destruct (dpv_enter cf w1 (S fuel0) (move s1) c _ W1 G2 S2' Vc LW) as (s3 & E3 & G3 & S3 & C3 & F3).
  rewrite E3. cbv beta iota.
  destruct Vc as (VA & VB & VC & N93 & VD).
  rewrite (eat_no_some s3 c 93 C3 N93). cbv beta iota.
  rewrite (d_array_loop_skip cf (S fuel0) L _ fuel0 [] (move s1) s3 c E3 C3 F3
             (conj VA (conj VB (conj VC (conj N93 VD))))).
  destruct (IH L (S fuel0) (S fuel0) (move s1) rest [] ltac:(lia) G2 S2 ltac:(lens) ltac:(lens))
    as (s' & E' & G' & S' & C' & F').
  rewrite E'. exists s'. cbn [app]. splits; auto.
  - left; auto.
  - discriminate.
Qed.

(* objects *)

Lemma d_case_obj_empty : forall cf d w0, dws cf w0 -> dPv cf (S d) ([123] ++ w0 ++ [125]) (JObj []).
Proof.
  intros cf d w0 W0 L fuel s w rest W DL G HS D LF.
  destruct L as [|L]; [lia|].
  rewrite <- !app_assoc in HS. cbn [app] in HS.
  assert (V : dvs 123) by (unfold dvs; splits; try reflexivity; lia).
  destruct (dpv_enter cf w fuel s 123 _ W G HS V ltac:(lens)) as (s1 & E1 & G1 & S1 & C1 & F1).
  rewrite (pv_obj cf fuel L s s1 E1 C1).
  destruct (move_cons s1 123 _ G1 C1 S1) as (G2 & S2 & C2 & F2).
  destruct (skip_dws cf w0 W0 fuel (move s1) 125 rest G2 S2 ltac:(lia) eq_refl ltac:(lia) ltac:(lens))
    as (s3 & E3 & G3 & S3 & C3 & F3 & _).
  rewrite E3. cbv beta iota.
  destruct (eat_yes s3 125 rest G3 S3 ltac:(lia)) as (s4 & E4 & G4 & S4 & C4 & F4).
  rewrite E4. exists s4. splits; auto.
  - left; auto.
  - congruence.
  - discriminate.
Qed.

Lemma d_member_step : forall cf d t v, dPv cf d t v ->
  forall w1 kt k w2 w3 w4 c tl L fuel fl acc s,
    dws cf w1 -> dkey cf kt k -> dws cf w2 -> dws cf w3 -> dws cf w4 -> c = 44 \/ c = 125 ->
    (d <= L)%nat ->
    good s -> stream s = w1 ++ kt ++ w2 ++ 58 :: w3 ++ t ++ w4 ++ c :: tl ->
    (length (w1 ++ kt ++ w2 ++ 58%N :: w3 ++ t ++ w4 ++ c :: tl) < fuel)%nat ->
    (length (w1 ++ kt ++ w2 ++ 58%N :: w3 ++ t ++ w4 ++ c :: tl) < S fl)%nat ->
    exists s6, good s6 /\ stream s6 = c :: tl /\ cur s6 = Some c /\ found s6 = true /\
      obj_entry cf (parse_variant cf fuel L) (skip_variant cf fuel L) (S fl) None acc s =
      (let '(b, s) := eat 125 s6 in
       if b then (Ok, JObj (assoc_set k v acc), s)
       else
         let '(b, s) := eat 44 s in
         if negb b then (InvalidInput, JObj (assoc_set k v acc), s)
         else obj_entry cf (parse_variant cf fuel L) (skip_variant cf fuel L) fl None
                        (assoc_set k v acc) s).
Proof.
  intros cf d t v IH w1 kt k w2 w3 w4 c tl L fuel fl acc s W1 JK W2 W3 W4 HC DL G HS LF LL.
  assert (HC' : c = 44 \/ c = 93 \/ c = 125) by tauto.
  assert (CZ : c <> 0) by (destruct HC; lia).
  assert (CS : is_space c = false) by (destruct HC as [->| ->]; reflexivity).
  assert (C47 : c <> 47) by (destruct HC; lia).
  destruct (dkey_head cf kt k JK) as (kc & kr & Ek & (KA & KB & KC & _)).
  assert (S0 : stream s = w1 ++ kc :: (kr ++ w2 ++ 58 :: w3 ++ t ++ w4 ++ c :: tl))
    by (rewrite HS, Ek; reflexivity).
  destruct (skip_dws cf w1 W1 (S fl) s kc _ G S0 KA KB (fun _ => KC) ltac:(lens))
    as (s1 & E1 & G1 & S1 & C1 & F1 & _).
  destruct (dws_next cf w2 58 (w3 ++ t ++ w4 ++ c :: tl) W2 ltac:(tauto)) as (x & r' & EX & XZ & _ & XN).
  assert (S1' : stream s1 = kt ++ x :: r') by (rewrite S1, Ek, <- EX; reflexivity).
  destruct (parse_dkey_ok cf kt k JK fl s1 x r' G1 S1' XZ XN ltac:(lens)) as (s2 & E2 & G2 & S2 & F2).
  rewrite <- EX in S2.
  destruct (skip_dws cf w2 W2 fl s2 58 _ G2 S2 ltac:(lia) eq_refl ltac:(lia) ltac:(lens))
    as (s3 & E3 & G3 & S3 & C3 & F3 & _).
  destruct (eat_yes s3 58 _ G3 S3 ltac:(lia)) as (s4 & E4 & G4 & S4 & C4 & F4).
  destruct (IH L fuel s4 w3 (w4 ++ c :: tl) W3 DL G4 S4
              (fun _ => delimiter_dws_then cf w4 c tl W4 HC') ltac:(lens))
    as (s5 & E5 & P5 & F5 & _).
  destruct (post_dws_good cf s5 w4 c tl P5 W4 HC') as (G5 & S5).
  destruct (skip_dws cf w4 W4 fl s5 c tl G5 S5 CZ CS (fun _ => C47) ltac:(lens))
    as (s6 & E6 & G6 & S6 & C6 & F6 & _).
  exists s6. splits; auto.
  unfold obj_entry at 1. rewrite E1. cbn [object_loop]. rewrite E2. cbv beta iota.
  rewrite E3. cbv beta iota. rewrite E4. cbv beta iota zeta. cbn [negb f_member f_allow].
  rewrite E5. cbv beta iota. rewrite E6. reflexivity.
Qed.

Lemma d_case_m_one : forall cf d w1 kt k w2 w3 t v w4,
  dws cf w1 -> dkey cf kt k -> dws cf w2 -> dws cf w3 -> dPv cf d t v -> dws cf w4 ->
  dPm cf d (w1 ++ kt ++ w2 ++ [58] ++ w3 ++ t ++ w4) [(k, v)].
Proof.
  intros cf d w1 kt k w2 w3 t v w4 W1 JK W2 W3 IH W4 L fuel fl s rest acc DL G HS LF LL.
  rewrite <- !app_assoc in HS, LF, LL. cbn [app] in HS, LF, LL.
  destruct fl as [|fl]; [lia|].
  destruct (d_member_step cf d t v IH w1 kt k w2 w3 w4 125 rest L fuel fl acc s
              W1 JK W2 W3 W4 ltac:(tauto) DL G HS LF LL) as (s6 & G6 & S6 & C6 & F6 & E).
  rewrite E.
  destruct (eat_yes s6 125 rest G6 S6 ltac:(lia)) as (s7 & E7 & G7 & S7 & C7 & F7).
  rewrite E7. exists s7. unfold obj_den. cbn [fold_left fst snd]. splits; auto. congruence.
Qed.

Lemma d_case_m_cons : forall cf d w1 kt k w2 w3 t v w4 r ms,
  dws cf w1 -> dkey cf kt k -> dws cf w2 -> dws cf w3 -> dPv cf d t v -> dws cf w4 ->
  dPm cf d r ms ->
  dPm cf d (w1 ++ kt ++ w2 ++ [58] ++ w3 ++ t ++ w4 ++ [44] ++ r) ((k, v) :: ms).
Proof.
  intros cf d w1 kt k w2 w3 t v w4 r ms W1 JK W2 W3 IHv W4 IHr L fuel fl s rest acc DL G HS LF LL.
  rewrite <- !app_assoc in HS, LF, LL. cbn [app] in HS, LF, LL.
  destruct fl as [|fl]; [lia|].
  destruct (d_member_step cf d t v IHv w1 kt k w2 w3 w4 44 (r ++ 125 :: rest) L fuel fl acc s
              W1 JK W2 W3 W4 ltac:(tauto) DL G HS LF LL) as (s6 & G6 & S6 & C6 & F6 & E).
  rewrite E.
  rewrite (eat_no_some s6 44 125 C6 ltac:(lia)).
  destruct (eat_yes s6 44 _ G6 S6 ltac:(lia)) as (s7 & E7 & G7 & S7 & C7 & F7).
  rewrite E7. cbn [negb].
  destruct (IHr L fuel fl s7 rest (assoc_set k v acc) DL G7 S7 ltac:(lens) ltac:(lens))
    as (s' & E' & G' & S' & C' & F').
  exists s'. splits; auto.
Qed.

Lemma d_case_obj : forall cf d te ms,
  dmembers cf d te ms -> dPm cf d te ms ->
  dPv cf (S d) ([123] ++ te ++ [125])
      (JObj (fold_left (fun acc m => assoc_set (fst m) (snd m) acc) ms [])).
Proof.
  intros cf d te ms J IH L fuel s w rest W DL G HS D LF.
  destruct L as [|L]; [lia|].
  rewrite <- !app_assoc in HS. cbn [app] in HS.
  assert (V : dvs 123) by (unfold dvs; splits; try reflexivity; lia).
  destruct (dpv_enter cf w fuel s 123 _ W G HS V ltac:(lens)) as (s1 & E1 & G1 & S1 & C1 & F1).
  rewrite (pv_obj cf fuel L s s1 E1 C1).
  destruct (move_cons s1 123 _ G1 C1 S1) as (G2 & S2 & C2 & F2).
  destruct (dmembers_head _ _ _ _ J) as (w1 & c & r & W1 & Ete & Vc).
  assert (S2' : stream (move s1) = w1 ++ c :: (r ++ 125 :: rest))
    by (rewrite S2, Ete, <- app_assoc; reflexivity).
  assert (LW : (length w1 < fuel)%nat) by (rewrite Ete in LF; lens).
  destruct (dpv_enter cf w1 fuel (move s1) c _ W1 G2 S2' Vc LW) as (s3 & E3 & G3 & S3 & C3 & F3).
  rewrite E3. cbv beta iota.
  destruct Vc as (_ & _ & _ & _ & N125).
  rewrite (eat_no_some s3 c 125 C3 N125). cbv beta iota.
  destruct (IH L fuel fuel (move s1) rest [] ltac:(lia) G2 S2 ltac:(lens) ltac:(lens))
    as (s' & E' & G' & S' & C' & F').
  unfold obj_entry in E'. rewrite E3 in E'.
  rewrite E'. exists s'. splits; auto.
  - left; auto.
  - discriminate.
Qed.

Lemma dialect_complete_all : forall cf,
  (forall d t v, dvalue cf d t v -> dPv cf d t v) /\
  (forall d t vs, delements cf d t vs -> dPe cf d t vs) /\
  (forall d t ms, dmembers cf d t ms -> dPm cf d t ms).
Proof.
  intros cf. apply dvalue_mutind.
  - intro d. apply d_case_null.
  - intro d. apply d_case_true.
  - intro d. apply d_case_false.
  - intros d t v N. apply d_case_num; assumption.
  - intros d t s J. apply d_case_str; assumption.
  - intros d w W. apply d_case_arr_empty; assumption.
  - intros d t vs J IH. apply d_case_arr; assumption.
  - intros d w W. apply d_case_obj_empty; assumption.
  - intros d t ms J IH. apply d_case_obj; assumption.
  - intros d w1 t v w2 W1 _ IH W2. apply d_case_e_one; assumption.
  - intros d w1 t v w2 r vs W1 _ IHv W2 _ IHr. apply d_case_e_cons; assumption.
  - intros d w1 kt k w2 w3 t v w4 W1 JK W2 W3 _ IH W4. apply d_case_m_one; assumption.
  - intros d w1 kt k w2 w3 t v w4 r ms W1 JK W2 W3 _ IHv W4 _ IHr. apply d_case_m_cons; assumption.
Qed.

(* the reader, mid-stream: a value of the dialect preceded by insignificant bytes; after a number
   the next byte must not be a number character (after anything else, nothing is required) *)
Theorem parse_variant_dialect_complete : forall cf d t v, dvalue cf d t v ->
  forall L fuel s w rest,
    dws cf w -> (d <= L)%nat -> good s -> stream s = w ++ t ++ rest ->
    (is_number v = true -> delimiter cf rest) ->
    (length (w ++ t ++ rest) < fuel)%nat ->
    exists s', parse_variant cf fuel L None s = (Ok, v, s') /\ post s' rest /\ found s' = true /\
               (is_number v = true -> lastc s' = hd 0 rest).
Proof. intros cf d t v J. exact (proj1 (dialect_complete_all cf) d t v J). Qed.

(* Every text of the dialect is accepted with its value, whatever follows it — except that a
   top-level number must be followed by the end of input, a NUL or a whitespace byte. *)
Theorem dialect_complete : forall cf L w t v rest d,
  dws cf w -> dvalue cf d t v -> (d <= L)%nat -> dtrailing v rest ->
  j_err (json_run cf None L (w ++ t ++ rest)) = Ok /\
  j_doc (json_run cf None L (w ++ t ++ rest)) = v.
Proof.
  intros cf L w t v rest d W J DL T.
  set (i := w ++ t ++ rest).
  assert (LF : (length (w ++ t ++ rest) < json_fuel i)%nat) by (unfold json_fuel, i; lia).
  assert (D : is_number v = true -> delimiter cf rest).
  { intro IN. specialize (T IN). destruct rest as [|c r]; [exact I|]. cbn [delimiter].
    apply not_numchar. destruct T as [->|T]; auto. }
  destruct (parse_variant_dialect_complete cf d t v J L (json_fuel i) (ps_init i) w rest W DL
              (good_init i) (stream_init i) D LF) as (s' & E & P & F & LC).
  unfold json_run. rewrite E. cbn [j_err j_doc]. split; [|reflexivity].
  destruct (is_number v) eqn:NV; [|rewrite andb_false_r; reflexivity].
  rewrite (LC eq_refl). unfold dtrailing in T. rewrite NV in T. specialize (T eq_refl).
  destruct rest as [|c r]; cbn [hd]; [reflexivity|].
  destruct T as [->|T]; [reflexivity|]. rewrite T. cbn [negb]. rewrite andb_false_r. reflexivity.
Qed.

(* soundness and completeness together: acceptance is exactly membership in the dialect *)
Corollary dialect_exact : forall cf L i v, bytes256 i ->
  (j_err (json_run cf None L i) = Ok /\ j_doc (json_run cf None L i) = v) <->
  (exists w t rest d, i = w ++ t ++ rest /\ dws cf w /\ (d <= L)%nat /\ dvalue cf d t v /\
                      dtrailing v rest).
Proof.
  intros cf L i v B. split.
  - intros [H <-].
    destruct (dialect_sound cf L i _ B eq_refl H) as (w & t & rest & E & W & (d & DL & V) & T).
    exists w, t, rest, d. auto.
  - intros (w & t & rest & d & -> & W & DL & V & T).
    exact (dialect_complete cf L w t v rest d W V DL T).
Qed.

(* ------------------------------------------------------------------------------------- *)
(* The requested statements that are false as literally stated, refuted. *)

(* (1) dialect_sound without [bytes256 i]: an artefact of [bytes = list N], not of the library *)
Definition not_bytes : bytes := [34; 92; 117; 304; 48; 48; 48; 34].

Lemma no_escape_304 : forall q hi body out t',
  dchars default_cfg q hi body out -> body = 92 :: 117 :: 304 :: t' -> False.
Proof.
  intros q hi body out t' D.
  destruct D as [hi|hi c t o CQ CZ C92 D|hi e c t o HIn D|hi t o DU D
                 |hi tu u t o DU UE NS D|hi tu h t o DU UE HR D|hi tu l t o DU UE LR D]; intro Hb.
  - discriminate Hb.
  - injection Hb as -> _. congruence.
  - injection Hb as -> _. unfold dialect_escapes in HIn. cbn [In] in HIn.
    repeat (destruct HIn as [HIn|HIn]; [discriminate HIn|]). contradiction.
  - discriminate DU.
  - destruct UE as [d1 d2 d3 d4 v1 v2 v3 v4 H1 _ _ _]. cbn [app] in Hb. injection Hb as -> _.
    discriminate H1.
  - destruct UE as [d1 d2 d3 d4 v1 v2 v3 v4 H1 _ _ _]. cbn [app] in Hb. injection Hb as -> _.
    discriminate H1.
  - destruct UE as [d1 d2 d3 d4 v1 v2 v3 v4 H1 _ _ _]. cbn [app] in Hb. injection Hb as -> _.
    discriminate H1.
Qed.

Theorem dialect_sound_needs_bytes :
  ~ (forall cf L i o, o = json_run cf None L i -> j_err o = Ok ->
       exists w t rest, i = w ++ t ++ rest /\ dws cf w /\
         (exists d, (d <= L)%nat /\ dvalue cf d t (j_doc o)) /\ dtrailing (j_doc o) rest).
Proof.
  intro H.
  assert (A : j_err (json_run default_cfg None 10 not_bytes) = Ok) by (vm_compute; reflexivity).
  destruct (H default_cfg 10%nat not_bytes _ eq_refl A) as (w & t & rest & E & W & (d & _ & V) & _).
  assert (X : j_doc (json_run default_cfg None 10 not_bytes) = JStr [0]) by (vm_compute; reflexivity).
  rewrite X in V. clear X A H. unfold not_bytes in E.
  assert (W0 : w = []).
  { destruct W as [|c w Hc W|b w EC _ _ _|b w EC _ _]; [reflexivity| | |].
    - cbn [app] in E. injection E as <- _. discriminate Hc.
    - discriminate EC.
    - discriminate EC. }
  subst w. cbn [app] in E.
  inversion V as [| | |d0 t0 v0 N|d0 t0 s0 DS| | | |]; subst.
  - destruct N as (_ & _ & _ & _ & _ & _ & JV). apply jv_of_number_is_number in JV. discriminate JV.
  - destruct DS as (q & body & HQ & -> & DC & _).
    cbn [app] in E. injection E as <- E. rewrite <- app_assoc in E. cbn [app] in E.
    destruct body as [|a [|b [|c body]]]; cbn [app] in E; try discriminate E.
    injection E as <- <- <- _.
    exact (no_escape_304 34 0 _ _ body DC eq_refl).
Qed.

(* (2) rfc_inside_dialect without ARDUINOJSON_DECODE_UNICODE: the RFC string made of the six
   characters backslash u 0 0 4 1 denotes the letter A; the reader returns the six characters *)
Theorem rfc_inside_dialect_needs_decode_unicode :
  ~ (forall cf d t v, jvalueD (num_den cf) d t v -> dvalue cf d t v).
Proof.
  intro H.
  assert (J : jvalueD (num_den no_decode_cfg) 0 [34; 92; 117; 48; 48; 52; 49; 34] (JStr [65])).
  { apply vd_str. exists [92; 117; 48; 48; 52; 49]. split; [reflexivity|].
    split; [|vm_compute; discriminate].
    apply (chs_cons [92; 117; 48; 48; 52; 49] [65] [] []); [|constructor].
    apply (ch_bmp _ 65); [|reflexivity].
    exact (uesc 48 48 52 49 0 0 4 1 eq_refl eq_refl eq_refl eq_refl). }
  pose proof (H _ _ _ _ J) as V.
  destruct (dialect_complete no_decode_cfg 10 [] _ _ [] 0%nat (dws_nil _) V ltac:(lia)
              ltac:(intro X; discriminate X)) as [_ D].
  vm_compute in D. discriminate D.
Qed.

(* ------------------------------------------------------------------------------------- *)
(* never an unclosed container or string: the accepted text of a container ends with its closing
   bracket, that of a string with the quote that opened it *)
Corollary accepted_is_closed : forall cf L i,
  bytes256 i -> j_err (json_run cf None L i) = Ok ->
  exists w t rest, i = w ++ t ++ rest /\ dws cf w /\
    match j_doc (json_run cf None L i) with
    | JArr _ => exists body, t = [91] ++ body ++ [93]
    | JObj _ => exists body, t = [123] ++ body ++ [125]
    | JStr _ => exists q body, (q = 34 \/ q = 39) /\ t = [q] ++ body ++ [q]
    | _ => True
    end.
Proof.
  intros cf L i B H.
  destruct (dialect_sound cf L i _ B eq_refl H) as (w & t & rest & E & W & (d & _ & V) & _).
  exists w, t, rest. split; [exact E|]. split; [exact W|].
  exact (dvalue_closed cf d t _ V).
Qed.

(* ------------------------------------------------------------------------------------- *)
(* The tolerances of parseQuotedString that the documentation does not list (they are part of
   Spec/Dialect.v because the code accepts them):
     "\uDC00"        lone low surrogate  -> U+10000 (paired with an imaginary U+D800)
     "\uD83D"        lone high surrogate -> the empty string
     "\uD83Dx\uDE00" non-adjacent pair   -> x followed by U+1F600
     "\'"            escape not in the RFC
     a raw TAB inside a string *)
Example lone_surrogates_accepted :
  let run i := let o := json_run default_cfg None 10 i in (j_err o, j_doc o) in
  run [34; 92; 117; 68; 67; 48; 48; 34] = (Ok, JStr [240; 144; 128; 128]) /\
  run [34; 92; 117; 68; 56; 51; 68; 34] = (Ok, JStr []) /\
  run [34; 92; 117; 68; 56; 51; 68; 120; 92; 117; 68; 69; 48; 48; 34]
    = (Ok, JStr [120; 240; 159; 152; 128]) /\
  run [34; 92; 39; 34] = (Ok, JStr [39]) /\
  run [34; 9; 34] = (Ok, JStr [9]).
Proof. vm_compute. auto 6. Qed.
