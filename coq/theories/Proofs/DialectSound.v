(* DialectSound.v — SOUNDNESS of the JSON reader model with respect to the dialect of
   Spec/Dialect.v: whatever json_run accepts starts with a text of the dialect and the document
   is the value the dialect assigns to that text (the converse of Proofs/ParseComplete.v).
   Inversion lemmas for every routine, on the [stream] view of Proofs/Lex.v. *)
From Coq Require Import NArith ZArith List Bool Lia.
From AJ Require Import Model.Base Model.Value Model.Utf Model.NumParse Model.JsonParse.
From AJ Require Import Spec.Utf8Spec Spec.Rfc8259 Spec.ParseSpec Spec.Dialect.
From AJ Require Import Proofs.Sweep Proofs.UtfProofs Proofs.Lex Proofs.StringRT Proofs.ParseDepth
                       Proofs.ParseComplete.
Local Open Scope N_scope.

Definition bytes256 (i : bytes) : Prop := Forall (fun b => b < 256) i.

Lemma bytes256_app_r : forall a b, bytes256 (a ++ b) -> bytes256 b.
Proof. intros a b H. apply Forall_app in H. tauto. Qed.
Lemma bytes256_app_l : forall a b, bytes256 (a ++ b) -> bytes256 a.
Proof. intros a b H. apply Forall_app in H. tauto. Qed.
Lemma bytes256_tl : forall a b, bytes256 (a :: b) -> bytes256 b.
Proof. intros a b H. inversion H; assumption. Qed.
Lemma bytes256_hd : forall a b, bytes256 (a :: b) -> a < 256.
Proof. intros a b H. inversion H; assumption. Qed.

(* ------------------------------------------------------------------------------------- *)
(* looking at the next byte: either the end marker gets latched, or a non-NUL byte *)

Lemma cur_cases : forall s i, good s -> stream s = i ->
  (exists s1, current s = (0, s1) /\ at_end s1 /\ (i = [] \/ exists r, i = 0 :: r) /\
              lastc s1 = 0 /\ found s1 = found s /\ cur s1 = Some 0) \/
  (exists b t s1, i = b :: t /\ b <> 0 /\ current s = (b, s1) /\ good s1 /\ stream s1 = b :: t /\
              cur s1 = Some b /\ found s1 = found s /\ lastc s1 = b).
Proof.
  intros s i G S.
  destruct (peek s i G S) as (s1 & E & F & P & L & C).
  destruct i as [|b t].
  - left. exists s1. cbn [hd] in *. destruct P as [[G1 S1]|[A _]].
    + unfold stream in S1. rewrite C in S1. discriminate.
    + splits; auto.
  - cbn [hd] in *. destruct (N.eq_dec b 0) as [->|NZ].
    + left. exists s1. destruct P as [[G1 S1]|[A _]].
      * destruct G1 as (_ & _ & G1). destruct (G1 0 C) as [X _]. congruence.
      * splits; auto. right. exists t. reflexivity.
    + right. exists b, t, s1. destruct P as [[G1 S1]|[A [X|[r X]]]].
      * splits; auto.
      * discriminate.
      * congruence.
Qed.

Lemma current_at_end : forall s, at_end s -> current s = (0, s).
Proof. intros s (_ & C & _). apply current_some. exact C. Qed.

Lemma post_good_intro : forall s r, good s -> stream s = r -> post s r.
Proof. intros. left. split; assumption. Qed.

(* ------------------------------------------------------------------------------------- *)
(* insignificant bytes *)

Lemma dws_app : forall cf a b, dws cf a -> dws cf b -> dws cf (a ++ b).
Proof.
  intros cf a b A B. induction A as [|c w Hc A IH|bb w EC NZ NC A IH|bb w EC NZ A IH].
  - exact B.
  - cbn [app]. apply dws_space; assumption.
  - replace (([47; 42] ++ bb ++ [42; 47] ++ w) ++ b) with ([47; 42] ++ bb ++ [42; 47] ++ (w ++ b))
      by (rewrite <- !app_assoc; reflexivity).
    apply dws_block; assumption.
  - replace (([47; 47] ++ bb ++ [10] ++ w) ++ b) with ([47; 47] ++ bb ++ [10] ++ (w ++ b))
      by (rewrite <- !app_assoc; reflexivity).
    apply dws_line; assumption.
Qed.

(* the body of a block comment, from a state that has (ws = true) or has not just seen a star *)
Lemma block_comment_inv : forall fuel ws s i s',
  good s -> stream s = i -> block_comment fuel ws s = (Ok, s') ->
  exists b r, i = b ++ 47 :: r /\ Forall (fun c => c <> 0) b /\ no_close b /\
    (ws = true -> forall x, b <> 47 :: x) /\
    (exists b0, (if ws then [42] else []) ++ b = b0 ++ [42]) /\
    good s' /\ stream s' = r /\ cur s' = None /\ found s' = found s.
Proof.
  induction fuel as [|fuel IH]; intros ws s i s' G S H; [discriminate H|].
  cbn [block_comment] in H.
  destruct (cur_cases s i G S) as [(s1 & E & _)|(c & t & s1 & -> & NZ & E & G1 & S1 & C1 & F1 & _)];
    rewrite E in H.
  { change (0 =? 0) with true in H. discriminate H. }
  rewrite (eqb_false _ _ NZ) in H.
  destruct (move_cons s1 c t G1 C1 S1) as (G2 & S2 & C2 & F2).
  destruct ((c =? 47) && ws) eqn:T.
  - apply andb_prop in T as [T1 T2]. apply N.eqb_eq in T1. subst c ws.
    injection H as <-. exists [], t. splits; auto.
    + intros p q X. destruct p; discriminate X.
    + intros _ x X. discriminate X.
    + exists []. reflexivity.
    + congruence.
  - destruct (IH (c =? 42) (move s1) t s' G2 S2 H) as (b & r & -> & NZb & NC & HD & (b0 & EB) & G' & S' & C' & F').
    exists (c :: b), r. splits; auto.
    + intros p q X. destruct p as [|x p]; cbn [app] in X.
      * injection X as X1 X2. subst c. apply (HD eq_refl q). exact X2.
      * injection X as _ X2. exact (NC p q X2).
    + intros W x X. injection X as X1 _. subst c ws. discriminate T.
    + destruct (c =? 42) eqn:C42.
      * apply N.eqb_eq in C42. subst c. cbn [app] in EB.
        exists ((if ws then [42] else []) ++ b0). rewrite <- app_assoc, <- EB. reflexivity.
      * cbn [app] in EB. subst b.
        exists ((if ws then [42] else []) ++ c :: b0). rewrite <- app_assoc. reflexivity.
    + congruence.
Qed.

(* a line comment, entered with its second slash latched; the LF stays latched *)
Lemma line_comment_inv : forall fuel s c0 i s',
  good s -> cur s = Some c0 -> stream s = c0 :: i -> line_comment fuel s = (Ok, s') ->
  exists b r, i = b ++ 10 :: r /\ Forall (fun c => c <> 0 /\ c <> 10) b /\
    good s' /\ stream s' = 10 :: r /\ cur s' = Some 10 /\ found s' = found s /\ lastc s' = 10.
Proof.
  induction fuel as [|fuel IH]; intros s c0 i s' G C S H; [discriminate H|].
  cbn [line_comment] in H.
  destruct (move_cons s c0 i G C S) as (G2 & S2 & C2 & F2).
  destruct (cur_cases (move s) i G2 S2) as [(s1 & E & _)|(c & t & s1 & -> & NZ & E & G1 & S1 & C1 & F1 & L1)];
    rewrite E in H.
  { change (0 =? 0) with true in H. discriminate H. }
  rewrite (eqb_false _ _ NZ) in H.
  destruct (c =? 10) eqn:T.
  - apply N.eqb_eq in T. subst c. injection H as <-. exists [], t. splits; auto. congruence.
  - apply N.eqb_neq in T.
    destruct (IH s1 c t s' G1 C1 S1 H) as (b & r & -> & FA & G' & S' & C' & F' & L').
    exists (c :: b), r. splits; auto. congruence.
Qed.

Lemma skip_spaces_inv : forall cf fuel s i s',
  good s -> stream s = i -> skip_spaces cf fuel s = (Ok, s') ->
  exists w c r, i = w ++ c :: r /\ dws cf w /\ good s' /\ stream s' = c :: r /\ cur s' = Some c /\
    c <> 0 /\ is_space c = false /\ (enable_comments cf = true -> c <> 47) /\
    found s' = true /\ lastc s' = c.
Proof.
  intros cf. induction fuel as [|fuel IH]; intros s i s' G S H; [discriminate H|].
  cbn [skip_spaces] in H.
  destruct (cur_cases s i G S) as [(s1 & E & _)|(c & t & s1 & -> & NZ & E & G1 & S1 & C1 & F1 & L1)];
    rewrite E in H.
  { change (0 =? 0) with true in H. destruct (found s1); discriminate H. }
  rewrite (eqb_false _ _ NZ) in H.
  change ((c =? 32) || (c =? 9) || (c =? 13) || (c =? 10)) with (is_space c) in H.
  destruct (move_cons s1 c t G1 C1 S1) as (G2 & S2 & C2 & F2).
  destruct (is_space c) eqn:SP.
  - destruct (IH (move s1) t s' G2 S2 H) as (w & c' & r & -> & W & R).
    exists (c :: w), c', r. split; [reflexivity|]. split; [apply dws_space; assumption|exact R].
  - destruct (enable_comments cf && (c =? 47)) eqn:CM.
    + apply andb_prop in CM as [EC C47]. apply N.eqb_eq in C47. subst c.
      destruct (cur_cases (move s1) t G2 S2)
        as [(s3 & E3 & _)|(c2 & t2 & s3 & -> & NZ2 & E3 & G3 & S3 & C3 & F3 & L3)]; rewrite E3 in H.
      { change (0 =? 42) with false in H. change (0 =? 47) with false in H. discriminate H. }
      destruct (move_cons s3 c2 t2 G3 C3 S3) as (G4 & S4 & C4 & F4).
      destruct (c2 =? 42) eqn:K42.
      * apply N.eqb_eq in K42. subst c2.
        destruct (block_comment fuel false (move s3)) as [e s5] eqn:EB.
        destruct e; try (injection H as H1 _; discriminate H1).
        destruct (block_comment_inv fuel false (move s3) t2 s5 G4 S4 EB)
          as (b & r & -> & NZb & NC & _ & (b0 & EB0) & G5 & S5 & C5 & F5).
        cbn [app] in EB0. subst b.
        destruct (IH s5 r s' G5 S5 H) as (w & c' & r' & -> & W & R).
        exists ([47; 42] ++ b0 ++ [42; 47] ++ w), c', r'.
        split; [cbn [app]; rewrite <- !app_assoc; reflexivity|].
        split; [|exact R]. apply dws_block; auto.
        -- apply Forall_app in NZb. tauto.
        -- intros p q X. apply (NC p (q ++ [42])). rewrite X, <- app_assoc. reflexivity.
      * destruct (c2 =? 47) eqn:K47; [|discriminate H].
        apply N.eqb_eq in K47. subst c2.
        destruct (line_comment fuel s3) as [e s5] eqn:EL.
        destruct e; try (injection H as H1 _; discriminate H1).
        destruct (line_comment_inv fuel s3 47 t2 s5 G3 C3 S3 EL)
          as (b & r & -> & FA & G5 & S5 & C5 & F5 & L5).
        destruct (IH s5 (10 :: r) s' G5 S5 H) as (w & c' & r' & EW & W & R).
        inversion W as [|x w0 Hx W0 EQ| |]; subst.
        -- (* the LF cannot be the byte skip_spaces stops on *)
           cbn [app] in EW. injection EW as <- <-.
           destruct R as (_ & _ & _ & _ & X & _). discriminate X.
        -- cbn [app] in EW. injection EW as <- ->.
           exists ([47; 47] ++ b ++ [10] ++ w0), c', r'.
           split; [cbn [app]; rewrite <- !app_assoc; reflexivity|].
           split; [|exact R]. apply dws_line; auto.
        -- cbn [app] in EW. discriminate EW.
        -- cbn [app] in EW. discriminate EW.
    + injection H as <-. exists [], c, t.
      split; [reflexivity|]. split; [constructor|].
      destruct G1 as (A1 & A2 & A3).
      splits; auto.
      * unfold good, set_found; cbn. auto.
      * intros EC ->. rewrite EC in CM. discriminate CM.
Qed.

(* at the end of input skip_spaces fails *)
Lemma skip_spaces_at_end : forall cf fuel s s', at_end s -> skip_spaces cf fuel s <> (Ok, s').
Proof.
  intros cf fuel s s' A H. destruct fuel as [|fuel]; [discriminate H|].
  cbn [skip_spaces] in H. rewrite (current_at_end s A) in H.
  change (0 =? 0) with true in H. destruct (found s); discriminate H.
Qed.

Lemma post_skip : forall cf fuel s r s', post s r -> skip_spaces cf fuel s = (Ok, s') ->
  good s /\ stream s = r.
Proof.
  intros cf fuel s r s' [P|[A _]] H; [exact P|].
  exfalso. exact (skip_spaces_at_end cf fuel s s' A H).
Qed.
