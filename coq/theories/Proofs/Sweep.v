(* Sweep.v — lifting finite sweeps computed by vm_compute to universally quantified statements. *)
From Coq Require Import NArith ZArith List Bool Lia.
From AJ Require Import Model.Base.
Local Open Scope N_scope.

Lemma all_below_pow2_spec : forall k f,
  all_below_pow2 k f = true -> forall n, n < 2 ^ N.of_nat k -> f n = true.
Proof.
  induction k as [|k IH]; intros f H n Hn.
  - simpl in *. assert (n = 0) by lia. subst; exact H.
  - cbn [all_below_pow2] in H. apply andb_prop in H as [H0 H1].
    rewrite Nat2N.inj_succ, N.pow_succ_r' in Hn.
    destruct (N.even n) eqn:E.
    + apply N.even_spec in E as [m ->].
      specialize (IH _ H0 m). cbv beta in IH. rewrite N.double_spec in IH. apply IH. lia.
    + assert (O : N.odd n = true) by (rewrite <- N.negb_even, E; reflexivity).
      apply N.odd_spec in O as [m ->].
      specialize (IH _ H1 m). cbv beta in IH. rewrite N.succ_double_spec in IH. apply IH. lia.
Qed.

Lemma find_below_pow2_none : forall k f,
  find_below_pow2 k f = None -> all_below_pow2 k f = true.
Proof.
  induction k as [|k IH]; intros f H; cbn in *.
  - destruct (f 0); congruence.
  - destruct (find_below_pow2 k (fun n => f (N.double n))) eqn:E0; [discriminate|].
    destruct (find_below_pow2 k (fun n => f (N.succ_double n))) eqn:E1; [discriminate|].
    rewrite (IH _ E0), (IH _ E1). reflexivity.
Qed.

Lemma In_N_range : forall n s c, In c (N_range s n) <-> s <= c < s + N.of_nat n.
Proof.
  induction n as [|n IH]; intros s c; cbn [N_range].
  - simpl. lia.
  - rewrite Nat2N.inj_succ. simpl. rewrite IH. lia.
Qed.

Lemma forallb_range : forall (f : N -> bool) n,
  forallb f (N_range 0 n) = true -> forall c, c < N.of_nat n -> f c = true.
Proof.
  intros f n H c Hc. rewrite forallb_forall in H. apply H. apply In_N_range. lia.
Qed.

(* all 256 byte values *)
Definition all_bytes (f : N -> bool) : bool := forallb f (N_range 0 256).
Lemma all_bytes_spec : forall f, all_bytes f = true -> forall c, c < 256 -> f c = true.
Proof. intros f H c Hc. apply (forallb_range f 256 H). exact Hc. Qed.

Lemma bytes_eqb_eq : forall a b, bytes_eqb a b = true <-> a = b.
Proof.
  induction a as [|x a IH]; destruct b as [|y b]; cbn; split; intro H; try discriminate; auto.
  - apply andb_prop in H as [H1 H2]. apply N.eqb_eq in H1. apply IH in H2. subst. reflexivity.
  - injection H as -> ->. rewrite N.eqb_refl. apply IH. reflexivity.
Qed.
