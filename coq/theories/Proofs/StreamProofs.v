(* StreamProofs.v — C16: successive deserialize calls on one stream return the documents one after
   the other.

   Part 1: position accounting.  [reads s] counts the bytes handed out by the reader; together with
           the unread bytes it always adds up to the length of the input.  For a value of the RFC 8259
           grammar preceded by whitespace, one call takes EXACTLY the whitespace and the value, plus one
           more byte (the one the number scanner had to look at) when the value is a number and the
           input does not end there.
   Part 2: the sequence of results of [json_stream] on a well-formed stream of documents
           ([stream_spec]); NDJSON with arbitrary whitespace between documents ([nd_*]) and JSON Lines
           with exactly one separator byte after each document ([jsonl_*]) are instances. *)
From Coq Require Import NArith ZArith List Bool Lia.
From AJ Require Import Model.Base Model.Value Model.Utf Model.NumParse Model.JsonParse Model.Stream.
From AJ Require Import Spec.Utf8Spec Spec.Rfc8259 Spec.ParseSpec.
From AJ Require Import Proofs.Sweep Proofs.UtfProofs Proofs.Lex Proofs.StringRT.
From AJ Require Import Proofs.ParseComplete Proofs.ParseSafe.
Local Open Scope N_scope.

(* ===================================================================================== *)
(* Part 1 — position accounting                                                          *)

Lemma budget_init : forall i, budget (ps_init i) = N.of_nat (length i).
Proof. intro i. unfold budget, ps_init; cbn [reads rest]. lia. Qed.

(* the unconsumed bytes are the unread ones plus the latched one, if any *)
Lemma stream_length : forall s,
  length (stream s) = (length (rest s) + match cur s with Some _ => 1 | None => 0 end)%nat.
Proof. intro s. unfold stream. destruct (cur s); cbn [length]; lia. Qed.

Lemma reads_stream : forall s,
  reads s + N.of_nat (length (stream s)) = budget s + match cur s with Some _ => 1 | None => 0 end.
Proof. intro s. rewrite stream_length. unfold budget. destruct (cur s); lia. Qed.

(* the invariant, for any state reached from [ps_init i] by the parser *)
Theorem parse_variant_position : forall cf fuel L f i e v s',
  parse_variant cf fuel L f (ps_init i) = (e, v, s') ->
  reads s' + N.of_nat (length (rest s')) = N.of_nat (length i).
Proof.
  intros cf fuel L f i e v s' H. apply parse_variant_budget in H.
  rewrite budget_init in H. exact H.
Qed.

Theorem json_run_position : forall cf f L i,
  reads (j_st (json_run cf f L i)) + N.of_nat (length (rest (j_st (json_run cf f L i))))
  = N.of_nat (length i).
Proof.
  intros cf f L i. unfold json_run.
  destruct (parse_variant cf (json_fuel i) L f (ps_init i)) as [[e v] s'] eqn:E.
  cbn [j_st]. exact (parse_variant_position _ _ _ _ _ _ _ _ E).
Qed.

(* in terms of the unconsumed stream: the consumed bytes are the reads, minus the latched byte *)
Theorem json_run_position_stream : forall cf f L i,
  let s := j_st (json_run cf f L i) in
  reads s + N.of_nat (length (stream s))
  = N.of_nat (length i) + match cur s with Some _ => 1 | None => 0 end.
Proof.
  intros cf f L i s. rewrite reads_stream. unfold budget.
  unfold s. rewrite json_run_position. reflexivity.
Qed.

(* a state with an empty latch whose unconsumed stream is known *)
Lemma reads_of_budget : forall s r n,
  budget s = n -> cur s = None -> stream s = r -> reads s + N.of_nat (length r) = n /\ rest s = r.
Proof.
  intros s r n B C S. unfold stream in S. rewrite C in S. unfold budget in B. rewrite S in B.
  split; assumption.
Qed.

(* loading the latch: one byte is taken, unless the input is exhausted *)
Lemma current_load : forall s r, cur s = None -> stream s = r ->
  fst (current s) = hd 0 r /\
  lastc (snd (current s)) = hd 0 r /\
  reads (snd (current s)) = reads s + match r with [] => 0 | _ => 1 end /\
  rest (snd (current s)) = tl r.
Proof.
  intros s r C S. unfold stream in S. rewrite C in S. unfold current. rewrite C. unfold load.
  rewrite S. destruct r as [|b r]; cbn [fst snd lastc reads rest hd tl]; repeat split; lia.
Qed.

(* ------------------------------------------------------------------------------------- *)
(* values that are not numbers: nothing is latched afterwards, and nothing need follow *)

Lemma skip_keyword_ok_cur : forall kw s rest,
  kw <> [] -> Forall (fun c => c <> 0) kw -> good s -> stream s = kw ++ rest ->
  exists s', skip_keyword kw s = (Ok, s') /\ good s' /\ stream s' = rest /\ cur s' = None /\
             found s' = found s.
Proof.
  induction kw as [|k kw IH]; intros s rest NE FA G S; [congruence|].
  inversion FA as [|? ? KZ FA']; subst. cbn [app] in S.
  destruct (next_cons s k _ G S KZ) as (s1 & E1 & G1 & S1 & C1 & F1).
  cbn [skip_keyword]. rewrite E1, (eqb_false _ _ KZ), N.eqb_refl. cbn [negb].
  destruct kw as [|k2 kw2].
  - exists (move s1). cbn [skip_keyword]. cbn [app] in S1. splits; auto.
  - destruct (IH (move s1) rest ltac:(discriminate) FA' G1 S1) as (s' & E' & G' & S' & C' & F').
    exists s'. rewrite E'. splits; auto. congruence.
Qed.

Definition Pv0 (cf : cfg) (d : nat) (t : bytes) (v : jv) : Prop :=
  forall L fuel s w rest,
    ws w -> (d <= L)%nat -> good s -> stream s = w ++ t ++ rest ->
    (length (w ++ t ++ rest) < fuel)%nat ->
    exists s', parse_variant cf fuel L None s = (Ok, v, s') /\ good s' /\ stream s' = rest /\
               cur s' = None /\ found s' = true.

Lemma case0_keyword : forall cf d kw v k0 kr,
  kw = k0 :: kr -> vstart k0 -> Forall (fun c => c <> 0) kw ->
  (forall fuel L s s1, skip_spaces cf fuel s = (Ok, s1) -> cur s1 = Some k0 ->
     parse_variant cf fuel L None s = (let '(e, s) := skip_keyword kw s1 in (e, v, s))) ->
  Pv0 cf d kw v.
Proof.
  intros cf d kw v k0 kr -> V FA U L fuel s w rest W DL G S LF.
  cbn [app] in S.
  destruct (pv_enter cf w fuel s k0 _ W G S V ltac:(lens)) as (s1 & E1 & G1 & S1 & C1 & F1).
  rewrite (U fuel L s s1 E1 C1).
  destruct (skip_keyword_ok_cur (k0 :: kr) s1 rest ltac:(discriminate) FA G1 S1)
    as (s' & E' & G' & S' & C' & F').
  rewrite E'. exists s'. splits; auto. congruence.
Qed.

Lemma case0_null : forall cf d, Pv0 cf d [110; 117; 108; 108] JNull.
Proof.
  intros cf d. apply (case0_keyword cf d kw_null JNull 110 [117; 108; 108]); try reflexivity.
  - unfold vstart; tauto.
  - apply nz_list. reflexivity.
  - intros. apply pv_null; assumption.
Qed.

Lemma case0_true : forall cf d, Pv0 cf d [116; 114; 117; 101] (JBool true).
Proof.
  intros cf d. apply (case0_keyword cf d kw_true (JBool true) 116 [114; 117; 101]); try reflexivity.
  - unfold vstart; tauto.
  - apply nz_list. reflexivity.
  - intros. apply pv_true; assumption.
Qed.

Lemma case0_false : forall cf d, Pv0 cf d [102; 97; 108; 115; 101] (JBool false).
Proof.
  intros cf d. apply (case0_keyword cf d kw_false (JBool false) 102 [97; 108; 115; 101]); try reflexivity.
  - unfold vstart; tauto.
  - apply nz_list. reflexivity.
  - intros. apply pv_false; assumption.
Qed.

Lemma case0_str : forall cf, decode_unicode cf = true ->
  forall d t str, jstring t str -> Pv0 cf d t (JStr str).
Proof.
  intros cf DU d t str J L fuel s w rest W DL G S LF.
  pose proof J as (body & Et & _).
  assert (S0 : stream s = w ++ 34 :: ((body ++ [34]) ++ rest)) by (rewrite S, Et; reflexivity).
  assert (V : vstart 34) by (unfold vstart; tauto).
  destruct (pv_enter cf w fuel s 34 _ W G S0 V ltac:(lens)) as (s1 & E1 & G1 & S1 & C1 & F1).
  rewrite (pv_str cf fuel L s s1 E1 C1).
  assert (S2 : stream s1 = t ++ rest) by (rewrite S1, Et; reflexivity).
  destruct (parse_string_ok cf DU t str J fuel s1 rest G1 S2 ltac:(lens)) as (s' & E' & G' & S' & C' & F').
  rewrite E'. exists s'. splits; auto. congruence.
Qed.

Lemma case0_arr_empty : forall cf d w0, ws w0 -> Pv0 cf (S d) ([91] ++ w0 ++ [93]) (JArr []).
Proof.
  intros cf d w0 W0 L fuel s w rest W DL G S LF.
  destruct L as [|L]; [lia|].
  rewrite <- !app_assoc in S. cbn [app] in S.
  assert (V : vstart 91) by (unfold vstart; tauto).
  destruct (pv_enter cf w fuel s 91 _ W G S V ltac:(lens)) as (s1 & E1 & G1 & S1 & C1 & F1).
  rewrite (pv_arr cf fuel L s s1 E1 C1).
  destruct (move_cons s1 91 _ G1 C1 S1) as (G2 & S2 & C2 & F2).
  destruct (skip_ws cf w0 W0 fuel (move s1) 93 rest G2 S2 ltac:(lia) eq_refl ltac:(lia) ltac:(lens))
    as (s3 & E3 & G3 & S3 & C3 & F3 & _).
  rewrite E3. cbv beta iota.
  destruct (eat_yes s3 93 rest G3 S3 ltac:(lia)) as (s4 & E4 & G4 & S4 & C4 & F4).
  rewrite E4. exists s4. splits; auto. congruence.
Qed.

Lemma case0_arr : forall cf nd d te vs,
  jelementsD nd d te vs -> Pe cf d te vs -> Pv0 cf (S d) ([91] ++ te ++ [93]) (JArr vs).
Proof.
  intros cf nd d te vs J IH L fuel s w rest W DL G HS LF.
  destruct L as [|L]; [lia|].
  destruct fuel as [|fuel0]; [lia|].
  rewrite <- !app_assoc in HS. cbn [app] in HS.
  assert (V : vstart 91) by (unfold vstart; tauto).
  destruct (pv_enter cf w (S fuel0) s 91 _ W G HS V ltac:(lens)) as (s1 & E1 & G1 & S1 & C1 & F1).
  rewrite (pv_arr cf (S fuel0) L s s1 E1 C1).
  destruct (move_cons s1 91 _ G1 C1 S1) as (G2 & S2 & C2 & F2).
  destruct (jelementsD_head _ _ _ _ J) as (w1 & c & r & W1 & Ete & Vc).
  assert (S2' : stream (move s1) = w1 ++ c :: (r ++ 93 :: rest))
    by (rewrite S2, Ete, <- app_assoc; reflexivity).
  assert (LW : (length w1 < S fuel0)%nat) by (rewrite Ete in LF; lens).
  destruct (pv_enter cf w1 (S fuel0) (move s1) c _ W1 G2 S2' Vc LW) as (s3 & E3 & G3 & S3 & C3 & F3).
  rewrite E3. cbv beta iota.
  destruct (vstart_props c Vc) as (_ & _ & _ & N93 & _).
  rewrite (eat_no_some s3 c 93 C3 N93). cbv beta iota.
  rewrite (array_loop_skip cf (S fuel0) L _ fuel0 [] (move s1) s3 c E3 C3 F3 Vc).
  destruct (IH L (S fuel0) (S fuel0) (move s1) rest [] ltac:(lia) G2 S2 ltac:(lens) ltac:(lens))
    as (s' & E' & G' & S' & C' & F').
  rewrite E'. exists s'. cbn [app]. splits; auto.
Qed.

Lemma case0_obj_empty : forall cf d w0, ws w0 -> Pv0 cf (S d) ([123] ++ w0 ++ [125]) (JObj []).
Proof.
  intros cf d w0 W0 L fuel s w rest W DL G HS LF.
  destruct L as [|L]; [lia|].
  rewrite <- !app_assoc in HS. cbn [app] in HS.
  assert (V : vstart 123) by (unfold vstart; tauto).
  destruct (pv_enter cf w fuel s 123 _ W G HS V ltac:(lens)) as (s1 & E1 & G1 & S1 & C1 & F1).
  rewrite (pv_obj cf fuel L s s1 E1 C1).
  destruct (move_cons s1 123 _ G1 C1 S1) as (G2 & S2 & C2 & F2).
  destruct (skip_ws cf w0 W0 fuel (move s1) 125 rest G2 S2 ltac:(lia) eq_refl ltac:(lia) ltac:(lens))
    as (s3 & E3 & G3 & S3 & C3 & F3 & _).
  rewrite E3. cbv beta iota.
  destruct (eat_yes s3 125 rest G3 S3 ltac:(lia)) as (s4 & E4 & G4 & S4 & C4 & F4).
  rewrite E4. exists s4. splits; auto. congruence.
Qed.

Lemma case0_obj : forall cf nd d te ms,
  jmembersD nd d te ms -> Pm cf d te ms ->
  Pv0 cf (S d) ([123] ++ te ++ [125])
      (JObj (fold_left (fun acc m => assoc_set (fst m) (snd m) acc) ms [])).
Proof.
  intros cf nd d te ms J IH L fuel s w rest W DL G HS LF.
  destruct L as [|L]; [lia|].
  rewrite <- !app_assoc in HS. cbn [app] in HS.
  assert (V : vstart 123) by (unfold vstart; tauto).
  destruct (pv_enter cf w fuel s 123 _ W G HS V ltac:(lens)) as (s1 & E1 & G1 & S1 & C1 & F1).
  rewrite (pv_obj cf fuel L s s1 E1 C1).
  destruct (move_cons s1 123 _ G1 C1 S1) as (G2 & S2 & C2 & F2).
  destruct (jmembersD_head _ _ _ _ J) as (w1 & r & W1 & Ete).
  assert (S2' : stream (move s1) = w1 ++ 34 :: (r ++ 125 :: rest))
    by (rewrite S2, Ete, <- app_assoc; reflexivity).
  assert (LW : (length w1 < fuel)%nat) by (rewrite Ete in LF; lens).
  destruct (skip_ws cf w1 W1 fuel (move s1) 34 _ G2 S2' ltac:(lia) eq_refl ltac:(lia) LW)
    as (s3 & E3 & G3 & S3 & C3 & F3 & _).
  rewrite E3. cbv beta iota.
  rewrite (eat_no_some s3 34 125 C3 ltac:(lia)). cbv beta iota.
  destruct (IH L fuel fuel (move s1) rest [] ltac:(lia) G2 S2 ltac:(lens) ltac:(lens))
    as (s' & E' & G' & S' & C' & F').
  unfold obj_entry in E'. rewrite E3 in E'.
  rewrite E'. exists s'. splits; auto.
Qed.

Lemma num_den_is_number : forall cf t v, num_den cf t v -> is_number v = true.
Proof.
  intros cf t v [_ H]. destruct (parse_number cf t); cbn [jv_of_number] in H; try discriminate;
    injection H as <-; try reflexivity.
  unfold jv_of_double. destruct (use_double cf); [|reflexivity].
  match goal with |- context [if ?b then _ else _] => destruct b end; reflexivity.
Qed.

(* strings, literals, arrays, objects: whatever follows, the reader stops right after the value
   with an empty latch *)
Theorem parse_variant_nonnumber_exact : forall cf, decode_unicode cf = true ->
  forall d t v, jvalueD (num_den cf) d t v -> is_number v = false ->
  forall L fuel s w rest,
    ws w -> (d <= L)%nat -> good s -> stream s = w ++ t ++ rest ->
    (length (w ++ t ++ rest) < fuel)%nat ->
    exists s', parse_variant cf fuel L None s = (Ok, v, s') /\ good s' /\ stream s' = rest /\
               cur s' = None /\ found s' = true.
Proof.
  intros cf DU d t v J NN. change (Pv0 cf d t v).
  destruct J as [d|d|d|d t v J N|d t s J|d w W|d t vs J|d w W|d t ms J].
  - apply case0_null.
  - apply case0_true.
  - apply case0_false.
  - rewrite (num_den_is_number cf t v N) in NN. discriminate NN.
  - apply case0_str; assumption.
  - apply case0_arr_empty; assumption.
  - apply (case0_arr cf (num_den cf)); [exact J|].
    exact (proj1 (proj2 (complete_all cf DU)) d t vs J).
  - apply case0_obj_empty; assumption.
  - apply (case0_obj cf (num_den cf)); [exact J|].
    exact (proj2 (proj2 (complete_all cf DU)) d t ms J).
Qed.

(* ------------------------------------------------------------------------------------- *)
(* numbers: the scanner stops on the byte after the literal, which stays in the latch *)

Lemma scan_number_all_cur : forall cf t, Forall (fun c => can_be_in_number cf c = true) t -> t <> [] ->
  forall n acc s rest,
    good s -> stream s = t ++ rest -> (length t <= n)%nat ->
    exists s', scan_number cf n acc s = scan_number cf (n - length t) (acc ++ t) s' /\
               good s' /\ stream s' = rest /\ cur s' = None /\ found s' = found s.
Proof.
  intros cf t FA. induction FA as [|c t Hc FA IH]; intros NE n acc s rest G S L; [congruence|].
  cbn [app] in S. cbn [length] in L. destruct n as [|n]; [lia|].
  pose proof (numchar_nonzero _ _ Hc) as CZ.
  destruct (next_cons s c _ G S CZ) as (s1 & E1 & G1 & S1 & C1 & F1).
  cbn [scan_number]. rewrite E1, Hc.
  destruct t as [|c2 t2].
  - exists (move s1). cbn [length Nat.sub]. rewrite Nat.sub_0_r. cbn [app] in S1. splits; auto.
  - destruct (IH ltac:(discriminate) n (acc ++ [c]) _ rest G1 S1 ltac:(lia))
      as (s' & E' & G' & S' & C' & F').
    exists s'. rewrite E'. rewrite <- app_assoc. cbn [app length Nat.sub].
    splits; auto. congruence.
Qed.

Lemma parse_numeric_exact : forall cf t v rest s,
  jnumber t -> num_den cf t v ->
  good s -> stream s = t ++ rest -> delimiter cf rest ->
  exists s2, good s2 /\ stream s2 = rest /\ cur s2 = None /\ found s2 = found s /\
             parse_numeric_value cf s = (Ok, v, snd (current s2)).
Proof.
  intros cf t v rest s J (Len & Den) G S D.
  destruct (jnumber_chars cf t J) as [FA (c0 & r0 & Et & _)].
  assert (NE : t <> []) by (rewrite Et; discriminate).
  destruct (scan_number_all_cur cf t FA NE 63 [] s rest G S Len) as (s2 & E2 & G2 & S2 & C2 & F2).
  exists s2. splits; auto.
  destruct (current_load s2 rest C2 S2) as (K1 & _).
  unfold parse_numeric_value. rewrite E2. cbn [app].
  destruct (Nat.eqb (length t) 63) eqn:E63.
  - apply Nat.eqb_eq in E63. rewrite E63. cbn [Nat.sub scan_number].
    rewrite E63. cbn [Nat.eqb]. rewrite Den. reflexivity.
  - apply Nat.eqb_neq in E63.
    destruct (63 - length t)%nat as [|k] eqn:EK; [lia|].
    cbn [scan_number].
    destruct (current s2) as [c s3] eqn:E3. cbn [fst snd] in *. subst c.
    assert (X : can_be_in_number cf (hd 0 rest) = false).
    { destruct rest as [|b r]; [apply not_numchar; auto|exact D]. }
    rewrite X. apply Nat.eqb_neq in E63. rewrite E63. rewrite Den. reflexivity.
Qed.

(* ------------------------------------------------------------------------------------- *)
(* one call on  whitespace, value, anything *)

Lemma skipn_app_exact : forall (a b : bytes), skipn (length a) (a ++ b) = b.
Proof. intros a b. induction a as [|x a IH]; [reflexivity|exact IH]. Qed.

Definition after_value (v : jv) (rest : bytes) : bytes := if is_number v then tl rest else rest.
Definition extra_read (v : jv) (rest : bytes) : N :=
  if is_number v then (match rest with [] => 0 | _ => 1 end) else 0.

(* General form: the byte after the value only matters for a number, and the reader's unread bytes are
   given too. *)
Theorem json_run_reads_value_strong : forall cf, decode_unicode cf = true ->
  forall d t v, jvalueD (num_den cf) d t v -> forall L w rest, ws w -> (d <= L)%nat ->
  (is_number v = true -> delimiter cf rest) ->
  let o := json_run cf None L (w ++ t ++ rest) in
  j_err o = (if is_number v
             then (match rest with
                   | [] => Ok
                   | c :: _ => if (c =? 0)%N || is_space c then Ok else InvalidInput
                   end)
             else Ok) /\
  j_doc o = v /\
  reads (j_st o) = N.of_nat (length (w ++ t)) + extra_read v rest /\
  JsonParse.rest (j_st o) = after_value v rest.
Proof.
  intros cf DU d t v J L w rest W DL D o. subst o.
  set (i := w ++ t ++ rest).
  assert (LF : (length (w ++ t ++ rest) < json_fuel i)%nat) by (unfold json_fuel, i; lia).
  assert (LI : N.of_nat (length i) = N.of_nat (length (w ++ t)) + N.of_nat (length rest)).
  { unfold i. rewrite app_assoc, app_length. lia. }
  unfold extra_read, after_value.
  destruct (is_number v) eqn:NV.
  - (* number *)
    specialize (D eq_refl).
    assert (JN : jnumber t /\ num_den cf t v).
    { destruct J; try discriminate NV; auto. }
    destruct JN as [JN ND].
    destruct (jnumber_chars cf t JN) as [_ (c & r & Et & NS)].
    assert (S0 : stream (ps_init i) = w ++ c :: (r ++ rest)) by (unfold i; rewrite Et; reflexivity).
    assert (V : vstart c) by (unfold vstart; tauto).
    destruct (pv_enter cf w (json_fuel i) (ps_init i) c _ W (good_init i) S0 V ltac:(lens))
      as (s1 & E1 & G1 & S1 & C1 & F1).
    assert (S1' : stream s1 = t ++ rest) by (rewrite S1, Et; reflexivity).
    destruct (parse_numeric_exact cf t v rest s1 JN ND G1 S1' D) as (s2 & G2 & S2 & C2 & F2 & E2).
    pose proof (pv_num cf (json_fuel i) L (ps_init i) s1 c E1 C1 NS) as E.
    rewrite E2 in E.
    pose proof (parse_variant_budget _ _ _ _ _ _ _ _ E) as B. rewrite budget_init in B.
    destruct (current_le s2) as [B2 _]. rewrite B in B2. symmetry in B2.
    destruct (reads_of_budget s2 rest _ B2 C2 S2) as [R2 _].
    destruct (current_load s2 rest C2 S2) as (_ & K2 & K3 & K4).
    unfold json_run. rewrite E. cbn [j_err j_doc j_st]. rewrite NV, K2, K3, K4.
    splits; try reflexivity.
    + destruct rest as [|b r']; cbn [hd]; [reflexivity|].
      destruct (b =? 0); cbn [negb andb orb]; [reflexivity|].
      destruct (is_space b); reflexivity.
    + lia.
  - (* anything else *)
    destruct (parse_variant_nonnumber_exact cf DU d t v J NV L (json_fuel i) (ps_init i) w rest W DL
                (good_init i) eq_refl LF) as (s' & E & G' & S' & C' & F').
    pose proof (parse_variant_budget _ _ _ _ _ _ _ _ E) as B. rewrite budget_init in B.
    destruct (reads_of_budget s' rest _ B C' S') as [R' Q'].
    unfold json_run. rewrite E. cbn [j_err j_doc j_st]. rewrite NV, andb_false_r.
    splits; try reflexivity; [lia|exact Q'].
Qed.

(* The requested statement. *)
Theorem json_run_reads_value : forall cf, decode_unicode cf = true ->
  forall d t v, jvalueD (num_den cf) d t v -> forall L w rest, ws w -> (d <= L)%nat -> delimiter cf rest ->
  let o := json_run cf None L (w ++ t ++ rest) in
  j_err o = (if is_number v then (match rest with [] => Ok | c :: _ => if (c =? 0)%N || is_space c then Ok else InvalidInput end) else Ok) /\
  j_doc o = v /\
  reads (j_st o) = N.of_nat (length (w ++ t)) + (if is_number v then (match rest with [] => 0 | _ => 1 end) else 0).
Proof.
  intros cf DU d t v J L w rest W DL D o.
  destruct (json_run_reads_value_strong cf DU d t v J L w rest W DL (fun _ => D)) as (A & B & C & _).
  splits; assumption.
Qed.

(* ===================================================================================== *)
(* Part 2 — successive calls                                                              *)

Definition nlen (l : bytes) : N := N.of_nat (length l).

(* only whitespace left: EmptyInput, everything read *)
Lemma skip_ws_end : forall cf w, ws w -> forall fuel s,
  good s -> stream s = w -> found s = false -> (length w < fuel)%nat ->
  exists s1, skip_spaces cf fuel s = (EmptyInput, s1) /\ rest s1 = [].
Proof.
  intros cf w W. induction W as [|b w Hb W IH]; intros fuel s G S F L.
  - destruct fuel as [|fuel]; [cbn in L; lia|].
    destruct (peek s [] G S) as (s' & E & F' & _ & _ & C').
    cbn [skip_spaces]. rewrite E. cbn [hd]. change (0 =? 0) with true. cbv iota.
    rewrite F', F. exists s'. split; [reflexivity|].
    destruct G as (_ & _ & Hc). unfold stream in S. unfold current in E.
    destruct (cur s) as [c|] eqn:Ec; [discriminate S|].
    unfold load in E. rewrite S in E. injection E as <-. reflexivity.
  - destruct fuel as [|fuel]; [cbn in L; lia|].
    pose proof (ws_nonzero _ Hb) as BZ.
    destruct (next_cons s b _ G S BZ) as (s' & E & G' & S' & C' & F').
    cbn [skip_spaces]. rewrite E. rewrite (eqb_false _ _ BZ).
    change ((b =? 32) || (b =? 9) || (b =? 13) || (b =? 10)) with (is_space b).
    rewrite <- is_ws_space, Hb.
    apply IH; auto; [congruence|cbn in L; lia].
Qed.

Theorem json_run_ws : forall cf L w, ws w ->
  let o := json_run cf None L w in
  j_err o = EmptyInput /\ j_doc o = JNull /\ reads (j_st o) = nlen w.
Proof.
  intros cf L w W o. subst o.
  destruct (skip_ws_end cf w W (json_fuel w) (ps_init w) (good_init w) eq_refl eq_refl
              ltac:(unfold json_fuel; lia)) as (s1 & E1 & R1).
  assert (E : parse_variant cf (json_fuel w) L None (ps_init w) = (EmptyInput, JNull, s1)).
  { destruct L; cbn [parse_variant]; rewrite E1; reflexivity. }
  pose proof (parse_variant_position _ _ _ _ _ _ _ _ E) as P. rewrite R1 in P. cbn [length] in P.
  unfold json_run. rewrite E. cbn [j_err j_doc j_st]. unfold nlen. splits; try reflexivity. lia.
Qed.

(* A well-formed stream of documents, with the result each call is expected to give.
   [stream_spec cf L pos i rs]: the stream holds the bytes [i], [pos] bytes have been taken from it
   so far, and the successive calls return [rs].
   - a document is optional whitespace then a value of the grammar, nested at most L deep;
   - a string, literal, array or object may be followed by anything (the next document may start
     immediately);
   - a number must be followed by a whitespace byte or by the end of the stream; that byte is
     taken by the call that reads the number;
   - after the last document only whitespace remains, and the next call reports EmptyInput. *)
Inductive stream_spec (cf : cfg) (L : nat) : N -> bytes -> list call_result -> Prop :=
| ss_end : forall pos w, ws w ->
    stream_spec cf L pos w [{| c_err := EmptyInput; c_pos := pos + nlen w; c_doc := JNull |}]
| ss_value : forall pos w t v d tl rs,
    ws w -> jvalueD (num_den cf) d t v -> (d <= L)%nat -> is_number v = false ->
    stream_spec cf L (pos + nlen (w ++ t)) tl rs ->
    stream_spec cf L pos (w ++ t ++ tl)
      ({| c_err := Ok; c_pos := pos + nlen (w ++ t); c_doc := v |} :: rs)
| ss_number : forall pos w t v d tl rs,
    ws w -> jvalueD (num_den cf) d t v -> (d <= L)%nat -> is_number v = true ->
    match tl with [] => True | c :: _ => is_ws c = true end ->
    stream_spec cf L (pos + nlen (w ++ t) + match tl with [] => 0 | _ => 1 end) (List.tl tl) rs ->
    stream_spec cf L pos (w ++ t ++ tl)
      ({| c_err := Ok; c_pos := pos + nlen (w ++ t) + match tl with [] => 0 | _ => 1 end;
          c_doc := v |} :: rs).

Lemma skipn_doc : forall (a tl : bytes) n,
  n = nlen a -> skipn (N.to_nat n) (a ++ tl) = tl.
Proof. intros a tl n ->. unfold nlen. rewrite Nat2N.id. apply skipn_app_exact. Qed.

Lemma skipn_doc1 : forall (a tl : bytes) n,
  n = nlen a + match tl with [] => 0 | _ => 1 end -> skipn (N.to_nat n) (a ++ tl) = List.tl tl.
Proof.
  intros a tl n ->. unfold nlen. destruct tl as [|c tl]; cbn [List.tl].
  - rewrite N.add_0_r, Nat2N.id, app_nil_r. apply skipn_all.
  - replace (N.to_nat (N.of_nat (length a) + 1)) with (length (a ++ [c])).
    + change (a ++ c :: tl) with (a ++ [c] ++ tl). rewrite app_assoc. apply skipn_app_exact.
    + rewrite app_length. cbn [length]. lia.
Qed.

(* The calls return exactly the expected results, in order, and stop after the EmptyInput. *)
Theorem json_stream_spec : forall cf, decode_unicode cf = true ->
  forall L pos i rs, stream_spec cf L pos i rs ->
  forall calls, json_stream cf L calls pos i = firstn calls rs.
Proof.
  intros cf DU L pos i rs H.
  induction H as [pos w W|pos w t v d tl rs W J DL NV H IH|pos w t v d tl rs W J DL NV TL H IH];
    intros [|calls]; try reflexivity.
  - destruct (json_run_ws cf L w W) as (A & B & C).
    cbn [json_stream firstn]. rewrite A, B, C. destruct calls; reflexivity.
  - destruct (json_run_reads_value_strong cf DU d t v J L w tl W DL
                ltac:(intro X; rewrite X in NV; discriminate NV)) as (A & B & C & _).
    unfold extra_read in C. rewrite NV in A, C. rewrite N.add_0_r in C.
    cbn [json_stream firstn]. rewrite A, B, C. fold (nlen (w ++ t)).
    rewrite app_assoc, (skipn_doc (w ++ t) tl _ eq_refl). rewrite IH. reflexivity.
  - assert (D : delimiter cf tl).
    { destruct tl as [|c tl']; cbn [delimiter]; [exact I|].
      apply not_numchar. right; left. rewrite <- is_ws_space. exact TL. }
    destruct (json_run_reads_value_strong cf DU d t v J L w tl W DL (fun _ => D)) as (A & B & C & _).
    unfold extra_read in C. rewrite NV in A, C.
    assert (A' : j_err (json_run cf None L (w ++ t ++ tl)) = Ok).
    { rewrite A. destruct tl as [|c tl']; [reflexivity|].
      rewrite <- is_ws_space, TL, orb_true_r. reflexivity. }
    cbn [json_stream firstn]. rewrite A', B, C. fold (nlen (w ++ t)).
    rewrite app_assoc, (skipn_doc1 (w ++ t) tl _ eq_refl). rewrite N.add_assoc, IH. reflexivity.
Qed.

(* ------------------------------------------------------------------------------------- *)
(* constructors up to an equation on the position, and the effect of a whitespace byte taken by the
   previous call *)

Lemma nlen_app : forall a b, nlen (a ++ b) = nlen a + nlen b.
Proof. intros a b. unfold nlen. rewrite app_length. lia. Qed.

Lemma nlen_cons : forall c a, nlen (c :: a) = 1 + nlen a.
Proof. intros c a. unfold nlen. cbn [length]. lia. Qed.

Lemma nlen_nil : nlen [] = 0.
Proof. reflexivity. Qed.

Ltac npos := rewrite ?nlen_app, ?nlen_cons, ?nlen_nil; lia.

Lemma ss_end' : forall cf L pos w p, ws w -> p = pos + nlen w ->
  stream_spec cf L pos w [{| c_err := EmptyInput; c_pos := p; c_doc := JNull |}].
Proof. intros cf L pos w p W ->. apply ss_end. exact W. Qed.

Lemma ss_value' : forall cf L pos w t v d tl rs p,
  ws w -> jvalueD (num_den cf) d t v -> (d <= L)%nat -> is_number v = false ->
  p = pos + nlen (w ++ t) ->
  stream_spec cf L p tl rs ->
  stream_spec cf L pos (w ++ t ++ tl) ({| c_err := Ok; c_pos := p; c_doc := v |} :: rs).
Proof. intros cf L pos w t v d tl rs p W J DL NV -> H. eapply ss_value; eassumption. Qed.

Lemma ss_number' : forall cf L pos w t v d tl rs p,
  ws w -> jvalueD (num_den cf) d t v -> (d <= L)%nat -> is_number v = true ->
  match tl with [] => True | c :: _ => is_ws c = true end ->
  p = pos + nlen (w ++ t) + match tl with [] => 0 | _ => 1 end ->
  stream_spec cf L p (List.tl tl) rs ->
  stream_spec cf L pos (w ++ t ++ tl) ({| c_err := Ok; c_pos := p; c_doc := v |} :: rs).
Proof. intros cf L pos w t v d tl rs p W J DL NV TL -> H. eapply ss_number; eassumption. Qed.

Lemma value_not_ws : forall nd d t v c r, jvalueD nd d t v -> t = c :: r -> is_ws c = false.
Proof.
  intros nd d t v c r J E. destruct (jvalueD_head _ _ _ _ J) as (c0 & r0 & E0 & V).
  rewrite E in E0. injection E0 as -> _.
  destruct (vstart_props c0 V) as (_ & NS & _). rewrite is_ws_space. exact NS.
Qed.

Lemma doc_head_ws : forall nd d t v (w tl : bytes) c i,
  jvalueD nd d t v -> w ++ t ++ tl = c :: i -> is_ws c = true ->
  exists w', w = c :: w' /\ i = w' ++ t ++ tl.
Proof.
  intros nd d t v w tl c i J E WC. destruct w as [|b w'].
  - cbn [app] in E. destruct (jvalueD_head _ _ _ _ J) as (c0 & r0 & E0 & V).
    rewrite E0 in E. cbn [app] in E. injection E as -> _.
    rewrite (value_not_ws _ _ _ _ _ _ J E0) in WC. discriminate WC.
  - cbn [app] in E. injection E as -> <-. exists w'. split; reflexivity.
Qed.

(* if the first byte of the stream is whitespace, it makes no difference whether it has already
   been taken *)
Lemma stream_spec_shift : forall cf L pos c i rs,
  stream_spec cf L pos (c :: i) rs -> is_ws c = true -> stream_spec cf L (pos + 1) i rs.
Proof.
  intros cf L pos c i rs H WC. remember (c :: i) as i0 eqn:Ei.
  destruct H as [pos w W|pos w t v d tl rs W J DL NV H|pos w t v d tl rs W J DL NV TL H].
  - subst w. inversion W as [|? ? _ W']; subst. apply ss_end'; [exact W'|npos].
  - destruct (doc_head_ws _ _ _ _ _ _ _ _ J Ei WC) as (w' & -> & ->).
    inversion W as [|? ? _ W']; subst.
    eapply ss_value'; try eassumption. npos.
  - destruct (doc_head_ws _ _ _ _ _ _ _ _ J Ei WC) as (w' & -> & ->).
    inversion W as [|? ? _ W']; subst.
    eapply ss_number'; try eassumption. npos.
Qed.

(* ------------------------------------------------------------------------------------- *)
(* NDJSON: documents separated by arbitrary whitespace *)

Record doc := { d_ws : bytes; d_text : bytes; d_val : jv }.

(* leading whitespace, then a value of the grammar nested at most L deep *)
Definition doc_ok (cf : cfg) (L : nat) (d : doc) : Prop :=
  ws (d_ws d) /\ exists n, (n <= L)%nat /\ jvalueD (num_den cf) n (d_text d) (d_val d).

Fixpoint nd_bytes (ds : list doc) (trail : bytes) : bytes :=
  match ds with
  | [] => trail
  | d :: ds' => d_ws d ++ d_text d ++ nd_bytes ds' trail
  end.

(* a number is followed by whitespace (of the next document, or trailing) or by the end *)
Fixpoint nd_sep (ds : list doc) (trail : bytes) : Prop :=
  match ds with
  | [] => True
  | d :: ds' =>
      (is_number (d_val d) = true ->
       match nd_bytes ds' trail with [] => True | c :: _ => is_ws c = true end) /\
      nd_sep ds' trail
  end.

(* [start] = offset of the document's first byte in the stream *)
Fixpoint nd_results (start : N) (ds : list doc) (trail : bytes) : list call_result :=
  match ds with
  | [] => [{| c_err := EmptyInput; c_pos := start + nlen trail; c_doc := JNull |}]
  | d :: ds' =>
      let e := start + nlen (d_ws d ++ d_text d) in
      {| c_err := Ok; c_pos := e + extra_read (d_val d) (nd_bytes ds' trail); c_doc := d_val d |}
      :: nd_results e ds' trail
  end.

Theorem nd_stream_spec : forall cf L ds trail,
  Forall (doc_ok cf L) ds -> ws trail -> nd_sep ds trail ->
  forall start, stream_spec cf L start (nd_bytes ds trail) (nd_results start ds trail).
Proof.
  intros cf L ds trail FA WT. induction FA as [|d ds (W & n & DL & J) FA IH]; intros SEP start.
  - cbn [nd_bytes nd_results]. apply ss_end. exact WT.
  - cbn [nd_sep] in SEP. destruct SEP as [SEP1 SEP].
    cbn [nd_bytes nd_results]. unfold extra_read.
    pose proof (IH SEP (start + nlen (d_ws d ++ d_text d))) as H.
    destruct (is_number (d_val d)) eqn:NV.
    + specialize (SEP1 eq_refl).
      eapply ss_number'; try eassumption; [reflexivity|].
      destruct (nd_bytes ds trail) as [|c r] eqn:E; cbn [List.tl].
      * rewrite N.add_0_r. exact H.
      * apply (stream_spec_shift cf L _ c r _ H SEP1).
    + rewrite N.add_0_r. eapply ss_value'; try eassumption. reflexivity.
Qed.

Lemma nd_results_length : forall ds trail start, length (nd_results start ds trail) = S (length ds).
Proof.
  induction ds as [|d ds IH]; intros trail start; cbn [nd_results length]; [reflexivity|].
  rewrite IH. reflexivity.
Qed.

(* what the result list looks like: the documents in order, all Ok, then one EmptyInput *)
Lemma nd_results_docs : forall ds trail start,
  map c_doc (nd_results start ds trail) = map d_val ds ++ [JNull] /\
  map c_err (nd_results start ds trail) = repeat Ok (length ds) ++ [EmptyInput].
Proof.
  induction ds as [|d ds IH]; intros trail start; cbn [nd_results map length repeat app c_doc c_err].
  - split; reflexivity.
  - destruct (IH trail (start + nlen (d_ws d ++ d_text d))) as [A B]. rewrite A, B. split; reflexivity.
Qed.

(* Main theorem, general form: any number of calls. *)
Theorem json_stream_ndjson : forall cf, decode_unicode cf = true ->
  forall L ds trail, Forall (doc_ok cf L) ds -> ws trail -> nd_sep ds trail ->
  forall calls,
    json_stream cf L calls 0 (nd_bytes ds trail) = firstn calls (nd_results 0 ds trail).
Proof.
  intros cf DU L ds trail FA WT SEP calls.
  apply (json_stream_spec cf DU L 0 _ _ (nd_stream_spec cf L ds trail FA WT SEP 0)).
Qed.

(* n documents, n + 1 calls: the n documents, then EmptyInput *)
Theorem json_stream_returns_documents : forall cf, decode_unicode cf = true ->
  forall L ds trail, Forall (doc_ok cf L) ds -> ws trail -> nd_sep ds trail ->
  json_stream cf L (S (length ds)) 0 (nd_bytes ds trail) = nd_results 0 ds trail.
Proof.
  intros cf DU L ds trail FA WT SEP.
  rewrite (json_stream_ndjson cf DU L ds trail FA WT SEP).
  rewrite <- (nd_results_length ds trail 0). apply firstn_all.
Qed.

(* ------------------------------------------------------------------------------------- *)
(* JSON Lines: every document is followed by exactly one separator byte (space, tab, CR or LF) *)

Record line := { l_text : bytes; l_val : jv; l_sep : N }.

Definition line_ok (cf : cfg) (L : nat) (l : line) : Prop :=
  is_ws (l_sep l) = true /\ exists n, (n <= L)%nat /\ jvalueD (num_den cf) n (l_text l) (l_val l).

Fixpoint jsonl_bytes (ls : list line) : bytes :=
  match ls with
  | [] => []
  | l :: ls' => l_text l ++ l_sep l :: jsonl_bytes ls'
  end.

(* [start] = offset of the line in the stream; a call stops right after the value, or after the
   separator when the value is a number *)
Fixpoint jsonl_results (start : N) (ls : list line) : list call_result :=
  match ls with
  | [] => [{| c_err := EmptyInput; c_pos := start; c_doc := JNull |}]
  | l :: ls' =>
      {| c_err := Ok; c_pos := start + nlen (l_text l) + (if is_number (l_val l) then 1 else 0);
         c_doc := l_val l |}
      :: jsonl_results (start + nlen (l_text l) + 1) ls'
  end.

Lemma jsonl_stream_spec : forall cf L ls, Forall (line_ok cf L) ls ->
  forall w pos, ws w ->
  stream_spec cf L pos (w ++ jsonl_bytes ls) (jsonl_results (pos + nlen w) ls).
Proof.
  intros cf L ls FA. induction FA as [|l ls (WS & n & DL & J) FA IH]; intros w pos W.
  - cbn [jsonl_bytes jsonl_results]. rewrite app_nil_r. apply ss_end'; [exact W|reflexivity].
  - cbn [jsonl_bytes jsonl_results].
    destruct (is_number (l_val l)) eqn:NV.
    + eapply ss_number'; try eassumption; [npos|]. cbn [List.tl].
      pose proof (IH [] (pos + nlen w + nlen (l_text l) + 1) ws_nil) as H.
      cbn [app] in H. rewrite nlen_nil, N.add_0_r in H. exact H.
    + eapply ss_value'; try eassumption; [npos|].
      pose proof (IH [l_sep l] (pos + nlen (w ++ l_text l)) (ws_cons _ _ WS ws_nil)) as H.
      cbn [app] in H.
      replace (pos + nlen (w ++ l_text l) + nlen [l_sep l]) with (pos + nlen w + nlen (l_text l) + 1)
        in H by npos.
      replace (pos + nlen w + nlen (l_text l) + 0) with (pos + nlen (w ++ l_text l)) by npos.
      exact H.
Qed.

Lemma jsonl_results_length : forall ls start, length (jsonl_results start ls) = S (length ls).
Proof.
  induction ls as [|l ls IH]; intro start; cbn [jsonl_results length]; [reflexivity|].
  rewrite IH. reflexivity.
Qed.

Theorem json_stream_jsonl : forall cf, decode_unicode cf = true ->
  forall L ls, Forall (line_ok cf L) ls ->
  forall calls, json_stream cf L calls 0 (jsonl_bytes ls) = firstn calls (jsonl_results 0 ls).
Proof.
  intros cf DU L ls FA calls.
  pose proof (jsonl_stream_spec cf L ls FA [] 0 ws_nil) as H. cbn [app] in H.
  exact (json_stream_spec cf DU L 0 _ _ H calls).
Qed.

Theorem json_stream_returns_documents_jsonl : forall cf, decode_unicode cf = true ->
  forall L ls, Forall (line_ok cf L) ls ->
  json_stream cf L (S (length ls)) 0 (jsonl_bytes ls) = jsonl_results 0 ls.
Proof.
  intros cf DU L ls FA. rewrite (json_stream_jsonl cf DU L ls FA).
  rewrite <- (jsonl_results_length ls 0). apply firstn_all.
Qed.

(* ------------------------------------------------------------------------------------- *)
(* the expected-result functions evaluated against the model on concrete streams (sanity checks of the
   statements, independent of the theorems) *)

(*  {"a":1}\n[1,2]\n3\n"x"\n  *)
Definition ex_lines : list line :=
  [ {| l_text := [123; 34; 97; 34; 58; 49; 125]; l_val := JObj [([97], JInt 1)]; l_sep := 10 |};
    {| l_text := [91; 49; 44; 50; 93]; l_val := JArr [JInt 1; JInt 2]; l_sep := 10 |};
    {| l_text := [51]; l_val := JInt 3; l_sep := 10 |};
    {| l_text := [34; 120; 34]; l_val := JStr [120]; l_sep := 10 |} ].

Example ex_jsonl :
  json_stream default_cfg 10 5 0 (jsonl_bytes ex_lines) = jsonl_results 0 ex_lines /\
  map c_pos (jsonl_results 0 ex_lines) = [7; 13; 16; 19; 20].
Proof. split; vm_compute; reflexivity. Qed.

(*  1 2 "x"[]<space><space>7  : values touching each other, a number ending the stream *)
Definition ex_docs : list doc :=
  [ {| d_ws := []; d_text := [49]; d_val := JInt 1 |};
    {| d_ws := [32]; d_text := [50]; d_val := JInt 2 |};
    {| d_ws := [32]; d_text := [34; 120; 34]; d_val := JStr [120] |};
    {| d_ws := []; d_text := [91; 93]; d_val := JArr [] |};
    {| d_ws := [32; 32]; d_text := [55]; d_val := JInt 7 |} ].

Example ex_ndjson :
  json_stream default_cfg 10 6 0 (nd_bytes ex_docs []) = nd_results 0 ex_docs [] /\
  map c_pos (nd_results 0 ex_docs []) = [2; 4; 7; 9; 12; 12].
Proof. split; vm_compute; reflexivity. Qed.
