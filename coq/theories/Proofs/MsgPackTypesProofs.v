(* MsgPackTypesProofs.v — the typed bin / ext converters (Model/MsgPackTypes.v) against the MessagePack
   format (Spec/MsgPackSpec.v).
     1. binary_raw_is_legal, binary_raw_narrowest        toJson builds a legal bin object, narrowest header
     2. extension_raw_is_legal, extension_raw_header      toJson builds a legal ext object; fixext exactly for
        extension_fixext_iff, extension_ext8_iff          payload sizes 1, 2, 4, 8, 16
     3. binary_roundtrip, extension_roundtrip             fromJson (toJson p) = p
     4. binary_of_raw_sound, extension_of_raw_sound       what fromJson recognises is header ++ payload
     5. binary_through_document, extension_through_document   serializer / deserializer keep the raw bytes *)
From Coq Require Import ZArith NArith List Bool Lia.
From AJ Require Import Model.Base Model.Value Model.JsonParse Model.MsgPack Model.MsgPackTypes.
From AJ Require Import Proofs.MsgPackRT Spec.MsgPackSpec Proofs.MsgPackComplete.
Import ListNotations.
Local Open Scope N_scope.
Set Warnings "-abstract-large-number".

(* ------------------------------------------------------------------------------------- *)
(* big-endian helpers: the N-valued accumulator of the model against the spec's [be_num] *)

Lemma fold_be_value : forall l acc,
  Z.of_N (fold_left (fun acc b => acc * 256 + b) l acc) = be_value l (Z.of_N acc).
Proof.
  induction l as [|b t IH]; intros acc; cbn [fold_left be_value]; [reflexivity|].
  rewrite IH. f_equal. lia.
Qed.

Lemma be_val_num : forall l, Z.of_N (be_val l) = be_num l.
Proof.
  intros l. unfold be_val. rewrite fold_be_value. rewrite be_value_num.
  change (Z.of_N 0) with 0%Z. lia.
Qed.

Lemma be_n_length : forall w n, length (be_n w n) = w.
Proof. intros. apply be_bytes_length. Qed.

Lemma be_n_is_be : forall w n, (Z.of_N n < 2 ^ (8 * Z.of_nat w))%Z -> is_be w (Z.of_N n) (be_n w n).
Proof. intros w n H. apply be_bytes_is_be. lia. Qed.

Lemma be_val_be_n : forall w n, (Z.of_N n < 2 ^ (8 * Z.of_nat w))%Z -> be_val (be_n w n) = n.
Proof.
  intros w n H. apply N2Z.inj. rewrite be_val_num.
  destruct (be_n_is_be w n H) as (_ & _ & E). exact E.
Qed.

Lemma pow_8_1 : (2 ^ (8 * Z.of_nat 1) = 256)%Z. Proof. reflexivity. Qed.
Lemma pow_8_2 : (2 ^ (8 * Z.of_nat 2) = 65536)%Z. Proof. reflexivity. Qed.
Lemma pow_8_4 : (2 ^ (8 * Z.of_nat 4) = 4294967296)%Z. Proof. reflexivity. Qed.

(* nat literals above 5000 are opaque to lia: bridge to Z once *)
Lemma le_65535_nat : forall n : nat, (Z.of_nat n <= 65535)%Z -> (n <= 65535)%nat.
Proof.
  intros n H. unfold Nat.of_num_uint, Nat.of_uint. cbn [Nat.of_uint_acc].
  rewrite !Nat.tail_mul_spec. lia.
Qed.

Lemma Some_inj : forall (A : Type) (a b : A), Some a = Some b -> a = b.
Proof. intros A a b H. congruence. Qed.

Lemma nlen_app : forall a b, nlen (a ++ b) = nlen a + nlen b.
Proof. intros. unfold nlen. rewrite app_length. lia. Qed.

Lemma nlen_cons : forall a b, nlen (a :: b) = 1 + nlen b.
Proof. intros. unfold nlen. cbn [length]. lia. Qed.

Lemma nlen_be_n : forall w n, nlen (be_n w n) = N.of_nat w.
Proof. intros. unfold nlen. rewrite be_n_length. reflexivity. Qed.

Lemma len1 : forall (l : bytes), length l = 1%nat -> exists a, l = [a].
Proof. intros [|a [|b t]] H; try discriminate. exists a. reflexivity. Qed.

Lemma len2 : forall (l : bytes), length l = 2%nat -> exists a b, l = [a; b].
Proof. intros [|a [|b [|c t]]] H; try discriminate. exists a, b. reflexivity. Qed.

(* the header recognised by fromJson is a big-endian field of the spec *)
Lemma field_is_be : forall (l p : bytes), octets l -> nlen p = be_val l ->
  is_be (length l) (Z.of_nat (length p)) l.
Proof.
  intros l p Ho H. split; [reflexivity|]. split; [exact Ho|].
  rewrite <- be_val_num. rewrite <- H. unfold nlen. lia.
Qed.

Lemma octets_firstn : forall n (l : bytes), octets l -> octets (firstn n l).
Proof.
  intros n l H. apply Forall_forall. intros x Hx.
  unfold octets in H. rewrite Forall_forall in H. apply H.
  rewrite <- (firstn_skipn n l). apply in_or_app. left. exact Hx.
Qed.

Lemma octets_inv : forall a (l : bytes), octets (a :: l) -> a < 256 /\ octets l.
Proof. intros a l H. inversion H; subst. split; assumption. Qed.

(* ------------------------------------------------------------------------------------- *)
(* 1. Converter<MsgPackBinary>::toJson *)

(* what the converter writes; a payload that would need bin 32 never fits a string node *)
Lemma binary_raw_cases : forall p raw, mp_binary_raw p = Some raw ->
  (Z.of_nat (length raw) <= 65535)%Z /\
  (((length p < 256)%nat /\ raw = 0xC4 :: be_n 1 (nlen p) ++ p) \/
   ((256 <= Z.of_nat (length p) < 65536)%Z /\ raw = 0xC5 :: be_n 2 (nlen p) ++ p)).
Proof.
  intros p raw H. unfold mp_binary_raw in H. cbv zeta in H.
  destruct (0x10000 <=? nlen p) eqn:E1.
  - exfalso. apply N.leb_le in E1.
    destruct (nlen (0xC6 :: be_n 4 (nlen p) ++ p) <=? 65535) eqn:E; [|discriminate].
    apply N.leb_le in E. rewrite nlen_cons, nlen_app, nlen_be_n in E. lia.
  - apply N.leb_gt in E1. destruct (0x100 <=? nlen p) eqn:E2.
    + apply N.leb_le in E2.
      destruct (nlen (0xC5 :: be_n 2 (nlen p) ++ p) <=? 65535) eqn:E; [|discriminate].
      apply N.leb_le in E. apply Some_inj in H. subst raw.
      split; [unfold nlen in *; lia|]. right. split; [unfold nlen in *; lia|reflexivity].
    + apply N.leb_gt in E2.
      destruct (nlen (0xC4 :: be_n 1 (nlen p) ++ p) <=? 65535) eqn:E; [|discriminate].
      apply N.leb_le in E. apply Some_inj in H. subst raw.
      split; [unfold nlen in *; lia|]. left. split; [unfold nlen in *; lia|reflexivity].
Qed.

Lemma binary_raw_hdr : forall p raw, mp_binary_raw p = Some raw ->
  exists h, raw = h ++ p /\ BinHdr (Z.of_nat (length p)) h.
Proof.
  intros p raw H. destruct (binary_raw_cases p raw H) as (_ & [(Hl & E)|(Hl & E)]); subst raw.
  - exists (0xC4 :: be_n 1 (nlen p)). split; [reflexivity|]. apply BH_8.
    replace (Z.of_nat (length p)) with (Z.of_N (nlen p)) by (unfold nlen; lia).
    apply be_n_is_be. rewrite pow_8_1. unfold nlen. lia.
  - exists (0xC5 :: be_n 2 (nlen p)). split; [reflexivity|]. apply BH_16.
    replace (Z.of_nat (length p)) with (Z.of_N (nlen p)) by (unfold nlen; lia).
    apply be_n_is_be. rewrite pow_8_2. unfold nlen. lia.
Qed.

Theorem binary_raw_is_legal : forall p raw, mp_binary_raw p = Some raw ->
  MpEnc (MBin raw) raw /\ (length raw <= 65535)%nat.
Proof.
  intros p raw H. split; [|apply le_65535_nat; apply (binary_raw_cases p raw H)].
  destruct (binary_raw_hdr p raw H) as (h & E & Hh). subst raw. apply E_bin. exact Hh.
Qed.

(* the header is the narrowest one (the bin 32 clause holds vacuously: see binary_raw_max) *)
Theorem binary_raw_narrowest : forall p raw, mp_binary_raw p = Some raw ->
  ((length p < 256)%nat -> hd 0 raw = 0xC4) /\
  ((256 <= Z.of_nat (length p) < 65536)%Z -> hd 0 raw = 0xC5) /\
  ((65536 <= Z.of_nat (length p))%Z -> hd 0 raw = 0xC6).
Proof.
  intros p raw H. destruct (binary_raw_cases p raw H) as (_ & [(Hl & E)|(Hl & E)]); subst raw;
    (split; [|split]); intros Hc; try reflexivity; lia.
Qed.

(* exactly the payloads of at most 65532 bytes can be stored *)
Theorem binary_raw_max : forall p, (exists raw, mp_binary_raw p = Some raw) <-> (Z.of_nat (length p) <= 65532)%Z.
Proof.
  intros p. split.
  - intros (raw & H). destruct (binary_raw_cases p raw H) as (Hr & [(Hl & E)|(Hl & E)]); subst raw.
    + lia.
    + cbn [length] in Hr. rewrite app_length, be_n_length in Hr. lia.
  - intros H. unfold mp_binary_raw. cbv zeta.
    destruct (0x10000 <=? nlen p) eqn:E1; [apply N.leb_le in E1; unfold nlen in E1; lia|].
    destruct (0x100 <=? nlen p) eqn:E2.
    + destruct (nlen (0xC5 :: be_n 2 (nlen p) ++ p) <=? 65535) eqn:E; [eexists; reflexivity|].
      apply N.leb_gt in E. rewrite nlen_cons, nlen_app, nlen_be_n in E. unfold nlen in E. lia.
    + destruct (nlen (0xC4 :: be_n 1 (nlen p) ++ p) <=? 65535) eqn:E; [eexists; reflexivity|].
      apply N.leb_gt in E. rewrite nlen_cons, nlen_app, nlen_be_n in E. unfold nlen in E. lia.
Qed.

(* ------------------------------------------------------------------------------------- *)
(* 2. Converter<MsgPackExtension>::toJson *)

Definition fixext_size (n : nat) : Prop := In n [1; 2; 4; 8; 16]%nat.

Lemma extension_raw_cases : forall ty p raw, mp_extension_raw ty p = Some raw ->
  (Z.of_nat (length raw) <= 65535)%Z /\
  exists h, raw = h ++ ty :: p /\
    ((length p = 1%nat /\ h = [0xD4]) \/
     (length p = 2%nat /\ h = [0xD5]) \/
     (length p = 4%nat /\ h = [0xD6]) \/
     (length p = 8%nat /\ h = [0xD7]) \/
     (length p = 16%nat /\ h = [0xD8]) \/
     ((length p < 256)%nat /\ ~ fixext_size (length p) /\ h = 0xC7 :: be_n 1 (nlen p)) \/
     ((256 <= Z.of_nat (length p) < 65536)%Z /\ h = 0xC8 :: be_n 2 (nlen p))).
Proof.
  intros ty p raw H. unfold mp_extension_raw in H. cbv zeta in H.
  match type of H with (if nlen (?hh ++ _) <=? _ then _ else _) = _ => set (h := hh) in * end.
  destruct (nlen (h ++ ty :: p) <=? 65535) eqn:E; [|discriminate].
  apply N.leb_le in E. apply Some_inj in H. subst raw.
  split; [unfold nlen in *; lia|]. exists h. split; [reflexivity|].
  rewrite nlen_app, nlen_cons in E. subst h.
  destruct (0x10000 <=? nlen p) eqn:E1; [apply N.leb_le in E1; lia|]. apply N.leb_gt in E1.
  destruct (0x100 <=? nlen p) eqn:E2.
  { apply N.leb_le in E2. do 6 right. split; [unfold nlen in *; lia|reflexivity]. }
  apply N.leb_gt in E2.
  destruct (nlen p =? 16) eqn:E16.
  { apply N.eqb_eq in E16. do 4 right. left. split; [unfold nlen in *; lia|reflexivity]. }
  destruct (nlen p =? 8) eqn:E8.
  { apply N.eqb_eq in E8. do 3 right. left. split; [unfold nlen in *; lia|reflexivity]. }
  destruct (nlen p =? 4) eqn:E4.
  { apply N.eqb_eq in E4. do 2 right. left. split; [unfold nlen in *; lia|reflexivity]. }
  destruct (nlen p =? 2) eqn:E2'.
  { apply N.eqb_eq in E2'. right. left. split; [unfold nlen in *; lia|reflexivity]. }
  destruct (nlen p =? 1) eqn:E1'.
  { apply N.eqb_eq in E1'. left. split; [unfold nlen in *; lia|reflexivity]. }
  apply N.eqb_neq in E16, E8, E4, E2', E1'.
  do 5 right. left. split; [unfold nlen in *; lia|]. split; [|reflexivity].
  unfold fixext_size. cbn [In]. unfold nlen in *. lia.
Qed.

Lemma extension_raw_hdr : forall ty p raw, mp_extension_raw ty p = Some raw ->
  exists h, raw = h ++ ty :: p /\ ExtHdr (Z.of_nat (length p)) h.
Proof.
  intros ty p raw H. destruct (extension_raw_cases ty p raw H) as (_ & h & E & C).
  exists h. split; [exact E|].
  destruct C as [(L & Eh)|[(L & Eh)|[(L & Eh)|[(L & Eh)|[(L & Eh)|[(L & _ & Eh)|(L & Eh)]]]]]]; subst h.
  - rewrite L. apply XH_fix1.
  - rewrite L. apply XH_fix2.
  - rewrite L. apply XH_fix4.
  - rewrite L. apply XH_fix8.
  - rewrite L. apply XH_fix16.
  - apply XH_8. replace (Z.of_nat (length p)) with (Z.of_N (nlen p)) by (unfold nlen; lia).
    apply be_n_is_be. rewrite pow_8_1. unfold nlen. lia.
  - apply XH_16. replace (Z.of_nat (length p)) with (Z.of_N (nlen p)) by (unfold nlen; lia).
    apply be_n_is_be. rewrite pow_8_2. unfold nlen. lia.
Qed.

Theorem extension_raw_is_legal : forall ty p raw, ty < 256 -> mp_extension_raw ty p = Some raw ->
  MpEnc (MExt raw) raw /\ (length raw <= 65535)%nat.
Proof.
  intros ty p raw _ H. split; [|apply le_65535_nat; apply (extension_raw_cases ty p raw H)].
  destruct (extension_raw_hdr ty p raw H) as (h & E & Hh). subst raw. apply E_ext. exact Hh.
Qed.

(* which header is written, by payload size (the ext 32 clause holds vacuously: see extension_raw_max) *)
Theorem extension_raw_header : forall ty p raw, mp_extension_raw ty p = Some raw ->
  (length p = 1%nat -> raw = 0xD4 :: ty :: p) /\
  (length p = 2%nat -> raw = 0xD5 :: ty :: p) /\
  (length p = 4%nat -> raw = 0xD6 :: ty :: p) /\
  (length p = 8%nat -> raw = 0xD7 :: ty :: p) /\
  (length p = 16%nat -> raw = 0xD8 :: ty :: p) /\
  ((length p < 256)%nat -> ~ fixext_size (length p) -> raw = 0xC7 :: nlen p :: ty :: p) /\
  ((256 <= Z.of_nat (length p) < 65536)%Z -> hd 0 raw = 0xC8) /\
  ((65536 <= Z.of_nat (length p))%Z -> hd 0 raw = 0xC9).
Proof.
  intros ty p raw H. destruct (extension_raw_cases ty p raw H) as (_ & h & E & C).
  assert (B1 : (length p < 256)%nat -> be_n 1 (nlen p) = [nlen p]).
  { intros Hl. destruct (len1 (be_n 1 (nlen p)) (be_n_length 1 _)) as (a & Ea).
    assert (V : be_val (be_n 1 (nlen p)) = nlen p)
      by (apply be_val_be_n; rewrite pow_8_1; unfold nlen; lia).
    rewrite Ea in V. change (be_val [a]) with a in V. rewrite Ea, V. reflexivity. }
  unfold fixext_size. cbn [In].
  destruct C as [(L & Eh)|[(L & Eh)|[(L & Eh)|[(L & Eh)|[(L & Eh)|[(L & NF & Eh)|(L & Eh)]]]]]];
    subst h; subst raw; repeat split; intros; try reflexivity; try lia.
  - unfold fixext_size in NF. cbn [In] in NF. lia.
  - unfold fixext_size in NF. cbn [In] in NF. lia.
  - unfold fixext_size in NF. cbn [In] in NF. lia.
  - unfold fixext_size in NF. cbn [In] in NF. lia.
  - unfold fixext_size in NF. cbn [In] in NF. lia.
  - rewrite B1 by assumption. reflexivity.
Qed.

(* fixext is used exactly for the payload sizes 1, 2, 4, 8, 16 *)
Theorem extension_fixext_iff : forall ty p raw, mp_extension_raw ty p = Some raw ->
  (0xD4 <= hd 0 raw <= 0xD8 <-> fixext_size (length p)).
Proof.
  intros ty p raw H. destruct (extension_raw_cases ty p raw H) as (_ & h & E & C).
  unfold fixext_size in *. cbn [In] in *.
  destruct C as [(L & Eh)|[(L & Eh)|[(L & Eh)|[(L & Eh)|[(L & Eh)|[(L & NF & Eh)|(L & Eh)]]]]]];
    subst h; subst raw; cbn [app hd]; split; intros; lia.
Qed.

(* ext 8 is used exactly for the sizes 0, 3, 5..7, 9..15, 17..255 *)
Theorem extension_ext8_iff : forall ty p raw, mp_extension_raw ty p = Some raw ->
  (hd 0 raw = 0xC7 <-> (length p < 256)%nat /\ ~ fixext_size (length p)).
Proof.
  intros ty p raw H. destruct (extension_raw_cases ty p raw H) as (_ & h & E & C).
  unfold fixext_size in *. cbn [In] in *.
  destruct C as [(L & Eh)|[(L & Eh)|[(L & Eh)|[(L & Eh)|[(L & Eh)|[(L & NF & Eh)|(L & Eh)]]]]]];
    subst h; subst raw; cbn [app hd]; split; intros; try lia; try discriminate.
Qed.

Theorem extension_ext16_iff : forall ty p raw, mp_extension_raw ty p = Some raw ->
  (hd 0 raw = 0xC8 <-> (256 <= Z.of_nat (length p))%Z).
Proof.
  intros ty p raw H. destruct (extension_raw_cases ty p raw H) as (_ & h & E & C).
  destruct C as [(L & Eh)|[(L & Eh)|[(L & Eh)|[(L & Eh)|[(L & Eh)|[(L & NF & Eh)|(L & Eh)]]]]]];
    subst h; subst raw; cbn [app hd]; split; intros; try lia; try discriminate.
Qed.

(* exactly the payloads of at most 65531 bytes can be stored *)
Theorem extension_raw_max : forall ty p,
  (exists raw, mp_extension_raw ty p = Some raw) <-> (Z.of_nat (length p) <= 65531)%Z.
Proof.
  intros ty p. split.
  - intros (raw & H). destruct (extension_raw_cases ty p raw H) as (Hr & h & E & C). subst raw.
    rewrite app_length in Hr. cbn [length] in Hr.
    destruct C as [(L & Eh)|[(L & Eh)|[(L & Eh)|[(L & Eh)|[(L & Eh)|[(L & NF & Eh)|(L & Eh)]]]]]];
      subst h; try lia.
    cbn [length] in Hr. rewrite be_n_length in Hr. lia.
  - intros H. unfold mp_extension_raw. cbv zeta.
    match goal with |- exists _, (if nlen (?hh ++ _) <=? _ then _ else _) = _ => set (h := hh) end.
    assert (Hh : nlen h <= 3).
    { subst h. destruct (0x10000 <=? nlen p) eqn:E1; [apply N.leb_le in E1; unfold nlen in E1; lia|].
      destruct (0x100 <=? nlen p); [rewrite nlen_cons, nlen_be_n; lia|].
      destruct (nlen p =? 16); [cbv; discriminate|]. destruct (nlen p =? 8); [cbv; discriminate|].
      destruct (nlen p =? 4); [cbv; discriminate|]. destruct (nlen p =? 2); [cbv; discriminate|].
      destruct (nlen p =? 1); [cbv; discriminate|]. rewrite nlen_cons, nlen_be_n. lia. }
    destruct (nlen (h ++ ty :: p) <=? 65535) eqn:E; [eexists; reflexivity|].
    apply N.leb_gt in E. rewrite nlen_app, nlen_cons in E. unfold nlen in E, Hh. unfold nlen. lia.
Qed.

(* ------------------------------------------------------------------------------------- *)
(* 3. round trips *)

Theorem binary_roundtrip : forall p raw, mp_binary_raw p = Some raw -> mp_binary_of_raw raw = Some p.
Proof.
  intros p raw H. destruct (binary_raw_cases p raw H) as (_ & [(Hl & E)|(Hl & E)]); subst raw.
  - assert (V : be_val (be_n 1 (nlen p)) = nlen p)
      by (apply be_val_be_n; rewrite pow_8_1; unfold nlen; lia).
    destruct (len1 (be_n 1 (nlen p)) (be_n_length 1 _)) as (a & Ea). rewrite Ea in *.
    cbn [app]. unfold mp_binary_of_raw. change (be_val [a]) with a in V. rewrite V, N.eqb_refl.
    reflexivity.
  - assert (V : be_val (be_n 2 (nlen p)) = nlen p)
      by (apply be_val_be_n; rewrite pow_8_2; unfold nlen; lia).
    destruct (len2 (be_n 2 (nlen p)) (be_n_length 2 _)) as (a & b & Ea). rewrite Ea in *.
    cbn [app]. unfold mp_binary_of_raw. rewrite V, N.eqb_refl. reflexivity.
Qed.

Lemma ext_wide_rt : forall w n ty p, (Z.of_N (nlen p) < 2 ^ (8 * Z.of_nat w))%Z -> n = nlen p ->
  match skipn w (be_n w n ++ ty :: p) with
  | ty' :: p' =>
      if (length (firstn w (be_n w n ++ ty :: p)) =? w)%nat &&
         (nlen p' =? be_val (firstn w (be_n w n ++ ty :: p)))
      then Some (ty', p') else None
  | [] => None
  end = Some (ty, p).
Proof.
  intros w n ty p Hb Hn. subst n.
  assert (Hs : skipn w (be_n w (nlen p) ++ ty :: p) = ty :: p).
  { rewrite skipn_app, be_n_length, Nat.sub_diag. cbn [skipn].
    rewrite skipn_all2 by (rewrite be_n_length; lia). reflexivity. }
  assert (Hf : firstn w (be_n w (nlen p) ++ ty :: p) = be_n w (nlen p)).
  { rewrite firstn_app, be_n_length, Nat.sub_diag. cbn [firstn].
    rewrite firstn_all2 by (rewrite be_n_length; lia). apply app_nil_r. }
  rewrite Hs, Hf, be_n_length, Nat.eqb_refl, be_val_be_n by exact Hb.
  rewrite N.eqb_refl. reflexivity.
Qed.

(* the octet hypotheses of the requested statement are not needed *)
Theorem extension_roundtrip_gen : forall ty p raw,
  mp_extension_raw ty p = Some raw -> mp_extension_of_raw raw = Some (ty, p).
Proof.
  intros ty p raw H. destruct (extension_raw_cases ty p raw H) as (_ & h & E & C). subst raw.
  destruct C as [(L & Eh)|[(L & Eh)|[(L & Eh)|[(L & Eh)|[(L & Eh)|[(L & NF & Eh)|(L & Eh)]]]]]];
    subst h; cbn [app]; unfold mp_extension_of_raw.
  - replace (nlen p) with 1 by (unfold nlen; lia). reflexivity.
  - replace (nlen p) with 2 by (unfold nlen; lia). reflexivity.
  - replace (nlen p) with 4 by (unfold nlen; lia). reflexivity.
  - replace (nlen p) with 8 by (unfold nlen; lia). reflexivity.
  - replace (nlen p) with 16 by (unfold nlen; lia). reflexivity.
  - change ((0xD4 <=? 0xC7) && (0xC7 <=? 0xD8)) with false.
    change ((0xC7 <=? 0xC7) && (0xC7 <=? 0xC9)) with true.
    change (N.to_nat (2 ^ (0xC7 - 0xC7))) with 1%nat. cbv iota zeta.
    apply ext_wide_rt; [rewrite pow_8_1; unfold nlen; lia|reflexivity].
  - change ((0xD4 <=? 0xC8) && (0xC8 <=? 0xD8)) with false.
    change ((0xC7 <=? 0xC8) && (0xC8 <=? 0xC9)) with true.
    change (N.to_nat (2 ^ (0xC8 - 0xC7))) with 2%nat. cbv iota zeta.
    apply ext_wide_rt; [rewrite pow_8_2; unfold nlen; lia|reflexivity].
Qed.

Theorem extension_roundtrip : forall ty p raw, ty < 256 -> octets p ->
  mp_extension_raw ty p = Some raw -> mp_extension_of_raw raw = Some (ty, p).
Proof. intros ty p raw _ _ H. apply extension_roundtrip_gen. exact H. Qed.

(* ------------------------------------------------------------------------------------- *)
(* 4. soundness of recognition *)

Lemma binary_of_raw_other : forall c t, c <> 0xC4 -> c <> 0xC5 -> c <> 0xC6 ->
  mp_binary_of_raw (c :: t) = None.
Proof.
  intros c t H4 H5 H6. destruct c as [|q]; [reflexivity|].
  do 8 (destruct q as [q|q|]; try reflexivity); congruence.
Qed.

Theorem binary_of_raw_sound : forall r p, octets r -> mp_binary_of_raw r = Some p ->
  exists h, r = h ++ p /\ BinHdr (Z.of_nat (length p)) h.
Proof.
  intros r p Ho H. destruct r as [|c t]; [discriminate|].
  apply octets_inv in Ho. destruct Ho as (_ & Ho).
  destruct (N.eq_dec c 0xC4) as [E4|N4]; [|destruct (N.eq_dec c 0xC5) as [E5|N5];
    [|destruct (N.eq_dec c 0xC6) as [E6|N6]; [|rewrite binary_of_raw_other in H by assumption; discriminate]]];
    subst c.
  - destruct t as [|a p']; [discriminate|]. unfold mp_binary_of_raw in H.
    destruct (nlen p' =? a) eqn:E; [|discriminate]. injection H as H. subst p'.
    apply N.eqb_eq in E. exists [0xC4; a]. split; [reflexivity|]. apply BH_8.
    apply octets_inv in Ho. destruct Ho as (Ha & _).
    apply (field_is_be [a] p); [repeat constructor; assumption|exact E].
  - destruct t as [|a [|b p']]; try discriminate. unfold mp_binary_of_raw in H.
    destruct (nlen p' =? be_val [a; b]) eqn:E; [|discriminate]. injection H as H. subst p'.
    apply N.eqb_eq in E. exists [0xC5; a; b]. split; [reflexivity|]. apply BH_16.
    apply octets_inv in Ho. destruct Ho as (Ha & Ho). apply octets_inv in Ho. destruct Ho as (Hb & _).
    apply (field_is_be [a; b] p); [repeat constructor; assumption|exact E].
  - destruct t as [|a [|b [|c [|d p']]]]; try discriminate. unfold mp_binary_of_raw in H.
    destruct (nlen p' =? be_val [a; b; c; d]) eqn:E; [|discriminate]. injection H as H. subst p'.
    apply N.eqb_eq in E. exists [0xC6; a; b; c; d]. split; [reflexivity|]. apply BH_32.
    apply octets_inv in Ho. destruct Ho as (Ha & Ho). apply octets_inv in Ho. destruct Ho as (Hb & Ho).
    apply octets_inv in Ho. destruct Ho as (Hc & Ho). apply octets_inv in Ho. destruct Ho as (Hd & _).
    apply (field_is_be [a; b; c; d] p); [repeat constructor; assumption|exact E].
Qed.

Lemma ext_wide_sound : forall w (rest : bytes) ty p, octets rest -> skipn w rest = ty :: p ->
  (length (firstn w rest) =? w)%nat && (nlen p =? be_val (firstn w rest)) = true ->
  rest = firstn w rest ++ ty :: p /\ is_be w (Z.of_nat (length p)) (firstn w rest).
Proof.
  intros w rest ty p Ho Hs H. apply andb_prop in H. destruct H as (H1 & H2).
  apply Nat.eqb_eq in H1. apply N.eqb_eq in H2. split.
  - rewrite <- Hs. symmetry. apply firstn_skipn.
  - pose proof (field_is_be (firstn w rest) p (octets_firstn w rest Ho) H2) as B.
    rewrite H1 in B. exact B.
Qed.

Theorem extension_of_raw_sound : forall r ty p, octets r -> mp_extension_of_raw r = Some (ty, p) ->
  exists h, r = h ++ ty :: p /\ ExtHdr (Z.of_nat (length p)) h.
Proof.
  intros r ty p Ho H. destruct r as [|code rest]; [discriminate|].
  apply octets_inv in Ho. destruct Ho as (_ & Ho). unfold mp_extension_of_raw in H.
  destruct ((0xD4 <=? code) && (code <=? 0xD8)) eqn:E1.
  - destruct rest as [|ty' p']; [discriminate|].
    destruct (nlen p' =? 2 ^ (code - 0xD4)) eqn:E2; [|discriminate].
    injection H as H1 H2. subst ty' p'. apply N.eqb_eq in E2.
    apply andb_prop in E1. destruct E1 as (A & B). apply N.leb_le in A, B.
    exists [code]. split; [reflexivity|].
    assert (C : code = 0xD4 \/ code = 0xD5 \/ code = 0xD6 \/ code = 0xD7 \/ code = 0xD8) by lia.
    destruct C as [C|[C|[C|[C|C]]]]; subst code.
    + change (2 ^ (0xD4 - 0xD4)) with 1 in E2.
      replace (Z.of_nat (length p)) with 1%Z by (unfold nlen in E2; lia). apply XH_fix1.
    + change (2 ^ (0xD5 - 0xD4)) with 2 in E2.
      replace (Z.of_nat (length p)) with 2%Z by (unfold nlen in E2; lia). apply XH_fix2.
    + change (2 ^ (0xD6 - 0xD4)) with 4 in E2.
      replace (Z.of_nat (length p)) with 4%Z by (unfold nlen in E2; lia). apply XH_fix4.
    + change (2 ^ (0xD7 - 0xD4)) with 8 in E2.
      replace (Z.of_nat (length p)) with 8%Z by (unfold nlen in E2; lia). apply XH_fix8.
    + change (2 ^ (0xD8 - 0xD4)) with 16 in E2.
      replace (Z.of_nat (length p)) with 16%Z by (unfold nlen in E2; lia). apply XH_fix16.
  - destruct ((0xC7 <=? code) && (code <=? 0xC9)) eqn:E3; [|discriminate].
    apply andb_prop in E3. destruct E3 as (A & B). apply N.leb_le in A, B.
    assert (C : code = 0xC7 \/ code = 0xC8 \/ code = 0xC9) by lia.
    cbv zeta in H.
    destruct C as [C|[C|C]]; subst code.
    + change (N.to_nat (2 ^ (0xC7 - 0xC7))) with 1%nat in H.
      destruct (skipn 1 rest) as [|ty' p'] eqn:Es; [discriminate|].
      destruct ((length (firstn 1 rest) =? 1)%nat && (nlen p' =? be_val (firstn 1 rest))) eqn:E4;
        [|discriminate].
      injection H as H1 H2. subst ty' p'.
      destruct (ext_wide_sound 1 rest ty p Ho Es E4) as (Er & Hb).
      exists (0xC7 :: firstn 1 rest). split; [cbn [app]; f_equal; exact Er|]. apply XH_8. exact Hb.
    + change (N.to_nat (2 ^ (0xC8 - 0xC7))) with 2%nat in H.
      destruct (skipn 2 rest) as [|ty' p'] eqn:Es; [discriminate|].
      destruct ((length (firstn 2 rest) =? 2)%nat && (nlen p' =? be_val (firstn 2 rest))) eqn:E4;
        [|discriminate].
      injection H as H1 H2. subst ty' p'.
      destruct (ext_wide_sound 2 rest ty p Ho Es E4) as (Er & Hb).
      exists (0xC8 :: firstn 2 rest). split; [cbn [app]; f_equal; exact Er|]. apply XH_16. exact Hb.
    + change (N.to_nat (2 ^ (0xC9 - 0xC7))) with 4%nat in H.
      destruct (skipn 4 rest) as [|ty' p'] eqn:Es; [discriminate|].
      destruct ((length (firstn 4 rest) =? 4)%nat && (nlen p' =? be_val (firstn 4 rest))) eqn:E4;
        [|discriminate].
      injection H as H1 H2. subst ty' p'.
      destruct (ext_wide_sound 4 rest ty p Ho Es E4) as (Er & Hb).
      exists (0xC9 :: firstn 4 rest). split; [cbn [app]; f_equal; exact Er|]. apply XH_32. exact Hb.
Qed.

(* [octets r] is needed: the recogniser compares the size field as a number, so a size "octet" of 256
   is accepted by the model although no header of the format denotes it *)
Example binary_of_raw_needs_octets :
  mp_binary_of_raw (0xC4 :: 256 :: repeat 0 256) = Some (repeat 0 256).
Proof. vm_compute. reflexivity. Qed.

(* recognised values are legal encodings (of themselves) *)
Corollary binary_of_raw_legal : forall r p, octets r -> mp_binary_of_raw r = Some p -> MpEnc (MBin r) r.
Proof.
  intros r p Ho H. destruct (binary_of_raw_sound r p Ho H) as (h & E & Hh). subst r. apply E_bin. exact Hh.
Qed.

Corollary extension_of_raw_legal : forall r ty p, octets r -> mp_extension_of_raw r = Some (ty, p) ->
  MpEnc (MExt r) r.
Proof.
  intros r ty p Ho H. destruct (extension_of_raw_sound r ty p Ho H) as (h & E & Hh). subst r.
  apply E_ext. exact Hh.
Qed.

(* a truncated header, a missing type octet, a wrong size or another family is never recognised *)
Example ext32_truncated_0 : mp_extension_of_raw [0xC9] = None. Proof. reflexivity. Qed.
Example ext32_truncated_3 : mp_extension_of_raw [0xC9; 0; 0; 0] = None. Proof. reflexivity. Qed.
Example ext32_no_type : mp_extension_of_raw [0xC9; 0; 0; 0; 0] = None. Proof. reflexivity. Qed.
Example ext32_empty_ok : mp_extension_of_raw [0xC9; 0; 0; 0; 0; 7] = Some (7, []). Proof. reflexivity. Qed.
Example ext16_truncated : mp_extension_of_raw [0xC8; 0] = None. Proof. reflexivity. Qed.
Example ext8_truncated : mp_extension_of_raw [0xC7] = None. Proof. reflexivity. Qed.
Example ext8_no_type : mp_extension_of_raw [0xC7; 0] = None. Proof. reflexivity. Qed.
Example ext8_short_payload : mp_extension_of_raw [0xC7; 2; 7; 1] = None. Proof. reflexivity. Qed.
Example ext8_long_payload : mp_extension_of_raw [0xC7; 2; 7; 1; 2; 3] = None. Proof. reflexivity. Qed.
Example fixext1_no_type : mp_extension_of_raw [0xD4] = None. Proof. reflexivity. Qed.
Example fixext1_no_payload : mp_extension_of_raw [0xD4; 7] = None. Proof. reflexivity. Qed.
Example fixext2_short : mp_extension_of_raw [0xD5; 7; 1] = None. Proof. reflexivity. Qed.
Example fixext4_ok : mp_extension_of_raw [0xD6; 7; 1; 2; 3; 4] = Some (7, [1; 2; 3; 4]). Proof. reflexivity. Qed.
Example ext_of_bin : mp_extension_of_raw [0xC4; 1; 9] = None. Proof. reflexivity. Qed.
Example ext_of_empty : mp_extension_of_raw [] = None. Proof. reflexivity. Qed.
Example bin8_truncated : mp_binary_of_raw [0xC4] = None. Proof. reflexivity. Qed.
Example bin8_short : mp_binary_of_raw [0xC4; 2; 1] = None. Proof. reflexivity. Qed.
Example bin8_long : mp_binary_of_raw [0xC4; 1; 1; 2] = None. Proof. reflexivity. Qed.
Example bin16_truncated : mp_binary_of_raw [0xC5; 0] = None. Proof. reflexivity. Qed.
Example bin32_truncated : mp_binary_of_raw [0xC6; 0; 0; 0] = None. Proof. reflexivity. Qed.
Example bin32_empty_ok : mp_binary_of_raw [0xC6; 0; 0; 0; 0] = Some []. Proof. reflexivity. Qed.
Example bin_of_str : mp_binary_of_raw [0xD9; 1; 0x61] = None. Proof. reflexivity. Qed.
Example bin_of_ext : mp_binary_of_raw [0xC7; 0; 7] = None. Proof. reflexivity. Qed.
Example bin_of_empty : mp_binary_of_raw [] = None. Proof. reflexivity. Qed.

(* ------------------------------------------------------------------------------------- *)
(* 5. through the document: the serializer writes the stored bytes verbatim, the deserializer
      rebuilds exactly the same raw value *)

Lemma binary_raw_limits : forall p raw, mp_binary_raw p = Some raw -> mp_limits (MBin raw).
Proof.
  intros p raw H. destruct (binary_raw_cases p raw H) as (Hl & _).
  cbn [mp_limits]. unfold mp_max_alloc. lia.
Qed.

Lemma extension_raw_limits : forall ty p raw, mp_extension_raw ty p = Some raw -> mp_limits (MExt raw).
Proof.
  intros ty p raw H. destruct (extension_raw_cases ty p raw H) as (Hl & _).
  cbn [mp_limits]. unfold mp_max_alloc. lia.
Qed.

Theorem binary_ser : forall p raw, mp_binary_raw p = Some raw -> mp_ser (JRaw raw) = raw.
Proof. reflexivity. Qed.

Theorem binary_through_document : forall cf p raw L rest, mp_binary_raw p = Some raw ->
  mp_ser (JRaw raw) = raw /\
  mp_run cf None L (raw ++ rest) =
    {| mp_err := Ok; mp_doc := JRaw raw;
       mp_rd := {| m_rest := rest; m_reads := N.of_nat (length raw) |} |}.
Proof.
  intros cf p raw L rest H. split; [reflexivity|].
  destruct (binary_raw_is_legal p raw H) as (He & _).
  exact (mp_run_complete cf (MBin raw) raw He (binary_raw_limits p raw H) L rest (Nat.le_0_l L)).
Qed.

Theorem extension_through_document : forall cf ty p raw L rest, ty < 256 ->
  mp_extension_raw ty p = Some raw ->
  mp_ser (JRaw raw) = raw /\
  mp_run cf None L (raw ++ rest) =
    {| mp_err := Ok; mp_doc := JRaw raw;
       mp_rd := {| m_rest := rest; m_reads := N.of_nat (length raw) |} |}.
Proof.
  intros cf ty p raw L rest Hty H. split; [reflexivity|].
  destruct (extension_raw_is_legal ty p raw Hty H) as (He & _).
  exact (mp_run_complete cf (MExt raw) raw He (extension_raw_limits ty p raw H) L rest (Nat.le_0_l L)).
Qed.

(* set(MsgPackBinary(p)); serialize; deserialize; as<MsgPackBinary>() gives p back *)
Corollary binary_full_roundtrip : forall cf p raw L rest, mp_binary_raw p = Some raw ->
  mp_binary_of_raw (mp_ser (mp_doc (mp_run cf None L (mp_ser (JRaw raw) ++ rest)))) = Some p.
Proof.
  intros cf p raw L rest H. destruct (binary_through_document cf p raw L rest H) as (_ & R).
  cbn [mp_ser]. rewrite R. cbn [mp_doc mp_ser]. apply binary_roundtrip. exact H.
Qed.

Corollary extension_full_roundtrip : forall cf ty p raw L rest, ty < 256 -> octets p ->
  mp_extension_raw ty p = Some raw ->
  mp_extension_of_raw (mp_ser (mp_doc (mp_run cf None L (mp_ser (JRaw raw) ++ rest)))) = Some (ty, p).
Proof.
  intros cf ty p raw L rest Hty Hp H.
  destruct (extension_through_document cf ty p raw L rest Hty H) as (_ & R).
  cbn [mp_ser]. rewrite R. cbn [mp_doc mp_ser]. apply extension_roundtrip; assumption.
Qed.

(* the two recognisers never accept the same bytes *)
Theorem binary_extension_disjoint : forall r p, mp_binary_of_raw r = Some p -> mp_extension_of_raw r = None.
Proof.
  intros r p H. destruct r as [|c t]; [discriminate|].
  destruct (N.eq_dec c 0xC4) as [E4|N4]; [|destruct (N.eq_dec c 0xC5) as [E5|N5];
    [|destruct (N.eq_dec c 0xC6) as [E6|N6]; [|rewrite binary_of_raw_other in H by assumption; discriminate]]];
    subst c; reflexivity.
Qed.
