(* ParseComplete.v — the JSON reader model accepts every RFC 8259 text and returns the value the
   grammar of Spec/Rfc8259.v assigns to it. *)
From Coq Require Import NArith ZArith List Bool Lia.
From AJ Require Import Model.Base Model.Value Model.Utf Model.NumParse Model.JsonParse.
From AJ Require Import Spec.Utf8Spec Spec.Rfc8259 Spec.ParseSpec.
From AJ Require Import Proofs.Sweep Proofs.UtfProofs Proofs.Lex Proofs.StringRT.
Local Open Scope N_scope.

(* ------------------------------------------------------------------------------------- *)
(* reader primitives on a state whose latch is loaded *)

Lemma current_some : forall s c, cur s = Some c -> current s = (c, s).
Proof. intros s c H. unfold current. rewrite H. reflexivity. Qed.

Lemma eat_no_some : forall s b c, cur s = Some b -> b <> c -> eat c s = (false, s).
Proof.
  intros s b c H N. unfold eat. rewrite (current_some _ _ H).
  apply N.eqb_neq in N. rewrite N. reflexivity.
Qed.

Ltac splits := repeat match goal with |- _ /\ _ => split end.

Lemma eqb_false : forall a b : N, a <> b -> (a =? b) = false.
Proof. intros a b H. apply N.eqb_neq. exact H. Qed.

(* looking at the next byte, whatever it is: the end marker gets latched at the end of input *)
Lemma peek : forall s rest,
  good s -> stream s = rest ->
  exists s', current s = (hd 0 rest, s') /\ found s' = found s /\ post s' rest /\
             lastc s' = hd 0 rest /\ cur s' = Some (hd 0 rest).
Proof.
  intros s rest G S.
  destruct rest as [|b r].
  - (* end of input *)
    destruct G as (He & Hf & Hc). unfold stream in S.
    destruct (cur s) as [c|] eqn:Ec; [discriminate|].
    unfold current. rewrite Ec. unfold load. rewrite S. cbn [lastc hd].
    eexists. split; [reflexivity|]. cbn [found lastc cur].
    split; [reflexivity|]. split; [|split; reflexivity].
    right. split; [|left; reflexivity].
    unfold at_end; cbn [ended cur fault]. rewrite He, Hf. repeat split; reflexivity.
  - destruct (N.eq_dec b 0) as [Z|NZ].
    + subst b. destruct G as (He & Hf & Hc). unfold stream in S.
      destruct (cur s) as [c|] eqn:Ec.
      { injection S as Sc Sr. subst c. destruct (Hc 0 eq_refl) as [X _]. congruence. }
      unfold current. rewrite Ec. unfold load. rewrite S. cbn [lastc hd].
      eexists. split; [reflexivity|]. cbn [found lastc cur].
      split; [reflexivity|]. split; [|split; reflexivity].
      right. split; [|right; exists r; reflexivity].
      unfold at_end; cbn [ended cur fault]. rewrite He, Hf.
      change (0 =? 0) with true. rewrite orb_true_r. repeat split; reflexivity.
    + destruct (current_cons s b r G S NZ) as (s' & E & G' & S' & C' & F' & _ & L').
      exists s'. cbn [hd]. split; [exact E|]. split; [exact F'|].
      split; [left; split; assumption|]. split; assumption.
Qed.

(* ------------------------------------------------------------------------------------- *)
(* whitespace *)

Lemma is_ws_space : forall c, is_ws c = is_space c.
Proof.
  intro c. unfold is_ws, is_space.
  destruct (c =? 32), (c =? 9), (c =? 10), (c =? 13); reflexivity.
Qed.

Lemma ws_nonzero : forall c, is_ws c = true -> c <> 0.
Proof. intros c H ->. discriminate H. Qed.

Lemma ws_not_47 : forall c, is_ws c = true -> c <> 47.
Proof. intros c H ->. discriminate H. Qed.

Lemma ws_length_app : forall (a b : bytes), length (a ++ b) = (length a + length b)%nat.
Proof. intros. apply app_length. Qed.

Lemma skip_ws : forall cf w, ws w -> forall fuel s c r,
  good s -> stream s = w ++ c :: r ->
  c <> 0 -> is_space c = false -> c <> 47 ->
  (length w < fuel)%nat ->
  exists s1, skip_spaces cf fuel s = (Ok, s1) /\ good s1 /\ stream s1 = c :: r /\
             cur s1 = Some c /\ found s1 = true /\ lastc s1 = c.
Proof.
  intros cf w W. induction W as [|b w Hb W IH]; intros fuel s c r G S NZ NS N47 L.
  - cbn [app] in S. destruct fuel as [|fuel]; [cbn in L; lia|].
    destruct (current_cons s c r G S NZ) as (s' & E & G' & S' & C' & F' & R' & L').
    cbn [skip_spaces]. rewrite E. rewrite (eqb_false _ _ NZ).
    change ((c =? 32) || (c =? 9) || (c =? 13) || (c =? 10)) with (is_space c).
    rewrite NS, (eqb_false _ _ N47), andb_false_r.
    exists (set_found s'). split; [reflexivity|].
    destruct G' as (A1 & A2 & A3).
    split; [unfold good, set_found; cbn; auto|].
    unfold set_found, stream in *; cbn in *. auto.
  - cbn [app] in S. destruct fuel as [|fuel]; [cbn in L; lia|].
    pose proof (ws_nonzero _ Hb) as BZ.
    destruct (next_cons s b _ G S BZ) as (s' & E & G' & S' & C' & F').
    cbn [skip_spaces]. rewrite E. rewrite (eqb_false _ _ BZ).
    change ((b =? 32) || (b =? 9) || (b =? 13) || (b =? 10)) with (is_space b).
    rewrite <- is_ws_space, Hb.
    apply IH; auto. cbn in L. lia.
Qed.

(* ------------------------------------------------------------------------------------- *)
(* keywords *)

Lemma skip_keyword_ok : forall kw s rest,
  Forall (fun c => c <> 0) kw -> good s -> stream s = kw ++ rest ->
  exists s', skip_keyword kw s = (Ok, s') /\ good s' /\ stream s' = rest /\ found s' = found s.
Proof.
  induction kw as [|k kw IH]; intros s rest FA G S.
  - exists s. cbn [skip_keyword]. auto.
  - inversion FA as [|? ? KZ FA']; subst. cbn [app] in S.
    destruct (next_cons s k _ G S KZ) as (s1 & E1 & G1 & S1 & C1 & F1).
    cbn [skip_keyword]. rewrite E1, (eqb_false _ _ KZ), N.eqb_refl. cbn [negb].
    destruct (IH _ _ FA' G1 S1) as (s' & E' & G' & S' & F').
    exists s'. rewrite E'. splits; auto. congruence.
Qed.

(* ------------------------------------------------------------------------------------- *)
(* strings *)

Lemma hex_value_lt : forall d v, hex_value d = Some v -> d < 256.
Proof.
  intros d v H. unfold hex_value in H.
  destruct ((48 <=? d) && (d <=? 57)) eqn:A.
  { apply andb_prop in A as [_ A]. apply N.leb_le in A. lia. }
  destruct ((65 <=? d) && (d <=? 70)) eqn:B.
  { apply andb_prop in B as [_ B]. apply N.leb_le in B. lia. }
  destruct ((97 <=? d) && (d <=? 102)) eqn:C; [|discriminate].
  apply andb_prop in C as [_ C]. apply N.leb_le in C. lia.
Qed.

Lemma simple_escape : forall e c,
  In (e, c) [(34, 34); (92, 92); (47, 47); (98, 8); (102, 12); (110, 10); (114, 13); (116, 9)] ->
  e <> 0 /\ e <> 117 /\ unescape_char e = c /\ c <> 0.
Proof.
  intros e c H. cbn [In] in H.
  repeat (destruct H as [H|H]; [injection H as <- <-; repeat split; try reflexivity; lia|]).
  contradiction.
Qed.

(* one character of the grammar = one or two iterations of the loop *)
Lemma quoted_char_step : forall cf, decode_unicode cf = true ->
  forall t b, jchar t b ->
  forall fuel cp acc s tl,
    good s -> stream s = t ++ tl -> (length t <= fuel)%nat ->
    exists fuel' s' cp',
      (fuel <= fuel' + length t)%nat /\
      good s' /\ stream s' = tl /\ cur s' = None /\ found s' = found s /\
      quoted_loop cf fuel 34 cp acc s = quoted_loop cf fuel' 34 cp' (acc ++ b) s'.
Proof.
  intros cf DU t b J. destruct J as [c C256 C32 C34 C92 | e c HIn | t u UE NS | t1 t2 h l U1 U2 Hh Hl];
    intros fuel cp acc s tl G S L.
  - (* verbatim byte *)
    cbn [app] in S. destruct fuel as [|fuel]; [cbn in L; lia|].
    assert (CZ : c <> 0) by lia.
    destruct (next_cons s c _ G S CZ) as (s1 & E1 & G1 & S1 & C1 & F1).
    exists fuel, (move s1), cp. cbn [quoted_loop]. rewrite E1.
    rewrite (eqb_false _ _ C34), (eqb_false _ _ CZ), (eqb_false _ _ C92).
    cbn [length]. splits; auto. lia.
  - (* two-character escape *)
    destruct (simple_escape e c HIn) as (EZ & EU & UN & CZ).
    cbn [app] in S. destruct fuel as [|fuel]; [cbn in L; lia|].
    assert (Q92 : 92 <> 0) by lia.
    destruct (next_cons s 92 _ G S Q92) as (s1 & E1 & G1 & S1 & C1 & F1).
    destruct (current_cons _ e _ G1 S1 EZ) as (s2 & E2 & G2 & S2 & C2 & F2 & _).
    destruct (move_cons _ _ _ G2 C2 S2) as (G3 & S3 & C3 & F3).
    exists fuel, (move s2), cp. cbn [quoted_loop]. rewrite E1.
    change (92 =? 34) with false. change (92 =? 0) with false. change (92 =? 92) with true.
    cbv iota. rewrite E2.
    rewrite (eqb_false _ _ EZ), (eqb_false _ _ EU), UN, (eqb_false _ _ CZ).
    cbn [length]. splits; auto; try lia. congruence.
  - (* \uXXXX, BMP *)
    destruct UE as [d1 d2 d3 d4 v1 v2 v3 v4 H1 H2 H3 H4].
    cbn [app] in S. destruct fuel as [|fuel]; [cbn in L; lia|].
    destruct (quoted_step_bmp cf fuel cp acc s d1 d2 d3 d4 v1 v2 v3 v4 tl DU G S
                (hex_value_lt _ _ H1) (hex_value_lt _ _ H2) (hex_value_lt _ _ H3) (hex_value_lt _ _ H4)
                H1 H2 H3 H4 NS) as (s' & cp' & G' & S' & C' & F' & E').
    exists fuel, s', cp'. cbn [length]. splits; auto. lia.
  - (* surrogate pair *)
    destruct U1 as [d1 d2 d3 d4 v1 v2 v3 v4 H1 H2 H3 H4].
    destruct U2 as [e1 e2 e3 e4 w1 w2 w3 w4 K1 K2 K3 K4].
    cbn [app] in S. cbn [app length] in L.
    destruct fuel as [|[|fuel]]; [lia|lia|].
    destruct (quoted_step_pair cf fuel cp acc s d1 d2 d3 d4 v1 v2 v3 v4 e1 e2 e3 e4 w1 w2 w3 w4 tl DU G S
                (hex_value_lt _ _ H1) (hex_value_lt _ _ H2) (hex_value_lt _ _ H3) (hex_value_lt _ _ H4)
                (hex_value_lt _ _ K1) (hex_value_lt _ _ K2) (hex_value_lt _ _ K3) (hex_value_lt _ _ K4)
                H1 H2 H3 H4 K1 K2 K3 K4 Hh Hl) as (s' & cp' & G' & S' & C' & F' & E').
    exists fuel, s', cp'. cbn [app length]. splits; auto. lia.
Qed.

Lemma quoted_chars : forall cf, decode_unicode cf = true ->
  forall body str, jchars body str ->
  forall fuel cp acc s tail,
    good s -> stream s = body ++ 34 :: tail -> (length body < fuel)%nat ->
    exists s', quoted_loop cf fuel 34 cp acc s = (Ok, acc ++ str, s') /\
               good s' /\ stream s' = tail /\ cur s' = None /\ found s' = found s.
Proof.
  intros cf DU body str J. induction J as [|t1 b1 t2 b2 J1 J2 IH]; intros fuel cp acc s tail G S L.
  - cbn [app] in S. destruct fuel as [|fuel]; [cbn in L; lia|].
    assert (Q : 34 <> 0) by lia.
    destruct (next_cons s 34 tail G S Q) as (s1 & E1 & G1 & S1 & C1 & F1).
    cbn [quoted_loop]. rewrite E1, N.eqb_refl. exists (move s1). rewrite app_nil_r. auto.
  - rewrite <- app_assoc in S. rewrite app_length in L.
    destruct (quoted_char_step cf DU t1 b1 J1 fuel cp acc s _ G S ltac:(lia))
      as (fuel' & s1 & cp1 & LF & G1 & S1 & C1 & F1 & E1).
    destruct (IH fuel' cp1 (acc ++ b1) s1 tail G1 S1 ltac:(lia)) as (s' & E' & G' & S' & C' & F').
    exists s'. rewrite E1, E', <- app_assoc. splits; auto. congruence.
Qed.

(* the whole string, the state having the opening quote latched or not *)
Lemma parse_string_ok : forall cf, decode_unicode cf = true ->
  forall t str, jstring t str ->
  forall fuel s tail,
    good s -> stream s = t ++ tail -> (length t <= fuel)%nat ->
    exists s', parse_quoted_string cf fuel s = (Ok, str, s') /\
               good s' /\ stream s' = tail /\ cur s' = None /\ found s' = found s.
Proof.
  intros cf DU t str (body & -> & J & FIT) fuel s tail G S L.
  rewrite <- !app_assoc in S. cbn [app] in S.
  rewrite !app_length in L. cbn [length] in L.
  assert (Q : 34 <> 0) by lia.
  destruct (next_cons s 34 _ G S Q) as (s1 & E1 & G1 & S1 & C1 & F1).
  unfold parse_quoted_string. rewrite E1.
  destruct (quoted_chars cf DU body str J fuel cp_init [] _ tail G1 S1 ltac:(lia))
    as (s' & E' & G' & S' & C' & F').
  exists s'. rewrite E'. cbn [app]. rewrite (cap_string_fits _ _ FIT). splits; auto. congruence.
Qed.

Lemma parse_key_ok : forall cf, decode_unicode cf = true ->
  forall t str, jstring t str ->
  forall fuel s tail,
    good s -> stream s = t ++ tail -> (length t <= fuel)%nat ->
    exists s', parse_key cf fuel s = (Ok, str, s') /\
               good s' /\ stream s' = tail /\ cur s' = None /\ found s' = found s.
Proof.
  intros cf DU t str J fuel s tail G S L.
  pose proof J as (body & Et & _).
  assert (S2 : stream s = 34 :: (body ++ [34]) ++ tail) by (rewrite S, Et; reflexivity).
  assert (Q : 34 <> 0) by lia.
  destruct (current_cons s 34 _ G S2 Q) as (s1 & E1 & G1 & S1 & C1 & F1 & _).
  unfold parse_key. rewrite E1. change (is_quote 34) with true. cbv iota.
  assert (S3 : stream s1 = t ++ tail) by (rewrite S1, Et; reflexivity).
  destruct (parse_string_ok cf DU t str J fuel s1 tail G1 S3 L) as (s' & E' & G' & S' & C' & F').
  exists s'. splits; auto. congruence.
Qed.

(* ------------------------------------------------------------------------------------- *)
(* numbers *)

Lemma digit_range : forall c, is_digit c = true -> 48 <= c <= 57.
Proof.
  intros c H. unfold is_digit in H. apply andb_prop in H as [A B].
  apply N.leb_le in A, B. lia.
Qed.

Lemma digit_numchar : forall cf c, is_digit c = true -> can_be_in_number cf c = true.
Proof.
  intros cf c H. apply digit_range in H.
  assert (B : is_between c 48 57 = true).
  { unfold is_between, schar.
    assert (X : (c <? 128) = true) by (apply N.ltb_lt; lia). rewrite X.
    change (if 48 <? 128 then Z.of_N 48 else (Z.of_N 48 - 256)%Z) with 48%Z.
    change (if 57 <? 128 then Z.of_N 57 else (Z.of_N 57 - 256)%Z) with 57%Z.
    apply andb_true_intro. split; apply Z.leb_le; lia. }
  unfold can_be_in_number. rewrite B. reflexivity.
Qed.

Lemma const_numchar : forall cf c, c = 43 \/ c = 45 \/ c = 46 \/ c = 101 \/ c = 69 ->
  can_be_in_number cf c = true.
Proof.
  intros cf c H. unfold can_be_in_number.
  destruct (enable_nan cf || enable_inf cf);
    destruct H as [->|[->|[->|[->| ->]]]]; reflexivity.
Qed.

Lemma not_numchar : forall cf c,
  c = 0 \/ is_space c = true \/ c = 44 \/ c = 93 \/ c = 125 -> can_be_in_number cf c = false.
Proof.
  intros cf c H. unfold can_be_in_number.
  assert (K : c = 0 \/ c = 32 \/ c = 9 \/ c = 13 \/ c = 10 \/ c = 44 \/ c = 93 \/ c = 125).
  { destruct H as [H|[H|H]]; [auto| |tauto].
    unfold is_space in H.
    destruct (N.eqb_spec c 32); [tauto|]. destruct (N.eqb_spec c 9); [tauto|].
    destruct (N.eqb_spec c 13); [tauto|]. destruct (N.eqb_spec c 10); [tauto|]. discriminate. }
  destruct (enable_nan cf || enable_inf cf);
    destruct K as [->|[->|[->|[->|[->|[->|[->| ->]]]]]]]; reflexivity.
Qed.

Lemma numchar_nonzero : forall cf c, can_be_in_number cf c = true -> c <> 0.
Proof.
  intros cf c H ->. rewrite (not_numchar cf 0) in H by auto. discriminate.
Qed.

Lemma all_digits_numchar : forall cf l, all_digits l = true ->
  Forall (fun c => can_be_in_number cf c = true) l.
Proof.
  intros cf l H. unfold all_digits in H. rewrite forallb_forall in H.
  apply Forall_forall. intros c Hc. apply digit_numchar. apply H. exact Hc.
Qed.

Lemma jint_digits : forall i, jint i = true ->
  all_digits i = true /\ exists c r, i = c :: r /\ is_digit c = true.
Proof.
  intros i H. destruct i as [|c r]; [discriminate|].
  assert (K : is_digit c = true /\ all_digits r = true).
  { cbn [jint] in H.
    destruct (N.eq_dec c 48) as [->|N48].
    - destruct r as [|c' r'].
      + split; reflexivity.
      + apply andb_prop in H as [H _]. discriminate H.
    - assert (X : (49 <=? c) && (c <=? 57) && all_digits r = true).
      { destruct c as [|p]; [exact H|].
        repeat (destruct p as [p|p|]; try exact H); congruence. }
      apply andb_prop in X as [X1 X2]. apply andb_prop in X1 as [A B].
      apply N.leb_le in A, B. split; [|exact X2].
      unfold is_digit. apply andb_true_intro. split; apply N.leb_le; lia. }
  destruct K as [K1 K2]. split.
  - unfold all_digits. cbn [forallb]. rewrite K1. exact K2.
  - exists c, r. auto.
Qed.

Definition num_start (c : N) : Prop := c = 45 \/ is_digit c = true.

Lemma jnumber_chars : forall cf t, jnumber t ->
  Forall (fun c => can_be_in_number cf c = true) t /\ exists c r, t = c :: r /\ num_start c.
Proof.
  intros cf t J. destruct J as [minus i frac ex Hi Hf He ec Hec].
  destruct (jint_digits i Hi) as [Di (c & r & -> & Dc)].
  split.
  - apply Forall_app. split.
    { destruct minus; [|constructor]. constructor; [|constructor]. apply const_numchar. auto. }
    apply Forall_app. split; [apply all_digits_numchar; exact Di|].
    apply Forall_app. split.
    { destruct frac as [f|]; [|constructor]. destruct (Hf f eq_refl) as [_ Df].
      constructor; [apply const_numchar; auto|apply all_digits_numchar; exact Df]. }
    destruct ex as [[sg e]|]; [|constructor].
    destruct (He sg e eq_refl) as (Hsg & _ & De).
    constructor; [apply const_numchar; destruct Hec; auto|].
    apply Forall_app. split; [|apply all_digits_numchar; exact De].
    destruct Hsg as [->|[->| ->]]; [constructor| |]; (constructor; [|constructor]); apply const_numchar; auto.
  - destruct minus; cbn [app].
    + eexists _, _. split; [reflexivity|left; reflexivity].
    + eexists _, _. split; [reflexivity|right; exact Dc].
Qed.

(* the scanner takes exactly the characters of the literal *)
Lemma scan_number_all : forall cf t, Forall (fun c => can_be_in_number cf c = true) t ->
  forall n acc s rest,
    good s -> stream s = t ++ rest -> (length t <= n)%nat ->
    exists s', scan_number cf n acc s = scan_number cf (n - length t) (acc ++ t) s' /\
               good s' /\ stream s' = rest /\ found s' = found s.
Proof.
  intros cf t FA. induction FA as [|c t Hc FA IH]; intros n acc s rest G S L.
  - exists s. cbn [length app] in *. rewrite Nat.sub_0_r, app_nil_r. auto.
  - cbn [app] in S. cbn [length] in L. destruct n as [|n]; [lia|].
    pose proof (numchar_nonzero _ _ Hc) as CZ.
    destruct (next_cons s c _ G S CZ) as (s1 & E1 & G1 & S1 & C1 & F1).
    cbn [scan_number]. rewrite E1, Hc.
    destruct (IH n (acc ++ [c]) _ rest G1 S1 ltac:(lia)) as (s' & E' & G' & S' & F').
    exists s'. rewrite E'. rewrite <- app_assoc. cbn [app length Nat.sub].
    splits; auto. congruence.
Qed.

Lemma parse_numeric_ok : forall cf t v rest s,
  jnumber t -> num_den cf t v ->
  good s -> stream s = t ++ rest -> delimiter cf rest ->
  exists s', parse_numeric_value cf s = (Ok, v, s') /\ post s' rest /\ found s' = found s /\
             lastc s' = hd 0 rest.
Proof.
  intros cf t v rest s J (Len & Den) G S D.
  destruct (jnumber_chars cf t J) as [FA _].
  destruct (scan_number_all cf t FA 63 [] s rest G S Len) as (s1 & E1 & G1 & S1 & F1).
  destruct (peek s1 rest G1 S1) as (s2 & E2 & F2 & P2 & L2 & C2).
  unfold parse_numeric_value. rewrite E1. cbn [app].
  destruct (Nat.eqb (length t) 63) eqn:E63.
  - apply Nat.eqb_eq in E63. rewrite E63. cbn [Nat.sub scan_number].
    rewrite E63. cbn [Nat.eqb]. rewrite E2. cbn [snd]. rewrite Den.
    exists s2. splits; auto. congruence.
  - apply Nat.eqb_neq in E63.
    destruct (63 - length t)%nat as [|k] eqn:EK; [lia|].
    cbn [scan_number]. rewrite E2.
    assert (X : can_be_in_number cf (hd 0 rest) = false).
    { destruct rest as [|b r]; [apply not_numchar; auto|exact D]. }
    rewrite X. apply Nat.eqb_neq in E63. rewrite E63. rewrite Den.
    exists s2. splits; auto. congruence.
Qed.

(* ------------------------------------------------------------------------------------- *)
(* The grammar of Spec/Rfc8259.v indexed by a bound on the syntactic nesting depth of the text:
   [jvalueD nd d t v] is [jvalue nd t v] derived with containers nested at most d deep.
   (The depth of the TEXT, not of the value: in {"a":[[]],"a":1} the overwritten member still
   has to be read.) *)
Section ValuesD.
  Variable nd : bytes -> jv -> Prop.

  Inductive jvalueD : nat -> bytes -> jv -> Prop :=
  | vd_null : forall d, jvalueD d [110; 117; 108; 108] JNull
  | vd_true : forall d, jvalueD d [116; 114; 117; 101] (JBool true)
  | vd_false : forall d, jvalueD d [102; 97; 108; 115; 101] (JBool false)
  | vd_num : forall d t v, jnumber t -> nd t v -> jvalueD d t v
  | vd_str : forall d t s, jstring t s -> jvalueD d t (JStr s)
  | vd_arr_empty : forall d w, ws w -> jvalueD (S d) ([91] ++ w ++ [93]) (JArr [])
  | vd_arr : forall d t vs, jelementsD d t vs -> jvalueD (S d) ([91] ++ t ++ [93]) (JArr vs)
  | vd_obj_empty : forall d w, ws w -> jvalueD (S d) ([123] ++ w ++ [125]) (JObj [])
  | vd_obj : forall d t ms, jmembersD d t ms ->
      jvalueD (S d) ([123] ++ t ++ [125])
              (JObj (fold_left (fun acc m => assoc_set (fst m) (snd m) acc) ms []))
  with jelementsD : nat -> bytes -> list jv -> Prop :=
  | ed_one : forall d w1 t v w2, ws w1 -> jvalueD d t v -> ws w2 -> jelementsD d (w1 ++ t ++ w2) [v]
  | ed_cons : forall d w1 t v w2 r vs,
      ws w1 -> jvalueD d t v -> ws w2 -> jelementsD d r vs ->
      jelementsD d (w1 ++ t ++ w2 ++ [44] ++ r) (v :: vs)
  with jmembersD : nat -> bytes -> list (bytes * jv) -> Prop :=
  | md_one : forall d w1 kt k w2 w3 t v w4,
      ws w1 -> jstring kt k -> ws w2 -> ws w3 -> jvalueD d t v -> ws w4 ->
      jmembersD d (w1 ++ kt ++ w2 ++ [58] ++ w3 ++ t ++ w4) [(k, v)]
  | md_cons : forall d w1 kt k w2 w3 t v w4 r ms,
      ws w1 -> jstring kt k -> ws w2 -> ws w3 -> jvalueD d t v -> ws w4 -> jmembersD d r ms ->
      jmembersD d (w1 ++ kt ++ w2 ++ [58] ++ w3 ++ t ++ w4 ++ [44] ++ r) ((k, v) :: ms).

  Definition jtextD (d : nat) (t : bytes) (v : jv) : Prop :=
    exists w1 tv w2, t = w1 ++ tv ++ w2 /\ ws w1 /\ jvalueD d tv v /\ ws w2.
End ValuesD.

Scheme jvalueD_min := Minimality for jvalueD Sort Prop
  with jelementsD_min := Minimality for jelementsD Sort Prop
  with jmembersD_min := Minimality for jmembersD Sort Prop.
Combined Scheme jvalueD_mutind from jvalueD_min, jelementsD_min, jmembersD_min.

Lemma jvalueD_mono_all : forall nd,
  (forall d t v, jvalueD nd d t v -> forall d', (d <= d')%nat -> jvalueD nd d' t v) /\
  (forall d t vs, jelementsD nd d t vs -> forall d', (d <= d')%nat -> jelementsD nd d' t vs) /\
  (forall d t ms, jmembersD nd d t ms -> forall d', (d <= d')%nat -> jmembersD nd d' t ms).
Proof.
  intro nd. apply jvalueD_mutind; intros.
  - constructor.
  - constructor.
  - constructor.
  - apply vd_num; assumption.
  - apply vd_str; assumption.
  - destruct d' as [|d']; [lia|]. apply vd_arr_empty; assumption.
  - destruct d' as [|d']; [lia|]. apply vd_arr. apply H0. lia.
  - destruct d' as [|d']; [lia|]. apply vd_obj_empty; assumption.
  - destruct d' as [|d']; [lia|]. apply vd_obj. apply H0. lia.
  - apply ed_one; auto.
  - apply ed_cons; auto.
  - apply md_one; auto.
  - apply md_cons; auto.
Qed.

Lemma jvalueD_mono : forall nd d d' t v, jvalueD nd d t v -> (d <= d')%nat -> jvalueD nd d' t v.
Proof. intros nd d d' t v H L. exact (proj1 (jvalueD_mono_all nd) d t v H d' L). Qed.
Lemma jelementsD_mono : forall nd d d' t vs, jelementsD nd d t vs -> (d <= d')%nat -> jelementsD nd d' t vs.
Proof. intros nd d d' t v H L. exact (proj1 (proj2 (jvalueD_mono_all nd)) d t v H d' L). Qed.
Lemma jmembersD_mono : forall nd d d' t ms, jmembersD nd d t ms -> (d <= d')%nat -> jmembersD nd d' t ms.
Proof. intros nd d d' t v H L. exact (proj2 (proj2 (jvalueD_mono_all nd)) d t v H d' L). Qed.

(* the indexed relation is the same grammar *)
Lemma jvalueD_sound_all : forall nd,
  (forall d t v, jvalueD nd d t v -> jvalue nd t v) /\
  (forall d t vs, jelementsD nd d t vs -> jelements nd t vs) /\
  (forall d t ms, jmembersD nd d t ms -> jmembers nd t ms).
Proof.
  intro nd. apply jvalueD_mutind; intros.
  - constructor.
  - constructor.
  - constructor.
  - apply v_num; assumption.
  - apply v_str; assumption.
  - apply v_arr_empty; assumption.
  - apply v_arr; assumption.
  - apply v_obj_empty; assumption.
  - apply v_obj; assumption.
  - apply e_one; assumption.
  - apply e_cons; assumption.
  - apply m_one; assumption.
  - apply m_cons; assumption.
Qed.

Lemma jvalueD_complete_all : forall nd,
  (forall t v, jvalue nd t v -> exists d, jvalueD nd d t v) /\
  (forall t vs, jelements nd t vs -> exists d, jelementsD nd d t vs) /\
  (forall t ms, jmembers nd t ms -> exists d, jmembersD nd d t ms).
Proof.
  intro nd.
  apply (jvalue_mutind nd
           (fun t v _ => exists d, jvalueD nd d t v)
           (fun t vs _ => exists d, jelementsD nd d t vs)
           (fun t ms _ => exists d, jmembersD nd d t ms)); intros.
  - exists 0%nat. constructor.
  - exists 0%nat. constructor.
  - exists 0%nat. constructor.
  - exists 0%nat. apply vd_num; assumption.
  - exists 0%nat. apply vd_str; assumption.
  - exists 1%nat. apply vd_arr_empty; assumption.
  - destruct H as [d H]. exists (S d). apply vd_arr; assumption.
  - exists 1%nat. apply vd_obj_empty; assumption.
  - destruct H as [d H]. exists (S d). apply vd_obj; assumption.
  - destruct H as [d H]. exists d. apply ed_one; assumption.
  - destruct H as [d1 H1]. destruct H0 as [d2 H2]. exists (Nat.max d1 d2).
    apply ed_cons; auto.
    + apply (jvalueD_mono nd d1); [assumption|lia].
    + apply (jelementsD_mono nd d2); [assumption|lia].
  - destruct H as [d H]. exists d. apply md_one; assumption.
  - destruct H as [d1 H1]. destruct H0 as [d2 H2]. exists (Nat.max d1 d2).
    apply md_cons; auto.
    + apply (jvalueD_mono nd d1); [assumption|lia].
    + apply (jmembersD_mono nd d2); [assumption|lia].
Qed.

Theorem jvalueD_iff : forall nd t v, jvalue nd t v <-> exists d, jvalueD nd d t v.
Proof.
  intros nd t v. split.
  - apply (proj1 (jvalueD_complete_all nd)).
  - intros [d H]. exact (proj1 (jvalueD_sound_all nd) d t v H).
Qed.

Theorem jtextD_iff : forall nd t v, jtext nd t v <-> exists d, jtextD nd d t v.
Proof.
  intros nd t v. split.
  - intros (w1 & tv & w2 & E & W1 & J & W2). apply jvalueD_iff in J as [d J].
    exists d, w1, tv, w2. auto.
  - intros (d & w1 & tv & w2 & E & W1 & J & W2). exists w1, tv, w2.
    splits; auto. apply jvalueD_iff. exists d. exact J.
Qed.

(* ------------------------------------------------------------------------------------- *)
(* first byte of a value *)

Definition vstart (c : N) : Prop :=
  c = 110 \/ c = 116 \/ c = 102 \/ c = 34 \/ c = 91 \/ c = 123 \/ num_start c.

Lemma vstart_props : forall c, vstart c ->
  c <> 0 /\ is_space c = false /\ c <> 47 /\ c <> 93 /\ c <> 125.
Proof.
  intros c H. unfold vstart, num_start in H.
  destruct H as [->|[->|[->|[->|[->|[->|[->|H]]]]]]];
    try (splits; try reflexivity; lia).
  apply digit_range in H. splits; try lia.
  unfold is_space. rewrite !eqb_false by lia. reflexivity.
Qed.

Lemma jvalueD_head : forall nd d t v, jvalueD nd d t v -> exists c r, t = c :: r /\ vstart c.
Proof.
  intros nd d t v H. unfold vstart.
  destruct H as [d|d|d|d t v J _|d t s (body & -> & _)|d w _|d t vs _|d w _|d t ms _];
    try (eexists _, _; split; [reflexivity|tauto]).
  destruct (jnumber_chars default_cfg t J) as [_ (c & r & -> & Hc)].
  eexists _, _; split; [reflexivity|tauto].
Qed.

Lemma jelementsD_head : forall nd d t vs, jelementsD nd d t vs ->
  exists w c r, ws w /\ t = w ++ c :: r /\ vstart c.
Proof.
  intros nd d t vs H.
  destruct H as [d w1 t v w2 W1 J W2|d w1 t v w2 r vs W1 J W2 _];
    destruct (jvalueD_head _ _ _ _ J) as (c & r' & -> & Hc);
    exists w1, c; eexists; (split; [exact W1|split; [|exact Hc]]); cbn [app]; reflexivity.
Qed.

Lemma jmembersD_head : forall nd d t ms, jmembersD nd d t ms ->
  exists w r, ws w /\ t = w ++ 34 :: r.
Proof.
  intros nd d t ms H.
  destruct H as [d w1 kt k w2 w3 t v w4 W1 (body & -> & _) _ _ _ _
                |d w1 kt k w2 w3 t v w4 r ms W1 (body & -> & _) _ _ _ _ _];
    exists w1; eexists; (split; [exact W1|]); cbn [app]; reflexivity.
Qed.

Lemma pv_enter : forall cf w fuel s c r,
  ws w -> good s -> stream s = w ++ c :: r -> vstart c -> (length w < fuel)%nat ->
  exists s1, skip_spaces cf fuel s = (Ok, s1) /\ good s1 /\ stream s1 = c :: r /\
             cur s1 = Some c /\ found s1 = true.
Proof.
  intros cf w fuel s c r W G S V L.
  destruct (vstart_props c V) as (A & B & C & _).
  destruct (skip_ws cf w W fuel s c r G S A B C L) as (s1 & E & G1 & S1 & C1 & F1 & _).
  exists s1. auto.
Qed.

(* ------------------------------------------------------------------------------------- *)
(* parse_variant, one lemma per kind of first byte *)

Lemma pv_null : forall cf fuel L s s1,
  skip_spaces cf fuel s = (Ok, s1) -> cur s1 = Some 110 ->
  parse_variant cf fuel L None s = (let '(e, s) := skip_keyword kw_null s1 in (e, JNull, s)).
Proof. intros cf fuel L s s1 E C. destruct L; cbn [parse_variant]; rewrite E, (current_some _ _ C); reflexivity. Qed.

Lemma pv_true : forall cf fuel L s s1,
  skip_spaces cf fuel s = (Ok, s1) -> cur s1 = Some 116 ->
  parse_variant cf fuel L None s = (let '(e, s) := skip_keyword kw_true s1 in (e, JBool true, s)).
Proof. intros cf fuel L s s1 E C. destruct L; cbn [parse_variant]; rewrite E, (current_some _ _ C); reflexivity. Qed.

Lemma pv_false : forall cf fuel L s s1,
  skip_spaces cf fuel s = (Ok, s1) -> cur s1 = Some 102 ->
  parse_variant cf fuel L None s = (let '(e, s) := skip_keyword kw_false s1 in (e, JBool false, s)).
Proof. intros cf fuel L s s1 E C. destruct L; cbn [parse_variant]; rewrite E, (current_some _ _ C); reflexivity. Qed.

Lemma pv_str : forall cf fuel L s s1,
  skip_spaces cf fuel s = (Ok, s1) -> cur s1 = Some 34 ->
  parse_variant cf fuel L None s =
    match parse_quoted_string cf fuel s1 with
    | (Ok, str, s) => (Ok, JStr str, s)
    | (e, _, s) => (e, JNull, s)
    end.
Proof. intros cf fuel L s s1 E C. destruct L; cbn [parse_variant]; rewrite E, (current_some _ _ C); reflexivity. Qed.

Lemma pv_num : forall cf fuel L s s1 c,
  skip_spaces cf fuel s = (Ok, s1) -> cur s1 = Some c -> num_start c ->
  parse_variant cf fuel L None s = parse_numeric_value cf s1.
Proof.
  intros cf fuel L s s1 c E C [->|D].
  - destruct L; cbn [parse_variant]; rewrite E, (current_some _ _ C); reflexivity.
  - apply digit_range in D.
    destruct L; cbn [parse_variant]; rewrite E, (current_some _ _ C); unfold is_quote;
      rewrite !(eqb_false c) by lia; reflexivity.
Qed.

Lemma pv_arr : forall cf fuel L s s1,
  skip_spaces cf fuel s = (Ok, s1) -> cur s1 = Some 91 ->
  parse_variant cf fuel (S L) None s =
    match skip_spaces cf fuel (move s1) with
    | (Ok, s) =>
        let '(b, s) := eat 93 s in
        if b then (Ok, JArr [], s)
        else array_loop cf (parse_variant cf fuel L) (skip_variant cf fuel L) fuel None [] s
    | (e, s) => (e, JArr [], s)
    end.
Proof. intros cf fuel L s s1 E C. cbn [parse_variant]; rewrite E, (current_some _ _ C); reflexivity. Qed.

Lemma pv_obj : forall cf fuel L s s1,
  skip_spaces cf fuel s = (Ok, s1) -> cur s1 = Some 123 ->
  parse_variant cf fuel (S L) None s =
    match skip_spaces cf fuel (move s1) with
    | (Ok, s) =>
        let '(b, s) := eat 125 s in
        if b then (Ok, JObj [], s)
        else object_loop cf (parse_variant cf fuel L) (skip_variant cf fuel L) fuel None [] s
    | (e, s) => (e, JObj [], s)
    end.
Proof. intros cf fuel L s s1 E C. cbn [parse_variant]; rewrite E, (current_some _ _ C); reflexivity. Qed.

(* skipping spaces twice is skipping them once *)
Lemma skip_fix : forall cf fuel s1 c,
  cur s1 = Some c -> found s1 = true -> c <> 0 -> is_space c = false -> c <> 47 ->
  skip_spaces cf (S fuel) s1 = (Ok, s1).
Proof.
  intros cf fuel s1 c C F A B D. cbn [skip_spaces]. rewrite (current_some _ _ C).
  rewrite (eqb_false _ _ A).
  change ((c =? 32) || (c =? 9) || (c =? 13) || (c =? 10)) with (is_space c).
  rewrite B, (eqb_false _ _ D), andb_false_r.
  destruct s1; cbn in *; subst; reflexivity.
Qed.

Lemma pv_skip_eq : forall cf fuel L f s s1 c,
  skip_spaces cf fuel s = (Ok, s1) -> cur s1 = Some c -> found s1 = true -> vstart c ->
  parse_variant cf fuel L f s1 = parse_variant cf fuel L f s.
Proof.
  intros cf fuel L f s s1 c E C F V. destruct (vstart_props c V) as (A & B & D & _).
  destruct fuel as [|fuel]; [discriminate E|].
  destruct L; cbn [parse_variant]; rewrite E, (skip_fix cf fuel s1 c C F A B D); reflexivity.
Qed.

Lemma array_loop_skip : forall cf fuel L sv fl acc s s1 c,
  skip_spaces cf fuel s = (Ok, s1) -> cur s1 = Some c -> found s1 = true -> vstart c ->
  array_loop cf (parse_variant cf fuel L) sv (S fl) None acc s1 =
  array_loop cf (parse_variant cf fuel L) sv (S fl) None acc s.
Proof.
  intros cf fuel L sv fl acc s s1 c E C F V. cbn [array_loop f_allow].
  rewrite (pv_skip_eq cf fuel L None s s1 c E C F V). reflexivity.
Qed.

(* ------------------------------------------------------------------------------------- *)
(* what follows a value inside a container *)

Lemma ws_app_head : forall w c r, ws w -> c <> 0 ->
  exists b r', w ++ c :: r = b :: r' /\ b <> 0.
Proof.
  intros w c r W CZ. destruct W as [|b w Hb W].
  - exists c, r. auto.
  - exists b, (w ++ c :: r). split; [reflexivity|apply ws_nonzero; exact Hb].
Qed.

Lemma delimiter_ws_then : forall cf w c r, ws w -> c = 44 \/ c = 93 \/ c = 125 ->
  delimiter cf (w ++ c :: r).
Proof.
  intros cf w c r W H. destruct W as [|b w Hb W]; cbn [app delimiter]; apply not_numchar.
  - tauto.
  - right; left. rewrite <- is_ws_space. exact Hb.
Qed.

Lemma delimiter_ws : forall cf w, ws w -> delimiter cf w.
Proof.
  intros cf w W. destruct W as [|b w Hb W]; cbn [delimiter]; [exact I|].
  apply not_numchar. right; left. rewrite <- is_ws_space. exact Hb.
Qed.

Lemma post_good : forall s' w c r, post s' (w ++ c :: r) -> ws w -> c <> 0 ->
  good s' /\ stream s' = w ++ c :: r.
Proof.
  intros s' w c r P W CZ. destruct (ws_app_head w c r W CZ) as (b & r' & E & BZ).
  rewrite E in *. destruct P as [P|[_ [P|[r0 P]]]]; [exact P|discriminate P|].
  injection P as P _. contradiction.
Qed.

(* ------------------------------------------------------------------------------------- *)
(* the statements proved by mutual induction on the (depth-indexed) derivation *)

Definition obj_entry (cf : cfg) (pv : filter -> ps -> code * jv * ps) (sv : ps -> code * ps)
  (fl : nat) (f : filter) (acc : list (bytes * jv)) (s : ps) : code * jv * ps :=
  match skip_spaces cf fl s with
  | (Ok, s) => object_loop cf pv sv fl f acc s
  | (e, s) => (e, JObj acc, s)
  end.

Definition obj_den (ms : list (bytes * jv)) (acc : list (bytes * jv)) : list (bytes * jv) :=
  fold_left (fun acc m => assoc_set (fst m) (snd m) acc) ms acc.

Definition Pv (cf : cfg) (d : nat) (t : bytes) (v : jv) : Prop :=
  forall L fuel s w rest,
    ws w -> (d <= L)%nat -> good s -> stream s = w ++ t ++ rest -> delimiter cf rest ->
    (length (w ++ t ++ rest) < fuel)%nat ->
    exists s', parse_variant cf fuel L None s = (Ok, v, s') /\ post s' rest /\ found s' = true /\
               (is_number v = true -> lastc s' = hd 0 rest).

Definition Pe (cf : cfg) (d : nat) (t : bytes) (vs : list jv) : Prop :=
  forall L fuel fl s rest acc,
    (d <= L)%nat -> good s -> stream s = t ++ 93 :: rest ->
    (length (t ++ 93%N :: rest) < fuel)%nat -> (length (t ++ 93%N :: rest) < fl)%nat ->
    exists s', array_loop cf (parse_variant cf fuel L) (skip_variant cf fuel L) fl None acc s
                 = (Ok, JArr (acc ++ vs), s') /\
               good s' /\ stream s' = rest /\ cur s' = None /\ found s' = true.

Definition Pm (cf : cfg) (d : nat) (t : bytes) (ms : list (bytes * jv)) : Prop :=
  forall L fuel fl s rest acc,
    (d <= L)%nat -> good s -> stream s = t ++ 125 :: rest ->
    (length (t ++ 125%N :: rest) < fuel)%nat -> (length (t ++ 125%N :: rest) < fl)%nat ->
    exists s', obj_entry cf (parse_variant cf fuel L) (skip_variant cf fuel L) fl None acc s
                 = (Ok, JObj (obj_den ms acc), s') /\
               good s' /\ stream s' = rest /\ cur s' = None /\ found s' = true.

Ltac lens := repeat (first [rewrite app_length in * | progress cbn [length] in *]); lia.

(* ---- scalars ---- *)

Lemma case_keyword : forall cf d kw v k0 kr,
  kw = k0 :: kr -> vstart k0 -> Forall (fun c => c <> 0) kw -> is_number v = false ->
  (forall fuel L s s1, skip_spaces cf fuel s = (Ok, s1) -> cur s1 = Some k0 ->
     parse_variant cf fuel L None s = (let '(e, s) := skip_keyword kw s1 in (e, v, s))) ->
  Pv cf d kw v.
Proof.
  intros cf d kw v k0 kr -> V FA NN U L fuel s w rest W DL G S D LF.
  cbn [app] in S.
  destruct (pv_enter cf w fuel s k0 _ W G S V ltac:(lens)) as (s1 & E1 & G1 & S1 & C1 & F1).
  rewrite (U fuel L s s1 E1 C1).
  destruct (skip_keyword_ok (k0 :: kr) s1 rest FA G1 S1) as (s' & E' & G' & S' & F').
  rewrite E'. exists s'. splits; auto.
  - left. auto.
  - congruence.
  - rewrite NN. discriminate.
Qed.

Lemma nz_list : forall l : bytes, forallb (fun c => negb (c =? 0)) l = true -> Forall (fun c => c <> 0) l.
Proof.
  intros l H. rewrite forallb_forall in H. apply Forall_forall. intros c Hc.
  specialize (H c Hc). apply negb_true_iff in H. apply N.eqb_neq. exact H.
Qed.

Lemma case_null : forall cf d, Pv cf d [110; 117; 108; 108] JNull.
Proof.
  intros cf d. apply (case_keyword cf d kw_null JNull 110 [117; 108; 108]); try reflexivity.
  - unfold vstart; tauto.
  - apply nz_list. reflexivity.
  - intros. apply pv_null; assumption.
Qed.

Lemma case_true : forall cf d, Pv cf d [116; 114; 117; 101] (JBool true).
Proof.
  intros cf d. apply (case_keyword cf d kw_true (JBool true) 116 [114; 117; 101]); try reflexivity.
  - unfold vstart; tauto.
  - apply nz_list. reflexivity.
  - intros. apply pv_true; assumption.
Qed.

Lemma case_false : forall cf d, Pv cf d [102; 97; 108; 115; 101] (JBool false).
Proof.
  intros cf d. apply (case_keyword cf d kw_false (JBool false) 102 [97; 108; 115; 101]); try reflexivity.
  - unfold vstart; tauto.
  - apply nz_list. reflexivity.
  - intros. apply pv_false; assumption.
Qed.

Lemma case_num : forall cf d t v, jnumber t -> num_den cf t v -> Pv cf d t v.
Proof.
  intros cf d t v J N L fuel s w rest W DL G S D LF.
  destruct (jnumber_chars cf t J) as [_ (c & r & Et & NS)].
  assert (S0 : stream s = w ++ c :: (r ++ rest)) by (rewrite S, Et; reflexivity).
  assert (V : vstart c) by (unfold vstart; tauto).
  destruct (pv_enter cf w fuel s c _ W G S0 V ltac:(lens)) as (s1 & E1 & G1 & S1 & C1 & F1).
  rewrite (pv_num cf fuel L s s1 c E1 C1 NS).
  assert (S2 : stream s1 = t ++ rest) by (rewrite S1, Et; reflexivity).
  destruct (parse_numeric_ok cf t v rest s1 J N G1 S2 D) as (s' & E' & P' & F' & L').
  exists s'. splits; auto. congruence.
Qed.

Lemma case_str : forall cf, decode_unicode cf = true ->
  forall d t str, jstring t str -> Pv cf d t (JStr str).
Proof.
  intros cf DU d t str J L fuel s w rest W DL G S D LF.
  pose proof J as (body & Et & _).
  assert (S0 : stream s = w ++ 34 :: ((body ++ [34]) ++ rest)) by (rewrite S, Et; reflexivity).
  assert (V : vstart 34) by (unfold vstart; tauto).
  destruct (pv_enter cf w fuel s 34 _ W G S0 V ltac:(lens)) as (s1 & E1 & G1 & S1 & C1 & F1).
  rewrite (pv_str cf fuel L s s1 E1 C1).
  assert (S2 : stream s1 = t ++ rest) by (rewrite S1, Et; reflexivity).
  destruct (parse_string_ok cf DU t str J fuel s1 rest G1 S2 ltac:(lens)) as (s' & E' & G' & S' & C' & F').
  rewrite E'. exists s'. splits; auto.
  - left. auto.
  - congruence.
  - discriminate.
Qed.

(* ---- arrays ---- *)

Lemma case_arr_empty : forall cf d w0, ws w0 -> Pv cf (S d) ([91] ++ w0 ++ [93]) (JArr []).
Proof.
  intros cf d w0 W0 L fuel s w rest W DL G S D LF.
  destruct L as [|L]; [lia|].
  rewrite <- !app_assoc in S. cbn [app] in S.
  assert (V : vstart 91) by (unfold vstart; tauto).
  destruct (pv_enter cf w fuel s 91 _ W G S V ltac:(lens)) as (s1 & E1 & G1 & S1 & C1 & F1).
  rewrite (pv_arr cf fuel L s s1 E1 C1).
  destruct (move_cons s1 91 _ G1 C1 S1) as (G2 & S2 & C2 & F2).
  destruct (skip_ws cf w0 W0 fuel (move s1) 93 rest G2 S2 ltac:(lia) eq_refl ltac:(lia) ltac:(lens))
    as (s3 & E3 & G3 & S3 & C3 & F3 & _).
  rewrite E3. cbv beta iota.
  destruct (eat_yes s3 93 rest G3 S3 ltac:(lia)) as (s4 & E4 & G4 & S4 & C4 & F4).
  rewrite E4. exists s4. splits; auto.
  - left; auto.
  - congruence.
  - discriminate.
Qed.

(* one element followed by [,] or []] *)
Lemma element_step : forall cf d t v, Pv cf d t v ->
  forall w1 w2 c tl L fuel fl acc s,
    ws w1 -> ws w2 -> c = 44 \/ c = 93 -> (d <= L)%nat ->
    good s -> stream s = w1 ++ t ++ w2 ++ c :: tl ->
    (length (w1 ++ t ++ w2 ++ c :: tl) < fuel)%nat ->
    (length (w1 ++ t ++ w2 ++ c :: tl) < S fl)%nat ->
    exists s2, good s2 /\ stream s2 = c :: tl /\ cur s2 = Some c /\ found s2 = true /\
      array_loop cf (parse_variant cf fuel L) (skip_variant cf fuel L) (S fl) None acc s =
      (let '(b, s) := eat 93 s2 in
       if b then (Ok, JArr (acc ++ [v]), s)
       else
         let '(b, s) := eat 44 s in
         if b then array_loop cf (parse_variant cf fuel L) (skip_variant cf fuel L) fl None (acc ++ [v]) s
         else (InvalidInput, JArr (acc ++ [v]), s)).
Proof.
  intros cf d t v IH w1 w2 c tl L fuel fl acc s W1 W2 HC DL G S LF LL.
  assert (HC' : c = 44 \/ c = 93 \/ c = 125) by tauto.
  assert (CZ : c <> 0) by (destruct HC; lia).
  assert (CS : is_space c = false) by (destruct HC as [->| ->]; reflexivity).
  assert (C47 : c <> 47) by (destruct HC; lia).
  destruct (IH L fuel s w1 (w2 ++ c :: tl) W1 DL G S (delimiter_ws_then cf w2 c tl W2 HC') LF)
    as (s1 & E1 & P1 & F1 & _).
  destruct (post_good s1 w2 c tl P1 W2 CZ) as (G1 & S1).
  destruct (skip_ws cf w2 W2 fl s1 c tl G1 S1 CZ CS C47 ltac:(lens)) as (s2 & E2 & G2 & S2 & C2 & F2 & _).
  exists s2. splits; auto.
  cbn [array_loop f_allow]. rewrite E1. cbv beta iota. rewrite E2. reflexivity.
Qed.

Lemma case_e_one : forall cf d w1 t v w2,
  ws w1 -> Pv cf d t v -> ws w2 -> Pe cf d (w1 ++ t ++ w2) [v].
Proof.
  intros cf d w1 t v w2 W1 IH W2 L fuel fl s rest acc DL G S LF LL.
  rewrite <- !app_assoc in S, LF, LL.
  destruct fl as [|fl]; [lia|].
  destruct (element_step cf d t v IH w1 w2 93 rest L fuel fl acc s W1 W2 ltac:(tauto) DL G S LF LL)
    as (s2 & G2 & S2 & C2 & F2 & E).
  rewrite E.
  destruct (eat_yes s2 93 rest G2 S2 ltac:(lia)) as (s3 & E3 & G3 & S3 & C3 & F3).
  rewrite E3. exists s3. splits; auto. congruence.
Qed.

Lemma case_e_cons : forall cf d w1 t v w2 r vs,
  ws w1 -> Pv cf d t v -> ws w2 -> Pe cf d r vs -> Pe cf d (w1 ++ t ++ w2 ++ [44] ++ r) (v :: vs).
Proof.
  intros cf d w1 t v w2 r vs W1 IHv W2 IHr L fuel fl s rest acc DL G S LF LL.
  rewrite <- !app_assoc in S, LF, LL. cbn [app] in S, LF, LL.
  destruct fl as [|fl]; [lia|].
  destruct (element_step cf d t v IHv w1 w2 44 (r ++ 93 :: rest) L fuel fl acc s W1 W2 ltac:(tauto) DL G S LF LL)
    as (s2 & G2 & S2 & C2 & F2 & E).
  rewrite E.
  rewrite (eat_no_some s2 44 93 C2 ltac:(lia)).
  destruct (eat_yes s2 44 _ G2 S2 ltac:(lia)) as (s3 & E3 & G3 & S3 & C3 & F3).
  rewrite E3.
  destruct (IHr L fuel fl s3 rest (acc ++ [v]) DL G3 S3 ltac:(lens) ltac:(lens))
    as (s' & E' & G' & S' & C' & F').
  exists s'. rewrite E', <- app_assoc. cbn [app]. splits; auto.
Qed.

Lemma case_arr : forall cf nd d te vs,
  jelementsD nd d te vs -> Pe cf d te vs -> Pv cf (S d) ([91] ++ te ++ [93]) (JArr vs).
Proof.
  intros cf nd d te vs J IH L fuel s w rest W DL G HS D LF.
  destruct L as [|L]; [lia|].
  destruct fuel as [|fuel0]; [lia|].
  rewrite <- !app_assoc in HS. cbn [app] in HS.
  assert (V : vstart 91) by (unfold vstart; tauto).
  destruct (pv_enter cf w (S fuel0) s 91 _ W G HS V ltac:(lens)) as (s1 & E1 & G1 & S1 & C1 & F1).
  rewrite (pv_arr cf (S fuel0) L s s1 E1 C1).
  destruct (move_cons s1 91 _ G1 C1 S1) as (G2 & S2 & C2 & F2).
  destruct (jelementsD_head _ _ _ _ J) as (w1 & c & r & W1 & Ete & Vc).
  assert (S2' : stream (move s1) = w1 ++ c :: (r ++ 93 :: rest))
    by (rewrite S2, Ete, <- app_assoc; reflexivity).
  assert (LW : (length w1 < S fuel0)%nat) by (rewrite Ete in LF; lens).
  destruct (pv_enter cf w1 (S fuel0) (move s1) c _ W1 G2 S2' Vc LW) as (s3 & E3 & G3 & S3 & C3 & F3).
  rewrite E3. cbv beta iota.
  destruct (vstart_props c Vc) as (_ & _ & _ & N93 & _).
  rewrite (eat_no_some s3 c 93 C3 N93). cbv beta iota.
  rewrite (array_loop_skip cf (S fuel0) L _ fuel0 [] (move s1) s3 c E3 C3 F3 Vc).
  destruct (IH L (S fuel0) (S fuel0) (move s1) rest [] ltac:(lia) G2 S2 ltac:(lens) ltac:(lens))
    as (s' & E' & G' & S' & C' & F').
  rewrite E'. exists s'. cbn [app]. splits; auto.
  - left; auto.
  - discriminate.
Qed.

(* ---- objects ---- *)

Lemma case_obj_empty : forall cf d w0, ws w0 -> Pv cf (S d) ([123] ++ w0 ++ [125]) (JObj []).
Proof.
  intros cf d w0 W0 L fuel s w rest W DL G HS D LF.
  destruct L as [|L]; [lia|].
  rewrite <- !app_assoc in HS. cbn [app] in HS.
  assert (V : vstart 123) by (unfold vstart; tauto).
  destruct (pv_enter cf w fuel s 123 _ W G HS V ltac:(lens)) as (s1 & E1 & G1 & S1 & C1 & F1).
  rewrite (pv_obj cf fuel L s s1 E1 C1).
  destruct (move_cons s1 123 _ G1 C1 S1) as (G2 & S2 & C2 & F2).
  destruct (skip_ws cf w0 W0 fuel (move s1) 125 rest G2 S2 ltac:(lia) eq_refl ltac:(lia) ltac:(lens))
    as (s3 & E3 & G3 & S3 & C3 & F3 & _).
  rewrite E3. cbv beta iota.
  destruct (eat_yes s3 125 rest G3 S3 ltac:(lia)) as (s4 & E4 & G4 & S4 & C4 & F4).
  rewrite E4. exists s4. splits; auto.
  - left; auto.
  - congruence.
  - discriminate.
Qed.

(* one member followed by [,] or [}] *)
Lemma member_step : forall cf, decode_unicode cf = true ->
  forall d t v, Pv cf d t v ->
  forall w1 kt k w2 w3 w4 c tl L fuel fl acc s,
    ws w1 -> jstring kt k -> ws w2 -> ws w3 -> ws w4 -> c = 44 \/ c = 125 -> (d <= L)%nat ->
    good s -> stream s = w1 ++ kt ++ w2 ++ 58 :: w3 ++ t ++ w4 ++ c :: tl ->
    (length (w1 ++ kt ++ w2 ++ 58%N :: w3 ++ t ++ w4 ++ c :: tl) < fuel)%nat ->
    (length (w1 ++ kt ++ w2 ++ 58%N :: w3 ++ t ++ w4 ++ c :: tl) < S fl)%nat ->
    exists s6, good s6 /\ stream s6 = c :: tl /\ cur s6 = Some c /\ found s6 = true /\
      obj_entry cf (parse_variant cf fuel L) (skip_variant cf fuel L) (S fl) None acc s =
      (let '(b, s) := eat 125 s6 in
       if b then (Ok, JObj (assoc_set k v acc), s)
       else
         let '(b, s) := eat 44 s in
         if negb b then (InvalidInput, JObj (assoc_set k v acc), s)
         else obj_entry cf (parse_variant cf fuel L) (skip_variant cf fuel L) fl None
                        (assoc_set k v acc) s).
Proof.
  intros cf DU d t v IH w1 kt k w2 w3 w4 c tl L fuel fl acc s W1 JK W2 W3 W4 HC DL G HS LF LL.
  assert (HC' : c = 44 \/ c = 93 \/ c = 125) by tauto.
  assert (CZ : c <> 0) by (destruct HC; lia).
  assert (CS : is_space c = false) by (destruct HC as [->| ->]; reflexivity).
  assert (C47 : c <> 47) by (destruct HC; lia).
  pose proof JK as (body & Ek & _).
  assert (S0 : stream s = w1 ++ 34 :: ((body ++ [34]) ++ w2 ++ 58 :: w3 ++ t ++ w4 ++ c :: tl))
    by (rewrite HS, Ek; reflexivity).
  destruct (skip_ws cf w1 W1 (S fl) s 34 _ G S0 ltac:(lia) eq_refl ltac:(lia) ltac:(lens))
    as (s1 & E1 & G1 & S1 & C1 & F1 & _).
  assert (S1' : stream s1 = kt ++ w2 ++ 58 :: w3 ++ t ++ w4 ++ c :: tl)
    by (rewrite S1, Ek; reflexivity).
  destruct (parse_key_ok cf DU kt k JK fl s1 _ G1 S1' ltac:(lens)) as (s2 & E2 & G2 & S2 & C2 & F2).
  destruct (skip_ws cf w2 W2 fl s2 58 _ G2 S2 ltac:(lia) eq_refl ltac:(lia) ltac:(lens))
    as (s3 & E3 & G3 & S3 & C3 & F3 & _).
  destruct (eat_yes s3 58 _ G3 S3 ltac:(lia)) as (s4 & E4 & G4 & S4 & C4 & F4).
  destruct (IH L fuel s4 w3 (w4 ++ c :: tl) W3 DL G4 S4 (delimiter_ws_then cf w4 c tl W4 HC') ltac:(lens))
    as (s5 & E5 & P5 & F5 & _).
  destruct (post_good s5 w4 c tl P5 W4 CZ) as (G5 & S5).
  destruct (skip_ws cf w4 W4 fl s5 c tl G5 S5 CZ CS C47 ltac:(lens)) as (s6 & E6 & G6 & S6 & C6 & F6 & _).
  exists s6. splits; auto.
  unfold obj_entry at 1. rewrite E1. cbn [object_loop]. rewrite E2. cbv beta iota.
  rewrite E3. cbv beta iota. rewrite E4. cbv beta iota zeta. cbn [negb f_member f_allow].
  rewrite E5. cbv beta iota. rewrite E6. reflexivity.
Qed.

Lemma case_m_one : forall cf, decode_unicode cf = true ->
  forall d w1 kt k w2 w3 t v w4,
    ws w1 -> jstring kt k -> ws w2 -> ws w3 -> Pv cf d t v -> ws w4 ->
    Pm cf d (w1 ++ kt ++ w2 ++ [58] ++ w3 ++ t ++ w4) [(k, v)].
Proof.
  intros cf DU d w1 kt k w2 w3 t v w4 W1 JK W2 W3 IH W4 L fuel fl s rest acc DL G HS LF LL.
  rewrite <- !app_assoc in HS, LF, LL. cbn [app] in HS, LF, LL.
  destruct fl as [|fl]; [lia|].
  destruct (member_step cf DU d t v IH w1 kt k w2 w3 w4 125 rest L fuel fl acc s
              W1 JK W2 W3 W4 ltac:(tauto) DL G HS LF LL) as (s6 & G6 & S6 & C6 & F6 & E).
  rewrite E.
  destruct (eat_yes s6 125 rest G6 S6 ltac:(lia)) as (s7 & E7 & G7 & S7 & C7 & F7).
  rewrite E7. exists s7. unfold obj_den. cbn [fold_left fst snd]. splits; auto. congruence.
Qed.

Lemma case_m_cons : forall cf, decode_unicode cf = true ->
  forall d w1 kt k w2 w3 t v w4 r ms,
    ws w1 -> jstring kt k -> ws w2 -> ws w3 -> Pv cf d t v -> ws w4 -> Pm cf d r ms ->
    Pm cf d (w1 ++ kt ++ w2 ++ [58] ++ w3 ++ t ++ w4 ++ [44] ++ r) ((k, v) :: ms).
Proof.
  intros cf DU d w1 kt k w2 w3 t v w4 r ms W1 JK W2 W3 IHv W4 IHr L fuel fl s rest acc DL G HS LF LL.
  rewrite <- !app_assoc in HS, LF, LL. cbn [app] in HS, LF, LL.
  destruct fl as [|fl]; [lia|].
  destruct (member_step cf DU d t v IHv w1 kt k w2 w3 w4 44 (r ++ 125 :: rest) L fuel fl acc s
              W1 JK W2 W3 W4 ltac:(tauto) DL G HS LF LL) as (s6 & G6 & S6 & C6 & F6 & E).
  rewrite E.
  rewrite (eat_no_some s6 44 125 C6 ltac:(lia)).
  destruct (eat_yes s6 44 _ G6 S6 ltac:(lia)) as (s7 & E7 & G7 & S7 & C7 & F7).
  rewrite E7. cbn [negb].
  destruct (IHr L fuel fl s7 rest (assoc_set k v acc) DL G7 S7 ltac:(lens) ltac:(lens))
    as (s' & E' & G' & S' & C' & F').
  exists s'. splits; auto.
Qed.

Lemma case_obj : forall cf nd d te ms,
  jmembersD nd d te ms -> Pm cf d te ms ->
  Pv cf (S d) ([123] ++ te ++ [125])
     (JObj (fold_left (fun acc m => assoc_set (fst m) (snd m) acc) ms [])).
Proof.
  intros cf nd d te ms J IH L fuel s w rest W DL G HS D LF.
  destruct L as [|L]; [lia|].
  rewrite <- !app_assoc in HS. cbn [app] in HS.
  assert (V : vstart 123) by (unfold vstart; tauto).
  destruct (pv_enter cf w fuel s 123 _ W G HS V ltac:(lens)) as (s1 & E1 & G1 & S1 & C1 & F1).
  rewrite (pv_obj cf fuel L s s1 E1 C1).
  destruct (move_cons s1 123 _ G1 C1 S1) as (G2 & S2 & C2 & F2).
  destruct (jmembersD_head _ _ _ _ J) as (w1 & r & W1 & Ete).
  assert (S2' : stream (move s1) = w1 ++ 34 :: (r ++ 125 :: rest))
    by (rewrite S2, Ete, <- app_assoc; reflexivity).
  assert (LW : (length w1 < fuel)%nat) by (rewrite Ete in LF; lens).
  destruct (skip_ws cf w1 W1 fuel (move s1) 34 _ G2 S2' ltac:(lia) eq_refl ltac:(lia) LW)
    as (s3 & E3 & G3 & S3 & C3 & F3 & _).
  rewrite E3. cbv beta iota.
  rewrite (eat_no_some s3 34 125 C3 ltac:(lia)). cbv beta iota.
  destruct (IH L fuel fuel (move s1) rest [] ltac:(lia) G2 S2 ltac:(lens) ltac:(lens))
    as (s' & E' & G' & S' & C' & F').
  unfold obj_entry in E'. rewrite E3 in E'.
  rewrite E'. exists s'. splits; auto.
  - left; auto.
  - discriminate.
Qed.

(* ------------------------------------------------------------------------------------- *)
(* tying the knot *)

Lemma complete_all : forall cf, decode_unicode cf = true ->
  (forall d t v, jvalueD (num_den cf) d t v -> Pv cf d t v) /\
  (forall d t vs, jelementsD (num_den cf) d t vs -> Pe cf d t vs) /\
  (forall d t ms, jmembersD (num_den cf) d t ms -> Pm cf d t ms).
Proof.
  intros cf DU. apply jvalueD_mutind.
  - intro d. apply case_null.
  - intro d. apply case_true.
  - intro d. apply case_false.
  - intros d t v J N. apply case_num; assumption.
  - intros d t s J. apply case_str; assumption.
  - intros d w W. apply case_arr_empty; assumption.
  - intros d t vs J IH. apply (case_arr cf (num_den cf)); assumption.
  - intros d w W. apply case_obj_empty; assumption.
  - intros d t ms J IH. apply (case_obj cf (num_den cf)); assumption.
  - intros d w1 t v w2 W1 _ IH W2. apply case_e_one; assumption.
  - intros d w1 t v w2 r vs W1 _ IHv W2 _ IHr. apply case_e_cons; assumption.
  - intros d w1 kt k w2 w3 t v w4 W1 JK W2 W3 _ IH W4. apply case_m_one; assumption.
  - intros d w1 kt k w2 w3 t v w4 r ms W1 JK W2 W3 _ IHv W4 _ IHr. apply case_m_cons; assumption.
Qed.

(* the general form: leading whitespace allowed, and after a number the latch holds the byte that
   follows it (or the end marker) *)
Theorem parse_variant_complete_ws : forall cf, decode_unicode cf = true ->
  forall d t v, jvalueD (num_den cf) d t v ->
  forall L fuel s w rest,
    ws w -> (d <= L)%nat ->
    good s -> stream s = w ++ t ++ rest ->
    delimiter cf rest ->
    (length (w ++ t ++ rest) < fuel)%nat ->
    exists s', parse_variant cf fuel L None s = (Ok, v, s') /\ post s' rest /\ found s' = true /\
               (is_number v = true -> lastc s' = hd 0 rest).
Proof. intros cf DU d t v J. exact (proj1 (complete_all cf DU) d t v J). Qed.

(* Main theorem.  The requested statement bounded the limit by [nesting v]; that statement is false
   (see parse_variant_complete_value_depth_refuted below): the limit has to cover the syntactic depth
   of the text, which [jvalueD] carries. *)
Theorem parse_variant_complete : forall cf, decode_unicode cf = true ->
  forall d t v, jvalueD (num_den cf) d t v ->
  forall L fuel s rest,
    (d <= L)%nat ->
    good s -> stream s = t ++ rest ->
    delimiter cf rest ->
    (length (t ++ rest) < fuel)%nat ->
    exists s', parse_variant cf fuel L None s = (Ok, v, s') /\ post s' rest /\ found s' = true.
Proof.
  intros cf DU d t v J L fuel s rest DL G HS D LF.
  destruct (parse_variant_complete_ws cf DU d t v J L fuel s [] rest ws_nil DL G HS D LF)
    as (s' & E & P & F & _).
  exists s'. auto.
Qed.

Theorem json_run_complete : forall cf, decode_unicode cf = true ->
  forall d i v, jtextD (num_den cf) d i v ->
  forall L, (d <= L)%nat ->
  j_err (json_run cf None L i) = Ok /\ j_doc (json_run cf None L i) = v.
Proof.
  intros cf DU d i v (w1 & tv & w2 & Ei & W1 & J & W2) L DL.
  assert (HS : stream (ps_init i) = w1 ++ tv ++ w2) by (rewrite stream_init; exact Ei).
  assert (LF : (length (w1 ++ tv ++ w2) < json_fuel i)%nat) by (rewrite <- Ei; unfold json_fuel; lia).
  destruct (parse_variant_complete_ws cf DU d tv v J L (json_fuel i) (ps_init i) w1 w2 W1 DL
              (good_init i) HS (delimiter_ws cf w2 W2) LF) as (s' & E & P & F & LC).
  unfold json_run. rewrite E. cbn [j_err j_doc]. split; [|reflexivity].
  destruct (is_number v) eqn:NV; [|rewrite andb_false_r; reflexivity].
  rewrite (LC eq_refl).
  destruct W2 as [|b w2 Hb W2]; cbn [hd].
  - reflexivity.
  - rewrite <- is_ws_space, Hb. cbn [negb]. rewrite andb_false_r. reflexivity.
Qed.

(* what follows the value does not influence the result *)
Theorem parse_variant_ignores_rest : forall cf, decode_unicode cf = true ->
  forall d t v, jvalueD (num_den cf) d t v ->
  forall L fuel1 fuel2 s1 s2 rest1 rest2,
    (d <= L)%nat ->
    good s1 -> stream s1 = t ++ rest1 -> delimiter cf rest1 -> (length (t ++ rest1) < fuel1)%nat ->
    good s2 -> stream s2 = t ++ rest2 -> delimiter cf rest2 -> (length (t ++ rest2) < fuel2)%nat ->
    exists s1' s2',
      parse_variant cf fuel1 L None s1 = (Ok, v, s1') /\
      parse_variant cf fuel2 L None s2 = (Ok, v, s2') /\
      post s1' rest1 /\ post s2' rest2.
Proof.
  intros cf DU d t v J L fuel1 fuel2 s1 s2 rest1 rest2 DL G1 S1 D1 L1 G2 S2 D2 L2.
  destruct (parse_variant_complete cf DU d t v J L fuel1 s1 rest1 DL G1 S1 D1 L1) as (s1' & E1 & P1 & _).
  destruct (parse_variant_complete cf DU d t v J L fuel2 s2 rest2 DL G2 S2 D2 L2) as (s2' & E2 & P2 & _).
  exists s1', s2'. auto.
Qed.

(* in terms of the unindexed grammar: every RFC 8259 text is accepted under a large enough limit *)
Corollary json_run_complete_some_limit : forall cf, decode_unicode cf = true ->
  forall i v, jtext (num_den cf) i v ->
  exists d, forall L, (d <= L)%nat ->
    j_err (json_run cf None L i) = Ok /\ j_doc (json_run cf None L i) = v.
Proof.
  intros cf DU i v J. apply jtextD_iff in J as [d J]. exists d. intros L DL.
  exact (json_run_complete cf DU d i v J L DL).
Qed.

(* ------------------------------------------------------------------------------------- *)
(* The statements as first requested, with [nesting v <= L], are false: in {"a":[],"a":1} the
   overwritten member nests deeper than the value the text denotes. *)

Definition cex_text : bytes := [123; 34; 97; 34; 58; 91; 93; 44; 34; 97; 34; 58; 49; 125].
Definition cex_value : jv := JObj [([97], JInt 1)].

Lemma cex_key : jstring [34; 97; 34] [97].
Proof.
  exists [97]. split; [reflexivity|]. split; [|vm_compute; discriminate].
  apply (chs_cons [97] [97] [] []); [|constructor].
  apply ch_plain; lia.
Qed.

Lemma cex_jvalue : jvalue (num_den default_cfg) cex_text cex_value.
Proof.
  assert (J1 : jvalue (num_den default_cfg) [49] (JInt 1)).
  { apply v_num.
    - refine (jnum false [49] None None eq_refl _ _ 101 (or_introl eq_refl)); intros; discriminate.
    - split; [cbn; lia|vm_compute; reflexivity]. }
  assert (J2 : jvalue (num_den default_cfg) [91; 93] (JArr [])).
  { exact (v_arr_empty _ [] ws_nil). }
  assert (M1 : jmembers (num_den default_cfg) [34; 97; 34; 58; 49] [([97], JInt 1)]).
  { exact (m_one _ [] [34; 97; 34] [97] [] [] [49] (JInt 1) [] ws_nil cex_key ws_nil ws_nil J1 ws_nil). }
  assert (M2 : jmembers (num_den default_cfg) [34; 97; 34; 58; 91; 93; 44; 34; 97; 34; 58; 49]
                 [([97], JArr []); ([97], JInt 1)]).
  { exact (m_cons _ [] [34; 97; 34] [97] [] [] [91; 93] (JArr []) [] _ _
             ws_nil cex_key ws_nil ws_nil J2 ws_nil M1). }
  exact (v_obj _ _ _ M2).
Qed.

Theorem parse_variant_complete_value_depth_refuted :
  ~ (forall cf, decode_unicode cf = true ->
     forall t v, jvalue (num_den cf) t v ->
     forall L fuel s rest,
       (nesting v <= L)%nat ->
       good s -> stream s = t ++ rest ->
       delimiter cf rest ->
       (length (t ++ rest) < fuel)%nat ->
       exists s', parse_variant cf fuel L None s = (Ok, v, s') /\ post s' rest /\ found s' = true).
Proof.
  intro H.
  destruct (H default_cfg eq_refl cex_text cex_value cex_jvalue 1%nat 100%nat (ps_init cex_text) [])
    as (s' & E & _).
  - cbn. lia.
  - apply good_init.
  - reflexivity.
  - exact I.
  - cbn. lia.
  - vm_compute in E. discriminate E.
Qed.

Theorem json_run_complete_value_depth_refuted :
  ~ (forall cf, decode_unicode cf = true ->
     forall i v, jtext (num_den cf) i v ->
     forall L, (nesting v <= L)%nat ->
     j_err (json_run cf None L i) = Ok /\ j_doc (json_run cf None L i) = v).
Proof.
  intro H.
  assert (J : jtext (num_den default_cfg) cex_text cex_value).
  { exists [], cex_text, []. split; [reflexivity|]. split; [constructor|].
    split; [exact cex_jvalue|constructor]. }
  destruct (H default_cfg eq_refl cex_text cex_value J 1%nat) as [E _].
  - cbn. lia.
  - vm_compute in E. discriminate E.
Qed.

(* ------------------------------------------------------------------------------------- *)
(* the value never nests deeper than the text (the converse fails, as the counterexample shows) *)

Lemma nesting_arr_le : forall d vs, Forall (fun v => (nesting v <= d)%nat) vs ->
  (nesting (JArr vs) <= S d)%nat.
Proof.
  intros d vs H. cbn [nesting]. apply le_n_S.
  induction H as [|v vs Hv _ IH]; cbn [fold_right]; lia.
Qed.

Lemma nesting_obj_le : forall d ms, Forall (fun m => (nesting (snd m) <= d)%nat) ms ->
  (nesting (JObj ms) <= S d)%nat.
Proof.
  intros d ms H. cbn [nesting]. apply le_n_S.
  induction H as [|m ms Hm _ IH]; cbn [fold_right]; lia.
Qed.

Lemma assoc_set_forall : forall d k v acc,
  (nesting v <= d)%nat -> Forall (fun m => (nesting (snd m) <= d)%nat) acc ->
  Forall (fun m => (nesting (snd m) <= d)%nat) (assoc_set k v acc).
Proof.
  intros d k v acc Hv H. induction H as [|[k' v'] acc Hm H IH]; cbn [assoc_set].
  - constructor; [exact Hv|constructor].
  - destruct (bytes_eqb k k'); constructor; auto.
Qed.

Lemma obj_den_forall : forall d ms acc,
  Forall (fun m => (nesting (snd m) <= d)%nat) ms ->
  Forall (fun m => (nesting (snd m) <= d)%nat) acc ->
  Forall (fun m => (nesting (snd m) <= d)%nat) (obj_den ms acc).
Proof.
  intros d ms. induction ms as [|[k v] ms IH]; intros acc Hms Hacc; cbn [obj_den fold_left].
  - exact Hacc.
  - inversion Hms as [|? ? Hm Hms']; subst. apply IH; [exact Hms'|].
    apply assoc_set_forall; assumption.
Qed.

Lemma jvalueD_nesting_all : forall nd : bytes -> jv -> Prop, (forall t v, nd t v -> nesting v = 0%nat) ->
  (forall d t v, jvalueD nd d t v -> (nesting v <= d)%nat) /\
  (forall d t vs, jelementsD nd d t vs -> Forall (fun v => (nesting v <= d)%nat) vs) /\
  (forall d t ms, jmembersD nd d t ms -> Forall (fun m => (nesting (snd m) <= d)%nat) ms).
Proof.
  intros nd Hnd. apply jvalueD_mutind; intros; try (cbn [nesting fold_right]; lia).
  - rewrite (Hnd _ _ H0). lia.
  - apply nesting_arr_le. assumption.
  - apply nesting_obj_le. apply (obj_den_forall d ms []); [assumption|constructor].
  - constructor; [assumption|constructor].
  - constructor; assumption.
  - constructor; [assumption|constructor].
  - constructor; assumption.
Qed.

Lemma num_den_scalar : forall cf t v, num_den cf t v -> nesting v = 0%nat.
Proof.
  intros cf t v [_ H]. destruct (parse_number cf t); cbn [jv_of_number] in H; try discriminate;
    injection H as <-; try reflexivity.
  unfold jv_of_double. destruct (use_double cf); [|reflexivity].
  match goal with |- context [if ?b then _ else _] => destruct b end; reflexivity.
Qed.

Theorem jvalueD_nesting : forall cf d t v, jvalueD (num_den cf) d t v -> (nesting v <= d)%nat.
Proof.
  intros cf d t v H.
  exact (proj1 (jvalueD_nesting_all (num_den cf) (num_den_scalar cf)) d t v H).
Qed.

(* ------------------------------------------------------------------------------------- *)
(* a JSON text contains no NUL byte (NUL is the reader's end marker) *)

Definition nz (t : bytes) : Prop := Forall (fun c => c <> 0) t.

Lemma ws_nz : forall w, ws w -> nz w.
Proof. intros w W. induction W; constructor; auto. apply ws_nonzero; assumption. Qed.

Lemma uescape_nz : forall t u, uescape t u -> nz t.
Proof.
  intros t u H. destruct H as [d1 d2 d3 d4 v1 v2 v3 v4 H1 H2 H3 H4].
  repeat constructor; try lia; eapply hex_value_nonzero; eassumption.
Qed.

Lemma jchar_nz : forall t b, jchar t b -> nz t.
Proof.
  intros t b H. destruct H as [c C256 C32 C34 C92 | e c HIn | t u UE NS | t1 t2 h l U1 U2 Hh Hl].
  - constructor; [lia|constructor].
  - destruct (simple_escape e c HIn) as (EZ & _). repeat constructor; [lia|exact EZ].
  - eapply uescape_nz; eassumption.
  - apply Forall_app. split; eapply uescape_nz; eassumption.
Qed.

Lemma jstring_nz : forall t s, jstring t s -> nz t.
Proof.
  intros t s (body & -> & J & _). constructor; [lia|]. apply Forall_app. split.
  - induction J as [|t1 b1 t2 b2 J1 J2 IH]; [constructor|].
    apply Forall_app. split; [eapply jchar_nz; eassumption|exact IH].
  - constructor; [lia|constructor].
Qed.

Lemma jnumber_nz : forall t, jnumber t -> nz t.
Proof.
  intros t J. destruct (jnumber_chars default_cfg t J) as [FA _].
  unfold nz. revert FA. apply Forall_impl. intros c Hc. eapply numchar_nonzero; eassumption.
Qed.

Lemma nz_app : forall a b, nz a -> nz b -> nz (a ++ b).
Proof. intros a b A B. apply Forall_app. split; assumption. Qed.

Lemma nz_one : forall c, c <> 0 -> nz [c].
Proof. intros c H. constructor; [exact H|constructor]. Qed.

Lemma jvalue_nz_all : forall nd,
  (forall t v, jvalue nd t v -> nz t) /\
  (forall t vs, jelements nd t vs -> nz t) /\
  (forall t ms, jmembers nd t ms -> nz t).
Proof.
  intro nd.
  apply (jvalue_mutind nd (fun t _ _ => nz t) (fun t _ _ => nz t) (fun t _ _ => nz t)); intros;
    repeat first [ assumption
                 | apply nz_app
                 | apply ws_nz; assumption
                 | apply nz_one; lia
                 | eapply jstring_nz; eassumption
                 | eapply jnumber_nz; eassumption
                 | (repeat constructor; lia) ].
Qed.

Theorem jvalue_no_nul : forall nd t v, jvalue nd t v -> ~ In 0 t.
Proof.
  intros nd t v J HIn. pose proof (proj1 (jvalue_nz_all nd) t v J) as H.
  unfold nz in H. rewrite Forall_forall in H. exact (H 0 HIn eq_refl).
Qed.
