(* StringRT.v — writeString followed by parseQuotedString is the identity on every byte string
   (induction on the string; the per-byte facts come from the 256-value sweeps). *)
From Coq Require Import NArith ZArith List Bool Lia.
From AJ Require Import Model.Base Model.Value Model.Utf Model.JsonParse.
From AJ Require Import Spec.Utf8Spec Proofs.Sweep Proofs.UtfProofs Proofs.Lex.
Local Open Scope N_scope.

Lemma hex4_zero : forall s t,
  good s -> stream s = 48 :: 48 :: 48 :: 48 :: t -> cur s = None ->
  exists s', parse_hex4 4 0 s = (Ok, 0, s') /\ good s' /\ stream s' = t /\ cur s' = None /\
             found s' = found s.
Proof.
  intros s t G S C.
  assert (Z48 : 48 <> 0) by lia.
  destruct (next_cons s 48 _ G S Z48) as (s1 & E1 & G1 & S1 & C1 & F1).
  destruct (next_cons _ 48 _ G1 S1 Z48) as (s2 & E2 & G2 & S2 & C2 & F2).
  destruct (next_cons _ 48 _ G2 S2 Z48) as (s3 & E3 & G3 & S3 & C3 & F3).
  destruct (next_cons _ 48 _ G3 S3 Z48) as (s4 & E4 & G4 & S4 & C4 & F4).
  exists (move s4). cbn [parse_hex4].
  rewrite E1. change (48 =? 0) with false. change (0x0F <? decode_hex 48) with false. cbv iota.
  change (wrapN 16 (N.lor (N.shiftl 0 4) (decode_hex 48))) with 0.
  rewrite E2. change (48 =? 0) with false. change (0x0F <? decode_hex 48) with false. cbv iota.
  change (wrapN 16 (N.lor (N.shiftl 0 4) (decode_hex 48))) with 0.
  rewrite E3. change (48 =? 0) with false. change (0x0F <? decode_hex 48) with false. cbv iota.
  change (wrapN 16 (N.lor (N.shiftl 0 4) (decode_hex 48))) with 0.
  rewrite E4. change (48 =? 0) with false. change (0x0F <? decode_hex 48) with false. cbv iota.
  change (wrapN 16 (N.lor (N.shiftl 0 4) (decode_hex 48))) with 0.
  split; [reflexivity|]. split; [exact G4|]. split; [exact S4|]. split; [exact C4|]. congruence.
Qed.

Theorem quoted_roundtrip : forall cf str tail fuel cp acc s,
  decode_unicode cf = true ->
  Forall (fun b => b < 256) str ->
  good s -> stream s = flat_map write_char str ++ 34 :: tail ->
  (length str < fuel)%nat ->
  exists s', quoted_loop cf fuel 34 cp acc s = (Ok, acc ++ str, s') /\
             good s' /\ stream s' = tail /\ cur s' = None /\ found s' = found s.
Proof.
  intros cf str. induction str as [|c str IH]; intros tail fuel cp acc s DU FA G S L.
  - cbn in S. destruct fuel as [|fuel]; [cbn in L; lia|].
    assert (Q : 34 <> 0) by lia.
    destruct (next_cons s 34 tail G S Q) as (s1 & E1 & G1 & S1 & C1 & F1).
    cbn [quoted_loop]. rewrite E1, N.eqb_refl. exists (move s1). rewrite app_nil_r. auto.
  - destruct fuel as [|fuel]; [cbn in L; lia|].
    inversion FA as [|? ? Hc FA']; subst.
    cbn [flat_map] in S. rewrite <- app_assoc in S.
    assert (L' : (length str < fuel)%nat) by (cbn in L; lia).
    unfold write_char in S.
    destruct (escape_char c =? 0) eqn:EZ; cbn [negb] in S.
    + (* not one of the seven escaped bytes *)
      apply N.eqb_eq in EZ. destruct (escape_char_zero c Hc EZ) as [N34 N92].
      destruct (c =? 0) eqn:CZ; cbn [negb] in S.
      * (* NUL, written \u0000 *)
        apply N.eqb_eq in CZ. subst c. cbn [app] in S.
        assert (Q92 : 92 <> 0) by lia. assert (Q117 : 117 <> 0) by lia.
        destruct (next_cons s 92 _ G S Q92) as (s1 & E1 & G1 & S1 & C1 & F1).
        destruct (next_cons _ 117 _ G1 S1 Q117) as (s2 & E2 & G2 & S2 & C2 & F2).
        destruct (hex4_zero _ _ G2 S2 C2) as (s3 & E3 & G3 & S3 & C3 & F3).
        cbn [quoted_loop]. rewrite E1.
        change (92 =? 34) with false. change (92 =? 0) with false. change (92 =? 92) with true.
        cbv iota. rewrite E2.
        change (117 =? 0) with false. change (117 =? 117) with true. cbv iota.
        rewrite DU, E3.
        change (cp_append cp 0) with (true, {| hi_sur := hi_sur cp; cp_val := 0 |}).
        cbv iota. cbn [cp_val].
        change (encode_codepoint 0) with [0].
        destruct (IH tail fuel {| hi_sur := hi_sur cp; cp_val := 0 |} (acc ++ [0]) s3 DU FA' G3 S3 L')
          as (s' & E' & G' & S' & C' & F').
        exists s'. rewrite E', <- app_assoc. cbn [app].
        split; [reflexivity|]. split; [exact G'|]. split; [exact S'|]. split; [exact C'|]. congruence.
      * (* verbatim byte *)
        apply N.eqb_neq in CZ. cbn [app] in S.
        destruct (next_cons s c _ G S CZ) as (s1 & E1 & G1 & S1 & C1 & F1).
        cbn [quoted_loop]. rewrite E1.
        assert (X1 : (c =? 34) = false) by (apply N.eqb_neq; exact N34).
        assert (X2 : (c =? 0) = false) by (apply N.eqb_neq; exact CZ).
        assert (X3 : (c =? 92) = false) by (apply N.eqb_neq; exact N92).
        rewrite X1, X2, X3.
        destruct (IH tail fuel cp (acc ++ [c]) _ DU FA' G1 S1 L') as (s' & E' & G' & S' & C' & F').
        exists s'. rewrite E', <- app_assoc. cbn [app].
        split; [reflexivity|]. split; [exact G'|]. split; [exact S'|]. split; [exact C'|]. congruence.
    + (* backslash + letter *)
      apply N.eqb_neq in EZ. destruct (escape_char_nonzero c Hc EZ) as (NU & UN & CZ).
      cbn [app] in S.
      assert (Q92 : 92 <> 0) by lia.
      destruct (next_cons s 92 _ G S Q92) as (s1 & E1 & G1 & S1 & C1 & F1).
      destruct (current_cons _ (escape_char c) _ G1 S1 EZ) as (s2 & E2 & G2 & S2 & C2 & F2 & _).
      destruct (move_cons _ _ _ G2 C2 S2) as (G3 & S3 & C3 & F3).
      cbn [quoted_loop]. rewrite E1.
      change (92 =? 34) with false. change (92 =? 0) with false. change (92 =? 92) with true.
      cbv iota. rewrite E2.
      assert (X1 : (escape_char c =? 0) = false) by (apply N.eqb_neq; exact EZ).
      assert (X2 : (escape_char c =? 117) = false) by (apply N.eqb_neq; exact NU).
      assert (X3 : (c =? 0) = false) by (apply N.eqb_neq; exact CZ).
      rewrite X1, X2, UN, X3.
      destruct (IH tail fuel cp (acc ++ [c]) _ DU FA' G3 S3 L') as (s' & E' & G' & S' & C' & F').
      exists s'. rewrite E', <- app_assoc. cbn [app].
        split; [reflexivity|]. split; [exact G'|]. split; [exact S'|]. split; [exact C'|]. congruence.
Qed.

(* the whole string value: opening quote included; the string must fit the builder
   (at most 65535 bytes, StringNode::maxLength) *)
Theorem write_then_parse_string : forall cf str tail fuel s,
  decode_unicode cf = true ->
  Forall (fun b => b < 256) str ->
  str_fits str ->
  good s -> stream s = write_string str ++ tail ->
  (length str < fuel)%nat ->
  exists s', parse_quoted_string cf fuel s = (Ok, str, s') /\
             good s' /\ stream s' = tail /\ cur s' = None /\ found s' = found s.
Proof.
  intros cf str tail fuel s DU FA FIT G S L.
  unfold write_string in S. rewrite <- !app_assoc in S. cbn [app] in S.
  assert (Q : 34 <> 0) by lia.
  destruct (current_cons s 34 _ G S Q) as (s1 & E1 & G1 & S1 & C1 & F1 & _).
  destruct (move_cons _ _ _ G1 C1 S1) as (G2 & S2 & C2 & F2).
  unfold parse_quoted_string. rewrite E1.
  destruct (quoted_roundtrip cf str tail fuel cp_init [] _ DU FA G2 S2 L) as (s' & E' & G' & S' & C' & F').
  exists s'. rewrite E'. cbn [app]. rewrite (cap_string_fits _ _ FIT).
  split; [reflexivity|]. split; [exact G'|]. split; [exact S'|]. split; [exact C'|]. congruence.
Qed.

(* a string that does not fit: the whole text is read, then NoMemory *)
Theorem write_then_parse_long_string : forall cf str tail fuel s,
  decode_unicode cf = true ->
  Forall (fun b => b < 256) str ->
  max_json_string < N.of_nat (length str) ->
  good s -> stream s = write_string str ++ tail ->
  (length str < fuel)%nat ->
  exists s', parse_quoted_string cf fuel s = (NoMemory, [], s') /\
             good s' /\ stream s' = tail /\ cur s' = None /\ found s' = found s.
Proof.
  intros cf str tail fuel s DU FA LONG G S L.
  unfold write_string in S. rewrite <- !app_assoc in S. cbn [app] in S.
  assert (Q : 34 <> 0) by lia.
  destruct (current_cons s 34 _ G S Q) as (s1 & E1 & G1 & S1 & C1 & F1 & _).
  destruct (move_cons _ _ _ G1 C1 S1) as (G2 & S2 & C2 & F2).
  unfold parse_quoted_string. rewrite E1.
  destruct (quoted_roundtrip cf str tail fuel cp_init [] _ DU FA G2 S2 L) as (s' & E' & G' & S' & C' & F').
  exists s'. rewrite E'. cbn [app]. rewrite (cap_string_long _ _ LONG).
  split; [reflexivity|]. split; [exact G'|]. split; [exact S'|]. split; [exact C'|]. congruence.
Qed.

(* ------------------------------------------------------------------------------------- *)
(* \uXXXX escapes, any hex-digit case, at any position of a string *)

Definition hexacc_check (a : N) : bool :=
  all_below_pow2 4 (fun v => wrapN 16 (N.lor (N.shiftl a 4) v) =? a * 16 + v).
Lemma hexacc_sweep : all_below_pow2 12 hexacc_check = true.
Proof. vm_cast_no_check (eq_refl true). Qed.

Lemma hexacc : forall a v, a < 4096 -> v < 16 -> wrapN 16 (N.lor (N.shiftl a 4) v) = a * 16 + v.
Proof.
  intros a v Ha Hv.
  pose proof (all_below_pow2_spec 12 _ hexacc_sweep a Ha) as E. unfold hexacc_check in E.
  pose proof (all_below_pow2_spec 4 _ E v Hv) as E2. apply N.eqb_eq in E2. exact E2.
Qed.

Lemma hex_value_nonzero : forall d v, hex_value d = Some v -> d <> 0.
Proof. intros d v H ->. discriminate H. Qed.

Lemma hex_step : forall n acc s d v t,
  good s -> stream s = d :: t -> d < 256 -> hex_value d = Some v -> acc < 4096 ->
  exists s', parse_hex4 (S n) acc s = parse_hex4 n (acc * 16 + v) s' /\
             good s' /\ stream s' = t /\ cur s' = None /\ found s' = found s.
Proof.
  intros n acc s d v t G S D H A.
  destruct (decode_hex_digit d v D H) as [DH V].
  pose proof (hex_value_nonzero d v H) as NZ.
  destruct (next_cons s d t G S NZ) as (s1 & E1 & G1 & S1 & C1 & F1).
  exists (move s1). cbn [parse_hex4]. rewrite E1.
  assert (X : (d =? 0) = false) by (apply N.eqb_neq; exact NZ). rewrite X, DH.
  assert (Y : (0x0F <? v) = false) by (apply N.ltb_ge; lia). rewrite Y.
  rewrite hexacc by assumption. auto.
Qed.

Definition hex4_value (v1 v2 v3 v4 : N) : N := ((v1 * 16 + v2) * 16 + v3) * 16 + v4.

Lemma hex4_correct : forall s d1 d2 d3 d4 v1 v2 v3 v4 t,
  good s -> stream s = d1 :: d2 :: d3 :: d4 :: t ->
  d1 < 256 -> d2 < 256 -> d3 < 256 -> d4 < 256 ->
  hex_value d1 = Some v1 -> hex_value d2 = Some v2 -> hex_value d3 = Some v3 -> hex_value d4 = Some v4 ->
  exists s', parse_hex4 4 0 s = (Ok, hex4_value v1 v2 v3 v4, s') /\
             good s' /\ stream s' = t /\ cur s' = None /\ found s' = found s /\
             hex4_value v1 v2 v3 v4 < 65536.
Proof.
  intros s d1 d2 d3 d4 v1 v2 v3 v4 t G S D1 D2 D3 D4 H1 H2 H3 H4.
  destruct (decode_hex_digit _ _ D1 H1) as [_ V1]. destruct (decode_hex_digit _ _ D2 H2) as [_ V2].
  destruct (decode_hex_digit _ _ D3 H3) as [_ V3]. destruct (decode_hex_digit _ _ D4 H4) as [_ V4].
  destruct (hex_step 3 0 s d1 v1 _ G S D1 H1 ltac:(lia)) as (s1 & E1 & G1 & S1 & C1 & F1).
  destruct (hex_step 2 (0 * 16 + v1) s1 d2 v2 _ G1 S1 D2 H2 ltac:(lia)) as (s2 & E2 & G2 & S2 & C2 & F2).
  destruct (hex_step 1 ((0 * 16 + v1) * 16 + v2) s2 d3 v3 _ G2 S2 D3 H3 ltac:(lia)) as (s3 & E3 & G3 & S3 & C3 & F3).
  destruct (hex_step 0 (((0 * 16 + v1) * 16 + v2) * 16 + v3) s3 d4 v4 _ G3 S3 D4 H4 ltac:(lia)) as (s4 & E4 & G4 & S4 & C4 & F4).
  exists s4. rewrite E1, E2, E3, E4. cbn [parse_hex4]. unfold hex4_value.
  split; [reflexivity|]. split; [exact G4|]. split; [exact S4|]. split; [exact C4|].
  split; [congruence|lia].
Qed.

(* one loop iteration over  \ u d1 d2 d3 d4  : the code unit is handed to Codepoint::append *)
Lemma quoted_step_u : forall cf fuel cp acc s d1 d2 d3 d4 v1 v2 v3 v4 t,
  decode_unicode cf = true ->
  good s -> stream s = 92 :: 117 :: d1 :: d2 :: d3 :: d4 :: t ->
  d1 < 256 -> d2 < 256 -> d3 < 256 -> d4 < 256 ->
  hex_value d1 = Some v1 -> hex_value d2 = Some v2 -> hex_value d3 = Some v3 -> hex_value d4 = Some v4 ->
  let u := hex4_value v1 v2 v3 v4 in
  exists s', good s' /\ stream s' = t /\ cur s' = None /\ found s' = found s /\ u < 65536 /\
    quoted_loop cf (S fuel) 34 cp acc s =
      (let '(complete, cp') := cp_append cp u in
       if complete then quoted_loop cf fuel 34 cp' (acc ++ encode_codepoint (cp_val cp')) s'
       else quoted_loop cf fuel 34 cp' acc s').
Proof.
  intros cf fuel cp acc s d1 d2 d3 d4 v1 v2 v3 v4 t DU G S D1 D2 D3 D4 H1 H2 H3 H4 u.
  assert (Q92 : 92 <> 0) by lia. assert (Q117 : 117 <> 0) by lia.
  destruct (next_cons s 92 _ G S Q92) as (s1 & E1 & G1 & S1 & C1 & F1).
  destruct (next_cons _ 117 _ G1 S1 Q117) as (s2 & E2 & G2 & S2 & C2 & F2).
  destruct (hex4_correct _ _ _ _ _ _ _ _ _ _ G2 S2 D1 D2 D3 D4 H1 H2 H3 H4)
    as (s3 & E3 & G3 & S3 & C3 & F3 & U).
  exists s3. split; [exact G3|]. split; [exact S3|]. split; [exact C3|]. split; [congruence|].
  split; [exact U|].
  cbn [quoted_loop]. rewrite E1.
  change (92 =? 34) with false. change (92 =? 0) with false. change (92 =? 92) with true.
  cbv iota. rewrite E2.
  change (117 =? 0) with false. change (117 =? 117) with true. cbv iota.
  rewrite DU, E3. fold u. destruct (cp_append cp u) as [complete cp']. reflexivity.
Qed.

(* BMP scalar: its UTF-8 encoding is appended *)
Theorem quoted_step_bmp : forall cf fuel cp acc s d1 d2 d3 d4 v1 v2 v3 v4 t,
  decode_unicode cf = true ->
  good s -> stream s = 92 :: 117 :: d1 :: d2 :: d3 :: d4 :: t ->
  d1 < 256 -> d2 < 256 -> d3 < 256 -> d4 < 256 ->
  hex_value d1 = Some v1 -> hex_value d2 = Some v2 -> hex_value d3 = Some v3 -> hex_value d4 = Some v4 ->
  let u := hex4_value v1 v2 v3 v4 in
  is_surrogate u = false ->
  exists s' cp', good s' /\ stream s' = t /\ cur s' = None /\ found s' = found s /\
    quoted_loop cf (S fuel) 34 cp acc s = quoted_loop cf fuel 34 cp' (acc ++ utf8_encode u) s'.
Proof.
  intros cf fuel cp acc s d1 d2 d3 d4 v1 v2 v3 v4 t DU G S D1 D2 D3 D4 H1 H2 H3 H4 u NS.
  destruct (quoted_step_u cf fuel cp acc s d1 d2 d3 d4 v1 v2 v3 v4 t DU G S D1 D2 D3 D4 H1 H2 H3 H4)
    as (s' & G' & S' & C' & F' & U & E).
  fold u in U, E. rewrite (cp_append_bmp cp u U NS) in E. cbn [cp_val] in E.
  rewrite encode_codepoint_correct in E by lia.
  exists s', {| hi_sur := hi_sur cp; cp_val := u |}. auto.
Qed.

(* surrogate pair: two consecutive escapes append the UTF-8 encoding of the pair's code point *)
Theorem quoted_step_pair : forall cf fuel cp acc s
    d1 d2 d3 d4 v1 v2 v3 v4 e1 e2 e3 e4 w1 w2 w3 w4 t,
  decode_unicode cf = true ->
  good s ->
  stream s = 92 :: 117 :: d1 :: d2 :: d3 :: d4 :: 92 :: 117 :: e1 :: e2 :: e3 :: e4 :: t ->
  d1 < 256 -> d2 < 256 -> d3 < 256 -> d4 < 256 -> e1 < 256 -> e2 < 256 -> e3 < 256 -> e4 < 256 ->
  hex_value d1 = Some v1 -> hex_value d2 = Some v2 -> hex_value d3 = Some v3 -> hex_value d4 = Some v4 ->
  hex_value e1 = Some w1 -> hex_value e2 = Some w2 -> hex_value e3 = Some w3 -> hex_value e4 = Some w4 ->
  let h := hex4_value v1 v2 v3 v4 in
  let l := hex4_value w1 w2 w3 w4 in
  0xD800 <= h < 0xDC00 -> 0xDC00 <= l < 0xE000 ->
  exists s' cp', good s' /\ stream s' = t /\ cur s' = None /\ found s' = found s /\
    quoted_loop cf (S (S fuel)) 34 cp acc s =
      quoted_loop cf fuel 34 cp' (acc ++ utf8_encode (pair_codepoint h l)) s'.
Proof.
  intros cf fuel cp acc s d1 d2 d3 d4 v1 v2 v3 v4 e1 e2 e3 e4 w1 w2 w3 w4 t DU G S
         D1 D2 D3 D4 E1 E2 E3 E4 H1 H2 H3 H4 K1 K2 K3 K4 h l Hh Hl.
  destruct (quoted_step_u cf (Datatypes.S fuel) cp acc s d1 d2 d3 d4 v1 v2 v3 v4 _ DU G S D1 D2 D3 D4 H1 H2 H3 H4)
    as (s1 & G1 & S1 & C1 & F1 & U1 & Q1).
  fold h in U1, Q1.
  pose proof (cp_append_pair cp h l Hh Hl) as P.
  destruct (cp_append cp h) as [b1 c1] eqn:A1.
  destruct (quoted_step_u cf fuel c1 acc s1 e1 e2 e3 e4 w1 w2 w3 w4 _ DU G1 S1 E1 E2 E3 E4 K1 K2 K3 K4)
    as (s2 & G2 & S2 & C2 & F2 & U2 & Q2).
  fold l in U2, Q2.
  destruct (cp_append c1 l) as [b2 c2] eqn:A2.
  destruct P as (B1 & B2 & V & R). subst b1 b2.
  rewrite Q1, Q2. rewrite V. rewrite encode_codepoint_correct by (rewrite <- V; exact R).
  exists s2, c2. split; [exact G2|]. split; [exact S2|]. split; [exact C2|]. split; [congruence|reflexivity].
Qed.
