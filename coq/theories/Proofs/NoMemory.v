(* NoMemory.v — the string capacity limit of the JSON reader (StringNode::maxLength = 65535).

   Part 1  ok_strings_fit: whatever json_run builds (any filter, any outcome, so in particular an
           accepted document) contains only strings and keys of at most 65535 bytes.
   Part 2  long_string_is_NoMemory: a string of the dialect (so also an RFC 8259 string) whose
           decoded length is 65536 or more is read up to and including its closing quote, and
           only then refused with NoMemory; the number of bytes read is stated.               *)
From Coq Require Import NArith ZArith List Bool Lia.
From AJ Require Import Model.Base Model.Value Model.Utf Model.NumParse Model.JsonParse.
From AJ Require Import Spec.Utf8Spec Spec.Rfc8259 Spec.ParseSpec Spec.Dialect.
From AJ Require Import Proofs.Lex Proofs.StringRT Proofs.ParseSafe Proofs.ParseComplete Proofs.DialectSound.
Local Open Scope N_scope.

(* ===================================================================================== *)
(* Part 1 — every string and key of a document built by the reader fits                   *)

Fixpoint strings_fit (v : jv) : Prop :=
  match v with
  | JStr s => str_fits s
  | JArr l => fold_right (fun x P => strings_fit x /\ P) True l
  | JObj l => fold_right (fun kv P => (str_fits (fst kv) /\ strings_fit (snd kv)) /\ P) True l
  | _ => True
  end.

Lemma strings_fit_arr_snoc : forall acc v,
  strings_fit (JArr acc) -> strings_fit v -> strings_fit (JArr (acc ++ [v])).
Proof.
  intros acc v. cbn [strings_fit]. induction acc as [|x acc IH]; cbn [app fold_right].
  - intros _ H. split; [exact H|exact I].
  - intros [H1 H2] H. split; [exact H1|]. apply IH; assumption.
Qed.

Lemma strings_fit_obj_set : forall k v acc,
  strings_fit (JObj acc) -> str_fits k -> strings_fit v -> strings_fit (JObj (assoc_set k v acc)).
Proof.
  intros k v acc. cbn [strings_fit].
  induction acc as [|[k' v'] acc IH]; cbn [assoc_set fold_right fst snd].
  - intros _ K V. split; [split; assumption|exact I].
  - intros [[K' V'] R] K V. destruct (bytes_eqb k k'); cbn [fold_right fst snd].
    + split; [split; assumption|exact R].
    + split; [split; assumption|]. apply IH; assumption.
Qed.

Lemma jv_of_double_fit : forall ud f, strings_fit (jv_of_double ud f).
Proof.
  intros ud f. unfold jv_of_double. cbv zeta. destruct ud; [|exact I].
  match goal with |- context [if ?b then _ else _] => destruct b end; exact I.
Qed.

Lemma jv_of_number_fit : forall cf n v, jv_of_number cf n = Some v -> strings_fit v.
Proof.
  intros cf n v H. destruct n; cbn [jv_of_number] in H; try discriminate H;
    injection H as <-; try exact I. apply jv_of_double_fit.
Qed.

(* the value component of a result *)
Definition fit3 (r : code * jv * ps) : Prop := strings_fit (snd (fst r)).

(* what the string routines hand over when they succeed *)
Lemma parse_quoted_string_fits : forall cf fuel s,
  fst (fst (parse_quoted_string cf fuel s)) = Ok -> str_fits (snd (fst (parse_quoted_string cf fuel s))).
Proof.
  intros cf fuel s. unfold parse_quoted_string. destruct (current s) as [stop s1].
  destruct (cap_string (quoted_loop cf fuel stop cp_init [] (move s1))) as [[e a] s'] eqn:E.
  cbn [fst snd]. intros ->. exact (proj2 (cap_string_ok _ _ _ E)).
Qed.

Lemma parse_non_quoted_string_fits : forall fuel s,
  fst (fst (parse_non_quoted_string fuel s)) = Ok ->
  str_fits (snd (fst (parse_non_quoted_string fuel s))).
Proof.
  intros fuel s. unfold parse_non_quoted_string. destruct (current s) as [c s1].
  destruct (can_be_in_non_quoted_string c); [|cbn [fst]; discriminate].
  destruct (cap_string (non_quoted_loop fuel [] c s1)) as [[e a] s'] eqn:E.
  cbn [fst snd]. intros ->. exact (proj2 (cap_string_ok _ _ _ E)).
Qed.

Lemma parse_key_fits : forall cf fuel s,
  fst (fst (parse_key cf fuel s)) = Ok -> str_fits (snd (fst (parse_key cf fuel s))).
Proof.
  intros cf fuel s. unfold parse_key. destruct (current s) as [c s1].
  destruct (is_quote c); [apply parse_quoted_string_fits|apply parse_non_quoted_string_fits].
Qed.

Lemma parse_numeric_value_fit : forall cf s, fit3 (parse_numeric_value cf s).
Proof.
  intros cf s. unfold parse_numeric_value. destruct (scan_number cf 63 [] s) as [buf s1].
  cbv beta iota zeta.
  destruct (jv_of_number cf (parse_number cf buf)) as [v|] eqn:E; unfold fit3; cbn [fst snd].
  - exact (jv_of_number_fit _ _ _ E).
  - exact I.
Qed.

(* ---- proof engine: follow the head of the expression (as in ParseSafe.v) ---- *)
Ltac ft_fwd :=
  repeat match goal with
  | H : _ /\ _ |- _ => destruct H
  | H : Ok = Ok -> _ |- _ => specialize (H eq_refl)
  end.

Ltac ft_leaf :=
  unfold fit3 in *; cbn [fst snd] in *; ft_fwd;
  repeat match goal with |- context [if ?b then _ else _] => destruct b end;
  first [ assumption
        | exact I
        | apply strings_fit_arr_snoc; assumption
        | apply strings_fit_obj_set; assumption
        | (cbn [strings_fit fold_right]; first [assumption | exact I | tauto]) ].

Ltac ft_go D :=
  cbn [fst snd] in *;
  lazymatch goal with
  | |- ?P ?r =>
      let h := head_scrut r in
      lazymatch h with
      | (_, _) => ft_leaf
      | _ =>
          first [ D h
                | is_var h; destruct h
                | let E := fresh "E" in destruct h eqn:E; clear E ];
          ft_go D
      end
  end.

Ltac f_lex h :=
  lazymatch h with
  | parse_key ?cf ?f ?X =>
      pose proof (parse_key_fits cf f X); destruct (parse_key cf f X) as [[? ?] ?]
  | parse_quoted_string ?cf ?f ?X =>
      pose proof (parse_quoted_string_fits cf f X); destruct (parse_quoted_string cf f X) as [[? ?] ?]
  | parse_numeric_value ?cf ?X =>
      pose proof (parse_numeric_value_fit cf X); destruct (parse_numeric_value cf X) as [[? ?] ?]
  | skip_spaces ?cf ?f ?X => destruct (skip_spaces cf f X) as [? ?]
  | skip_keyword ?k ?X => destruct (skip_keyword k X) as [? ?]
  | skip_quoted_string ?f ?X => destruct (skip_quoted_string f X) as [? ?]
  | skip_numeric_loop ?cf ?f ?X => destruct (skip_numeric_loop cf f X) as [? ?]
  | current ?X => destruct (current X) as [? ?]
  | eat ?c ?X => destruct (eat c X) as [[] ?]
  end.

Section ContainersFit.
  Variable cf : cfg.
  Variable pv : filter -> ps -> code * jv * ps.
  Variable sv : ps -> code * ps.
  Hypothesis pv_fit : forall f s, fit3 (pv f s).

  Lemma array_loop_fit : forall fuel ef acc s,
    strings_fit (JArr acc) -> fit3 (array_loop cf pv sv fuel ef acc s).
  Proof.
    induction fuel as [|fuel IH]; intros ef acc s A; cbn [array_loop].
    - ft_leaf.
    - ft_go ltac:(fun h => lazymatch h with
        | array_loop cf pv sv fuel ?e ?a ?X =>
            let B := fresh "B" in
            unfold fit3 in * |-; cbn [fst snd] in * |-; ft_fwd;
            assert (B : strings_fit (JArr a))
              by (first [assumption | apply strings_fit_arr_snoc; assumption]);
            pose proof (IH e a X B); destruct (array_loop cf pv sv fuel e a X) as [[? ?] ?]
        | pv ?f ?X => pose proof (pv_fit f X); destruct (pv f X) as [[? ?] ?]
        | sv ?X => destruct (sv X) as [? ?]
        | _ => f_lex h end).
  Qed.

  Lemma object_loop_fit : forall fuel f acc s,
    strings_fit (JObj acc) -> fit3 (object_loop cf pv sv fuel f acc s).
  Proof.
    induction fuel as [|fuel IH]; intros f acc s A; cbn [object_loop].
    - ft_leaf.
    - ft_go ltac:(fun h => lazymatch h with
        | object_loop cf pv sv fuel ?e ?a ?X =>
            let B := fresh "B" in
            unfold fit3 in * |-; cbn [fst snd] in * |-; ft_fwd;
            assert (B : strings_fit (JObj a))
              by (first [assumption | apply strings_fit_obj_set; assumption]);
            pose proof (IH e a X B); destruct (object_loop cf pv sv fuel e a X) as [[? ?] ?]
        | pv ?f ?X => pose proof (pv_fit f X); destruct (pv f X) as [[? ?] ?]
        | sv ?X => destruct (sv X) as [? ?]
        | _ => f_lex h end).
  Qed.
End ContainersFit.

Lemma parse_variant_fit : forall cf fuel L f s, fit3 (parse_variant cf fuel L f s).
Proof.
  intros cf fuel. induction L as [|L IH]; intros f s; cbn [parse_variant].
  - ft_go ltac:(fun h => lazymatch h with
      | skip_variant cf fuel ?l ?X => destruct (skip_variant cf fuel l X) as [? ?]
      | _ => f_lex h end).
  - ft_go ltac:(fun h => lazymatch h with
      | skip_variant cf fuel ?l ?X => destruct (skip_variant cf fuel l X) as [? ?]
      | array_loop cf ?pv ?sv fuel ?e ?a ?X =>
          pose proof (array_loop_fit cf pv sv IH fuel e a X I);
          destruct (array_loop cf pv sv fuel e a X) as [[? ?] ?]
      | object_loop cf ?pv ?sv fuel ?e ?a ?X =>
          pose proof (object_loop_fit cf pv sv IH fuel e a X I);
          destruct (object_loop cf pv sv fuel e a X) as [[? ?] ?]
      | _ => f_lex h end).
Qed.

(* whatever the outcome and the filter, the (possibly partial) document only holds strings and
   keys that fit *)
Theorem json_run_strings_fit : forall cf f L i, strings_fit (j_doc (json_run cf f L i)).
Proof.
  intros cf f L i. unfold json_run.
  pose proof (parse_variant_fit cf (json_fuel i) L f (ps_init i)) as H.
  destruct (parse_variant cf (json_fuel i) L f (ps_init i)) as [[e v] s']. exact H.
Qed.

Theorem ok_strings_fit : forall cf L i,
  j_err (json_run cf None L i) = Ok -> strings_fit (j_doc (json_run cf None L i)).
Proof. intros cf L i _. apply json_run_strings_fit. Qed.

(* ===================================================================================== *)
(* Part 2 — a string that does not fit is read to its end and refused                     *)

(* the string routine: any string body of the dialect (either quote, any configuration) *)
Lemma parse_long_dstring : forall cf q body str, (q = 34 \/ q = 39) -> dchars cf q 0 body str ->
  max_json_string < N.of_nat (length str) ->
  forall fuel s tail,
    good s -> stream s = [q] ++ body ++ [q] ++ tail -> (length body + 2 <= fuel)%nat ->
    exists s', parse_quoted_string cf fuel s = (NoMemory, [], s') /\
               good s' /\ stream s' = tail /\ cur s' = None /\ found s' = found s.
Proof.
  intros cf q body str HQ D LONG fuel s tail G HS L. cbn [app] in HS.
  assert (Q0 : q <> 0) by (destruct HQ; lia).
  destruct (next_cons s q _ G HS Q0) as (s1 & E1 & G1 & S1 & C1 & F1).
  unfold parse_quoted_string. rewrite E1.
  destruct (dchars_fwd cf q HQ 0 body str D fuel cp_init [] _ tail eq_refl ltac:(lia) G1 S1 ltac:(lia))
    as (s' & E' & G' & S' & C' & F').
  exists s'. rewrite E'. cbn [app]. rewrite (cap_string_long _ _ LONG). splits; auto; congruence.
Qed.

(* bytes read: with nothing latched before and after, the reader advanced by exactly the text *)
Lemma reads_advance : forall s s' t r,
  budget s' = budget s -> cur s = None -> cur s' = None -> stream s = t ++ r -> stream s' = r ->
  reads s' = reads s + N.of_nat (length t).
Proof.
  intros s s' t r B C C' S S'. unfold budget, stream in *. rewrite C in S. rewrite C' in S'.
  rewrite S, S' in B. rewrite app_length in B. lia.
Qed.

(* the reader, mid-stream: insignificant bytes, then the long string, then anything *)
Theorem long_string_is_NoMemory : forall cf q body str, (q = 34 \/ q = 39) ->
  dchars cf q 0 body str -> 65536 <= N.of_nat (length str) ->
  forall L fuel s w rest,
    dws cf w -> good s -> cur s = None -> stream s = w ++ ([q] ++ body ++ [q]) ++ rest ->
    (length (w ++ ([q] ++ body ++ [q]) ++ rest) < fuel)%nat ->
    exists s', parse_variant cf fuel L None s = (NoMemory, JNull, s') /\
               good s' /\ stream s' = rest /\ cur s' = None /\
               reads s' = reads s + N.of_nat (length (w ++ [q] ++ body ++ [q])).
Proof.
  intros cf q body str HQ D LONG L fuel s w rest W G C0 S LF.
  assert (LONG' : max_json_string < N.of_nat (length str)) by (unfold max_json_string; lia).
  assert (S0 : stream s = w ++ q :: ((body ++ [q]) ++ rest)).
  { rewrite S. cbn [app]. rewrite <- !app_assoc. reflexivity. }
  assert (V : dvs q) by (destruct HQ as [-> | ->]; unfold dvs; splits; try reflexivity; lia).
  destruct (dpv_enter cf w fuel s q _ W G S0 V ltac:(lens)) as (s1 & E1 & G1 & S1 & C1 & F1).
  assert (S2 : stream s1 = [q] ++ body ++ [q] ++ rest).
  { rewrite S1. cbn [app]. rewrite <- !app_assoc. reflexivity. }
  destruct (parse_long_dstring cf q body str HQ D LONG' fuel s1 rest G1 S2 ltac:(lens))
    as (s' & E' & G' & S' & C' & F').
  exists s'.
  assert (PV : parse_variant cf fuel L None s = (NoMemory, JNull, s')).
  { rewrite (pv_str_q cf fuel L s s1 q HQ E1 C1), E'. reflexivity. }
  split; [exact PV|]. split; [exact G'|]. split; [exact S'|]. split; [exact C'|].
  apply (reads_advance s s' _ rest (parse_variant_budget _ _ _ _ _ _ _ _ PV) C0 C').
  - rewrite S. rewrite <- !app_assoc. reflexivity.
  - exact S'.
Qed.

(* the whole run *)
Theorem json_run_long_string : forall cf q body str, (q = 34 \/ q = 39) ->
  dchars cf q 0 body str -> 65536 <= N.of_nat (length str) ->
  forall L w rest, dws cf w ->
    let o := json_run cf None L (w ++ ([q] ++ body ++ [q]) ++ rest) in
    j_err o = NoMemory /\ j_doc o = JNull /\
    reads (j_st o) = N.of_nat (length (w ++ [q] ++ body ++ [q])) /\ stream (j_st o) = rest.
Proof.
  intros cf q body str HQ D LONG L w rest W.
  set (i := w ++ ([q] ++ body ++ [q]) ++ rest).
  assert (LF : (length i < json_fuel i)%nat) by (unfold json_fuel; lia).
  destruct (long_string_is_NoMemory cf q body str HQ D LONG L (json_fuel i) (ps_init i) w rest W
              (good_init i) eq_refl (stream_init i) LF) as (s' & E & G' & S' & C' & R').
  cbv zeta. fold i. unfold json_run. rewrite E. cbn [j_err j_doc j_st].
  split; [reflexivity|]. split; [reflexivity|]. split; [|exact S'].
  rewrite R'. cbn [ps_init reads]. lia.
Qed.

(* the same for the strings of RFC 8259 (ARDUINOJSON_DECODE_UNICODE, the default) *)
Corollary rfc_long_string_is_NoMemory : forall cf, decode_unicode cf = true ->
  forall body str, jchars body str -> 65536 <= N.of_nat (length str) ->
  forall L w rest, ws w ->
    let o := json_run cf None L (w ++ ([34] ++ body ++ [34]) ++ rest) in
    j_err o = NoMemory /\ j_doc o = JNull /\
    reads (j_st o) = N.of_nat (length (w ++ [34] ++ body ++ [34])) /\ stream (j_st o) = rest.
Proof.
  intros cf DU body str J LONG L w rest W.
  exact (json_run_long_string cf 34 body str (or_introl eq_refl) (jchars_dchars cf DU body str J 0)
           LONG L w rest (ws_dws cf w W)).
Qed.

(* the bound of [jstring] is exactly the reader's: an RFC string is accepted iff it fits *)
Corollary rfc_string_accepted_iff_fits : forall cf, decode_unicode cf = true ->
  forall body str, jchars body str ->
  forall L, (j_err (json_run cf None L ([34] ++ body ++ [34])) = Ok <-> string_fits str).
Proof.
  intros cf DU body str J L. split.
  - intro H. destruct (N.le_gt_cases (N.of_nat (length str)) max_string_bytes) as [LE|GT]; [exact LE|].
    assert (LONG : 65536 <= N.of_nat (length str)) by (unfold max_string_bytes in GT; lia).
    destruct (rfc_long_string_is_NoMemory cf DU body str J LONG L [] [] ws_nil) as (E & _).
    cbn [app] in E. rewrite app_nil_r in E. cbn [app] in H. rewrite E in H. discriminate H.
  - intro FIT.
    assert (JS : jstring ([34] ++ body ++ [34]) str) by (exists body; auto).
    assert (DV : dvalue cf 0 ([34] ++ body ++ [34]) (JStr str))
      by (apply dv_str; apply jstring_dstring; assumption).
    destruct (dialect_complete cf L [] _ _ [] 0%nat (dws_nil _) DV ltac:(lia)
                ltac:(intro X; discriminate X)) as [E _].
    cbn [app] in E. rewrite app_nil_r in E. exact E.
Qed.

(* Concrete check of the boundary, not kept as an Example because each evaluation takes about 70 s
   (quoted_loop appends with [acc ++ [c]], quadratic in the VM), measured on this development:
     Definition big (n : N) : bytes := 34 :: repeat 97 (N.to_nat n) ++ [34; 44].
     Eval vm_compute in (let o := json_run default_cfg None 1 (big 65535) in
                         (j_err o, reads (j_st o), length of the JStr))   = (Ok, 65537, 65535)
     Eval vm_compute in (let o := json_run default_cfg None 1 (big 65536) in
                         (j_err o, j_doc o, reads (j_st o)))              = (NoMemory, JNull, 65538)
   i.e. what C01_string_limit_is_exact / long_string_is_NoMemory state for every string. *)
