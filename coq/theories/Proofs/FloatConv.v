(* FloatConv.v — float <-> double conversion ([fconv] of Model/FloatModel.v, i.e. static_cast between
   float and double) is the IEEE-754 conversion: exact when widening, round-to-nearest-even (overflow
   to the infinity of the same sign) when narrowing.
   Real-number reading through Flocq 4.1 ([SF2R radix2], written [sfr]); uses the bridges of
   Proofs/FloatErr.v ([bround_equiv], [rnd_rel], [good_fmt], [rnd_of], ...) and of Proofs/PrintErr.v
   ([fconv_exact], [fconv64_of32], [SFcompare_correct], [valid_format], [valid_lt_max]).
   Nothing is assumed here beyond what Reals / Flocq bring.

   Main results
     C0  fconv_finite_spec (any format: correctly rounded with sign kept, or the infinity of that sign),
         fconv_valid_any, fconv_sign, valid_finite_inj (a valid finite value is determined by its real
         value and its sign)
     C1  fconv_widen_exact, fconv_widen_sign, fconv_zero / fconv_infinity / fconv_nan
     C2  fconv_narrow_correct (Rlt_bool form), fconv_narrow_cases (two implications),
         fconv_narrow_sign, fconv_narrow_finite_iff, fconv_narrow_rel (relative error 2^-24 for normal
         results), fconv_narrow_threshold (finite iff |x| < 2^128 - 2^103), fconv_narrow_in_range
     C3  fconv_roundtrip
     C4  fconv_idem (any format), fconv32_idem, fconv64_idem, fconv_fix_iff_valid, noncanonical_not_fixed
     C5  as_float_narrow, as_float_widen, as_float_same, number_to_float_narrow, number_to_float_widen,
         fits_float_test, mp_f64_float32_exact, mp_f64_f32_branch, fits_float_iff (the float32 form is
         chosen exactly for the doubles that are float values), jv_of_double_float_exact
     C6  examples by vm_compute *)
From Coq Require Import ZArith Reals Lia Lra List Bool.
From Flocq Require Import Core BinarySingleNaN Relative.
From Coq Require Import Floats.SpecFloat.
From AJ Require Import Model.Base Model.FloatModel Model.Value Model.NumParse Model.JsonSer
  Model.Convert Model.MsgPack Proofs.NumProofs Proofs.FloatErr Proofs.PrintErr.
Import ListNotations.
Local Open Scope Z_scope.

(* ------------------------------------------------------------------------------------------ *)
(* C0 — any destination format                                                                  *)
(* ------------------------------------------------------------------------------------------ *)

Lemma fconv_unfold : forall f s m e,
  fconv f (S754_finite s m e) = BinarySingleNaN.binary_round (prec f) (emax f) mode_NE s m e.
Proof.
  intros f s m e. cbn [fconv].
  destruct s; cbn [SpecFloat.binary_normalize]; apply bround_equiv.
Qed.

(* a finite value is converted to the correctly rounded value (sign kept, also for a result that
   rounds to zero), or to the infinity of its sign when the rounded value is out of range *)
Lemma fconv_finite_spec : forall f s m e, good_fmt f ->
  valid f (fconv f (S754_finite s m e)) /\
  if Rlt_bool (Rabs (rnd_of f (sfr (S754_finite s m e)))) (bpow radix2 (emax f))
  then sfr (fconv f (S754_finite s m e)) = rnd_of f (sfr (S754_finite s m e)) /\
       FloatModel.is_finite (fconv f (S754_finite s m e)) = true /\
       sign_SF (fconv f (S754_finite s m e)) = s
  else fconv f (S754_finite s m e) = S754_infinity s.
Proof.
  intros f s m e [H0 H1]. rewrite fconv_unfold.
  generalize (binary_round_correct (prec f) (emax f) H0 H1 mode_NE s m e).
  cbv zeta. cbn [round_mode]. intros [V C]. split; [exact V|].
  change (F2R (Float radix2 (cond_Zopp s (Z.pos m)) e)) with (sfr (S754_finite s m e)) in C.
  change (round radix2 (fexp (prec f) (emax f)) ZnearestE (sfr (S754_finite s m e)))
    with (rnd_of f (sfr (S754_finite s m e))) in C.
  destruct (Rlt_bool (Rabs (rnd_of f (sfr (S754_finite s m e)))) (bpow radix2 (emax f))).
  - destruct C as [C1 [C2 C3]]. rewrite <- is_finite_SF_eq. auto.
  - exact C.
Qed.

Lemma fconv_zero : forall f s, fconv f (S754_zero s) = S754_zero s.
Proof. reflexivity. Qed.
Lemma fconv_infinity : forall f s, fconv f (S754_infinity s) = S754_infinity s.
Proof. reflexivity. Qed.
Lemma fconv_nan : forall f, fconv f S754_nan = S754_nan.
Proof. reflexivity. Qed.

(* the result is always a well-formed value of the destination format *)
Lemma fconv_valid_any : forall f x, good_fmt f -> valid f (fconv f x).
Proof.
  intros f [s|s| |s m e] Hf; try reflexivity.
  exact (proj1 (fconv_finite_spec f s m e Hf)).
Qed.

(* the sign is kept (zeros, infinities, rounding to zero and overflow included) *)
Lemma fconv_sign : forall f x, good_fmt f -> sign_SF (fconv f x) = sign_SF x.
Proof.
  intros f [s|s| |s m e] Hf; try reflexivity.
  destruct (fconv_finite_spec f s m e Hf) as [_ C].
  destruct (Rlt_bool _ _).
  - destruct C as [_ [_ C]]. exact C.
  - rewrite C. reflexivity.
Qed.

Lemma fconv_nan_iff : forall f x, good_fmt f -> is_nan (fconv f x) = is_nan x.
Proof.
  intros f [s|s| |s m e] Hf; try reflexivity.
  destruct (fconv_finite_spec f s m e Hf) as [_ C].
  destruct (Rlt_bool _ _).
  - destruct C as [_ [C _]]. destruct (fconv f (S754_finite s m e)); try discriminate; reflexivity.
  - rewrite C. reflexivity.
Qed.

(* a well-formed finite value is determined by the real number it denotes and its sign *)
Lemma valid_finite_inj : forall f x y, valid f x -> valid f y ->
  FloatModel.is_finite x = true -> FloatModel.is_finite y = true ->
  sfr x = sfr y -> sign_SF x = sign_SF y -> x = y.
Proof.
  intros f x y Vx Vy Fx Fy E S.
  rewrite <- (B2SF_SF2B _ _ x Vx), <- (B2SF_SF2B _ _ y Vy). f_equal.
  apply B2R_Bsign_inj.
  - rewrite is_finite_SF2B, is_finite_SF_eq. exact Fx.
  - rewrite is_finite_SF2B, is_finite_SF_eq. exact Fy.
  - rewrite !B2R_SF2B. exact E.
  - rewrite !Bsign_SF2B. exact S.
Qed.

(* the generic statement for a finite source, both branches *)
Lemma fconv_cases : forall f x, good_fmt f -> FloatModel.is_finite x = true ->
  if Rlt_bool (Rabs (rnd_of f (sfr x))) (bpow radix2 (emax f))
  then sfr (fconv f x) = rnd_of f (sfr x) /\ valid f (fconv f x) /\
       FloatModel.is_finite (fconv f x) = true
  else fconv f x = S754_infinity (sign_SF x).
Proof.
  intros f [s|s| |s m e] Hf Fx; try discriminate.
  - cbn [fconv SF2R]. unfold rnd_of. rewrite round_0 by auto with typeclass_instances.
    rewrite Rabs_R0, Rlt_bool_true by apply bpow_gt_0.
    split; [reflexivity|]. split; reflexivity.
  - destruct (fconv_finite_spec f s m e Hf) as [V C].
    destruct (Rlt_bool _ _).
    + destruct C as [C1 [C2 _]]. auto.
    + exact C.
Qed.

(* ------------------------------------------------------------------------------------------ *)
(* C1 — widening float -> double is exact                                                       *)
(* ------------------------------------------------------------------------------------------ *)

Theorem fconv_widen_exact : forall x, valid F32 x -> FloatModel.is_finite x = true ->
  sfr (fconv F64 x) = sfr x /\ valid F64 (fconv F64 x) /\ FloatModel.is_finite (fconv F64 x) = true.
Proof. exact fconv64_of32. Qed.

Theorem fconv_widen_sign : forall x, sign_SF (fconv F64 x) = sign_SF x.
Proof. intros x. apply fconv_sign. exact good_F64. Qed.

(* zeros, infinities and NaN are kept, sign included ([fconv_zero], [fconv_infinity], [fconv_nan]
   hold for every destination format) *)
Theorem fconv_widen_special :
  (forall s, fconv F64 (S754_zero s) = S754_zero s) /\
  (forall s, fconv F64 (S754_infinity s) = S754_infinity s) /\
  fconv F64 S754_nan = S754_nan.
Proof. repeat split. Qed.

(* ------------------------------------------------------------------------------------------ *)
(* C2 — narrowing double -> float is correctly rounded (to nearest, ties to even)               *)
(* ------------------------------------------------------------------------------------------ *)

Notation rnd32 := (round radix2 (FLT_exp (-149) 24) ZnearestE).

Theorem fconv_narrow_correct : forall x, valid F64 x -> FloatModel.is_finite x = true ->
  let r := sfr x in
  if Rlt_bool (Rabs (round radix2 (FLT_exp (-149) 24) ZnearestE r)) (bpow radix2 128)
  then sfr (fconv F32 x) = round radix2 (FLT_exp (-149) 24) ZnearestE r /\
       valid F32 (fconv F32 x) /\ FloatModel.is_finite (fconv F32 x) = true
  else fconv F32 x = S754_infinity (sign_SF x).
Proof. intros x _ Fx. exact (fconv_cases F32 x good_F32 Fx). Qed.

(* the same, as two implications *)
Theorem fconv_narrow_cases : forall x, valid F64 x -> FloatModel.is_finite x = true ->
  ((Rabs (rnd32 (sfr x)) < bpow radix2 128)%R ->
     sfr (fconv F32 x) = rnd32 (sfr x) /\ valid F32 (fconv F32 x) /\
     FloatModel.is_finite (fconv F32 x) = true) /\
  ((bpow radix2 128 <= Rabs (rnd32 (sfr x)))%R -> fconv F32 x = S754_infinity (sign_SF x)).
Proof.
  intros x V Fx. pose proof (fconv_narrow_correct x V Fx) as C. cbv zeta in C.
  split; intros H.
  - rewrite Rlt_bool_true in C by exact H. exact C.
  - rewrite Rlt_bool_false in C by exact H. exact C.
Qed.

(* the sign is kept in both branches, also when a tiny value rounds to a zero *)
Theorem fconv_narrow_sign : forall x, sign_SF (fconv F32 x) = sign_SF x.
Proof. intros x. apply fconv_sign. exact good_F32. Qed.

(* the result is finite exactly when the rounded value is in range *)
Theorem fconv_narrow_finite_iff : forall x, valid F64 x -> FloatModel.is_finite x = true ->
  (FloatModel.is_finite (fconv F32 x) = true <-> (Rabs (rnd32 (sfr x)) < bpow radix2 128)%R).
Proof.
  intros x V Fx. destruct (fconv_narrow_cases x V Fx) as [A B]. split; intros H.
  - destruct (Rlt_or_le (Rabs (rnd32 (sfr x))) (bpow radix2 128)) as [L|L]; [exact L|].
    rewrite (B L) in H. discriminate.
  - apply A. exact H.
Qed.

(* relative-error form, for a value whose magnitude is at least the smallest normal float *)
Theorem fconv_narrow_rel : forall x, valid F64 x -> FloatModel.is_finite x = true ->
  (bpow radix2 (-126) <= Rabs (sfr x))%R ->
  (Rabs (rnd32 (sfr x)) < bpow radix2 128)%R ->
  exists d, (Rabs d <= bpow radix2 (-24))%R /\ sfr (fconv F32 x) = (sfr x * (1 + d))%R.
Proof.
  intros x V Fx Hlo Hhi.
  destruct (fconv_narrow_cases x V Fx) as [A _]. destruct (A Hhi) as [E _].
  destruct (rnd_rel 24 128 (proj1 good_F32) (sfr x) Hlo) as [d [Hd Hr]].
  exists d. split; [exact Hd|]. rewrite E. exact Hr.
Qed.

(* --- the overflow threshold spelled out: 2^128 - 2^103, the midpoint of FLT_MAX = 2^128 - 2^104 and
   2^128 (a tie that goes to the even 2^128, i.e. overflows) --- *)

Local Instance prec24_gt_0 : Prec_gt_0 24.
Proof. reflexivity. Qed.

Lemma bpow_128 : bpow radix2 128 = (2 * bpow radix2 127)%R.
Proof. change 128 with (1 + 127). rewrite bpow_plus. reflexivity. Qed.
Lemma bpow_104 : bpow radix2 104 = (2 * bpow radix2 103)%R.
Proof. change 104 with (1 + 103). rewrite bpow_plus. reflexivity. Qed.

Lemma fmt32_bpow128 : generic_format radix2 (FLT_exp (-149) 24) (bpow radix2 128).
Proof. apply generic_format_FLT_bpow; [exact prec24_gt_0 | lia]. Qed.

Lemma pred32_bpow128 :
  pred radix2 (FLT_exp (-149) 24) (bpow radix2 128) = (bpow radix2 128 - bpow radix2 104)%R.
Proof. rewrite pred_bpow. reflexivity. Qed.

Lemma rnd32_below_threshold : forall a,
  (Rabs a < bpow radix2 128 - bpow radix2 103)%R -> (Rabs (rnd32 a) < bpow radix2 128)%R.
Proof.
  intros a H. rewrite <- round_NE_abs by auto with typeclass_instances.
  apply Rle_lt_trans with (pred radix2 (FLT_exp (-149) 24) (bpow radix2 128)).
  - apply round_N_le_midp; auto with typeclass_instances.
    + apply generic_format_pred; auto with typeclass_instances. exact fmt32_bpow128.
    + rewrite succ_pred by (auto with typeclass_instances; exact fmt32_bpow128).
      rewrite pred32_bpow128, bpow_104. lra.
  - apply pred_lt_id. apply Rgt_not_eq, bpow_gt_0.
Qed.

Lemma rnd32_above_threshold : forall a,
  (bpow radix2 128 - bpow radix2 103 < Rabs a)%R -> (bpow radix2 128 <= Rabs (rnd32 a))%R.
Proof.
  intros a H. rewrite <- round_NE_abs by auto with typeclass_instances.
  apply round_N_ge_midp; auto with typeclass_instances.
  - exact fmt32_bpow128.
  - rewrite pred32_bpow128, bpow_104. lra.
Qed.

Lemma sfr_sign_abs : forall s m e,
  sfr (S754_finite s m e) = cond_Ropp s (Rabs (sfr (S754_finite s m e))).
Proof.
  intros s m e. cbn [SF2R]. rewrite F2R_cond_Zopp, abs_cond_Ropp, Rabs_pos_eq; [reflexivity|].
  apply F2R_ge_0. cbn [Fnum]. lia.
Qed.

(* the only double of magnitude 2^128 - 2^103 *)
Definition ovf_mant : positive := 9007198986305536.     (* (2^25 - 1) * 2^28 *)

Lemma ovf_value : forall s, sfr (S754_finite s ovf_mant 75)
  = cond_Ropp s (bpow radix2 128 - bpow radix2 103)%R.
Proof.
  intros s. cbn [SF2R]. rewrite F2R_cond_Zopp. f_equal. unfold F2R. cbn [Fnum Fexp].
  change 128 with (53 + 75). change 103 with (28 + 75). rewrite !bpow_plus.
  rewrite <- (IZR_Zpower radix2 53), <- (IZR_Zpower radix2 28) by lia.
  rewrite <- Rmult_minus_distr_r, <- minus_IZR. reflexivity.
Qed.

Lemma narrow_at_threshold : forall x, valid F64 x -> FloatModel.is_finite x = true ->
  Rabs (sfr x) = (bpow radix2 128 - bpow radix2 103)%R -> fconv F32 x = S754_infinity (sign_SF x).
Proof.
  intros [s|s| |s m e] V F E; try discriminate.
  - exfalso. cbn [SF2R] in E. rewrite Rabs_R0 in E.
    assert (bpow radix2 103 < bpow radix2 128)%R by (apply bpow_lt; lia). lra.
  - assert (X : S754_finite s m e = S754_finite s ovf_mant 75).
    { apply (valid_finite_inj F64).
      - exact V.
      - destruct s; vm_compute; reflexivity.
      - reflexivity.
      - reflexivity.
      - rewrite sfr_sign_abs, E, ovf_value. reflexivity.
      - reflexivity. }
    rewrite X. destruct s; vm_compute; reflexivity.
Qed.

Theorem fconv_narrow_threshold : forall x, valid F64 x -> FloatModel.is_finite x = true ->
  ((Rabs (sfr x) < bpow radix2 128 - bpow radix2 103)%R ->
     sfr (fconv F32 x) = rnd32 (sfr x) /\ valid F32 (fconv F32 x) /\
     FloatModel.is_finite (fconv F32 x) = true) /\
  ((bpow radix2 128 - bpow radix2 103 <= Rabs (sfr x))%R ->
     fconv F32 x = S754_infinity (sign_SF x)).
Proof.
  intros x V Fx. destruct (fconv_narrow_cases x V Fx) as [A B]. split; intros H.
  - apply A. apply rnd32_below_threshold. exact H.
  - destruct H as [H|H].
    + apply B. apply rnd32_above_threshold. exact H.
    + apply narrow_at_threshold; auto.
Qed.

(* every double of magnitude at most FLT_MAX = 2^128 - 2^104 narrows to a finite float *)
Corollary fconv_narrow_in_range : forall x, valid F64 x -> FloatModel.is_finite x = true ->
  (Rabs (sfr x) <= bpow radix2 128 - bpow radix2 104)%R ->
  sfr (fconv F32 x) = rnd32 (sfr x) /\ valid F32 (fconv F32 x) /\
  FloatModel.is_finite (fconv F32 x) = true.
Proof.
  intros x V Fx H. apply (proj1 (fconv_narrow_threshold x V Fx)).
  rewrite bpow_104 in H. assert (0 < bpow radix2 103)%R by apply bpow_gt_0. lra.
Qed.

(* ------------------------------------------------------------------------------------------ *)
(* C3 / C4 — round trip and idempotence                                                         *)
(* ------------------------------------------------------------------------------------------ *)

(* conversion of a value representable in the destination format gives the value with the same real
   number and the same sign *)
Lemma fconv_exact_eq : forall f x y, good_fmt f -> valid f y ->
  FloatModel.is_finite x = true -> FloatModel.is_finite y = true ->
  sfr x = sfr y -> sign_SF x = sign_SF y -> fconv f x = y.
Proof.
  intros f x y Hf Vy Fx Fy E S.
  destruct (fconv_exact f x Hf Fx) as [A [B C]].
  - rewrite E. apply valid_format; assumption.
  - rewrite E. apply valid_lt_max; assumption.
  - apply (valid_finite_inj f); try assumption.
    + congruence.
    + rewrite fconv_sign by exact Hf. exact S.
Qed.

(* C4: converting to the own format changes nothing *)
Theorem fconv_idem : forall f x, good_fmt f -> valid f x -> fconv f x = x.
Proof.
  intros f x Hf V. destruct (FloatModel.is_finite x) eqn:Fx.
  - apply fconv_exact_eq; auto.
  - destruct x; try discriminate; reflexivity.
Qed.

Theorem fconv32_idem : forall x, valid F32 x -> fconv F32 x = x.
Proof. intros x. apply fconv_idem. exact good_F32. Qed.

Theorem fconv64_idem : forall x, valid F64 x -> fconv F64 x = x.
Proof. intros x. apply fconv_idem. exact good_F64. Qed.

(* [valid] (canonical mantissa and exponent in range) is exactly the condition *)
Theorem fconv_fix_iff_valid : forall f x, good_fmt f -> (fconv f x = x <-> valid f x).
Proof.
  intros f x Hf. split; intros H.
  - rewrite <- H. apply fconv_valid_any. exact Hf.
  - apply fconv_idem; assumption.
Qed.

(* a non-canonical representation (2 * 2^0 instead of 2^23 * 2^-22) is normalised *)
Example noncanonical_not_fixed :
  fconv F32 (S754_finite false 2 0) = S754_finite false 8388608 (-22) /\
  valid_binary (prec F32) (emax F32) (S754_finite false 2 0) = false.
Proof. split; vm_compute; reflexivity. Qed.

(* C3: float -> double -> float gives the float back (finite values, zeros, infinities, and the
   single NaN of the model) *)
Theorem fconv_roundtrip : forall x, valid F32 x -> fconv F32 (fconv F64 x) = x.
Proof.
  intros x V. destruct (FloatModel.is_finite x) eqn:Fx.
  - destruct (fconv64_of32 x V Fx) as [A [B C]].
    apply fconv_exact_eq; auto.
    + exact good_F32.
    + apply fconv_sign. exact good_F64.
  - destruct x; try discriminate; reflexivity.
Qed.

(* ------------------------------------------------------------------------------------------ *)
(* C5 — consequences for the model                                                              *)
(* ------------------------------------------------------------------------------------------ *)

(* (a) Model/Convert.v: as<float>() of a stored double, as<double>() of a stored float *)
Theorem as_float_narrow : forall c x, valid F64 x -> FloatModel.is_finite x = true ->
  let r := sfr x in
  if Rlt_bool (Rabs (rnd32 r)) (bpow radix2 128)
  then sfr (as_float c F32 (JDouble x)) = rnd32 r /\
       valid F32 (as_float c F32 (JDouble x)) /\
       FloatModel.is_finite (as_float c F32 (JDouble x)) = true
  else as_float c F32 (JDouble x) = S754_infinity (sign_SF x).
Proof. intros c x. exact (fconv_narrow_correct x). Qed.

Theorem as_float_widen : forall c x, valid F32 x -> FloatModel.is_finite x = true ->
  sfr (as_float c F64 (JFloat x)) = sfr x /\ valid F64 (as_float c F64 (JFloat x)) /\
  FloatModel.is_finite (as_float c F64 (JFloat x)) = true.
Proof. intros c x. exact (fconv_widen_exact x). Qed.

Theorem as_float_same : forall c x,
  (valid F32 x -> as_float c F32 (JFloat x) = x) /\
  (valid F64 x -> as_float c F64 (JDouble x) = x).
Proof. intros c x. split; [apply fconv32_idem | apply fconv64_idem]. Qed.

(* Number::convertTo<float/double> of a parsed float/double *)
Theorem number_to_float_narrow : forall x, valid F64 x -> FloatModel.is_finite x = true ->
  let r := sfr x in
  if Rlt_bool (Rabs (rnd32 r)) (bpow radix2 128)
  then sfr (number_to_float F32 (NumDouble x)) = rnd32 r /\
       valid F32 (number_to_float F32 (NumDouble x)) /\
       FloatModel.is_finite (number_to_float F32 (NumDouble x)) = true
  else number_to_float F32 (NumDouble x) = S754_infinity (sign_SF x).
Proof. intros x. exact (fconv_narrow_correct x). Qed.

Theorem number_to_float_widen : forall x, valid F32 x -> FloatModel.is_finite x = true ->
  sfr (number_to_float F64 (NumFloat x)) = sfr x /\ valid F64 (number_to_float F64 (NumFloat x)) /\
  FloatModel.is_finite (number_to_float F64 (NumFloat x)) = true.
Proof. intros x. exact (fconv_widen_exact x). Qed.

(* (b) the "does it fit a float" test *)
Lemma f_eq_inf_finite : forall s v, FloatModel.is_finite v = true ->
  f_eq (S754_infinity s) v = false /\ f_eq v (S754_infinity s) = false.
Proof. intros s [t|t| |t m e] F; try discriminate; destruct s, t; split; reflexivity. Qed.

(* the comparison is true exactly when the narrowed value denotes the same real number *)
Lemma fits_float_test : forall v, valid F64 v -> FloatModel.is_finite v = true ->
  (f_eq (fconv F64 (fconv F32 v)) v = true <->
   FloatModel.is_finite (fconv F32 v) = true /\ sfr (fconv F32 v) = sfr v) /\
  f_eq v (fconv F64 (fconv F32 v)) = f_eq (fconv F64 (fconv F32 v)) v.
Proof.
  intros v V Fv. pose proof (fconv_cases F32 v good_F32 Fv) as C.
  destruct (Rlt_bool _ _).
  - destruct C as [A [B C]]. destruct (fconv64_of32 _ B C) as [A2 [B2 C2]].
    unfold f_eq.
    rewrite (fcmp_correct F64 _ _ good_F64 B2 V C2 Fv), (fcmp_correct F64 _ _ good_F64 V B2 Fv C2).
    rewrite A2. split.
    + split.
      * intros H. split; [exact C|]. apply Rcompare_Eq_inv.
        destruct (Rcompare (sfr (fconv F32 v)) (sfr v)); try discriminate; reflexivity.
      * intros [_ H]. rewrite H, Rcompare_Eq by reflexivity. reflexivity.
    + rewrite (Rcompare_sym (sfr v)). destruct (Rcompare (sfr (fconv F32 v)) (sfr v)); reflexivity.
  - rewrite C. cbn [fconv]. destruct (f_eq_inf_finite (sign_SF v) v Fv) as [E1 E2].
    rewrite E1, E2. split; [|reflexivity]. split; [discriminate|]. intros [H _]. discriminate.
Qed.

(* Model/MsgPack.v, visit(double): when the float32 form is chosen no precision is lost *)
Theorem mp_f64_float32_exact : forall v, valid F64 v -> FloatModel.is_finite v = true ->
  f_eq (fconv F64 (fconv F32 v)) v = true -> sfr (fconv F32 v) = sfr v.
Proof.
  intros v V Fv H. apply (proj1 (fits_float_test v V Fv)) in H. exact (proj2 H).
Qed.

Theorem mp_f64_f32_branch : forall v, valid F64 v -> FloatModel.is_finite v = true ->
  (f_eq (fconv F64 (fconv F32 v)) v = true ->
     mp_f64 v = mp_f32 (fconv F32 v) /\ valid F32 (fconv F32 v) /\
     FloatModel.is_finite (fconv F32 v) = true /\ sfr (fconv F32 v) = sfr v) /\
  (f_eq (fconv F64 (fconv F32 v)) v = false ->
     mp_f64 v = bz 0xCB :: be_bytes 8 (bits_of_sf F64 v)).
Proof.
  intros v V Fv. unfold mp_f64. split; intros H; rewrite H.
  - split; [reflexivity|]. split; [apply fconv_valid_any; exact good_F32|].
    apply (proj1 (fits_float_test v V Fv)) in H. exact H.
  - reflexivity.
Qed.

(* the float32 form is chosen exactly for the doubles that are float values *)
Theorem fits_float_iff : forall v, valid F64 v -> FloatModel.is_finite v = true ->
  (f_eq (fconv F64 (fconv F32 v)) v = true <->
   generic_format radix2 (FLT_exp (-149) 24) (sfr v) /\ (Rabs (sfr v) < bpow radix2 128)%R).
Proof.
  intros v V Fv. rewrite (proj1 (fits_float_test v V Fv)). split.
  - intros [F E]. pose proof (fconv_valid_any F32 v good_F32) as V32. rewrite <- E. split.
    + exact (valid_format F32 _ good_F32 V32).
    + exact (valid_lt_max F32 _ good_F32 V32).
  - intros [G L]. destruct (fconv_exact F32 v good_F32 Fv G L) as [A [_ C]]. split; assumption.
Qed.

(* Model/Value.v, VariantData::setFloat(double) *)
Theorem jv_of_double_float_exact : forall f, valid F64 f -> FloatModel.is_finite f = true ->
  (f_eq f (fconv F64 (fconv F32 f)) = true ->
     jv_of_double true f = JFloat (fconv F32 f) /\ sfr (fconv F32 f) = sfr f /\
     valid F32 (fconv F32 f) /\ FloatModel.is_finite (fconv F32 f) = true) /\
  (f_eq f (fconv F64 (fconv F32 f)) = false -> jv_of_double true f = JDouble f).
Proof.
  intros f V Ff. unfold jv_of_double. split; intros H; rewrite H.
  - split; [reflexivity|].
    rewrite (proj2 (fits_float_test f V Ff)) in H.
    apply (proj1 (fits_float_test f V Ff)) in H. destruct H as [H1 H2].
    split; [exact H2|]. split; [apply fconv_valid_any; exact good_F32 | exact H1].
  - reflexivity.
Qed.

(* ------------------------------------------------------------------------------------------ *)
(* C6 — examples                                                                                *)
(* ------------------------------------------------------------------------------------------ *)

Definition narrow_bits (b : Z) : Z := bits_of_sf F32 (fconv F32 (sf_of_bits F64 b)).
Definition widen_bits (b : Z) : Z := bits_of_sf F64 (fconv F64 (sf_of_bits F32 b)).

(* 0.1 *)
Example narrow_0_1 : narrow_bits 0x3FB999999999999A = 0x3DCCCCCD.
Proof. vm_compute. reflexivity. Qed.
(* 1e39 and -1e39 overflow to the infinities *)
Example narrow_1e39 : fconv F32 (sf_of_bits F64 0x48078287F49C4A1D) = S754_infinity false.
Proof. vm_compute. reflexivity. Qed.
Example narrow_m1e39 : fconv F32 (sf_of_bits F64 0xC8078287F49C4A1D) = S754_infinity true.
Proof. vm_compute. reflexivity. Qed.
(* 1 + 2^-24 is the midpoint of the floats 1 (0x3F800000, even) and 1 + 2^-23 (0x3F800001): to even *)
Example narrow_midpoint_even : narrow_bits 0x3FF0000010000000 = 0x3F800000.
Proof. vm_compute. reflexivity. Qed.
(* the next double above that midpoint rounds up, the one below rounds down *)
Example narrow_above_midpoint : narrow_bits 0x3FF0000010000001 = 0x3F800001.
Proof. vm_compute. reflexivity. Qed.
Example narrow_below_midpoint : narrow_bits 0x3FF000000FFFFFFF = 0x3F800000.
Proof. vm_compute. reflexivity. Qed.
(* 1 + 3 * 2^-24 is the midpoint of 0x3F800001 (odd) and 0x3F800002 (even): up, to even *)
Example narrow_midpoint_even_up : narrow_bits 0x3FF0000030000000 = 0x3F800002.
Proof. vm_compute. reflexivity. Qed.
(* 1e-40 is below the smallest normal float: nearest subnormal 71362 * 2^-149 *)
Example narrow_1e_40 : narrow_bits 0x37A16C262777579C = 0x000116C2.
Proof. vm_compute. reflexivity. Qed.
(* the largest double that still narrows to FLT_MAX, and 2^128 - 2^103 which overflows *)
Example narrow_below_overflow : narrow_bits 0x47EFFFFFEFFFFFFF = 0x7F7FFFFF.
Proof. vm_compute. reflexivity. Qed.
Example narrow_at_overflow : narrow_bits 0x47EFFFFFF0000000 = 0x7F800000.
Proof. vm_compute. reflexivity. Qed.
(* a tiny negative double narrows to -0 *)
Example narrow_tiny_negative : narrow_bits 0x8000000000000001 = 0x80000000.
Proof. vm_compute. reflexivity. Qed.
(* widening: 0.1f, the smallest float subnormal (normal as a double), FLT_MAX, -0, infinity *)
Example widen_0_1f : widen_bits 0x3DCCCCCD = 0x3FB99999A0000000.
Proof. vm_compute. reflexivity. Qed.
Example widen_min_subnormal : widen_bits 0x00000001 = 0x36A0000000000000.
Proof. vm_compute. reflexivity. Qed.
Example widen_flt_max : widen_bits 0x7F7FFFFF = 0x47EFFFFFE0000000.
Proof. vm_compute. reflexivity. Qed.
Example widen_mzero : widen_bits 0x80000000 = 0x8000000000000000.
Proof. vm_compute. reflexivity. Qed.
Example widen_inf : widen_bits 0x7F800000 = 0x7FF0000000000000.
Proof. vm_compute. reflexivity. Qed.
