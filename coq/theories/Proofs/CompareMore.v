(* CompareMore.v — further by-value facts about Model/Compare.v: arrays compare element by element
   (any depth, no hypothesis on keys), an array equals nothing but an array, and all six operators on
   two integers are the order of Z. *)
From Coq Require Import ZArith NArith Bool List Lia.
From Coq Require Import Floats.SpecFloat.
From AJ Require Import Model.Base Model.FloatModel Model.Value Model.Compare Proofs.CompareProofs.
Local Open Scope Z_scope.

Fixpoint all2 (p : jv -> jv -> bool) (x y : list jv) : bool :=
  match x, y with
  | [], [] => true
  | a :: x', b :: y' => p a b && all2 p x' y'
  | _, _ => false
  end.

Lemma arr_eq_with_all2 : forall f x y,
  arr_eq_with f x y = all2 (fun a b => is_equal (f b a)) x y.
Proof.
  induction x as [|a x IH]; intros y; destruct y as [|b y]; cbn [arr_eq_with all2]; try reflexivity.
  f_equal. apply IH.
Qed.

Lemma all2_ext_In : forall p q x y,
  (forall a b, In a x -> In b y -> p a b = q a b) -> all2 p x y = all2 q x y.
Proof.
  induction x as [|a x IH]; intros y H; destruct y as [|b y]; cbn [all2]; try reflexivity.
  rewrite (H a b) by (left; reflexivity).
  f_equal. apply IH. intros a' b' Ha Hb. apply H; right; assumption.
Qed.

(* a == b on two arrays: same length and b[i] == a[i] for every i.  (The roles are swapped twice on the
   way down — operator, comparer, element loop — which the statement keeps visible; under wf the order of
   the operands does not matter, see arrays_elementwise_wf.) *)
Theorem arrays_elementwise : forall la lb,
  op_eq (JArr la) (JArr lb) = all2 op_eq lb la.
Proof.
  intros la lb. unfold op_eq at 1. unfold compare.
  pose proof (jsize_pos (JArr lb)) as Hp.
  destruct (jsize (JArr lb) + jsize (JArr la))%nat as [|n] eqn:E; [lia|].
  rewrite compare_fuel_S. cbn [compare_step].
  rewrite arr_eq_with_all2.
  assert (R : all2 (fun a b => is_equal (compare_fuel n b a)) lb la = all2 op_eq lb la).
  { apply all2_ext_In. intros a b Ha Hb. unfold op_eq.
    apply jsize_arr_in in Ha. apply jsize_arr_in in Hb.
    rewrite compare_enough_fuel by lia. reflexivity. }
  rewrite <- R.
  destruct (all2 (fun a b => is_equal (compare_fuel n b a)) lb la); reflexivity.
Qed.

Lemma all2_swap_In : forall p x y,
  (forall a b, In a x -> In b y -> p a b = p b a) -> all2 p x y = all2 p y x.
Proof.
  induction x as [|a x IH]; intros y H; destruct y as [|b y]; cbn [all2]; try reflexivity.
  rewrite (H a b) by (left; reflexivity).
  f_equal. apply IH. intros a' b' Ha Hb. apply H; right; assumption.
Qed.

Theorem arrays_elementwise_wf : forall la lb, wf (JArr la) -> wf (JArr lb) ->
  op_eq (JArr la) (JArr lb) = all2 op_eq la lb.
Proof.
  intros la lb Wa Wb. rewrite arrays_elementwise. apply all2_swap_In.
  intros a b Ha Hb. apply eq_symmetric.
  - exact (wf_arr_in _ _ Wb Ha).
  - exact (wf_arr_in _ _ Wa Hb).
Qed.

Lemma all2_length : forall p x y, all2 p x y = true -> length x = length y.
Proof.
  induction x as [|a x IH]; intros y H; destruct y as [|b y]; cbn [all2] in H; try discriminate; [reflexivity|].
  apply andb_true_iff in H. destruct H as [_ H]. cbn [length]. f_equal. apply IH. exact H.
Qed.

Theorem equal_arrays_same_length : forall la lb,
  op_eq (JArr la) (JArr lb) = true -> length la = length lb.
Proof. intros la lb H. rewrite arrays_elementwise in H. symmetry. eapply all2_length. exact H. Qed.

(* an array equals nothing but an array, in either position; likewise an object *)
Theorem array_equals_only_arrays : forall l v,
  (forall l', v <> JArr l') -> op_eq (JArr l) v = false /\ op_eq v (JArr l) = false.
Proof.
  intros l v H. unfold op_eq. split.
  - destruct (compare_unfold v (JArr l)) as [n E]. rewrite E.
    destruct v; try reflexivity. exfalso. eapply H. reflexivity.
  - destruct (compare_unfold (JArr l) v) as [n E]. rewrite E.
    destruct v; try reflexivity. exfalso. eapply H. reflexivity.
Qed.

Theorem object_equals_only_objects : forall l v,
  (forall l', v <> JObj l') -> op_eq (JObj l) v = false /\ op_eq v (JObj l) = false.
Proof.
  intros l v H. unfold op_eq. split.
  - destruct (compare_unfold v (JObj l)) as [n E]. rewrite E.
    destruct v; try reflexivity. exfalso. eapply H. reflexivity.
  - destruct (compare_unfold (JObj l) v) as [n E]. rewrite E.
    destruct v; try reflexivity. exfalso. eapply H. reflexivity.
Qed.

(* all six operators on two integers are the order of Z *)
Theorem int_all_six : forall x y,
  op_eq (JInt x) (JInt y) = Z.eqb x y /\ op_ne (JInt x) (JInt y) = negb (Z.eqb x y) /\
  op_lt (JInt x) (JInt y) = Z.ltb x y /\ op_gt (JInt x) (JInt y) = Z.ltb y x /\
  op_le (JInt x) (JInt y) = Z.leb x y /\ op_ge (JInt x) (JInt y) = Z.leb y x.
Proof.
  intros x y. unfold op_eq, op_ne, op_lt, op_gt, op_le, op_ge.
  rewrite compare_scalar by (intros; discriminate).
  cbn [compare_step numv_of arith nv_to_Z]. unfold cmp_Z.
  destruct (Z.ltb_spec y x) as [H1|H1]; [|destruct (Z.ltb_spec x y) as [H2|H2]]; cbn [cmp_rev is_equal negb].
  - destruct (Z.eqb_spec x y); [lia|]. destruct (Z.ltb_spec x y); [lia|].
    destruct (Z.leb_spec x y); [lia|]. destruct (Z.leb_spec y x); [|lia]. repeat split.
  - destruct (Z.eqb_spec x y); [lia|].
    destruct (Z.leb_spec x y); [|lia]. destruct (Z.leb_spec y x); [lia|]. repeat split.
  - destruct (Z.eqb_spec x y); [|lia].
    destruct (Z.leb_spec x y); [|lia]. destruct (Z.leb_spec y x); [|lia]. repeat split.
Qed.

(* non-vacuity / sanity *)
Example arrays_example :
  op_eq (JArr [JInt 1; JArr [JStr [65%N]; JNull]]) (JArr [JInt 1; JArr [JStr [65%N]; JNull]]) = true /\
  op_eq (JArr [JInt 1; JInt 2]) (JArr [JInt 1]) = false /\
  op_eq (JArr [JInt 1]) (JArr [JInt 2]) = false.
Proof. vm_compute. repeat split. Qed.

(* strings are ordered by stringCompare (signed bytes, then length), consistently for all six operators *)
Theorem str_order : forall s t,
  op_lt (JStr s) (JStr t) = (string_compare s t <? 0) /\
  op_gt (JStr s) (JStr t) = (0 <? string_compare s t) /\
  op_le (JStr s) (JStr t) = (string_compare s t <=? 0) /\
  op_ge (JStr s) (JStr t) = (0 <=? string_compare s t).
Proof.
  intros s t. unfold op_lt, op_gt, op_le, op_ge.
  rewrite compare_scalar by (intros; discriminate).
  cbn [compare_step]. unfold str_cmp. cbv zeta.
  rewrite (string_compare_swap t s).
  destruct (Z.ltb_spec (- string_compare s t) 0) as [H1|H1];
    [|destruct (Z.ltb_spec 0 (- string_compare s t)) as [H2|H2]]; cbn [cmp_rev].
  - destruct (Z.ltb_spec (string_compare s t) 0); [lia|]. destruct (Z.ltb_spec 0 (string_compare s t)); [|lia].
    destruct (Z.leb_spec (string_compare s t) 0); [lia|]. destruct (Z.leb_spec 0 (string_compare s t)); [|lia].
    repeat split.
  - destruct (Z.ltb_spec (string_compare s t) 0); [|lia]. destruct (Z.ltb_spec 0 (string_compare s t)); [lia|].
    destruct (Z.leb_spec (string_compare s t) 0); [|lia]. destruct (Z.leb_spec 0 (string_compare s t)); [lia|].
    repeat split.
  - destruct (Z.ltb_spec (string_compare s t) 0); [lia|]. destruct (Z.ltb_spec 0 (string_compare s t)); [lia|].
    destruct (Z.leb_spec (string_compare s t) 0); [|lia]. destruct (Z.leb_spec 0 (string_compare s t)); [|lia].
    repeat split.
Qed.

(* a string equals nothing but a string, a raw value nothing but a raw value, on either side *)
Theorem string_equals_only_strings : forall s v,
  (forall t, v <> JStr t) -> op_eq (JStr s) v = false /\ op_eq v (JStr s) = false.
Proof.
  intros s v H. unfold op_eq. split.
  - rewrite compare_scalar_r by (intros; discriminate).
    destruct v; try reflexivity. exfalso. eapply H. reflexivity.
  - rewrite compare_scalar by (intros; discriminate).
    destruct v; try reflexivity. exfalso. eapply H. reflexivity.
Qed.

Theorem raw_equals_only_raw : forall s v,
  (forall t, v <> JRaw t) -> op_eq (JRaw s) v = false /\ op_eq v (JRaw s) = false.
Proof.
  intros s v H. unfold op_eq. split.
  - rewrite compare_scalar_r by (intros; discriminate).
    destruct v; try reflexivity. exfalso. eapply H. reflexivity.
  - rewrite compare_scalar by (intros; discriminate).
    destruct v; try reflexivity. exfalso. eapply H. reflexivity.
Qed.

(* all six operators on two doubles are the IEEE comparisons (SFcompare): with a NaN operand only != holds *)
Theorem double_all_six : forall x y,
  op_eq (JDouble x) (JDouble y) = f_eq x y /\ op_ne (JDouble x) (JDouble y) = f_ne x y /\
  op_lt (JDouble x) (JDouble y) = f_lt x y /\ op_gt (JDouble x) (JDouble y) = f_gt x y /\
  op_le (JDouble x) (JDouble y) = f_le x y /\ op_ge (JDouble x) (JDouble y) = f_ge x y.
Proof.
  intros x y. unfold op_eq, op_ne, op_lt, op_gt, op_le, op_ge.
  rewrite compare_scalar by (intros; discriminate).
  cbn [compare_step numv_of arith nv_to_double]. unfold cmp_f64, f_ne, f_eq, f_lt, f_gt, f_le, f_ge.
  destruct (SFcompare x y) as [[| |]|]; cbn [cmp_rev is_equal negb]; repeat split.
Qed.

(* an integer against a double is compared as doubles (the integer converted, round to nearest even) *)
Theorem int_vs_double : forall z d,
  op_eq (JInt z) (JDouble d) = f_eq (f_of_Z F64 z) d /\
  op_lt (JInt z) (JDouble d) = f_lt (f_of_Z F64 z) d /\
  op_gt (JInt z) (JDouble d) = f_gt (f_of_Z F64 z) d.
Proof.
  intros z d. unfold op_eq, op_lt, op_gt.
  rewrite compare_scalar by (intros; discriminate).
  cbn [compare_step numv_of arith nv_to_double]. unfold cmp_f64, f_eq, f_lt, f_gt.
  destruct (SFcompare (f_of_Z F64 z) d) as [[| |]|]; cbn [cmp_rev is_equal]; repeat split.
Qed.

(* a == b on two objects: the member counts agree and every member of a has, under its key in b (first
   match), an equal value.  b enters only through look-ups by key: the order of its members is irrelevant.
   No hypothesis on keys — with repeated keys this is exactly the asymmetric relation of the known finding. *)
Definition members_match (la lb : list (bytes * jv)) : bool :=
  forallb (fun kv => match assoc_get (fst kv) lb with
                     | Some w => op_eq (snd kv) w
                     | None => false
                     end) la && Nat.eqb (length la) (length lb).

Theorem objects_memberwise : forall la lb,
  op_eq (JObj la) (JObj lb) = members_match la lb.
Proof.
  intros la lb. unfold op_eq at 1. unfold compare.
  pose proof (jsize_pos (JObj lb)) as Hp.
  destruct (jsize (JObj lb) + jsize (JObj la))%nat as [|n] eqn:E; [lia|].
  rewrite compare_fuel_S. cbn [compare_step].
  rewrite (obj_eq_with_ext (compare_fuel n) compare la lb).
  - unfold obj_eq_with, members_match, op_eq.
    destruct (forallb _ la && Nat.eqb (length la) (length lb)); reflexivity.
  - intros k v k' w Hv Hw. apply jsize_obj_in in Hv. apply jsize_obj_in in Hw.
    apply compare_enough_fuel. lia.
Qed.

Example objects_order_irrelevant :
  op_eq (JObj [([97%N], JInt 1); ([98%N], JArr [JNull])]) (JObj [([98%N], JArr [JNull]); ([97%N], JInt 1)]) = true /\
  op_eq (JObj [([97%N], JInt 1)]) (JObj [([97%N], JInt 1); ([98%N], JNull)]) = false.
Proof. vm_compute. split; reflexivity. Qed.

(* ... regardless of order: permuting the members of the right operand (keys not repeated) changes nothing *)
From Coq Require Import Sorting.Permutation.

Lemma assoc_get_perm : forall k (l l' : list (bytes * jv)),
  NoDup (map fst l) -> Permutation l l' -> assoc_get k l = assoc_get k l'.
Proof.
  intros k l l' ND P.
  assert (ND' : NoDup (map fst l')).
  { eapply Permutation_NoDup; [|exact ND]. apply Permutation_map. exact P. }
  destruct (assoc_get k l) as [w|] eqn:E.
  - apply assoc_get_in in E. symmetry. apply assoc_get_nodup; [exact ND'|].
    eapply Permutation_in; [exact P|exact E].
  - destruct (assoc_get k l') as [w|] eqn:E'; [|reflexivity].
    apply assoc_get_in in E'.
    assert (In (k, w) l) as Hin by (eapply Permutation_in; [apply Permutation_sym; exact P|exact E']).
    rewrite (assoc_get_nodup k w l ND Hin) in E. discriminate.
Qed.

Theorem objects_order_of_right_irrelevant : forall la lb lb',
  NoDup (map fst lb) -> Permutation lb lb' ->
  op_eq (JObj la) (JObj lb) = op_eq (JObj la) (JObj lb').
Proof.
  intros la lb lb' ND P. rewrite !objects_memberwise. unfold members_match.
  rewrite (Permutation_length P). f_equal.
  apply forallb_ext_In. intros kv _. rewrite (assoc_get_perm (fst kv) lb lb' ND P). reflexivity.
Qed.

Theorem objects_order_of_left_irrelevant : forall la la' lb,
  Permutation la la' ->
  op_eq (JObj la) (JObj lb) = op_eq (JObj la') (JObj lb).
Proof.
  intros la la' lb P. rewrite !objects_memberwise. unfold members_match.
  rewrite (Permutation_length P). f_equal.
  induction P as [|x l l' P IH|x y l|l l' l'' P1 IH1 P2 IH2]; cbn [forallb].
  - reflexivity.
  - rewrite IH. reflexivity.
  - rewrite !andb_assoc. f_equal. apply andb_comm.
  - rewrite IH1. exact IH2.
Qed.

(* a stored float against a double, and two stored floats: compared as doubles after widening *)
Theorem float_vs_double : forall x y,
  op_eq (JFloat x) (JDouble y) = f_eq (fconv F64 x) y /\
  op_lt (JFloat x) (JDouble y) = f_lt (fconv F64 x) y /\
  op_gt (JFloat x) (JDouble y) = f_gt (fconv F64 x) y.
Proof.
  intros x y. unfold op_eq, op_lt, op_gt.
  rewrite compare_scalar by (intros; discriminate).
  cbn [compare_step numv_of arith nv_to_double]. unfold cmp_f64, f_eq, f_lt, f_gt.
  destruct (SFcompare (fconv F64 x) y) as [[| |]|]; cbn [cmp_rev is_equal]; repeat split.
Qed.

Theorem float_vs_float : forall x y,
  op_eq (JFloat x) (JFloat y) = f_eq (fconv F64 x) (fconv F64 y) /\
  op_lt (JFloat x) (JFloat y) = f_lt (fconv F64 x) (fconv F64 y) /\
  op_gt (JFloat x) (JFloat y) = f_gt (fconv F64 x) (fconv F64 y).
Proof.
  intros x y. unfold op_eq, op_lt, op_gt.
  rewrite compare_scalar by (intros; discriminate).
  cbn [compare_step numv_of arith nv_to_double]. unfold cmp_f64, f_eq, f_lt, f_gt.
  destruct (SFcompare (fconv F64 x) (fconv F64 y)) as [[| |]|]; cbn [cmp_rev is_equal]; repeat split.
Qed.

Theorem bool_eq_by_value : forall a b, op_eq (JBool a) (JBool b) = Bool.eqb a b.
Proof. intros [|] [|]; reflexivity. Qed.

(* not asked by the property, worth knowing: == is not transitive across storages (integers are exact among
   themselves but rounded to double against a double) *)
Theorem eq_not_transitive :
  let a := JInt (2^53 + 1) in let b := JDouble (f_of_Z F64 (2^53)) in let c := JInt (2^53) in
  op_eq a b = true /\ op_eq b c = true /\ op_eq a c = false.
Proof. vm_compute. repeat split. Qed.
