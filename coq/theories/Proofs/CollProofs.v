(* CollProofs.v — arrays and objects (Model/Collection.v: linked lists of slots with head_/tail_ on top of the
   slot allocator) refine plain lists of slot identifiers. *)
From Coq Require Import NArith List Lia Bool Permutation.
From AJ Require Import Model.Base Model.Pool Model.Collection Proofs.PoolProofs.
Import ListNotations.
Local Open Scope N_scope.

(* ------------------------------------------------------------------------------------------ *)
(* list helpers                                                                                *)

Lemma last_cons : forall (A : Type) (t : list A) x d, last (x :: t) d = last t x.
Proof.
  induction t as [|y t IH]; intros x d; [reflexivity|].
  change (last (x :: y :: t) d) with (last (y :: t) d).
  rewrite (IH y d), (IH y x). reflexivity.
Qed.

Lemma last_app_cons : forall (A : Type) (l1 l2 : list A) x d, last (l1 ++ x :: l2) d = last l2 x.
Proof.
  induction l1 as [|a l1 IH]; intros l2 x d.
  - cbn [app]. apply last_cons.
  - cbn [app]. rewrite last_cons. apply IH.
Qed.

Lemma NoDup_app_iff : forall (A : Type) (l1 l2 : list A),
  NoDup (l1 ++ l2) <-> NoDup l1 /\ NoDup l2 /\ (forall x, In x l1 -> ~ In x l2).
Proof.
  induction l1 as [|a l1 IH]; intros l2; cbn [app].
  - split; [intros H; repeat split; [constructor | exact H | intros x []] | intros (_ & H & _); exact H].
  - split.
    + intros H. inversion H as [|y t Hn Hd]; subst. apply IH in Hd as (H1 & H2 & H3).
      split; [constructor; [intro Hin; apply Hn, in_or_app; left; exact Hin | exact H1]|].
      split; [exact H2|]. intros x [<- | Hx]; [intro Hin; apply Hn, in_or_app; right; exact Hin | apply H3; exact Hx].
    + intros (H1 & H2 & H3). inversion H1 as [|y t Hn Hd]; subst.
      constructor.
      * intro Hin. apply in_app_or in Hin as [Hin | Hin]; [exact (Hn Hin) | exact (H3 a (or_introl eq_refl) Hin)].
      * apply IH. split; [exact Hd | split; [exact H2 | intros x Hx; apply H3; right; exact Hx]].
Qed.

Lemma nth_error_split_at : forall (A : Type) (l : list A) k x, nth_error l k = Some x ->
  exists l1 l2, l = l1 ++ x :: l2 /\ length l1 = k.
Proof.
  intros A l k x H. apply nth_error_split in H. exact H.
Qed.

Lemma remove_at_app : forall (A : Type) (l1 l2 : list A) x, remove_at (length l1) (l1 ++ x :: l2) = l1 ++ l2.
Proof.
  induction l1 as [|a l1 IH]; intros l2 x; [reflexivity|].
  cbn [app length remove_at]. rewrite IH. reflexivity.
Qed.

Lemma nth_error_app_mid : forall (A : Type) (l1 l2 : list A) x, nth_error (l1 ++ x :: l2) (length l1) = Some x.
Proof.
  intros. rewrite nth_error_app2 by lia. rewrite Nat.sub_diag. reflexivity.
Qed.

(* ------------------------------------------------------------------------------------------ *)
(* links and segments                                                                          *)

Lemma set_next_eq : forall lk id n, set_next lk id n id = n.
Proof. intros. unfold set_next. rewrite N.eqb_refl. reflexivity. Qed.

Lemma set_next_neq : forall lk id n x, x <> id -> set_next lk id n x = lk x.
Proof. intros lk id n x H. unfold set_next. apply N.eqb_neq in H. rewrite H. reflexivity. Qed.

(* the slots of [l], none of them null, are linked in this order from [from]; the last one points to [to] *)
Fixpoint seg (null : N) (lk : links) (l : list N) (from to : N) : Prop :=
  match l with
  | [] => from = to
  | x :: t => from = x /\ x <> null /\ seg null lk t (lk x) to
  end.

Lemma seg_app : forall null lk l1 l2 from to,
  seg null lk (l1 ++ l2) from to <-> exists mid, seg null lk l1 from mid /\ seg null lk l2 mid to.
Proof.
  induction l1 as [|a l1 IH]; intros l2 from to; cbn [app seg].
  - split; [intros H; exists from; split; [reflexivity | exact H] | intros (mid & -> & H); exact H].
  - split.
    + intros (H1 & H2 & H3). apply IH in H3 as (mid & H3 & H4). exists mid. repeat split; assumption.
    + intros (mid & (H1 & H2 & H3) & H4). repeat split; try assumption. apply IH. exists mid. split; assumption.
Qed.

Lemma seg_set_other : forall null lk id n l from to,
  ~ In id l -> seg null lk l from to -> seg null (set_next lk id n) l from to.
Proof.
  induction l as [|x t IH]; intros from to Hni H; cbn [seg] in *; [exact H|].
  destruct H as (H1 & H2 & H3). repeat split; try assumption.
  rewrite set_next_neq by (intro E; apply Hni; left; exact E).
  apply IH; [intro Hin; apply Hni; right; exact Hin | exact H3].
Qed.

Lemma seg_nonnull : forall null lk l from to, seg null lk l from to -> forall x, In x l -> x <> null.
Proof.
  induction l as [|a t IH]; intros from to H x Hx; [destruct Hx|].
  cbn [seg] in H. destruct H as (_ & H2 & H3). destruct Hx as [<- | Hx]; [exact H2 | eapply IH; eassumption].
Qed.

Lemma seg_snoc : forall null lk l x from to,
  seg null lk (l ++ [x]) from to <-> seg null lk l from x /\ x <> null /\ lk x = to.
Proof.
  intros. rewrite seg_app. cbn [seg]. split.
  - intros (mid & H1 & -> & H2 & H3). repeat split; assumption.
  - intros (H1 & H2 & H3). exists x. repeat split; assumption.
Qed.

Lemma chain_seg : forall null lk l fuel from,
  seg null lk l from null -> (length l < fuel)%nat -> chain fuel null lk from = l.
Proof.
  induction l as [|x t IH]; intros fuel from H Hf; cbn [seg] in H.
  - subst from. destruct fuel as [|f]; [reflexivity|]. cbn [chain]. rewrite N.eqb_refl. reflexivity.
  - destruct H as (-> & H2 & H3). destruct fuel as [|f]; [cbn in Hf; lia|].
    cbn [chain]. apply N.eqb_neq in H2. rewrite H2. f_equal. apply IH; [exact H3 | cbn in Hf; lia].
Qed.

Lemma prev_of_seg : forall null lk target l fuel cur prev,
  seg null lk l cur target -> ~ In target l -> (length l < fuel)%nat ->
  prev_of fuel null lk cur target prev = last l prev.
Proof.
  induction l as [|x t IH]; intros fuel cur prev H Hni Hf; cbn [seg] in H.
  - subst cur. destruct fuel as [|f]; [reflexivity|]. cbn [prev_of last].
    rewrite N.eqb_refl, orb_true_r. reflexivity.
  - destruct H as (-> & H2 & H3). destruct fuel as [|f]; [cbn in Hf; lia|].
    cbn [prev_of]. apply N.eqb_neq in H2. rewrite H2.
    assert (Hx : x =? target = false) by (apply N.eqb_neq; intro E; apply Hni; left; exact E).
    rewrite Hx. cbn [orb]. rewrite last_cons.
    apply IH; [exact H3 | intro Hin; apply Hni; right; exact Hin | cbn in Hf; lia].
Qed.

(* CollectionData::appendOne *)
Lemma append_one_spec : forall null lk c l id,
  seg null lk l (c_head c) null -> c_tail c = last l null -> NoDup l -> ~ In id l -> id <> null ->
  seg null (fst (append_one null lk c id)) (l ++ [id]) (c_head (snd (append_one null lk c id))) null /\
  c_tail (snd (append_one null lk c id)) = id.
Proof.
  intros null lk c l id Hs Ht Hnd Hni Hid. unfold append_one.
  destruct l as [|a l0] using rev_ind.
  - cbn [last] in Ht. rewrite Ht, N.eqb_refl. cbn [negb fst snd c_head c_tail app seg].
    rewrite set_next_eq. repeat split; assumption.
  - clear IHl0. rewrite last_last in Ht. apply seg_snoc in Hs as (H1 & H2 & H3).
    apply NoDup_app_iff in Hnd as (_ & _ & Hd).
    assert (Ha : ~ In a l0) by (intro Hin; apply (Hd a Hin); left; reflexivity).
    assert (Hia : id <> a) by (intro E; apply Hni, in_or_app; right; left; symmetry; exact E).
    assert (Hil : ~ In id l0) by (intro Hin; apply Hni, in_or_app; left; exact Hin).
    rewrite Ht. apply N.eqb_neq in H2. rewrite H2. apply N.eqb_neq in H2.
    cbn [negb fst snd c_head c_tail]. split; [|reflexivity].
    apply seg_snoc. split; [apply seg_snoc; split|].
    + apply seg_set_other; [exact Ha|]. apply seg_set_other; [exact Hil | exact H1].
    + split; [exact H2 | apply set_next_eq].
    + split; [exact Hid|]. rewrite set_next_neq by exact Hia. apply set_next_eq.
Qed.

(* CollectionData::appendPair *)
Lemma append_pair_spec : forall null lk c l key value,
  seg null lk l (c_head c) null -> c_tail c = last l null -> NoDup l ->
  ~ In key l -> ~ In value l -> key <> value -> key <> null -> value <> null ->
  seg null (fst (append_pair null lk c key value)) (l ++ [key; value]) (c_head (snd (append_pair null lk c key value))) null /\
  c_tail (snd (append_pair null lk c key value)) = value.
Proof.
  intros null lk c l key value Hs Ht Hnd Hnk Hnv Hkv Hk Hv. unfold append_pair.
  assert (Hpair : forall lk', seg null (set_next (set_next lk' value null) key value) [key; value] key null).
  { intros lk'. cbn [seg]. rewrite set_next_eq. rewrite set_next_neq by congruence. rewrite set_next_eq.
    repeat split; assumption. }
  destruct l as [|a l0] using rev_ind.
  - cbn [last] in Ht. rewrite Ht, N.eqb_refl. cbn [negb fst snd c_head c_tail app].
    split; [apply Hpair | reflexivity].
  - clear IHl0. rewrite last_last in Ht. apply seg_snoc in Hs as (H1 & H2 & H3).
    apply NoDup_app_iff in Hnd as (_ & _ & Hd).
    assert (Ha : ~ In a l0) by (intro Hin; apply (Hd a Hin); left; reflexivity).
    assert (Hka : key <> a) by (intro E; apply Hnk, in_or_app; right; left; symmetry; exact E).
    assert (Hva : value <> a) by (intro E; apply Hnv, in_or_app; right; left; symmetry; exact E).
    assert (Hkl : ~ In key l0) by (intro Hin; apply Hnk, in_or_app; left; exact Hin).
    assert (Hvl : ~ In value l0) by (intro Hin; apply Hnv, in_or_app; left; exact Hin).
    rewrite Ht. apply N.eqb_neq in H2. rewrite H2. apply N.eqb_neq in H2.
    cbn [negb fst snd c_head c_tail]. split; [|reflexivity].
    apply seg_app. exists key. split; [apply seg_snoc; split|].
    + apply seg_set_other; [exact Ha|]. apply seg_set_other; [exact Hkl|]. apply seg_set_other; [exact Hvl | exact H1].
    + split; [exact H2 | apply set_next_eq].
    + apply seg_set_other; [intros [E | [E | []]]; congruence | apply Hpair].
Qed.

(* CollectionData::removeOne *)
Lemma remove_one_spec : forall null fuel lk c l1 id l2,
  NoDup (l1 ++ id :: l2) ->
  seg null lk (l1 ++ id :: l2) (c_head c) null ->
  (length l1 < fuel)%nat ->
  seg null (fst (remove_one fuel null lk c id)) (l1 ++ l2) (c_head (snd (remove_one fuel null lk c id))) null /\
  c_tail (snd (remove_one fuel null lk c id)) = match l2 with [] => last l1 null | _ => c_tail c end.
Proof.
  intros null fuel lk c l1 id l2 Hnd Hs Hf.
  apply seg_app in Hs as (mid & Hs1 & Hs2). cbn [seg] in Hs2. destruct Hs2 as (-> & Hid & Hs2).
  apply NoDup_app_iff in Hnd as (Hnd1 & Hnd2 & Hd).
  assert (Hni : ~ In id l1) by (intro Hin; apply (Hd id Hin); left; reflexivity).
  unfold remove_one. rewrite (prev_of_seg null lk id l1 fuel (c_head c) null Hs1 Hni Hf).
  assert (Hnxt : (lk id =? null) = match l2 with [] => true | _ => false end).
  { destruct l2 as [|y l2']; cbn [seg] in Hs2; [apply N.eqb_eq; exact Hs2|].
    destruct Hs2 as (-> & Hy & _). apply N.eqb_neq. exact Hy. }
  destruct l1 as [|p l0] using rev_ind.
  - cbn [last app]. rewrite N.eqb_refl. cbn [negb fst snd c_head c_tail]. cbn [seg] in Hs1.
    split; [exact Hs2|]. rewrite Hnxt. destruct l2; reflexivity.
  - clear IHl0. rewrite last_last. apply seg_snoc in Hs1 as (H1 & H2 & H3).
    apply NoDup_app_iff in Hnd1 as (_ & _ & Hd1).
    assert (Hp0 : ~ In p l0) by (intro Hin; apply (Hd1 p Hin); left; reflexivity).
    assert (Hp2 : ~ In p l2) by (intro Hin; apply (Hd p); [apply in_or_app; right; left; reflexivity | right; exact Hin]).
    apply N.eqb_neq in H2. rewrite H2. apply N.eqb_neq in H2. cbn [negb fst snd c_head c_tail].
    split; [|rewrite Hnxt; destruct l2; reflexivity].
    apply seg_app. exists (lk id). split; [apply seg_snoc; split|].
    + apply seg_set_other; assumption.
    + split; [exact H2 | apply set_next_eq].
    + apply seg_set_other; assumption.
Qed.

(* ------------------------------------------------------------------------------------------ *)
(* the live list                                                                               *)

Lemma in_remove_live : forall id x l, In x (remove_live id l) <-> In x l /\ x <> id.
Proof.
  intros id x l. unfold remove_live. rewrite filter_In. split; intros [H1 H2]; (split; [exact H1|]).
  - intro E. subst x. rewrite N.eqb_refl in H2. discriminate.
  - apply N.eqb_neq in H2. rewrite H2. reflexivity.
Qed.

Lemma remove_live_notin : forall id l, ~ In id l -> remove_live id l = l.
Proof.
  induction l as [|x t IH]; intros H; [reflexivity|].
  cbn [remove_live filter]. assert (E : x =? id = false) by (apply N.eqb_neq; intro E; apply H; left; exact E).
  rewrite E. cbn [negb]. f_equal. apply IH. intro Hin. apply H. right; exact Hin.
Qed.

Lemma remove_live_as_remove_at : forall id l, NoDup l -> In id l ->
  exists k, (k < length l)%nat /\ nth k l 0 = id /\ remove_at k l = remove_live id l.
Proof.
  induction l as [|x t IH]; intros Hnd Hin; [destruct Hin|].
  inversion Hnd as [|y u Hn Hd]; subst.
  destruct (N.eq_dec x id) as [E | E].
  - subst x. exists O. cbn [length nth remove_at remove_live filter]. rewrite N.eqb_refl. cbn [negb].
    split; [lia | split; [reflexivity|]]. symmetry. apply remove_live_notin. exact Hn.
  - destruct Hin as [Hin | Hin]; [contradiction|].
    destruct (IH Hd Hin) as (k & Hk & Hnth & Hr). exists (S k). cbn [length nth remove_at remove_live filter].
    apply N.eqb_neq in E. rewrite E. cbn [negb]. split; [lia | split; [exact Hnth|]]. f_equal. exact Hr.
Qed.

Lemma HI_live_nodup : forall g p live, HI g p live -> NoDup live.
Proof. intros g p live (_ & H & _). eapply NoDup_app_l. exact H. Qed.

Lemma HI_free_live : forall g p live id, HI g p live -> In id live ->
  HI g (free_slot id p) (remove_live id live).
Proof.
  intros g p live id H Hin.
  destruct (remove_live_as_remove_at id live (HI_live_nodup _ _ _ H) Hin) as (k & Hk & Hn & Hr).
  rewrite <- Hr, <- Hn. apply HI_free; assumption.
Qed.

Lemma HI_alloc_some : forall g a b p id p' live, good_geom g -> HI g p live ->
  alloc_slot g a b p = (Some id, p') ->
  HI g p' (live ++ [id]) /\ ~ In id live /\ id < null_slot g.
Proof.
  intros g a b p id p' live Hg H Ha.
  pose proof (HI_alloc_slot _ _ _ _ _ _ _ Hg H Ha) as H'. cbn in H'.
  split; [exact H'|]. split.
  - apply HI_live_nodup in H'. apply NoDup_app_iff in H' as (_ & _ & Hd).
    intro Hin. apply (Hd id Hin). left; reflexivity.
  - eapply HI_below_null; [exact Hg | exact H' | apply in_or_app; right; left; reflexivity].
Qed.

Lemma HI_alloc_none : forall g a b p p' live, good_geom g -> HI g p live ->
  alloc_slot g a b p = (None, p') -> HI g p' live.
Proof.
  intros g a b p p' live Hg H Ha. exact (HI_alloc_slot _ _ _ _ _ _ _ Hg H Ha).
Qed.

Lemma alloc_with_is_alloc_slot : forall g fails p, exists a b, fst (alloc_with g fails p) = alloc_slot g a b p.
Proof. intros g fails p. unfold alloc_with. cbn [fst]. eexists. eexists. reflexivity. Qed.

Lemma alloc_with_some : forall g fails p id p' fl live, good_geom g -> HI g p live ->
  alloc_with g fails p = (Some id, p', fl) ->
  HI g p' (live ++ [id]) /\ ~ In id live /\ id < null_slot g.
Proof.
  intros g fails p id p' fl live Hg H Ha.
  destruct (alloc_with_is_alloc_slot g fails p) as (a & b & E). rewrite Ha in E. cbn [fst] in E.
  eapply HI_alloc_some; [exact Hg | exact H | symmetry; exact E].
Qed.

Lemma alloc_with_none : forall g fails p p' fl live, good_geom g -> HI g p live ->
  alloc_with g fails p = (None, p', fl) -> HI g p' live.
Proof.
  intros g fails p p' fl live Hg H Ha.
  destruct (alloc_with_is_alloc_slot g fails p) as (a & b & E). rewrite Ha in E. cbn [fst] in E.
  eapply HI_alloc_none; [exact Hg | exact H | symmetry; exact E].
Qed.

(* ------------------------------------------------------------------------------------------ *)
(* Part 1 — well-formedness                                                                    *)

(* [l] is the chain of the collection: allocator invariant for the live slots; the slots of [l] are distinct
   live slots, linked in this order from head_ up to NULL_SLOT; tail_ is the last one *)
Definition WFl (g : geom) (s : astate) (l : list N) : Prop :=
  HI g (pl (a_ps s)) (lv (a_ps s)) /\
  NoDup l /\
  (forall x, In x l -> In x (lv (a_ps s))) /\
  seg (null_slot g) (a_links s) l (c_head (a_coll s)) (null_slot g) /\
  c_tail (a_coll s) = last l (null_slot g).

Definition WF (g : geom) (s : astate) : Prop := exists l, WFl g s l.

Lemma WFl_length : forall g s l, WFl g s l -> (length l <= length (lv (a_ps s)))%nat.
Proof. intros g s l (_ & H2 & H3 & _). apply NoDup_incl_length; [exact H2 | exact H3]. Qed.

Lemma WFl_elements : forall g s l, WFl g s l -> elements g s = l.
Proof.
  intros g s l H. pose proof (WFl_length _ _ _ H) as Hlen. destruct H as (_ & _ & _ & H4 & _).
  unfold elements, walk_fuel. apply chain_seg; [exact H4 | lia].
Qed.

Lemma WF_elements : forall g s, WF g s -> WFl g s (elements g s).
Proof. intros g s (l & H). rewrite (WFl_elements _ _ _ H). exact H. Qed.

Lemma WFl_below_null : forall g s l, good_geom g -> WFl g s l -> forall x, In x l -> x < null_slot g.
Proof.
  intros g s l Hg (H1 & _ & H3 & _) x Hx. eapply HI_below_null; [exact Hg | exact H1 | apply H3; exact Hx].
Qed.

Theorem WF_init : forall g, WF g (a_init g).
Proof.
  intros g. exists []. unfold WFl, a_init. cbn [a_ps a_links a_coll ps0 pl lv coll_empty c_head c_tail seg last].
  split; [apply HI_init|]. split; [constructor|]. split; [intros x []|]. split; reflexivity.
Qed.

(* ------------------------------------------------------------------------------------------ *)
(* ArrayData::addElement                                                                       *)

Lemma add_element_some : forall g s l fails s' id fl, good_geom g -> WFl g s l ->
  add_element g s fails = (s', Some id, fl) ->
  WFl g s' (l ++ [id]) /\ ~ In id (lv (a_ps s)) /\ id < null_slot g /\ lv (a_ps s') = lv (a_ps s) ++ [id].
Proof.
  intros g s l fails s' id fl Hg (H1 & H2 & H3 & H4 & H5) Ha. unfold add_element in Ha.
  destruct (alloc_with g fails (pl (a_ps s))) as [[[id'|] p'] fl'] eqn:Ea.
  - destruct (alloc_with_some _ _ _ _ _ _ _ Hg H1 Ea) as (HI' & Hfresh & Hlt).
    assert (Hni : ~ In id' l) by (intro Hin; apply Hfresh, H3; exact Hin).
    assert (Hnn : id' <> null_slot g) by lia.
    pose proof (append_one_spec (null_slot g) (a_links s) (a_coll s) l id' H4 H5 H2 Hni Hnn) as (Hs & Ht).
    destruct (append_one (null_slot g) (a_links s) (a_coll s) id') as [lk c] eqn:Eo.
    cbn [fst snd] in Hs, Ht. injection Ha as <- <- <-.
    cbn [a_ps a_links a_coll with_ps pl lv].
    split; [|split; [exact Hfresh | split; [exact Hlt | reflexivity]]].
    unfold WFl. cbn [a_ps a_links a_coll with_ps pl lv].
    split; [exact HI'|]. split.
    { apply NoDup_app_iff. split; [exact H2 | split; [constructor; [intros [] | constructor]|]].
      intros x Hx [<- | []]. exact (Hni Hx). }
    split.
    { intros x Hx. apply in_app_or in Hx as [Hx | Hx]; apply in_or_app; [left; apply H3; exact Hx | right; exact Hx]. }
    split; [exact Hs|]. rewrite last_last. exact Ht.
  - discriminate.
Qed.

Lemma add_element_none : forall g s l fails s' fl, good_geom g -> WFl g s l ->
  add_element g s fails = (s', None, fl) ->
  WFl g s' l /\ overflowed (a_ps s') = true /\ lv (a_ps s') = lv (a_ps s).
Proof.
  intros g s l fails s' fl Hg (H1 & H2 & H3 & H4 & H5) Ha. unfold add_element in Ha.
  destruct (alloc_with g fails (pl (a_ps s))) as [[[id'|] p'] fl'] eqn:Ea.
  - destruct (append_one (null_slot g) (a_links s) (a_coll s) id') as [lk c]. discriminate.
  - pose proof (alloc_with_none _ _ _ _ _ _ Hg H1 Ea) as HI'.
    injection Ha as <- <-. cbn [a_ps a_links a_coll with_ps pl lv overflowed].
    split; [|split; reflexivity].
    unfold WFl. cbn [a_ps a_links a_coll with_ps pl lv].
    split; [exact HI' | split; [exact H2 | split; [exact H3 | split; [exact H4 | exact H5]]]].
Qed.

Lemma add_elements_spec : forall g n s l fails s' r fl, good_geom g -> WFl g s l ->
  add_elements g n s fails = (s', r, fl) ->
  exists added, WFl g s' (l ++ added) /\
    (forall id, In id added -> ~ In id (lv (a_ps s))) /\
    (forall x, In x (lv (a_ps s)) -> In x (lv (a_ps s'))) /\
    (forall id, r = Some id -> length added = n /\ exists pre, added = pre ++ [id]).
Proof.
  intros g n. induction n as [|n IH]; intros s l fails s' r fl Hg Hw Ha.
  - cbn [add_elements] in Ha. injection Ha as <- <- <-. exists []. rewrite app_nil_r.
    split; [exact Hw | split; [intros id [] | split; [auto | intros id E; discriminate]]].
  - cbn [add_elements] in Ha.
    destruct (add_element g s fails) as [[s1 [id|]] fl1] eqn:E1.
    + destruct (add_element_some _ _ _ _ _ _ _ Hg Hw E1) as (Hw1 & Hfresh & Hlt & Hlv).
      destruct n as [|n'].
      * injection Ha as <- <- <-. exists [id].
        split; [exact Hw1|]. split; [intros x [<- | []]; exact Hfresh|].
        split; [intros x Hx; rewrite Hlv; apply in_or_app; left; exact Hx|].
        intros id' E. injection E as <-. split; [reflexivity | exists []; reflexivity].
      * destruct (IH _ _ _ _ _ _ Hg Hw1 Ha) as (added & Hw' & Hf' & Hincl & Hr).
        exists (id :: added). rewrite <- app_assoc in Hw'. cbn [app] in Hw'.
        split; [exact Hw'|]. split.
        { intros x [<- | Hx]; [exact Hfresh|]. intro Hin. apply (Hf' x Hx). rewrite Hlv. apply in_or_app. left; exact Hin. }
        split.
        { intros x Hx. apply Hincl. rewrite Hlv. apply in_or_app. left; exact Hx. }
        intros id' E. destruct (Hr id' E) as (Hlen & pre & Hpre).
        split; [cbn [length]; rewrite Hlen; reflexivity | exists (id :: pre); rewrite Hpre; reflexivity].
    + destruct (add_element_none _ _ _ _ _ _ Hg Hw E1) as (Hw1 & Hov & Hlv).
      injection Ha as <- <- <-. exists []. rewrite app_nil_r.
      split; [exact Hw1 | split; [intros id [] | split; [intros x Hx; rewrite Hlv; exact Hx | intros id E; discriminate]]].
Qed.

(* ------------------------------------------------------------------------------------------ *)
(* the other operations, on an explicit chain                                                  *)

Lemma WFl_change_ps : forall g s l p' lv' ov, WFl g s l -> HI g p' lv' ->
  (forall x, In x l -> In x lv') ->
  WFl g {| a_ps := {| pl := p'; lv := lv'; overflowed := ov |}; a_links := a_links s; a_coll := a_coll s |} l.
Proof.
  intros g s l p' lv' ov (H1 & H2 & H3 & H4 & H5) HI' Hincl.
  unfold WFl. cbn [a_ps a_links a_coll pl lv].
  split; [exact HI' | split; [exact H2 | split; [exact Hincl | split; [exact H4 | exact H5]]]].
Qed.

Lemma NoDup_mid_remove : forall (l1 l2 : list N) x, NoDup (l1 ++ x :: l2) ->
  NoDup (l1 ++ l2) /\ ~ In x (l1 ++ l2).
Proof.
  intros l1 l2 x H. split; [eapply NoDup_remove_1; exact H | eapply NoDup_remove_2; exact H].
Qed.

Lemma aremove_spec : forall g s l1 id l2, good_geom g -> WFl g s (l1 ++ id :: l2) ->
  WFl g (fst (fst (astep g s (ARemove (length l1))))) (l1 ++ l2) /\
  snd (fst (astep g s (ARemove (length l1)))) = Some id.
Proof.
  intros g s l1 id l2 Hg Hw. pose proof (WFl_length _ _ _ Hw) as Hlen.
  pose proof (WFl_elements _ _ _ Hw) as He. destruct Hw as (H1 & H2 & H3 & H4 & H5).
  unfold astep. rewrite He, nth_error_app_mid.
  assert (Hf : (length l1 < walk_fuel s)%nat) by (unfold walk_fuel; rewrite app_length in Hlen; cbn [length] in Hlen; lia).
  pose proof (remove_one_spec (null_slot g) (walk_fuel s) (a_links s) (a_coll s) l1 id l2 H2 H4 Hf) as (Hs & Ht).
  destruct (remove_one (walk_fuel s) (null_slot g) (a_links s) (a_coll s) id) as [lk c].
  cbn [fst snd] in *. split; [|reflexivity].
  destruct (NoDup_mid_remove _ _ _ H2) as (Hnd & Hni).
  unfold WFl. cbn [a_ps a_links a_coll with_ps pl lv].
  split; [apply HI_free_live; [exact H1 | apply H3, in_or_app; right; left; reflexivity]|].
  split; [exact Hnd|]. split.
  { intros x Hx. apply in_remove_live. split.
    - apply H3. apply in_app_or in Hx as [Hx | Hx]; apply in_or_app; [left | right; right]; exact Hx.
    - intro E. subst x. exact (Hni Hx). }
  split; [exact Hs|]. rewrite Ht, H5, last_app_cons.
  destruct l2 as [|y l2']; [rewrite app_nil_r; reflexivity|].
  rewrite last_app_cons, last_cons. reflexivity.
Qed.

Lemma remove_pair_eq : forall fuel null lk c key,
  remove_pair fuel null lk c key =
  (fst (remove_one fuel null (set_next lk key (lk (lk key))) c key),
   snd (remove_one fuel null (set_next lk key (lk (lk key))) c key), lk key).
Proof.
  intros. unfold remove_pair. destruct (remove_one fuel null (set_next lk key (lk (lk key))) c key). reflexivity.
Qed.

Lemma oremove_spec : forall g s l1 key value l2 k, good_geom g -> WFl g s (l1 ++ key :: value :: l2) ->
  length l1 = (2 * k)%nat ->
  WFl g (fst (fst (astep g s (ORemove k)))) (l1 ++ l2) /\
  snd (fst (astep g s (ORemove k))) = Some key.
Proof.
  intros g s l1 key value l2 k Hg Hw Hk. pose proof (WFl_length _ _ _ Hw) as Hlen.
  pose proof (WFl_elements _ _ _ Hw) as He. destruct Hw as (H1 & H2 & H3 & H4 & H5).
  unfold astep. rewrite He, <- Hk, nth_error_app_mid, remove_pair_eq.
  assert (Hf : (length l1 < walk_fuel s)%nat) by (unfold walk_fuel; rewrite app_length in Hlen; cbn [length] in Hlen; lia).
  (* the chain before the surgery *)
  pose proof H4 as H4'. apply seg_app in H4' as (mid & Hs1 & Hs2). cbn [seg] in Hs2.
  destruct Hs2 as (-> & Hkn & Hval & Hvn & Hs2). rewrite Hval.
  (* distinctness facts *)
  assert (Hnd' : NoDup ((l1 ++ [key]) ++ value :: l2)) by (rewrite <- app_assoc; exact H2).
  destruct (NoDup_mid_remove _ _ _ Hnd') as (Hnd1 & Hnv). rewrite <- app_assoc in Hnd1, Hnv. cbn [app] in Hnd1, Hnv.
  destruct (NoDup_mid_remove _ _ _ Hnd1) as (Hnd2 & Hnk).
  assert (Hkv : key <> value) by (intro E; apply Hnv, in_or_app; right; left; exact E).
  assert (Hk1 : ~ In key l1) by (intro Hin; apply Hnk, in_or_app; left; exact Hin).
  assert (Hk2 : ~ In key l2) by (intro Hin; apply Hnk, in_or_app; right; exact Hin).
  (* after unlinking the value *)
  assert (Hs' : seg (null_slot g) (set_next (a_links s) key (a_links s value)) (l1 ++ key :: l2) (c_head (a_coll s)) (null_slot g)).
  { apply seg_app. exists key. split; [apply seg_set_other; assumption|]. cbn [seg].
    split; [reflexivity | split; [exact Hkn|]]. rewrite set_next_eq. apply seg_set_other; assumption. }
  pose proof (remove_one_spec (null_slot g) (walk_fuel s) _ (a_coll s) l1 key l2 Hnd1 Hs' Hf) as (Hs & Ht).
  destruct (remove_one (walk_fuel s) (null_slot g) (set_next (a_links s) key (a_links s value)) (a_coll s) key) as [lk c].
  cbn [fst snd] in *. split; [|reflexivity].
  unfold WFl. cbn [a_ps a_links a_coll with_ps pl lv].
  assert (Hvin : In value (lv (a_ps s))) by (apply H3, in_or_app; right; right; left; reflexivity).
  assert (Hkin : In key (lv (a_ps s))) by (apply H3, in_or_app; right; left; reflexivity).
  split.
  { apply HI_free_live; [apply HI_free_live; assumption|]. apply in_remove_live. split; assumption. }
  split; [exact Hnd2|]. split.
  { intros x Hx. apply in_remove_live. split; [apply in_remove_live; split|].
    - apply H3. apply in_app_or in Hx as [Hx | Hx]; apply in_or_app; [left | right; right; right]; exact Hx.
    - intro E. subst x. apply Hnv. apply in_app_or in Hx as [Hx | Hx]; apply in_or_app; [left | right; right]; exact Hx.
    - intro E. subst x. exact (Hnk Hx). }
  split; [exact Hs|]. rewrite Ht, H5, last_app_cons, last_cons.
  destruct l2 as [|y l2']; [rewrite app_nil_r; reflexivity|].
  rewrite last_app_cons, last_cons. reflexivity.
Qed.

Lemma HI_free_all : forall g ids p live, HI g p live -> NoDup ids -> (forall x, In x ids -> In x live) ->
  HI g (fold_left (fun p id => free_slot id p) ids p) (fold_left (fun l id => remove_live id l) ids live).
Proof.
  intros g ids. induction ids as [|a t IH]; intros p live H Hnd Hincl; cbn [fold_left]; [exact H|].
  inversion Hnd as [|y u Hn Hd]; subst. apply IH.
  - apply HI_free_live; [exact H | apply Hincl; left; reflexivity].
  - exact Hd.
  - intros x Hx. apply in_remove_live. split; [apply Hincl; right; exact Hx | intro E; subst x; exact (Hn Hx)].
Qed.

Lemma aclear_spec : forall g s l, WFl g s l -> WFl g (fst (fst (astep g s AClear))) [].
Proof.
  intros g s l Hw. pose proof (WFl_elements _ _ _ Hw) as He. destruct Hw as (H1 & H2 & H3 & H4 & H5).
  unfold astep. cbn [fst]. rewrite He. unfold WFl. cbn [a_ps a_links a_coll with_ps pl lv coll_empty c_head c_tail seg last].
  split; [apply HI_free_all; assumption|]. split; [constructor|]. split; [intros x []|]. split; reflexivity.
Qed.

Lemma ashrink_spec : forall g s l, WFl g s l -> WFl g (fst (fst (astep g s AShrink))) l.
Proof.
  intros g s l Hw. unfold astep. cbn [fst]. unfold with_ps.
  apply WFl_change_ps; [exact Hw | apply HI_shrink; destruct Hw as (H1 & _); exact H1 | destruct Hw as (_ & _ & H3 & _); exact H3].
Qed.

(* ObjectData::addMember: the chain, and whether a value slot is returned *)
Lemma oadd_spec : forall g s l fails, good_geom g -> WFl g s l ->
  match snd (fst (astep g s (OAdd fails))) with
  | Some v => exists key, WFl g (fst (fst (astep g s (OAdd fails)))) (l ++ [key; v]) /\ key <> v /\
                          ~ In key (lv (a_ps s)) /\ ~ In v (lv (a_ps s))
  | None => WFl g (fst (fst (astep g s (OAdd fails)))) l /\ overflowed (a_ps (fst (fst (astep g s (OAdd fails))))) = true
  end.
Proof.
  intros g s l fails Hg Hw. pose proof Hw as (H1 & H2 & H3 & H4 & H5). unfold astep.
  destruct (alloc_with g fails (pl (a_ps s))) as [[[key|] p1] f1] eqn:E1.
  - destruct (alloc_with_some _ _ _ _ _ _ _ Hg H1 E1) as (HI1 & Hfk & Hltk).
    destruct (alloc_with g f1 p1) as [[[value|] p2] f2] eqn:E2.
    + destruct (alloc_with_some _ _ _ _ _ _ _ Hg HI1 E2) as (HI2 & Hfv & Hltv).
      rewrite <- app_assoc in HI2. cbn [app] in HI2.
      assert (Hkv : key <> value) by (intro E; apply Hfv, in_or_app; right; left; exact E).
      assert (Hfv' : ~ In value (lv (a_ps s))) by (intro Hin; apply Hfv, in_or_app; left; exact Hin).
      destruct (hd false f2).
      * cbn [fst snd a_ps overflowed with_ps]. split; [|reflexivity]. unfold with_ps.
        apply WFl_change_ps; [exact Hw | exact HI2 | intros x Hx; apply in_or_app; left; apply H3; exact Hx].
      * assert (Hnk : ~ In key l) by (intro Hin; apply Hfk, H3; exact Hin).
        assert (Hnv : ~ In value l) by (intro Hin; apply Hfv', H3; exact Hin).
        assert (Hk0 : key <> null_slot g) by lia. assert (Hv0 : value <> null_slot g) by lia.
        pose proof (append_pair_spec (null_slot g) (a_links s) (a_coll s) l key value H4 H5 H2 Hnk Hnv Hkv Hk0 Hv0) as (Hs & Ht).
        destruct (append_pair (null_slot g) (a_links s) (a_coll s) key value) as [lk c].
        cbn [fst snd] in *. exists key. split; [|split; [exact Hkv | split; assumption]].
        unfold WFl. cbn [a_ps a_links a_coll with_ps pl lv].
        split; [exact HI2|]. split.
        { apply NoDup_app_iff. split; [exact H2|]. split.
          - constructor; [intros [E | []]; congruence | constructor; [intros [] | constructor]].
          - intros x Hx [<- | [<- | []]]; [exact (Hnk Hx) | exact (Hnv Hx)]. }
        split.
        { intros x Hx. apply in_app_or in Hx as [Hx | Hx]; apply in_or_app; [left; apply H3; exact Hx | right; exact Hx]. }
        split; [exact Hs|]. rewrite Ht. change [key; value] with ([key] ++ [value]). rewrite app_assoc, last_last. reflexivity.
    + pose proof (alloc_with_none _ _ _ _ _ _ Hg HI1 E2) as HI2.
      cbn [fst snd a_ps overflowed with_ps]. split; [|reflexivity]. unfold with_ps.
      apply WFl_change_ps; [exact Hw | exact HI2 | intros x Hx; apply in_or_app; left; apply H3; exact Hx].
  - pose proof (alloc_with_none _ _ _ _ _ _ Hg H1 E1) as HI1.
    cbn [fst snd a_ps overflowed with_ps]. split; [|reflexivity]. unfold with_ps.
    apply WFl_change_ps; [exact Hw | exact HI1 | exact H3].
Qed.

(* ------------------------------------------------------------------------------------------ *)
(* Part 1 — every operation preserves well-formedness                                          *)

(* ORemove k is only meaningful when the k-th key is followed by its value (or there is no k-th key): on a chain
   with a key in last position removePair frees NULL_SLOT.  Every other operation is unconditionally fine. *)
Definition op_ok (g : geom) (s : astate) (o : aop) : Prop :=
  match o with
  | ORemove k => (length (elements g s) <= 2 * k \/ 2 * k + 1 < length (elements g s))%nat
  | _ => True
  end.

Lemma split_pair_at : forall (l : list N) k, (2 * k + 1 < length l)%nat ->
  exists l1 key value l2, l = l1 ++ key :: value :: l2 /\ length l1 = (2 * k)%nat.
Proof.
  intros l k Hk.
  destruct (nth_error l (2 * k)) as [key|] eqn:E; [|apply nth_error_None in E; lia].
  apply nth_error_split in E as (l1 & rest & -> & Hl1).
  destruct rest as [|value l2]; [rewrite app_length in Hk; cbn [length] in Hk; lia|].
  exists l1, key, value, l2. split; [reflexivity | exact Hl1].
Qed.

Theorem WF_step : forall g s o, good_geom g -> WF g s -> op_ok g s o -> WF g (fst (fst (astep g s o))).
Proof.
  intros g s o Hg Hw Hok. apply WF_elements in Hw. set (l := elements g s) in *.
  destruct o as [fails | k fails | k | fails | k | | ].
  - unfold astep. destruct (add_element g s fails) as [[s1 [id|]] fl1] eqn:E; cbn [fst].
    + exists (l ++ [id]). eapply add_element_some; eassumption.
    + exists l. eapply add_element_none; eassumption.
  - unfold astep. fold l. destruct (Nat.ltb k (length l)); [exists l; exact Hw|].
    destruct (add_elements g (S k - length l) s fails) as [[s1 r1] fl1] eqn:E; cbn [fst].
    destruct (add_elements_spec _ _ _ _ _ _ _ _ Hg Hw E) as (added & Hw' & _). exists (l ++ added). exact Hw'.
  - destruct (nth_error l k) as [id|] eqn:E.
    + apply nth_error_split in E as (l1 & l2 & El & Hk). rewrite El in Hw. subst k.
      exists (l1 ++ l2). apply (aremove_spec g s l1 id l2 Hg Hw).
    + unfold astep. fold l. rewrite E. exists l. exact Hw.
  - pose proof (oadd_spec g s l fails Hg Hw) as H.
    destruct (snd (fst (astep g s (OAdd fails)))) as [v|].
    + destruct H as (key & H & _). exists (l ++ [key; v]). exact H.
    + exists l. apply H.
  - cbn [op_ok] in Hok. fold l in Hok. destruct Hok as [Hok | Hok].
    + apply nth_error_None in Hok. unfold astep. fold l. rewrite Hok. exists l. exact Hw.
    + destruct (split_pair_at l k Hok) as (l1 & key & value & l2 & El & Hk). rewrite El in Hw.
      exists (l1 ++ l2). apply (oremove_spec g s l1 key value l2 k Hg Hw Hk).
  - exists []. apply (aclear_spec g s l Hw).
  - exists l. apply (ashrink_spec g s l Hw).
Qed.

(* ------------------------------------------------------------------------------------------ *)
(* Part 2 — refinement to plain lists                                                          *)

Theorem add_appends : forall g s fails s' id n, good_geom g -> WF g s ->
  astep g s (AAdd fails) = (s', Some id, n) ->
  elements g s' = elements g s ++ [id] /\ ~ In id (lv (a_ps s)) /\ id < null_slot g.
Proof.
  intros g s fails s' id n Hg Hw H. apply WF_elements in Hw. unfold astep in H.
  destruct (add_element g s fails) as [[s1 r1] fl1] eqn:E. injection H as Hs Hr Hn. subst s1 r1.
  destruct (add_element_some _ _ _ _ _ _ _ Hg Hw E) as (Hw' & Hf & Hlt & _).
  split; [apply WFl_elements; exact Hw' | split; assumption].
Qed.

Theorem add_fails_unchanged : forall g s fails s' n, good_geom g -> WF g s ->
  astep g s (AAdd fails) = (s', None, n) ->
  elements g s' = elements g s /\ overflowed (a_ps s') = true /\ lv (a_ps s') = lv (a_ps s).
Proof.
  intros g s fails s' n Hg Hw H. apply WF_elements in Hw. unfold astep in H.
  destruct (add_element g s fails) as [[s1 r1] fl1] eqn:E. injection H as Hs Hr Hn. subst s1 r1.
  destruct (add_element_none _ _ _ _ _ _ Hg Hw E) as (Hw' & Hov & Hlv).
  split; [apply WFl_elements; exact Hw' | split; assumption].
Qed.

Theorem remove_closes_gap : forall g s k, good_geom g -> WF g s -> (k < length (elements g s))%nat ->
  elements g (fst (fst (astep g s (ARemove k)))) = remove_at k (elements g s)
  /\ snd (fst (astep g s (ARemove k))) = nth_error (elements g s) k.
Proof.
  intros g s k Hg Hw Hk. apply WF_elements in Hw.
  destruct (nth_error (elements g s) k) as [id|] eqn:E; [|apply nth_error_None in E; lia].
  pose proof E as E'. apply nth_error_split in E' as (l1 & l2 & El & Hl1). rewrite El in Hw. subst k.
  destruct (aremove_spec g s l1 id l2 Hg Hw) as (Hw' & Hr).
  split; [|exact Hr]. rewrite (WFl_elements _ _ _ Hw'), El, remove_at_app. reflexivity.
Qed.

Theorem remove_beyond_end_noop : forall g s k, (length (elements g s) <= k)%nat ->
  astep g s (ARemove k) = (s, None, O).
Proof.
  intros g s k Hk. apply nth_error_None in Hk. unfold astep. rewrite Hk. reflexivity.
Qed.

Theorem get_or_add_pads : forall g s k fails s' r n, good_geom g -> WF g s ->
  astep g s (AGetOrAdd k fails) = (s', r, n) ->
  exists added, elements g s' = elements g s ++ added /\
    (forall id, In id added -> ~ In id (lv (a_ps s))) /\
    (r <> None -> nth_error (elements g s') k = r /\
                  length (elements g s') = Nat.max (length (elements g s)) (S k)).
Proof.
  intros g s k fails s' r n Hg Hw H. apply WF_elements in Hw. unfold astep in H.
  destruct (Nat.ltb k (length (elements g s))) eqn:Elt.
  - injection H as Hs Hr Hn. subst s'. exists []. rewrite app_nil_r. apply Nat.ltb_lt in Elt.
    split; [reflexivity | split; [intros id [] | intros _; split; [exact Hr | lia]]].
  - apply Nat.ltb_ge in Elt.
    destruct (add_elements g (S k - length (elements g s)) s fails) as [[s1 r1] fl1] eqn:E.
    injection H as Hs Hr Hn. subst s1 r1.
    destruct (add_elements_spec _ _ _ _ _ _ _ _ Hg Hw E) as (added & Hw' & Hf & _ & Hlast).
    exists added. rewrite (WFl_elements _ _ _ Hw'). split; [reflexivity | split; [exact Hf|]].
    intros Hne. destruct r as [id|]; [|congruence].
    destruct (Hlast id eq_refl) as (Hlen & pre & Hpre). subst added.
    rewrite app_length in Hlen. cbn [length] in Hlen. split.
    + rewrite app_assoc.
      replace k with (length (elements g s ++ pre)) by (rewrite app_length; lia).
      apply nth_error_app_mid.
    + rewrite !app_length. cbn [length]. lia.
Qed.

Theorem oadd_appends_pair : forall g s fails s' v n, good_geom g -> WF g s ->
  astep g s (OAdd fails) = (s', Some v, n) ->
  exists key, elements g s' = elements g s ++ [key; v] /\ key <> v /\
              ~ In key (lv (a_ps s)) /\ ~ In v (lv (a_ps s)).
Proof.
  intros g s fails s' v n Hg Hw H. apply WF_elements in Hw.
  pose proof (oadd_spec g s _ fails Hg Hw) as Hs. rewrite H in Hs. cbn [fst snd] in Hs.
  destruct Hs as (key & Hw' & Hkv & Hk & Hv). exists key.
  split; [apply WFl_elements; exact Hw' | split; [exact Hkv | split; assumption]].
Qed.

(* a failed member insertion never leaves a key without a value in the chain, whichever of the three allocations failed *)
Theorem oadd_fails_unchanged : forall g s fails s' n, good_geom g -> WF g s ->
  astep g s (OAdd fails) = (s', None, n) ->
  elements g s' = elements g s /\ overflowed (a_ps s') = true.
Proof.
  intros g s fails s' n Hg Hw H. apply WF_elements in Hw.
  pose proof (oadd_spec g s _ fails Hg Hw) as Hs. rewrite H in Hs. cbn [fst snd] in Hs.
  destruct Hs as (Hw' & Hov). split; [apply WFl_elements; exact Hw' | exact Hov].
Qed.

Theorem oremove_removes_pair : forall g s k, good_geom g -> WF g s -> (2 * k + 1 < length (elements g s))%nat ->
  elements g (fst (fst (astep g s (ORemove k)))) = remove_at (2 * k) (remove_at (2 * k) (elements g s)).
Proof.
  intros g s k Hg Hw Hk. apply WF_elements in Hw.
  destruct (split_pair_at _ k Hk) as (l1 & key & value & l2 & El & Hl1). rewrite El in Hw.
  destruct (oremove_spec g s l1 key value l2 k Hg Hw Hl1) as (Hw' & _).
  rewrite (WFl_elements _ _ _ Hw'), El, <- Hl1, remove_at_app, remove_at_app. reflexivity.
Qed.

Lemma in_free_all : forall ids p id, In id ids \/ In id (free_list p) ->
  In id (free_list (fold_left (fun p id => free_slot id p) ids p)).
Proof.
  induction ids as [|a t IH]; intros p id H; cbn [fold_left].
  - destruct H as [[] | H]; exact H.
  - apply IH. destruct H as [[<- | H] | H]; [right; left; reflexivity | left; exact H | right; right; exact H].
Qed.

Theorem clear_empties : forall g s, good_geom g -> WF g s ->
  elements g (fst (fst (astep g s AClear))) = []
  /\ (forall id, In id (elements g s) -> In id (free_list (pl (a_ps (fst (fst (astep g s AClear))))))).
Proof.
  intros g s Hg Hw. apply WF_elements in Hw. split.
  - apply WFl_elements. eapply aclear_spec. exact Hw.
  - intros id Hin. unfold astep. cbn [fst a_ps with_ps pl]. apply in_free_all. left; exact Hin.
Qed.

Theorem shrink_keeps : forall g s, elements g (fst (fst (astep g s AShrink))) = elements g s.
Proof. intros g s. reflexivity. Qed.

(* an object's chain always consists of whole key/value pairs *)
Theorem even_length_preserved : forall g s, good_geom g -> WF g s -> Nat.Even (length (elements g s)) ->
  forall o, (match o with OAdd _ | ORemove _ | AClear | AShrink => True | _ => False end) ->
  Nat.Even (length (elements g (fst (fst (astep g s o))))).
Proof.
  intros g s Hg Hw Hev o Ho. apply WF_elements in Hw. destruct Hev as (m & Hm).
  destruct o as [fails | k fails | k | fails | k | | ]; try contradiction.
  - pose proof (oadd_spec g s _ fails Hg Hw) as H.
    destruct (snd (fst (astep g s (OAdd fails)))) as [v|].
    + destruct H as (key & H & _). rewrite (WFl_elements _ _ _ H), app_length. cbn [length].
      exists (S m). lia.
    + destruct H as (H & _). rewrite (WFl_elements _ _ _ H). exists m. exact Hm.
  - destruct (Nat.le_gt_cases (length (elements g s)) (2 * k)) as [Hk | Hk].
    + apply nth_error_None in Hk. unfold astep. rewrite Hk. cbn [fst]. exists m. exact Hm.
    + assert (Hk' : (2 * k + 1 < length (elements g s))%nat) by lia.
      destruct (split_pair_at _ k Hk') as (l1 & key & value & l2 & El & Hl1). rewrite El in Hw.
      destruct (oremove_spec g s l1 key value l2 k Hg Hw Hl1) as (Hw' & _).
      rewrite (WFl_elements _ _ _ Hw'). rewrite El in Hm. rewrite app_length in *. cbn [length] in Hm.
      exists (m - 1)%nat. lia.
  - rewrite (WFl_elements _ _ _ (aclear_spec g s _ Hw)). exists O. reflexivity.
  - rewrite shrink_keeps. exists m. exact Hm.
Qed.

(* ------------------------------------------------------------------------------------------ *)
(* Part 3 — reachable states                                                                   *)

Definition arun_step (g : geom) (acc : astate * list (option N * nat * list N)) (o : aop) :=
  let '(s, outs) := acc in
  let '(s', r, calls) := astep g s o in (s', outs ++ [(r, calls, elements g s')]).

Lemma arun_snoc : forall g ops o, arun g (ops ++ [o]) = arun_step g (arun g ops) o.
Proof. intros g ops o. unfold arun. rewrite fold_left_app. reflexivity. Qed.

Lemma arun_snoc_state : forall g ops o, fst (arun g (ops ++ [o])) = fst (fst (astep g (fst (arun g ops)) o)).
Proof.
  intros g ops o. rewrite arun_snoc. unfold arun_step.
  destruct (arun g ops) as [s outs]. cbn [fst]. destruct (astep g s o) as [[s' r] calls]. reflexivity.
Qed.

Lemma elements_init : forall g, elements g (a_init g) = [].
Proof.
  intros g. unfold elements, walk_fuel, a_init. cbn [a_ps a_links a_coll ps0 lv length coll_empty c_head chain].
  rewrite N.eqb_refl. reflexivity.
Qed.

(* a history in which every ORemove finds the value slot of the key it removes (or no key at all) *)
Definition hist_ok (g : geom) (ops : list aop) : Prop :=
  forall pre o post, ops = pre ++ o :: post -> op_ok g (fst (arun g pre)) o.

Lemma hist_ok_snoc : forall g ops o, hist_ok g (ops ++ [o]) -> hist_ok g ops /\ op_ok g (fst (arun g ops)) o.
Proof.
  intros g ops o H. split.
  - intros pre o' post E. apply (H pre o' (post ++ [o])). rewrite E, <- app_assoc. reflexivity.
  - apply (H ops o []). reflexivity.
Qed.

Lemma hist_ok_snoc_intro : forall g ops o, hist_ok g ops -> op_ok g (fst (arun g ops)) o -> hist_ok g (ops ++ [o]).
Proof.
  intros g ops o H Ho pre o' post E.
  destruct post as [|x post'] using rev_ind.
  - apply app_inj_tail in E as [-> ->]. exact Ho.
  - clear IHpost'. rewrite app_comm_cons, app_assoc in E. apply app_inj_tail in E as [E _].
    apply (H pre o' post'). exact E.
Qed.

Lemma hist_ok_nil : forall g, hist_ok g [].
Proof. intros g pre o post E. destruct pre; discriminate. Qed.

Theorem arun_wf_partial : forall g ops, good_geom g -> hist_ok g ops -> WF g (fst (arun g ops)).
Proof.
  intros g ops Hg. induction ops as [|o ops IH] using rev_ind; intros Hok.
  - apply WF_init.
  - apply hist_ok_snoc in Hok as (Hok & Ho). rewrite arun_snoc_state. apply WF_step; [exact Hg | apply IH; exact Hok | exact Ho].
Qed.

Lemma WF_elements_distinct_valid : forall g s, good_geom g -> WF g s ->
  NoDup (elements g s) /\ forall id, In id (elements g s) -> id < null_slot g.
Proof.
  intros g s Hg Hw. apply WF_elements in Hw. split; [destruct Hw as (_ & H & _); exact H|].
  apply (WFl_below_null g s _ Hg Hw).
Qed.

Theorem arun_elements_distinct_valid_partial : forall g ops, good_geom g -> hist_ok g ops ->
  NoDup (elements g (fst (arun g ops))) /\ forall id, In id (elements g (fst (arun g ops))) -> id < null_slot g.
Proof.
  intros g ops Hg Hok. apply WF_elements_distinct_valid; [exact Hg | apply arun_wf_partial; assumption].
Qed.

(* histories of one array; histories of one object *)
Definition array_op (o : aop) : Prop := match o with OAdd _ | ORemove _ => False | _ => True end.
Definition object_op (o : aop) : Prop := match o with OAdd _ | ORemove _ | AClear | AShrink => True | _ => False end.

Lemma array_hist_ok : forall g ops, Forall array_op ops -> hist_ok g ops.
Proof.
  intros g ops H pre o post E. subst ops. apply Forall_app in H as (_ & H). inversion H as [|x t Ho _]; subst.
  destruct o; try exact I. destruct Ho.
Qed.

Lemma object_hist_ok : forall g ops, good_geom g -> Forall object_op ops ->
  hist_ok g ops /\ Nat.Even (length (elements g (fst (arun g ops)))).
Proof.
  intros g ops Hg. induction ops as [|o ops IH] using rev_ind; intros H.
  - split; [apply hist_ok_nil | exists O; change (fst (arun g [])) with (a_init g); rewrite elements_init; reflexivity].
  - apply Forall_app in H as (H & Ho). inversion Ho as [|x t Ho' _]; subst.
    destruct (IH H) as (Hok & Hev).
    assert (Hop : op_ok g (fst (arun g ops)) o).
    { destruct o; try exact I. cbn [op_ok]. destruct Hev as (m & Hm). lia. }
    split; [apply hist_ok_snoc_intro; assumption|].
    rewrite arun_snoc_state. apply even_length_preserved; try assumption.
    apply arun_wf_partial; assumption.
Qed.

Theorem arun_wf_array : forall g ops, good_geom g -> Forall array_op ops -> WF g (fst (arun g ops)).
Proof. intros g ops Hg H. apply arun_wf_partial; [exact Hg | apply array_hist_ok; exact H]. Qed.

Theorem arun_wf_object : forall g ops, good_geom g -> Forall object_op ops ->
  WF g (fst (arun g ops)) /\ Nat.Even (length (elements g (fst (arun g ops)))).
Proof.
  intros g ops Hg H. destruct (object_hist_ok g ops Hg H) as (Hok & Hev).
  split; [apply arun_wf_partial; assumption | exact Hev].
Qed.

Theorem arun_elements_distinct_valid_array : forall g ops, good_geom g -> Forall array_op ops ->
  NoDup (elements g (fst (arun g ops))) /\ forall id, In id (elements g (fst (arun g ops))) -> id < null_slot g.
Proof. intros g ops Hg H. apply WF_elements_distinct_valid; [exact Hg | apply arun_wf_array; assumption]. Qed.

Theorem arun_elements_distinct_valid_object : forall g ops, good_geom g -> Forall object_op ops ->
  NoDup (elements g (fst (arun g ops))) /\ forall id, In id (elements g (fst (arun g ops))) -> id < null_slot g.
Proof. intros g ops Hg H. apply WF_elements_distinct_valid; [exact Hg | apply arun_wf_object; assumption]. Qed.

(* ------------------------------------------------------------------------------------------ *)
(* calls to the user's allocator                                                               *)

(* a slot released by a removal is reused by the next insertion with no call to the user's allocator *)
Theorem reuse_makes_no_allocator_call : forall g fails p id rest, free_list p = id :: rest ->
  alloc_with g fails p = (alloc_slot g true true p, fails) /\ fst (alloc_slot g true true p) = Some id.
Proof.
  intros g fails p id rest H. unfold alloc_with, alloc_slot. rewrite H. cbn [andb fst]. split; reflexivity.
Qed.

Theorem alloc_with_calls_bounded : forall g fails p r fl, alloc_with g fails p = (r, fl) ->
  exists used, fails = used ++ fl /\ (length used <= 2)%nat.
Proof.
  intros g fails p r fl H. unfold alloc_with in H. injection H as _ Hfl.
  assert (Htl : forall l : list bool, exists u, l = u ++ tl l /\ (length u <= 1)%nat).
  { intros [|x t]; [exists []; split; [reflexivity | cbn; lia] | exists [x]; split; [reflexivity | cbn; lia]]. }
  match type of Hfl with (if ?c2 then tl ?f1 else ?f1') = _ => set (pool_called := c2) in Hfl; set (fails1 := f1) in * end.
  assert (H1 : exists u1, fails = u1 ++ fails1 /\ (length u1 <= 1)%nat).
  { subst fails1. match goal with |- context [if ?c then _ else _] => destruct c end;
      [apply Htl | exists []; split; [reflexivity | cbn; lia]]. }
  destruct H1 as (u1 & E1 & L1).
  assert (H2 : exists u2, fails1 = u2 ++ fl /\ (length u2 <= 1)%nat).
  { rewrite <- Hfl. destruct pool_called; [apply Htl | exists []; split; [reflexivity | cbn; lia]]. }
  destruct H2 as (u2 & E2 & L2).
  exists (u1 ++ u2). rewrite <- app_assoc, <- E2. split; [exact E1 | rewrite app_length; lia].
Qed.

Theorem read_only_ops_make_no_call : forall g s k,
  snd (astep g s (ARemove k)) = O /\ snd (astep g s (ORemove k)) = O
  /\ snd (astep g s AClear) = O /\ snd (astep g s AShrink) = O.
Proof.
  intros g s k. unfold astep. repeat split.
  - destruct (nth_error (elements g s) k) as [id|]; [|reflexivity].
    destruct (remove_one (walk_fuel s) (null_slot g) (a_links s) (a_coll s) id). reflexivity.
  - destruct (nth_error (elements g s) (2 * k)) as [key|]; [|reflexivity].
    destruct (remove_pair (walk_fuel s) (null_slot g) (a_links s) (a_coll s) key) as [[lk c] v]. reflexivity.
Qed.

(* ------------------------------------------------------------------------------------------ *)
(* why [op_ok] / [hist_ok] are needed: ORemove on a chain whose last slot is a key (an array treated as an
   object) frees NULL_SLOT; afterwards identifiers are no longer valid or distinct *)

Definition g_cex : geom := {| id_bits := 2; pool_cap := 2; inline_pools := 1 |}.

Lemma g_cex_good : good_geom g_cex.
Proof. unfold good_geom, g_cex. cbn. lia. Qed.

Lemma WF_step_needs_op_ok : exists g s, good_geom g /\ WF g s /\ ~ WF g (fst (fst (astep g s (ORemove 0)))).
Proof.
  exists g_cex, (fst (arun g_cex [AAdd []])). split; [apply g_cex_good|]. split.
  - apply arun_wf_array; [apply g_cex_good|]. repeat constructor.
  - intros (l & (Hinv & _ & Hall) & _).
    assert (E : free_list (pl (a_ps (fst (fst (astep g_cex (fst (arun g_cex [AAdd []])) (ORemove 0)))))) = [0; 3])
      by (vm_compute; reflexivity).
    assert (Hin : In 3 (lv (a_ps (fst (fst (astep g_cex (fst (arun g_cex [AAdd []])) (ORemove 0))))) ++
                        free_list (pl (a_ps (fst (fst (astep g_cex (fst (arun g_cex [AAdd []])) (ORemove 0))))))))
      by (apply in_or_app; right; rewrite E; right; left; reflexivity).
    pose proof (allocated_below_null _ _ _ g_cex_good Hinv (Hall 3 Hin)) as Hlt.
    vm_compute in Hlt. discriminate.
Qed.

Lemma arun_elements_distinct_needs_hist_ok : exists g ops, good_geom g /\ ~ NoDup (elements g (fst (arun g ops))).
Proof.
  exists g_cex, [AAdd []; ORemove 0; AAdd []; OAdd []; OAdd []; ORemove 0; ORemove 0].
  split; [apply g_cex_good|].
  assert (E : elements g_cex (fst (arun g_cex [AAdd []; ORemove 0; AAdd []; OAdd []; OAdd []; ORemove 0; ORemove 0])) = [1; 1])
    by (vm_compute; reflexivity).
  rewrite E. intro H. inversion H as [|x t Hn _]; subst. apply Hn. left; reflexivity.
Qed.

Lemma arun_add_can_return_null_without_hist_ok : exists g ops s' n, good_geom g /\
  astep g (fst (arun g ops)) (AAdd []) = (s', Some (null_slot g), n).
Proof.
  exists g_cex, [AAdd []; ORemove 0; AAdd []]. eexists. eexists. split; [apply g_cex_good|].
  vm_compute. reflexivity.
Qed.
