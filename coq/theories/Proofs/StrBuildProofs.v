(* StrBuildProofs.v — the string builder and the string pool (Model/StrBuild.v) store exactly the appended
   bytes, once, with bounded allocator traffic. *)
From Coq Require Import List NArith Bool Lia Arith.
From AJ Require Import Model.Base Model.StrBuild.
Import ListNotations.
Local Open Scope N_scope.

(* ------------------------------------------------------------------------------------------------ *)
(* byte-list equality                                                                                 *)

Lemma sb_beq_eq : forall a b, bytes_eqb a b = true <-> a = b.
Proof.
  induction a as [|x a IH]; destruct b as [|y b]; cbn [bytes_eqb]; split; intro H;
    try discriminate; try reflexivity.
  - apply andb_prop in H. destruct H as [H1 H2]. apply N.eqb_eq in H1. apply IH in H2.
    subst. reflexivity.
  - inversion H; subst. rewrite N.eqb_refl. cbn [andb]. apply IH. reflexivity.
Qed.

Lemma sb_beq_refl : forall a, bytes_eqb a a = true.
Proof. intro a. apply sb_beq_eq. reflexivity. Qed.

Lemma sb_beq_neq : forall a b, bytes_eqb a b = false <-> a <> b.
Proof.
  intros a b. split.
  - intros H E. apply sb_beq_eq in E. congruence.
  - intros H. destruct (bytes_eqb a b) eqn:E; [|reflexivity]. apply sb_beq_eq in E. contradiction.
Qed.

(* ------------------------------------------------------------------------------------------------ *)
(* the invariant                                                                                      *)

Definition node_ok (g : sgeom) (x : snode) : Prop :=
  n_len x = N.of_nat (length (n_data x)) /\ n_len x <= s_max g /\ 1 <= n_refs x.

Definition scratch_ok (g : sgeom) (o : option (N * N * bytes)) : Prop :=
  match o with
  | None => True
  | Some (cap, sz, rw) => sz = N.of_nat (length rw) /\ sz <= cap /\ cap <= s_max g /\ 31 <= cap
  end.

Definition pool_ok (g : sgeom) (p : list snode) : Prop :=
  Forall (node_ok g) p /\ NoDup (map n_content p).

Definition SInv (g : sgeom) (st : sbs) : Prop :=
  pool_ok g (sb_pool st) /\ scratch_ok g (sb_scratch st).

(* the capacities of the doubling sequence c, 2c+1, 4c+3, ... *)
Inductive reach : N -> N -> Prop :=
| reach_refl : forall c, reach c c
| reach_step : forall c T, reach (2 * c + 1) T -> reach c T.

(* the scratch capacity is always one of 31, 63, 127, ... *)
Definition SCap (st : sbs) : Prop :=
  match sb_scratch st with
  | None => True
  | Some (cap, _, _) => reach 31 cap
  end.

Definition bump (x : snode) : snode :=
  {| n_len := n_len x; n_data := n_data x; n_refs := n_refs x + 1 |}.
Definition unbump (x : snode) : snode :=
  {| n_len := n_len x; n_data := n_data x; n_refs := n_refs x - 1 |}.
Definition fresh (s : bytes) : snode :=
  {| n_len := blen s; n_data := s; n_refs := 1 |}.

Lemma content_bump : forall x, n_content (bump x) = n_content x.
Proof. reflexivity. Qed.
Lemma content_unbump : forall x, n_content (unbump x) = n_content x.
Proof. reflexivity. Qed.

Lemma content_full : forall x, n_len x = N.of_nat (length (n_data x)) -> n_content x = n_data x.
Proof. intros x H. unfold n_content. rewrite H, Nat2N.id. apply firstn_all. Qed.

Lemma content_fresh : forall s, n_content (fresh s) = s.
Proof. intro s. apply content_full. reflexivity. Qed.

Lemma node_ok_content : forall g x, node_ok g x -> n_content x = n_data x.
Proof. intros g x [H _]. apply content_full. exact H. Qed.

Lemma node_ok_bump : forall g x, node_ok g x -> node_ok g (bump x).
Proof. intros g x (H1 & H2 & H3). unfold node_ok, bump. cbn [n_len n_data n_refs]. repeat split; try assumption. lia. Qed.

Lemma unbump_bump : forall x, unbump (bump x) = x.
Proof.
  intros [l d r]. unfold unbump, bump. cbn [n_len n_data n_refs]. f_equal. lia.
Qed.

(* ------------------------------------------------------------------------------------------------ *)
(* reach                                                                                              *)

Lemma reach_le : forall c T, reach c T -> c <= T.
Proof. induction 1; lia. Qed.

Lemma reach_snoc : forall a c, reach a c -> reach a (2 * c + 1).
Proof.
  induction 1 as [c|c T H IH].
  - apply reach_step. apply reach_refl.
  - apply reach_step. exact IH.
Qed.

Lemma reach_chain : forall a c, reach a c -> forall T, reach a T -> reach c T \/ reach T c.
Proof.
  induction 1 as [c|c c' H IH]; intros T HT.
  - left. exact HT.
  - inversion HT; subst.
    + right. apply reach_step. exact H.
    + apply IH. assumption.
Qed.

Lemma pow2_pos : forall k, 0 < 2 ^ k.
Proof. intro k. assert (2 ^ k <> 0) by (apply N.pow_nonzero; lia). lia. Qed.

Lemma reach_pow : forall (n : nat) j, reach (2 ^ j - 1) (2 ^ (j + N.of_nat n) - 1).
Proof.
  induction n as [|n IH]; intro j.
  - rewrite N.add_0_r. apply reach_refl.
  - apply reach_step.
    replace (j + N.of_nat (S n)) with (N.succ j + N.of_nat n) by lia.
    replace (2 * (2 ^ j - 1) + 1) with (2 ^ N.succ j - 1).
    + apply IH.
    + rewrite N.pow_succ_r'. pose proof (pow2_pos j). lia.
Qed.

Lemma reach_31_pow : forall k, 5 <= k -> reach 31 (2 ^ k - 1).
Proof.
  intros k Hk. replace k with (5 + N.of_nat (N.to_nat (k - 5))) by lia.
  change 31 with (2 ^ 5 - 1) at 1. apply reach_pow.
Qed.

(* the largest capacity of the sequence 31, 63, 127, ... that the length field can hold *)
Definition top_cap (g : sgeom) : N := 2 ^ N.log2 (s_max g + 1) - 1.
Definition Top (g : sgeom) (T : N) : Prop := T <= s_max g /\ s_max g < 2 * T + 1.

Lemma top_cap_top : forall g, Top g (top_cap g).
Proof.
  intro g. unfold Top, top_cap.
  destruct (N.log2_spec (s_max g + 1)) as [H1 H2]; [lia|].
  rewrite N.pow_succ_r' in H2. lia.
Qed.

Lemma top_cap_reach : forall g, 31 <= s_max g -> reach 31 (top_cap g).
Proof.
  intros g H. unfold top_cap. apply reach_31_pow.
  change 5 with (N.log2 32). apply N.log2_le_mono. lia.
Qed.

Lemma top_cap_pow : forall g k, s_max g = 2 ^ k - 1 -> top_cap g = s_max g.
Proof.
  intros g k H. unfold top_cap. rewrite H.
  pose proof (pow2_pos k).
  replace (2 ^ k - 1 + 1) with (2 ^ k) by lia. rewrite N.log2_pow2 by lia. reflexivity.
Qed.

Lemma reach_top : forall g T cap, Top g T -> reach 31 T -> reach 31 cap -> cap <= s_max g -> reach cap T.
Proof.
  intros g T cap [HT1 HT2] R1 R2 Hc.
  destruct (reach_chain _ _ R2 _ R1) as [R|R]; [exact R|].
  inversion R; subst.
  - apply reach_refl.
  - apply reach_le in H. lia.
Qed.

(* ------------------------------------------------------------------------------------------------ *)
(* pool_find / pool_addref                                                                            *)

Lemma pool_find_some : forall s p k, pool_find s p = Some k ->
  exists x, nth_error p k = Some x /\ n_content x = s /\
            (forall j y, (j < k)%nat -> nth_error p j = Some y -> n_content y <> s).
Proof.
  intros s. induction p as [|x r IH]; intros k H; cbn [pool_find] in H; [discriminate|].
  destruct (bytes_eqb s (n_content x)) eqn:E.
  - inversion H; subst. exists x. cbn [nth_error]. split; [reflexivity|]. split.
    + symmetry. apply sb_beq_eq. exact E.
    + intros j y Hj. lia.
  - destruct (pool_find s r) as [k'|] eqn:F; [|discriminate]. inversion H; subst.
    destruct (IH k' eq_refl) as (z & Hz & Hc & Hb). exists z. cbn [nth_error].
    split; [exact Hz|]. split; [exact Hc|].
    intros j y Hj Hy. destruct j as [|j]; cbn [nth_error] in Hy.
    + inversion Hy; subst. apply sb_beq_neq in E. congruence.
    + apply (Hb j y); [lia|exact Hy].
Qed.

Lemma pool_find_lt : forall s p k, pool_find s p = Some k -> (k < length p)%nat.
Proof.
  intros s p k H. destruct (pool_find_some _ _ _ H) as (x & Hx & _).
  apply nth_error_Some. congruence.
Qed.

Lemma pool_find_none : forall s p, pool_find s p = None <-> ~ In s (map n_content p).
Proof.
  intros s. induction p as [|x r IH]; cbn [pool_find map In].
  - split; [intros _ []|reflexivity].
  - destruct (bytes_eqb s (n_content x)) eqn:E.
    + apply sb_beq_eq in E. split; [discriminate|]. intros H. exfalso. apply H. left. congruence.
    + apply sb_beq_neq in E. destruct (pool_find s r) as [k|].
      * split; [discriminate|]. intros H. exfalso. apply H. right.
        destruct (In_dec (list_eq_dec N.eq_dec) s (map n_content r)) as [I|I]; [exact I|].
        apply IH in I. discriminate.
      * split; [|reflexivity]. intros _ [H|H]; [congruence|]. apply IH in H; [exact H|reflexivity].
Qed.

Lemma pool_find_in : forall s p, In s (map n_content p) -> exists k, pool_find s p = Some k.
Proof.
  intros s p H. destruct (pool_find s p) as [k|] eqn:E; [exists k; reflexivity|].
  apply pool_find_none in E. contradiction.
Qed.

(* with pairwise distinct contents, the node found is the only one with that content *)
Lemma pool_find_unique : forall s p k j y, NoDup (map n_content p) -> pool_find s p = Some k ->
  nth_error p j = Some y -> n_content y = s -> j = k.
Proof.
  intros s p k j y ND F Hy Hc.
  destruct (pool_find_some _ _ _ F) as (x & Hx & Hcx & _).
  assert (Hk : (k < length (map n_content p))%nat) by (rewrite map_length; apply nth_error_Some; congruence).
  assert (Hj : (j < length (map n_content p))%nat) by (rewrite map_length; apply nth_error_Some; congruence).
  apply (proj1 (NoDup_nth_error _) ND j k Hj).
  rewrite !nth_error_map, Hx, Hy. cbn [option_map]. congruence.
Qed.

Lemma addref_content : forall k p, map n_content (pool_addref k p) = map n_content p.
Proof.
  induction k as [|k IH]; destruct p as [|x r]; cbn [pool_addref map]; try reflexivity.
  now rewrite IH.
Qed.

Lemma addref_length : forall k p, length (pool_addref k p) = length p.
Proof.
  induction k as [|k IH]; destruct p as [|x r]; cbn [pool_addref length]; try reflexivity.
  now rewrite IH.
Qed.

Lemma addref_nth_same : forall k p x, nth_error p k = Some x ->
  nth_error (pool_addref k p) k = Some (bump x).
Proof.
  induction k as [|k IH]; destruct p as [|y r]; cbn [pool_addref nth_error]; intros x H; try discriminate.
  - inversion H; subst. reflexivity.
  - apply IH. exact H.
Qed.

Lemma addref_nth_other : forall k p j, j <> k -> nth_error (pool_addref k p) j = nth_error p j.
Proof.
  induction k as [|k IH]; destruct p as [|y r]; cbn [pool_addref]; intros j H; try reflexivity.
  - destruct j as [|j]; [congruence|reflexivity].
  - destruct j as [|j]; [reflexivity|]. cbn [nth_error]. apply IH. congruence.
Qed.

Lemma addref_forall : forall g k p, Forall (node_ok g) p -> Forall (node_ok g) (pool_addref k p).
Proof.
  induction k as [|k IH]; destruct p as [|y r]; cbn [pool_addref]; intros H; try assumption.
  - inversion H; subst. constructor; [|assumption]. apply (node_ok_bump g y). assumption.
  - inversion H; subst. constructor; [assumption|]. apply IH. assumption.
Qed.

Lemma addref_pool_ok : forall g k p, pool_ok g p -> pool_ok g (pool_addref k p).
Proof.
  intros g k p [H1 H2]. split; [apply addref_forall; exact H1|]. rewrite addref_content. exact H2.
Qed.

Lemma addref_find : forall s k p, pool_find s (pool_addref k p) = pool_find s p.
Proof.
  intros s. induction k as [|k IH]; destruct p as [|y r]; cbn [pool_addref pool_find]; try reflexivity.
  rewrite IH. reflexivity.
Qed.

(* number of pool nodes whose content is s *)
Definition occ (s : bytes) (p : list snode) : nat :=
  length (filter (fun y => bytes_eqb s (n_content y)) p).

Lemma occ_notin : forall s p, ~ In s (map n_content p) -> occ s p = 0%nat.
Proof.
  intros s. induction p as [|x r IH]; intros H; [reflexivity|].
  unfold occ in *. cbn [filter map In] in *.
  destruct (bytes_eqb s (n_content x)) eqn:E.
  - apply sb_beq_eq in E. exfalso. apply H. left. congruence.
  - apply IH. intros I. apply H. right. exact I.
Qed.

Lemma occ_nodup_in : forall s p, NoDup (map n_content p) -> In s (map n_content p) -> occ s p = 1%nat.
Proof.
  intros s. induction p as [|x r IH]; intros ND I; [destruct I|].
  cbn [map] in ND. inversion ND as [|? ? Hn ND']; subst.
  unfold occ. cbn [filter]. destruct (bytes_eqb s (n_content x)) eqn:E.
  - apply sb_beq_eq in E. subst s. cbn [length]. f_equal. apply (occ_notin (n_content x) r Hn).
  - apply sb_beq_neq in E. destruct I as [I|I]; [congruence|]. apply IH; assumption.
Qed.

(* ------------------------------------------------------------------------------------------------ *)
(* allocator answers                                                                                  *)

Definition alltrue (ans : list bool) : Prop := forall b, In b ans -> b = true.

Lemma take_alltrue : forall ans, alltrue ans -> fst (take ans) = true /\ alltrue (snd (take ans)).
Proof.
  intros [|a r] H; cbn [take fst snd].
  - split; [reflexivity|exact H].
  - split; [apply H; left; reflexivity|]. intros b Hb. apply H. right. exact Hb.
Qed.

(* the answers are consumed from the front; a `false` taken was in the consumed part *)
Lemma take_frame : forall ans, exists pre, ans = pre ++ snd (take ans) /\
  (fst (take ans) = false -> In false pre) /\ (forall b, In b pre -> b = fst (take ans)).
Proof.
  intros [|a r]; cbn [take fst snd].
  - exists []. split; [reflexivity|]. split; [discriminate|]. intros b [].
  - exists [a]. split; [reflexivity|]. split.
    + intros ->. left. reflexivity.
    + intros b [H|[]]. congruence.
Qed.

(* ------------------------------------------------------------------------------------------------ *)
(* one step of the builder, by cases                                                                  *)

Definition mk (p : list snode) (o : option (N * N * bytes)) : sbs := {| sb_pool := p; sb_scratch := o |}.

Lemma sbs_eta : forall st, st = mk (sb_pool st) (sb_scratch st).
Proof. intros [p o]. reflexivity. Qed.

Inductive start_case (g : sgeom) (st : sbs) (ans : list bool) : sbs * list bool * list aev -> Prop :=
| start_reuse : forall cap sz rw, sb_scratch st = Some (cap, sz, rw) ->
    start_case g st ans (mk (sb_pool st) (Some (cap, 0, [])), ans, [])
| start_toolarge : sb_scratch st = None -> s_max g < 31 ->
    start_case g st ans (st, ans, [])
| start_alloc : sb_scratch st = None -> 31 <= s_max g -> fst (take ans) = true ->
    start_case g st ans (mk (sb_pool st) (Some (31, 0, [])), snd (take ans), [EvAlloc (size_for g 31) true])
| start_refused : sb_scratch st = None -> 31 <= s_max g -> fst (take ans) = false ->
    start_case g st ans (st, snd (take ans), [EvAlloc (size_for g 31) false]).

Lemma start_cases : forall g st ans, start_case g st ans (sb_start g st ans).
Proof.
  intros g st ans. unfold sb_start, initial_capacity.
  destruct (sb_scratch st) as [[[cap sz] rw]|] eqn:E.
  - eapply start_reuse. exact E.
  - destruct (s_max g <? 31) eqn:L.
    + apply N.ltb_lt in L. apply start_toolarge; assumption.
    + apply N.ltb_ge in L. destruct (take ans) as [a ans'] eqn:T. destruct a.
      * replace ans' with (snd (take ans)) by (rewrite T; reflexivity).
        apply start_alloc; try assumption. rewrite T. reflexivity.
      * replace ans' with (snd (take ans)) by (rewrite T; reflexivity).
        apply start_refused; try assumption. rewrite T. reflexivity.
Qed.

Inductive append_case (g : sgeom) (st : sbs) (ans : list bool) (c : N) (cap sz : N) (rw : bytes)
  : sbs * list bool * list aev -> Prop :=
| append_room : sz <> cap ->
    append_case g st ans c cap sz rw (mk (sb_pool st) (Some (cap, sz + 1, c :: rw)), ans, [])
| append_grow : sz = cap -> 2 * sz + 1 <= s_max g -> fst (take ans) = true ->
    append_case g st ans c cap sz rw
      (mk (sb_pool st) (Some (2 * sz + 1, sz + 1, c :: rw)), snd (take ans),
       [EvRealloc (size_for g cap) (size_for g (2 * sz + 1)) true])
| append_refused : sz = cap -> 2 * sz + 1 <= s_max g -> fst (take ans) = false ->
    append_case g st ans c cap sz rw
      (mk (sb_pool st) None, snd (take ans),
       [EvRealloc (size_for g cap) (size_for g (2 * sz + 1)) false; EvFree (size_for g cap)])
| append_toolarge : sz = cap -> s_max g < 2 * sz + 1 ->
    append_case g st ans c cap sz rw (mk (sb_pool st) None, ans, [EvFree (size_for g cap)]).

Lemma append_cases : forall g st ans c cap sz rw, sb_scratch st = Some (cap, sz, rw) ->
  append_case g st ans c cap sz rw (sb_append g st ans c).
Proof.
  intros g st ans c cap sz rw E. unfold sb_append. rewrite E.
  destruct (sz =? cap) eqn:Q.
  - apply N.eqb_eq in Q. destruct (2 * sz + 1 <=? s_max g) eqn:L.
    + apply N.leb_le in L. destruct (take ans) as [a ans'] eqn:T.
      replace ans' with (snd (take ans)) by (rewrite T; reflexivity). destruct a.
      * apply append_grow; try assumption. rewrite T. reflexivity.
      * apply append_refused; try assumption. rewrite T. reflexivity.
    + apply N.leb_gt in L. apply append_toolarge; assumption.
  - apply N.eqb_neq in Q. apply append_room. assumption.
Qed.

Lemma append_none : forall g st ans c, sb_scratch st = None -> sb_append g st ans c = (st, ans, []).
Proof. intros g st ans c E. unfold sb_append. rewrite E. reflexivity. Qed.

Lemma appends_none : forall g s st ans, sb_scratch st = None -> sb_appends g st ans s = (st, ans, []).
Proof.
  intros g. induction s as [|c t IH]; intros st ans E; cbn [sb_appends]; [reflexivity|].
  rewrite append_none by exact E. rewrite IH by exact E. reflexivity.
Qed.

Lemma appends_cons : forall g st ans c t st1 ans1 e1 st2 ans2 e2,
  sb_append g st ans c = (st1, ans1, e1) -> sb_appends g st1 ans1 t = (st2, ans2, e2) ->
  sb_appends g st ans (c :: t) = (st2, ans2, e1 ++ e2).
Proof. intros. cbn [sb_appends]. rewrite H, H0. reflexivity. Qed.

(* a uniform induction principle for sb_appends started with a scratch node *)
Lemma appends_ind :
  forall (g : sgeom) (P : sbs -> list bool -> N -> N -> bytes -> bytes -> sbs -> list bool -> list aev -> Prop),
  (forall st ans cap sz rw, sb_scratch st = Some (cap, sz, rw) -> P st ans cap sz rw [] st ans []) ->
  (forall st ans cap sz rw c t r st2 ans2 e2,
     sb_scratch st = Some (cap, sz, rw) ->
     append_case g st ans c cap sz rw r ->
     sb_appends g (fst (fst r)) (snd (fst r)) t = (st2, ans2, e2) ->
     (forall cap1 sz1 rw1, sb_scratch (fst (fst r)) = Some (cap1, sz1, rw1) ->
        P (fst (fst r)) (snd (fst r)) cap1 sz1 rw1 t st2 ans2 e2) ->
     (sb_scratch (fst (fst r)) = None -> st2 = fst (fst r) /\ ans2 = snd (fst r) /\ e2 = []) ->
     P st ans cap sz rw (c :: t) st2 ans2 (snd r ++ e2)) ->
  forall s st ans cap sz rw st2 ans2 e2, sb_scratch st = Some (cap, sz, rw) ->
    sb_appends g st ans s = (st2, ans2, e2) -> P st ans cap sz rw s st2 ans2 e2.
Proof.
  intros g P H0 HS. induction s as [|c t IH]; intros st ans cap sz rw st2 ans2 e2 E A.
  - cbn [sb_appends] in A. inversion A; subst. eapply H0. exact E.
  - cbn [sb_appends] in A.
    pose proof (append_cases g st ans c cap sz rw E) as C.
    destruct (sb_append g st ans c) as [[st1 ans1] e1].
    destruct (sb_appends g st1 ans1 t) as [[st2' ans2'] e2'] eqn:A2.
    inversion A; subst.
    apply (HS st ans cap sz rw c t (st1, ans1, e1) st2 ans2 e2' E C); cbn [fst snd].
    + exact A2.
    + intros cap1 sz1 rw1 E1. eapply IH; eassumption.
    + intros E1. rewrite appends_none in A2 by exact E1. inversion A2; subst. auto.
Qed.

(* the step case of appends_ind: split on the four behaviours of sb_append *)
Ltac app_step HC := destruct HC; cbn [fst snd mk sb_scratch sb_pool] in *.

Lemma blen_nil : blen [] = 0.
Proof. reflexivity. Qed.
Lemma blen_cons : forall c t, blen (c :: t) = blen t + 1.
Proof. intros. unfold blen. cbn [length]. lia. Qed.
Lemma rev_cons_app : forall (c : N) t rw, rev (c :: t) ++ rw = rev t ++ c :: rw.
Proof. intros. cbn [rev]. rewrite <- app_assoc. reflexivity. Qed.

(* ------------------------------------------------------------------------------------------------ *)
(* sb_appends: what the scratch node holds afterwards                                                 *)

Lemma appends_shape : forall g s st ans cap sz rw st2 ans2 e2,
  sb_scratch st = Some (cap, sz, rw) -> sb_appends g st ans s = (st2, ans2, e2) ->
  sb_pool st2 = sb_pool st /\
  (sb_scratch st2 = None \/
   exists cap', sb_scratch st2 = Some (cap', sz + blen s, rev s ++ rw) /\ cap <= cap').
Proof.
  intros g.
  apply (appends_ind g (fun st ans cap sz rw s st2 ans2 e2 =>
    sb_pool st2 = sb_pool st /\
    (sb_scratch st2 = None \/
     exists cap', sb_scratch st2 = Some (cap', sz + blen s, rev s ++ rw) /\ cap <= cap'))).
  - intros st ans cap sz rw E. split; [reflexivity|]. right. exists cap.
    rewrite blen_nil, N.add_0_r. cbn [rev app]. split; [exact E|lia].
  - intros st ans cap sz rw c t r st2 ans2 e2 E HC A IH HN.
    rewrite blen_cons, rev_cons_app.
    app_step HC.
    + destruct (IH _ _ _ eq_refl) as [P [S|(cap' & S & L)]]; (split; [exact P|]).
      * left. exact S.
      * right. exists cap'. split; [|exact L].
        replace (sz + (blen t + 1)) with (sz + 1 + blen t) by lia. exact S.
    + destruct (IH _ _ _ eq_refl) as [P [S|(cap' & S & L)]]; (split; [exact P|]).
      * left. exact S.
      * right. exists cap'. split; [|lia].
        replace (sz + (blen t + 1)) with (sz + 1 + blen t) by lia. exact S.
    + destruct (HN eq_refl) as (-> & _). split; [reflexivity|]. left. reflexivity.
    + destruct (HN eq_refl) as (-> & _). split; [reflexivity|]. left. reflexivity.
Qed.

Lemma appends_scratch_ok : forall g s st ans cap sz rw st2 ans2 e2,
  sb_scratch st = Some (cap, sz, rw) -> sb_appends g st ans s = (st2, ans2, e2) ->
  scratch_ok g (Some (cap, sz, rw)) -> scratch_ok g (sb_scratch st2).
Proof.
  intros g.
  apply (appends_ind g (fun st ans cap sz rw s st2 ans2 e2 =>
    scratch_ok g (Some (cap, sz, rw)) -> scratch_ok g (sb_scratch st2))).
  - intros st ans cap sz rw E H. rewrite E. exact H.
  - intros st ans cap sz rw c t r st2 ans2 e2 E HC A IH HN (H1 & H2 & H3 & H4).
    app_step HC.
    + apply (IH _ _ _ eq_refl). cbn [scratch_ok length]. repeat split; lia.
    + apply (IH _ _ _ eq_refl). cbn [scratch_ok length]. repeat split; lia.
    + destruct (HN eq_refl) as (-> & _). exact I.
    + destruct (HN eq_refl) as (-> & _). exact I.
Qed.

Definition scap_prop (Q : N -> Prop) (o : option (N * N * bytes)) : Prop :=
  match o with Some (cap, _, _) => Q cap | None => True end.

Lemma appends_reach : forall g a s st ans cap sz rw st2 ans2 e2,
  sb_scratch st = Some (cap, sz, rw) -> sb_appends g st ans s = (st2, ans2, e2) ->
  reach a cap -> scap_prop (reach a) (sb_scratch st2).
Proof.
  intros g a.
  apply (appends_ind g (fun st ans cap sz rw s st2 ans2 e2 =>
    reach a cap -> scap_prop (reach a) (sb_scratch st2))).
  - intros st ans cap sz rw E H. rewrite E. exact H.
  - intros st ans cap sz rw c t r st2 ans2 e2 E HC A IH HN R.
    app_step HC.
    + apply (IH _ _ _ eq_refl). exact R.
    + apply (IH _ _ _ eq_refl). subst sz. apply reach_snoc. exact R.
    + destruct (HN eq_refl) as (-> & _). exact I.
    + destruct (HN eq_refl) as (-> & _). exact I.
Qed.

Lemma appends_reach_top : forall g T, Top g T -> forall s st ans cap sz rw st2 ans2 e2,
  sb_scratch st = Some (cap, sz, rw) -> sb_appends g st ans s = (st2, ans2, e2) ->
  reach cap T -> scap_prop (fun c => reach c T) (sb_scratch st2).
Proof.
  intros g T [T1 T2].
  apply (appends_ind g (fun st ans cap sz rw s st2 ans2 e2 =>
    reach cap T -> scap_prop (fun c => reach c T) (sb_scratch st2))).
  - intros st ans cap sz rw E H. rewrite E. exact H.
  - intros st ans cap sz rw c t r st2 ans2 e2 E HC A IH HN R.
    app_step HC.
    + apply (IH _ _ _ eq_refl). exact R.
    + apply (IH _ _ _ eq_refl). subst sz. inversion R; subst; [lia|assumption].
    + destruct (HN eq_refl) as (-> & _). exact I.
    + destruct (HN eq_refl) as (-> & _). exact I.
Qed.

(* ------------------------------------------------------------------------------------------------ *)
(* sb_appends: the allocator events                                                                   *)

(* every size passed to the allocator is the size of a node whose capacity fits the length field *)
Definition ev_ok (g : sgeom) (e : aev) : Prop :=
  match e with
  | EvAlloc n _ => exists c, c <= s_max g /\ n = size_for g c
  | EvRealloc o n _ => exists c c', c <= s_max g /\ c' <= s_max g /\ o = size_for g c /\ n = size_for g c'
  | EvFree n => exists c, c <= s_max g /\ n = size_for g c
  end.

(* a successful growth of the scratch node from capacity c to 2c+1 *)
Definition is_grow (g : sgeom) (e : aev) : Prop :=
  exists c, 31 <= c /\ 2 * c + 1 <= s_max g /\ e = EvRealloc (size_for g c) (size_for g (2 * c + 1)) true.

Lemma appends_ev_ok : forall g s st ans cap sz rw st2 ans2 e2,
  sb_scratch st = Some (cap, sz, rw) -> sb_appends g st ans s = (st2, ans2, e2) ->
  cap <= s_max g -> Forall (ev_ok g) e2.
Proof.
  intros g.
  apply (appends_ind g (fun st ans cap sz rw s st2 ans2 e2 => cap <= s_max g -> Forall (ev_ok g) e2)).
  - intros. constructor.
  - intros st ans cap sz rw c t r st2 ans2 e2 E HC A IH HN L.
    app_step HC.
    + apply (IH _ _ _ eq_refl). exact L.
    + constructor; [|apply (IH _ _ _ eq_refl); assumption].
      exists cap, (2 * sz + 1). auto.
    + destruct (HN eq_refl) as (_ & _ & ->). constructor; [|constructor; [|constructor]].
      * exists cap, (2 * sz + 1). auto.
      * exists cap. auto.
    + destruct (HN eq_refl) as (_ & _ & ->). constructor; [|constructor]. exists cap. auto.
Qed.

Lemma appends_grow_events : forall g s st ans cap sz rw st2 ans2 e2,
  sb_scratch st = Some (cap, sz, rw) -> sb_appends g st ans s = (st2, ans2, e2) ->
  31 <= cap -> sb_scratch st2 <> None -> Forall (is_grow g) e2.
Proof.
  intros g.
  apply (appends_ind g (fun st ans cap sz rw s st2 ans2 e2 =>
    31 <= cap -> sb_scratch st2 <> None -> Forall (is_grow g) e2)).
  - intros. constructor.
  - intros st ans cap sz rw c t r st2 ans2 e2 E HC A IH HN L S.
    app_step HC.
    + apply (IH _ _ _ eq_refl); assumption.
    + constructor; [|apply (IH _ _ _ eq_refl); [lia|assumption]].
      exists cap. subst sz. auto.
    + destruct (HN eq_refl) as (-> & _). exfalso. apply S. reflexivity.
    + destruct (HN eq_refl) as (-> & _). exfalso. apply S. reflexivity.
Qed.

(* the number of events is logarithmic: each growth doubles the capacity, and a growth is only attempted
   when the characters appended so far fill the node *)
Lemma appends_ev_count : forall g s st ans cap sz rw st2 ans2 e2,
  sb_scratch st = Some (cap, sz, rw) -> sb_appends g st ans s = (st2, ans2, e2) ->
  sz <= cap ->
  e2 = [] \/ 2 ^ N.of_nat (length e2) * (cap + 1) <= 4 * (sz + blen s).
Proof.
  intros g.
  apply (appends_ind g (fun st ans cap sz rw s st2 ans2 e2 =>
    sz <= cap -> e2 = [] \/ 2 ^ N.of_nat (length e2) * (cap + 1) <= 4 * (sz + blen s))).
  - intros. left. reflexivity.
  - intros st ans cap sz rw c t r st2 ans2 e2 E HC A IH HN L.
    rewrite blen_cons. app_step HC.
    + cbn [app]. destruct (IH _ _ _ eq_refl) as [K|K]; [lia|left; exact K|right; lia].
    + right. cbn [app length]. rewrite Nat2N.inj_succ, N.pow_succ_r'.
      destruct (IH _ _ _ eq_refl) as [K|K]; [lia| |].
      * subst e2. cbn [length N.of_nat]. rewrite N.pow_0_r. lia.
      * set (p := 2 ^ N.of_nat (length e2)) in *. nia.
    + destruct (HN eq_refl) as (_ & _ & ->). right. cbn [app length N.of_nat].
      change (2 ^ N.pos (Pos.of_succ_nat 1)) with 4. lia.
    + destruct (HN eq_refl) as (_ & _ & ->). right. cbn [app length N.of_nat].
      change (2 ^ N.pos (Pos.of_succ_nat 0)) with 2. lia.
Qed.

(* ------------------------------------------------------------------------------------------------ *)
(* sb_appends: the allocator answers                                                                  *)

Lemma appends_answers : forall g T, Top g T -> forall s st ans cap sz rw st2 ans2 e2,
  sb_scratch st = Some (cap, sz, rw) -> sb_appends g st ans s = (st2, ans2, e2) ->
  sz <= cap -> reach cap T ->
  exists pre, ans = pre ++ ans2 /\ (sb_scratch st2 = None -> In false pre \/ T < sz + blen s).
Proof.
  intros g T [T1 T2].
  apply (appends_ind g (fun st ans cap sz rw s st2 ans2 e2 =>
    sz <= cap -> reach cap T ->
    exists pre, ans = pre ++ ans2 /\ (sb_scratch st2 = None -> In false pre \/ T < sz + blen s))).
  - intros st ans cap sz rw E L R. exists []. split; [reflexivity|]. intros N. congruence.
  - intros st ans cap sz rw c t r st2 ans2 e2 E HC A IH HN L R.
    rewrite blen_cons. app_step HC.
    + destruct (IH _ _ _ eq_refl) as (pre & P1 & P2); [lia|exact R|].
      exists pre. split; [exact P1|]. intros N. destruct (P2 N) as [K|K]; [left; exact K|right; lia].
    + subst sz. assert (R' : reach (2 * cap + 1) T) by (inversion R; subst; [lia|assumption]).
      destruct (IH _ _ _ eq_refl) as (pre & P1 & P2); [lia|exact R'|].
      destruct (take_frame ans) as (p0 & F1 & F2 & _).
      exists (p0 ++ pre). split.
      * rewrite <- app_assoc, <- P1. exact F1.
      * intros N. destruct (P2 N) as [K|K]; [left; apply in_or_app; right; exact K|right; lia].
    + destruct (HN eq_refl) as (-> & -> & _).
      destruct (take_frame ans) as (p0 & F1 & F2 & _).
      exists p0. split; [exact F1|]. intros _. left. apply F2. assumption.
    + destruct (HN eq_refl) as (-> & -> & _).
      exists []. split; [reflexivity|]. intros _. right. subst sz.
      inversion R; subst; [lia|]. match goal with K : reach (2 * cap + 1) T |- _ => apply reach_le in K end. lia.
Qed.

Lemma appends_frame : forall g s st ans st2 ans2 e2,
  sb_appends g st ans s = (st2, ans2, e2) -> exists pre, ans = pre ++ ans2.
Proof.
  intros g. induction s as [|c t IH]; intros st ans st2 ans2 e2 A.
  - cbn [sb_appends] in A. inversion A; subst. exists []. reflexivity.
  - destruct (sb_scratch st) as [[[cap sz] rw]|] eqn:E.
    + cbn [sb_appends] in A. pose proof (append_cases g st ans c cap sz rw E) as C.
      destruct (sb_append g st ans c) as [[st1 ans1] e1].
      destruct (sb_appends g st1 ans1 t) as [[st2' ans2'] e2'] eqn:A2.
      inversion A; subst. destruct (IH _ _ _ _ _ A2) as (pre & P).
      remember (st1, ans1, e1) as r eqn:Hr.
      destruct (take_frame ans) as (p0 & F1 & _).
      destruct C; inversion Hr.
      * exists pre. congruence.
      * exists (p0 ++ pre). rewrite <- app_assoc, <- P. congruence.
      * exists (p0 ++ pre). rewrite <- app_assoc, <- P. congruence.
      * exists pre. congruence.
    + rewrite appends_none in A by exact E. inversion A; subst. exists []. reflexivity.
Qed.

(* ------------------------------------------------------------------------------------------------ *)
(* sb_start                                                                                           *)

Lemma start_shape : forall g st ans st1 ans1 e1, sb_start g st ans = (st1, ans1, e1) ->
  sb_pool st1 = sb_pool st /\
  (sb_scratch st1 = None \/ exists cap, sb_scratch st1 = Some (cap, 0, [])).
Proof.
  intros g st ans st1 ans1 e1 H. pose proof (start_cases g st ans) as C. rewrite H in C.
  inversion C; subst; cbn [mk sb_pool sb_scratch]; (split; [reflexivity|]).
  - right. exists cap. reflexivity.
  - left. assumption.
  - right. exists 31. reflexivity.
  - left. assumption.
Qed.

Lemma start_scratch_ok : forall g st ans st1 ans1 e1, sb_start g st ans = (st1, ans1, e1) ->
  scratch_ok g (sb_scratch st) -> scratch_ok g (sb_scratch st1).
Proof.
  intros g st ans st1 ans1 e1 H K. pose proof (start_cases g st ans) as C. rewrite H in C.
  inversion C; subst; cbn [mk sb_pool sb_scratch scratch_ok length].
  - match goal with E : sb_scratch st = Some _ |- _ => rewrite E in K end.
    destruct K as (K1 & K2 & K3 & K4). repeat split; lia.
  - exact K.
  - repeat split; lia.
  - exact K.
Qed.

Lemma start_scap : forall g st ans st1 ans1 e1, sb_start g st ans = (st1, ans1, e1) ->
  SCap st -> SCap st1.
Proof.
  intros g st ans st1 ans1 e1 H K. pose proof (start_cases g st ans) as C. rewrite H in C.
  unfold SCap in *.
  inversion C; subst; cbn [mk sb_pool sb_scratch].
  - match goal with E : sb_scratch st = Some _ |- _ => rewrite E in K end. exact K.
  - exact K.
  - apply reach_refl.
  - exact K.
Qed.

Lemma start_frame : forall g st ans st1 ans1 e1, sb_start g st ans = (st1, ans1, e1) ->
  exists pre, ans = pre ++ ans1 /\ (forall b, In b pre -> b = true \/ sb_scratch st1 = None).
Proof.
  intros g st ans st1 ans1 e1 H. pose proof (start_cases g st ans) as C. rewrite H in C.
  destruct (take_frame ans) as (p0 & F1 & F2 & F3).
  inversion C; subst.
  - exists []. split; [reflexivity|]. intros b [].
  - exists []. split; [reflexivity|]. intros b [].
  - exists p0. split; [exact F1|]. intros b Hb. left. rewrite (F3 b Hb). assumption.
  - exists p0. split; [exact F1|]. intros b Hb. right. assumption.
Qed.

Lemma start_events : forall g st ans st1 ans1 e1, sb_start g st ans = (st1, ans1, e1) ->
  e1 = [] \/ (31 <= s_max g /\ sb_scratch st = None /\ exists b, e1 = [EvAlloc (size_for g 31) b]).
Proof.
  intros g st ans st1 ans1 e1 H. pose proof (start_cases g st ans) as C. rewrite H in C.
  inversion C; subst.
  - left. reflexivity.
  - left. reflexivity.
  - right. repeat split; try assumption. exists true. reflexivity.
  - right. repeat split; try assumption. exists false. reflexivity.
Qed.

(* a kept scratch node makes the next startString free of allocator calls *)
Lemma start_kept : forall g st ans, sb_scratch st <> None ->
  exists cap, sb_start g st ans = (mk (sb_pool st) (Some (cap, 0, [])), ans, []).
Proof.
  intros g st ans H. unfold sb_start. destruct (sb_scratch st) as [[[cap sz] rw]|]; [|congruence].
  exists cap. reflexivity.
Qed.

(* ------------------------------------------------------------------------------------------------ *)
(* sb_save                                                                                            *)

Lemma save_found : forall g st ans cap sz rw k, sb_scratch st = Some (cap, sz, rw) ->
  pool_find (rev rw) (sb_pool st) = Some k ->
  sb_save g st ans = (mk (pool_addref k (sb_pool st)) (Some (cap, sz, rw)), ans, [],
                      nth_error (pool_addref k (sb_pool st)) k).
Proof.
  intros g st ans cap sz rw k E F. unfold sb_save. rewrite E, rev_append_rev, app_nil_r, F. reflexivity.
Qed.

Lemma save_new : forall g st ans cap sz rw, sb_scratch st = Some (cap, sz, rw) ->
  pool_find (rev rw) (sb_pool st) = None ->
  sb_save g st ans = (mk ({| n_len := sz; n_data := rev rw; n_refs := 1 |} :: sb_pool st) None, snd (take ans),
                      [EvRealloc (size_for g cap) (size_for g sz) true],
                      Some {| n_len := sz; n_data := rev rw; n_refs := 1 |}).
Proof.
  intros g st ans cap sz rw E F. unfold sb_save. rewrite E, rev_append_rev, app_nil_r, F.
  destruct (take ans) as [a ans']. reflexivity.
Qed.

(* ------------------------------------------------------------------------------------------------ *)
(* sb_store, by cases                                                                                 *)

Inductive store_case (g : sgeom) (st : sbs) (ans : list bool) (s : bytes)
  : sbs * list bool * list aev * option snode -> Prop :=
| store_fail : forall st1 ans1 e1 st2 ans2 e2,
    sb_start g st ans = (st1, ans1, e1) -> sb_appends g st1 ans1 s = (st2, ans2, e2) ->
    sb_pool st2 = sb_pool st -> sb_scratch st2 = None ->
    store_case g st ans s (st2, ans2, e1 ++ e2, None)
| store_found : forall st1 ans1 e1 st2 ans2 e2 cap k y,
    sb_start g st ans = (st1, ans1, e1) -> sb_appends g st1 ans1 s = (st2, ans2, e2) ->
    sb_pool st2 = sb_pool st -> sb_scratch st2 = Some (cap, blen s, rev s) ->
    pool_find s (sb_pool st) = Some k -> nth_error (sb_pool st) k = Some y ->
    store_case g st ans s
      (mk (pool_addref k (sb_pool st)) (Some (cap, blen s, rev s)), ans2, e1 ++ e2, Some (bump y))
| store_new : forall st1 ans1 e1 st2 ans2 e2 cap,
    sb_start g st ans = (st1, ans1, e1) -> sb_appends g st1 ans1 s = (st2, ans2, e2) ->
    sb_pool st2 = sb_pool st -> sb_scratch st2 = Some (cap, blen s, rev s) ->
    pool_find s (sb_pool st) = None ->
    store_case g st ans s
      (mk (fresh s :: sb_pool st) None, snd (take ans2),
       e1 ++ e2 ++ [EvRealloc (size_for g cap) (size_for g (blen s)) true], Some (fresh s)).

Lemma store_cases : forall g st ans s, store_case g st ans s (sb_store g st ans s).
Proof.
  intros g st ans s. unfold sb_store.
  destruct (sb_start g st ans) as [[st1 ans1] e1] eqn:S1.
  destruct (sb_appends g st1 ans1 s) as [[st2 ans2] e2] eqn:S2.
  destruct (start_shape _ _ _ _ _ _ S1) as [P1 [N1|(cap0 & C1)]].
  - rewrite appends_none in S2 by exact N1. inversion S2; subst. rewrite N1.
    eapply store_fail; try eassumption. apply appends_none. assumption.
  - destruct (appends_shape _ _ _ _ _ _ _ _ _ _ C1 S2) as [P2 [N2|(cap & C2 & _)]].
    + rewrite N2. eapply store_fail; try eassumption. congruence.
    + rewrite N.add_0_l, app_nil_r in C2. rewrite C2.
      destruct (pool_find s (sb_pool st)) as [k|] eqn:F.
      * destruct (pool_find_some _ _ _ F) as (y & Hy & _).
        rewrite (save_found g st2 ans2 cap (blen s) (rev s) k C2) by (rewrite rev_involutive, P2, P1; exact F).
        rewrite P2, P1. rewrite (addref_nth_same _ _ _ Hy). rewrite app_nil_r.
        eapply store_found; try eassumption. congruence.
      * rewrite (save_new g st2 ans2 cap (blen s) (rev s) C2) by (rewrite rev_involutive, P2, P1; exact F).
        rewrite rev_involutive, P2, P1. change {| n_len := blen s; n_data := s; n_refs := 1 |} with (fresh s).
        eapply store_new; try eassumption. congruence.
Qed.

(* ------------------------------------------------------------------------------------------------ *)
(* pool_deref                                                                                         *)

Lemma deref_absent : forall g s p, pool_find s p = None -> pool_deref g s p = (p, []).
Proof.
  intros g s. induction p as [|x r IH]; intros F; [reflexivity|].
  cbn [pool_find pool_deref] in *. destruct (bytes_eqb s (n_content x)); [discriminate|].
  destruct (pool_find s r); [discriminate|]. rewrite IH by reflexivity. reflexivity.
Qed.

Lemma deref_last : forall g s p k x, pool_find s p = Some k -> nth_error p k = Some x -> n_refs x = 1 ->
  pool_deref g s p = (firstn k p ++ skipn (S k) p, [EvFree (size_for g (n_len x))]).
Proof.
  intros g s. induction p as [|y r IH]; intros k x F Hx R; [discriminate|].
  cbn [pool_find pool_deref] in *. destruct (bytes_eqb s (n_content y)).
  - inversion F; subst. cbn [nth_error] in Hx. inversion Hx; subst.
    rewrite R. cbn [N.eqb Pos.eqb firstn skipn app]. reflexivity.
  - destruct (pool_find s r) as [k'|] eqn:F'; [|discriminate]. inversion F; subst.
    cbn [nth_error] in Hx. rewrite (IH k' x eq_refl Hx R). reflexivity.
Qed.

Lemma deref_shared : forall g s p k x, pool_find s p = Some k -> nth_error p k = Some x -> n_refs x <> 1 ->
  pool_deref g s p = (firstn k p ++ unbump x :: skipn (S k) p, []).
Proof.
  intros g s. induction p as [|y r IH]; intros k x F Hx R; [discriminate|].
  cbn [pool_find pool_deref] in *. destruct (bytes_eqb s (n_content y)).
  - inversion F; subst. cbn [nth_error] in Hx. inversion Hx; subst.
    apply N.eqb_neq in R. rewrite R. reflexivity.
  - destruct (pool_find s r) as [k'|] eqn:F'; [|discriminate]. inversion F; subst.
    cbn [nth_error] in Hx. rewrite (IH k' x eq_refl Hx R). reflexivity.
Qed.

Lemma deref_incl : forall g s p, incl (map n_content (fst (pool_deref g s p))) (map n_content p).
Proof.
  intros g s. induction p as [|x r IH]; [intros a []|].
  cbn [pool_deref]. destruct (bytes_eqb s (n_content x)).
  - destruct (n_refs x =? 1); cbn [fst map].
    + apply incl_tl. apply incl_refl.
    + apply incl_refl.
  - destruct (pool_deref g s r) as [r' e]. cbn [fst map] in *.
    intros a [H|H]; [left; exact H|right; apply IH; exact H].
Qed.

Lemma deref_pool_ok : forall g s p, pool_ok g p -> pool_ok g (fst (pool_deref g s p)).
Proof.
  intros g s. induction p as [|x r IH]; intros [F ND]; [split; assumption|].
  inversion F as [|? ? Fx Fr]; subst. cbn [map] in ND. inversion ND as [|? ? Nx NDr]; subst.
  cbn [pool_deref]. destruct (bytes_eqb s (n_content x)).
  - destruct (n_refs x =? 1) eqn:R; cbn [fst].
    + split; assumption.
    + apply N.eqb_neq in R. split.
      * constructor; [|assumption]. destruct Fx as (A & B & C).
        unfold node_ok, unbump. cbn [n_len n_data n_refs]. repeat split; try assumption. lia.
      * cbn [map]. constructor; assumption.
  - pose proof (deref_incl g s r) as I. destruct (IH (conj Fr NDr)) as [F' ND'].
    destruct (pool_deref g s r) as [r' e]. cbn [fst] in *. split.
    + constructor; assumption.
    + cbn [map]. constructor; [|assumption]. intros H. apply Nx. apply I. exact H.
Qed.

(* ------------------------------------------------------------------------------------------------ *)
(* 1. the invariant                                                                                   *)

Theorem SInv_init : forall g, SInv g sb_init.
Proof. intro g. split; [split; constructor|exact I]. Qed.

Theorem SCap_init : SCap sb_init.
Proof. exact I. Qed.

Lemma store_mid_ok : forall g st ans s st1 ans1 e1 st2 ans2 e2,
  sb_start g st ans = (st1, ans1, e1) -> sb_appends g st1 ans1 s = (st2, ans2, e2) ->
  scratch_ok g (sb_scratch st) -> scratch_ok g (sb_scratch st2).
Proof.
  intros g st ans s st1 ans1 e1 st2 ans2 e2 S1 S2 K.
  pose proof (start_scratch_ok _ _ _ _ _ _ S1 K) as K1.
  destruct (sb_scratch st1) as [[[cap sz] rw]|] eqn:E.
  - eapply appends_scratch_ok; eassumption.
  - rewrite appends_none in S2 by exact E. inversion S2; subst. rewrite E. exact I.
Qed.

Lemma store_mid_scap : forall g st ans s st1 ans1 e1 st2 ans2 e2,
  sb_start g st ans = (st1, ans1, e1) -> sb_appends g st1 ans1 s = (st2, ans2, e2) ->
  SCap st -> SCap st2.
Proof.
  intros g st ans s st1 ans1 e1 st2 ans2 e2 S1 S2 K.
  pose proof (start_scap _ _ _ _ _ _ S1 K) as K1. unfold SCap in *.
  destruct (sb_scratch st1) as [[[cap sz] rw]|] eqn:E.
  - apply (appends_reach _ 31 _ _ _ _ _ _ _ _ _ E S2 K1).
  - rewrite appends_none in S2 by exact E. inversion S2; subst. rewrite E. exact I.
Qed.

Theorem store_SInv : forall g st ans s st' ans' ev r,
  SInv g st -> sb_store g st ans s = (st', ans', ev, r) -> SInv g st'.
Proof.
  intros g st ans s st' ans' ev r [[PF PN] SK] H.
  pose proof (store_cases g st ans s) as C. rewrite H in C.
  inversion C; subst; unfold SInv; cbn [mk sb_pool sb_scratch].
  - match goal with E : sb_pool st' = _, E' : sb_scratch st' = None |- _ => rewrite E, E' end.
    split; [split; assumption|exact I].
  - split; [apply addref_pool_ok; split; assumption|].
    match goal with E' : sb_scratch ?st2 = Some (cap, _, _) |- _ => rewrite <- E' end.
    eapply store_mid_ok; eassumption.
  - split; [|exact I].
    assert (K2 : scratch_ok g (Some (cap, blen s, rev s))).
    { match goal with E' : sb_scratch ?st2 = Some (cap, _, _) |- _ => rewrite <- E' end.
      eapply store_mid_ok; eassumption. }
    destruct K2 as (K21 & K22 & K23 & K24). split.
    + constructor; [|assumption]. unfold node_ok, fresh. cbn [n_len n_data n_refs].
      repeat split; [lia|lia].
    + cbn [map]. rewrite content_fresh. constructor; [|assumption].
      apply pool_find_none. assumption.
Qed.

Theorem store_SCap : forall g st ans s st' ans' ev r,
  SCap st -> sb_store g st ans s = (st', ans', ev, r) -> SCap st'.
Proof.
  intros g st ans s st' ans' ev r K H.
  pose proof (store_cases g st ans s) as C. rewrite H in C.
  inversion C; subst.
  - eapply store_mid_scap; eassumption.
  - assert (K2 : SCap st2) by (eapply store_mid_scap; eassumption).
    unfold SCap in *. cbn [mk sb_scratch].
    match goal with E' : sb_scratch st2 = Some _ |- _ => rewrite E' in K2 end. exact K2.
  - exact I.
Qed.

Theorem deref_SInv : forall g st s st' e, SInv g st -> sb_deref g st s = (st', e) -> SInv g st'.
Proof.
  intros g st s st' e [P K] H. unfold sb_deref in H.
  pose proof (deref_pool_ok g s _ P) as P'.
  destruct (pool_deref g s (sb_pool st)) as [p' e']. inversion H; subst.
  split; assumption.
Qed.

Theorem deref_SCap : forall g st s st' e, SCap st -> sb_deref g st s = (st', e) -> SCap st'.
Proof.
  intros g st s st' e K H. unfold sb_deref in H.
  destruct (pool_deref g s (sb_pool st)) as [p' e']. inversion H; subst. exact K.
Qed.

Theorem step_SInv : forall g st ans o st' ans' ev r,
  SInv g st -> sb_step g st ans o = (st', ans', ev, r) -> SInv g st'.
Proof.
  intros g st ans [s|s] st' ans' ev r K H; cbn [sb_step] in H.
  - eapply store_SInv; eassumption.
  - destruct (sb_deref g st s) as [st1 e] eqn:D. inversion H; subst. eapply deref_SInv; eassumption.
Qed.

Theorem step_SCap : forall g st ans o st' ans' ev r,
  SCap st -> sb_step g st ans o = (st', ans', ev, r) -> SCap st'.
Proof.
  intros g st ans [s|s] st' ans' ev r K H; cbn [sb_step] in H.
  - eapply store_SCap; eassumption.
  - destruct (sb_deref g st s) as [st1 e] eqn:D. inversion H; subst. eapply deref_SCap; eassumption.
Qed.

(* any sequence of operations, the allocator answers being threaded through *)
Fixpoint sb_run (g : sgeom) (st : sbs) (ans : list bool) (ops : list sop) : sbs * list bool :=
  match ops with
  | [] => (st, ans)
  | o :: r => let '(st', ans', _, _) := sb_step g st ans o in sb_run g st' ans' r
  end.

Theorem run_SInv : forall g ops st ans, SInv g st -> SInv g (fst (sb_run g st ans ops)).
Proof.
  intros g. induction ops as [|o r IH]; intros st ans K; cbn [sb_run]; [exact K|].
  destruct (sb_step g st ans o) as [[[st' ans'] ev] x] eqn:S. apply IH.
  eapply step_SInv; eassumption.
Qed.

Theorem run_SCap : forall g ops st ans, SCap st -> SCap (fst (sb_run g st ans ops)).
Proof.
  intros g. induction ops as [|o r IH]; intros st ans K; cbn [sb_run]; [exact K|].
  destruct (sb_step g st ans o) as [[[st' ans'] ev] x] eqn:S. apply IH.
  eapply step_SCap; eassumption.
Qed.

(* every state reached from the empty builder by any operations and any allocator answers *)
Theorem reachable_SInv : forall g ops ans,
  SInv g (fst (sb_run g sb_init ans ops)) /\ SCap (fst (sb_run g sb_init ans ops)).
Proof. intros g ops ans. split; [apply run_SInv, SInv_init|apply run_SCap, SCap_init]. Qed.

(* ------------------------------------------------------------------------------------------------ *)
(* 2. what is stored is what was appended                                                             *)

(* the pool after a successful store, and the node returned: functions of the pool and the string only *)
Definition pool_put (s : bytes) (p : list snode) : list snode :=
  match pool_find s p with Some k => pool_addref k p | None => fresh s :: p end.
Definition pool_node (s : bytes) (p : list snode) : option snode :=
  match pool_find s p with Some k => nth_error (pool_addref k p) k | None => Some (fresh s) end.

Theorem store_result : forall g st ans s st' ans' ev x,
  sb_store g st ans s = (st', ans', ev, Some x) ->
  sb_pool st' = pool_put s (sb_pool st) /\ pool_node s (sb_pool st) = Some x.
Proof.
  intros g st ans s st' ans' ev x H.
  pose proof (store_cases g st ans s) as C. rewrite H in C. unfold pool_put, pool_node.
  inversion C; subst; cbn [mk sb_pool].
  - match goal with F : pool_find s _ = Some _ |- _ => rewrite F end.
    split; [reflexivity|]. apply addref_nth_same. assumption.
  - match goal with F : pool_find s _ = None |- _ => rewrite F end. split; reflexivity.
Qed.

(* the node returned and the pool do not depend on the scratch node left by earlier strings,
   nor on the allocator answers (as long as the store succeeds) *)
Theorem store_scratch_indep : forall g sta stb ansa ansb s sta' stb' ansa' ansb' eva evb xa xb,
  sb_pool sta = sb_pool stb ->
  sb_store g sta ansa s = (sta', ansa', eva, Some xa) ->
  sb_store g stb ansb s = (stb', ansb', evb, Some xb) ->
  xa = xb /\ sb_pool sta' = sb_pool stb'.
Proof.
  intros g sta stb ansa ansb s sta' stb' ansa' ansb' eva evb xa xb P Ha Hb.
  destruct (store_result _ _ _ _ _ _ _ _ Ha) as [A1 A2].
  destruct (store_result _ _ _ _ _ _ _ _ Hb) as [B1 B2].
  rewrite P in A1, A2. split; congruence.
Qed.

Lemma node_ok_len : forall g x, node_ok g x -> n_len x = N.of_nat (length (n_content x)).
Proof. intros g x K. rewrite (node_ok_content g x K). destruct K as [K _]. exact K. Qed.

Theorem store_stored : forall g st ans s st' ans' ev x,
  SInv g st -> sb_store g st ans s = (st', ans', ev, Some x) ->
  n_content x = s /\ n_len x = N.of_nat (length s) /\ n_data x = s /\
  In x (sb_pool st') /\ occ s (sb_pool st') = 1%nat.
Proof.
  intros g st ans s st' ans' ev x K H.
  pose proof (store_SInv _ _ _ _ _ _ _ _ K H) as [[F' ND'] _].
  destruct (store_result _ _ _ _ _ _ _ _ H) as [P X].
  assert (I : In x (sb_pool st')).
  { rewrite P. unfold pool_put, pool_node in *. destruct (pool_find s (sb_pool st)) as [k|].
    - eapply nth_error_In. exact X.
    - inversion X; subst. left. reflexivity. }
  assert (Cx : n_content x = s).
  { unfold pool_node in X. destruct (pool_find s (sb_pool st)) as [k|] eqn:Fd.
    - destruct (pool_find_some _ _ _ Fd) as (y & Hy & Hc & _).
      rewrite (addref_nth_same _ _ _ Hy) in X. inversion X; subst. reflexivity.
    - inversion X; subst. apply content_fresh. }
  assert (Kx : node_ok g x) by (rewrite Forall_forall in F'; apply F'; exact I).
  split; [exact Cx|]. split; [rewrite <- Cx; apply (node_ok_len g); exact Kx|].
  split; [rewrite <- (node_ok_content g x Kx); exact Cx|]. split; [exact I|].
  apply occ_nodup_in; [exact ND'|]. rewrite <- Cx. apply in_map. exact I.
Qed.

(* ------------------------------------------------------------------------------------------------ *)
(* 3. sharing                                                                                         *)

Theorem store_shared : forall g st ans s k y st' ans' ev x,
  pool_find s (sb_pool st) = Some k -> nth_error (sb_pool st) k = Some y ->
  sb_store g st ans s = (st', ans', ev, Some x) ->
  (* the node found is returned, with one more reference; every other node is unchanged; no node is made *)
  x = bump y /\ sb_pool st' = pool_addref k (sb_pool st) /\
  nth_error (sb_pool st') k = Some x /\
  (forall j, j <> k -> nth_error (sb_pool st') j = nth_error (sb_pool st) j) /\
  length (sb_pool st') = length (sb_pool st) /\
  (* the events are those of startString and of the appends: none from save *)
  (exists st1 ans1 e1 st2 e2,
     sb_start g st ans = (st1, ans1, e1) /\ sb_appends g st1 ans1 s = (st2, ans', e2) /\ ev = e1 ++ e2) /\
  (* the scratch node is kept, so that the next startString makes no allocator call *)
  sb_scratch st' <> None /\
  (forall ans2, exists cap, sb_start g st' ans2 = (mk (sb_pool st') (Some (cap, 0, [])), ans2, [])).
Proof.
  intros g st ans s k y st' ans' ev x F Hy H.
  pose proof (store_cases g st ans s) as C. rewrite H in C.
  inversion C; subst; [|congruence].
  match goal with F' : pool_find s _ = Some ?k0 |- _ => assert (k0 = k) by congruence; subst k0 end.
  match goal with Y : nth_error (sb_pool st) k = Some ?y0 |- _ => assert (y0 = y) by congruence; subst y0 end.
  cbn [mk sb_pool sb_scratch].
  split; [reflexivity|]. split; [reflexivity|].
  split; [apply addref_nth_same; exact Hy|].
  split; [intros j Hj; apply addref_nth_other; exact Hj|].
  split; [apply addref_length|].
  split; [exists st1, ans1, e1, st2, e2; auto|].
  split; [discriminate|].
  intros ans2. apply start_kept. cbn [mk sb_scratch]. discriminate.
Qed.

(* under the invariant: the events of a sharing store are at most one allocation of the initial node and
   successful doublings of the scratch node *)
Theorem store_shared_events : forall g st ans s k st' ans' ev x,
  SInv g st -> pool_find s (sb_pool st) = Some k ->
  sb_store g st ans s = (st', ans', ev, Some x) ->
  exists e1 e2, ev = e1 ++ e2 /\ (e1 = [] \/ e1 = [EvAlloc (size_for g 31) true]) /\ Forall (is_grow g) e2.
Proof.
  intros g st ans s k st' ans' ev x [_ K] F H.
  pose proof (store_cases g st ans s) as C. rewrite H in C.
  inversion C; subst; [|congruence].
  exists e1, e2. split; [reflexivity|].
  pose proof (start_cases g st ans) as SC.
  match goal with S1 : sb_start g st ans = _ |- _ => rewrite S1 in SC; pose proof (start_scratch_ok _ _ _ _ _ _ S1 K) as K1 end.
  assert (N2 : sb_scratch st2 <> None) by congruence.
  destruct (sb_scratch st1) as [[[cap1 sz1] rw1]|] eqn:E1.
  - split.
    + inversion SC; subst; auto. cbn [mk sb_scratch] in *. congruence.
    + destruct K1 as (_ & _ & _ & K1). eapply appends_grow_events; eassumption.
  - match goal with S2 : sb_appends g st1 _ s = _ |- _ => rewrite appends_none in S2 by exact E1; inversion S2; subst end.
    congruence.
Qed.

(* ------------------------------------------------------------------------------------------------ *)
(* 4. failure is clean, and when it happens                                                           *)

Theorem store_fail_clean : forall g st ans s st' ans' ev,
  sb_store g st ans s = (st', ans', ev, None) ->
  sb_pool st' = sb_pool st /\ sb_scratch st' = None.
Proof.
  intros g st ans s st' ans' ev H.
  pose proof (store_cases g st ans s) as C. rewrite H in C.
  inversion C; subst. split; assumption.
Qed.

Lemma appends_answers0 : forall g T p cap ans s st2 ans2 e2, Top g T -> reach cap T ->
  sb_appends g (mk p (Some (cap, 0, []))) ans s = (st2, ans2, e2) ->
  exists pre, ans = pre ++ ans2 /\ (sb_scratch st2 = None -> In false pre \/ T < blen s).
Proof.
  intros g T p cap ans s st2 ans2 e2 TT R A.
  destruct (appends_answers g T TT s (mk p (Some (cap, 0, []))) ans cap 0 [] st2 ans2 e2 eq_refl A)
    as (pre & P1 & P2); [lia|exact R|].
  exists pre. split; [exact P1|]. rewrite N.add_0_l in P2. exact P2.
Qed.

(* a failed store consumed a `false` answer, or the string is longer than the largest capacity 31, 63, 127, ...
   that fits the length field *)
Theorem store_fail_why : forall g st ans s st' ans' ev,
  SInv g st -> SCap st -> 31 <= s_max g ->
  sb_store g st ans s = (st', ans', ev, None) ->
  exists pre, ans = pre ++ ans' /\ (In false pre \/ top_cap g < blen s).
Proof.
  intros g st ans s st' ans' ev [_ K] KC M H.
  pose proof (store_cases g st ans s) as C. rewrite H in C.
  inversion C; subst.
  pose proof (start_cases g st ans) as SC.
  match goal with S1 : sb_start g st ans = _ |- _ => rewrite S1 in SC end.
  pose proof (top_cap_top g) as TT. pose proof (top_cap_reach g M) as TR.
  destruct (take_frame ans) as (p0 & F1 & F2 & _).
  inversion SC; subst.
  - match goal with E : sb_scratch st = Some _ |- _ => unfold SCap in KC; rewrite E in K, KC end.
    destruct K as (_ & _ & K3 & _).
    assert (R : reach cap (top_cap g)) by (eapply reach_top; eassumption).
    match goal with S2 : sb_appends g _ _ s = _ |- _ =>
      destruct (appends_answers0 _ _ _ _ _ _ _ _ _ TT R S2) as (pre & P1 & P2) end.
    exists pre. split; [exact P1|]. apply P2. assumption.
  - lia.
  - match goal with S2 : sb_appends g _ _ s = _ |- _ =>
      destruct (appends_answers0 _ _ _ _ _ _ _ _ _ TT TR S2) as (pre & P1 & P2) end.
    exists (p0 ++ pre). split; [rewrite <- app_assoc, <- P1; exact F1|].
    destruct P2 as [P2|P2]; [assumption| |right; exact P2].
    left. apply in_or_app. right. exact P2.
  - match goal with S2 : sb_appends g _ _ s = _ |- _ => rewrite appends_none in S2 by assumption; inversion S2; subst end.
    exists p0. split; [exact F1|]. left. apply F2. assumption.
Qed.

(* a stored string fits the largest capacity *)
Theorem store_ok_fits : forall g st ans s st' ans' ev x,
  SInv g st -> SCap st ->
  sb_store g st ans s = (st', ans', ev, Some x) -> blen s <= top_cap g /\ blen s <= s_max g.
Proof.
  intros g st ans s st' ans' ev x [_ K] KC H.
  pose proof (store_cases g st ans s) as C. rewrite H in C.
  assert (G : forall st1 ans1 e1 st2 ans2 e2 cap,
            sb_start g st ans = (st1, ans1, e1) -> sb_appends g st1 ans1 s = (st2, ans2, e2) ->
            sb_scratch st2 = Some (cap, blen s, rev s) -> blen s <= top_cap g /\ blen s <= s_max g).
  { intros st1 ans1 e1 st2 ans2 e2 cap S1 S2 E2.
    pose proof (store_mid_ok _ _ _ _ _ _ _ _ _ _ S1 S2 K) as K2.
    pose proof (store_mid_scap _ _ _ _ _ _ _ _ _ _ S1 S2 KC) as KC2.
    unfold SCap in KC2. rewrite E2 in K2, KC2. destruct K2 as (_ & K2 & K3 & K4).
    assert (M : 31 <= s_max g) by lia.
    pose proof (reach_top g _ _ (top_cap_top g) (top_cap_reach g M) KC2 K3) as R.
    apply reach_le in R. lia. }
  inversion C; subst; eapply G; eassumption.
Qed.

(* with an allocator that never refuses, the store fails exactly when the string is longer than the largest
   capacity of the sequence 31, 63, 127, ... that the length field can hold *)
Theorem store_alltrue_iff : forall g st ans s,
  SInv g st -> SCap st -> 31 <= s_max g -> alltrue ans ->
  (snd (sb_store g st ans s) = None <-> top_cap g < blen s).
Proof.
  intros g st ans s K KC M A.
  destruct (sb_store g st ans s) as [[[st' ans'] ev] [x|]] eqn:H; cbn [snd].
  - split; [discriminate|]. intros L.
    destruct (store_ok_fits _ _ _ _ _ _ _ _ K KC H) as [L' _]. lia.
  - split; [|reflexivity]. intros _.
    destruct (store_fail_why _ _ _ _ _ _ _ K KC M H) as (pre & P1 & [P2|P2]); [|exact P2].
    assert (false = true) by (apply A; rewrite P1; apply in_or_app; left; exact P2). discriminate.
Qed.

(* when the length field holds 2^k - 1 (k >= 5: 8, 16 or 32-bit length fields), every string that fits the
   length field is stored *)
Theorem store_alltrue_pow : forall g k st ans s,
  SInv g st -> SCap st -> s_max g = 2 ^ k - 1 -> 5 <= k -> alltrue ans ->
  (snd (sb_store g st ans s) = None <-> s_max g < blen s).
Proof.
  intros g k st ans s K KC E Hk A. rewrite <- (top_cap_pow g k E).
  apply store_alltrue_iff; try assumption.
  rewrite E. assert (2 ^ 5 <= 2 ^ k) by (apply N.pow_le_mono_r; lia).
  change (2 ^ 5) with 32 in *. lia.
Qed.

Corollary store_alltrue_65535 : forall g st ans s,
  SInv g st -> SCap st -> s_max g = 65535 -> alltrue ans -> N.of_nat (length s) <= 65535 ->
  exists st' ans' ev x, sb_store g st ans s = (st', ans', ev, Some x).
Proof.
  intros g st ans s K KC E A L.
  pose proof (store_alltrue_pow g 16 st ans s K KC E ltac:(lia) A) as [H _].
  destruct (sb_store g st ans s) as [[[st' ans'] ev] [x|]]; [exists st', ans', ev, x; reflexivity|].
  specialize (H eq_refl). unfold blen in H. lia.
Qed.

Corollary store_alltrue_255 : forall g st ans s,
  SInv g st -> SCap st -> s_max g = 255 -> alltrue ans -> N.of_nat (length s) <= 255 ->
  exists st' ans' ev x, sb_store g st ans s = (st', ans', ev, Some x).
Proof.
  intros g st ans s K KC E A L.
  pose proof (store_alltrue_pow g 8 st ans s K KC E ltac:(lia) A) as [H _].
  destruct (sb_store g st ans s) as [[[st' ans'] ev] [x|]]; [exists st', ans', ev, x; reflexivity|].
  specialize (H eq_refl). unfold blen in H. lia.
Qed.

(* a length field too small for the initial node: nothing can be stored, and the allocator is never called *)
Theorem store_tiny : forall g st ans s,
  SInv g st -> s_max g < 31 -> sb_store g st ans s = (st, ans, [], None).
Proof.
  intros g st ans s [_ K] M.
  assert (E : sb_scratch st = None).
  { destruct (sb_scratch st) as [[[cap sz] rw]|]; [|reflexivity]. cbn [scratch_ok] in K. lia. }
  unfold sb_store. pose proof (start_cases g st ans) as SC.
  inversion SC; try congruence; try lia.
  rewrite appends_none by exact E. rewrite E. reflexivity.
Qed.

(* ------------------------------------------------------------------------------------------------ *)
(* 5. allocator traffic                                                                               *)

Lemma store_mid_count : forall g st ans s st1 ans1 e1 st2 ans2 e2,
  scratch_ok g (sb_scratch st) ->
  sb_start g st ans = (st1, ans1, e1) -> sb_appends g st1 ans1 s = (st2, ans2, e2) ->
  (length e1 <= 1)%nat /\ (e2 = [] \/ N.of_nat (length e2) + 3 <= N.log2 (blen s)).
Proof.
  intros g st ans s st1 ans1 e1 st2 ans2 e2 K S1 S2.
  split.
  - destruct (start_events _ _ _ _ _ _ S1) as [->|(_ & _ & b & ->)]; cbn [length]; lia.
  - pose proof (start_scratch_ok _ _ _ _ _ _ S1 K) as K1.
    destruct (start_shape _ _ _ _ _ _ S1) as [_ [N1|(cap & E1)]].
    + rewrite appends_none in S2 by exact N1. inversion S2; subst. left. reflexivity.
    + rewrite E1 in K1. destruct K1 as (_ & _ & _ & K1).
      destruct (appends_ev_count _ _ _ _ _ _ _ _ _ _ E1 S2) as [H|H]; [lia|left; exact H|right].
      rewrite N.add_0_l in H.
      assert (P : 0 < 2 ^ N.of_nat (length e2)) by apply pow2_pos.
      assert (L : 2 ^ (N.of_nat (length e2) + 3) <= blen s).
      { rewrite N.pow_add_r. change (2 ^ 3) with 8. nia. }
      apply N.log2_le_pow2; [|exact L].
      pose proof (pow2_pos (N.of_nat (length e2) + 3)). lia.
Qed.

Theorem store_events_count : forall g st ans s st' ans' ev r,
  SInv g st -> sb_store g st ans s = (st', ans', ev, r) ->
  N.of_nat (length ev) <= N.max 2 (N.log2 (blen s) - 1).
Proof.
  intros g st ans s st' ans' ev r [_ K] H.
  pose proof (store_cases g st ans s) as C. rewrite H in C.
  inversion C; subst;
    match goal with S1 : sb_start g st ans = _, S2 : sb_appends g _ _ s = _ |- _ =>
      destruct (store_mid_count _ _ _ _ _ _ _ _ _ _ K S1 S2) as [L1 [->|L2]] end;
    rewrite ?app_length; cbn [length]; lia.
Qed.

Corollary store_events_log : forall g st ans s st' ans' ev r,
  SInv g st -> sb_store g st ans s = (st', ans', ev, r) ->
  N.of_nat (length ev) <= N.log2 (blen s + 32).
Proof.
  intros g st ans s st' ans' ev r K H.
  pose proof (store_events_count _ _ _ _ _ _ _ _ K H) as L.
  assert (A : N.log2 32 <= N.log2 (blen s + 32)) by (apply N.log2_le_mono; lia).
  assert (B : N.log2 (blen s) <= N.log2 (blen s + 32)) by (apply N.log2_le_mono; lia).
  change (N.log2 32) with 5 in A. lia.
Qed.

Lemma log2_of_nat : forall n, (0 < n)%nat -> N.log2 (N.of_nat n) = N.of_nat (Nat.log2 n).
Proof.
  intros n H. apply N.log2_unique; [lia|]. destruct (Nat.log2_spec n H) as [A B]. split.
  - change 2 with (N.of_nat 2). rewrite <- Nat2N.inj_pow. lia.
  - rewrite <- Nat2N.inj_succ. change 2 with (N.of_nat 2). rewrite <- Nat2N.inj_pow. lia.
Qed.

Corollary store_events_log_nat : forall g st ans s st' ans' ev r,
  SInv g st -> sb_store g st ans s = (st', ans', ev, r) ->
  (length ev <= 2 * Nat.log2 (length s + 32) + 4)%nat.
Proof.
  intros g st ans s st' ans' ev r K H.
  pose proof (store_events_log _ _ _ _ _ _ _ _ K H) as L.
  assert (E : N.log2 (blen s + 32) = N.of_nat (Nat.log2 (length s + 32))).
  { unfold blen. replace (N.of_nat (length s) + 32) with (N.of_nat (length s + 32)) by lia.
    apply log2_of_nat. lia. }
  rewrite E in L. lia.
Qed.

(* every size handed to the allocator is the size of a node whose capacity fits the length field *)
Theorem store_events_ok : forall g st ans s st' ans' ev r,
  SInv g st -> sb_store g st ans s = (st', ans', ev, r) -> Forall (ev_ok g) ev.
Proof.
  intros g st ans s st' ans' ev r [_ K] H.
  pose proof (store_cases g st ans s) as C. rewrite H in C.
  assert (G : forall st1 ans1 e1 st2 ans2 e2,
            sb_start g st ans = (st1, ans1, e1) -> sb_appends g st1 ans1 s = (st2, ans2, e2) ->
            Forall (ev_ok g) (e1 ++ e2)).
  { intros st1 ans1 e1 st2 ans2 e2 S1 S2. apply Forall_app. split.
    - destruct (start_events _ _ _ _ _ _ S1) as [->|(M & _ & b & ->)]; constructor; [|constructor].
      exists 31. auto.
    - pose proof (start_scratch_ok _ _ _ _ _ _ S1 K) as K1.
      destruct (sb_scratch st1) as [[[cap sz] rw]|] eqn:E1.
      + destruct K1 as (_ & _ & K1 & _). eapply appends_ev_ok; eassumption.
      + rewrite appends_none in S2 by exact E1. inversion S2; subst. constructor. }
  inversion C; subst.
  - eapply G; eassumption.
  - eapply G; eassumption.
  - rewrite app_assoc. apply Forall_app. split; [eapply G; eassumption|].
    constructor; [|constructor].
    match goal with S1 : sb_start g st ans = _, S2 : sb_appends g _ _ s = _ |- _ =>
      pose proof (store_mid_ok _ _ _ _ _ _ _ _ _ _ S1 S2 K) as K2 end.
    match goal with E2 : sb_scratch _ = Some (cap, _, _) |- _ => rewrite E2 in K2 end.
    destruct K2 as (_ & K2 & K3 & _). exists cap, (blen s). repeat split; try assumption. lia.
Qed.

(* a string that was not in the pool: the scratch node becomes the pool node; the last event shrinks it to
   exactly the string *)
Theorem store_new_node : forall g st ans s st' ans' ev x,
  SInv g st -> pool_find s (sb_pool st) = None ->
  sb_store g st ans s = (st', ans', ev, Some x) ->
  x = fresh s /\ sb_pool st' = fresh s :: sb_pool st /\ sb_scratch st' = None /\
  exists e12 cap, ev = e12 ++ [EvRealloc (size_for g cap) (size_for g (N.of_nat (length s))) true] /\
                  N.of_nat (length s) <= cap /\ cap <= s_max g /\ 31 <= cap.
Proof.
  intros g st ans s st' ans' ev x [_ K] F H.
  pose proof (store_cases g st ans s) as C. rewrite H in C.
  inversion C; subst; [congruence|].
  cbn [mk sb_pool sb_scratch]. split; [reflexivity|]. split; [reflexivity|]. split; [reflexivity|].
  exists (e1 ++ e2), cap. split; [rewrite app_assoc; reflexivity|].
  match goal with S1 : sb_start g st ans = _, S2 : sb_appends g _ _ s = _ |- _ =>
    pose proof (store_mid_ok _ _ _ _ _ _ _ _ _ _ S1 S2 K) as K2 end.
  match goal with E2 : sb_scratch _ = Some (cap, _, _) |- _ => rewrite E2 in K2 end.
  destruct K2 as (_ & K2 & K3 & K4). unfold blen in K2. auto.
Qed.

(* ------------------------------------------------------------------------------------------------ *)
(* 6. dereference                                                                                     *)

Theorem deref_last_ref : forall g st s k x,
  pool_find s (sb_pool st) = Some k -> nth_error (sb_pool st) k = Some x -> n_refs x = 1 ->
  sb_deref g st s = (mk (firstn k (sb_pool st) ++ skipn (S k) (sb_pool st)) (sb_scratch st),
                     [EvFree (size_for g (n_len x))]).
Proof.
  intros g st s k x F Hx R. unfold sb_deref. rewrite (deref_last g s _ k x F Hx R). reflexivity.
Qed.

Theorem deref_shared_ref : forall g st s k x,
  pool_find s (sb_pool st) = Some k -> nth_error (sb_pool st) k = Some x -> n_refs x <> 1 ->
  sb_deref g st s = (mk (firstn k (sb_pool st) ++ unbump x :: skipn (S k) (sb_pool st)) (sb_scratch st), []).
Proof.
  intros g st s k x F Hx R. unfold sb_deref. rewrite (deref_shared g s _ k x F Hx R). reflexivity.
Qed.

Theorem deref_absent_ref : forall g st s,
  ~ In s (map n_content (sb_pool st)) -> sb_deref g st s = (st, []).
Proof.
  intros g st s H. apply pool_find_none in H. unfold sb_deref. rewrite (deref_absent g s _ H).
  destruct st; reflexivity.
Qed.

(* the same, for a node of a pool that satisfies the invariant: the node dereferenced is that very node *)
Lemma pool_find_node : forall g st x, SInv g st -> In x (sb_pool st) ->
  exists k, pool_find (n_content x) (sb_pool st) = Some k /\ nth_error (sb_pool st) k = Some x.
Proof.
  intros g st x [[_ ND] _] I.
  destruct (pool_find_in (n_content x) (sb_pool st) (in_map _ _ _ I)) as (k & F).
  exists k. split; [exact F|].
  destruct (In_nth_error _ _ I) as (j & Hj).
  rewrite <- (pool_find_unique _ _ _ _ _ ND F Hj eq_refl). exact Hj.
Qed.

Theorem deref_node_last : forall g st x, SInv g st -> In x (sb_pool st) -> n_refs x = 1 ->
  exists k, nth_error (sb_pool st) k = Some x /\
    sb_deref g st (n_content x) =
      (mk (firstn k (sb_pool st) ++ skipn (S k) (sb_pool st)) (sb_scratch st), [EvFree (size_for g (n_len x))]).
Proof.
  intros g st x K I R. destruct (pool_find_node g st x K I) as (k & F & Hk).
  exists k. split; [exact Hk|]. apply deref_last_ref; assumption.
Qed.

Theorem deref_node_shared : forall g st x, SInv g st -> In x (sb_pool st) -> 1 < n_refs x ->
  exists k, nth_error (sb_pool st) k = Some x /\
    sb_deref g st (n_content x) =
      (mk (firstn k (sb_pool st) ++ unbump x :: skipn (S k) (sb_pool st)) (sb_scratch st), []).
Proof.
  intros g st x K I R. destruct (pool_find_node g st x K I) as (k & F & Hk).
  exists k. split; [exact Hk|]. apply deref_shared_ref; try assumption. lia.
Qed.

(* store, then dereference: the pool is as before *)
Definition pool_drop (g : sgeom) (s : bytes) (p : list snode) : list snode := fst (pool_deref g s p).

Lemma deref_pool : forall g st s, sb_pool (fst (sb_deref g st s)) = pool_drop g s (sb_pool st).
Proof.
  intros g st s. unfold sb_deref, pool_drop. destruct (pool_deref g s (sb_pool st)) as [p' e]. reflexivity.
Qed.

Lemma deref_scratch : forall g st s, sb_scratch (fst (sb_deref g st s)) = sb_scratch st.
Proof.
  intros g st s. unfold sb_deref. destruct (pool_deref g s (sb_pool st)) as [p' e]. reflexivity.
Qed.

Lemma drop_addref : forall g s p k, Forall (node_ok g) p -> pool_find s p = Some k ->
  pool_drop g s (pool_addref k p) = p.
Proof.
  intros g s. unfold pool_drop. induction p as [|x r IH]; intros k F H; [discriminate|].
  inversion F as [|? ? Fx Fr]; subst.
  cbn [pool_find] in H. destruct (bytes_eqb s (n_content x)) eqn:E.
  - inversion H; subst. cbn [pool_addref pool_deref]. fold (bump x). rewrite content_bump, E.
    destruct Fx as (_ & _ & R).
    assert (Q : (n_refs (bump x) =? 1) = false) by (apply N.eqb_neq; cbn [bump n_refs]; lia).
    rewrite Q. cbn [fst]. fold (unbump (bump x)). rewrite unbump_bump. reflexivity.
  - destruct (pool_find s r) as [k'|] eqn:F'; [|discriminate]. inversion H; subst.
    cbn [pool_addref pool_deref]. rewrite E. specialize (IH k' Fr eq_refl).
    destruct (pool_deref g s (pool_addref k' r)) as [r' e]. cbn [fst] in *. congruence.
Qed.

Lemma drop_put : forall g s p, Forall (node_ok g) p -> pool_drop g s (pool_put s p) = p.
Proof.
  intros g s p F. unfold pool_put. destruct (pool_find s p) as [k|] eqn:E.
  - apply drop_addref; assumption.
  - unfold pool_drop. cbn [pool_deref]. rewrite content_fresh, sb_beq_refl. reflexivity.
Qed.

Theorem store_deref_1 : forall g st ans s st' ans' ev x,
  SInv g st -> sb_store g st ans s = (st', ans', ev, Some x) ->
  sb_pool (fst (sb_deref g st' s)) = sb_pool st.
Proof.
  intros g st ans s st' ans' ev x [[F _] _] H.
  destruct (store_result _ _ _ _ _ _ _ _ H) as [P _].
  rewrite deref_pool, P. apply drop_put. exact F.
Qed.

(* n successful stores of the same string ... *)
Fixpoint store_n (g : sgeom) (st : sbs) (ans : list bool) (s : bytes) (n : nat) : option (sbs * list bool) :=
  match n with
  | O => Some (st, ans)
  | S n' => match sb_store g st ans s with
            | (st', ans', _, Some _) => store_n g st' ans' s n'
            | _ => None
            end
  end.
(* ... then n dereferences *)
Fixpoint deref_n (g : sgeom) (st : sbs) (s : bytes) (n : nat) : sbs :=
  match n with
  | O => st
  | S n' => fst (sb_deref g (deref_n g st s n') s)
  end.

Theorem store_deref_n : forall g s n st ans st' ans',
  SInv g st -> store_n g st ans s n = Some (st', ans') ->
  sb_pool (deref_n g st' s n) = sb_pool st.
Proof.
  intros g s. induction n as [|n IH]; intros st ans st' ans' K H; cbn [store_n deref_n] in *.
  - inversion H; subst. reflexivity.
  - destruct (sb_store g st ans s) as [[[st1 ans1] ev] [x|]] eqn:S1; [|discriminate].
    rewrite deref_pool.
    rewrite (IH st1 ans1 st' ans' (store_SInv _ _ _ _ _ _ _ _ K S1) H).
    rewrite <- deref_pool. eapply store_deref_1; eassumption.
Qed.

(* further stores of the string held by the newest node only count references *)
Lemma store_n_head : forall g s m st1 ans1 x1 rest st' ans',
  SInv g st1 -> sb_pool st1 = x1 :: rest -> n_content x1 = s ->
  store_n g st1 ans1 s m = Some (st', ans') ->
  exists x, sb_pool st' = x :: rest /\ n_len x = n_len x1 /\ n_data x = n_data x1 /\
            n_refs x = n_refs x1 + N.of_nat m.
Proof.
  intros g s. induction m as [|m IHm]; intros st1 ans1 x1 rest st' ans' K1 P C H; cbn [store_n] in H.
  - inversion H; subst. exists x1. rewrite N.add_0_r. auto.
  - destruct (sb_store g st1 ans1 s) as [[[st2 ans2] ev2] [x2|]] eqn:S2; [|discriminate].
    assert (F1 : pool_find s (sb_pool st1) = Some O).
    { rewrite P. cbn [pool_find]. rewrite C, sb_beq_refl. reflexivity. }
    assert (Y1 : nth_error (sb_pool st1) O = Some x1) by (rewrite P; reflexivity).
    destruct (store_shared _ _ _ _ _ _ _ _ _ _ F1 Y1 S2) as (_ & P2 & _).
    rewrite P in P2. cbn [pool_addref] in P2. fold (bump x1) in P2.
    destruct (IHm st2 ans2 (bump x1) rest st' ans' (store_SInv _ _ _ _ _ _ _ _ K1 S2) P2 C H)
      as (x & Q1 & Q2 & Q3 & Q4).
    exists x. repeat split; try assumption. rewrite Q4. cbn [bump n_refs]. lia.
Qed.

(* after n >= 1 stores of a string that was not in the pool there is one node for it, with n references *)
Theorem store_n_refs : forall g s n st ans st' ans',
  SInv g st -> pool_find s (sb_pool st) = None ->
  store_n g st ans s (S n) = Some (st', ans') ->
  sb_pool st' = {| n_len := blen s; n_data := s; n_refs := N.of_nat (S n) |} :: sb_pool st.
Proof.
  intros g s n st ans st' ans' K F H. cbn [store_n] in H.
  destruct (sb_store g st ans s) as [[[st1 ans1] ev] [x|]] eqn:S1; [|discriminate].
  destruct (store_new_node _ _ _ _ _ _ _ _ K F S1) as (-> & P & _).
  destruct (store_n_head g s n st1 ans1 (fresh s) (sb_pool st) st' ans'
              (store_SInv _ _ _ _ _ _ _ _ K S1) P (content_fresh s) H) as (x & Q1 & Q2 & Q3 & Q4).
  rewrite Q1. f_equal. destruct x as [l d r]. cbn [fresh n_len n_data n_refs] in *. subst. f_equal. lia.
Qed.

(* ------------------------------------------------------------------------------------------------ *)
(* 7. examples (StringNode header of 14 bytes, 16-bit length field)                                   *)

Definition ex_g : sgeom := {| s_hdr := 14; s_max := 65535 |}.
Definition ex_hello : bytes := [104; 101; 108; 108; 111].
Definition ex_r1 := sb_store ex_g sb_init [] ex_hello.
Definition ex_r2 := sb_store ex_g (fst (fst (fst ex_r1))) [] ex_hello.
Definition ex_r3 := sb_store ex_g (fst (fst (fst ex_r2))) [] (repeat 97 31).
Definition ex_r4 := sb_store ex_g (fst (fst (fst ex_r3))) [] (repeat 98 32).

(* "hello", "hello" again, a 31-character string, a 32-character string: the second store finds the string and
   keeps the scratch node; the third reuses it and shrinks it to the same size; the fourth grows once *)
Example ex_events :
  snd (fst ex_r1) = [EvAlloc 46 true; EvRealloc 46 20 true] /\
  snd (fst ex_r2) = [EvAlloc 46 true] /\
  snd (fst ex_r3) = [EvRealloc 46 46 true] /\
  snd (fst ex_r4) = [EvAlloc 46 true; EvRealloc 46 78 true; EvRealloc 78 47 true].
Proof. vm_compute. repeat split; reflexivity. Qed.

Example ex_shared :
  snd ex_r2 = Some {| n_len := 5; n_data := ex_hello; n_refs := 2 |} /\
  sb_scratch (fst (fst (fst ex_r2))) = Some (31, 5, rev ex_hello) /\
  map n_refs (sb_pool (fst (fst (fst ex_r4)))) = [1; 1; 2].
Proof. vm_compute. repeat split; reflexivity. Qed.

(* the allocator refuses the growth: the node is freed, nothing is stored, the pool is untouched *)
Example ex_refused :
  sb_store ex_g sb_init [true; false] (repeat 98 32) =
    (sb_init, [], [EvAlloc 46 true; EvRealloc 46 78 false; EvFree 46], None).
Proof. vm_compute. reflexivity. Qed.

(* an 8-bit length field: 255 characters are stored, 256 are not *)
Example ex_255 :
  let g8 := {| s_hdr := 6; s_max := 255 |} in
  (exists x, snd (sb_store g8 sb_init [] (repeat 97 255)) = Some x /\ n_len x = 255) /\
  snd (sb_store g8 sb_init [] (repeat 97 256)) = None /\
  snd (fst (sb_store g8 sb_init [] (repeat 97 256))) =
    [EvAlloc 38 true; EvRealloc 38 70 true; EvRealloc 70 134 true; EvRealloc 134 262 true; EvFree 262].
Proof. vm_compute. split; [eexists; split; reflexivity|split; reflexivity]. Qed.

(* a length field that is not of the form 2^k - 1 wastes the top of its range: with maxLength = 100 the
   capacities are 31 and 63 only, and a 64-character string is refused although 64 <= 100 *)
Example ex_not_pow :
  let g100 := {| s_hdr := 6; s_max := 100 |} in
  top_cap g100 = 63 /\
  snd (sb_store g100 sb_init [] (repeat 97 64)) = None /\
  (exists x, snd (sb_store g100 sb_init [] (repeat 97 63)) = Some x).
Proof. vm_compute. split; [reflexivity|split; [reflexivity|eexists; reflexivity]]. Qed.
