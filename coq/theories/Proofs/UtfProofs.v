(* UtfProofs.v — sweeps over the complete finite domains of the UTF-16 / UTF-8 / escape leaf
   functions. *)
From Coq Require Import NArith ZArith List Bool Lia.
From AJ Require Import Model.Base Model.Utf Spec.Utf8Spec Proofs.Sweep.
Local Open Scope N_scope.

(* all 1 114 112 code points (2^21 candidates, guarded) *)
Definition utf8_check (cp : N) : bool :=
  if cp <? 0x110000 then bytes_eqb (encode_codepoint cp) (utf8_encode cp) else true.

Lemma utf8_sweep : all_below_pow2 21 utf8_check = true.
Proof. vm_cast_no_check (eq_refl true). Qed.

Lemma encode_codepoint_correct : forall cp, cp < 0x110000 -> encode_codepoint cp = utf8_encode cp.
Proof.
  intros cp H.
  assert (H2 : cp < 2 ^ N.of_nat 21) by (simpl; lia).
  pose proof (all_below_pow2_spec 21 utf8_check utf8_sweep cp H2) as E.
  unfold utf8_check in E. apply N.ltb_lt in H. rewrite H in E. apply bytes_eqb_eq. exact E.
Qed.

(* a BMP scalar is complete after one unit and is its own code point *)
Definition bmp_check (u : N) : bool :=
  if is_surrogate u then true
  else let '(b, s) := cp_append cp_init u in b && (cp_val s =? u).
Lemma bmp_sweep : all_below_pow2 16 bmp_check = true.
Proof. vm_cast_no_check (eq_refl true). Qed.

Lemma cp_append_bmp : forall st u, u < 65536 -> is_surrogate u = false ->
  cp_append st u = (true, {| hi_sur := hi_sur st; cp_val := u |}).
Proof.
  intros st u Hu Hs. unfold cp_append.
  assert (Hh : is_high_surrogate u = false).
  { unfold is_surrogate in Hs. unfold is_high_surrogate.
    destruct (0xD800 <=? u) eqn:A; destruct (u <? 0xDC00) eqn:B; destruct (u <? 0xE000) eqn:C;
      simpl in *; try reflexivity; try discriminate.
    apply N.ltb_lt in B. apply N.ltb_ge in C. lia. }
  assert (Hl : is_low_surrogate u = false).
  { unfold is_surrogate in Hs. unfold is_low_surrogate.
    destruct (0xDC00 <=? u) eqn:A; destruct (0xD800 <=? u) eqn:B; destruct (u <? 0xE000) eqn:C;
      simpl in *; try reflexivity; try discriminate.
    apply N.leb_le in A. apply N.leb_gt in B. lia. }
  rewrite Hh, Hl. reflexivity.
Qed.

(* high surrogate: remembered as its low ten bits, nothing emitted *)
Definition high_check (u : N) : bool :=
  if is_high_surrogate u then (N.land u 0x3FF =? u - 0xD800) && (u - 0xD800 <? 1024) else true.
Lemma high_sweep : all_below_pow2 16 high_check = true.
Proof. vm_cast_no_check (eq_refl true). Qed.

Definition low_check (u : N) : bool :=
  if is_low_surrogate u then (N.land u 0x3FF =? u - 0xDC00) && (u - 0xDC00 <? 1024)
                              && negb (is_high_surrogate u) else true.
Lemma low_sweep : all_below_pow2 16 low_check = true.
Proof. vm_cast_no_check (eq_refl true). Qed.

Definition lor_check (a : N) : bool :=
  all_below_pow2 10 (fun b => N.lor (N.shiftl a 10) b =? a * 1024 + b).
Lemma lor_sweep : all_below_pow2 10 lor_check = true.
Proof. vm_cast_no_check (eq_refl true). Qed.

Lemma lor_shift_add : forall a b, a < 1024 -> b < 1024 -> N.lor (N.shiftl a 10) b = a * 1024 + b.
Proof.
  intros a b Ha Hb.
  pose proof (all_below_pow2_spec 10 lor_check lor_sweep a Ha) as E. unfold lor_check in E.
  pose proof (all_below_pow2_spec 10 _ E b Hb) as E2. apply N.eqb_eq in E2. exact E2.
Qed.

Lemma range_high : forall h, 0xD800 <= h < 0xDC00 -> is_high_surrogate h = true.
Proof. intros h [A B]. unfold is_high_surrogate. apply andb_true_intro. split; [apply N.leb_le|apply N.ltb_lt]; assumption. Qed.
Lemma range_low : forall l, 0xDC00 <= l < 0xE000 -> is_low_surrogate l = true.
Proof. intros l [A B]. unfold is_low_surrogate. apply andb_true_intro. split; [apply N.leb_le|apply N.ltb_lt]; assumption. Qed.

(* every one of the 1024 x 1024 surrogate pairs *)
Lemma cp_append_pair : forall st h l,
  0xD800 <= h < 0xDC00 -> 0xDC00 <= l < 0xE000 ->
  let '(b1, s1) := cp_append st h in
  let '(b2, s2) := cp_append s1 l in
  b1 = false /\ b2 = true /\ cp_val s2 = pair_codepoint h l /\ cp_val s2 < 0x110000.
Proof.
  intros st h l Hh Hl.
  assert (Hh16 : h < 2 ^ N.of_nat 16) by (simpl; lia).
  assert (Hl16 : l < 2 ^ N.of_nat 16) by (simpl; lia).
  pose proof (all_below_pow2_spec 16 _ high_sweep h Hh16) as EH. unfold high_check in EH.
  pose proof (all_below_pow2_spec 16 _ low_sweep l Hl16) as EL. unfold low_check in EL.
  rewrite (range_high h Hh) in EH. rewrite (range_low l Hl) in EL.
  apply andb_prop in EH as [EH1 EH2]. apply N.eqb_eq in EH1. apply N.ltb_lt in EH2.
  apply andb_prop in EL as [EL12 EL3]. apply andb_prop in EL12 as [EL1 EL2].
  apply N.eqb_eq in EL1. apply N.ltb_lt in EL2. apply negb_true_iff in EL3.
  unfold cp_append at 1. rewrite (range_high h Hh).
  unfold cp_append. cbn [hi_sur cp_val]. rewrite EL3, (range_low l Hl). cbn [cp_val].
  rewrite EH1, EL1, lor_shift_add by assumption.
  unfold pair_codepoint, wrapN. rewrite N.land_ones.
  rewrite N.mod_small by (change (2 ^ 32) with 4294967296; lia).
  repeat split; lia.
Qed.

(* escape tables: the seven escaped bytes round-trip, every other byte is written verbatim
   (NUL as \u0000) *)
Definition esc_check (c : N) : bool :=
  let e := escape_char c in
  if e =? 0 then negb (c =? 34) && negb (c =? 92)
  else negb (e =? 117) && (unescape_char e =? c) && negb (c =? 0).
Lemma esc_sweep : all_bytes esc_check = true.
Proof. vm_cast_no_check (eq_refl true). Qed.

Lemma escape_char_zero : forall c, c < 256 -> escape_char c = 0 -> c <> 34 /\ c <> 92.
Proof.
  intros c H E. pose proof (all_bytes_spec _ esc_sweep c H) as S. unfold esc_check in S.
  rewrite E in S. simpl in S. apply andb_prop in S as [A B].
  apply negb_true_iff in A, B. apply N.eqb_neq in A, B. auto.
Qed.

Lemma escape_char_nonzero : forall c, c < 256 -> escape_char c <> 0 ->
  escape_char c <> 117 /\ unescape_char (escape_char c) = c /\ c <> 0.
Proof.
  intros c H E. pose proof (all_bytes_spec _ esc_sweep c H) as S. unfold esc_check in S.
  apply N.eqb_neq in E. rewrite E in S.
  apply andb_prop in S as [AB C]. apply andb_prop in AB as [A B].
  apply negb_true_iff in A, C. apply N.eqb_neq in A, C. apply N.eqb_eq in B. auto.
Qed.

(* only the quote, the backslash, BS FF LF CR TAB and NUL are changed by writeChar *)
Definition named (c : N) : bool :=
  (c =? 34) || (c =? 92) || (c =? 8) || (c =? 12) || (c =? 10) || (c =? 13) || (c =? 9) || (c =? 0).
Definition only_named_check (c : N) : bool :=
  if named c then true else bytes_eqb (write_char c) [c].
Lemma only_named_sweep : all_bytes only_named_check = true.
Proof. vm_cast_no_check (eq_refl true). Qed.

Lemma write_char_verbatim : forall c, c < 256 -> named c = false -> write_char c = [c].
Proof.
  intros c H N. pose proof (all_bytes_spec _ only_named_sweep c H) as S.
  unfold only_named_check in S. rewrite N in S. apply bytes_eqb_eq. exact S.
Qed.

(* decodeHex agrees with the hex digit value on hex digits (both cases) and rejects (> 15)
   every other byte *)
Definition hex_check (c : N) : bool :=
  match hex_value c with
  | Some v => decode_hex c =? v
  | None => 0x0F <? decode_hex c
  end.
Lemma hex_sweep : all_bytes hex_check = true.
Proof. vm_cast_no_check (eq_refl true). Qed.

Lemma decode_hex_digit : forall c v, c < 256 -> hex_value c = Some v -> decode_hex c = v /\ v < 16.
Proof.
  intros c v H E. pose proof (all_bytes_spec _ hex_sweep c H) as S. unfold hex_check in S.
  rewrite E in S. apply N.eqb_eq in S. split; [exact S|].
  unfold hex_value in E.
  destruct ((48 <=? c) && (c <=? 57)) eqn:A.
  { injection E as <-. apply andb_prop in A as [A1 A2]. apply N.leb_le in A1, A2. lia. }
  destruct ((65 <=? c) && (c <=? 70)) eqn:B.
  { injection E as <-. apply andb_prop in B as [A1 A2]. apply N.leb_le in A1, A2. lia. }
  destruct ((97 <=? c) && (c <=? 102)) eqn:C; [|discriminate].
  injection E as <-. apply andb_prop in C as [A1 A2]. apply N.leb_le in A1, A2. lia.
Qed.


Lemma decode_hex_nondigit : forall c, c < 256 -> hex_value c = None -> 0x0F < decode_hex c.
Proof.
  intros c H E. pose proof (all_bytes_spec _ hex_sweep c H) as S. unfold hex_check in S.
  rewrite E in S. apply N.ltb_lt in S. exact S.
Qed.
