(* GenAgree.v — the hand-written model coincides with the tables regenerated from /repo by
   tools/translate.py (tie T).  Each lemma is a computation over the COMPLETE domain of the
   leaf function (the probe evaluated the compiled C++ function on that same domain), so a
   source change that alters any of these functions or constants makes this file fail. *)
From Coq Require Import NArith ZArith List Bool Lia.
From AJ Require Import Model.Base Model.FloatModel Model.Value Model.Utf Model.NumParse Model.JsonParse.
From AJ Require Import Proofs.Sweep Gen.Tables Gen.Config.
Local Open Scope N_scope.

Definition tab (t : list N) (c : N) : N := nth (N.to_nat c) t 0.
Definition b2n (b : bool) : N := if b then 1 else 0.

(* run-length encoded predicate over code units: true between the 1st and 2nd edge, ... *)
Fixpoint in_edges (u : N) (edges : list N) : bool :=
  match edges with
  | [] => false
  | e :: t => if e <=? u then negb (in_edges u t) else false
  end.

Lemma escape_char_gen : forall c, c < 256 -> escape_char c = tab gen_escape_char c.
Proof. intros c H. apply N.eqb_eq. revert c H. apply all_bytes_spec. vm_compute. reflexivity. Qed.

Lemma unescape_char_gen : forall c, c < 256 -> unescape_char c = tab gen_unescape_char c.
Proof. intros c H. apply N.eqb_eq. revert c H. apply all_bytes_spec. vm_compute. reflexivity. Qed.

Lemma decode_hex_gen : forall c, c < 256 -> decode_hex c = tab gen_decode_hex c.
Proof. intros c H. apply N.eqb_eq. revert c H. apply all_bytes_spec. vm_compute. reflexivity. Qed.

Lemma is_quote_gen : forall c, c < 256 -> b2n (is_quote c) = tab gen_is_quote c.
Proof. intros c H. apply N.eqb_eq. revert c H. apply all_bytes_spec. vm_compute. reflexivity. Qed.

Lemma can_be_in_non_quoted_string_gen :
  forall c, c < 256 -> b2n (can_be_in_non_quoted_string c) = tab gen_can_be_in_non_quoted_string c.
Proof. intros c H. apply N.eqb_eq. revert c H. apply all_bytes_spec. vm_compute. reflexivity. Qed.

Lemma can_be_in_number_gen :
  forall c, c < 256 -> b2n (can_be_in_number default_cfg c) = tab gen_can_be_in_number c.
Proof. intros c H. apply N.eqb_eq. revert c H. apply all_bytes_spec. vm_compute. reflexivity. Qed.

Definition nan_cfg := {| decode_unicode := true; enable_comments := false; enable_nan := true;
                         enable_inf := false; use_double := true |}.
Lemma can_be_in_number_nan_gen :
  forall c, c < 256 -> b2n (can_be_in_number nan_cfg c) = tab gen_can_be_in_number_nan c.
Proof. intros c H. apply N.eqb_eq. revert c H. apply all_bytes_spec. vm_compute. reflexivity. Qed.

Lemma write_char_gen : forall c, c < 256 -> write_char c = nth (N.to_nat c) gen_write_char [].
Proof.
  intros c H.
  apply bytes_eqb_eq. revert c H. apply all_bytes_spec. vm_compute. reflexivity.
Qed.

Lemma is_high_surrogate_gen :
  forall u, u < 65536 -> is_high_surrogate u = in_edges u gen_is_high_surrogate_edges.
Proof.
  intros u H. apply eqb_prop. revert u H.
  change 65536 with (2 ^ N.of_nat 16). apply all_below_pow2_spec. vm_compute. reflexivity.
Qed.

Lemma is_low_surrogate_gen :
  forall u, u < 65536 -> is_low_surrogate u = in_edges u gen_is_low_surrogate_edges.
Proof.
  intros u H. apply eqb_prop. revert u H.
  change 65536 with (2 ^ N.of_nat 16). apply all_below_pow2_spec. vm_compute. reflexivity.
Qed.

Local Open Scope Z_scope.
Lemma pow10_tables_gen :
  pos_pow10_64 = gen_pos_pow10_64 /\ neg_pow10_64 = gen_neg_pow10_64 /\
  pos_pow10_32 = gen_pos_pow10_32 /\ neg_pow10_32 = gen_neg_pow10_32.
Proof. repeat split; reflexivity. Qed.

Lemma parse_constants_gen :
  gen_number_buffer_size = 64 /\ gen_mantissa_bits_64 = 52 /\ gen_exponent_max_64 = 308 /\
  gen_mantissa_bits_32 = 23 /\ gen_exponent_max_32 = 38 /\
  gen_sizeof_exponent_type_64 = 2 /\ gen_sizeof_exponent_type_32 = 1.
Proof. repeat split; reflexivity. Qed.
