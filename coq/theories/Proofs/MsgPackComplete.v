(* MsgPackComplete.v — the MessagePack reader (Model/MsgPack.v) against the format (Spec/MsgPackSpec.v).
   Part A  safety on ARBITRARY bytes, any filter, any nesting budget, any configuration:
           mp_reads_bounded, mp_ok_nesting, mp_limit_monotone, mp_tower_too_deep(_map)
   Part B  completeness: every legal encoding (any width) decodes to its value: mp_decode_complete,
           mp_run_complete; strict prefixes are incomplete: mp_prefix_incomplete_gen;
           the serializer's output is a legal encoding: mp_ser_legal. *)
From Coq Require Import ZArith NArith List Bool Lia.
From Coq Require Import Floats.SpecFloat.
From AJ Require Import Model.Base Model.FloatModel Model.Value Model.JsonParse Model.MsgPack.
From AJ Require Import Proofs.MsgPackRT Spec.MsgPackSpec.
Local Open Scope Z_scope.

(* ------------------------------------------------------------------------------------- *)
(* Part A — safety on arbitrary input *)

(* the reader moved forward over [c]: what it consumed is a prefix of what it was given, and the
   byte counter advanced by exactly that much *)
Definition adv (r r' : mrd) : Prop :=
  exists c, m_rest r = c ++ m_rest r' /\ m_reads r' = (m_reads r + N.of_nat (length c))%N.

Lemma adv_refl : forall r, adv r r.
Proof. intros r. exists []. cbn [app length]. split; [reflexivity|lia]. Qed.

Lemma adv_trans : forall r1 r2 r3, adv r1 r2 -> adv r2 r3 -> adv r1 r3.
Proof.
  intros r1 r2 r3 (c1 & E1 & K1) (c2 & E2 & K2). exists (c1 ++ c2).
  rewrite <- app_assoc, <- E2. split; [exact E1|]. rewrite app_length. lia.
Qed.

Lemma read_n_adv : forall n r o r', read_n n r = (o, r') -> adv r r'.
Proof.
  intros n r o r' H. unfold read_n in H.
  destruct (Nat.eqb (length (firstn n (m_rest r))) n); inversion H; subst;
    exists (firstn n (m_rest r)); cbn [m_rest m_reads];
    (split; [symmetry; apply firstn_skipn|reflexivity]).
Qed.

Lemma read_z_adv : forall n r o r', read_z n r = (o, r') -> adv r r'.
Proof.
  intros n r o r' H. unfold read_z in H.
  destruct (n <=? Z.of_nat (length (m_rest r))); [exact (read_n_adv _ _ _ _ H)|].
  inversion H; subst. exists (m_rest r). cbn [m_rest m_reads]. rewrite app_nil_r. split; reflexivity.
Qed.

Lemma mp_skip_adv : forall n r e r', mp_skip n r = (e, r') -> adv r r'.
Proof.
  intros n r e r' H. unfold mp_skip in H.
  destruct (read_z n r) as [[p|] r1] eqn:E; inversion H; subst; exact (read_z_adv _ _ _ _ E).
Qed.

Lemma read_key_adv : forall r e key r', mp_read_key r = (e, key, r') -> adv r r'.
Proof.
  intros r e key r' H. unfold mp_read_key in H.
  destruct (read_n 1 r) as [o r1] eqn:E1. pose proof (read_n_adv _ _ _ _ E1) as A1.
  destruct o as [[|c [|c' t]]|]; try (inversion H; subst; exact A1).
  cbv zeta in H.
  destruct (Z.land (Z.of_N c) 0xE0 =? 0xA0).
  { destruct (read_z (Z.land (Z.of_N c) 0x1F) r1) as [[s|] r2] eqn:E2;
      inversion H; subst; exact (adv_trans _ _ _ A1 (read_z_adv _ _ _ _ E2)). }
  destruct ((0xD9 <=? Z.of_N c) && (Z.of_N c <=? 0xDB)); [|inversion H; subst; exact A1].
  destruct (read_n (Z.to_nat (2 ^ (Z.of_N c - 0xD9))) r1) as [[l|] r2] eqn:E2;
    pose proof (adv_trans _ _ _ A1 (read_n_adv _ _ _ _ E2)) as A2; [|inversion H; subst; exact A2].
  destruct (max_string_length <? be_value l 0); [inversion H; subst; exact A2|].
  destruct (read_z (be_value l 0) r2) as [[s|] r3] eqn:E3;
    inversion H; subst; exact (adv_trans _ _ _ A2 (read_z_adv _ _ _ _ E3)).
Qed.

(* what is known about the parser one level down: it only moves forward, a value it accepts nests
   at most [n] deep, and unless it ran out of budget the parser [pv2] does the same *)
Definition pv_good (n : nat) (pv1 pv2 : pvT) : Prop :=
  forall f d r e v r', pv1 f d r = (e, v, r') ->
    adv r r' /\ (e = Ok -> (nesting v <= n)%nat) /\ (e <> TooDeep -> pv2 f d r = (e, v, r')).

Lemma array_loop_walk : forall n pv1 pv2, pv_good n pv1 pv2 ->
  forall cnt ef keep acc r e l r',
  mp_array_loop pv1 cnt ef keep acc r = (e, l, r') ->
  adv r r' /\
  (e = Ok -> Forall (fun x => (nesting x <= n)%nat) acc -> Forall (fun x => (nesting x <= n)%nat) l) /\
  (e <> TooDeep -> mp_array_loop pv2 cnt ef keep acc r = (e, l, r')).
Proof.
  intros n pv1 pv2 G. induction cnt as [|cnt IH]; intros ef keep acc r e l r' H; cbn [mp_array_loop] in *.
  - inversion H; subst. split; [apply adv_refl|]. split; [auto|reflexivity].
  - cbv zeta in *.
    destruct (pv1 ef (f_allow ef) r) as [[e1 v1] r1] eqn:E1.
    destruct (G _ _ _ _ _ _ E1) as (A1 & N1 & M1).
    destruct e1;
      try (inversion H; subst; split; [exact A1|]; split; [discriminate|];
           intros Hne; rewrite (M1 Hne); reflexivity).
    destruct (IH _ _ _ _ _ _ _ H) as (A2 & N2 & M2).
    split; [exact (adv_trans _ _ _ A1 A2)|]. split.
    + intros He Hacc. apply N2; [exact He|].
      destruct (f_allow ef); [|exact Hacc].
      apply Forall_app. split; [exact Hacc|]. constructor; [apply N1; reflexivity|constructor].
    + intros Hne. rewrite (M1 ltac:(discriminate)). apply M2. exact Hne.
Qed.

Lemma object_loop_walk : forall n pv1 pv2, pv_good n pv1 pv2 ->
  forall cnt f acc r e l r',
  mp_object_loop pv1 cnt f acc r = (e, l, r') ->
  adv r r' /\
  (e = Ok -> Forall (fun kv => (nesting (snd kv) <= n)%nat) acc ->
             Forall (fun kv => (nesting (snd kv) <= n)%nat) l) /\
  (e <> TooDeep -> mp_object_loop pv2 cnt f acc r = (e, l, r')).
Proof.
  intros n pv1 pv2 G. induction cnt as [|cnt IH]; intros f acc r e l r' H; cbn [mp_object_loop] in *.
  - inversion H; subst. split; [apply adv_refl|]. split; [auto|reflexivity].
  - destruct (mp_read_key r) as [[ek key] rk] eqn:Ek.
    pose proof (read_key_adv _ _ _ _ Ek) as Ak.
    destruct ek;
      try (inversion H; subst; split; [exact Ak|]; split; [discriminate|reflexivity]).
    cbv zeta in *.
    destruct (pv1 (f_member f key) (f_allow (f_member f key)) rk) as [[e1 v1] r1] eqn:E1.
    destruct (G _ _ _ _ _ _ E1) as (A1 & N1 & M1).
    pose proof (adv_trans _ _ _ Ak A1) as A01.
    destruct e1;
      try (inversion H; subst; split; [exact A01|]; split; [discriminate|];
           intros Hne; rewrite (M1 Hne); reflexivity).
    destruct (IH _ _ _ _ _ _ H) as (A2 & N2 & M2).
    split; [exact (adv_trans _ _ _ A01 A2)|]. split.
    + intros He Hacc. apply N2; [exact He|].
      destruct (f_allow (f_member f key)); [|exact Hacc].
      apply Forall_app. split; [exact Hacc|]. constructor; [cbn [snd]; apply N1; reflexivity|constructor].
    + intros Hne. rewrite (M1 ltac:(discriminate)). apply M2. exact Hne.
Qed.

Lemma fold_max_le : forall (A : Type) (g : A -> nat) (n : nat) (l : list A),
  Forall (fun x => (g x <= n)%nat) l -> (fold_right (fun x m => Nat.max (g x) m) 0%nat l <= n)%nat.
Proof.
  intros A g n l H. induction H as [|x l Hx Hl IH]; cbn [fold_right]; [lia|]. lia.
Qed.

Lemma nesting_jv_of_double : forall ud f, nesting (jv_of_double ud f) = 0%nat.
Proof.
  intros ud f. unfold jv_of_double. cbv zeta. destruct ud; [|reflexivity].
  destruct (f_eq f (fconv F64 (fconv F32 f))); reflexivity.
Qed.

Lemma tail_walk : forall n pv1 pv2 Lz1 Lz2 f cb r e v r',
  pv_good n pv1 pv2 -> (Lz1 = false -> Lz2 = false) ->
  mp_tail pv1 Lz1 f cb r = (e, v, r') ->
  adv r r' /\ (e = Ok -> (nesting v <= if Lz1 then 0 else S n)%nat) /\
  (e <> TooDeep -> mp_tail pv2 Lz2 f cb r = (e, v, r')).
Proof.
  intros n pv1 pv2 Lz1 Lz2 f cb r e v r' G HLz. unfold mp_tail. cbv zeta.
  set (c := Z.of_N cb). set (sb := size_bytes_of c).
  destruct (if Nat.eqb sb 0 then (Some [], r) else read_n sb r) as [[hb|] r1] eqn:Eh.
  2:{ intros H. inversion H; subst.
      assert (A1 : adv r r').
      { destruct (Nat.eqb sb 0); [inversion Eh|exact (read_n_adv _ _ _ _ Eh)]. }
      split; [exact A1|]. split; [discriminate|reflexivity]. }
  assert (A1 : adv r r1).
  { destruct (Nat.eqb sb 0); [inversion Eh; subst; apply adv_refl|exact (read_n_adv _ _ _ _ Eh)]. }
  set (size := if Nat.eqb sb 0 then size0_of c else be_value hb 0). clearbody size.
  destruct (is_arr_code c).
  { destruct Lz1.
    { intros H. inversion H; subst. split; [exact A1|]. split; [discriminate|]. intros Hne. congruence. }
    rewrite (HLz eq_refl).
    destruct (mp_array_loop pv1 (clip_count size r1) (f_element f) (f_allow_array f) [] r1)
      as [[e1 l1] r2] eqn:EL.
    destruct (array_loop_walk n pv1 pv2 G _ _ _ _ _ _ _ _ EL) as (A2 & N2 & M2).
    intros H. inversion H; subst. split; [exact (adv_trans _ _ _ A1 A2)|]. split.
    - intros He. destruct (f_allow_array f); cbn [nesting]; [|lia].
      apply le_n_S. apply fold_max_le. apply N2; [exact He|constructor].
    - intros Hne. rewrite (M2 Hne). reflexivity. }
  destruct (is_map_code c).
  { destruct Lz1.
    { intros H. inversion H; subst. split; [exact A1|]. split; [discriminate|]. intros Hne. congruence. }
    rewrite (HLz eq_refl).
    destruct (mp_object_loop pv1 (clip_count size r1) f [] r1) as [[e1 l1] r2] eqn:EL.
    destruct (object_loop_walk n pv1 pv2 G _ _ _ _ _ _ _ EL) as (A2 & N2 & M2).
    intros H. inversion H; subst. split; [exact (adv_trans _ _ _ A1 A2)|]. split.
    - intros He. destruct (f_allow_object f); cbn [nesting]; [|lia].
      apply le_n_S. apply (fold_max_le _ (fun kv => nesting (snd kv))). apply N2; [exact He|constructor].
    - intros Hne. rewrite (M2 Hne). reflexivity. }
  assert (Leaf : forall (x : code * jv * mrd), (forall e0 v0 r0, x = (e0, v0, r0) -> adv r1 r0 /\ nesting v0 = 0%nat) ->
            x = (e, v, r') ->
            adv r r' /\ (e = Ok -> (nesting v <= (if Lz1 then 0 else S n))%nat) /\ (e <> TooDeep -> x = (e, v, r'))).
  { intros x Hx H. destruct (Hx _ _ _ H) as [A2 N2]. split; [exact (adv_trans _ _ _ A1 A2)|].
    split; [intros _; rewrite N2; destruct Lz1; lia|intros _; exact H]. }
  destruct (is_str_code c).
  { apply Leaf. intros e0 v0 r0.
    destruct (f_allow_value f).
    - destruct (max_string_length <? size).
      { intros H; inversion H; subst. split; [apply adv_refl|reflexivity]. }
      destruct (read_z size r1) as [[s|] r2] eqn:E2; intros H; inversion H; subst;
        (split; [exact (read_z_adv _ _ _ _ E2)|reflexivity]).
    - destruct (mp_skip size r1) as [e2 r2] eqn:E2. intros H; inversion H; subst.
      split; [exact (mp_skip_adv _ _ _ _ E2)|reflexivity]. }
  apply Leaf. intros e0 v0 r0.
  set (size' := if is_ext_code c then size + 1 else size). clearbody size'.
  destruct (f_allow_value f).
  - destruct (max_string_length <? 1 + Z.of_nat sb + size').
    { intros H; inversion H; subst. split; [apply adv_refl|reflexivity]. }
    destruct (read_z size' r1) as [[s|] r2] eqn:E2; intros H; inversion H; subst;
      (split; [exact (read_z_adv _ _ _ _ E2)|reflexivity]).
  - destruct (mp_skip size' r1) as [e2 r2] eqn:E2. intros H; inversion H; subst.
    split; [exact (mp_skip_adv _ _ _ _ E2)|reflexivity].
Qed.

Lemma body_walk : forall cf n pv1 pv2 Lz1 Lz2 f r e v r',
  pv_good n pv1 pv2 -> (Lz1 = false -> Lz2 = false) ->
  mp_body cf pv1 Lz1 f r = (e, v, r') ->
  adv r r' /\ (e = Ok -> (nesting v <= if Lz1 then 0 else S n)%nat) /\
  (e <> TooDeep -> mp_body cf pv2 Lz2 f r = (e, v, r')).
Proof.
  intros cf n pv1 pv2 Lz1 Lz2 f r e v r' G HLz. unfold mp_body.
  destruct (read_n 1 r) as [o r1] eqn:E1. pose proof (read_n_adv _ _ _ _ E1) as A1.
  assert (Leaf : forall (x : code * jv * mrd),
            (forall e0 v0 r0, x = (e0, v0, r0) -> adv r1 r0 /\ nesting v0 = 0%nat) ->
            x = (e, v, r') ->
            adv r r' /\ (e = Ok -> (nesting v <= (if Lz1 then 0 else S n))%nat) /\
            (e <> TooDeep -> x = (e, v, r'))).
  { intros x Hx H. destruct (Hx _ _ _ H) as [A2 N2]. split; [exact (adv_trans _ _ _ A1 A2)|].
    split; [intros _; rewrite N2; destruct Lz1; lia|intros _; exact H]. }
  destruct o as [[|cb [|c' t]]|];
    try (apply Leaf; intros e0 v0 r0 H; inversion H; subst; split; [apply adv_refl|reflexivity]).
  cbv zeta. set (c := Z.of_N cb).
  assert (Fixed : forall w (K : bytes -> jv) e0 v0 r0,
            (forall l, nesting (K l) = 0%nat) ->
            (if f_allow_value f
             then match read_n w r1 with
                  | (Some l, r) => (Ok, K l, r)
                  | (None, r) => (IncompleteInput, JNull, r)
                  end
             else let '(e, r) := mp_skip (Z.of_nat w) r1 in (e, JNull, r)) = (e0, v0, r0) ->
            adv r1 r0 /\ nesting v0 = 0%nat).
  { intros w K e0 v0 r0 HK. destruct (f_allow_value f).
    - destruct (read_n w r1) as [[l|] r2] eqn:E2; intros H; inversion H; subst;
        (split; [exact (read_n_adv _ _ _ _ E2)|auto]).
    - destruct (mp_skip (Z.of_nat w) r1) as [e2 r2] eqn:E2. intros H; inversion H; subst.
      split; [exact (mp_skip_adv _ _ _ _ E2)|reflexivity]. }
  destruct ((0xCC <=? c) && (c <=? 0xD3)).
  { apply Leaf. intros e0 v0 r0.
    apply (Fixed _ (fun l => JInt (if 0xD0 <=? c
                                   then signed_of (Z.to_nat (2 ^ ((c - 0xCC) mod 4))) (be_value l 0)
                                   else be_value l 0))). reflexivity. }
  destruct (c =? 0xC0).
  { apply Leaf. intros e0 v0 r0 H; inversion H; subst. split; [apply adv_refl|reflexivity]. }
  destruct (c =? 0xC1).
  { apply Leaf. intros e0 v0 r0 H; inversion H; subst. split; [apply adv_refl|reflexivity]. }
  destruct ((c =? 0xC2) || (c =? 0xC3)).
  { apply Leaf. intros e0 v0 r0 H; inversion H; subst. split; [apply adv_refl|].
    destruct (f_allow_value f); reflexivity. }
  destruct (c =? 0xCA).
  { apply Leaf. intros e0 v0 r0.
    apply (Fixed 4%nat (fun l => JFloat (sf_of_bits F32 (be_value l 0)))). reflexivity. }
  destruct (c =? 0xCB).
  { apply Leaf. intros e0 v0 r0.
    apply (Fixed 8%nat (fun l => jv_of_double (use_double cf) (sf_of_bits F64 (be_value l 0)))).
    intros l. apply nesting_jv_of_double. }
  destruct ((c <=? 0x7F) || (0xE0 <=? c)).
  { apply Leaf. intros e0 v0 r0 H; inversion H; subst. split; [apply adv_refl|].
    destruct (f_allow_value f); reflexivity. }
  intros H. destruct (tail_walk n pv1 pv2 Lz1 Lz2 f cb r1 e v r' G HLz H) as (A2 & N2 & M2).
  split; [exact (adv_trans _ _ _ A1 A2)|]. split; assumption.
Qed.

Lemma parse_walk : forall cf L L', (L <= L')%nat -> pv_good L (mp_parse cf L) (mp_parse cf L').
Proof.
  intros cf. induction L as [|L IH]; intros L' HL f d r e v r' H; rewrite mp_parse_eq in H.
  - assert (G0 : pv_good 0 (pv_of cf 0) (pv_of cf L')).
    { intros f0 d0 r0 e0 v0 r0' H0. cbn [pv_of] in H0. inversion H0; subst.
      split; [apply adv_refl|]. split; [discriminate|]. intros Hne. congruence. }
    destruct (body_walk cf 0 _ _ (is_O 0) (is_O L') f r e v r' G0 ltac:(discriminate) H) as (A & N & M).
    split; [exact A|]. split; [exact N|]. intros Hne. rewrite mp_parse_eq. exact (M Hne).
  - destruct L' as [|L']; [lia|].
    assert (G1 : pv_good L (pv_of cf (S L)) (pv_of cf (S L'))) by (apply IH; lia).
    destruct (body_walk cf L _ _ (is_O (S L)) (is_O (S L')) f r e v r' G1 ltac:(reflexivity) H)
      as (A & N & M).
    split; [exact A|]. split; [exact N|]. intros Hne. rewrite mp_parse_eq. exact (M Hne).
Qed.

(* never reads beyond the input: what was consumed is a prefix of what was given, and the byte
   counter is exact *)
Theorem mp_reads_bounded : forall cf L f dst r e v r', mp_parse cf L f dst r = (e, v, r') ->
  m_reads r' = (m_reads r + N.of_nat (length (m_rest r) - length (m_rest r')))%N /\
  (length (m_rest r') <= length (m_rest r))%nat /\
  exists consumed, m_rest r = consumed ++ m_rest r'.
Proof.
  intros cf L f dst r e v r' H.
  destruct (parse_walk cf L L (le_n L) f dst r e v r' H) as ((c & E & K) & _ & _).
  assert (Hl : length (m_rest r) = (length c + length (m_rest r'))%nat) by (rewrite E; apply app_length).
  split; [rewrite K; f_equal; lia|]. split; [lia|]. exists c. exact E.
Qed.

(* an accepted document nests no deeper than the budget *)
Theorem mp_ok_nesting : forall cf L f dst r v r',
  mp_parse cf L f dst r = (Ok, v, r') -> (nesting v <= L)%nat.
Proof.
  intros cf L f dst r v r' H.
  destruct (parse_walk cf L L (le_n L) f dst r Ok v r' H) as (_ & N & _). apply N. reflexivity.
Qed.

(* a larger budget changes nothing unless the smaller one was exhausted *)
Theorem mp_limit_monotone : forall cf L f dst r e v r', mp_parse cf L f dst r = (e, v, r') ->
  e <> TooDeep -> forall L', (L <= L')%nat -> mp_parse cf L' f dst r = (e, v, r').
Proof.
  intros cf L f dst r e v r' H Hne L' HL.
  destruct (parse_walk cf L L' HL f dst r e v r' H) as (_ & _ & M). exact (M Hne).
Qed.

Corollary mp_run_reads_bounded : forall cf f L i,
  let o := mp_run cf f L i in
  exists consumed, i = consumed ++ m_rest (mp_rd o) /\ m_reads (mp_rd o) = N.of_nat (length consumed).
Proof.
  intros cf f L i. unfold mp_run.
  destruct (mp_parse cf L f true {| m_rest := i; m_reads := 0 |}) as [[e v] r'] eqn:E.
  destruct (parse_walk cf L L (le_n L) _ _ _ _ _ _ E) as ((c & Ec & K) & _ & _).
  cbn [m_rest m_reads] in Ec, K. cbv zeta. cbn [mp_rd]. exists c. split; [exact Ec|]. rewrite K. lia.
Qed.

(* ------------------------------------------------------------------------------------- *)
(* towers: one container too many is refused as soon as its header has been read *)

Lemma tail_fixarr1 : forall pv' Lz f r,
  mp_tail pv' Lz f 0x91%N r =
    if Lz then (TooDeep, JNull, r)
    else let '(e, l, r) := mp_array_loop pv' (clip_count 1 r) (f_element f) (f_allow_array f) [] r in
         (e, (if f_allow_array f then JArr l else JNull), r).
Proof. reflexivity. Qed.

Lemma tail_fixmap1 : forall pv' Lz f r,
  mp_tail pv' Lz f 0x81%N r =
    if Lz then (TooDeep, JNull, r)
    else let '(e, l, r) := mp_object_loop pv' (clip_count 1 r) f [] r in
         (e, (if f_allow_object f then JObj l else JNull), r).
Proof. reflexivity. Qed.

Lemma clip_count_1 : forall r, clip_count 1 r = 1%nat.
Proof. intros r. unfold clip_count. rewrite Z.min_l by lia. reflexivity. Qed.

Theorem mp_tower_too_deep : forall cf L f dst rest k,
  exists v, mp_parse cf L f dst {| m_rest := repeat 0x91%N (S L) ++ rest; m_reads := k |} =
              (TooDeep, v, {| m_rest := rest; m_reads := (k + N.of_nat (S L))%N |}).
Proof.
  intros cf. induction L as [|L IH]; intros f dst rest k; rewrite mp_parse_eq;
    change (repeat 0x91%N (S ?n) ++ rest) with (0x91%N :: (repeat 0x91%N n ++ rest));
    change {| m_rest := ?l; m_reads := ?n |} with (rd_at l n);
    rewrite body_tail by reflexivity; rewrite tail_fixarr1; cbn [is_O].
  - exists JNull. reflexivity.
  - rewrite clip_count_1. cbn [mp_array_loop pv_of]. cbv zeta.
    destruct (IH (f_element f) (f_allow (f_element f)) rest (k + 1)%N) as [v0 E].
    unfold rd_at in *. rewrite E.
    replace (k + 1 + N.of_nat (S L))%N with (k + N.of_nat (S (S L)))%N by lia.
    eexists. reflexivity.
Qed.

Definition map_tower (L : nat) : bytes := concat (repeat [0x81; 0xA1; 0x61]%N L) ++ [0x81%N].

Lemma read_key_a : forall rest k,
  mp_read_key (rd_at (0xA1 :: 0x61 :: rest)%N k) = (Ok, [0x61%N], rd_at rest (k + 2)).
Proof.
  intros rest k. change 0xA1%N with (bz (0xA0 + 1)). rewrite key_fixstr by lia.
  unfold key_payload. rewrite (read_z_app 1 [0x61%N] rest) by reflexivity.
  cbn [length]. replace (k + 1 + N.of_nat 1)%N with (k + 2)%N by lia. reflexivity.
Qed.

Theorem mp_tower_too_deep_map : forall cf L f dst rest k,
  exists v, mp_parse cf L f dst {| m_rest := map_tower L ++ rest; m_reads := k |} =
              (TooDeep, v, {| m_rest := rest; m_reads := (k + N.of_nat (3 * L + 1))%N |}).
Proof.
  intros cf. induction L as [|L IH]; intros f dst rest k; rewrite mp_parse_eq.
  - change (map_tower 0 ++ rest) with (0x81%N :: rest).
    change {| m_rest := ?l; m_reads := ?n |} with (rd_at l n).
    rewrite body_tail by reflexivity. rewrite tail_fixmap1. cbn [is_O]. exists JNull. reflexivity.
  - assert (Et : map_tower (S L) ++ rest = (0x81 :: 0xA1 :: 0x61 :: (map_tower L ++ rest))%N).
    { unfold map_tower. cbn [repeat concat]. rewrite <- !app_assoc. reflexivity. }
    rewrite Et. change {| m_rest := ?l; m_reads := ?n |} with (rd_at l n).
    rewrite body_tail by reflexivity. rewrite tail_fixmap1. cbn [is_O].
    rewrite clip_count_1. cbn [mp_object_loop pv_of]. rewrite read_key_a. cbv zeta.
    destruct (IH (f_member f [0x61%N]) (f_allow (f_member f [0x61%N])) rest (k + 1 + 2)%N) as [v0 E].
    unfold rd_at in *. rewrite E.
    replace (k + 1 + 2 + N.of_nat (3 * L + 1))%N with (k + N.of_nat (3 * S L + 1))%N by lia.
    eexists. reflexivity.
Qed.

Corollary mp_run_tower_too_deep : forall cf L f rest,
  mp_err (mp_run cf f L (repeat 0x91%N (S L) ++ rest)) = TooDeep /\
  mp_rd (mp_run cf f L (repeat 0x91%N (S L) ++ rest)) = {| m_rest := rest; m_reads := N.of_nat (S L) |}.
Proof.
  intros cf L f rest. unfold mp_run.
  destruct (mp_tower_too_deep cf L f true rest 0%N) as [v E]. rewrite E.
  rewrite N.add_0_l. split; reflexivity.
Qed.

Corollary mp_run_tower_too_deep_map : forall cf L f rest,
  mp_err (mp_run cf f L (map_tower L ++ rest)) = TooDeep /\
  mp_rd (mp_run cf f L (map_tower L ++ rest)) = {| m_rest := rest; m_reads := N.of_nat (3 * L + 1) |}.
Proof.
  intros cf L f rest. unfold mp_run.
  destruct (mp_tower_too_deep_map cf L f true rest 0%N) as [v E]. rewrite E.
  rewrite N.add_0_l. split; [|reflexivity].
  unfold map_tower. destruct (concat (repeat [0x81; 0xA1; 0x61]%N L)); reflexivity.
Qed.

(* ------------------------------------------------------------------------------------- *)
(* Part B — the reader against the format *)

Lemma max_alloc_eq : mp_max_alloc = max_string_length.
Proof. reflexivity. Qed.

(* big-endian fields: the reader's accumulator computes the number the field denotes *)
Lemma be_value_num : forall l acc, be_value l acc = acc * 256 ^ Z.of_nat (length l) + be_num l.
Proof.
  induction l as [|b t IH]; intros acc; cbn [be_value be_num length].
  - change (256 ^ Z.of_nat 0) with 1. lia.
  - rewrite IH. rewrite Nat2Z.inj_succ, Z.pow_succ_r by lia. ring.
Qed.

Lemma is_be_value : forall w n l, is_be w n l -> be_value l 0 = n.
Proof. intros w n l (_ & _ & H). rewrite be_value_num. lia. Qed.

Lemma is_be_length : forall w n l, is_be w n l -> length l = w.
Proof. intros w n l (H & _). exact H. Qed.

Lemma be_num_bound : forall l, octets l -> 0 <= be_num l < 256 ^ Z.of_nat (length l).
Proof.
  intros l H. induction H as [|b t Hb Ht IH]; cbn [be_num length].
  - change (256 ^ Z.of_nat 0) with 1. lia.
  - rewrite Nat2Z.inj_succ, Z.pow_succ_r by lia.
    assert (0 < 256 ^ Z.of_nat (length t)) by (apply Z.pow_pos_nonneg; lia). nia.
Qed.

Lemma signed_of_twos : forall w z, (1 <= w)%nat -> fits_signed w z -> signed_of w (twos w z) = z.
Proof.
  intros w z Hw H. unfold fits_signed in H. unfold signed_of, twos.
  set (k := 8 * Z.of_nat w) in *.
  assert (Hk : 2 ^ k = 2 * 2 ^ (k - 1)).
  { replace k with (k - 1 + 1) at 1 by lia. rewrite Z.pow_add_r by lia. lia. }
  assert (Hp : 0 < 2 ^ (k - 1)) by (apply Z.pow_pos_nonneg; lia).
  destruct (Z.ltb_spec z 0) as [Hn|Hn].
  - destruct (Z.ltb_spec (2 ^ k + z) (2 ^ (k - 1))); lia.
  - destruct (Z.ltb_spec z (2 ^ (k - 1))); lia.
Qed.

Lemma hdr_then_is_be : forall w n l rest k K, is_be w n l ->
  hdr_then w (rd_at (l ++ rest) k) K = K n (rd_at rest (k + N.of_nat w)).
Proof.
  intros w n l rest k K H. unfold hdr_then.
  rewrite (read_n_app' w) by (exact (is_be_length _ _ _ H)).
  rewrite (is_be_value _ _ _ H). reflexivity.
Qed.

Lemma to_N_bz : forall x, 0 <= x < 256 -> Z.to_N x = bz x.
Proof. intros x H. unfold bz. rewrite Z.mod_small by exact H. reflexivity. Qed.

(* --- integers --- *)
Lemma body_uint_gen : forall cf pv' Lz cb w z l rest k,
  0xCC <= Z.of_N cb <= 0xCF -> Z.to_nat (2 ^ ((Z.of_N cb - 0xCC) mod 4)) = w -> is_be w z l ->
  mp_body cf pv' Lz None (rd_at ((cb :: l) ++ rest) k) =
    (Ok, JInt z, rd_at rest (k + N.of_nat (length (cb :: l)))).
Proof.
  intros cf pv' Lz cb w z l rest k Hc Hw Hz. cbn [app length]. rewrite body_intcode by lia.
  cbv zeta. rewrite Hw. rewrite (read_n_app' w) by (exact (is_be_length _ _ _ Hz)).
  destruct (Z.leb_spec 0xD0 (Z.of_N cb)) as [H|_]; [lia|].
  rewrite (is_be_value _ _ _ Hz), (is_be_length _ _ _ Hz), reads_assoc. reflexivity.
Qed.

Lemma body_sint_gen : forall cf pv' Lz cb w z l rest k,
  0xD0 <= Z.of_N cb <= 0xD3 -> Z.to_nat (2 ^ ((Z.of_N cb - 0xCC) mod 4)) = w -> (1 <= w)%nat ->
  fits_signed w z -> is_be w (twos w z) l ->
  mp_body cf pv' Lz None (rd_at ((cb :: l) ++ rest) k) =
    (Ok, JInt z, rd_at rest (k + N.of_nat (length (cb :: l)))).
Proof.
  intros cf pv' Lz cb w z l rest k Hc Hw Hw1 Hf Hz. cbn [app length]. rewrite body_intcode by lia.
  cbv zeta. rewrite Hw. rewrite (read_n_app' w) by (exact (is_be_length _ _ _ Hz)).
  destruct (Z.leb_spec 0xD0 (Z.of_N cb)) as [_|H]; [|lia].
  rewrite (is_be_value _ _ _ Hz), signed_of_twos by assumption.
  rewrite (is_be_length _ _ _ Hz), reads_assoc. reflexivity.
Qed.

Lemma body_posfix : forall cf pv' Lz z rest k, 0 <= z <= 127 ->
  mp_body cf pv' Lz None (rd_at ([Z.to_N z] ++ rest) k) = (Ok, JInt z, rd_at rest (k + N.of_nat 1)).
Proof.
  intros cf pv' Lz z rest k H. cbn [app]. rewrite body_fixint by (rewrite Z2N.id; lia).
  rewrite Z2N.id by lia. unfold signed_of. change (2 ^ (8 * Z.of_nat 1 - 1)) with 128.
  destruct (Z.ltb_spec z 128); [reflexivity|lia].
Qed.

Lemma body_negfix : forall cf pv' Lz z rest k, -32 <= z <= -1 ->
  mp_body cf pv' Lz None (rd_at ([Z.to_N (256 + z)] ++ rest) k) = (Ok, JInt z, rd_at rest (k + N.of_nat 1)).
Proof.
  intros cf pv' Lz z rest k H. cbn [app]. rewrite body_fixint by (rewrite Z2N.id; lia).
  rewrite Z2N.id by lia. unfold signed_of. change (2 ^ (8 * Z.of_nat 1 - 1)) with 128.
  change (2 ^ (8 * Z.of_nat 1)) with 256.
  destruct (Z.ltb_spec (256 + z) 128); [lia|]. repeat f_equal. lia.
Qed.

(* --- floats --- *)
Lemma body_f32_gen : forall cf pv' Lz bits l rest k, is_be 4 bits l ->
  mp_body cf pv' Lz None (rd_at ((0xCA%N :: l) ++ rest) k) =
    (Ok, JFloat (sf_of_bits F32 bits), rd_at rest (k + N.of_nat (length (0xCA%N :: l)))).
Proof.
  intros cf pv' Lz bits l rest k H. cbn [app length]. change 0xCA%N with (bz 0xCA). rewrite body_f32.
  rewrite (read_n_app' 4) by (exact (is_be_length _ _ _ H)).
  rewrite (is_be_value _ _ _ H), (is_be_length _ _ _ H), reads_assoc. reflexivity.
Qed.

Lemma body_f64_gen : forall cf pv' Lz bits l rest k, is_be 8 bits l ->
  mp_body cf pv' Lz None (rd_at ((0xCB%N :: l) ++ rest) k) =
    (Ok, jv_of_double (use_double cf) (sf_of_bits F64 bits),
     rd_at rest (k + N.of_nat (length (0xCB%N :: l)))).
Proof.
  intros cf pv' Lz bits l rest k H. cbn [app length]. change 0xCB%N with (bz 0xCB). rewrite body_f64.
  rewrite (read_n_app' 8) by (exact (is_be_length _ _ _ H)).
  rewrite (is_be_value _ _ _ H), (is_be_length _ _ _ H), reads_assoc. reflexivity.
Qed.

(* --- headers --- *)
Lemma str_hdr_body : forall cf pv' Lz n h rest k, StrHdr n h ->
  mp_body cf pv' Lz None (rd_at (h ++ rest) k) = str_payload n (rd_at rest (k + N.of_nat (length h))).
Proof.
  intros cf pv' Lz n h rest k H. destruct H as [n Hn|n l Hl|n l Hl|n l Hl]; cbn [app length].
  - rewrite to_N_bz by lia. apply body_fixstr. lia.
  - change 0xD9%N with (bz 0xD9). rewrite body_str8, (hdr_then_is_be _ _ _ _ _ _ Hl).
    rewrite (is_be_length _ _ _ Hl), reads_assoc. reflexivity.
  - change 0xDA%N with (bz 0xDA). rewrite body_str16, (hdr_then_is_be _ _ _ _ _ _ Hl).
    rewrite (is_be_length _ _ _ Hl), reads_assoc. reflexivity.
  - change 0xDB%N with (bz 0xDB). rewrite body_str32, (hdr_then_is_be _ _ _ _ _ _ Hl).
    rewrite (is_be_length _ _ _ Hl), reads_assoc. reflexivity.
Qed.

Lemma arr_hdr_body : forall cf pv' Lz n h rest k, ArrHdr n h ->
  mp_body cf pv' Lz None (rd_at (h ++ rest) k) = arr_payload pv' Lz n (rd_at rest (k + N.of_nat (length h))).
Proof.
  intros cf pv' Lz n h rest k H. destruct H as [n Hn|n l Hl|n l Hl]; cbn [app length].
  - rewrite to_N_bz by lia. apply body_fixarr. lia.
  - change 0xDC%N with (bz 0xDC). rewrite body_arr16, (hdr_then_is_be _ _ _ _ _ _ Hl).
    rewrite (is_be_length _ _ _ Hl), reads_assoc. reflexivity.
  - change 0xDD%N with (bz 0xDD). rewrite body_arr32, (hdr_then_is_be _ _ _ _ _ _ Hl).
    rewrite (is_be_length _ _ _ Hl), reads_assoc. reflexivity.
Qed.

Lemma map_hdr_body : forall cf pv' Lz n h rest k, MapHdr n h ->
  mp_body cf pv' Lz None (rd_at (h ++ rest) k) = map_payload pv' Lz n (rd_at rest (k + N.of_nat (length h))).
Proof.
  intros cf pv' Lz n h rest k H. destruct H as [n Hn|n l Hl|n l Hl]; cbn [app length].
  - rewrite to_N_bz by lia. apply body_fixmap. lia.
  - change 0xDE%N with (bz 0xDE). rewrite body_map16, (hdr_then_is_be _ _ _ _ _ _ Hl).
    rewrite (is_be_length _ _ _ Hl), reads_assoc. reflexivity.
  - change 0xDF%N with (bz 0xDF). rewrite body_map32, (hdr_then_is_be _ _ _ _ _ _ Hl).
    rewrite (is_be_length _ _ _ Hl), reads_assoc. reflexivity.
Qed.

(* --- bin / ext: kept verbatim --- *)
Definition raw_after (cb : N) (hb : bytes) (w : nat) (size : Z) (r : mrd) : code * jv * mrd :=
  if max_string_length <? 1 + Z.of_nat w + size then (NoMemory, JNull, r)
  else
    match read_z size r with
    | (Some p, r) => (Ok, JRaw (cb :: hb ++ p), r)
    | (None, r) => (IncompleteInput, JNull, r)
    end.

Definition raw_then (cb : N) (w : nat) (ext : bool) (r : mrd) : code * jv * mrd :=
  match read_n w r with
  | (None, r) => (IncompleteInput, JNull, r)
  | (Some hb, r) => raw_after cb hb w (if ext then be_value hb 0 + 1 else be_value hb 0) r
  end.

Lemma body_bin8 : forall cf pv' Lz rest k,
  mp_body cf pv' Lz None (rd_at (0xC4%N :: rest) k) = raw_then 0xC4%N 1 false (rd_at rest (k + 1)).
Proof. reflexivity. Qed.
Lemma body_bin16 : forall cf pv' Lz rest k,
  mp_body cf pv' Lz None (rd_at (0xC5%N :: rest) k) = raw_then 0xC5%N 2 false (rd_at rest (k + 1)).
Proof. reflexivity. Qed.
Lemma body_bin32 : forall cf pv' Lz rest k,
  mp_body cf pv' Lz None (rd_at (0xC6%N :: rest) k) = raw_then 0xC6%N 4 false (rd_at rest (k + 1)).
Proof. reflexivity. Qed.
Lemma body_ext8 : forall cf pv' Lz rest k,
  mp_body cf pv' Lz None (rd_at (0xC7%N :: rest) k) = raw_then 0xC7%N 1 true (rd_at rest (k + 1)).
Proof. reflexivity. Qed.
Lemma body_ext16 : forall cf pv' Lz rest k,
  mp_body cf pv' Lz None (rd_at (0xC8%N :: rest) k) = raw_then 0xC8%N 2 true (rd_at rest (k + 1)).
Proof. reflexivity. Qed.
Lemma body_ext32 : forall cf pv' Lz rest k,
  mp_body cf pv' Lz None (rd_at (0xC9%N :: rest) k) = raw_then 0xC9%N 4 true (rd_at rest (k + 1)).
Proof. reflexivity. Qed.
Lemma body_fixext1 : forall cf pv' Lz rest k,
  mp_body cf pv' Lz None (rd_at (0xD4%N :: rest) k) = raw_after 0xD4%N [] 0 (1 + 1) (rd_at rest (k + 1)).
Proof. reflexivity. Qed.
Lemma body_fixext2 : forall cf pv' Lz rest k,
  mp_body cf pv' Lz None (rd_at (0xD5%N :: rest) k) = raw_after 0xD5%N [] 0 (2 + 1) (rd_at rest (k + 1)).
Proof. reflexivity. Qed.
Lemma body_fixext4 : forall cf pv' Lz rest k,
  mp_body cf pv' Lz None (rd_at (0xD6%N :: rest) k) = raw_after 0xD6%N [] 0 (4 + 1) (rd_at rest (k + 1)).
Proof. reflexivity. Qed.
Lemma body_fixext8 : forall cf pv' Lz rest k,
  mp_body cf pv' Lz None (rd_at (0xD7%N :: rest) k) = raw_after 0xD7%N [] 0 (8 + 1) (rd_at rest (k + 1)).
Proof. reflexivity. Qed.
Lemma body_fixext16 : forall cf pv' Lz rest k,
  mp_body cf pv' Lz None (rd_at (0xD8%N :: rest) k) = raw_after 0xD8%N [] 0 (16 + 1) (rd_at rest (k + 1)).
Proof. reflexivity. Qed.

(* after a complete bin/ext header [h]: [size] more bytes, kept together with the header *)
Definition raw_payload (h : bytes) (size : Z) (r : mrd) : code * jv * mrd :=
  if max_string_length <? Z.of_nat (length h) + size then (NoMemory, JNull, r)
  else
    match read_z size r with
    | (Some p, r) => (Ok, JRaw (h ++ p), r)
    | (None, r) => (IncompleteInput, JNull, r)
    end.

Lemma raw_after_payload : forall cb hb w size r, length hb = w ->
  raw_after cb hb w size r = raw_payload (cb :: hb) size r.
Proof.
  intros cb hb w size r H. unfold raw_after, raw_payload. cbn [length app].
  rewrite H. replace (Z.of_nat (S w)) with (1 + Z.of_nat w) by lia. reflexivity.
Qed.

Lemma raw_then_is_be : forall cb w ext n l rest k, is_be w n l ->
  raw_then cb w ext (rd_at (l ++ rest) k) =
    raw_payload (cb :: l) (if ext then n + 1 else n) (rd_at rest (k + N.of_nat w)).
Proof.
  intros cb w ext n l rest k H. unfold raw_then.
  rewrite (read_n_app' w) by (exact (is_be_length _ _ _ H)).
  rewrite (is_be_value _ _ _ H). apply raw_after_payload. exact (is_be_length _ _ _ H).
Qed.

Lemma bin_hdr_body : forall cf pv' Lz n h rest k, BinHdr n h ->
  mp_body cf pv' Lz None (rd_at (h ++ rest) k) = raw_payload h n (rd_at rest (k + N.of_nat (length h))).
Proof.
  intros cf pv' Lz n h rest k H. destruct H as [n l Hl|n l Hl|n l Hl]; cbn [app length].
  - rewrite body_bin8, (raw_then_is_be _ _ _ _ _ _ _ Hl), (is_be_length _ _ _ Hl), reads_assoc. reflexivity.
  - rewrite body_bin16, (raw_then_is_be _ _ _ _ _ _ _ Hl), (is_be_length _ _ _ Hl), reads_assoc. reflexivity.
  - rewrite body_bin32, (raw_then_is_be _ _ _ _ _ _ _ Hl), (is_be_length _ _ _ Hl), reads_assoc. reflexivity.
Qed.

Lemma ext_hdr_body : forall cf pv' Lz n h rest k, ExtHdr n h ->
  mp_body cf pv' Lz None (rd_at (h ++ rest) k) =
    raw_payload h (n + 1) (rd_at rest (k + N.of_nat (length h))).
Proof.
  intros cf pv' Lz n h rest k H. destruct H as [| | | | |n l Hl|n l Hl|n l Hl]; cbn [app length].
  - rewrite body_fixext1. apply raw_after_payload. reflexivity.
  - rewrite body_fixext2. apply raw_after_payload. reflexivity.
  - rewrite body_fixext4. apply raw_after_payload. reflexivity.
  - rewrite body_fixext8. apply raw_after_payload. reflexivity.
  - rewrite body_fixext16. apply raw_after_payload. reflexivity.
  - rewrite body_ext8, (raw_then_is_be _ _ _ _ _ _ _ Hl), (is_be_length _ _ _ Hl), reads_assoc. reflexivity.
  - rewrite body_ext16, (raw_then_is_be _ _ _ _ _ _ _ Hl), (is_be_length _ _ _ Hl), reads_assoc. reflexivity.
  - rewrite body_ext32, (raw_then_is_be _ _ _ _ _ _ _ Hl), (is_be_length _ _ _ Hl), reads_assoc. reflexivity.
Qed.

Lemma raw_payload_rt : forall h p rest k, Z.of_nat (length (h ++ p)) <= max_string_length ->
  raw_payload h (Z.of_nat (length p)) (rd_at (p ++ rest) k) =
    (Ok, JRaw (h ++ p), rd_at rest (k + N.of_nat (length p))).
Proof.
  intros h p rest k H. unfold raw_payload. rewrite app_length in H.
  destruct (Z.ltb_spec max_string_length (Z.of_nat (length h) + Z.of_nat (length p))) as [H1|_]; [lia|].
  rewrite read_z_app by reflexivity. reflexivity.
Qed.

(* --- keys --- *)
Lemma key_hdr_then_is_be : forall w n l rest k, is_be w n l -> n <= max_string_length ->
  key_hdr_then w (rd_at (l ++ rest) k) = key_payload n (rd_at rest (k + N.of_nat w)).
Proof.
  intros w n l rest k H Hm. unfold key_hdr_then.
  rewrite (read_n_app' w) by (exact (is_be_length _ _ _ H)). cbv zeta.
  rewrite (is_be_value _ _ _ H).
  destruct (Z.ltb_spec max_string_length n); [lia|]. reflexivity.
Qed.

Lemma key_hdr_body : forall n h rest k, StrHdr n h -> n <= max_string_length ->
  mp_read_key (rd_at (h ++ rest) k) = key_payload n (rd_at rest (k + N.of_nat (length h))).
Proof.
  intros n h rest k H Hm. destruct H as [n Hn|n l Hl|n l Hl|n l Hl]; cbn [app length].
  - rewrite to_N_bz by lia. apply key_fixstr. lia.
  - change 0xD9%N with (bz 0xD9). rewrite key_str8, (key_hdr_then_is_be _ _ _ _ _ Hl Hm).
    rewrite (is_be_length _ _ _ Hl), reads_assoc. reflexivity.
  - change 0xDA%N with (bz 0xDA). rewrite key_str16, (key_hdr_then_is_be _ _ _ _ _ Hl Hm).
    rewrite (is_be_length _ _ _ Hl), reads_assoc. reflexivity.
  - change 0xDB%N with (bz 0xDB). rewrite key_str32, (key_hdr_then_is_be _ _ _ _ _ Hl Hm).
    rewrite (is_be_length _ _ _ Hl), reads_assoc. reflexivity.
Qed.

Lemma read_key_complete : forall key hk rest k, StrHdr (Z.of_nat (length key)) hk ->
  Z.of_nat (length key) <= max_string_length ->
  mp_read_key (rd_at ((hk ++ key) ++ rest) k) = (Ok, key, rd_at rest (k + N.of_nat (length (hk ++ key)))).
Proof.
  intros key hk rest k H Hm. rewrite <- app_assoc. rewrite (key_hdr_body _ _ _ _ H Hm).
  unfold key_payload. rewrite read_z_app by reflexivity. rewrite reads_app, app_length. reflexivity.
Qed.

(* --- every object takes at least one byte --- *)
Lemma StrHdr_nonempty : forall n h, StrHdr n h -> (1 <= length h)%nat.
Proof. intros n h H. destruct H; cbn [length]; lia. Qed.
Lemma BinHdr_nonempty : forall n h, BinHdr n h -> (1 <= length h)%nat.
Proof. intros n h H. destruct H; cbn [length]; lia. Qed.
Lemma ExtHdr_nonempty : forall n h, ExtHdr n h -> (1 <= length h)%nat.
Proof. intros n h H. destruct H; cbn [length]; lia. Qed.
Lemma ArrHdr_nonempty : forall n h, ArrHdr n h -> (1 <= length h)%nat.
Proof. intros n h H. destruct H; cbn [length]; lia. Qed.
Lemma MapHdr_nonempty : forall n h, MapHdr n h -> (1 <= length h)%nat.
Proof. intros n h H. destruct H; cbn [length]; lia. Qed.

Lemma MpEnc_nonempty : forall v b, MpEnc v b -> (1 <= length b)%nat.
Proof.
  intros v b H. destruct H; try (cbn [length]; lia); rewrite app_length.
  - pose proof (StrHdr_nonempty _ _ H). lia.
  - pose proof (BinHdr_nonempty _ _ H). lia.
  - pose proof (ExtHdr_nonempty _ _ H). lia.
  - pose proof (ArrHdr_nonempty _ _ H). lia.
  - pose proof (MapHdr_nonempty _ _ H). lia.
Qed.

Lemma MpEncs_length : forall l bs, MpEncs l bs -> (length l <= length bs)%nat.
Proof.
  intros l bs H. induction H as [|v b l bs Hv Hl IH]; [cbn; lia|].
  cbn [length]. rewrite app_length. pose proof (MpEnc_nonempty _ _ Hv). lia.
Qed.

Lemma MpMembers_length : forall l bs, MpMembers l bs -> (length l <= length bs)%nat.
Proof.
  intros l bs H. induction H as [|key hk v b l bs Hk Hv Hl IH]; [cbn; lia|].
  cbn [length]. rewrite !app_length. pose proof (StrHdr_nonempty _ _ Hk). lia.
Qed.

(* --- loops over complete elements --- *)
Lemma array_loop_complete : forall (pv : pvT) (ud : bool) (P : mpv -> Prop),
  (forall v b, MpEnc v b -> P v -> forall rest k,
     pv None true (rd_at (b ++ rest) k) = (Ok, mp_den ud v, rd_at rest (k + N.of_nat (length b)))) ->
  forall l bs, MpEncs l bs -> (forall x, In x l -> P x) ->
  forall acc rest k,
    mp_array_loop pv (length l) None true acc (rd_at (bs ++ rest) k) =
      (Ok, acc ++ map (mp_den ud) l, rd_at rest (k + N.of_nat (length bs))).
Proof.
  intros pv ud P Hpv l bs H. induction H as [|v b l bs Hv Hl IH]; intros HP acc rest k.
  - cbn [length mp_array_loop map app]. rewrite app_nil_r, N.add_0_r. reflexivity.
  - cbn [length mp_array_loop map]. rewrite <- app_assoc. cbn [f_allow].
    rewrite (Hpv v b Hv (HP v (or_introl eq_refl))).
    rewrite IH by (intros y Hy; apply HP; right; exact Hy).
    rewrite <- app_assoc. cbn [app]. rewrite reads_app, <- app_length. reflexivity.
Qed.

Lemma object_loop_complete : forall (pv : pvT) (ud : bool) (P : mpv -> Prop),
  (forall v b, MpEnc v b -> P v -> forall rest k,
     pv None true (rd_at (b ++ rest) k) = (Ok, mp_den ud v, rd_at rest (k + N.of_nat (length b)))) ->
  forall l bs, MpMembers l bs ->
  (forall kv, In kv l -> Z.of_nat (length (fst kv)) <= max_string_length /\ P (snd kv)) ->
  forall acc rest k,
    mp_object_loop pv (length l) None acc (rd_at (bs ++ rest) k) =
      (Ok, acc ++ map (fun kv => (fst kv, mp_den ud (snd kv))) l,
       rd_at rest (k + N.of_nat (length bs))).
Proof.
  intros pv ud P Hpv l bs H. induction H as [|key hk v b l bs Hk Hv Hl IH]; intros HP acc rest k.
  - cbn [length mp_object_loop map app]. rewrite app_nil_r, N.add_0_r. reflexivity.
  - cbn [length mp_object_loop map]. destruct (HP _ (or_introl eq_refl)) as [Hm Hp]. cbn [fst snd] in Hm, Hp.
    rewrite <- (app_assoc (hk ++ key)). rewrite (read_key_complete _ _ _ _ Hk Hm).
    cbn [f_member f_allow]. rewrite <- (app_assoc b). rewrite (Hpv v b Hv Hp).
    rewrite IH by (intros y Hy; apply HP; right; exact Hy).
    rewrite <- app_assoc. cbn [app fst snd]. f_equal. f_equal.
    rewrite !app_length. lia.
Qed.

Lemma clip_count_app : forall n (bs rest : bytes) k, (n <= length bs)%nat ->
  clip_count (Z.of_nat n) (rd_at (bs ++ rest) k) = n.
Proof. intros n bs rest k H. apply clip_count_exact. rewrite app_length. lia. Qed.

Definition deep_ok (L : nat) (v : mpv) : Prop := mp_limits v /\ (mpv_depth v <= L)%nat.

Lemma body_complete : forall cf pv' Lz L',
  (Lz = false -> forall v b, MpEnc v b -> deep_ok L' v -> forall rest k,
     pv' None true (rd_at (b ++ rest) k) =
       (Ok, mp_den (use_double cf) v, rd_at rest (k + N.of_nat (length b)))) ->
  forall v b, MpEnc v b -> mp_limits v -> (mpv_depth v <= if Lz then 0 else S L')%nat ->
  forall rest k,
    mp_body cf pv' Lz None (rd_at (b ++ rest) k) =
      (Ok, mp_den (use_double cf) v, rd_at rest (k + N.of_nat (length b))).
Proof.
  intros cf pv' Lz L' Hpv v b H Hlim Hd rest k.
  destruct H; cbn [mp_den].
  - apply body_nil.
  - apply body_false.
  - apply body_true.
  - apply body_posfix; assumption.
  - apply body_negfix; assumption.
  - apply (body_uint_gen cf pv' Lz 0xCC%N 1); [vm_compute; split; discriminate|reflexivity|assumption].
  - apply (body_uint_gen cf pv' Lz 0xCD%N 2); [vm_compute; split; discriminate|reflexivity|assumption].
  - apply (body_uint_gen cf pv' Lz 0xCE%N 4); [vm_compute; split; discriminate|reflexivity|assumption].
  - apply (body_uint_gen cf pv' Lz 0xCF%N 8); [vm_compute; split; discriminate|reflexivity|assumption].
  - apply (body_sint_gen cf pv' Lz 0xD0%N 1); [vm_compute; split; discriminate|reflexivity|lia|assumption..].
  - apply (body_sint_gen cf pv' Lz 0xD1%N 2); [vm_compute; split; discriminate|reflexivity|lia|assumption..].
  - apply (body_sint_gen cf pv' Lz 0xD2%N 4); [vm_compute; split; discriminate|reflexivity|lia|assumption..].
  - apply (body_sint_gen cf pv' Lz 0xD3%N 8); [vm_compute; split; discriminate|reflexivity|lia|assumption..].
  - apply body_f32_gen; assumption.
  - apply body_f64_gen; assumption.
  - (* str *)
    cbn [mp_limits] in Hlim. rewrite <- app_assoc. rewrite (str_hdr_body _ _ _ _ _ _ _ H).
    rewrite str_payload_rt by exact Hlim. rewrite reads_app, app_length. reflexivity.
  - (* bin *)
    cbn [mp_limits] in Hlim. rewrite <- app_assoc. rewrite (bin_hdr_body _ _ _ _ _ _ _ H).
    rewrite raw_payload_rt by exact Hlim. rewrite reads_app, app_length. reflexivity.
  - (* ext *)
    cbn [mp_limits] in Hlim. rewrite <- app_assoc. rewrite (ext_hdr_body _ _ _ _ _ _ _ H).
    replace (Z.of_nat (length p) + 1) with (Z.of_nat (length (ty :: p))) by (cbn [length]; lia).
    rewrite raw_payload_rt by exact Hlim. rewrite reads_app, app_length. reflexivity.
  - (* array *)
    cbn [mp_limits] in Hlim. destruct Hlim as [_ Hall]. cbn [mpv_depth] in Hd.
    destruct Lz; [lia|]. specialize (Hpv eq_refl).
    rewrite <- app_assoc. rewrite (arr_hdr_body _ _ _ _ _ _ _ H). unfold arr_payload.
    rewrite clip_count_app by (apply MpEncs_length; assumption).
    rewrite (array_loop_complete pv' (use_double cf) (deep_ok L') Hpv l bs); [| assumption |].
    2:{ intros x Hx. split; [exact (fold_and_In _ mp_limits l Hall x Hx)|].
        pose proof (nesting_In _ mpv_depth l x Hx). lia. }
    cbn [app]. rewrite reads_app, app_length. reflexivity.
  - (* map *)
    cbn [mp_limits] in Hlim. destruct Hlim as [_ Hall]. cbn [mpv_depth] in Hd.
    destruct Lz; [lia|]. specialize (Hpv eq_refl).
    rewrite <- app_assoc. rewrite (map_hdr_body _ _ _ _ _ _ _ H). unfold map_payload.
    rewrite clip_count_app by (apply MpMembers_length; assumption).
    rewrite (object_loop_complete pv' (use_double cf) (deep_ok L') Hpv l bs); [| assumption |].
    2:{ intros x Hx.
        destruct (fold_and_In _ (fun kv => Z.of_nat (length (fst kv)) <= mp_max_alloc /\ mp_limits (snd kv))
                    l Hall x Hx) as [Hk Hv].
        split; [exact Hk|]. split; [exact Hv|].
        pose proof (nesting_In _ (fun kv => mpv_depth (snd kv)) l x Hx). cbv beta in *. lia. }
    cbn [app]. rewrite reads_app, app_length. reflexivity.
Qed.

Theorem mp_complete_gen : forall cf L v b, MpEnc v b -> mp_limits v -> (mpv_depth v <= L)%nat ->
  forall rest k,
    mp_parse cf L None true (rd_at (b ++ rest) k) =
      (Ok, mp_den (use_double cf) v, rd_at rest (k + N.of_nat (length b))).
Proof.
  intros cf. induction L as [|L IH]; intros v b H Hlim Hd rest k; rewrite mp_parse_eq.
  - apply (body_complete cf _ (is_O 0) 0); [discriminate|assumption..].
  - apply (body_complete cf _ (is_O (S L)) L); [|assumption..].
    intros _ v' b' H' [Hl' Hd'] rest' k'. cbn [pv_of]. apply IH; assumption.
Qed.

(* every legal encoding, whatever widths it uses, decodes to the value it denotes; the reader
   stops exactly at its end *)
Theorem mp_decode_complete : forall cf v b, MpEnc v b -> mp_limits v -> forall L rest k,
  (mpv_depth v <= L)%nat ->
  mp_parse cf L None true {| m_rest := b ++ rest; m_reads := k |}
    = (Ok, mp_den (use_double cf) v, {| m_rest := rest; m_reads := (k + N.of_nat (length b))%N |}).
Proof. intros cf v b H Hlim L rest k Hd. exact (mp_complete_gen cf L v b H Hlim Hd rest k). Qed.

Corollary mp_run_complete : forall cf v b, MpEnc v b -> mp_limits v -> forall L rest,
  (mpv_depth v <= L)%nat ->
  mp_run cf None L (b ++ rest) =
    {| mp_err := Ok; mp_doc := mp_den (use_double cf) v;
       mp_rd := {| m_rest := rest; m_reads := N.of_nat (length b) |} |}.
Proof.
  intros cf v b H Hlim L rest Hd. unfold mp_run.
  rewrite (mp_decode_complete cf v b H Hlim L rest 0%N Hd). rewrite N.add_0_l.
  pose proof (MpEnc_nonempty v b H) as Hne.
  destruct b as [|c t]; [cbn in Hne; lia|]. reflexivity.
Qed.

(* ------------------------------------------------------------------------------------- *)
(* strict prefixes of a legal encoding are reported as incomplete *)

Lemma single_prefix : forall (c : N) (p q : bytes), [c] = p ++ q -> q <> [] -> p = [].
Proof.
  intros c p q H Hq. symmetry in H. apply prefix_cons in H as [->|(p' & -> & H')]; [reflexivity|].
  apply app_eq_nil in H' as [_ ->]. congruence.
Qed.

Lemma fixed_prefix : forall (cb : N) (l p q : bytes), cb :: l = p ++ q -> q <> [] ->
  p = [] \/ exists p', p = cb :: p' /\ (length p' < length l)%nat.
Proof.
  intros cb l p q H Hq. symmetry in H. apply prefix_cons in H as [->|(p' & -> & H')]; [left; reflexivity|].
  right. exists p'. split; [reflexivity|]. exact (short_of_app _ _ _ H' Hq).
Qed.

Lemma intcode_prefix : forall cf pv' Lz cb w n l p q k, 0xCC <= Z.of_N cb <= 0xD3 ->
  Z.to_nat (2 ^ ((Z.of_N cb - 0xCC) mod 4)) = w -> is_be w n l ->
  cb :: l = p ++ q -> q <> [] ->
  err_of (mp_body cf pv' Lz None (rd_at p k)) = IncompleteInput.
Proof.
  intros cf pv' Lz cb w n l p q k Hc Hw Hl H Hq.
  destruct (fixed_prefix _ _ _ _ H Hq) as [->|(p' & -> & Hs)]; [apply body_empty|].
  apply body_intcode_short; [exact Hc|]. rewrite Hw, <- (is_be_length _ _ _ Hl). exact Hs.
Qed.

Lemma hdr_then_prefix_is_be : forall w n l K (p q s : bytes) k, is_be w n l ->
  p ++ q = l ++ s ->
  (forall p'' k', p'' ++ q = s -> err_of (K n (rd_at p'' k')) = IncompleteInput) ->
  err_of (hdr_then w (rd_at p k) K) = IncompleteInput.
Proof.
  intros w n l K p q s k Hl H HK. apply split_app in H as [(t & Et & Ht)|(p'' & -> & H')].
  - symmetry in Et. pose proof (short_of_app _ _ _ Et Ht) as Hs.
    rewrite (is_be_length _ _ _ Hl) in Hs. unfold hdr_then.
    destruct (read_n_short w p k Hs) as [r E]. rewrite E. reflexivity.
  - rewrite (hdr_then_is_be _ _ _ _ _ _ Hl). apply HK. exact H'.
Qed.

Lemma raw_then_prefix_is_be : forall cb w (ext : bool) n l (p q s : bytes) k, is_be w n l ->
  p ++ q = l ++ s ->
  (forall p'' k', p'' ++ q = s ->
     err_of (raw_payload (cb :: l) (if ext then n + 1 else n) (rd_at p'' k')) = IncompleteInput) ->
  err_of (raw_then cb w ext (rd_at p k)) = IncompleteInput.
Proof.
  intros cb w ext n l p q s k Hl H HK. apply split_app in H as [(t & Et & Ht)|(p'' & -> & H')].
  - symmetry in Et. pose proof (short_of_app _ _ _ Et Ht) as Hs.
    rewrite (is_be_length _ _ _ Hl) in Hs. unfold raw_then.
    destruct (read_n_short w p k Hs) as [r E]. rewrite E. reflexivity.
  - rewrite (raw_then_is_be _ _ _ _ _ _ _ Hl). apply HK. exact H'.
Qed.

Lemma key_hdr_then_prefix_is_be : forall w n l (p q s : bytes) k, is_be w n l ->
  n <= max_string_length -> p ++ q = l ++ s ->
  (forall p'' k', p'' ++ q = s -> err_of (key_payload n (rd_at p'' k')) = IncompleteInput) ->
  err_of (key_hdr_then w (rd_at p k)) = IncompleteInput.
Proof.
  intros w n l p q s k Hl Hm H HK. apply split_app in H as [(t & Et & Ht)|(p'' & -> & H')].
  - symmetry in Et. pose proof (short_of_app _ _ _ Et Ht) as Hs.
    rewrite (is_be_length _ _ _ Hl) in Hs. unfold key_hdr_then.
    destruct (read_n_short w p k Hs) as [r E]. rewrite E. reflexivity.
  - rewrite (key_hdr_then_is_be _ _ _ _ _ Hl Hm). apply HK. exact H'.
Qed.

Lemma str_hdr_prefix : forall cf pv' Lz n h (p q s : bytes) k, StrHdr n h -> p ++ q = h ++ s ->
  (forall p'' k', p'' ++ q = s -> err_of (str_payload n (rd_at p'' k')) = IncompleteInput) ->
  err_of (mp_body cf pv' Lz None (rd_at p k)) = IncompleteInput.
Proof.
  intros cf pv' Lz n h p q s k Hh H HK.
  destruct Hh as [n Hn|n l Hl|n l Hl|n l Hl]; cbn [app] in H;
    (apply prefix_cons in H as [->|(p' & -> & H')]; [apply body_empty|]).
  - rewrite to_N_bz by lia. rewrite body_fixstr by lia. apply HK. exact H'.
  - change 0xD9%N with (bz 0xD9). rewrite body_str8. exact (hdr_then_prefix_is_be _ _ _ _ _ _ _ _ Hl H' HK).
  - change 0xDA%N with (bz 0xDA). rewrite body_str16. exact (hdr_then_prefix_is_be _ _ _ _ _ _ _ _ Hl H' HK).
  - change 0xDB%N with (bz 0xDB). rewrite body_str32. exact (hdr_then_prefix_is_be _ _ _ _ _ _ _ _ Hl H' HK).
Qed.

Lemma arr_hdr_prefix : forall cf pv' Lz n h (p q s : bytes) k, ArrHdr n h -> p ++ q = h ++ s ->
  (forall p'' k', p'' ++ q = s -> err_of (arr_payload pv' Lz n (rd_at p'' k')) = IncompleteInput) ->
  err_of (mp_body cf pv' Lz None (rd_at p k)) = IncompleteInput.
Proof.
  intros cf pv' Lz n h p q s k Hh H HK.
  destruct Hh as [n Hn|n l Hl|n l Hl]; cbn [app] in H;
    (apply prefix_cons in H as [->|(p' & -> & H')]; [apply body_empty|]).
  - rewrite to_N_bz by lia. rewrite body_fixarr by lia. apply HK. exact H'.
  - change 0xDC%N with (bz 0xDC). rewrite body_arr16. exact (hdr_then_prefix_is_be _ _ _ _ _ _ _ _ Hl H' HK).
  - change 0xDD%N with (bz 0xDD). rewrite body_arr32. exact (hdr_then_prefix_is_be _ _ _ _ _ _ _ _ Hl H' HK).
Qed.

Lemma map_hdr_prefix : forall cf pv' Lz n h (p q s : bytes) k, MapHdr n h -> p ++ q = h ++ s ->
  (forall p'' k', p'' ++ q = s -> err_of (map_payload pv' Lz n (rd_at p'' k')) = IncompleteInput) ->
  err_of (mp_body cf pv' Lz None (rd_at p k)) = IncompleteInput.
Proof.
  intros cf pv' Lz n h p q s k Hh H HK.
  destruct Hh as [n Hn|n l Hl|n l Hl]; cbn [app] in H;
    (apply prefix_cons in H as [->|(p' & -> & H')]; [apply body_empty|]).
  - rewrite to_N_bz by lia. rewrite body_fixmap by lia. apply HK. exact H'.
  - change 0xDE%N with (bz 0xDE). rewrite body_map16. exact (hdr_then_prefix_is_be _ _ _ _ _ _ _ _ Hl H' HK).
  - change 0xDF%N with (bz 0xDF). rewrite body_map32. exact (hdr_then_prefix_is_be _ _ _ _ _ _ _ _ Hl H' HK).
Qed.

Lemma bin_hdr_prefix : forall cf pv' Lz n h (p q s : bytes) k, BinHdr n h -> p ++ q = h ++ s ->
  (forall p'' k', p'' ++ q = s -> err_of (raw_payload h n (rd_at p'' k')) = IncompleteInput) ->
  err_of (mp_body cf pv' Lz None (rd_at p k)) = IncompleteInput.
Proof.
  intros cf pv' Lz n h p q s k Hh H HK.
  destruct Hh as [n l Hl|n l Hl|n l Hl]; cbn [app] in H;
    (apply prefix_cons in H as [->|(p' & -> & H')]; [apply body_empty|]).
  - rewrite body_bin8. exact (raw_then_prefix_is_be _ _ false _ _ _ _ _ _ Hl H' HK).
  - rewrite body_bin16. exact (raw_then_prefix_is_be _ _ false _ _ _ _ _ _ Hl H' HK).
  - rewrite body_bin32. exact (raw_then_prefix_is_be _ _ false _ _ _ _ _ _ Hl H' HK).
Qed.

Lemma ext_hdr_prefix : forall cf pv' Lz n h (p q s : bytes) k, ExtHdr n h -> p ++ q = h ++ s ->
  (forall p'' k', p'' ++ q = s -> err_of (raw_payload h (n + 1) (rd_at p'' k')) = IncompleteInput) ->
  err_of (mp_body cf pv' Lz None (rd_at p k)) = IncompleteInput.
Proof.
  intros cf pv' Lz n h p q s k Hh H HK.
  destruct Hh as [| | | | |n l Hl|n l Hl|n l Hl]; cbn [app] in H;
    (apply prefix_cons in H as [->|(p' & -> & H')]; [apply body_empty|]).
  - rewrite body_fixext1, (raw_after_payload _ [] 0%nat _ _ eq_refl). apply HK. exact H'.
  - rewrite body_fixext2, (raw_after_payload _ [] 0%nat _ _ eq_refl). apply HK. exact H'.
  - rewrite body_fixext4, (raw_after_payload _ [] 0%nat _ _ eq_refl). apply HK. exact H'.
  - rewrite body_fixext8, (raw_after_payload _ [] 0%nat _ _ eq_refl). apply HK. exact H'.
  - rewrite body_fixext16, (raw_after_payload _ [] 0%nat _ _ eq_refl). apply HK. exact H'.
  - rewrite body_ext8. exact (raw_then_prefix_is_be _ _ true _ _ _ _ _ _ Hl H' HK).
  - rewrite body_ext16. exact (raw_then_prefix_is_be _ _ true _ _ _ _ _ _ Hl H' HK).
  - rewrite body_ext32. exact (raw_then_prefix_is_be _ _ true _ _ _ _ _ _ Hl H' HK).
Qed.

Lemma key_hdr_prefix : forall n h (p q s : bytes) k, StrHdr n h -> n <= max_string_length ->
  p ++ q = h ++ s ->
  (forall p'' k', p'' ++ q = s -> err_of (key_payload n (rd_at p'' k')) = IncompleteInput) ->
  err_of (mp_read_key (rd_at p k)) = IncompleteInput.
Proof.
  intros n h p q s k Hh Hm H HK.
  destruct Hh as [n Hn|n l Hl|n l Hl|n l Hl]; cbn [app] in H;
    (apply prefix_cons in H as [->|(p' & -> & H')]; [apply key_empty|]).
  - rewrite to_N_bz by lia. rewrite key_fixstr by lia. apply HK. exact H'.
  - change 0xD9%N with (bz 0xD9). rewrite key_str8. exact (key_hdr_then_prefix_is_be _ _ _ _ _ _ _ Hl Hm H' HK).
  - change 0xDA%N with (bz 0xDA). rewrite key_str16. exact (key_hdr_then_prefix_is_be _ _ _ _ _ _ _ Hl Hm H' HK).
  - change 0xDB%N with (bz 0xDB). rewrite key_str32. exact (key_hdr_then_prefix_is_be _ _ _ _ _ _ _ Hl Hm H' HK).
Qed.

Lemma raw_payload_short : forall h size p k, Z.of_nat (length h) + size <= max_string_length ->
  Z.of_nat (length p) < size -> err_of (raw_payload h size (rd_at p k)) = IncompleteInput.
Proof.
  intros h size p k Hm Hs. unfold raw_payload.
  destruct (Z.ltb_spec max_string_length (Z.of_nat (length h) + size)); [lia|].
  destruct (read_z_short size p k Hs) as [r E]. rewrite E. reflexivity.
Qed.

Lemma key_prefix_gen : forall key hk p q k, StrHdr (Z.of_nat (length key)) hk ->
  Z.of_nat (length key) <= max_string_length -> hk ++ key = p ++ q -> q <> [] ->
  err_of (mp_read_key (rd_at p k)) = IncompleteInput.
Proof.
  intros key hk p q k Hh Hm H Hq. symmetry in H.
  apply (key_hdr_prefix _ _ _ _ _ k Hh Hm H). intros p'' k' H'.
  unfold key_payload. pose proof (short_of_app _ _ _ H' Hq) as Hs.
  destruct (read_z_short (Z.of_nat (length key)) p'' k' ltac:(lia)) as [r E]. rewrite E. reflexivity.
Qed.

Lemma clip_count_min : forall n p k, clip_count (Z.of_nat n) (rd_at p k) = Nat.min n (S (length p)).
Proof. intros n p k. unfold clip_count. cbn [rd_at m_rest]. lia. Qed.

(* the cut falls inside element number (length of the complete ones): the loop is still running *)
Lemma array_loop_prefix_gen : forall (pv : pvT) (ud : bool) (P : mpv -> Prop),
  (forall v b, MpEnc v b -> P v -> forall rest k,
     pv None true (rd_at (b ++ rest) k) = (Ok, mp_den ud v, rd_at rest (k + N.of_nat (length b)))) ->
  (forall v b, MpEnc v b -> P v -> forall p q k, b = p ++ q -> q <> [] ->
     err_of (pv None true (rd_at p k)) = IncompleteInput) ->
  forall l bs, MpEncs l bs -> (forall x, In x l -> P x) ->
  forall p q, p ++ q = bs -> q <> [] ->
  forall cnt acc k, (Nat.min (length l) (S (length p)) <= cnt)%nat ->
    err_of (mp_array_loop pv cnt None true acc (rd_at p k)) = IncompleteInput.
Proof.
  intros pv ud P Hc Hp l bs H. induction H as [|v b l bs Hv Hl IH]; intros HP p q Hpq Hq cnt acc k Hcnt.
  - apply app_eq_nil in Hpq as [_ ->]. congruence.
  - cbn [length] in Hcnt. destruct cnt as [|cnt]; [lia|]. cbn [mp_array_loop f_allow].
    pose proof (HP v (or_introl eq_refl)) as Pv.
    apply split_app in Hpq as [(t & Et & Ht)|(p2 & -> & H2)].
    + pose proof (Hp v b Hv Pv p t k Et Ht) as E.
      destruct (pv None true (rd_at p k)) as [[e v0] r]. cbn in E. subst e. reflexivity.
    + rewrite (Hc v b Hv Pv). apply (IH (fun y Hy => HP y (or_intror Hy)) p2 q H2 Hq).
      pose proof (MpEnc_nonempty _ _ Hv). rewrite app_length in Hcnt. lia.
Qed.

Lemma object_loop_prefix_gen : forall (pv : pvT) (ud : bool) (P : mpv -> Prop),
  (forall v b, MpEnc v b -> P v -> forall rest k,
     pv None true (rd_at (b ++ rest) k) = (Ok, mp_den ud v, rd_at rest (k + N.of_nat (length b)))) ->
  (forall v b, MpEnc v b -> P v -> forall p q k, b = p ++ q -> q <> [] ->
     err_of (pv None true (rd_at p k)) = IncompleteInput) ->
  forall l bs, MpMembers l bs ->
  (forall kv, In kv l -> Z.of_nat (length (fst kv)) <= max_string_length /\ P (snd kv)) ->
  forall p q, p ++ q = bs -> q <> [] ->
  forall cnt acc k, (Nat.min (length l) (S (length p)) <= cnt)%nat ->
    err_of (mp_object_loop pv cnt None acc (rd_at p k)) = IncompleteInput.
Proof.
  intros pv ud P Hc Hp l bs H.
  induction H as [|key hk v b l bs Hk Hv Hl IH]; intros HP p q Hpq Hq cnt acc k Hcnt.
  - apply app_eq_nil in Hpq as [_ ->]. congruence.
  - cbn [length] in Hcnt. destruct cnt as [|cnt]; [lia|]. cbn [mp_object_loop].
    destruct (HP _ (or_introl eq_refl)) as [Hm Pv]. cbn [fst snd] in Hm, Pv.
    apply split_app in Hpq as [(t & Et & Ht)|(p2 & -> & H2)].
    + pose proof (key_prefix_gen key hk p t k Hk Hm Et Ht) as E.
      destruct (mp_read_key (rd_at p k)) as [[e v0] r]. cbn in E. subst e. reflexivity.
    + rewrite (read_key_complete _ _ _ _ Hk Hm). cbn [f_member f_allow].
      apply split_app in H2 as [(t & Et & Ht)|(p3 & -> & H3)].
      * pose proof (Hp v b Hv Pv p2 t (k + N.of_nat (length (hk ++ key)))%N Et Ht) as E.
        destruct (pv None true (rd_at p2 (k + N.of_nat (length (hk ++ key)))%N)) as [[e v0] r].
        cbn in E. subst e. reflexivity.
      * rewrite (Hc v b Hv Pv). apply (IH (fun y Hy => HP y (or_intror Hy)) p3 q H3 Hq).
        pose proof (StrHdr_nonempty _ _ Hk). rewrite !app_length in Hcnt. lia.
Qed.

Lemma body_prefix : forall cf pv' Lz L',
  (Lz = false -> forall v b, MpEnc v b -> deep_ok L' v -> forall rest k,
     pv' None true (rd_at (b ++ rest) k) =
       (Ok, mp_den (use_double cf) v, rd_at rest (k + N.of_nat (length b)))) ->
  (Lz = false -> forall v b, MpEnc v b -> deep_ok L' v -> forall p q k, b = p ++ q -> q <> [] ->
     err_of (pv' None true (rd_at p k)) = IncompleteInput) ->
  forall v b, MpEnc v b -> mp_limits v -> (mpv_depth v <= if Lz then 0 else S L')%nat ->
  forall p q k, b = p ++ q -> q <> [] ->
    err_of (mp_body cf pv' Lz None (rd_at p k)) = IncompleteInput.
Proof.
  intros cf pv' Lz L' Hc Hp v b H Hlim Hd p q k Hpq Hq.
  assert (Single : forall c : N, [c] = p ++ q ->
            err_of (mp_body cf pv' Lz None (rd_at p k)) = IncompleteInput).
  { intros c E. rewrite (single_prefix c p q E Hq). apply body_empty. }
  assert (IntC : forall cb w n l, 0xCC <= Z.of_N cb <= 0xD3 ->
            Z.to_nat (2 ^ ((Z.of_N cb - 0xCC) mod 4)) = w -> is_be w n l -> cb :: l = p ++ q ->
            err_of (mp_body cf pv' Lz None (rd_at p k)) = IncompleteInput).
  { intros cb w n l Hcb Hw Hl E. exact (intcode_prefix cf pv' Lz cb w n l p q k Hcb Hw Hl E Hq). }
  destruct H.
  - exact (Single _ Hpq).
  - exact (Single _ Hpq).
  - exact (Single _ Hpq).
  - exact (Single _ Hpq).
  - exact (Single _ Hpq).
  - apply (IntC 0xCC%N 1%nat z l); [vm_compute; split; discriminate|reflexivity|assumption..].
  - apply (IntC 0xCD%N 2%nat z l); [vm_compute; split; discriminate|reflexivity|assumption..].
  - apply (IntC 0xCE%N 4%nat z l); [vm_compute; split; discriminate|reflexivity|assumption..].
  - apply (IntC 0xCF%N 8%nat z l); [vm_compute; split; discriminate|reflexivity|assumption..].
  - eapply (IntC 0xD0%N 1%nat _ l); [vm_compute; split; discriminate|reflexivity|eassumption|assumption].
  - eapply (IntC 0xD1%N 2%nat _ l); [vm_compute; split; discriminate|reflexivity|eassumption|assumption].
  - eapply (IntC 0xD2%N 4%nat _ l); [vm_compute; split; discriminate|reflexivity|eassumption|assumption].
  - eapply (IntC 0xD3%N 8%nat _ l); [vm_compute; split; discriminate|reflexivity|eassumption|assumption].
  - (* float 32 *)
    destruct (fixed_prefix _ _ _ _ Hpq Hq) as [->|(p' & -> & Hs)]; [apply body_empty|].
    change 0xCA%N with (bz 0xCA). rewrite body_f32. rewrite (is_be_length _ _ _ H) in Hs.
    destruct (read_n_short 4 p' (k + 1)%N Hs) as [r E]. rewrite E. reflexivity.
  - (* float 64 *)
    destruct (fixed_prefix _ _ _ _ Hpq Hq) as [->|(p' & -> & Hs)]; [apply body_empty|].
    change 0xCB%N with (bz 0xCB). rewrite body_f64. rewrite (is_be_length _ _ _ H) in Hs.
    destruct (read_n_short 8 p' (k + 1)%N Hs) as [r E]. rewrite E. reflexivity.
  - (* str *)
    cbn [mp_limits] in Hlim. symmetry in Hpq.
    apply (str_hdr_prefix cf pv' Lz _ _ _ _ _ k H Hpq). intros p2 k' H2.
    apply str_payload_short; [exact Hlim|]. pose proof (short_of_app _ _ _ H2 Hq). lia.
  - (* bin *)
    cbn [mp_limits] in Hlim. rewrite app_length in Hlim. symmetry in Hpq.
    apply (bin_hdr_prefix cf pv' Lz _ _ _ _ _ k H Hpq). intros p2 k' H2.
    apply raw_payload_short; [rewrite <- max_alloc_eq; lia|]. pose proof (short_of_app _ _ _ H2 Hq). lia.
  - (* ext *)
    cbn [mp_limits] in Hlim. rewrite app_length in Hlim. cbn [length] in Hlim. symmetry in Hpq.
    apply (ext_hdr_prefix cf pv' Lz _ _ _ _ _ k H Hpq). intros p2 k' H2.
    apply raw_payload_short; [rewrite <- max_alloc_eq; lia|].
    pose proof (short_of_app _ _ _ H2 Hq) as Hs. cbn [length] in Hs. lia.
  - (* array *)
    cbn [mp_limits] in Hlim. destruct Hlim as [_ Hall]. cbn [mpv_depth] in Hd.
    destruct Lz; [lia|]. specialize (Hc eq_refl). specialize (Hp eq_refl). symmetry in Hpq.
    apply (arr_hdr_prefix cf pv' false _ _ _ _ _ k H Hpq). intros p2 k' H2.
    rewrite err_arr_payload.
    assert (HP : forall x, In x l -> deep_ok L' x).
    { intros x Hx. split; [exact (fold_and_In _ mp_limits l Hall x Hx)|].
      pose proof (nesting_In _ mpv_depth l x Hx). lia. }
    apply (array_loop_prefix_gen pv' (use_double cf) (deep_ok L') Hc Hp l bs H0 HP p2 q H2 Hq).
    rewrite clip_count_min. lia.
  - (* map *)
    cbn [mp_limits] in Hlim. destruct Hlim as [_ Hall]. cbn [mpv_depth] in Hd.
    destruct Lz; [lia|]. specialize (Hc eq_refl). specialize (Hp eq_refl). symmetry in Hpq.
    apply (map_hdr_prefix cf pv' false _ _ _ _ _ k H Hpq). intros p2 k' H2.
    rewrite err_map_payload.
    assert (HP : forall kv, In kv l ->
              Z.of_nat (length (fst kv)) <= max_string_length /\ deep_ok L' (snd kv)).
    { intros x Hx.
      destruct (fold_and_In _ (fun kv => Z.of_nat (length (fst kv)) <= mp_max_alloc /\ mp_limits (snd kv))
                  l Hall x Hx) as [Hk Hv].
      split; [exact Hk|]. split; [exact Hv|].
      pose proof (nesting_In _ (fun kv => mpv_depth (snd kv)) l x Hx). cbv beta in *. lia. }
    apply (object_loop_prefix_gen pv' (use_double cf) (deep_ok L') Hc Hp l bs H0 HP p2 q H2 Hq).
    rewrite clip_count_min. lia.
Qed.

Theorem mp_prefix_gen2 : forall cf L v b, MpEnc v b -> mp_limits v -> (mpv_depth v <= L)%nat ->
  forall p q k, b = p ++ q -> q <> [] ->
  err_of (mp_parse cf L None true (rd_at p k)) = IncompleteInput.
Proof.
  intros cf. induction L as [|L IH]; intros v b H Hlim Hd p q k Hpq Hq; rewrite mp_parse_eq.
  - apply (body_prefix cf _ (is_O 0) 0 ltac:(discriminate) ltac:(discriminate) v b H Hlim Hd p q k Hpq Hq).
  - apply (body_prefix cf _ (is_O (S L)) L) with (v := v) (b := b) (q := q); try assumption.
    + intros _ v' b' H' [Hl' Hd'] rest' k'. cbn [pv_of]. apply mp_complete_gen; assumption.
    + intros _ v' b' H' [Hl' Hd'] p' q' k' E' Hq'. cbn [pv_of].
      exact (IH v' b' H' Hl' Hd' p' q' k' E' Hq').
Qed.

(* a legal encoding cut anywhere before its end: IncompleteInput (EmptyInput if nothing is left) *)
Theorem mp_prefix_incomplete_gen : forall cf v b L, MpEnc v b -> mp_limits v ->
  (mpv_depth v <= L)%nat -> forall p q, b = p ++ q -> q <> [] ->
  mp_err (mp_run cf None L p) = match p with [] => EmptyInput | _ => IncompleteInput end.
Proof.
  intros cf v b L H Hlim Hd p q Hpq Hq. unfold mp_run.
  pose proof (mp_prefix_gen2 cf L v b H Hlim Hd p q 0%N Hpq Hq) as He. unfold rd_at in He.
  destruct (mp_parse cf L None true {| m_rest := p; m_reads := 0 |}) as [[e v'] r].
  cbn in He. subst e. destruct p; reflexivity.
Qed.

(* ------------------------------------------------------------------------------------- *)
(* sanity: what the library's serializer writes is a legal encoding (the narrowest one), so
   MsgPackRT's round-trip theorems are instances of the completeness theorem *)

Definition mpv_of_f32 (f : spec_float) : mpv :=
  if f32_fits_i64 f then
    let t := f_trunc f in
    if f_eq f (f_of_Z F32 t) then MInt t else MF32 (bits_of_sf F32 f)
  else MF32 (bits_of_sf F32 f).

Definition mpv_of_f64 (f : spec_float) : mpv :=
  let v32 := fconv F32 f in
  if f_eq (fconv F64 v32) f then mpv_of_f32 v32 else MF64 (bits_of_sf F64 f).

Fixpoint mpv_of (v : jv) : mpv :=
  match v with
  | JNull => MNil
  | JBool b => MBool b
  | JInt z => MInt z
  | JFloat f => mpv_of_f32 f
  | JDouble f => mpv_of_f64 f
  | JStr s => MStr s
  | JRaw r => MBin r
  | JArr l => MArr (map mpv_of l)
  | JObj l => MMap (map (fun kv => (fst kv, mpv_of (snd kv))) l)
  end.

Lemma be_bytes_is_be_mod : forall w z, is_be w (z mod 2 ^ (8 * Z.of_nat w)) (be_bytes w z).
Proof.
  intros w z. split; [apply be_bytes_length|]. split; [apply be_bytes_range|].
  rewrite <- be_value_be_bytes_mod. rewrite be_value_num. lia.
Qed.

Lemma be_bytes_is_be : forall w z, 0 <= z < 2 ^ (8 * Z.of_nat w) -> is_be w z (be_bytes w z).
Proof.
  intros w z H. pose proof (be_bytes_is_be_mod w z) as B. rewrite Z.mod_small in B by exact H. exact B.
Qed.

Lemma twos_mod : forall w z, (1 <= w)%nat -> fits_signed w z -> twos w z = z mod 2 ^ (8 * Z.of_nat w).
Proof.
  intros w z Hw H. unfold fits_signed in H. unfold twos.
  set (k := 8 * Z.of_nat w) in *.
  assert (Hk : 2 ^ k = 2 * 2 ^ (k - 1)).
  { replace k with (k - 1 + 1) at 1 by lia. rewrite Z.pow_add_r by lia. lia. }
  assert (Hp : 0 < 2 ^ (k - 1)) by (apply Z.pow_pos_nonneg; lia).
  destruct (Z.ltb_spec z 0) as [Hn|Hn].
  - apply (Z.mod_unique z (2 ^ k) (-1)); lia.
  - symmetry. apply Z.mod_small. lia.
Qed.

Lemma be_bytes_is_be_twos : forall w z, (1 <= w)%nat -> fits_signed w z ->
  is_be w (twos w z) (be_bytes w z).
Proof. intros w z Hw H. rewrite twos_mod by assumption. apply be_bytes_is_be_mod. Qed.

Lemma mp_int_legal : forall z, - 2 ^ 63 <= z < 2 ^ 64 -> MpEnc (MInt z) (mp_int z).
Proof.
  intros z Hz. unfold mp_int, mp_uint.
  destruct (Z.ltb_spec 0 z) as [Hp|Hp].
  - destruct (Z.leb_spec z 0x7F) as [H1|H1].
    { rewrite be_bytes_1, <- to_N_bz by lia. apply E_posfix. lia. }
    destruct (Z.leb_spec z 0xFF) as [H2|H2].
    { apply E_uint8. apply be_bytes_is_be. change (2 ^ (8 * Z.of_nat 1)) with 256. lia. }
    destruct (Z.leb_spec z 0xFFFF) as [H3|H3].
    { apply E_uint16. apply be_bytes_is_be. change (2 ^ (8 * Z.of_nat 2)) with 65536. lia. }
    destruct (Z.leb_spec z 0xFFFFFFFF) as [H4|H4].
    { apply E_uint32. apply be_bytes_is_be. change (2 ^ (8 * Z.of_nat 4)) with 4294967296. lia. }
    apply E_uint64. apply be_bytes_is_be. change (2 ^ (8 * Z.of_nat 8)) with (2 ^ 64). lia.
  - destruct (Z.leb_spec (-0x20) z) as [H1|H1].
    { rewrite be_bytes_1. destruct (Z.eq_dec z 0) as [->|Hnz]; [apply (E_posfix 0); lia|].
      unfold bz. replace (z mod 256) with (256 + z)
        by (apply (Z.mod_unique z 256 (-1)); lia).
      apply E_negfix. lia. }
    destruct (Z.leb_spec (-0x80) z) as [H2|H2].
    { assert (F : fits_signed 1 z) by (unfold fits_signed; change (2 ^ (8 * Z.of_nat 1 - 1)) with 128; lia).
      apply E_int8; [exact F|]. apply be_bytes_is_be_twos; [lia|exact F]. }
    destruct (Z.leb_spec (-0x8000) z) as [H3|H3].
    { assert (F : fits_signed 2 z) by (unfold fits_signed; change (2 ^ (8 * Z.of_nat 2 - 1)) with 32768; lia).
      apply E_int16; [exact F|]. apply be_bytes_is_be_twos; [lia|exact F]. }
    destruct (Z.leb_spec (-0x80000000) z) as [H4|H4].
    { assert (F : fits_signed 4 z)
        by (unfold fits_signed; change (2 ^ (8 * Z.of_nat 4 - 1)) with 2147483648; lia).
      apply E_int32; [exact F|]. apply be_bytes_is_be_twos; [lia|exact F]. }
    assert (F : fits_signed 8 z)
      by (unfold fits_signed; change (2 ^ (8 * Z.of_nat 8 - 1)) with (2 ^ 63); lia).
    apply E_int64; [exact F|]. apply be_bytes_is_be_twos; [lia|exact F].
Qed.

Lemma str_header_legal : forall n, 0 <= n < 2 ^ 32 -> StrHdr n (mp_str_header n).
Proof.
  intros n H. unfold mp_str_header.
  destruct (Z.ltb_spec n 0x20); [rewrite <- to_N_bz by lia; apply SH_fix; lia|].
  destruct (Z.ltb_spec n 0x100).
  { apply SH_8. apply be_bytes_is_be. change (2 ^ (8 * Z.of_nat 1)) with 256. lia. }
  destruct (Z.ltb_spec n 0x10000).
  { apply SH_16. apply be_bytes_is_be. change (2 ^ (8 * Z.of_nat 2)) with 65536. lia. }
  apply SH_32. apply be_bytes_is_be. change (2 ^ (8 * Z.of_nat 4)) with (2 ^ 32). lia.
Qed.

Lemma arr_header_legal : forall n, 0 <= n < 2 ^ 32 -> ArrHdr n (mp_arr_header n).
Proof.
  intros n H. unfold mp_arr_header.
  destruct (Z.ltb_spec n 0x10); [rewrite <- to_N_bz by lia; apply AH_fix; lia|].
  destruct (Z.ltb_spec n 0x10000).
  { apply AH_16. apply be_bytes_is_be. change (2 ^ (8 * Z.of_nat 2)) with 65536. lia. }
  apply AH_32. apply be_bytes_is_be. change (2 ^ (8 * Z.of_nat 4)) with (2 ^ 32). lia.
Qed.

Lemma map_header_legal : forall n, 0 <= n < 2 ^ 32 -> MapHdr n (mp_map_header n).
Proof.
  intros n H. unfold mp_map_header.
  destruct (Z.ltb_spec n 0x10); [rewrite <- to_N_bz by lia; apply MH_fix; lia|].
  destruct (Z.ltb_spec n 0x10000).
  { apply MH_16. apply be_bytes_is_be. change (2 ^ (8 * Z.of_nat 2)) with 65536. lia. }
  apply MH_32. apply be_bytes_is_be. change (2 ^ (8 * Z.of_nat 4)) with (2 ^ 32). lia.
Qed.

Lemma mp_f32_legal : forall f, valid_binary 24 128 f = true -> MpEnc (mpv_of_f32 f) (mp_f32 f).
Proof.
  intros f Hv. destruct (valid32_ok f Hv) as [[Hb _] Ht]. unfold mpv_of_f32, mp_f32.
  assert (FC : MpEnc (MF32 (bits_of_sf F32 f)) (bz 0xCA :: be_bytes 4 (bits_of_sf F32 f))).
  { apply E_float32. apply be_bytes_is_be. exact Hb. }
  destruct (f32_fits_i64 f); [|exact FC]. cbv zeta.
  destruct (f_eq f (f_of_Z F32 (f_trunc f))); [|exact FC].
  apply mp_int_legal. apply Ht. reflexivity.
Qed.

Lemma mp_f64_legal : forall f, valid_binary 53 1024 f = true -> MpEnc (mpv_of_f64 f) (mp_f64 f).
Proof.
  intros f Hv. destruct (valid64_repr_ok f Hv) as [Hb _]. unfold mpv_of_f64, mp_f64. cbv zeta.
  destruct (f_eq (fconv F64 (fconv F32 f)) f); [apply mp_f32_legal; apply fconv_valid32|].
  apply E_float64. apply be_bytes_is_be. exact Hb.
Qed.

Lemma den_f32 : forall ud f, valid_binary 24 128 f = true -> mp_den ud (mpv_of_f32 f) = mp_norm_f32 f.
Proof.
  intros ud f Hv. destruct (valid32_repr_ok f Hv) as [_ Hr]. unfold mpv_of_f32, mp_norm_f32.
  destruct (f32_fits_i64 f); cbv zeta; [destruct (f_eq f (f_of_Z F32 (f_trunc f)))|];
    cbn [mp_den]; rewrite ?Hr; reflexivity.
Qed.

Lemma den_f64 : forall ud f, valid_binary 53 1024 f = true -> mp_den ud (mpv_of_f64 f) = mp_norm_f64 ud f.
Proof.
  intros ud f Hv. destruct (valid64_repr_ok f Hv) as [_ Hr]. unfold mpv_of_f64, mp_norm_f64. cbv zeta.
  destruct (f_eq (fconv F64 (fconv F32 f)) f); [apply den_f32; apply fconv_valid32|].
  cbn [mp_den]. rewrite Hr. reflexivity.
Qed.

Lemma depth_f32 : forall f, mpv_depth (mpv_of_f32 f) = 0%nat.
Proof.
  intros f. unfold mpv_of_f32. destruct (f32_fits_i64 f); cbv zeta;
    [destruct (f_eq f (f_of_Z F32 (f_trunc f)))|]; reflexivity.
Qed.

Lemma limits_f32 : forall f, mp_limits (mpv_of_f32 f).
Proof.
  intros f. unfold mpv_of_f32. destruct (f32_fits_i64 f); cbv zeta;
    [destruct (f_eq f (f_of_Z F32 (f_trunc f)))|]; exact I.
Qed.

Lemma fold_max_map : forall (A B : Type) (g : B -> nat) (h : A -> nat) (m : A -> B) (l : list A),
  (forall x, In x l -> g (m x) = h x) ->
  fold_right (fun x a => Nat.max (g x) a) 0%nat (map m l) = fold_right (fun x a => Nat.max (h x) a) 0%nat l.
Proof.
  intros A B g h m l. induction l as [|x l IH]; intros H; cbn [map fold_right]; [reflexivity|].
  rewrite (H x (or_introl eq_refl)), IH by (intros y Hy; apply H; right; exact Hy). reflexivity.
Qed.

Lemma fold_and_map : forall (A B : Type) (Q : B -> Prop) (m : A -> B) (l : list A),
  (forall x, In x l -> Q (m x)) -> fold_right (fun x P => Q x /\ P) True (map m l).
Proof.
  intros A B Q m l. induction l as [|x l IH]; intros H; cbn [map fold_right]; [exact I|].
  split; [apply H; left; reflexivity|apply IH; intros y Hy; apply H; right; exact Hy].
Qed.

Lemma MpEncs_map : forall (l : list jv), (forall x, In x l -> MpEnc (mpv_of x) (mp_ser x)) ->
  MpEncs (map mpv_of l) (concat (map mp_ser l)).
Proof.
  induction l as [|x l IH]; intros H; cbn [map concat]; [constructor|].
  apply Es_cons; [apply H; left; reflexivity|apply IH; intros y Hy; apply H; right; exact Hy].
Qed.

Lemma MpMembers_map : forall (l : list (bytes * jv)),
  (forall kv, In kv l -> Z.of_nat (length (fst kv)) < 2 ^ 32 /\ MpEnc (mpv_of (snd kv)) (mp_ser (snd kv))) ->
  MpMembers (map (fun kv => (fst kv, mpv_of (snd kv))) l) (concat (map ser_member l)).
Proof.
  induction l as [|x l IH]; intros H; cbn [map concat]; [constructor|].
  destruct (H x (or_introl eq_refl)) as [Hk Hv]. unfold ser_member at 1. unfold mp_str.
  rewrite <- (app_assoc (mp_str_header _ ++ fst x)).
  apply Em_cons; [apply str_header_legal; lia|exact Hv|].
  apply IH. intros y Hy. apply H. right. exact Hy.
Qed.

Theorem mp_ser_legal_gen : forall L v, mp_ok v -> (nesting v <= L)%nat ->
  MpEnc (mpv_of v) (mp_ser v) /\ mp_limits (mpv_of v) /\ mpv_depth (mpv_of v) = nesting v /\
  forall ud, mp_den ud (mpv_of v) = mp_norm_gen ud v.
Proof.
  induction L as [|L IH]; intros v Hok Hn.
  - destruct v; cbn [mp_ok] in Hok; cbn [mpv_of mp_ser mp_norm_gen nesting];
      try (cbn [nesting] in Hn; lia).
    + repeat split; constructor.
    + repeat split; destruct b; constructor.
    + repeat split. apply mp_int_legal. exact Hok.
    + split; [apply mp_f32_legal; exact Hok|]. split; [apply limits_f32|]. split; [apply depth_f32|].
      intros ud. apply den_f32. exact Hok.
    + split; [apply mp_f64_legal; exact Hok|]. unfold mpv_of_f64. cbv zeta.
      destruct (f_eq (fconv F64 (fconv F32 f)) f) eqn:E.
      * split; [apply limits_f32|]. split; [apply depth_f32|]. intros ud.
        unfold mp_norm_f64. cbv zeta. rewrite E. apply den_f32. apply fconv_valid32.
      * split; [exact I|]. split; [reflexivity|]. intros ud.
        pose proof (den_f64 ud f Hok) as D. unfold mpv_of_f64 in D. cbv zeta in D. rewrite E in D. exact D.
    + destruct Hok as [_ Hlen]. split; [|split; [exact Hlen|split; reflexivity]].
      unfold mp_str. apply E_str. apply str_header_legal. unfold max_string_length in Hlen. lia.
  - destruct v; try (apply (IH _ Hok); cbn [nesting]; lia); cbn [mp_ok] in Hok.
    + (* array *)
      destruct Hok as [Hlen Hall]. cbn [nesting] in Hn.
      assert (Hin : forall x, In x l ->
                MpEnc (mpv_of x) (mp_ser x) /\ mp_limits (mpv_of x) /\ mpv_depth (mpv_of x) = nesting x /\
                forall ud, mp_den ud (mpv_of x) = mp_norm_gen ud x).
      { intros x Hx. apply IH; [exact (fold_and_In jv mp_ok l Hall x Hx)|].
        pose proof (nesting_In jv nesting l x Hx). lia. }
      cbn [mpv_of mp_ser mp_norm_gen nesting mp_limits mpv_depth mp_den]. split.
      { apply E_arr; [rewrite map_length; apply arr_header_legal; lia|].
        apply MpEncs_map. intros x Hx. apply Hin. exact Hx. }
      split.
      { split; [rewrite map_length; exact Hlen|]. apply fold_and_map. intros x Hx. apply Hin. exact Hx. }
      split.
      { f_equal. apply fold_max_map. intros x Hx. apply Hin. exact Hx. }
      intros ud. f_equal. rewrite map_map. apply map_ext_in. intros x Hx. apply Hin. exact Hx.
    + (* map *)
      destruct Hok as [Hlen Hall]. cbn [nesting] in Hn.
      pose proof (fold_and_In _ (fun kv => str_ok (fst kv) /\ mp_ok (snd kv)) l Hall) as Hin0.
      assert (Hin : forall x, In x l ->
                MpEnc (mpv_of (snd x)) (mp_ser (snd x)) /\ mp_limits (mpv_of (snd x)) /\
                mpv_depth (mpv_of (snd x)) = nesting (snd x) /\
                forall ud, mp_den ud (mpv_of (snd x)) = mp_norm_gen ud (snd x)).
      { intros x Hx. destruct (Hin0 x Hx) as [_ Hv]. apply IH; [exact Hv|].
        pose proof (nesting_In _ (fun kv => nesting (snd kv)) l x Hx). cbv beta in *. lia. }
      cbn [mpv_of mp_ser mp_norm_gen nesting mp_limits mpv_depth mp_den]. split.
      { apply E_map; [rewrite map_length; apply map_header_legal; lia|].
        change (map (fun kv : bytes * jv => mp_str (fst kv) ++ mp_ser (snd kv)) l) with (map ser_member l).
        apply MpMembers_map. intros x Hx. destruct (Hin0 x Hx) as [[_ Hk] _].
        split; [unfold max_string_length in Hk; lia|]. apply Hin. exact Hx. }
      split.
      { split; [rewrite map_length; exact Hlen|].
        apply (fold_and_map _ _ (fun kv => Z.of_nat (length (fst kv)) <= mp_max_alloc /\ mp_limits (snd kv))).
        intros x Hx. cbn [fst snd]. destruct (Hin0 x Hx) as [[_ Hk] _]. split; [exact Hk|]. apply Hin. exact Hx. }
      split.
      { f_equal. apply (fold_max_map _ _ (fun kv => mpv_depth (snd kv)) (fun kv => nesting (snd kv))).
        intros x Hx. cbn [snd]. apply Hin. exact Hx. }
      intros ud. f_equal. rewrite map_map. apply map_ext_in. intros x Hx. cbn [fst snd]. f_equal.
      apply Hin. exact Hx.
Qed.

(* the serializer's output is a legal MessagePack encoding, of an object that denotes the
   normalised document *)
Corollary mp_ser_legal : forall v, mp_ok v ->
  MpEnc (mpv_of v) (mp_ser v) /\ mp_limits (mpv_of v) /\ mpv_depth (mpv_of v) = nesting v /\
  forall ud, mp_den ud (mpv_of v) = mp_norm_gen ud v.
Proof. intros v H. apply (mp_ser_legal_gen (nesting v)); [exact H|lia]. Qed.

(* MsgPackRT's round trip, re-derived from completeness *)
Corollary mp_roundtrip_from_complete : forall cf v L rest k, mp_ok v -> (nesting v <= L)%nat ->
  mp_parse cf L None true {| m_rest := mp_ser v ++ rest; m_reads := k |} =
    (Ok, mp_norm_gen (use_double cf) v,
     {| m_rest := rest; m_reads := (k + N.of_nat (length (mp_ser v)))%N |}).
Proof.
  intros cf v L rest k Hok Hn. destruct (mp_ser_legal v Hok) as (He & Hl & Hd & Hden).
  rewrite <- Hden. apply mp_decode_complete; [exact He|exact Hl|lia].
Qed.

(* ------------------------------------------------------------------------------------- *)
(* the relation is inhabited by encodings the serializer never writes *)

Lemma is_be_intro : forall w n l, length l = w -> forallb (fun b => (b <? 256)%N) l = true ->
  be_num l = n -> is_be w n l.
Proof.
  intros w n l H1 H2 H3. split; [exact H1|]. split; [|exact H3].
  apply Forall_forall. intros x Hx. rewrite forallb_forall in H2. apply N.ltb_lt. apply H2. exact Hx.
Qed.

Example wide_uint64 : MpEnc (MInt 5) [0xCF; 0; 0; 0; 0; 0; 0; 0; 5]%N.
Proof. apply E_uint64. apply is_be_intro; reflexivity. Qed.

Example wide_int32 : MpEnc (MInt (-1)) [0xD2; 0xFF; 0xFF; 0xFF; 0xFF]%N.
Proof.
  apply E_int32; [unfold fits_signed; change (2 ^ (8 * Z.of_nat 4 - 1)) with 2147483648; lia|].
  apply is_be_intro; reflexivity.
Qed.

Example wide_map : MpEnc (MMap [([0x61%N], MArr [MInt 5; MStr [0x62%N]])])
  ([0xDE; 0; 1] ++ (([0xDA; 0; 1] ++ [0x61]) ++
     ([0xDD; 0; 0; 0; 2] ++ ([0xCD; 0; 5] ++ ([0xDB; 0; 0; 0; 1] ++ [0x62]) ++ [])) ++ []))%N.
Proof.
  apply E_map; [apply MH_16; apply is_be_intro; reflexivity|].
  apply Em_cons; [apply SH_16; apply is_be_intro; reflexivity| |constructor].
  apply E_arr; [apply AH_32; apply is_be_intro; reflexivity|].
  apply Es_cons; [apply E_uint16; apply is_be_intro; reflexivity|].
  apply Es_cons; [|constructor].
  apply (E_str [0x62%N]). apply SH_32. apply is_be_intro; reflexivity.
Qed.

Example wide_map_decodes : forall cf,
  mp_run cf None 2 [0xDE; 0; 1; 0xDA; 0; 1; 0x61; 0xDD; 0; 0; 0; 2; 0xCD; 0; 5; 0xDB; 0; 0; 0; 1; 0x62]%N =
    {| mp_err := Ok; mp_doc := JObj [([0x61%N], JArr [JInt 5; JStr [0x62%N]])];
       mp_rd := {| m_rest := []; m_reads := 21 |} |}.
Proof.
  intros cf.
  pose proof (mp_run_complete cf _ _ wide_map) as H. cbn [mp_limits fold_right length fst snd] in H.
  specialize (H ltac:(unfold mp_max_alloc; cbn; repeat split; lia) 2%nat [] ltac:(cbn; lia)).
  exact H.
Qed.

(* the size limits are needed: a str 32 header announcing 65536 bytes is refused outright *)
Example limits_needed :
  mp_err (mp_run default_cfg None 1 [0xDB; 0; 1; 0; 0]%N) = NoMemory.
Proof. reflexivity. Qed.
